import GmQuic.Model.Cost
/-!
Helper lemmas for C04 (`Props/C04/*.lean`): sizes of the range enumeration of a well-formed ACK frame, the merge
loop of qcongestion, sums.
-/
namespace GmQuic.Cost
open GmQuic.RcvdJournal (AckFrame iterRanges pnsDesc covers)

theorem iterRanges_length : ∀ (left : Nat) (rs out : List (Nat × Nat)),
    iterRanges left rs = some out → out.length = rs.length
  | _, [], out, h => by simp [iterRanges] at h; subst h; rfl
  | left, (g, r) :: rest, out, h => by
    simp only [iterRanges] at h
    split at h; · cases h
    split at h; · cases h
    cases hr : iterRanges (left - g - 2 - r) rest with
    | none => simp [hr] at h
    | some o =>
      simp [hr] at h; subst h
      simp [iterRanges_length _ rest o hr]

/-- the ranges after the first enumerate fewer packet numbers than the smallest number of the previous range -/
theorem iterRanges_pns : ∀ (left : Nat) (rs out : List (Nat × Nat)),
    iterRanges left rs = some out → (pnsDesc out).length ≤ left
  | _, [], out, h => by simp [iterRanges] at h; subst h; simp [pnsDesc]
  | left, (g, r) :: rest, out, h => by
    simp only [iterRanges] at h
    split at h; · cases h
    split at h; · cases h
    cases hr : iterRanges (left - g - 2 - r) rest with
    | none => simp [hr] at h
    | some o =>
      simp [hr] at h; subst h
      have := iterRanges_pns _ rest o hr
      simp only [pnsDesc, List.length_append, List.length_map, List.length_range]
      omega

theorem iter_length (f : AckFrame) (rs : List (Nat × Nat)) (h : f.iter = some rs) :
    rs.length = f.ranges.length + 1 := by
  unfold AckFrame.iter at h
  split at h; · cases h
  cases hr : iterRanges (f.largest - f.first) f.ranges with
  | none => simp [hr] at h
  | some o => simp [hr] at h; subst h; simp [iterRanges_length _ _ _ hr]

/-- a well-formed frame acknowledges at most `largest + 1` packet numbers -/
theorem iter_pns (f : AckFrame) (rs : List (Nat × Nat)) (h : f.iter = some rs) :
    (pnsDesc rs).length ≤ f.largest + 1 := by
  unfold AckFrame.iter at h
  split at h; · cases h
  cases hr : iterRanges (f.largest - f.first) f.ranges with
  | none => simp [hr] at h
  | some o =>
    simp [hr] at h; subst h
    have := iterRanges_pns _ _ _ hr
    simp only [pnsDesc, List.length_append, List.length_map, List.length_range]
    omega

theorem ccWalk_cost (ps : List CcPkt) (rs : List (Nat × Nat)) : (ccWalk ps rs).2 ≤ ps.length + rs.length := by
  fun_induction ccWalk ps rs <;> simp_all +zetaDelta <;> omega

/-- the merge acknowledges only packets it holds, not yet acknowledged, and covered by a range -/
theorem ccWalk_sound (ps : List CcPkt) (rs : List (Nat × Nat)) :
    ∀ x ∈ (ccWalk ps rs).1, ∃ p ∈ ps, p.pn = x ∧ p.acked = false ∧ covers rs x = true := by
  fun_induction ccWalk ps rs with
  | case1 => intro x hx; simp at hx
  | case2 => intro x hx; simp at hx
  | case3 p ps r rs hlt x ih =>
    intro y hy
    obtain ⟨q, hq, h1, h2, h3⟩ := ih y hy
    refine ⟨q, hq, h1, h2, ?_⟩
    simp only [covers, List.any_cons, Bool.or_eq_true] at h3 ⊢
    exact Or.inr h3
  | case4 p ps r rs hge x ih =>
    intro y hy
    simp only [List.mem_append] at hy
    rcases hy with hy | hy
    · split at hy
      · rename_i hc
        simp at hy; subst hy
        refine ⟨p, by simp, rfl, by simpa using hc.2, ?_⟩
        simp only [covers, List.any_cons, Bool.or_eq_true]
        left
        have : r.1 ≤ p.pn := by omega
        simp [this, hc.1]
      · simp at hy
    · obtain ⟨q, hq, h1, h2, h3⟩ := ih y hy
      refine ⟨q, List.mem_cons_of_mem _ hq, h1, h2, ?_⟩
      exact h3

theorem ccStart_length (sent : List CcPkt) (largest : Nat) : (ccStart sent largest).length ≤ sent.length := by
  unfold ccStart
  cases h : (sent.filter (·.pn ≤ largest)).reverse with
  | nil => simp [List.length_take]; omega
  | cons a l =>
    have h1 := congrArg List.length h
    have h2 := List.length_filter_le (fun p : CcPkt => decide (p.pn ≤ largest)) sent
    simp only [List.length_reverse, List.length_cons] at h1
    simp only [List.length_cons]
    omega

theorem sendSideCost_le (s : SentFrames.State) (pns : List Nat) :
    sendSideCost s pns ≤ pns.length * (s.recs.length + 1) := by
  unfold sendSideCost
  induction pns with
  | nil => simp
  | cons p ps ih =>
    simp only [List.map_cons, List.sum_cons, List.length_cons]
    have : touchCost s p ≤ s.recs.length + 1 := by
      unfold touchCost; simp [List.length_take]; omega
    rw [Nat.add_mul]
    omega

theorem popAcked_length (l : List CcPkt) : (popAcked l).length ≤ l.length := by
  induction l with
  | nil => simp [popAcked]
  | cons p ps ih => simp only [popAcked]; split <;> simp <;> omega

end GmQuic.Cost
