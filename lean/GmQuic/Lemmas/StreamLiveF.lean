import GmQuic.Lemmas.StreamLiveC
import GmQuic.Lemmas.StreamMono
/-!
C01 liveness, part 8: the phases of the cooperative suffix put together.
-/
namespace GmQuic.Stream
open GmQuic.RecvBuf (Bytes covered)

theorem pend_all {s : Stream} (hr : Reach s) : Pend s (List.range s.emitted.length) := by
  right
  refine ⟨fun x hx => ?_, fun hst _ => ?_⟩
  · obtain ⟨f, hm, hc⟩ := hr.invS.n2 x hx
    obtain ⟨i, hi⟩ := List.getElem?_of_mem hm
    exact ⟨i, List.mem_range.mpr (List.getElem?_eq_some_iff.mp hi).1, f, hi, hc⟩
  · obtain ⟨f, hm, hc⟩ := hr.inv.a6 (Or.inl hst)
    obtain ⟨i, hi⟩ := List.getElem?_of_mem hm
    exact ⟨i, List.mem_range.mpr (List.getElem?_eq_some_iff.mp hi).1, f, hi, hc⟩

theorem step_read_snd (s : Stream) (cap : Nat) : (s.step (.read cap)).snd = s.snd := by
  simp only [Stream.step]; split <;> rfl

/-- Phases 1 + 2: `shutdown`, then every emitted frame is declared lost or delivered and acknowledged. -/
theorem phaseB {s0 : Stream} (hr : Reach s0) (hon : Honest s0) (hs : SndOk s0.snd) (ok : RcvOk s0.rcv)
    (keep : Nat → Bool) :
    let s2 := s0.run (.shutdown :: settleOps keep (List.range s0.emitted.length))
    Reach s2 ∧ RcvOk s2.rcv ∧ SndOk s2.snd ∧ s2.snd.written = s0.snd.written ∧ s2.snd.maxData = s0.snd.maxData ∧
      K s0.emitted.length s2 := by
  intro s2
  have hc : ∀ op ∈ (Op.shutdown :: settleOps keep (List.range s0.emitted.length)), op.coop = true := by
    intro op h
    rcases List.mem_cons.mp h with e | e
    · subst e; rfl
    · exact settle_coop _ _ op e
  have hm02 : Mono s0 s2 := mono_run hr _ hc
  have hr2 : Reach s2 := reach_run hr _
  -- the state after `shutdown`
  obtain ⟨f1, f2, f3, f4, f5, f6⟩ := shutdown_fields s0.snd
  have hr1 : Reach (s0.step .shutdown) := reach_step hr _
  have hm01 : Mono s0 (s0.step .shutdown) := mono_step hr rfl
  have hon1 : Honest (s0.step .shutdown) :=
    ⟨fun x hx hst => hon.data x (by simpa [Stream.step, f1] using hx) (by simpa [Stream.step, (shutdown_same s0.snd).1] using hst),
     fun hf => hon.fin (by simpa [Stream.step, f3] using hf)⟩
  have hs1 : SndOk (s0.step .shutdown).snd := hm01.so hs
  have hk5 : (s0.step .shutdown).snd.shutdown = true ∨ (s0.step .shutdown).snd.st = .dataSent ∨ (s0.step .shutdown).snd.st = .dataRcvd := by
    simp only [Stream.step]; rw [f4]; exact f6 hs
  have hs2eq : s2 = (s0.step .shutdown).run (settleOps keep (List.range (s0.step .shutdown).emitted.length)) := rfl
  have hsettle : Pend s2 [] ∧ Same (s0.step .shutdown) s2 := by
    rw [hs2eq]
    by_cases hready : (s0.step .shutdown).snd.st = .ready
    · have hem := hr1.inv.a5 hready
      have hp := pend_all hr1
      rw [hem] at hp ⊢
      exact ⟨hp, Same.refl _⟩
    · have hact : Act (s0.step .shutdown).snd := by
        obtain ⟨he, hst⟩ := hs1
        exact ⟨he, by rcases hst with e | e | e | e <;> simp_all⟩
      exact settle_pend keep _ hact (pend_all hr1)
  obtain ⟨hp, hsame⟩ := hsettle
  have hon2 : Honest s2 := by rw [hs2eq]; exact honest_settle keep _ hr1 (hm01.ok ok) hon1
  have hs2 : SndOk s2.snd := hm02.so hs
  have noinfl : ∀ x, x < s2.snd.written.length → s2.snd.status x ≠ .inflight := by
    intro x hx hi
    rcases hp with hp | ⟨p1, _⟩
    · have := (hr2.done.1 hp).1 x hx; rw [this] at hi; cases hi
    · obtain ⟨_, hm, _⟩ := p1 x hi; cases hm
  have nosent : s2.snd.st = .dataSent → s2.snd.fin ≠ .sent := by
    intro hst hf
    rcases hp with hp | ⟨_, p2⟩
    · rw [hst] at hp; cases hp
    · obtain ⟨_, hm, _⟩ := p2 hst hf; cases hm
  have hreach := run_sreach (s0.step .shutdown) (settleOps keep (List.range (s0.step .shutdown).emitted.length))
  rw [← hs2eq] at hreach
  refine ⟨hr2, hm02.ok ok, hs2, hm02.wr, hm02.md, ?_⟩
  refine ⟨?_, ?_, ?_, ?_, ?_, ?_⟩
  · rw [hsame.em]; exact Nat.le_refl _
  · intro x hx hw; exact absurd hx (noinfl x hw)
  · intro a b; exact absurd b (nosent a)
  · intro x hw
    cases hst : s2.snd.status x
    · left; simp [BSt.pickable]
    · exact absurd hst (noinfl x hw)
    · left; simp [BSt.pickable]
    · right; left; exact hon2.data x hw hst
  · obtain ⟨_, hst⟩ := hs2
    have hsh : s2.snd.shutdown = (s0.step .shutdown).snd.shutdown := hsame.sh
    rcases hst with e | e | e | e
    · left; unfold Sender.needFin; rw [e]; simp only; rw [hsh]
      rcases hk5 with a | a | a
      · exact a
      · rw [a, e] at hreach; cases hreach
      · rw [a, e] at hreach; cases hreach
    · left; unfold Sender.needFin; rw [e]; simp only; rw [hsh]
      rcases hk5 with a | a | a
      · exact a
      · rw [a, e] at hreach; cases hreach
      · rw [a, e] at hreach; cases hreach
    · cases hf : s2.snd.fin
      · exact absurd hf (nosent e)
      · left; unfold Sender.needFin; rw [e]; simp [hf]
      · right; left; exact hon2.fin hf
    · right; left; exact hon2.fin (hr2.done.1 e).2
  · rw [hsame.sh]
    rcases hk5 with a | a | a
    · exact Or.inl a
    · right
      obtain ⟨_, hst⟩ := hs2
      rcases hst with e | e | e | e
      · rw [a, e] at hreach; cases hreach
      · rw [a, e] at hreach; cases hreach
      · exact Or.inl e
      · exact Or.inr e
    · right
      obtain ⟨_, hst⟩ := hs2
      rcases hst with e | e | e | e
      · rw [a, e] at hreach; cases hreach
      · rw [a, e] at hreach; cases hreach
      · exact Or.inl e
      · exact Or.inr e

theorem covNew_coveredBy {n0 : Nat} {em : List Frame} {x : Nat} (h : CovNew n0 em x) :
    CoveredBy em (List.range' n0 (em.length - n0)) x := by
  obtain ⟨i, h1, f, h2, h3⟩ := h
  have := (List.getElem?_eq_some_iff.mp h2).1
  exact ⟨i, List.mem_range'_1.mpr ⟨h1, by omega⟩, f, h2, h3⟩

theorem finNew_finIn {n0 : Nat} {em : List Frame} (h : FinNew n0 em) :
    FinIn em (List.range' n0 (em.length - n0)) := by
  obtain ⟨i, h1, f, h2, h3⟩ := h
  have := (List.getElem?_eq_some_iff.mp h2).1
  exact ⟨i, List.mem_range'_1.mpr ⟨h1, by omega⟩, f, h2, h3⟩

/-- Phases 4 + 5: nothing is left to pick; every frame emitted from index `n0` on is delivered and acknowledged;
two reads with room for more than the whole stream. -/
theorem phaseD {n0 : Nat} {s3 : Stream} (hr : Reach s3) (ok : RcvOk s3.rcv) (hs : SndOk s3.snd) (k : K n0 s3)
    (hwin : s3.snd.written.length ≤ s3.snd.maxData) (hidle : s3.snd.somePick = none) {cap : Nat}
    (hcap : s3.snd.written.length < cap) :
    let s6 := s3.run (settleOps (fun _ => true) (List.range' n0 (s3.emitted.length - n0)) ++ [.read cap, .read cap])
    s6.eof = true ∧ s6.out = s3.snd.written ∧ s6.snd.written = s3.snd.written ∧ s6.snd.st = .dataRcvd ∧
      s6.rcv.st = .dataRead := by
  intro s6
  obtain ⟨he, hst⟩ := hs
  -- nothing pickable, and the sender is in DataSent (clean) or DataRcvd
  have hsum : (∀ x, x < s3.snd.written.length → (s3.snd.status x).pickable = false) ∧ Fin4 s3.snd ∧
      s3.snd.needFin = false := by
    by_cases hdr : s3.snd.st = .dataRcvd
    · refine ⟨fun x hx => ?_, Or.inl hdr, by unfold Sender.needFin; rw [hdr]⟩
      rw [(hr.done.1 hdr).1 x hx]; rfl
    · have hl : s3.snd.live = true := (live_iff _).mpr ⟨he, by rcases hst with e | e | e | e <;> simp_all⟩
      obtain ⟨i1, i2⟩ := somePick_none hl hidle
      have np : ∀ x, x < s3.snd.written.length → (s3.snd.status x).pickable = false := fun x hx => i1 x hx (by omega)
      have hhi : s3.snd.sentHi = s3.snd.written.length := by
        have a2 := hr.inv.a2.1
        by_cases hlt : s3.snd.sentHi < s3.snd.written.length
        · have := np _ hlt
          rw [hr.invS.n1 _ (Nat.le_refl _)] at this
          simp [BSt.pickable] at this
        · omega
      have hds : s3.snd.st = .dataSent ∧ s3.snd.fin ≠ .lost := by
        by_cases hd : s3.snd.st = .dataSent
        · refine ⟨hd, fun hf => i2 ⟨hl, hhi, by simp [hd, hf]⟩⟩
        · exfalso
          apply i2
          refine ⟨hl, hhi, ?_⟩
          simp only [hd, if_false]
          rcases k.k5 with a | a | a
          · exact a
          · exact absurd a hd
          · exact absurd a hdr
      refine ⟨np, Or.inr ⟨hds.1, he, fun x hx => ?_, hds.2⟩, ?_⟩
      · have := np x hx
        cases hsx : s3.snd.status x <;> simp_all [BSt.pickable]
      · unfold Sender.needFin; rw [hds.1]
        cases hf : s3.snd.fin <;> simp_all
  obtain ⟨np, hf4, hnf⟩ := hsum
  have hact : Act s3.snd := by
    refine ⟨he, ?_⟩
    rcases hf4 with a | a
    · exact Or.inr (Or.inr a)
    · exact Or.inr (Or.inl a.1)
  have hpend : Pend s3 (List.range' n0 (s3.emitted.length - n0)) := by
    right
    refine ⟨fun x hx => ?_, fun a b => finNew_finIn (k.k2 a b)⟩
    have hlt : x < s3.snd.written.length := by
      have a2 := hr.inv.a2.1
      by_cases h : x < s3.snd.sentHi
      · omega
      · rw [hr.invS.n1 x (by omega)] at hx; cases hx
    exact covNew_coveredBy (k.k1 x hx hlt)
  -- phase 4
  let new := List.range' n0 (s3.emitted.length - n0)
  have hs4 : s6 = ((s3.run (settleOps (fun _ => true) new)).step (.read cap)).step (.read cap) := by
    show s3.run (settleOps (fun _ => true) new ++ [.read cap, .read cap]) = _
    rw [run_append]; rfl
  obtain ⟨hp4, hsame⟩ := settle_pend (fun _ => true) new hact hpend
  have hr4 : Reach (s3.run (settleOps (fun _ => true) new)) := reach_run hr _
  have hm4 : Mono s3 (s3.run (settleOps (fun _ => true) new)) := mono_run hr _ (settle_coop _ _)
  have hdone : (s3.run (settleOps (fun _ => true) new)).snd.st = .dataRcvd :=
    fin4_done (fin4_settle new hf4) hp4 hr4.done
  have hall : ∀ y, y < (s3.run (settleOps (fun _ => true) new)).snd.written.length →
      Have (s3.run (settleOps (fun _ => true) new)).rcv y := by
    intro y hy
    rw [hm4.wr] at hy
    rcases k.k3 y hy with a | a | a
    · rw [np y hy] at a; cases a
    · exact hm4.hv y a
    · obtain ⟨i, h1, f, h2, h3⟩ := a
      have := (List.getElem?_eq_some_iff.mp h2).1
      exact (settle_have new hr ok (List.mem_range'_1.mpr ⟨h1, by omega⟩) h2).1 y h3.1 h3.2
  have hsz : Sized (s3.run (settleOps (fun _ => true) new)).rcv := by
    rcases k.k4 with a | a | a
    · rw [hnf] at a; cases a
    · exact hm4.sz a
    · obtain ⟨i, h1, f, h2, h3⟩ := a
      have := (List.getElem?_eq_some_iff.mp h2).1
      exact (settle_have new hr ok (List.mem_range'_1.mpr ⟨h1, by omega⟩) h2).2 h3
  -- phase 5
  have ok4 := hm4.ok ok
  have h5 := read_all hr4.inv hr4.invR ok4 hsz hall (cap := cap) (by rw [hm4.wr]; exact hcap)
  have hr5 := reach_step hr4 (.read cap)
  have ok5 := (mono_step hr4 (op := .read cap) rfl).ok ok4
  obtain ⟨h6a, h6b⟩ := read_eof ok5 h5 (cap := cap) (by omega)
  have hr6 := reach_step hr5 (.read cap)
  rw [hs4]
  have hsnd : ((((s3.run (settleOps (fun _ => true) new)).step (.read cap)).step (.read cap))).snd =
      (s3.run (settleOps (fun _ => true) new)).snd := by rw [step_read_snd, step_read_snd]
  have hnr := hr6.inv.b4.2 h6b
  obtain ⟨_, hfs⟩ := hr6.inv.b3 (Or.inr (Or.inr h6b))
  refine ⟨h6a, ?_, by rw [hsnd]; exact hm4.wr, by rw [hsnd]; exact hdone, h6b⟩
  rw [hr6.inv.b2, hnr, hfs, List.take_length, hsnd, hm4.wr]

end GmQuic.Stream
