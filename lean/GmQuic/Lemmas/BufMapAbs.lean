import GmQuic.Model.SendSpec
import GmQuic.Model.BufMap
/-!
C09 — vocabulary of the refinement `BufMap` transliteration ⊑ `SendSpec`: well-formedness of a run list, and basic
facts about the abstraction function `colourAt` / `BufMap.abs` (defined in `Model/BufMap.lean`).
-/
namespace GmQuic.BufMap
open GmQuic.SendSpec

/-- run offsets strictly increasing -/
def Sorted (l : List Run) : Prop := l.Pairwise (fun r r' => r.1 < r'.1)

/-- well-formed colour map: strictly increasing offsets, every run starts inside the coloured prefix
(so every run is non-empty) -/
structure WF (m : BufMap) : Prop where
  sorted : Sorted m.runs
  lt_size : ∀ r ∈ m.runs, r.1 < m.size

/-- colour of the last run of `l` (`p` if there is none) -/
def lastCol (l : List Run) (p : Colour) : Colour :=
  match l.getLast? with
  | some r => r.2
  | none => p

theorem lastCol_nil (p : Colour) : lastCol [] p = p := rfl

theorem lastCol_cons (r : Run) (l : List Run) (p : Colour) : lastCol (r :: l) p = lastCol l r.2 := by
  cases l with
  | nil => simp [lastCol]
  | cons r' l' =>
    simp only [lastCol, List.getLast?_cons_cons]
    cases h : (r' :: l').getLast? with
    | none => simp at h
    | some q => rfl

/-- runs that start at or below `x` are passed over -/
theorem colourAt_append_le (l1 l2 : List Run) (p : Colour) (x : Nat) (h : ∀ r ∈ l1, r.1 ≤ x) :
    colourAt (l1 ++ l2) p x = colourAt l2 (lastCol l1 p) x := by
  induction l1 generalizing p with
  | nil => simp [lastCol_nil]
  | cons r l1 ih =>
    obtain ⟨o, c⟩ := r
    have ho : o ≤ x := h (o, c) (by simp)
    have : ¬ x < o := by omega
    simp only [List.cons_append, colourAt, this, if_false, lastCol_cons]
    exact ih c (fun r hr => h r (by simp [hr]))

/-- a run that starts above `x` ends the lookup -/
theorem colourAt_cons_lt (o : Nat) (c : Colour) (l : List Run) (p : Colour) (x : Nat) (h : x < o) :
    colourAt ((o, c) :: l) p x = p := by
  simp [colourAt, h]

/-- what follows a run that starts above `x` is irrelevant -/
theorem colourAt_append_gt (l1 l2 : List Run) (p : Colour) (x : Nat)
    (h : ∀ r, l2.head? = some r → x < r.1) : colourAt (l1 ++ l2) p x = colourAt l1 p x := by
  induction l1 generalizing p with
  | nil =>
    cases l2 with
    | nil => rfl
    | cons r l2 =>
      obtain ⟨o, c⟩ := r
      have := h (o, c) rfl
      simp [colourAt, this]
  | cons r l1 ih =>
    obtain ⟨o, c⟩ := r
    simp only [List.cons_append, colourAt]
    split
    · rfl
    · exact ih c

theorem abs_of_lt (m : BufMap) (x : Nat) (h : x < m.size) : m.abs x = colourAt m.runs .recved x := by
  simp [BufMap.abs, h]

theorem abs_of_ge (m : BufMap) (x : Nat) (h : m.size ≤ x) : m.abs x = .pending := by
  have : ¬ x < m.size := by omega
  simp [BufMap.abs, this]

end GmQuic.BufMap
