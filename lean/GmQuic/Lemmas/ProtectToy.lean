import GmQuic.Lemmas.ProtectErr
import GmQuic.Lemmas.Wire
/-! C06 helper lemmas: toy cipher keystream / tag lengths, `flipBit` changes the byte string. -/
namespace GmQuic.Protect
open GmQuic.Wire GmQuic.Pn

theorem ksXor_length (k pn i : Nat) (bs : Bytes) : (ksXor k pn i bs).length = bs.length := by
  induction bs generalizing i with
  | nil => rfl
  | cons b bs ih => simp [ksXor, ih]

theorem ksXor_invol (k pn i : Nat) (bs : Bytes) : ksXor k pn i (ksXor k pn i bs) = bs := by
  induction bs generalizing i with
  | nil => rfl
  | cons b bs ih => simp [ksXor, ih, xor_cancel]

theorem toyTag_length (k pn : Nat) (a p : Bytes) : (toyTag k pn a p).length = 16 := by
  simp [toyTag]

theorem flipBit_ne (bs : Bytes) (i : Nat) (hi : i < 8 * bs.length) : flipBit i bs ≠ bs := by
  unfold flipBit
  have hj : i / 8 < bs.length := by omega
  generalize i / 8 = j at hj
  have hm : UInt8.ofNat (2 ^ (7 - i % 8)) ≠ 0 := by
    have : ∀ r : Fin 8, UInt8.ofNat (2 ^ (7 - r.val)) ≠ 0 := by decide
    exact this ⟨i % 8, by omega⟩
  generalize UInt8.ofNat (2 ^ (7 - i % 8)) = x at hm
  clear hi
  induction bs generalizing j with
  | nil => simp at hj
  | cons b bs ih =>
    cases j with
    | zero =>
      simp only [List.modify_zero_cons, ne_eq, List.cons.injEq, and_true]
      intro h
      have : b ^^^ x = b ^^^ 0 := by rw [h]; simp
      exact hm ((UInt8.xor_right_inj b).mp this)
    | succ j =>
      simp only [List.modify_succ_cons, ne_eq, List.cons.injEq, true_and]
      exact ih j (by simpa using hj)

end GmQuic.Protect
