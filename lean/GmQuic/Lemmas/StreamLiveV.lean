import GmQuic.Lemmas.StreamLiveN
/-!
C01 liveness, part 10: the variant in which the application never shuts the stream down — every written byte
becomes readable and `poll_flush` completes, and no end-of-stream is reported.
-/
namespace GmQuic.Stream
open GmQuic.RecvBuf (Bytes covered)

/-- the application has not shut the stream down (and no reset / error happened) -/
def Open (s : Sender) : Prop := s.err = false ∧ s.shutdown = false ∧ (s.st = .ready ∨ s.st = .sending)

/-- data part of the invariant of the picking phase -/
structure KD (n0 : Nat) (s : Stream) : Prop where
  k0 : n0 ≤ s.emitted.length
  k1 : ∀ x, s.snd.status x = .inflight → x < s.snd.written.length → CovNew n0 s.emitted x
  k3 : ∀ x, x < s.snd.written.length → (s.snd.status x).pickable = true ∨ Have s.rcv x ∨ CovNew n0 s.emitted x

theorem open_live {s : Sender} (h : Open s) : s.live = true :=
  (live_iff s).mpr ⟨h.1, by rcases h.2.2 with e | e <;> simp [e]⟩

theorem open_ack {s : Sender} (f : Frame) (h : Open s) : Open (s.ack f) := by
  obtain ⟨he, hs, hst⟩ := h
  unfold Sender.ack Open
  rcases hst with e | e <;> simp [he, hs, e]

theorem open_lose {s : Sender} (f : Frame) (h : Open s) : Open (s.lose f) := by
  obtain ⟨he, hs, hst⟩ := h
  unfold Sender.lose Open
  rcases hst with e | e <;> simp [he, hs, e]

theorem open_pick {s : Sender} (off len : Nat) (h : Open s) : Open (s.pick off len).1 := by
  obtain ⟨he, hs, hst⟩ := h
  unfold Sender.pick Sender.pickFin Open
  rcases hst with e | e <;> simp [he, hs, e]

theorem open_step {s : Stream} {op : Op} (hc : op.coop = true) (hn : op ≠ .shutdown) (h : Open s.snd) :
    Open (s.step op).snd := by
  cases op with
  | shutdown => exact absurd rfl hn
  | pick off len => simp only [Stream.step]; split; exact open_pick off len h; exact h
  | deliver i => simp only [Stream.step]; split <;> exact h
  | ack i => simp only [Stream.step]; split; exact open_ack _ h; exact h
  | lose i => simp only [Stream.step]; split; exact open_lose _ h; exact h
  | read cap => rw [step_read_snd]; exact h
  | _ => simp [Op.coop] at hc

theorem open_run {s : Stream} (ops : List Op) (hc : ∀ op ∈ ops, op.coop = true ∧ op ≠ .shutdown) (h : Open s.snd) :
    Open (s.run ops).snd := by
  induction ops generalizing s with
  | nil => exact h
  | cons op rest ih =>
    have := hc op List.mem_cons_self
    exact ih (fun o ho => hc o (List.mem_cons_of_mem _ ho)) (open_step this.1 this.2 h)

theorem settle_noshut (keep : Nat → Bool) (is : List Nat) : ∀ op ∈ settleOps keep is, op.coop = true ∧ op ≠ .shutdown := by
  induction is with
  | nil => intro op h; cases h
  | cons i is ih =>
    intro op h
    simp only [settleOps, List.mem_append] at h
    rcases h with h | h
    · cases hk : keep i <;> simp [hk, dAck] at h
      · subst h; exact ⟨rfl, by simp⟩
      · rcases h with h | h <;> subst h <;> exact ⟨rfl, by simp⟩
    · exact ih op h

theorem pickOps_noshut (ps : List (Nat × Nat)) : ∀ op ∈ pickOps ps, op.coop = true ∧ op ≠ .shutdown := by
  intro op h
  simp only [pickOps, List.mem_map] at h
  obtain ⟨p, _, e⟩ := h
  subst e; exact ⟨rfl, by simp⟩

theorem kd_pick {n0 : Nat} {s : Stream} {off len : Nat} (hok : s.snd.pickOk off len) (k : KD n0 s) :
    KD n0 (s.step (.pick off len)) := by
  rw [step_pick_ok hok]
  obtain ⟨e1, _, e3, _⟩ := pick_fields s.snd off len
  obtain ⟨g1, g2⟩ := pick_frame_stop hok
  have newcov : ∀ x, off ≤ x → x < off + len → CovNew n0 (s.emitted ++ [(s.snd.pick off len).2]) x :=
    fun x x1 x2 => ⟨s.emitted.length, k.k0, _, getElem?_append_len _ _, by omega, by omega⟩
  refine ⟨?_, ?_, ?_⟩
  · simp only [List.length_append, List.length_singleton]; have := k.k0; omega
  · intro x hx hw
    simp only [e1, e3, setRange] at hx hw
    split at hx
    · rename_i hr; exact newcov x hr.1 hr.2
    · exact covNew_append _ (k.k1 x hx hw)
  · intro x hw
    simp only [e1, e3, setRange] at hw ⊢
    by_cases hr : off ≤ x ∧ x < off + len
    · right; right; exact newcov x hr.1 hr.2
    · rw [if_neg hr]
      rcases k.k3 x hw with a | a | a
      · exact Or.inl a
      · exact Or.inr (Or.inl a)
      · exact Or.inr (Or.inr (covNew_append _ a))

theorem kd_picks {n0 : Nat} {s : Stream} {ps : List (Nat × Nat)} (hp : PickSeq s ps) (k : KD n0 s) :
    KD n0 (s.run (pickOps ps)) := by
  induction ps generalizing s with
  | nil => exact k
  | cons p ps ih =>
    obtain ⟨h1, _, h3⟩ := hp
    exact ih h3 (kd_pick h1 k)

theorem act_of_open {s : Stream} (h : Open s.snd) (hne : s.snd.st ≠ .ready) : Act s.snd :=
  ⟨h.1, by rcases h.2.2 with e | e; exact absurd e hne; exact Or.inl e⟩

/-- every frame in flight is declared lost or delivered and acknowledged (no `shutdown`) -/
theorem phaseB' {s0 : Stream} (hr : Reach s0) (hon : Honest s0) (ho : Open s0.snd) (ok : RcvOk s0.rcv)
    (keep : Nat → Bool) :
    let s2 := s0.run (settleOps keep (List.range s0.emitted.length))
    Reach s2 ∧ RcvOk s2.rcv ∧ Open s2.snd ∧ s2.snd.written = s0.snd.written ∧ s2.snd.maxData = s0.snd.maxData ∧
      KD s0.emitted.length s2 := by
  intro s2
  have hm : Mono s0 s2 := mono_run hr _ (settle_coop _ _)
  have hr2 : Reach s2 := reach_run hr _
  have ho2 : Open s2.snd := open_run _ (settle_noshut _ _) ho
  have hsettle : Pend s2 [] ∧ s2.emitted = s0.emitted := by
    by_cases hready : s0.snd.st = .ready
    · have hem := hr.inv.a5 hready
      have hp := pend_all hr
      have : s2 = s0 := by show s0.run (settleOps keep (List.range s0.emitted.length)) = s0; rw [hem]; rfl
      rw [this]; rw [hem] at hp
      exact ⟨hp, rfl⟩
    · obtain ⟨a, b⟩ := settle_pend keep _ (act_of_open ho hready) (pend_all hr)
      exact ⟨a, b.em⟩
  obtain ⟨hp, hem⟩ := hsettle
  have hon2 : Honest s2 := honest_settle keep _ hr ok hon
  have noinfl : ∀ x, s2.snd.status x ≠ .inflight := by
    intro x hi
    rcases hp with hp | ⟨p1, _⟩
    · rcases ho2.2.2 with e | e <;> rw [e] at hp <;> cases hp
    · obtain ⟨_, hm, _⟩ := p1 x hi; cases hm
  refine ⟨hr2, hm.ok ok, ho2, hm.wr, hm.md, ⟨by rw [hem]; exact Nat.le_refl _, fun x hx _ => absurd hx (noinfl x), fun x hw => ?_⟩⟩
  cases hst : s2.snd.status x
  · left; simp [BSt.pickable]
  · exact absurd hst (noinfl x)
  · left; simp [BSt.pickable]
  · right; left; exact hon2.data x hw hst

/-- nothing is marked lost or unsent -/
def CleanD (s : Sender) : Prop := ∀ x, x < s.written.length → s.status x = .inflight ∨ s.status x = .acked

theorem cleanD_settle (is : List Nat) {s : Stream} (h : CleanD s.snd) : CleanD (s.run (settleOps (fun _ => true) is)).snd := by
  induction is generalizing s with
  | nil => exact h
  | cons j js ih =>
    simp only [settleOps, if_true, dAck, List.cons_append, List.nil_append, run_cons]
    apply ih
    have hsnd : (s.step (.deliver j)).snd = s.snd := by simp only [Stream.step]; split <;> rfl
    generalize hg : s.step (.deliver j) = t at hsnd
    simp only [Stream.step]; split
    · rename_i f _
      obtain ⟨a, _, _, _⟩ := ack_same t.snd f
      obtain ⟨_, e2⟩ := ack_status t.snd f
      intro x hx
      simp only at hx ⊢
      rw [a, hsnd] at hx
      rcases e2 with e | e <;> rw [e]
      · rw [hsnd]; exact h x hx
      · simp only [setRange]; split
        · right; rfl
        · rw [hsnd]; exact h x hx
    · rw [hsnd]; exact h

theorem not_readable_available {b : RecvBuf.State} (h : RecvBuf.isReadable b = false) : RecvBuf.available b = 0 := by
  unfold RecvBuf.isReadable at h
  unfold RecvBuf.available
  cases hs : b.segs with
  | nil => simp [RecvBuf.contEnd]
  | cons seg rest =>
    rw [hs] at h
    simp only [beq_eq_false_iff_ne, ne_eq] at h
    simp [RecvBuf.contEnd, h]

theorem read_recv_buf (r : Recver) (cap : Nat) (he : r.err = false) (hst : r.st = .recv) :
    (r.read cap).1.buf = if RecvBuf.isReadable r.buf = true then (RecvBuf.tryRead r.buf cap).1 else r.buf := by
  unfold Recver.read
  simp only [he, hst, Bool.false_eq_true, if_false]
  cases hr : RecvBuf.isReadable r.buf
  · simp
  · simp only [Bool.not_true, Bool.false_eq_true, if_false, if_true]
    split
    · split <;> rfl
    · rfl

/-- everything written has arrived, the final size is not known: one read with room for more than the whole stream
hands all of it to the reader -/
theorem read_all_recv {s : Stream} (h : Inv s) (ok : RcvOk s.rcv) (hst : s.rcv.st = .recv)
    (hall : ∀ y, y < s.snd.written.length → Have s.rcv y) {cap : Nat} (hc : s.snd.written.length < cap) :
    (s.step (.read cap)).rcv.buf.nread = s.snd.written.length := by
  have hl := h.b1.largest_le
  have hn := h.b1.nread_le
  have hsi := ((RecvBuf.inv_iff' _ _).mp h.b1).1
  have hav : s.rcv.buf.nread + RecvBuf.available s.rcv.buf = s.snd.written.length := by
    have := (allRcvd_iff (w := s.snd.written) (r := { s.rcv with finalSize := s.snd.written.length }) h.b1 hl).mpr
      (fun y hy => hall y hy)
    simpa [Recver.allRcvd] using this
  have hrcv : (s.step (.read cap)).rcv = (s.rcv.read cap).1 := by
    simp only [Stream.step]; split <;> rfl
  rw [hrcv, read_recv_buf s.rcv cap ok.1 hst]
  obtain ⟨l1, l2⟩ := RecvBuf.read_len hsi cap
  cases hr : RecvBuf.isReadable s.rcv.buf
  · have := not_readable_available hr
    simp only [Bool.false_eq_true, if_false]; omega
  · simp only [if_true]; omega

/-- nothing is left to pick; every new frame is delivered and acknowledged; one large read (no `shutdown`) -/
theorem phaseD' {n0 : Nat} {s3 : Stream} (hr : Reach s3) (ok : RcvOk s3.rcv) (ho : Open s3.snd) (k : KD n0 s3)
    (hwin : s3.snd.written.length ≤ s3.snd.maxData) (hidle : s3.snd.somePick = none) {cap : Nat}
    (hcap : s3.snd.written.length < cap) :
    let s5 := s3.run (settleOps (fun _ => true) (List.range' n0 (s3.emitted.length - n0)) ++ [.read cap])
    s5.out = s3.snd.written ∧ s5.snd.written = s3.snd.written ∧ s5.snd.pollFlush = "ready" ∧ s5.eof = false ∧
      s5.snd.allAcked := by
  intro s5
  obtain ⟨i1, _⟩ := somePick_none (open_live ho) hidle
  have np : ∀ x, x < s3.snd.written.length → (s3.snd.status x).pickable = false := fun x hx => i1 x hx (by omega)
  have hcl : CleanD s3.snd := by
    intro x hx
    have := np x hx
    cases hsx : s3.snd.status x <;> simp_all [BSt.pickable]
  let new := List.range' n0 (s3.emitted.length - n0)
  have hpend : Pend s3 new := by
    right
    refine ⟨fun x hx => ?_, fun a => by rcases ho.2.2 with e | e <;> rw [e] at a <;> cases a⟩
    have hlt : x < s3.snd.written.length := by
      have a2 := hr.inv.a2.1
      by_cases h : x < s3.snd.sentHi
      · omega
      · rw [hr.invS.n1 x (by omega)] at hx; cases hx
    exact covNew_coveredBy (k.k1 x hx hlt)
  have hs5 : s5 = (s3.run (settleOps (fun _ => true) new)).step (.read cap) := by
    show s3.run (settleOps (fun _ => true) new ++ [.read cap]) = _
    rw [run_append]; rfl
  have hr4 : Reach (s3.run (settleOps (fun _ => true) new)) := reach_run hr _
  have hm4 : Mono s3 (s3.run (settleOps (fun _ => true) new)) := mono_run hr _ (settle_coop _ _)
  have ho4 : Open (s3.run (settleOps (fun _ => true) new)).snd := open_run _ (settle_noshut _ _) ho
  have hp4 : Pend (s3.run (settleOps (fun _ => true) new)) [] := by
    by_cases hready : s3.snd.st = .ready
    · have hem := hr.inv.a5 hready
      have hnew : new = [] := by show List.range' n0 (s3.emitted.length - n0) = []; rw [hem]; simp
      rw [hnew] at hpend ⊢; exact hpend
    · exact (settle_pend (fun _ => true) new (act_of_open ho hready) hpend).1
  have hacked : (s3.run (settleOps (fun _ => true) new)).snd.allAcked := by
    intro x hx
    rcases cleanD_settle new hcl x hx with e | e
    · rcases hp4 with hp | ⟨p1, _⟩
      · rcases ho4.2.2 with e' | e' <;> rw [e'] at hp <;> cases hp
      · obtain ⟨_, hm, _⟩ := p1 x e; cases hm
    · exact e
  have hall : ∀ y, y < (s3.run (settleOps (fun _ => true) new)).snd.written.length →
      Have (s3.run (settleOps (fun _ => true) new)).rcv y := by
    intro y hy
    rw [hm4.wr] at hy
    rcases k.k3 y hy with a | a | a
    · rw [np y hy] at a; cases a
    · exact hm4.hv y a
    · obtain ⟨i, h1, f, h2, h3⟩ := a
      have := (List.getElem?_eq_some_iff.mp h2).1
      exact (settle_have new hr ok (List.mem_range'_1.mpr ⟨h1, by omega⟩) h2).1 y h3.1 h3.2
  have ok4 := hm4.ok ok
  have hrecv : (s3.run (settleOps (fun _ => true) new)).rcv.st = .recv := by
    have hns : ¬ Sized (s3.run (settleOps (fun _ => true) new)).rcv := by
      intro hz
      have := (hr4.inv.a4 (hr4.inv.b3 hz).1).1
      rw [ho4.2.1] at this; cases this
    obtain ⟨_, r1, r2⟩ := ok4
    cases hx : (s3.run (settleOps (fun _ => true) new)).rcv.st <;> simp_all [Sized]
  have hnr := read_all_recv hr4.inv ok4 hrecv hall (cap := cap) (by rw [hm4.wr]; exact hcap)
  have hr5 := reach_step hr4 (.read cap)
  have ho5 : Open ((s3.run (settleOps (fun _ => true) new)).step (.read cap)).snd := by rw [step_read_snd]; exact ho4
  rw [hs5]
  refine ⟨?_, by rw [step_read_snd]; exact hm4.wr, ?_, ?_, by rw [step_read_snd]; exact hacked⟩
  · rw [hr5.inv.b2, hnr, step_read_snd, List.take_length, hm4.wr]
  · rw [step_read_snd]
    unfold Sender.pollFlush
    rcases ho4.2.2 with e | e <;> simp [ho4.1, e, hacked]
  · cases he : ((s3.run (settleOps (fun _ => true) new)).step (.read cap)).eof
    · rfl
    · have := (hr5.inv.b5 he).1
      rw [ho5.2.1] at this; cases this

end GmQuic.Stream
