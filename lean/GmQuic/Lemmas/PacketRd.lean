import GmQuic.Lemmas.PacketDec
/-!
C03 helper lemmas, packet level: `be_payload`, `be_packet`, `PacketReader`.
-/
namespace GmQuic.PacketDec
open GmQuic.Wire GmQuic.Codec

theorem bePayload_np (t : PTy) (dg : Bytes) (n : Nat) (hn : n ≤ dg.length) (s : String) :
    bePayload t dg n ≠ .panic s := by
  unfold bePayload
  rw [if_neg (by omega)]
  simp only
  have hil : (dg.drop (dg.length - n)).length = n := by simp; omega
  cases hl : pLengthData (dg.drop (dg.length - n)) with
  | panic s' => exact absurd hl (pLengthData_np _ s')
  | err k =>
    have hk := pLengthData_np (dg.drop (dg.length - n))
    cases k with
    | incomplete => intro h; cases h
    | nom c =>
      -- `length_data(be_varint)` only ever answers Incomplete
      exfalso
      unfold pLengthData at hl
      cases hv : pVarint (dg.drop (dg.length - n)) with
      | ok v r =>
        rw [hv] at hl; simp only [Res.bind] at hl
        unfold pTakeS at hl; split at hl <;> cases hl
      | err k' =>
        rw [hv] at hl; simp only [Res.bind] at hl
        unfold pVarint at hv; split at hv
        · cases hv; cases hl
        · cases hv
      | panic s' => exact absurd hv (pVarint_np _ s')
    | _ =>
      exfalso
      unfold pLengthData at hl
      cases hv : pVarint (dg.drop (dg.length - n)) with
      | ok v r =>
        rw [hv] at hl; simp only [Res.bind] at hl
        unfold pTakeS at hl; split at hl <;> cases hl
      | err k' =>
        rw [hv] at hl; simp only [Res.bind] at hl
        unfold pVarint at hv; split at hv
        · cases hv; cases hl
        · cases hv
      | panic s' => exact absurd hv (pVarint_np _ s')
  | ok payload remain =>
    have h := pLengthData_ok _ payload remain hl
    rw [hil] at h
    simp only
    split
    · intro h'; cases h'
    · rw [if_neg (by omega), if_neg (by omega)]
      intro h'; cases h'

/-- A successfully split long packet: `bytes ++ rest` is the datagram (nothing skipped, nothing invented),
the header (`offset` bytes: everything before the payload) lies inside `bytes` and is at least as long as
what `be_header` consumed, at least 20 payload bytes follow it, and at least 21 bytes are consumed. -/
theorem bePayload_ok (t : PTy) (dg : Bytes) (n : Nat) (hn : n ≤ dg.length) (bytes rest : Bytes) (off : Nat)
    (h : bePayload t dg n = .ok (bytes, off) rest) :
    bytes ++ rest = dg ∧ off + 20 ≤ bytes.length ∧ dg.length - n < off ∧ rest.length < dg.length := by
  unfold bePayload at h
  rw [if_neg (by omega)] at h
  simp only at h
  have hil : (dg.drop (dg.length - n)).length = n := by simp; omega
  cases hl : pLengthData (dg.drop (dg.length - n)) with
  | panic s' => exact absurd hl (pLengthData_np _ s')
  | err k => rw [hl] at h; cases k <;> cases h
  | ok payload remain =>
    have hp := pLengthData_ok _ payload remain hl
    rw [hil] at hp
    rw [hl] at h
    simp only at h
    split at h
    · cases h
    · rename_i hmin
      unfold minSampleLong GmQuic.Gen.C03.minSampleLong at hmin
      rw [if_neg (by omega), if_neg (by omega)] at h
      cases h
      refine ⟨List.take_append_drop _ _, ?_, ?_, ?_⟩
      · simp only [List.length_take]; omega
      · omega
      · simp only [List.length_drop]; omega

theorem bePacket_np (dg : Bytes) (dcidLen : Nat) (hd : dcidLen ≤ 20) (s : String) : bePacket dg dcidLen ≠ .panic s := by
  unfold bePacket
  cases ht : bePacketType dg with
  | err e => intro h; cases h
  | panic s' => exact absurd ht (bePacketType_np dg s')
  | ok t remain =>
    have hlt := bePacketType_lt dg t remain ht
    simp only
    cases hh : beHeader t dcidLen remain with
    | err k => intro h; cases h
    | panic s' => exact absurd hh (beHeader_np t dcidLen hd remain s')
    | ok hdr remain' =>
      have hle := beHeader_le t dcidLen remain hdr remain' hh
      simp only
      cases hdr with
      | vn => intro h; cases h
      | retry => intro h; cases h
      | oneRtt sp dc =>
        simp only
        split
        · intro h; cases h
        · rw [if_neg (by omega)]; intro h; cases h
      | initial d sc tk =>
        simp only
        have hnp := bePayload_np t dg remain'.length (by omega)
        cases hb : bePayload t dg remain'.length with
        | ok v rest => obtain ⟨b, o⟩ := v; intro h; cases h
        | err e => intro h; cases h
        | panic s' => exact absurd hb (hnp s')
      | zeroRtt d sc =>
        simp only
        have hnp := bePayload_np t dg remain'.length (by omega)
        cases hb : bePayload t dg remain'.length with
        | ok v rest => obtain ⟨b, o⟩ := v; intro h; cases h
        | err e => intro h; cases h
        | panic s' => exact absurd hb (hnp s')
      | handshake d sc =>
        simp only
        have hnp := bePayload_np t dg remain'.length (by omega)
        cases hb : bePayload t dg remain'.length with
        | ok v rest => obtain ⟨b, o⟩ := v; intro h; cases h
        | err e => intro h; cases h
        | panic s' => exact absurd hb (hnp s')

/-- what an `Ok` of `be_packet` guarantees about the split -/
def Framed (dg : Bytes) : Packet → Bytes → Prop
  | .ctl _, rest => rest = []
  | .data _ bytes off, rest => bytes ++ rest = dg ∧ 0 < off ∧ off + 20 ≤ bytes.length

theorem bePacket_ok (dg : Bytes) (dcidLen : Nat) (p : Packet) (rest : Bytes) (h : bePacket dg dcidLen = .ok p rest) :
    Framed dg p rest ∧ rest.length < dg.length := by
  unfold bePacket at h
  cases ht : bePacketType dg with
  | err e => rw [ht] at h; cases h
  | panic s' => rw [ht] at h; cases h
  | ok t remain =>
    have hlt := bePacketType_lt dg t remain ht
    rw [ht] at h
    simp only at h
    cases hh : beHeader t dcidLen remain with
    | err k => rw [hh] at h; cases h
    | panic s' => rw [hh] at h; cases h
    | ok hdr remain' =>
      have hle := beHeader_le t dcidLen remain hdr remain' hh
      rw [hh] at h
      simp only at h
      have long : ∀ hdr', (match bePayload t dg remain'.length with
            | .ok (bytes, off) rest => PRes.ok (Packet.data hdr' bytes off) rest
            | .err e => .err e
            | .panic s => .panic s) = .ok p rest → Framed dg p rest ∧ rest.length < dg.length := by
        intro hdr' h
        cases hb : bePayload t dg remain'.length with
        | ok v rest' =>
          obtain ⟨b, o⟩ := v
          rw [hb] at h; cases h
          have := bePayload_ok t dg remain'.length (by omega) b rest o hb
          exact ⟨⟨this.1, by omega, this.2.1⟩, this.2.2.2⟩
        | err e => rw [hb] at h; cases h
        | panic s' => rw [hb] at h; cases h
      cases hdr with
      | vn => cases h; exact ⟨rfl, by simp; omega⟩
      | retry => cases h; exact ⟨rfl, by simp; omega⟩
      | oneRtt sp dc =>
        simp only at h
        split at h
        · cases h
        · rename_i hs
          unfold minSampleShort GmQuic.Gen.C03.minSampleShort at hs
          rw [if_neg (by omega)] at h
          cases h
          exact ⟨⟨by simp, by omega, by omega⟩, by simp; omega⟩
      | initial d sc tk => exact long _ h
      | zeroRtt d sc => exact long _ h
      | handshake d sc => exact long _ h

/-! the reader -/

theorem next_np (bs : Bytes) (d : Nat) (hd : d ≤ 20) (s : String) : PacketReader.next bs d ≠ .panic s := by
  unfold PacketReader.next
  split
  · intro h; cases h
  · cases hb : bePacket bs d with
    | ok p rest => intro h; cases h
    | err e => intro h; cases h
    | panic s' => exact absurd hb (bePacket_np bs d hd s')

theorem next_pkt (bs : Bytes) (d : Nat) (p : Packet) (rest : Bytes) (h : PacketReader.next bs d = .pkt p rest) :
    Framed bs p rest ∧ rest.length < bs.length := by
  unfold PacketReader.next at h
  split at h
  · cases h
  · cases hb : bePacket bs d with
    | ok p' rest' => rw [hb] at h; cases h; exact bePacket_ok bs d p rest hb
    | err e => rw [hb] at h; cases h
    | panic s' => rw [hb] at h; cases h

theorem next_dropped (bs : Bytes) (d : Nat) (e : PErr) (rest : Bytes) (h : PacketReader.next bs d = .dropped e rest) :
    rest = [] := by
  unfold PacketReader.next at h
  split at h
  · cases h
  · cases hb : bePacket bs d with
    | ok p' rest' => rw [hb] at h; cases h
    | err e => rw [hb] at h; cases h; rfl
    | panic s' => rw [hb] at h; cases h

theorem next_nil (d : Nat) : PacketReader.next [] d = .eof := rfl

/-- no item follows an error item -/
def ErrLast : List Item → Prop
  | [] => True
  | .err _ :: t => t = []
  | _ :: t => ErrLast t

def Clean : List Item → Prop
  | [] => True
  | .outOfFuel :: _ => False
  | .panic _ :: _ => False
  | _ :: t => Clean t

theorem run_spec (d : Nat) (hd : d ≤ 20) : ∀ fuel bs, bs.length < fuel →
    Clean (PacketReader.run fuel bs d) ∧ ErrLast (PacketReader.run fuel bs d) := by
  intro fuel
  induction fuel with
  | zero => intro bs h; omega
  | succ fuel ih =>
    intro bs hlen
    unfold PacketReader.run
    cases hn : PacketReader.next bs d with
    | eof => exact ⟨trivial, trivial⟩
    | panic s => exact absurd hn (next_np bs d hd s)
    | pkt p rest =>
      have := (next_pkt bs d p rest hn).2
      have := ih rest (by omega)
      exact ⟨this.1, this.2⟩
    | dropped e rest =>
      have hr := next_dropped bs d e rest hn
      subst hr
      simp only
      cases fuel with
      | zero =>
        -- bs.length < 1 means bs = [], but then next = eof
        have : bs = [] := by cases bs with | nil => rfl | cons _ _ => simp at hlen
        subst this; rw [next_nil] at hn; cases hn
      | succ f =>
        have : PacketReader.run (f + 1) [] d = [] := by unfold PacketReader.run; rw [next_nil]
        rw [this]; exact ⟨trivial, rfl⟩

end GmQuic.PacketDec
