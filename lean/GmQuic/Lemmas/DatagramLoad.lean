import GmQuic.Lemmas.Datagram
/-! C19 helper lemmas, part 2: `try_load_data_into` and its repeated use on one packet. -/
namespace GmQuic.Datagram
open GmQuic.Wire

theorem hdrSize_false (n : Nat) : hdrSize false n = 1 := by simp [hdrSize]

/-- closed form of `tryLoad` on an open flow with a queued head datagram -/
theorem tryLoad_eq (remaining : Nat) (s : Sender) (d : Bytes) (rest : List Bytes)
    (hc : s.closed = none) (hq : s.queue = d :: rest) (hd : d.length < 2 ^ 62) :
    tryLoad remaining s =
      if remaining ≤ d.length then (s, .noRoom)
      else if hdrSize true d.length + d.length ≤ remaining then ({ s with queue := rest }, .wrote 0 true d)
      else ({ s with queue := rest }, .wrote (remaining - d.length - 1) false d) := by
  unfold tryLoad
  simp only [hc, hq]
  by_cases h1 : remaining ≤ d.length
  · have h0 : remaining - d.length = 0 := by omega
    simp [h0, h1]
  · have h0 : ¬ (remaining - d.length = 0) := by omega
    have hv : ¬ (d.length ≥ varintLimit) := by simp only [varintLimit]; omega
    simp only [h0, if_false, hv, h1]
    by_cases h2 : hdrSize true d.length + d.length ≤ remaining
    · have h3 : remaining - d.length ≥ hdrSize true d.length := by omega
      have hr : dumpHasRoom remaining true d.length = true := by
        simp only [dumpHasRoom, Bool.or_eq_true, decide_eq_true_eq]; right; omega
      simp [h3, hr, h2]
    · have h3 : ¬ (remaining - d.length ≥ hdrSize true d.length) := by omega
      have hr : dumpHasRoom (remaining - (remaining - d.length - hdrSize false d.length)) false d.length = true := by
        simp only [dumpHasRoom, Bool.or_eq_true, decide_eq_true_eq, hdrSize_false]; right; omega
      simp only [h3, if_false, hr, if_true, h2]
      simp [hdrSize_false]

theorem tryLoad_closed (remaining : Nat) (s : Sender) (e : ConnErr) (hc : s.closed = some e) :
    tryLoad remaining s = (s, .closed) := by
  unfold tryLoad; simp [hc]

theorem tryLoad_empty (remaining : Nat) (s : Sender) (hc : s.closed = none) (hq : s.queue = []) :
    tryLoad remaining s = (s, .empty) := by
  unfold tryLoad; simp [hc, hq]

/-- no space at all: nothing is written, nothing is popped -/
theorem loadN_no_room (calls : Nat) (s : Sender) : (loadN calls 0 s).1 = s ∧ (loadN calls 0 s).2.1 = [] := by
  cases calls with
  | zero => simp [loadN]
  | succ c =>
    cases hc : s.closed with
    | some e => simp [loadN, tryLoad_closed 0 s e hc]
    | none =>
      cases hq : s.queue with
      | nil => simp [loadN, tryLoad_empty 0 s hc hq]
      | cons d rest =>
        have : tryLoad 0 s = (s, .noRoom) := by unfold tryLoad; simp [hc, hq]
        simp [loadN, this]

theorem WFPkt_cons_withLen (l : Loaded) (p : Pkt) (hl : l.payload.length < 2 ^ 62) (hw : l.withLen = true)
    (hp : WFPkt p) : WFPkt (l :: p) := by
  cases p with
  | nil => exact hl
  | cons _ _ => exact ⟨hl, hw, hp⟩

theorem loadN_wrote (c remaining : Nat) (s s' : Sender) (pad : Nat) (wl : Bool) (d : Bytes)
    (h : tryLoad remaining s = (s', .wrote pad wl d)) :
    loadN (c + 1) remaining s =
      ((loadN c (remaining - (pad + hdrSize wl d.length + d.length)) s').1,
       Loaded.mk pad wl d :: (loadN c (remaining - (pad + hdrSize wl d.length + d.length)) s').2.1,
       (loadN c (remaining - (pad + hdrSize wl d.length + d.length)) s').2.2) := by
  simp only [loadN, h, Loaded.size]

theorem loadN_stop (c remaining : Nat) (s s' : Sender) (r : LoadRes)
    (h : tryLoad remaining s = (s', r)) (hr : ∀ pad wl d, r ≠ .wrote pad wl d) :
    loadN (c + 1) remaining s = (s', [], some r) := by
  simp only [loadN, h]

/-- What one assembly pass does to the queue, for any number of calls and any room:
the packet is well formed, fits, and carries exactly the datagrams popped from the head, in order. -/
theorem loadN_spec (calls : Nat) : ∀ (remaining : Nat) (s : Sender),
    (∀ d ∈ s.queue, d.length < 2 ^ 62) →
    WFPkt (loadN calls remaining s).2.1 ∧
    (encPkt (loadN calls remaining s).2.1).length ≤ remaining ∧
    (loadN calls remaining s).1.closed = s.closed ∧
    (s.closed = none → Pkt.payloads (loadN calls remaining s).2.1 ++ (loadN calls remaining s).1.queue = s.queue) ∧
    (s.closed ≠ none → (loadN calls remaining s).2.1 = [] ∧ (loadN calls remaining s).1 = s) := by
  induction calls with
  | zero => intro remaining s _; simp [loadN, WFPkt, encPkt, Pkt.payloads]
  | succ c ih =>
    intro remaining s hs
    cases hc : s.closed with
    | some e =>
      rw [loadN_stop c remaining s s _ (tryLoad_closed remaining s e hc) (by intros; simp)]
      simp [WFPkt, encPkt, hc]
    | none =>
      cases hq : s.queue with
      | nil =>
        rw [loadN_stop c remaining s s _ (tryLoad_empty remaining s hc hq) (by intros; simp)]
        simp [WFPkt, encPkt, Pkt.payloads, hc, hq]
      | cons d rest =>
        have hd : d.length < 2 ^ 62 := hs d (by simp [hq])
        have hrest : ∀ x ∈ rest, x.length < 2 ^ 62 := fun x hx => hs x (by simp [hq, hx])
        have htl := tryLoad_eq remaining s d rest hc hq hd
        by_cases h1 : remaining ≤ d.length
        · simp only [h1, if_true] at htl
          rw [loadN_stop c remaining s s _ htl (by intros; simp)]
          simp [WFPkt, encPkt, Pkt.payloads, hc, hq]
        · simp only [h1, if_false] at htl
          by_cases h2 : hdrSize true d.length + d.length ≤ remaining
          · simp only [h2, if_true] at htl
            rw [loadN_wrote c remaining s _ 0 true d htl]
            have ih' := ih (remaining - (0 + hdrSize true d.length + d.length)) { s with queue := rest } hrest
            obtain ⟨i1, i2, i3, i4, _⟩ := ih'
            have i4' := i4 hc
            refine ⟨WFPkt_cons_withLen _ _ hd rfl i1, ?_, ?_, ?_, ?_⟩
            · have e1 : ∀ (l : Loaded) (p : Pkt), (encPkt (l :: p)).length = l.size + (encPkt p).length := by
                intro l p; simp [encPkt, Loaded.enc_length]
              rw [e1]
              simp only [Loaded.size]
              omega
            · rw [i3]; exact hc
            · intro _
              simp only [Pkt.payloads, List.map_cons, List.cons_append] at i4' ⊢
              rw [i4']
            · intro h; exact absurd rfl h
          · simp only [h2, if_false] at htl
            rw [loadN_wrote c remaining s _ _ false d htl]
            have hsz : remaining - d.length - 1 + hdrSize false d.length + d.length = remaining := by
              simp only [hdrSize_false]; omega
            rw [hsz, Nat.sub_self]
            obtain ⟨z1, z2⟩ := loadN_no_room c { s with queue := rest }
            rw [z1, z2]
            refine ⟨hd, ?_, hc, ?_, ?_⟩
            · simp only [encPkt, List.flatMap_cons, List.flatMap_nil, List.append_nil, Loaded.enc_length, Loaded.size, hsz]
              exact Nat.le_refl _
            · intro _; simp [Pkt.payloads]
            · intro h; exact absurd rfl h

end GmQuic.Datagram
