import GmQuic.Model.ConnState
/-! Invariant of the `ArcConnState` CAS machine, preserved by every atomic step of every thread. -/
namespace GmQuic.ConnState

/-- thread is between its winning CAS and `terminated.set` -/
def isSetter : Closer → Pc → Bool
  | .closing _, .won _ => true
  | .draining _, .won _ => true
  | _, _ => false

/-- thread is between its winning CAS and `handshaked.set` -/
def isHsSetter : Closer → Pc → Bool
  | .handshaked, .won _ => true
  | _, _ => false

structure Inv {n : Nat} (prog : Fin n → Closer) (s : State n) : Prop where
  noFail : s.sh.expectFailed = false
  sorted : s.sh.trace.Pairwise (· ≤ ·)
  bounded : ∀ x ∈ s.sh.trace, x ≤ s.sh.code
  uniq : ∀ i j, isSetter (prog i) (s.pcs i) = true → isSetter (prog j) (s.pcs j) = true → i = j
  setterNone : ∀ i, isSetter (prog i) (s.pcs i) = true → s.sh.terminated = none ∧ 7 ≤ s.sh.code
  closed : 7 ≤ s.sh.code → s.sh.terminated.isSome = true ∨ ∃ i, isSetter (prog i) (s.pcs i) = true
  termCode : s.sh.terminated.isSome = true → 7 ≤ s.sh.code
  termLoaded : ∀ i old, prog i = .terminate → s.pcs i = .loaded old → 7 ≤ old
  hsUniq : ∀ i j, isHsSetter (prog i) (s.pcs i) = true → isHsSetter (prog j) (s.pcs j) = true → i = j
  hsNone : ∀ i, isHsSetter (prog i) (s.pcs i) = true → s.sh.handshaked = false ∧ 6 ≤ s.sh.code
  hsCode : s.sh.handshaked = true → 6 ≤ s.sh.code
  loadedLe : ∀ i old, s.pcs i = .loaded old → old ≤ s.sh.code

theorem inv_init {n : Nat} (prog : Fin n → Closer) : Inv prog (init n) := by
  constructor <;> simp [init, isSetter, isHsSetter]

/-- The effect of one atomic step, as a disjunction of the possible kinds of step. -/
inductive Kind where
  | local_     -- shared memory unchanged, thread does not become a setter
  | cas        -- winning CAS
  | set        -- SetOnce::set
  deriving DecidableEq

theorem pairwise_push (l : List Nat) (c : Nat) (h : l.Pairwise (· ≤ ·)) (hb : ∀ x ∈ l, x ≤ c) :
    (l ++ [c]).Pairwise (· ≤ ·) := by
  rw [List.pairwise_append]
  refine ⟨h, by simp, ?_⟩
  intro a ha b hb'
  simp at hb'
  subst hb'
  exact hb a ha

theorem none_of_not_isSome (o : Option Nat) (h : o.isSome = false) : o = none := by
  cases o <;> simp_all

theorem inv_step_attempt {n : Nat} (prog : Fin n → Closer) (s : State n) (i : Fin n) (h : Inv prog s)
    (hp : prog i = .attempt) : Inv prog (stepThread prog s i) := by
  obtain ⟨h1, h2, h3, h4, h5, h6, h7, h8, h9, h10, h11, h12⟩ := h
  cases hpc : s.pcs i <;>
    (constructor <;> simp only [stepThread, hp, hpc, stepPc, afterWin, newCode, push] <;>
      grind [isSetter, isHsSetter, pairwise_push, none_of_not_isSome])

theorem inv_step_handshaked {n : Nat} (prog : Fin n → Closer) (s : State n) (i : Fin n) (h : Inv prog s)
    (hp : prog i = .handshaked) : Inv prog (stepThread prog s i) := by
  obtain ⟨h1, h2, h3, h4, h5, h6, h7, h8, h9, h10, h11, h12⟩ := h
  cases hpc : s.pcs i <;>
    (constructor <;> simp only [stepThread, hp, hpc, stepPc, afterWin, newCode, push] <;>
      grind [isSetter, isHsSetter, pairwise_push, none_of_not_isSome])

theorem inv_step_closing {n : Nat} (prog : Fin n → Closer) (s : State n) (i : Fin n) (e : Nat) (h : Inv prog s)
    (hp : prog i = .closing e) : Inv prog (stepThread prog s i) := by
  obtain ⟨h1, h2, h3, h4, h5, h6, h7, h8, h9, h10, h11, h12⟩ := h
  cases hpc : s.pcs i <;>
    (constructor <;> simp only [stepThread, hp, hpc, stepPc, afterWin, newCode, push] <;>
      grind [isSetter, isHsSetter, pairwise_push, none_of_not_isSome])

theorem inv_step_draining {n : Nat} (prog : Fin n → Closer) (s : State n) (i : Fin n) (e : Nat) (h : Inv prog s)
    (hp : prog i = .draining e) : Inv prog (stepThread prog s i) := by
  obtain ⟨h1, h2, h3, h4, h5, h6, h7, h8, h9, h10, h11, h12⟩ := h
  cases hpc : s.pcs i <;>
    (constructor <;> simp only [stepThread, hp, hpc, stepPc, afterWin, newCode, push] <;>
      grind [isSetter, isHsSetter, pairwise_push, none_of_not_isSome])

theorem inv_step_terminate {n : Nat} (prog : Fin n → Closer) (s : State n) (i : Fin n) (h : Inv prog s)
    (hp : prog i = .terminate) : Inv prog (stepThread prog s i) := by
  obtain ⟨h1, h2, h3, h4, h5, h6, h7, h8, h9, h10, h11, h12⟩ := h
  cases hpc : s.pcs i <;>
    (constructor <;> simp only [stepThread, hp, hpc, stepPc, afterWin, newCode, push] <;>
      grind [isSetter, isHsSetter, pairwise_push, none_of_not_isSome])

theorem inv_step {n : Nat} (prog : Fin n → Closer) (s : State n) (i : Fin n) (h : Inv prog s) :
    Inv prog (stepThread prog s i) := by
  cases hp : prog i with
  | attempt => exact inv_step_attempt prog s i h hp
  | handshaked => exact inv_step_handshaked prog s i h hp
  | closing e => exact inv_step_closing prog s i e h hp
  | draining e => exact inv_step_draining prog s i e h hp
  | terminate => exact inv_step_terminate prog s i h hp

end GmQuic.ConnState
