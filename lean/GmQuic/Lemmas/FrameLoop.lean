import GmQuic.Lemmas.FrameRd
/-!
C03 helper lemmas: the `FrameReader` step and the `read_plain_packet` loop.
-/
namespace GmQuic.FrameRd
open GmQuic.Wire GmQuic.Codec GmQuic.PacketDec GmQuic.Gen GmQuic.Gen.C03

/-- the iterator: never panics; an `Ok` step advances the payload by at least one byte -/
theorem next_step (bs : Bytes) (t : PktType) :
    (∀ site, FrameReader.next t bs ≠ .panic site) ∧
    (∀ f rest, FrameReader.next t bs = .frame f rest → rest.length < bs.length) := by
  unfold FrameReader.next
  constructor
  · intro site
    split
    · intro h; cases h
    · cases hd : decFrame t bs with
      | ok f rest =>
        have := decFrame_lt t bs f rest hd
        simp only; rw [if_neg (by omega)]; intro h; cases h
      | err k => intro h; cases h
      | panic s => exact absurd hd (decFrame_np t bs s)
  · intro f rest
    split
    · intro h; cases h
    · cases hd : decFrame t bs with
      | ok f' rest' =>
        have := decFrame_lt t bs f' rest' hd
        simp only; rw [if_neg (by omega)]; intro h; cases h
        simp only [List.length_drop]; omega
      | err k => intro h; cases h
      | panic s => intro h; cases h

theorem run_ok (t : PktType) : ∀ fuel bs acc, bs.length < fuel →
    (∀ s, readPlainRun fuel t bs acc ≠ .panic s) ∧ readPlainRun fuel t bs acc ≠ .outOfFuel ∧
    (∀ fr e, readPlainRun fuel t bs acc = .err fr e → e ≠ .noFrames) := by
  intro fuel
  induction fuel with
  | zero => intro bs acc h; omega
  | succ fuel ih =>
    intro bs acc hlen
    have hs := next_step bs t
    unfold readPlainRun
    cases hn : FrameReader.next t bs with
    | eof => exact ⟨fun s h => (by cases h), fun h => (by cases h), fun fr e h => (by cases h)⟩
    | panic s => exact absurd hn (hs.1 s)
    | frame f rest =>
      have := hs.2 f rest hn
      exact ih rest (f :: acc) (by omega)
    | err k =>
      simp only
      have hk : ∃ e, ferrOf k = some e ∧ e ≠ .noFrames := by
        unfold FrameReader.next at hn
        split at hn
        · cases hn
        · cases hd : decFrame t bs with
          | ok f rest => rw [hd] at hn; simp only at hn; split at hn <;> cases hn
          | err k' => rw [hd] at hn; cases hn; exact decFrame_err t bs k hd
          | panic s => rw [hd] at hn; cases hn
      obtain ⟨e, he, hne⟩ := hk
      rw [he]
      exact ⟨fun s h => (by cases h), fun h => (by cases h), fun fr e' h => (by cases h; exact hne)⟩

/-- the loop only ever adds to the frames already dispatched -/
theorem run_ok_len (t : PktType) : ∀ fuel bs acc fs, readPlainRun fuel t bs acc = .ok fs → acc.length ≤ fs.length := by
  intro fuel
  induction fuel with
  | zero => intro bs acc fs h; simp [readPlainRun] at h
  | succ fuel ih =>
    intro bs acc fs h
    unfold readPlainRun at h
    cases hn : FrameReader.next t bs with
    | eof => rw [hn] at h; simp only [PlainOut.ok.injEq] at h; subst h; simp
    | panic s => rw [hn] at h; cases h
    | frame f rest =>
      rw [hn] at h
      have := ih rest (f :: acc) fs h
      simp only [List.length_cons] at this; omega
    | err k =>
      rw [hn] at h
      cases hk : ferrOf k <;> simp [hk] at h

end GmQuic.FrameRd
