import GmQuic.Lemmas.AntiAmpConc
/-! One-step preservation of `CInv` for every operation of the interleaving model. -/
namespace GmQuic.AntiAmp

theorem A_normal (s : Conc) (h : s.aa.state = .normal) :
    s.A = s.aa.credit + pendAdd s.pool - s.sender.pendSub := by simp [Conc.A, h]

theorem A_other (s : Conc) (h : s.aa.state ≠ .normal) :
    s.A = if s.sender.mayHold then s.aa.credit + pendAdd s.pool else 0 := by simp [Conc.A, h]

theorem cinv_pool (s : Conc) (i : Nat) (hi : CInv s) (hb : 3 * s.rcvdTotal < U) :
    CInv (s.step (.stepPool i)) := by
  obtain ⟨uf, ng, pool, sok, i3, i4, i6⟩ := hi
  have hr := stepAt_rel i s.pool s.aa pool (by omega)
  simp only [Conc.step]
  generalize stepAt i s.pool s.aa = r at hr
  obtain ⟨p', a'⟩ := r
  obtain ⟨hp', rel⟩ := hr
  simp only at hp' rel ⊢
  have hng : a'.state ≠ .granted := by
    rcases rel.st with h | ⟨_, h⟩ <;> simp [h, ng]
  refine ⟨by simp [rel.uf, uf], hng, hp', sok, ?_, by have := rel.mono; simpa using by omega,
    by have := rel.sum; simpa using by omega⟩
  have hsum := rel.sum
  have hmono := rel.mono
  by_cases hs : s.aa.state = .normal
  · rw [A_normal s hs] at i3
    rcases rel.st with h | ⟨_, h⟩
    · rw [A_normal _ (by simp [h, hs])]; simp only; omega
    · rw [A_other _ (by simp [h])]; simp only
      split
      · rename_i hm
        have : s.sender.pendSub = 0 := by
          cases hsd : s.sender <;> simp [hsd, Sender.mayHold, Sender.pendSub] at hm ⊢
        omega
      · omega
  · rw [A_other s hs] at i3
    have h : a'.state = s.aa.state := by
      rcases rel.st with h | ⟨h, _⟩
      · exact h
      · exact absurd h hs
    rw [A_other _ (by simp [h, hs])]; simp only
    split <;> rename_i hm <;> simp [hm] at i3 <;> omega

theorem cinv_call (s : Conc) (op : COp) (hi : CInv s)
    (hop : (∃ n, op = .callRcvd n) ∨ op = .callAbort) : CInv (s.step op) := by
  obtain ⟨uf, ng, pool, sok, i3, i4, i6⟩ := hi
  have hN : N = 3 := rfl
  rcases hop with ⟨n, rfl⟩ | rfl
  · simp only [Conc.step]
    refine ⟨uf, ng, ?_, sok, ?_, i4, ?_⟩
    · intro f hf; simp at hf; rcases hf with hf | rfl
      · exact pool f hf
      · simp [Frame.poolOk]
    · by_cases hs : s.aa.state = .normal
      · rw [A_normal s hs] at i3; rw [A_normal _ (by simpa using hs)]
        simp only [pendAdd_append, Frame.padd, hN]
        have := i4; omega
      · rw [A_other s hs] at i3; rw [A_other _ (by simpa using hs)]
        simp only [pendAdd_append, Frame.padd, hN]
        split <;> rename_i hm <;> simp [hm] at i3 <;> omega
    · simp only [pendAdd_append, Frame.padd, hN]; omega
  · simp only [Conc.step]
    refine ⟨uf, ng, ?_, sok, ?_, i4, ?_⟩
    · intro f hf; simp at hf; rcases hf with hf | rfl
      · exact pool f hf
      · simp [Frame.poolOk]
    · by_cases hs : s.aa.state = .normal
      · rw [A_normal s hs] at i3; rw [A_normal _ (by simpa using hs)]
        simp only [pendAdd_append, Frame.padd]; omega
      · rw [A_other s hs] at i3; rw [A_other _ (by simpa using hs)]
        simp only [pendAdd_append, Frame.padd]
        split <;> rename_i hm <;> simp [hm] at i3 <;> omega
    · simp only [pendAdd_append, Frame.padd]; omega

end GmQuic.AntiAmp
