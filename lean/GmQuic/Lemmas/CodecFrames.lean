import GmQuic.Model.FrameWF
import GmQuic.Lemmas.Codec
/-! Body round trip of every frame kind: `complete_frame(type)(body ++ rest) = Ok(rest, frame)`. -/
namespace GmQuic.Codec
open GmQuic.Wire GmQuic.Gen

theorem wfRangesB_iff (rs : List (Nat × Nat)) (h : wfRangesB rs = true) : wfRanges rs := by
  intro p hp
  simp only [wfRangesB, List.all_eq_true, v62, Bool.and_eq_true, decide_eq_true_eq] at h
  exact h p hp

theorem take_append_len {α} (a b : List α) (n : Nat) (h : a.length = n) : (a ++ b).take n = a := by
  subst h; simp
theorem drop_append_len {α} (a b : List α) (n : Nat) (h : a.length = n) : (a ++ b).drop n = b := by
  subst h; simp

theorem utf8Lossy_valid (r : Bytes) (h : validUtf8 r = true) : utf8Lossy r = r := by simp [utf8Lossy, h]

theorem natType_mod (n : Nat) (h : n ≤ 5) : natTypeOk n = true ∧ n % 256 = n := by
  constructor
  · simp [natTypeOk]; omega
  · omega

theorem decBody_enc_simple (f : Frame) (rest : Bytes) (hwf : wf f = true)
    (hs : match f with
          | .ack .. | .closeApp .. | .closeQuic .. | .stream .. | .crypto .. | .datagram .. | .newConnectionId .. => False
          | _ => True) :
    decBody f.type (encBody f ++ rest) = .ok f rest := by
  cases f <;> simp only [] at hs
  case streamCtl c =>
    cases c
    case maxStreams uni n =>
      have hwf : n ≤ maxStreamsLimit := by simp only [wf, wfCtl] at hwf; exact of_decide_eq_true hwf
      have hm : maxStreamsLimit < 2 ^ 62 := by decide
      simp only [Frame.type, decBody, encBody]
      rw [pVarint_enc _ _ (by omega), Res.bind_ok, if_neg (by omega)]
    all_goals
      simp only [wf, wfCtl, v62, Bool.and_eq_true, decide_eq_true_eq] at hwf <;>
      simp only [Frame.type, decBody, encBody, List.append_assoc] <;>
      simp [pVarint_enc, hwf]
  case addAddress seq a tire nat =>
    simp only [wf, v62, wfAddr, Bool.and_eq_true, decide_eq_true_eq] at hwf
    obtain ⟨⟨⟨h1, h2, h3⟩, h4⟩, h5⟩ := hwf
    have hn := natType_mod nat h5
    simp only [Frame.type, decBody, encBody, List.append_assoc]
    rw [pVarint_enc _ _ h1, Res.bind_ok, pSockAddr_enc a _ h2 h3, Res.bind_ok, pVarint_enc _ _ h4, Res.bind_ok,
      pVarint_enc _ _ (by omega), Res.bind_ok]
    simp [hn.1, hn.2]
  case punchMeNow l r a tire nat =>
    simp only [wf, v62, wfAddr, Bool.and_eq_true, decide_eq_true_eq] at hwf
    obtain ⟨⟨⟨⟨h0, h1⟩, h2, h3⟩, h4⟩, h5⟩ := hwf
    have hn := natType_mod nat h5
    simp only [Frame.type, decBody, encBody, List.append_assoc]
    rw [pVarint_enc _ _ h0, Res.bind_ok, pVarint_enc _ _ h1, Res.bind_ok, pSockAddr_enc a _ h2 h3, Res.bind_ok,
      pVarint_enc _ _ h4, Res.bind_ok, pVarint_enc _ _ (by omega), Res.bind_ok]
    simp [hn.1, hn.2]
  all_goals
    simp only [wf, v62, Bool.and_eq_true, decide_eq_true_eq] at hwf
  all_goals
    simp only [Frame.type, decBody, encBody, List.append_assoc, List.nil_append]
  all_goals first
    | rfl
    | (simp [pVarint_enc, pTakeS_append, pTakeC_append, hwf]; done)
    | (rw [Nat.mod_eq_of_lt hwf, pVarint_enc _ _ (by omega)]; simp [pTakeS_append])

theorem decBody_enc_ack (l d f : Nat) (rs : List (Nat × Nat)) (ecn : Option (Nat × Nat × Nat)) (rest : Bytes)
    (hwf : wf (.ack l d f rs ecn) = true) :
    decBody (Frame.ack l d f rs ecn).type (encBody (.ack l d f rs ecn) ++ rest) = .ok (.ack l d f rs ecn) rest := by
  simp only [wf, v62, Bool.and_eq_true, decide_eq_true_eq] at hwf
  obtain ⟨⟨⟨⟨⟨h1, h2⟩, h3⟩, h4⟩, h5⟩, h6⟩ := hwf
  have h4 := wfRangesB_iff rs h4
  simp only [Frame.type, decBody, encBody, List.append_assoc]
  rw [pVarint_enc _ _ h1, Res.bind_ok, pVarint_enc _ _ h2, Res.bind_ok, pVarint_enc _ _ h5, Res.bind_ok,
    pVarint_enc _ _ h3, Res.bind_ok, pRanges_enc rs _ h4, Res.bind_ok]
  cases ecn with
  | none => simp [encEcn]
  | some e =>
    obtain ⟨a, b, c⟩ := e
    simp only [Bool.and_eq_true, decide_eq_true_eq] at h6
    simp only [encEcn, Option.isSome_some, ↓reduceIte, List.append_assoc]
    rw [pVarint_enc _ _ h6.1.1, Res.bind_ok, pVarint_enc _ _ h6.1.2, Res.bind_ok, pVarint_enc _ _ h6.2, Res.bind_ok]

theorem decBody_enc_closeApp (code : Nat) (reason rest : Bytes) (hwf : wf (.closeApp code reason) = true) :
    decBody (Frame.closeApp code reason).type (encBody (.closeApp code reason) ++ rest)
      = .ok (.closeApp code reason) rest := by
  simp only [wf, v62, Bool.and_eq_true, decide_eq_true_eq] at hwf
  obtain ⟨⟨h1, h2⟩, h3⟩ := hwf
  simp only [Frame.type, decBody, encBody, List.append_assoc]
  rw [pVarint_enc _ _ h1, Res.bind_ok, Nat.mod_eq_of_lt (by omega), pVarint_enc _ _ (by omega), Res.bind_ok,
    pTakeC_append _ _ _ rfl, Res.bind_ok, utf8Lossy_valid _ h3]

theorem pErrFty_enc (t : ErrFty) (rest : Bytes) (h : wfFty t = true) :
    pErrFty (encVarint (natOfErrFty t) ++ rest) = .ok t rest := by
  cases t with
  | v1 ft =>
    have := natOfFrameType_lt ft
    simp only [pErrFty, natOfErrFty]
    rw [pVarint_enc _ _ (by omega), Res.bind_ok, frameType_roundtrip]
  | ext v =>
    simp only [wfFty, v62, Bool.and_eq_true, decide_eq_true_eq, Option.isNone_iff_eq_none] at h
    simp only [pErrFty, natOfErrFty]
    rw [pVarint_enc _ _ h.1, Res.bind_ok, h.2]

theorem errKind_rt (k : EKind) (h : wfKind k = true) : errKindOfNat (natOfErrKind k) = some k := by
  cases k with
  | named i => exact errKind_roundtrip_named i (by simpa [wfKind] using h)
  | crypto x => exact errKind_roundtrip_crypto x (by simpa [wfKind] using h)

theorem decBody_enc_closeQuic (k : EKind) (t : ErrFty) (reason rest : Bytes)
    (hwf : wf (.closeQuic k t reason) = true) :
    decBody (Frame.closeQuic k t reason).type (encBody (.closeQuic k t reason) ++ rest)
      = .ok (.closeQuic k t reason) rest := by
  simp only [wf, Bool.and_eq_true, decide_eq_true_eq] at hwf
  obtain ⟨⟨⟨h1, h2⟩, h3⟩, h4⟩ := hwf
  have hk := natOfErrKind_lt k
  simp only [Frame.type, decBody, encBody, List.append_assoc]
  rw [pVarint_enc _ _ (by omega), Res.bind_ok, errKind_rt k h1]
  simp only [pErrFty_enc t _ h2, Res.bind_ok]
  rw [Nat.mod_eq_of_lt (by omega), pVarint_enc _ _ (by omega), Res.bind_ok,
    pTakeC_append _ _ _ rfl, Res.bind_ok, utf8Lossy_valid _ h4]

theorem pCid_enc (cid rest : Bytes) (h : cid.length ≤ maxCidSize) :
    pCid (UInt8.ofNat cid.length :: (cid ++ rest)) = .ok cid rest := by
  have hm : maxCidSize = 20 := rfl
  have : (UInt8.ofNat cid.length).toNat = cid.length := by
    rw [UInt8.toNat_ofNat']; omega
  simp only [pCid, pU8S, Res.bind_ok, this]
  rw [if_neg (by omega), pTakeS_append _ _ _ rfl]

theorem decBody_enc_newCid (seq rpt : Nat) (cid tok rest : Bytes)
    (hwf : wf (.newConnectionId seq rpt cid tok) = true) :
    decBody (Frame.newConnectionId seq rpt cid tok).type (encBody (.newConnectionId seq rpt cid tok) ++ rest)
      = .ok (.newConnectionId seq rpt cid tok) rest := by
  simp only [wf, v62, Bool.and_eq_true, decide_eq_true_eq] at hwf
  obtain ⟨⟨⟨⟨h1, h2⟩, h3⟩, h4⟩, h5⟩ := hwf
  simp only [Frame.type, decBody, encBody, List.append_assoc, List.cons_append]
  rw [pVarint_enc _ _ h1, Res.bind_ok, pVarint_enc _ _ (by omega), Res.bind_ok, if_neg (by omega),
    pCid_enc cid _ h4, Res.bind_ok]
  have : cid.isEmpty = false := by cases cid <;> simp_all
  simp only [this, Bool.false_eq_true, ↓reduceIte]
  rw [pTakeC_append _ _ _ h5, Res.bind_ok]

theorem decBody_enc_crypto (off len : Nat) (data rest : Bytes) (hwf : wf (.crypto off len data) = true) :
    decBody (Frame.crypto off len data).type (encBody (.crypto off len data) ++ rest)
      = .ok (.crypto off len data) rest := by
  simp only [wf, Bool.and_eq_true, decide_eq_true_eq] at hwf
  obtain ⟨h1, h2⟩ := hwf
  have hm : varintMax = 2 ^ 62 - 1 := rfl
  simp only [Frame.type, decBody, encBody, List.append_assoc]
  rw [pVarint_enc _ _ (by omega), Res.bind_ok, pVarint_enc _ _ (by omega), Res.bind_ok]
  rw [if_neg (by omega), if_neg (by simp; omega), take_append_len _ _ _ h1, drop_append_len _ _ _ h1]

theorem decBody_enc_datagram (w : Bool) (len : Nat) (data rest : Bytes) (hwf : wf (.datagram w len data) = true)
    (hd : w = true ∨ rest = []) :
    decBody (Frame.datagram w len data).type (encBody (.datagram w len data) ++ rest)
      = .ok (.datagram w len data) rest := by
  simp only [wf, v62, Bool.and_eq_true, decide_eq_true_eq] at hwf
  obtain ⟨h1, h2⟩ := hwf
  cases w with
  | true =>
    simp only [Frame.type, decBody, encBody, ↓reduceIte, List.append_assoc]
    rw [pVarint_enc _ _ h2, Res.bind_ok, if_neg (by simp; omega), take_append_len _ _ _ h1,
      drop_append_len _ _ _ h1]
  | false =>
    have hr : rest = [] := by simpa using hd
    subst hr
    simp [Frame.type, decBody, encBody, h1]

theorem decBody_enc_stream (sid off len : Nat) (lb fin : Bool) (data rest : Bytes)
    (hwf : wf (.stream sid off len lb fin data) = true) (hd : lb = true ∨ rest = []) :
    decBody (Frame.stream sid off len lb fin data).type (encBody (.stream sid off len lb fin data) ++ rest)
      = .ok (.stream sid off len lb fin data) rest := by
  simp only [wf, v62, Bool.and_eq_true, decide_eq_true_eq] at hwf
  obtain ⟨⟨⟨h1, h2⟩, h3⟩, h4⟩ := hwf
  have hm : varintMax = 2 ^ 62 - 1 := rfl
  simp only [Frame.type, decBody, encBody, List.append_assoc]
  rw [pVarint_enc _ _ h1, Res.bind_ok]
  have hoff : (if (off != 0) = true then pVarint ((if (off != 0) = true then encVarint off else []) ++
        ((if lb = true then encVarint (len % 2 ^ 32) else []) ++ (data ++ rest)))
      else Res.ok 0 ((if (off != 0) = true then encVarint off else []) ++
        ((if lb = true then encVarint (len % 2 ^ 32) else []) ++ (data ++ rest))))
      = Res.ok off ((if lb = true then encVarint (len % 2 ^ 32) else []) ++ (data ++ rest)) := by
    by_cases h0 : off = 0
    · subst h0; simp
    · have : (off != 0) = true := by simpa using h0
      simp only [this, ↓reduceIte]
      rw [pVarint_enc _ _ (by omega)]
  rw [hoff, Res.bind_ok]
  cases lb with
  | true =>
    simp only [↓reduceIte]
    rw [Nat.mod_eq_of_lt h4, pVarint_enc _ _ (by omega), Res.bind_ok, if_neg (by omega), if_neg (by simp; omega),
      take_append_len _ _ _ h2, drop_append_len _ _ _ h2]
  | false =>
    have hr : rest = [] := by simpa using hd
    subst hr
    simp only [Bool.false_eq_true, ↓reduceIte, List.nil_append, List.append_nil, Res.bind_ok, h2]
    rw [if_neg (by omega), if_neg (by omega)]
    simp [← h2]

/-- body round trip, all kinds -/
theorem decBody_enc (f : Frame) (rest : Bytes) (hwf : wf f = true) (hd : delimited f = true ∨ rest = []) :
    decBody f.type (encBody f ++ rest) = .ok f rest := by
  cases f
  case ack l d fr rs ecn => exact decBody_enc_ack l d fr rs ecn rest hwf
  case closeApp c r => exact decBody_enc_closeApp c r rest hwf
  case closeQuic k t r => exact decBody_enc_closeQuic k t r rest hwf
  case newConnectionId s r c t => exact decBody_enc_newCid s r c t rest hwf
  case crypto o l d => exact decBody_enc_crypto o l d rest hwf
  case datagram w l d => exact decBody_enc_datagram w l d rest hwf (by simpa [delimited] using hd)
  case stream s o l lb fin d => exact decBody_enc_stream s o l lb fin d rest hwf (by simpa [delimited] using hd)
  all_goals exact decBody_enc_simple _ rest hwf trivial

end GmQuic.Codec
