import GmQuic.Lemmas.CidRetire
/-! C14 — the invariant behind "retire-prior-to is honoured by switching and one retirement per abandoned id":
`Good s p` (`p` = the pending list, kept as a parameter because `arrange_idle_cid` consumes it). -/
namespace GmQuic.Cid
namespace Remote

structure Good (s : Remote) (p : List Nat) : Prop where
  rinv : RInv s
  /-- every sequence number below `cursor` is held by exactly one cell or was retired by exactly one frame -/
  acct : ∀ q, s.acct q = if q < s.cursor then 1 else 0
  pend : ∀ c ∈ p, c < s.cells.length
  rdy : ∀ c ∈ s.ready, c < s.cells.length
  /-- every live cell is queued for (re)assignment or is a ready cell -/
  cover : ∀ c, c < s.cells.length → c ∈ p ∨ c ∈ s.ready ∨ (s.cell c).retired = true
  /-- the ready cell at position `j` is retired or its newest id has a number ≥ offset + j (≥ retire-prior-to) -/
  heads : ∀ j c, s.ready[j]? = some c →
    (s.cell c).retired = true ∨ ∃ h x rest, (s.cell c).alloc = (h, x) :: rest ∧ s.roff + j ≤ h

theorem Good.set_pending {s : Remote} {p : List Nat} (h : Good s p) (p' : List Nat) : Good { s with pending := p' } p :=
  ⟨⟨h.rinv.i1, h.rinv.i2, h.rinv.ok⟩, h.acct, h.pend, h.rdy, h.cover, h.heads⟩

/-- "no replacement available": nothing is queued, or the next unused sequence number has not been received -/
def Settled (s : Remote) : Prop := s.pending = [] ∨ s.cidAt s.cursor = none

/-! ### `arrange_idle_cid` -/

theorem good_assign (s : Remote) (c : Nat) (rest : List Nat) (cid : Cid) (h : Good s (c :: rest))
    (hr : (s.cell c).retired = false) :
    Good { s.setCell c ((s.cell c).assign s.cursor cid).1 with
            ready := s.ready ++ [c], cursor := s.cursor + 1,
            frames := s.frames ++ ((s.cell c).assign s.cursor cid).2 } rest ∧
    Leaves s { s.setCell c ((s.cell c).assign s.cursor cid).1 with
            ready := s.ready ++ [c], cursor := s.cursor + 1,
            frames := s.frames ++ ((s.cell c).assign s.cursor cid).2 } := by
  have hc : c < s.cells.length := h.pend c (by simp)
  have k := arrKeeps_assign s c cid hr
  generalize hs1 : ({ s.setCell c ((s.cell c).assign s.cursor cid).1 with
            ready := s.ready ++ [c], cursor := s.cursor + 1,
            frames := s.frames ++ ((s.cell c).assign s.cursor cid).2 } : Remote) = s1 at k ⊢
  have hcells : s1.cells = s.cells.set c ((s.cell c).assign s.cursor cid).1 := by subst hs1; rfl
  have hframes : s1.frames = s.frames ++ ((s.cell c).assign s.cursor cid).2 := by subst hs1; rfl
  have hready : s1.ready = s.ready ++ [c] := by subst hs1; rfl
  have hcursor : s1.cursor = s.cursor + 1 := by subst hs1; rfl
  have hlen : s1.cells.length = s.cells.length := k.ncells
  have hcell : ∀ i, s1.cell i = (s.setCell c ((s.cell c).assign s.cursor cid).1).cell i := by
    intro i; simp only [cell, setCell, hcells]
  refine ⟨⟨⟨k.i1 h.rinv.i1, by rw [k.coff, k.roff]; exact h.rinv.i2, k.ok h.rinv.ok⟩, ?_, ?_, ?_, ?_, ?_⟩, ?_⟩
  · intro q
    have h1 := acct_of_set s s1 c _ _ q hc hcells hframes
    have h2 := Cell.assign_count (s.cell c) s.cursor cid q
    have h3 := h.acct q
    rw [hcursor]
    by_cases e : s.cursor = q
    · subst e
      simp only [if_true] at h2
      have : ¬ (s.cursor < s.cursor) := by omega
      simp only [this, if_false] at h3
      have : s.cursor < s.cursor + 1 := by omega
      simp only [this, if_true]
      omega
    · simp only [e, if_false] at h2
      by_cases l : q < s.cursor
      · have l' : q < s.cursor + 1 := by omega
        simp only [l, l', if_true] at h3 ⊢
        omega
      · have l' : ¬ q < s.cursor + 1 := by omega
        simp only [l, l', if_false] at h3 ⊢
        omega
  · intro x hx; rw [hlen]; exact h.pend x (by simp [hx])
  · intro x hx
    rw [hlen]
    rw [hready] at hx
    simp only [List.mem_append, List.mem_singleton] at hx
    rcases hx with hx | hx
    · exact h.rdy x hx
    · subst hx; exact hc
  · intro x hx
    rw [hlen] at hx
    rw [hready, k.retired x]
    rcases h.cover x hx with h1 | h1 | h1
    · simp only [List.mem_cons] at h1
      rcases h1 with h1 | h1
      · subst h1; right; left; simp
      · exact Or.inl h1
    · right; left; simp [h1]
    · exact Or.inr (Or.inr h1)
  · intro j x hx
    rw [k.roff, hcell, cell_setCell]
    rw [hready] at hx
    have hi1 := h.rinv.i1
    split
    · rename_i he
      right
      obtain ⟨rest', hrest⟩ := Cell.assign_head (s.cell c) s.cursor cid
      refine ⟨s.cursor, cid, rest', hrest, ?_⟩
      have : j < (s.ready ++ [c]).length := by
        rcases Nat.lt_or_ge j (s.ready ++ [c]).length with h' | h'
        · exact h'
        · rw [List.getElem?_eq_none h'] at hx; cases hx
      simp at this
      omega
    · rename_i hne
      rcases Nat.lt_or_ge j s.ready.length with hj | hj
      · rw [List.getElem?_append_left hj] at hx
        exact h.heads j x hx
      · rw [List.getElem?_append_right hj] at hx
        have : x = c := by
          cases hj' : j - s.ready.length with
          | zero => rw [hj'] at hx; simp at hx; exact hx.symm
          | succ n => rw [hj'] at hx; simp at hx
        exact absurd ⟨this.symm, hc⟩ hne
  · exact Leaves.of_set c _ _ hcells hframes (fun q hq => Cell.assign_mem _ _ _ q hq)

theorem arrangeGo_good (p : List Nat) : ∀ s : Remote, Good s p →
    Good (arrangeGo s p) (arrangeGo s p).pending ∧ Leaves s (arrangeGo s p) ∧ Settled (arrangeGo s p) := by
  induction p with
  | nil =>
    intro s h
    unfold arrangeGo
    exact ⟨h.set_pending [], Leaves.of_cells_eq rfl ⟨[], by simp⟩, Or.inl rfl⟩
  | cons c rest ih =>
    intro s h
    unfold arrangeGo
    split
    · rename_i hr
      refine ih s ⟨h.rinv, h.acct, fun x hx => h.pend x (by simp [hx]), h.rdy, fun x hx => ?_, h.heads⟩
      rcases h.cover x hx with h1 | h1 | h1
      · simp only [List.mem_cons] at h1
        rcases h1 with h1 | h1
        · subst h1; exact Or.inr (Or.inr hr)
        · exact Or.inl h1
      · exact Or.inr (Or.inl h1)
      · exact Or.inr (Or.inr h1)
    · rename_i hr
      split
      · rename_i cid _
        have hg := good_assign s c rest cid h (by simpa using hr)
        have := ih _ hg.1
        exact ⟨this.1, hg.2.trans this.2.1, this.2.2⟩
      · rename_i hnone
        exact ⟨h.set_pending (c :: rest), Leaves.of_cells_eq rfl ⟨[], by simp⟩, Or.inr hnone⟩

theorem arrange_good (s : Remote) (h : Good s s.pending) :
    Good s.arrange s.arrange.pending ∧ Leaves s s.arrange ∧ Settled s.arrange := arrangeGo_good _ s h

end Remote
end GmQuic.Cid
