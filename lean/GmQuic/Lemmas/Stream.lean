import GmQuic.Model.Stream
import GmQuic.Lemmas.RecvBuf
/-!
C01 helper lemmas, part 1: the safety invariant of the end-to-end stream model and its preservation by every
operation (`Stream.step`), hence along every history (`Stream.run`).
-/
namespace GmQuic.Stream
open GmQuic.RecvBuf (Bytes covered)

/-! ## vocabulary -/

/-- some emitted frame carries the FIN -/
def HasFin (em : List Frame) : Prop := ∃ f ∈ em, f.fin = true

/-- offset `y` has reached the receiver (already read, or stored in the reassembly buffer) -/
def Have (r : Recver) (y : Nat) : Prop := y < r.buf.nread ∨ covered r.buf.segs y

/-- the receiver knows the final size -/
def Sized (r : Recver) : Prop := r.st = .sizeKnown ∨ r.st = .dataRcvd ∨ r.st = .dataRead

/-- The safety invariant. -/
structure Inv (s : Stream) : Prop where
  /-- every emitted frame is a slice of `written`, below `sentHi` -/
  a1 : ∀ f ∈ s.emitted, f.stop ≤ s.snd.written.length ∧ f.data = slice s.snd.written f.off f.data.length ∧
        f.stop ≤ s.snd.sentHi
  a2 : s.snd.sentHi ≤ s.snd.written.length ∧ s.snd.sentHi ≤ s.snd.maxData
  a3 : ∀ f ∈ s.emitted, f.fin = true → f.stop = s.snd.written.length
  a4 : HasFin s.emitted → s.snd.shutdown = true ∧ s.snd.st ≠ .ready ∧ s.snd.st ≠ .sending ∧
        s.snd.sentHi = s.snd.written.length
  a5 : s.snd.st = .ready → s.emitted = []
  a6 : s.snd.st = .dataSent ∨ s.snd.st = .dataRcvd → HasFin s.emitted
  a7 : ∀ v ∈ s.resets, v = s.snd.sentHi ∧ (s.snd.st = .resetSent ∨ s.snd.st = .resetRcvd)
  a8 : s.snd.panicked = false
  b1 : RecvBuf.Inv s.snd.written s.rcv.buf
  b2 : s.out = s.snd.written.take s.rcv.buf.nread
  b3 : Sized s.rcv → HasFin s.emitted ∧ s.rcv.finalSize = s.snd.written.length
  b4 : (s.rcv.st = .dataRcvd → ∀ y, y < s.rcv.finalSize → Have s.rcv y) ∧
       (s.rcv.st = .dataRead → s.rcv.buf.nread = s.rcv.finalSize)
  b5 : s.eof = true → s.snd.shutdown = true ∧ s.rcv.buf.nread = s.snd.written.length ∧ HasFin s.emitted
  b6 : s.rcv.largest ≤ s.snd.sentHi
  b7 : (s.rcv.gone = false → s.rcv.st = .recv ∨ s.rcv.st = .sizeKnown) ∧ s.rcv.panicked = false
  b8 : s.rxErr = none
  b9 : s.snd.maxData ≤ s.rcv.maxSD ∧ ∀ m ∈ s.msds, m ≤ s.rcv.maxSD

/-! ## small facts -/

theorem slice_length (w : Bytes) (off len : Nat) (h : off + len ≤ w.length) : (slice w off len).length = len := by
  unfold slice; simp; omega

theorem slice_append (w bs : Bytes) (off len : Nat) (h : off + len ≤ w.length) :
    slice (w ++ bs) off len = slice w off len := by
  unfold slice
  rw [List.drop_append_of_le_length (by omega), List.take_append_of_le_length (by simp; omega)]

theorem rb_inv_append {w : Bytes} {b : RecvBuf.State} (h : RecvBuf.Inv w b) (bs : Bytes) :
    RecvBuf.Inv (w ++ bs) b := by
  refine { h with content := ?_, largest_le := ?_ }
  · intro seg hm
    have h1 := h.content seg hm
    have h2 := h.stop_le seg hm
    have h3 := h.largest_le
    unfold RecvBuf.Seg.stop at h2
    rw [List.drop_append_of_le_length (by omega), List.take_append_of_le_length (by simp; omega)]
    exact h1
  · have := h.largest_le; simp; omega

theorem have_lt_largest {w : Bytes} {r : Recver} (h : RecvBuf.Inv w r.buf) {y : Nat} (hy : Have r y) :
    y < r.buf.largest := by
  rcases hy with hy | ⟨seg, hm, _, h2⟩
  · have := h.nread_le; omega
  · have := h.stop_le seg hm; omega

/-- `nread + available = fin` iff everything below `fin` has arrived (given that nothing lies beyond `fin`). -/
theorem allRcvd_iff {w : Bytes} {r : Recver} (h : RecvBuf.Inv w r.buf) (hl : r.buf.largest ≤ r.finalSize) :
    r.allRcvd = true ↔ ∀ y, y < r.finalSize → Have r y := by
  have hs := ((RecvBuf.inv_iff' _ _).mp h).1
  have hsp := RecvBuf.contEnd_spec hs.1
  have hav := RecvBuf.available_eq r.buf
  unfold Recver.allRcvd
  simp only [beq_iff_eq]
  constructor
  · intro he y hy
    have := (hsp y).mp (by omega)
    exact this y (Nat.le_refl _)
  · intro hall
    have hle : r.buf.nread + RecvBuf.available r.buf ≤ r.finalSize := by
      by_cases h0 : RecvBuf.contEnd r.buf.segs r.buf.nread = 0
      · omega
      · have hx := (hsp (RecvBuf.contEnd r.buf.segs r.buf.nread - 1)).mp (by omega)
        have := have_lt_largest h (hx _ (Nat.le_refl _))
        omega
    have hge : r.finalSize ≤ r.buf.nread + RecvBuf.available r.buf := by
      by_cases h0 : r.finalSize = 0
      · omega
      · have := (hsp (r.finalSize - 1)).mpr (fun y hy => hall y (by omega))
        omega
    omega

theorem readable_available {b : RecvBuf.State} (hs : RecvBuf.StructInv b) (h : RecvBuf.isReadable b = true) :
    0 < RecvBuf.available b := by
  have hav := RecvBuf.available_eq b
  unfold RecvBuf.isReadable at h
  cases hsegs : b.segs with
  | nil => simp [hsegs] at h
  | cons seg rest =>
    simp only [hsegs, beq_iff_eq] at h
    have hw := hs.1
    rw [hsegs] at hw
    have hne := List.length_pos_iff.mpr hw.2.1
    have := RecvBuf.contEnd_ge rest (b.nread + seg.data.length)
    rw [hsegs] at hav
    simp only [RecvBuf.contEnd, h, if_true] at hav
    omega

theorem recv_nread (b : RecvBuf.State) (off : Nat) (d : Bytes) : (RecvBuf.recv b off d).1.nread = b.nread := by
  rw [RecvBuf.recv_fst]

theorem getElem?_mem' {α} {l : List α} {i : Nat} {a : α} (h : l[i]? = some a) : a ∈ l :=
  List.mem_of_getElem? h

end GmQuic.Stream
