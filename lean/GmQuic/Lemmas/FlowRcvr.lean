import GmQuic.Lemmas.FlowRecver
/-!
Helper lemmas for C11: invariant of the whole receiving state machine `Rcvr`
(`GmQuic/Model/StreamWindow.lean`), preserved by every peer frame and every application action.
-/
namespace GmQuic.StreamWindow
open GmQuic.Flow GmQuic.RecvBuf

/-! ### `Reader::poll_next` -/

theorem RecvHalf.next_inv (h : RecvHalf) (hi : h.Inv) :
    h.next.1.Inv ∧ h.next.1.phase = h.phase ∧ h.msd ≤ h.next.1.msd := by
  have hg := fun b => h.grow_inv b hi
  obtain ⟨hb, ha, hm, hl⟩ := hi
  unfold RecvHalf.next
  cases hph : h.phase with
  | recv =>
    simp only
    split
    · exact ⟨⟨hb, ha, hm, hl⟩, hph, Nat.le_refl _⟩
    · have := hg (RecvBuf.tryNext h.buf).1
      rw [hph] at this
      exact this
  | sizeKnown fs =>
    simp only
    split
    · exact ⟨⟨hb, ha, hm, hl⟩, hph, Nat.le_refl _⟩
    · exact ⟨⟨hb, ha, hm, hl⟩, rfl, Nat.le_refl _⟩
  | done => exact ⟨⟨hb, ha, hm, hl⟩, rfl, Nat.le_refl _⟩

theorem RecvHalf.next_bnd (h : RecvHalf) (hb : h.Bnd) :
    h.next.1.Bnd ∧ h.next.1.buf.largest = h.buf.largest := by
  obtain ⟨hs, hb⟩ := hb
  have hst := next_struct hs
  have hlg : (tryNext h.buf).1.largest = h.buf.largest := tryNext_largest h.buf
  have hg := growWindow_spec h.msd (tryNext h.buf).1.nread
  unfold RecvHalf.next
  cases hph : h.phase with
  | recv =>
    simp only [hph] at hb
    simp only
    split
    · exact ⟨⟨hs, by simp only [hph]; exact hb⟩, rfl⟩
    · unfold RecvHalf.grow
      refine ⟨⟨hst, ?_⟩, hlg⟩
      simp only [hph]
      rw [hlg]
      rcases hg with ⟨_, h1⟩ | ⟨_, h1⟩ <;> omega
  | sizeKnown fs =>
    simp only [hph] at hb
    simp only
    split
    · exact ⟨⟨hs, by simp only [hph]; exact hb⟩, rfl⟩
    · refine ⟨⟨hst, ?_⟩, hlg⟩
      simp only [hph]; rw [hlg]; exact hb
  | done =>
    simp only [hph] at hb
    refine ⟨⟨hst, ?_⟩, hlg⟩
    simp only [hph]; rw [hlg]; exact hb

/-! ### the whole receiver -/

/-- Invariant of `Rcvr` for the tree with the FIN-limit fix, whatever `recv_reset` does about the
stream limit (`rfix`). -/
structure Rcvr.Inv (r : Rcvr) : Prop where
  half : r.half.Inv
  bnd : r.half.Bnd
  chg : r.rst = none → r.charged = r.half.buf.largest
  chgR : ∀ f, r.rst = some f → r.charged ≤ f
  stops : r.stops ≤ 1 ∧ (r.stops = 1 ↔ r.stopped.isSome)

theorem Rcvr.inv_mk0 (w : Nat) : (Rcvr.mk0 w).Inv := by
  refine ⟨RecvHalf.inv_mk0 w, RecvHalf.bnd_mk0 w, ?_, ?_, ?_⟩
  · intro _; rfl
  · intro f hf; simp [Rcvr.mk0] at hf
  · simp [Rcvr.mk0]

theorem Rcvr.rx_inv (r : Rcvr) (off len : Nat) (fin : Bool) (hi : r.Inv) :
    (r.rx true off len fin).1.Inv := by
  obtain ⟨h1, h2, h3, h4, h5⟩ := hi
  have hinv := RecvHalf.step_inv true r.half (.rx off len fin) h1
  obtain ⟨b1, b2, b3⟩ := r.half.rx_bnd off len fin h2
  unfold Rcvr.rx
  split
  · exact ⟨h1, h2, h3, h4, h5⟩
  · rename_i hr
    have hr' : r.rst = none := notSome hr
    dsimp only
    split
    · rename_i n hn
      refine ⟨hinv, b1, ?_, ?_, h5⟩
      · intro _; show r.charged + n = _; rw [b2 n hn, h3 hr']
      · intro f hf; simp only [hr'] at hf; cases hf
    · rename_i o ho
      refine ⟨hinv, b1, ?_, ?_, h5⟩
      · intro _
        have : (r.half.rx true off len fin).1 = r.half := b3 (fun n hn => ho n hn)
        show r.charged = _; rw [this]; exact h3 hr'
      · intro f hf; simp only [hr'] at hf; cases hf

theorem Rcvr.read_inv (r : Rcvr) (cap : Nat) (hi : r.Inv) : (r.read cap).1.Inv := by
  obtain ⟨h1, h2, h3, h4, h5⟩ := hi
  unfold Rcvr.read
  split
  · exact ⟨h1, h2, h3, h4, h5⟩
  · obtain ⟨c1, c2⟩ := r.half.read_bnd cap h2
    refine ⟨(r.half.read_inv cap h1).1, c1, ?_, h4, h5⟩
    intro hr; show r.charged = _; rw [c2]; exact h3 hr

theorem Rcvr.next_inv (r : Rcvr) (hi : r.Inv) : r.next.1.Inv := by
  obtain ⟨h1, h2, h3, h4, h5⟩ := hi
  unfold Rcvr.next
  split
  · exact ⟨h1, h2, h3, h4, h5⟩
  · obtain ⟨c1, c2⟩ := r.half.next_bnd h2
    refine ⟨(r.half.next_inv h1).1, c1, ?_, h4, h5⟩
    intro hr; show r.charged = _; rw [c2]; exact h3 hr

theorem Rcvr.stop_inv (r : Rcvr) (code : Nat) (hi : r.Inv) : (r.stop code).1.Inv := by
  obtain ⟨h1, h2, h3, h4, h5⟩ := hi
  unfold Rcvr.stop
  split
  · exact ⟨h1, h2, h3, h4, h5⟩
  · split
    · exact ⟨h1, h2, h3, h4, h5⟩
    · split
      · exact ⟨h1, h2, h3, h4, h5⟩
      · rename_i hs
        refine ⟨h1, h2, h3, h4, ?_⟩
        have : r.stops = 0 := by
          rcases Nat.lt_or_ge r.stops 1 with h | h
          · omega
          · have : r.stops = 1 := by omega
            exact absurd (h5.2.mp this) hs
        simp [this]

theorem Rcvr.reset_inv (rfix : Bool) (r : Rcvr) (final : Nat) (hi : r.Inv) :
    (r.reset rfix final).1.Inv := by
  obtain ⟨h1, h2, h3, h4, h5⟩ := hi
  unfold Rcvr.reset
  split
  · exact ⟨h1, h2, h3, h4, h5⟩
  · rename_i hr
    have hr' : r.rst = none := notSome hr
    split
    · rename_i hph
      split
      · exact ⟨h1, h2, h3, h4, h5⟩
      · split
        · exact ⟨h1, h2, h3, h4, h5⟩
        · refine ⟨h1, h2, ?_, ?_, h5⟩
          · intro hc; simp at hc
          · intro f hf
            simp only [Option.some.injEq] at hf; subst hf
            have hb := h2.2; simp only [hph] at hb
            show r.charged + (final - r.half.largest) ≤ final
            rw [h3 hr']; omega
    · rename_i fs hph
      split
      · exact ⟨h1, h2, h3, h4, h5⟩
      · rename_i hfs
        refine ⟨h1, h2, ?_, ?_, h5⟩
        · intro hc; simp at hc
        · intro f hf
          simp only [Option.some.injEq] at hf; subst hf
          have hb := h2.2; simp only [hph] at hb
          show r.charged ≤ final
          rw [h3 hr']
          have : final = fs := by simpa using hfs
          omega
    · exact ⟨h1, h2, h3, h4, h5⟩

theorem Rcvr.step_inv (rfix : Bool) (r : Rcvr) (op : AOp) (hi : r.Inv) : (r.step true rfix op).Inv := by
  cases op with
  | rx off len fin => exact r.rx_inv off len fin hi
  | read cap => exact r.read_inv cap hi
  | next => exact r.next_inv hi
  | stop code => exact r.stop_inv code hi
  | reset final => exact r.reset_inv rfix final hi
  | dropReader => exact ⟨hi.half, hi.bnd, hi.chg, hi.chgR, hi.stops⟩

theorem Rcvr.inv_foldl (rfix : Bool) (ops : List AOp) (r : Rcvr) (hi : r.Inv) :
    (ops.foldl (Rcvr.step true rfix) r).Inv := by
  induction ops generalizing r with
  | nil => simpa using hi
  | cons op ops ih => exact ih _ (r.step_inv rfix op hi)

/-- The advertised-limit invariant alone holds for both trees (`fixed` arbitrary). -/
theorem Rcvr.step_halfInv (fixed rfix : Bool) (r : Rcvr) (op : AOp) (hi : r.half.Inv) :
    (r.step fixed rfix op).half.Inv := by
  cases op with
  | rx off len fin =>
    have := RecvHalf.step_inv fixed r.half (.rx off len fin) hi
    simp only [Rcvr.step, Rcvr.rx]
    split
    · exact hi
    · split <;> exact this
  | read cap =>
    simp only [Rcvr.step, Rcvr.read]
    split
    · exact hi
    · exact (r.half.read_inv cap hi).1
  | next =>
    simp only [Rcvr.step, Rcvr.next]
    split
    · exact hi
    · exact (r.half.next_inv hi).1
  | stop code =>
    simp only [Rcvr.step, Rcvr.stop]
    repeat' split
    all_goals exact hi
  | reset final =>
    simp only [Rcvr.step, Rcvr.reset]
    repeat' split
    all_goals exact hi
  | dropReader => exact hi

theorem Rcvr.halfInv_foldl (fixed rfix : Bool) (ops : List AOp) (r : Rcvr) (hi : r.half.Inv) :
    (ops.foldl (Rcvr.step fixed rfix) r).half.Inv := by
  induction ops generalizing r with
  | nil => simpa using hi
  | cons op ops ih => exact ih _ (r.step_halfInv fixed rfix op hi)

end GmQuic.StreamWindow
