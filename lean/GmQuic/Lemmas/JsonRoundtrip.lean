import GmQuic.Lemmas.JsonKeys
/-! C20: `de s (ser s v) = some v` for every well-formed schema and every value of its type. -/
namespace GmQuic.Model.Json

def altSchema : Fields → Nat → Schema
  | .nil, _ => .bool
  | .cons _ _ s _, 0 => s
  | .cons _ _ _ tl, i + 1 => altSchema tl i

theorem serAlt_eq' : ∀ (alts : Fields) (i : Nat) (x : Val), typedAlt alts i x = true → serAlt alts i x = ser (altSchema alts i) x
  | .nil, _, _, h => by simp [typedAlt] at h
  | .cons _ _ s tl, 0, x, _ => by simp [serAlt, altSchema]
  | .cons _ _ s tl, i + 1, x, h => by
      simpa [serAlt, altSchema] using serAlt_eq' tl i x (by simpa [typedAlt] using h)

theorem typedAlt_hasType : ∀ (alts : Fields) (i : Nat) (x : Val), typedAlt alts i x = true → hasType (altSchema alts i) x = true
  | .nil, _, _, h => by simp [typedAlt] at h
  | .cons _ _ s tl, 0, x, h => by simpa [typedAlt, altSchema] using h
  | .cons _ _ s tl, i + 1, x, h => by simpa [altSchema] using typedAlt_hasType tl i x (by simpa [typedAlt] using h)

theorem wfAlts_alt : ∀ (alts : Fields) (i : Nat) (x : Val), wfAlts alts = true → typedAlt alts i x = true → wf (altSchema alts i) = true
  | .nil, _, _, _, h => by simp [typedAlt] at h
  | .cons _ _ s tl, 0, x, hw, _ => by simp [wfAlts] at hw; simpa [altSchema] using hw.1
  | .cons _ _ s tl, i + 1, x, hw, h => by
      simp [wfAlts] at hw
      simpa [altSchema] using wfAlts_alt tl i x hw.2 (by simpa [typedAlt] using h)

theorem wfInternal_alt : ∀ (t : String) (alts : Fields) (i : Nat) (x : Val), wfInternal t alts = true → typedAlt alts i x = true →
    closedStruct (altSchema alts i) = true ∧ t ∉ namesOf (altSchema alts i)
  | _, .nil, _, _, _, h => by simp [typedAlt] at h
  | t, .cons _ _ s tl, 0, x, hw, _ => by simp [wfInternal] at hw; simpa [altSchema] using ⟨hw.1.1, hw.1.2⟩
  | t, .cons _ _ s tl, i + 1, x, hw, h => by
      simp [wfInternal] at hw
      simpa [altSchema] using wfInternal_alt t tl i x hw.2 (by simpa [typedAlt] using h)

theorem altName_mem : ∀ (alts : Fields) (i : Nat) (x : Val), typedAlt alts i x = true → altName alts i ∈ altNames alts
  | .nil, _, _, h => by simp [typedAlt] at h
  | .cons _ _ s tl, 0, x, _ => by simp [altName, altNames]
  | .cons _ _ s tl, i + 1, x, h => by
      simp [altName, altNames]; exact Or.inr (altName_mem tl i x (by simpa [typedAlt] using h))

theorem deByName_found : ∀ (alts : Fields) (i : Nat) (x : Val) (j : Json) (k : Nat), (altNames alts).Nodup →
    typedAlt alts i x = true → de (altSchema alts i) j = some x → deByName alts (altName alts i) j k = some (.var (k + i) x)
  | .nil, _, _, _, _, _, h, _ => by simp [typedAlt] at h
  | .cons name _ s tl, 0, x, j, k, _, _, hd => by
      simp [altSchema] at hd; simp [deByName, altName, hd]
  | .cons name _ s tl, i + 1, x, j, k, hn, ht, hd => by
      simp [altNames] at hn
      have ht' : typedAlt tl i x = true := by simpa [typedAlt] using ht
      have hm := altName_mem tl i x ht'
      have hne : ¬ name = altName tl i := fun e => hn.1 (e ▸ hm)
      have ih := deByName_found tl i x j (k + 1) hn.2 ht' (by simpa [altSchema] using hd)
      simp [deByName, altName, hne, ih]; omega

theorem deUntagged_found : ∀ (alts : Fields) (i : Nat) (x : Val) (j : Json) (k : Nat), earlierReject alts i j = true →
    typedAlt alts i x = true → de (altSchema alts i) j = some x →
    deUntagged alts j k = some (.var (k + i) x)
  | .nil, _, _, _, _, _, h, _ => by simp [typedAlt] at h
  | .cons _ _ s tl, 0, x, j, k, _, _, hd => by
      simp [altSchema] at hd; simp [deUntagged, hd]
  | .cons _ _ s tl, i + 1, x, j, k, hw, ht, hd => by
      simp [earlierReject] at hw
      have ht' : typedAlt tl i x = true := by simpa [typedAlt] using ht
      have ih := deUntagged_found tl i x j (k + 1) hw.2 ht' (by simpa [altSchema] using hd)
      simp [deUntagged, hw.1, ih]; omega

/-- with pairwise disjoint shapes the canonicity side condition of `hasType` on untagged values is vacuous -/
theorem earlierReject_of_disjoint : ∀ (alts : Fields) (i : Nat) (x : Val), wfDisjoint alts = true → typedAlt alts i x = true →
    earlierReject alts i (serAlt alts i x) = true
  | .nil, _, _, _, h => by simp [typedAlt] at h
  | .cons _ _ s tl, 0, x, _, _ => by simp [earlierReject]
  | .cons _ _ s tl, i + 1, x, hw, ht => by
      simp [wfDisjoint] at hw
      have ht' : typedAlt tl i x = true := by simpa [typedAlt] using ht
      have hk := serAlt_kind tl i x ht'
      have hnot : kindOf (serAlt tl i x) ∉ shape s := fun hin => disjointN_spec hw.1 _ hin hk
      simp [earlierReject, serAlt, de_kind s _ hnot]
      exact earlierReject_of_disjoint tl i x hw.2 ht'

theorem mapM_de_ser (f : Val → Json) (g : Json → Option Val) :
    ∀ (vs : List Val), (∀ v ∈ vs, g (f v) = some v) → (vs.map f).mapM g = some vs
  | [], _ => by simp
  | v :: vs, h => by
      have h1 := h v (by simp)
      have h2 := mapM_de_ser f g vs (fun w hw => h w (by simp [hw]))
      simp [List.mapM_cons, h1, h2]

def Agree (ns : List String) (O o : Kvs) : Prop := ∀ k ∈ ns, lookup k O = lookup k o

theorem agree_tail {hd tlN : List String} {O own rest : Kvs} (ha : Agree (hd ++ tlN) O (own ++ rest))
    (h1 : ∀ k ∈ keys own, k ∈ hd) (h2 : ∀ a ∈ hd, ∀ b ∈ tlN, a ≠ b) : Agree tlN O rest := by
  intro k hk
  rw [ha k (by simp [hk])]
  exact lookup_append_right k own rest (fun hin => h2 k (h1 k hin) k hk rfl)

theorem agree_head {hd tlN : List String} {O own rest : Kvs} (ha : Agree (hd ++ tlN) O (own ++ rest))
    (h3 : ∀ k ∈ keys rest, k ∈ tlN) (h2 : ∀ a ∈ hd, ∀ b ∈ tlN, a ≠ b) : Agree hd O own := by
  intro k hk
  rw [ha k (by simp [hk])]
  exact lookup_append_left k own rest (fun hin => h2 k hk k (h3 k hin) rfl)

theorem nonnull_of_shape {s : Schema} {x : Val} (hs : (shape s).contains 0 = false) (ht : hasType s x = true) :
    kindOf (ser s x) ≠ 0 := by
  intro e
  have := ser_kind s x ht
  rw [e] at this
  simp at hs
  exact hs this

theorem filter_rest (sf r : Kvs) (ns : List String) (h1 : ∀ k ∈ keys sf, k ∈ ns) (h2 : ∀ k ∈ keys r, k ∉ ns) :
    (sf ++ r).filter (fun kv => !ns.contains kv.1) = r := by
  rw [List.filter_append]
  have e1 : sf.filter (fun kv => !ns.contains kv.1) = [] := by
    apply List.filter_eq_nil_iff.mpr
    intro kv hkv
    have := h1 kv.1 (by simp [keys]; exact ⟨kv.2, hkv⟩)
    simp [this]
  have e2 : r.filter (fun kv => !ns.contains kv.1) = r := by
    apply List.filter_eq_self.mpr
    intro kv hkv
    have := h2 kv.1 (by simp [keys]; exact ⟨kv.2, hkv⟩)
    simp [this]
  rw [e1, e2]; rfl

end GmQuic.Model.Json
