import GmQuic.Lemmas.StreamRun
import GmQuic.Lemmas.StreamDone
/-!
C01 liveness, part 1 (sender side): two more invariant clauses of the colour map (`InvS`), the operations of the
cooperative suffix (`CoopOp`) and what they leave unchanged.
-/
namespace GmQuic.Stream
open GmQuic.RecvBuf (Bytes covered)

/-- More invariant clauses of the sending half: nothing beyond `sentHi` was ever touched, and every byte in
flight is covered by a frame that was emitted. -/
structure InvS (s : Stream) : Prop where
  n1 : ∀ x, s.snd.sentHi ≤ x → s.snd.status x = .unsent
  n2 : ∀ x, s.snd.status x = .inflight → ∃ f ∈ s.emitted, f.off ≤ x ∧ x < f.stop

theorem invS_init (sw rw : Nat) : InvS (Stream.init sw rw) :=
  ⟨fun _ _ => rfl, fun x h => by simp [Stream.init] at h⟩

theorem invS_same {s t : Stream} (k : InvS s) (h1 : t.snd.status = s.snd.status) (h2 : t.snd.sentHi = s.snd.sentHi)
    (h3 : t.emitted = s.emitted) : InvS t :=
  ⟨fun x hx => by rw [h1]; exact k.n1 x (by omega), fun x hx => by rw [h3]; exact k.n2 x (by rw [← h1]; exact hx)⟩

theorem write_same (s : Sender) (bs : Bytes) : (s.write bs).1.status = s.status ∧ (s.write bs).1.sentHi = s.sentHi := by
  unfold Sender.write; cases s.err <;> cases s.st <;> cases s.shutdown <;> simp
theorem shutdown_same (s : Sender) : s.pollShutdown.1.status = s.status ∧ s.pollShutdown.1.sentHi = s.sentHi := by
  unfold Sender.pollShutdown; cases s.err <;> cases s.st <;> simp
theorem touch_same (s : Sender) : s.touch.status = s.status ∧ s.touch.sentHi = s.sentHi := by
  unfold Sender.touch; cases s.err <;> cases s.st <;> simp
theorem window_same (s : Sender) (m : Nat) : (s.updateWindow m).status = s.status ∧ (s.updateWindow m).sentHi = s.sentHi := by
  unfold Sender.updateWindow; cases s.err <;> cases s.st <;> simp <;> split <;> simp
theorem cancel_same (s : Sender) : s.cancel.1.status = s.status ∧ s.cancel.1.sentHi = s.sentHi := by
  unfold Sender.cancel; cases s.err <;> cases s.st <;> simp
theorem stopped_same (s : Sender) : s.beStopped.1.status = s.status ∧ s.beStopped.1.sentHi = s.sentHi := by
  unfold Sender.beStopped; cases s.err <;> cases s.st <;> simp
theorem resetAcked_same (s : Sender) : s.resetAcked.status = s.status ∧ s.resetAcked.sentHi = s.sentHi := by
  unfold Sender.resetAcked; cases s.closed <;> cases s.err <;> cases s.st <;> simp
theorem connError_same (s : Sender) : s.connError.status = s.status ∧ s.connError.sentHi = s.sentHi := by
  unfold Sender.connError; cases s.err <;> cases s.st <;> simp

theorem lostOf_ne_inflight (c : BSt) : lostOf c ≠ .inflight := by cases c <;> simp [lostOf]
theorem lostOf_unsent {c : BSt} : lostOf c = .unsent ↔ c = .unsent := by cases c <;> simp [lostOf]

/-- `ack` / `lose`: `sentHi` unchanged; the new colour map is the old one or the old one with the frame's range
recoloured by `g`, where `g` never yields `inflight` and keeps `unsent` outside... -/
theorem ack_status (s : Sender) (f : Frame) :
    (s.ack f).sentHi = s.sentHi ∧
    ((s.ack f).status = s.status ∨ (s.ack f).status = setRange s.status f.off f.stop (fun _ => .acked)) := by
  unfold Sender.ack
  cases s.err <;> cases s.st <;> simp only [Bool.false_eq_true, if_false, if_true] <;> (repeat' split) <;>
    first | exact ⟨rfl, Or.inl rfl⟩ | exact ⟨rfl, Or.inr rfl⟩ | simp

theorem lose_status (s : Sender) (f : Frame) :
    (s.lose f).sentHi = s.sentHi ∧
    ((s.lose f).status = s.status ∨ (s.lose f).status = setRange s.status f.off f.stop lostOf) := by
  unfold Sender.lose
  cases s.err <;> cases s.st <;> simp

theorem invS_ack {s : Stream} (h : Inv s) (k : InvS s) (i : Nat) : InvS (s.step (.ack i)) := by
  simp only [Stream.step]
  split
  case h_2 => exact k
  rename_i f hf
  obtain ⟨_, _, f3⟩ := h.a1 f (getElem?_mem' hf)
  obtain ⟨e1, e2⟩ := ack_status s.snd f
  rcases e2 with e2 | e2
  · exact invS_same k e2 e1 rfl
  · refine ⟨fun x hx => ?_, fun x hx => ?_⟩
    · simp only [e1] at hx
      simp only [e2, setRange]
      rw [if_neg (by omega)]; exact k.n1 x hx
    · simp only [e2, setRange] at hx
      split at hx
      · cases hx
      · exact k.n2 x hx

theorem invS_lose {s : Stream} (k : InvS s) (i : Nat) : InvS (s.step (.lose i)) := by
  simp only [Stream.step]
  split
  case h_2 => exact k
  rename_i f hf
  obtain ⟨e1, e2⟩ := lose_status s.snd f
  rcases e2 with e2 | e2
  · exact invS_same k e2 e1 rfl
  · refine ⟨fun x hx => ?_, fun x hx => ?_⟩
    · simp only [e1] at hx
      simp only [e2, setRange]
      split
      · rw [lostOf_unsent]; exact k.n1 x hx
      · exact k.n1 x hx
    · simp only [e2, setRange] at hx
      split at hx
      · exact absurd hx (lostOf_ne_inflight _)
      · exact k.n2 x hx

theorem pick_fields (s : Sender) (off len : Nat) :
    (s.pick off len).1.status = setRange s.status off (off + len) (fun _ => .inflight) ∧
    (s.pick off len).1.sentHi = max s.sentHi (off + len) ∧
    (s.pick off len).1.written = s.written ∧ (s.pick off len).1.maxData = s.maxData ∧
    (s.pick off len).1.shutdown = s.shutdown ∧ (s.pick off len).1.err = s.err ∧
    (s.pick off len).2 = ⟨off, slice s.written off len, s.pickFin off len⟩ := by
  simp [Sender.pick]

theorem pickOk_len {s : Sender} {off len : Nat} (h : s.pickOk off len) : off + len ≤ s.written.length := by
  unfold Sender.pickOk at h
  obtain ⟨_, h⟩ := h
  split at h
  · rename_i h0; subst h0; omega
  · exact h.1

theorem pick_frame_stop {s : Sender} {off len : Nat} (h : s.pickOk off len) :
    (s.pick off len).2.off = off ∧ (s.pick off len).2.stop = off + len := by
  have := pickOk_len h
  simp [Sender.pick, Frame.stop, slice_length _ _ _ this]

theorem invS_pick {s : Stream} (k : InvS s) (off len : Nat) : InvS (s.step (.pick off len)) := by
  simp only [Stream.step]
  split
  case isFalse => exact k
  rename_i hok
  obtain ⟨e1, e2, _⟩ := pick_fields s.snd off len
  obtain ⟨g1, g2⟩ := pick_frame_stop hok
  refine ⟨fun x hx => ?_, fun x hx => ?_⟩
  · simp only [e2] at hx
    simp only [e1, setRange]
    rw [if_neg (by omega)]; exact k.n1 x (by omega)
  · simp only [e1, setRange] at hx
    simp only [List.mem_append, List.mem_singleton]
    split at hx
    · exact ⟨_, Or.inr rfl, by omega, by omega⟩
    · obtain ⟨f, hm, hf⟩ := k.n2 x hx
      exact ⟨f, Or.inl hm, hf⟩

theorem invS_step {s : Stream} (h : Inv s) (k : InvS s) (op : Op) : InvS (s.step op) := by
  cases op with
  | write bs => exact invS_same k (write_same _ _).1 (write_same _ _).2 rfl
  | shutdown => exact invS_same k (shutdown_same _).1 (shutdown_same _).2 rfl
  | pick off len => exact invS_pick k off len
  | touch => exact invS_same k (touch_same _).1 (touch_same _).2 rfl
  | deliver i =>
    simp only [Stream.step]; split
    · exact invS_same k rfl rfl rfl
    · exact k
  | ack i => exact invS_ack h k i
  | lose i => exact invS_lose k i
  | read cap =>
    simp only [Stream.step]; split <;> exact invS_same k rfl rfl rfl
  | cancel => exact invS_same k (cancel_same _).1 (cancel_same _).2 rfl
  | stop => exact invS_same k rfl rfl rfl
  | deliverStop =>
    simp only [Stream.step]; split
    · exact k
    · exact invS_same k (stopped_same _).1 (stopped_same _).2 rfl
  | deliverReset i =>
    simp only [Stream.step]; split
    · exact invS_same k rfl rfl rfl
    · exact k
  | ackReset =>
    simp only [Stream.step]; split
    · exact k
    · exact invS_same k (resetAcked_same _).1 (resetAcked_same _).2 rfl
  | deliverMsd i =>
    simp only [Stream.step]; split
    · exact invS_same k (window_same _ _).1 (window_same _ _).2 rfl
    · exact k
  | connErrorSnd => exact invS_same k (connError_same _).1 (connError_same _).2 rfl
  | connErrorRcv => exact invS_same k rfl rfl rfl

theorem invS_run {s : Stream} (h : Inv s) (k : InvS s) (ops : List Op) : InvS (s.run ops) := by
  induction ops generalizing s with
  | nil => exact k
  | cons op rest ih => exact ih (inv_step h op) (invS_step h k op)

end GmQuic.Stream
