import GmQuic.Model.Flow
set_option linter.unnecessarySimpa false
/-!
Helper lemmas for C11 (connection-level controllers): list-sum facts and the step invariants of
`SendCtl` / `RecvCtl`.
-/
namespace GmQuic.Flow

/-! ### list sums -/

theorem sum_set_sub (l : List Nat) (k a n : Nat) (h : l[k]? = some a) (hn : n ≤ a) :
    (l.set k (a - n)).sum + n = l.sum := by
  induction l generalizing k with
  | nil => simp at h
  | cons x xs ih =>
    cases k with
    | zero => simp at h; subst h; simp [List.sum_cons]; omega
    | succ k =>
      simp at h
      have := ih k h
      simp [List.sum_cons]; omega

theorem sum_eraseIdx (l : List Nat) (k a : Nat) (h : l[k]? = some a) :
    (l.eraseIdx k).sum + a = l.sum := by
  induction l generalizing k with
  | nil => simp at h
  | cons x xs ih =>
    cases k with
    | zero => simp at h; subst h; simp [List.sum_cons]; omega
    | succ k =>
      simp at h
      have := ih k h
      simp [List.sum_cons]; omega

theorem le_sum_of_get (l : List Nat) (k a : Nat) (h : l[k]? = some a) : a ≤ l.sum := by
  have := sum_eraseIdx l k a h; omega

/-! ### sending side -/

/-- Accounting invariant, valid for EVERY history (including 0-RTT rejection and `on_error`). -/
structure SendCtl.Acct (s : SendCtl) : Prop where
  le : s.freshTotal + s.credits.sum ≤ s.sent
  eq : s.dead = false → s.poisoned = false → s.sent = s.freshTotal + s.credits.sum

theorem SendCtl.acct_init (m0 : Nat) : (SendCtl.init m0).Acct := by
  constructor <;> simp [SendCtl.init]

theorem SendCtl.increaseLimit_fields (s : SendCtl) (m : Nat) :
    (s.increaseLimit m).sent = s.sent ∧ (s.increaseLimit m).credits = s.credits ∧
    (s.increaseLimit m).freshTotal = s.freshTotal ∧ (s.increaseLimit m).dead = s.dead ∧
    (s.increaseLimit m).poisoned = s.poisoned ∧ s.max ≤ (s.increaseLimit m).max := by
  unfold SendCtl.increaseLimit; split <;> simp <;> omega

theorem SendCtl.acct_step (s : SendCtl) (op : SendOp) (h : s.Acct) : (s.step op).1.Acct := by
  obtain ⟨hle, heq⟩ := h
  unfold SendCtl.step
  split
  · exact ⟨hle, heq⟩
  · rename_i hp
    have hp : s.poisoned = false := by simpa using hp
    cases op with
    | credit q =>
      simp only
      split
      · exact ⟨hle, heq⟩
      · rename_i hd
        have hd : s.dead = false := by simpa using hd
        have e := heq hd hp
        split
        · split
          · constructor <;> simp <;> omega
          · constructor <;> simp [List.sum_append] <;> omega
        · constructor <;> simp [List.sum_append] <;> omega
    | post k n =>
      simp only
      split
      · exact ⟨hle, heq⟩
      · rename_i a ha
        split
        · exact ⟨hle, heq⟩
        · rename_i hn
          have hn : n ≤ a := by omega
          have := sum_set_sub s.credits k a n ha hn
          constructor
          · simp; omega
          · intro d p; simp at d p; have := heq d p; simp; omega
    | drop k =>
      simp only
      split
      · exact ⟨hle, heq⟩
      · rename_i a ha
        have hs := sum_eraseIdx s.credits k a ha
        split
        · constructor
          · simp; omega
          · intro d; simp_all
        · rename_i hd
          have hd : s.dead = false := by simpa using hd
          have e := heq hd hp
          split
          · constructor <;> simp <;> omega
          · constructor <;> simp <;> omega
    | maxdata m =>
      simp only
      split
      · exact ⟨hle, heq⟩
      · obtain ⟨h1, h2, h3, h4, h5, _⟩ := s.increaseLimit_fields m
        constructor
        · rw [h1, h2, h3]; exact hle
        · rw [h1, h2, h3, h4, h5]; exact heq
    | revise rej m =>
      simp only
      split
      · exact ⟨hle, heq⟩
      · cases rej
        · obtain ⟨h1, h2, h3, h4, h5, _⟩ := s.increaseLimit_fields m
          simp only [Bool.false_eq_true, ↓reduceIte]
          constructor
          · rw [h1, h2, h3]; exact hle
          · rw [h1, h2, h3, h4, h5]; exact heq
        · obtain ⟨h1, h2, h3, h4, h5, _⟩ :=
            ({ s with max := 0, limited := false } : SendCtl).increaseLimit_fields m
          simp only [↓reduceIte]
          constructor
          · rw [h1, h2, h3]; exact hle
          · rw [h1, h2, h3, h4, h5]; exact heq
    | error =>
      constructor
      · simpa using hle
      · intro d; simp at d

theorem SendCtl.acct_foldl (ops : List SendOp) (s : SendCtl) (h : s.Acct) :
    (ops.foldl (fun s op => (s.step op).1) s).Acct := by
  induction ops generalizing s with
  | nil => simpa using h
  | cons op ops ih => exact ih _ (s.acct_step op h)

/-- An operation that is not a 0-RTT rejection (`revise_max_data(true, _)`). -/
def SendOp.NoReject : SendOp → Prop
  | .revise true _ => False
  | _ => True

instance : DecidablePred SendOp.NoReject := fun op => by
  cases op <;> try (unfold SendOp.NoReject; infer_instance)
  rename_i rej m; cases rej <;> (unfold SendOp.NoReject; infer_instance)

/-- `max_data` never decreases, and `sent_data ≤ max_data` is kept, as long as 0-RTT is not rejected. -/
theorem SendCtl.bound_step (s : SendCtl) (op : SendOp) (hop : op.NoReject) (h : s.sent ≤ s.max) :
    (s.step op).1.sent ≤ (s.step op).1.max ∧ s.max ≤ (s.step op).1.max := by
  unfold SendCtl.step
  split
  · exact ⟨h, Nat.le_refl _⟩
  · cases op with
    | credit q =>
      simp only
      split
      · exact ⟨h, Nat.le_refl _⟩
      · split
        · split <;> simp [SendCtl.avaliable] <;> omega
        · simp [SendCtl.avaliable]; omega
    | post k n =>
      simp only
      split
      · exact ⟨h, Nat.le_refl _⟩
      · split <;> exact ⟨h, Nat.le_refl _⟩
    | drop k =>
      simp only
      split
      · exact ⟨h, Nat.le_refl _⟩
      · split
        · exact ⟨h, Nat.le_refl _⟩
        · split
          · exact ⟨h, Nat.le_refl _⟩
          · simp; omega
    | maxdata m =>
      simp only
      split
      · exact ⟨h, Nat.le_refl _⟩
      · obtain ⟨h1, _, _, _, _, h6⟩ := s.increaseLimit_fields m
        exact ⟨by show (s.increaseLimit m).sent ≤ (s.increaseLimit m).max; rw [h1]; omega, h6⟩
    | revise rej m =>
      cases rej
      · simp only
        split
        · exact ⟨h, Nat.le_refl _⟩
        · obtain ⟨h1, _, _, _, _, h6⟩ := s.increaseLimit_fields m
          simp only [Bool.false_eq_true, ↓reduceIte]
          exact ⟨by show (s.increaseLimit m).sent ≤ (s.increaseLimit m).max; rw [h1]; omega, h6⟩
      · exact absurd hop (by simp [SendOp.NoReject])
    | error => exact ⟨h, Nat.le_refl _⟩

theorem SendCtl.bound_foldl (ops : List SendOp) (s : SendCtl) (hops : ∀ op ∈ ops, op.NoReject)
    (h : s.sent ≤ s.max) :
    let s' := ops.foldl (fun s op => (s.step op).1) s
    s'.sent ≤ s'.max ∧ s.max ≤ s'.max := by
  induction ops generalizing s with
  | nil => exact ⟨h, Nat.le_refl _⟩
  | cons op ops ih =>
    have h1 := s.bound_step op (hops op (by simp)) h
    have h2 := ih (s.step op).1 (fun o ho => hops o (by simp [ho])) h1.1
    exact ⟨h2.1, Nat.le_trans h1.2 h2.2⟩

/-- Limits handed to the controller fit a QUIC varint (they come from MAX_DATA frames / transport
parameters, which are varints on the wire). -/
def SendOp.Bounded : SendOp → Prop
  | .maxdata m => m ≤ VARINT_MAX
  | .revise _ m => m ≤ VARINT_MAX
  | _ => True

theorem SendCtl.increaseLimit_le (s : SendCtl) (m B : Nat) (h : s.max ≤ B) (hm : m ≤ B) :
    (s.increaseLimit m).max ≤ B := by
  unfold SendCtl.increaseLimit
  split
  · exact hm
  · exact h

/-- No step can poison the lock — a 0-RTT rejection included (`avaliable` saturates). -/
theorem SendCtl.nopoison_step (s : SendCtl) (op : SendOp) (hb : op.Bounded)
    (ha : s.Acct) (hm : s.max ≤ VARINT_MAX) (hp : s.poisoned = false) :
    (s.step op).1.poisoned = false ∧ (s.step op).1.max ≤ VARINT_MAX := by
  obtain ⟨hle, _⟩ := ha
  unfold SendCtl.step
  simp only [hp, Bool.false_eq_true, ↓reduceIte]
  cases op with
  | credit q =>
    simp only
    split
    · exact ⟨hp, hm⟩
    · split
      · split
        · omega
        · exact ⟨by simpa using hp, by simpa using hm⟩
      · exact ⟨by simpa using hp, by simpa using hm⟩
  | post k n =>
    simp only
    split
    · exact ⟨hp, hm⟩
    · split
      · exact ⟨hp, hm⟩
      · exact ⟨by simpa using hp, by simpa using hm⟩
  | drop k =>
    simp only
    split
    · exact ⟨hp, hm⟩
    · rename_i a ha
      have := le_sum_of_get s.credits k a ha
      split
      · exact ⟨by simpa using hp, by simpa using hm⟩
      · split
        · omega
        · exact ⟨by simpa using hp, by simpa using hm⟩
  | maxdata m =>
    simp only
    split
    · exact ⟨hp, hm⟩
    · obtain ⟨_, _, _, _, h5, _⟩ := s.increaseLimit_fields m
      exact ⟨by show (s.increaseLimit m).poisoned = false; rw [h5]; exact hp,
             s.increaseLimit_le m _ hm hb⟩
  | revise rej m =>
    simp only
    split
    · exact ⟨hp, hm⟩
    · cases rej
      · obtain ⟨_, _, _, _, h5, _⟩ := s.increaseLimit_fields m
        simp only [Bool.false_eq_true, ↓reduceIte]
        exact ⟨by show (s.increaseLimit m).poisoned = false; rw [h5]; exact hp,
               s.increaseLimit_le m _ hm hb⟩
      · simp only [↓reduceIte]
        unfold SendCtl.increaseLimit
        split
        · exact ⟨rfl, hb⟩
        · exact ⟨rfl, Nat.zero_le _⟩
  | error => exact ⟨by simpa using hp, by simpa using hm⟩

theorem SendCtl.nopoison_foldl (ops : List SendOp) (s : SendCtl)
    (hops : ∀ op ∈ ops, op.Bounded)
    (ha : s.Acct) (hm : s.max ≤ VARINT_MAX) (hp : s.poisoned = false) :
    (ops.foldl (fun s op => (s.step op).1) s).poisoned = false := by
  induction ops generalizing s with
  | nil => simpa using hp
  | cons op ops ih =>
    have ho := hops op (by simp)
    have h1 := s.nopoison_step op ho ha hm hp
    exact ih (s.step op).1 (fun o hm => hops o (by simp [hm])) (s.acct_step op ha) h1.2 h1.1

theorem RecvCtl.max_mono (s : RecvCtl) (n : Nat) : s.max ≤ (s.onNewRcvd n).1.max := by
  unfold RecvCtl.onNewRcvd
  dsimp only
  repeat' split
  all_goals simp

/-- Invariant of the receive controller relative to the initial limit `m0`. -/
structure RecvCtl.Inv (m0 : Nat) (s : RecvCtl) : Prop where
  base : m0 ≤ s.max
  adv : ∀ a ∈ s.advertised, m0 ≤ a ∧ a ≤ s.max
  mono : s.advertised.Pairwise (· ≤ ·)
  last : s.poisoned = false → s.max = s.advertised.getLast?.getD m0
  tot : s.poisoned = false → s.rcvd = s.total

theorem RecvCtl.inv_init (m0 : Nat) : (RecvCtl.init m0).Inv m0 := by
  constructor <;> simp [RecvCtl.init]

theorem RecvCtl.inv_step (m0 : Nat) (s : RecvCtl) (n : Nat) (h : s.Inv m0) :
    (s.onNewRcvd n).1.Inv m0 := by
  obtain ⟨hb, ha, hm, hl, ht⟩ := h
  unfold RecvCtl.onNewRcvd
  dsimp only
  split
  · exact ⟨hb, ha, hm, hl, ht⟩
  · rename_i hp
    have hp : s.poisoned = false := by simpa using hp
    split
    · exact ⟨hb, ha, hm, by simp, by simp⟩
    · split
      · split
        · split
          · refine ⟨by simp; omega, ?_, hm, by simp, by simp⟩
            intro a haa; have := ha a haa; simp; omega
          · refine ⟨by simp; omega, ?_, ?_, ?_, ?_⟩
            · intro a haa
              simp at haa
              rcases haa with haa | haa
              · have := ha a haa; simp; omega
              · subst haa; simp; omega
            · simp only [List.pairwise_append, List.pairwise_cons, List.Pairwise.nil, and_true,
                List.mem_singleton, forall_eq]
              refine ⟨hm, ?_, ?_⟩
              · intro a ha'; cases ha'
              · intro a haa; have := ha a haa; omega
            · intro _; simp
            · intro _; simp [ht hp]
        · exact ⟨hb, ha, hm, hl, by intro _; simp [ht hp]⟩
      · exact ⟨hb, ha, hm, hl, by intro _; simp [ht hp]⟩

theorem RecvCtl.inv_foldl (m0 : Nat) (ns : List Nat) (s : RecvCtl) (h : s.Inv m0) :
    (ns.foldl (fun s n => (s.onNewRcvd n).1) s).Inv m0 := by
  induction ns generalizing s with
  | nil => simpa using h
  | cons n ns ih => exact ih _ (RecvCtl.inv_step m0 s n h)

end GmQuic.Flow
