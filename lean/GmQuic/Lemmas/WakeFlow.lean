import GmQuic.Model.WakeFlow
namespace GmQuic.Wake.Flow

@[simp] theorem commit_maxData (s : State) (a : Nat) : (commit s a).maxData = s.maxData := by
  simp only [commit]; split <;> rfl
@[simp] theorem commit_sent (s : State) (a : Nat) : (commit s a).sent = s.sent + a := by
  simp only [commit]; split <;> rfl
@[simp] theorem commit_closed (s : State) (a : Nat) : (commit s a).closed = s.closed := by
  simp only [commit]; split <;> rfl
@[simp] theorem commit_bit (s : State) (a : Nat) : (commit s a).bit = s.bit := by
  simp only [commit]; split <;> rfl
@[simp] theorem commit_woken (s : State) (a : Nat) : (commit s a).woken = s.woken := by
  simp only [commit]; split <;> rfl
@[simp] theorem commit_registered (s : State) (a : Nat) : (commit s a).registered = s.registered := by
  simp only [commit]; split <;> rfl
@[simp] theorem commit_wpc (s : State) (a : Nat) : (commit s a).wpc = s.wpc := by
  simp only [commit]; split <;> rfl

structure Inv (s : State) : Prop where
  a : s.wpc = .asleep → s.woken = false → s.bit = false ∧ s.registered = true
  c : s.wpc = .asleep → s.woken = true → s.bit = true
  b : (s.wpc = .wd 0 ∨ s.wpc = .w1 ∨ s.wpc = .asleep) → cond s → s.bit = true

theorem inv_init (m : Nat) : Inv (init m) := by constructor <;> simp [init]

theorem inv_step (s : State) (op : Op) (h : Inv s) : Inv (step s op) := by
  obtain ⟨ha, hc, hb0⟩ := h
  have hb : (s.wpc = .wd 0 ∨ s.wpc = .w1 ∨ s.wpc = .asleep) → s.closed = false → s.maxData - s.sent > 0 → s.bit = true := by
    intro h1 h2 h3; exact hb0 h1 ⟨h2, h3⟩
  clear hb0
  cases op with
  | waiter q u =>
    cases hp : s.wpc with
    | w0 =>
      simp only [step, hp]
      split
      · constructor <;> simp_all [cond]
      · rename_i hcl
        constructor
        · simp
        · simp
        · intro h1 h2
          simp only [WPc.wd.injEq, reduceCtorEq, or_false] at h1
          simp only [cond, avail, commit_closed, commit_maxData, commit_sent] at h2
          simp only [avail] at h1
          omega
    | wd a =>
      simp only [step, hp, returnBack]
      split
      · constructor <;> simp_all [cond] <;> (try split) <;> simp_all
      · by_cases ha0 : a = 0
        · subst ha0
          have := hb (Or.inl hp)
          constructor <;> simp_all [cond, wakeAll, avail] <;> (try split) <;> simp_all <;> grind
        · constructor <;> simp_all [cond, wakeAll, avail] <;> (try split) <;> simp_all
    | w1 => simp only [step, hp]; split <;> constructor <;> simp_all [cond, avail]
    | asleep => simp only [step, hp]; split <;> constructor <;> simp_all [cond, avail]
  | restart =>
    cases hp : s.wpc <;> simp only [step, hp] <;> constructor <;> simp_all [cond, avail]
  | maxData v =>
    simp only [step, increaseLimit]; split <;> (try split) <;> constructor <;> simp_all [cond, wakeAll, avail] <;> grind
  | revise r v =>
    simp only [step, increaseLimit]; split <;> (try split) <;> (try split) <;> constructor <;>
      simp_all [cond, wakeAll, avail] <;> grind
  | otherTake k =>
    simp only [step]; split <;> constructor <;> simp_all [cond, avail] <;> grind
  | otherReturn k =>
    simp only [step, returnBack]; split <;> (try split) <;> (try split) <;> constructor <;>
      simp_all [cond, wakeAll, avail] <;> grind
  | error => simp only [step]; constructor <;> simp_all [cond]

theorem run_inv (m : Nat) (sched : List Op) : Inv (run m sched) := by
  have : ∀ s, Inv s → Inv (sched.foldl step s) := by
    induction sched with
    | nil => intro s h; exact h
    | cons op rest ih => intro s h; exact ih _ (inv_step s op h)
  exact this (init m) (inv_init m)

end GmQuic.Wake.Flow
