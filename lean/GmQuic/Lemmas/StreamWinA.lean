import GmQuic.Lemmas.StreamLiveV
/-!
C01 liveness with flow control, part 1: what the network-side operations leave alone (`SameW`), what one
`Reader::poll_read` in `Recv` does to the advertised limit (`read_recv_w`), and how far one large read gets
when everything below `M` has arrived (`read_upto`).
-/
namespace GmQuic.Stream
open GmQuic.RecvBuf (Bytes covered)

/-- the flow-control part of the state is unchanged -/
structure SameW (s t : Stream) : Prop where
  nr : t.rcv.buf.nread = s.rcv.buf.nread
  sd : t.rcv.maxSD = s.rcv.maxSD
  ms : t.msds = s.msds
  md : t.snd.maxData = s.snd.maxData

theorem SameW.refl (s : Stream) : SameW s s := ⟨rfl, rfl, rfl, rfl⟩
theorem SameW.trans {a b c : Stream} (h1 : SameW a b) (h2 : SameW b c) : SameW a c :=
  ⟨h2.nr.trans h1.nr, h2.sd.trans h1.sd, h2.ms.trans h1.ms, h2.md.trans h1.md⟩

/-- the operations of the cooperative suffix that are not reads: `shutdown`, picks, deliveries, acks, losses -/
def Op.net : Op → Bool
  | .shutdown | .pick _ _ | .deliver _ | .ack _ | .lose _ => true
  | _ => false

theorem rx_maxSD (r : Recver) (f : Frame) : (r.rx f).1.maxSD = r.maxSD := by
  unfold Recver.rx
  dsimp only
  repeat' split
  all_goals rfl

theorem rx_nread (r : Recver) (f : Frame) : (r.rx f).1.buf.nread = r.buf.nread := by
  rcases rx_buf r f with e | e
  · rw [e]
  · rw [e, recv_nread]

theorem sameW_step (s : Stream) {op : Op} (hc : op.net = true) : SameW s (s.step op) := by
  cases op with
  | shutdown =>
    obtain ⟨_, b, _⟩ := shutdown_fields s.snd
    exact ⟨rfl, rfl, rfl, b⟩
  | pick off len =>
    simp only [Stream.step]; split
    · obtain ⟨_, _, _, b, _⟩ := pick_fields s.snd off len
      exact ⟨rfl, rfl, rfl, b⟩
    · exact SameW.refl s
  | deliver i =>
    simp only [Stream.step]; split
    · rename_i f _
      exact ⟨rx_nread s.rcv f, rx_maxSD s.rcv f, rfl, rfl⟩
    · exact SameW.refl s
  | ack i =>
    simp only [Stream.step]; split
    · rename_i f _
      exact ⟨rfl, rfl, rfl, (ack_same s.snd f).2.1⟩
    · exact SameW.refl s
  | lose i =>
    simp only [Stream.step]; split
    · rename_i f _
      exact ⟨rfl, rfl, rfl, (lose_same s.snd f).2.1⟩
    · exact SameW.refl s
  | _ => cases hc

theorem sameW_run (s : Stream) (ops : List Op) (hc : ∀ op ∈ ops, op.net = true) : SameW s (s.run ops) := by
  induction ops generalizing s with
  | nil => exact SameW.refl s
  | cons op rest ih =>
    exact (sameW_step s (hc op (List.mem_cons_self ..))).trans
      (ih (s.step op) (fun o ho => hc o (List.mem_cons_of_mem _ ho)))

theorem settle_net (keep : Nat → Bool) (is : List Nat) : ∀ op ∈ settleOps keep is, op.net = true := by
  induction is with
  | nil => intro op h; cases h
  | cons i is ih =>
    intro op h
    simp only [settleOps] at h
    rcases List.mem_append.mp h with e | e
    · cases hk : keep i
      · simp only [hk, Bool.false_eq_true, if_false, List.mem_singleton] at e; subst e; rfl
      · simp only [hk, if_true, dAck, List.mem_cons, List.mem_nil_iff, or_false] at e
        rcases e with e | e <;> subst e <;> rfl
    · exact ih op e

theorem pickOps_net (ps : List (Nat × Nat)) : ∀ op ∈ pickOps ps, op.net = true := by
  intro op h
  simp only [pickOps, List.mem_map] at h
  obtain ⟨p, _, e⟩ := h
  subst e; rfl

/-! ### one read in `Recv` -/

/-- `Recv::poll_read`: the advertised limit after the read, and whether a MAX_STREAM_DATA frame was emitted. -/
theorem read_recv_w (r : Recver) (cap : Nat) (he : r.err = false) (hst : r.st = .recv) :
    ((r.read cap).2.2 = none ∧ (r.read cap).1.maxSD = r.maxSD ∧
      ((r.read cap).1.buf.nread + msdThreshold ≤ r.maxSD ∨ varintMax ≤ r.maxSD ∨ RecvBuf.isReadable r.buf = false)) ∨
    (∃ v, (r.read cap).2.2 = some v ∧ (r.read cap).1.maxSD = v ∧ r.maxSD < v ∧
      v = min ((r.read cap).1.buf.nread + msdThreshold * 2) varintMax) := by
  unfold Recver.read
  simp only [he, hst, Bool.false_eq_true, if_false]
  cases hr : RecvBuf.isReadable r.buf
  · left; simp
  · simp only [Bool.not_true, Bool.false_eq_true, if_false]
    by_cases h1 : (RecvBuf.tryRead r.buf cap).1.nread + msdThreshold > r.maxSD
    · by_cases h2 : min ((RecvBuf.tryRead r.buf cap).1.nread + msdThreshold * 2) varintMax > r.maxSD
      · right
        refine ⟨min ((RecvBuf.tryRead r.buf cap).1.nread + msdThreshold * 2) varintMax, ?_⟩
        simp only [h1, h2, if_true]
        exact ⟨trivial, trivial, trivial, trivial⟩
      · left
        simp only [h1, h2, if_true, if_false]
        refine ⟨trivial, trivial, Or.inr (Or.inl ?_)⟩
        simp only [msdThreshold] at h1 h2 ⊢
        omega
    · left
      simp only [h1, if_false]
      exact ⟨trivial, trivial, Or.inl (by omega)⟩

/-- everything below `M` has arrived: one read with room for more than the whole stream gets at least to `M` -/
theorem read_upto {s : Stream} (h : Inv s) (ok : RcvOk s.rcv) (hst : s.rcv.st = .recv) {M : Nat}
    (hall : ∀ y, y < M → Have s.rcv y) {cap : Nat} (hc : s.snd.written.length < cap) :
    M ≤ (s.step (.read cap)).rcv.buf.nread := by
  have hl := h.b1.largest_le
  have hsi := ((RecvBuf.inv_iff' _ _).mp h.b1).1
  have hsp := RecvBuf.contEnd_spec hsi.1
  have hav := RecvBuf.available_eq s.rcv.buf
  have hM : M ≤ s.rcv.buf.nread + RecvBuf.available s.rcv.buf := by
    by_cases h0 : M = 0
    · omega
    · have := (hsp (M - 1)).mpr (fun y hy => hall y (by omega))
      omega
  have hle : s.rcv.buf.nread + RecvBuf.available s.rcv.buf ≤ s.snd.written.length := by
    by_cases h0 : RecvBuf.contEnd s.rcv.buf.segs s.rcv.buf.nread = 0
    · omega
    · have hx := (hsp (RecvBuf.contEnd s.rcv.buf.segs s.rcv.buf.nread - 1)).mp (by omega)
      have := have_lt_largest h.b1 (hx _ (Nat.le_refl _))
      omega
  have hrcv : (s.step (.read cap)).rcv = (s.rcv.read cap).1 := by
    simp only [Stream.step]; split <;> rfl
  rw [hrcv, read_recv_buf s.rcv cap ok.1 hst]
  obtain ⟨l1, l2⟩ := RecvBuf.read_len hsi cap
  cases hr : RecvBuf.isReadable s.rcv.buf
  · have := not_readable_available hr
    simp only [Bool.false_eq_true, if_false]; omega
  · simp only [if_true]; omega

end GmQuic.Stream
