import GmQuic.Lemmas.StreamLiveH
/-!
C01 liveness, part 7: the picking phase (`PickSeq`, its bound, deadlock freedom, existence of a complete one) and the
invariant `K` that links what is picked to the frames emitted from index `n0` on.
-/
namespace GmQuic.Stream
open GmQuic.RecvBuf (Bytes covered)

/-- a sequence of legal picks none of which is a mere repetition of the FIN-only frame -/
def PickSeq : Stream → List (Nat × Nat) → Prop
  | _, [] => True
  | s, p :: ps => s.snd.pickOk p.1 p.2 ∧ (p.2 ≠ 0 ∨ s.snd.finDue) ∧ PickSeq (s.step (.pick p.1 p.2)) ps

def pickOps (ps : List (Nat × Nat)) : List Op := ps.map (fun p => .pick p.1 p.2)

theorem pickOps_coop (ps : List (Nat × Nat)) : ∀ op ∈ pickOps ps, op.coop = true := by
  intro op h
  simp only [pickOps, List.mem_map] at h
  obtain ⟨p, _, e⟩ := h
  subst e; rfl

theorem step_pick_ok {s : Stream} {off len : Nat} (h : s.snd.pickOk off len) :
    s.step (.pick off len) = { s with snd := (s.snd.pick off len).1, emitted := s.emitted ++ [(s.snd.pick off len).2] } := by
  simp only [Stream.step, h, if_true]

/-- TERMINATION MEASURE of the picking phase: every such sequence is at most `mu` long. -/
theorem pickSeq_bound {s : Stream} {ps : List (Nat × Nat)} (h : PickSeq s ps) : ps.length ≤ s.snd.mu := by
  induction ps generalizing s with
  | nil => exact Nat.zero_le _
  | cons p ps ih =>
    obtain ⟨h1, h2, h3⟩ := h
    have := ih h3
    rw [step_pick_ok h1] at this
    have := pick_mu_lt h1 h2
    simp only [List.length_cons]
    simp only at *
    omega

/-- what `somePick = none` means -/
theorem somePick_none {s : Sender} (hl : s.live = true) (h : s.somePick = none) :
    (∀ x, x < s.written.length → x < s.maxData → (s.status x).pickable = false) ∧ ¬ s.finDue := by
  unfold Sender.somePick at h
  simp only [hl, if_true] at h
  split at h
  · cases h
  · rename_i hf
    refine ⟨fun x h1 h2 => ?_, fun hd => by simp [hd] at h⟩
    have := List.find?_eq_none.mp hf x (by simp; omega)
    simpa using this

/-- DEADLOCK FREEDOM of the sender: if the model says something must be sent, a legal pick that is not a mere
repetition exists. -/
theorem progress {s : Stream} (hr : Reach s) (hn : s.snd.somePick ≠ none) :
    ∃ o l, s.snd.pickOk o l ∧ (l ≠ 0 ∨ s.snd.finDue) := by
  have hl : s.snd.live = true := by
    cases hx : s.snd.live
    · exfalso; apply hn; unfold Sender.somePick; simp [hx]
    · rfl
  by_cases hlt : s.snd.sentHi < min s.snd.written.length s.snd.maxData
  · refine ⟨s.snd.sentHi, 1, ⟨hl, ?_⟩, Or.inl (by omega)⟩
    simp only [Nat.one_ne_zero, if_false]
    refine ⟨by omega, by omega, fun k hk => ?_, Nat.le_refl _⟩
    have : k = 0 := by omega
    subst this
    rw [Nat.add_zero, hr.invS.n1 _ (Nat.le_refl _)]; rfl
  · unfold Sender.somePick at hn
    simp only [hl, if_true] at hn
    split at hn
    · rename_i x hx
      have hp := List.find?_some hx
      have hm := List.mem_of_find?_eq_some hx
      simp only [List.mem_range] at hm
      refine ⟨x, 1, ⟨hl, ?_⟩, Or.inl (by omega)⟩
      simp only [Nat.one_ne_zero, if_false]
      refine ⟨by omega, by omega, fun k hk => ?_, by omega⟩
      have : k = 0 := by omega
      subst this
      exact hp
    · split at hn
      · rename_i hd
        refine ⟨s.snd.written.length, 0, ⟨hl, ?_⟩, Or.inr hd⟩
        obtain ⟨_, d2, d3⟩ := hd
        simp only [if_true]
        refine ⟨trivial, d2, ?_⟩
        split at d3
        · rename_i hst; simp only [hst, if_true]
        · rename_i hst; simp only [hst, if_false]; exact d3
      · exact absurd rfl hn

/-- a complete picking phase exists from every reachable state -/
theorem exists_drain (n : Nat) : ∀ {s : Stream}, s.snd.mu ≤ n → Reach s →
    ∃ ps, PickSeq s ps ∧ (s.run (pickOps ps)).snd.somePick = none := by
  induction n with
  | zero =>
    intro s hmu hr
    by_cases hn : s.snd.somePick = none
    · exact ⟨[], trivial, hn⟩
    · obtain ⟨o, l, h1, h2⟩ := progress hr hn
      have := pick_mu_lt h1 h2; omega
  | succ n ih =>
    intro s hmu hr
    by_cases hn : s.snd.somePick = none
    · exact ⟨[], trivial, hn⟩
    · obtain ⟨o, l, h1, h2⟩ := progress hr hn
      have hlt := pick_mu_lt h1 h2
      have hmu' : (s.step (.pick o l)).snd.mu ≤ n := by rw [step_pick_ok h1]; simp only; omega
      obtain ⟨ps, p1, p2⟩ := ih hmu' (reach_step hr _)
      exact ⟨(o, l) :: ps, ⟨h1, h2, p1⟩, by simpa [pickOps, Stream.run] using p2⟩

/-! ### the invariant of the picking phase -/

def CovNew (n0 : Nat) (em : List Frame) (x : Nat) : Prop := ∃ i, n0 ≤ i ∧ ∃ f, em[i]? = some f ∧ f.off ≤ x ∧ x < f.stop
def FinNew (n0 : Nat) (em : List Frame) : Prop := ∃ i, n0 ≤ i ∧ ∃ f, em[i]? = some f ∧ f.fin = true

structure K (n0 : Nat) (s : Stream) : Prop where
  k0 : n0 ≤ s.emitted.length
  k1 : ∀ x, s.snd.status x = .inflight → x < s.snd.written.length → CovNew n0 s.emitted x
  k2 : s.snd.st = .dataSent → s.snd.fin = .sent → FinNew n0 s.emitted
  k3 : ∀ x, x < s.snd.written.length → (s.snd.status x).pickable = true ∨ Have s.rcv x ∨ CovNew n0 s.emitted x
  k4 : s.snd.needFin = true ∨ Sized s.rcv ∨ FinNew n0 s.emitted
  k5 : s.snd.shutdown = true ∨ s.snd.st = .dataSent ∨ s.snd.st = .dataRcvd

theorem covNew_append {n0 : Nat} {em : List Frame} {x : Nat} (g : Frame) (h : CovNew n0 em x) : CovNew n0 (em ++ [g]) x := by
  obtain ⟨i, h1, f, h2, h3⟩ := h
  exact ⟨i, h1, f, by rw [List.getElem?_append_left (List.getElem?_eq_some_iff.mp h2).1]; exact h2, h3⟩

theorem finNew_append {n0 : Nat} {em : List Frame} (g : Frame) (h : FinNew n0 em) : FinNew n0 (em ++ [g]) := by
  obtain ⟨i, h1, f, h2, h3⟩ := h
  exact ⟨i, h1, f, by rw [List.getElem?_append_left (List.getElem?_eq_some_iff.mp h2).1]; exact h2, h3⟩

theorem getElem?_append_len {α} (l : List α) (a : α) : (l ++ [a])[l.length]? = some a := by simp

/-- what a legal pick does to `st`, `fin_state`, `needFin`, in terms of the FIN flag of the new frame -/
theorem pick_fin_cases {s : Sender} {off len : Nat} (hok : s.pickOk off len) :
    ((s.pick off len).1.st = .dataSent → (s.pick off len).1.fin = .sent →
        (s.st = .dataSent ∧ s.fin = .sent) ∨ s.pickFin off len = true) ∧
    (s.needFin = true → (s.pick off len).1.needFin = true ∨ s.pickFin off len = true) ∧
    (s.st = .dataSent → (s.pick off len).1.st = .dataSent) := by
  obtain ⟨hl, hk⟩ := hok
  obtain ⟨he, hst⟩ := (live_iff s).mp hl
  by_cases h0 : len = 0
  · subst h0
    simp only [if_true] at hk
    obtain ⟨k1, k2, k3⟩ := hk
    have hpf : s.pickFin off 0 = true := by
      unfold Sender.pickFin
      rcases hst with e | e | e <;> simp_all
    exact ⟨fun _ _ => Or.inr hpf, fun _ => Or.inr hpf, fun e => by simp [Sender.pick, e]⟩
  · unfold Sender.pick Sender.needFin
    rcases hst with e | e | e
    · cases hp : s.pickFin off len <;> simp [e, hp, h0]
    · cases hp : s.pickFin off len <;> simp [e, hp, h0]
    · simp [e, h0]
      exact ⟨fun h => Or.inl h, fun h => Or.inl h⟩

theorem k_pick {n0 : Nat} {s : Stream} {off len : Nat} (hok : s.snd.pickOk off len) (k : K n0 s) :
    K n0 (s.step (.pick off len)) := by
  rw [step_pick_ok hok]
  obtain ⟨e1, _, e3, _, e5, _, e7⟩ := pick_fields s.snd off len
  obtain ⟨g1, g2⟩ := pick_frame_stop hok
  obtain ⟨c1, c2, c3⟩ := pick_fin_cases hok
  have hfin : ((s.snd.pick off len).2).fin = s.snd.pickFin off len := by rw [e7]
  have newcov : ∀ x, off ≤ x → x < off + len → CovNew n0 (s.emitted ++ [(s.snd.pick off len).2]) x :=
    fun x x1 x2 => ⟨s.emitted.length, k.k0, _, getElem?_append_len _ _, by omega, by omega⟩
  have newfin : s.snd.pickFin off len = true → FinNew n0 (s.emitted ++ [(s.snd.pick off len).2]) :=
    fun hp => ⟨s.emitted.length, k.k0, _, getElem?_append_len _ _, by rw [hfin]; exact hp⟩
  refine ⟨?_, ?_, ?_, ?_, ?_, ?_⟩
  · simp only [List.length_append, List.length_singleton]; have := k.k0; omega
  · intro x hx hw
    simp only [e1, e3, setRange] at hx hw
    split at hx
    · rename_i hr; exact newcov x hr.1 hr.2
    · exact covNew_append _ (k.k1 x hx hw)
  · intro h1 h2
    rcases c1 h1 h2 with ⟨a, b⟩ | hp
    · exact finNew_append _ (k.k2 a b)
    · exact newfin hp
  · intro x hw
    simp only [e1, e3, setRange] at hw ⊢
    by_cases hr : off ≤ x ∧ x < off + len
    · right; right; exact newcov x hr.1 hr.2
    · rw [if_neg hr]
      rcases k.k3 x hw with a | a | a
      · exact Or.inl a
      · exact Or.inr (Or.inl a)
      · exact Or.inr (Or.inr (covNew_append _ a))
  · rcases k.k4 with a | a | a
    · rcases c2 a with b | b
      · exact Or.inl b
      · exact Or.inr (Or.inr (newfin b))
    · exact Or.inr (Or.inl a)
    · exact Or.inr (Or.inr (finNew_append _ a))
  · simp only [e5]
    rcases k.k5 with a | a | a
    · exact Or.inl a
    · exact Or.inr (Or.inl (c3 a))
    · exfalso
      have := (live_iff s.snd).mp hok.1
      rcases this.2 with e | e | e <;> rw [a] at e <;> cases e

theorem k_picks {n0 : Nat} {s : Stream} {ps : List (Nat × Nat)} (hp : PickSeq s ps) (k : K n0 s) :
    K n0 (s.run (pickOps ps)) := by
  induction ps generalizing s with
  | nil => exact k
  | cons p ps ih =>
    obtain ⟨h1, _, h3⟩ := hp
    exact ih h3 (k_pick h1 k)

end GmQuic.Stream
