import GmQuic.Model.RcvdJournal
/-! The numbers enumerated by a well-formed ACK frame are strictly decreasing (hence duplicate-free). -/
namespace GmQuic.RcvdJournal

theorem desc_run (lo hi : Nat) : ((List.range (hi + 1 - lo)).map (fun i => hi - i)).Pairwise (· > ·) ∧
    ∀ p ∈ (List.range (hi + 1 - lo)).map (fun i => hi - i), lo ≤ p ∧ p ≤ hi := by
  constructor
  · rw [List.pairwise_map]
    apply List.Pairwise.imp_of_mem _ List.pairwise_lt_range
    intro a b ha hb hab
    simp only [List.mem_range] at ha hb
    omega
  · intro p hp
    simp only [List.mem_map, List.mem_range] at hp
    obtain ⟨i, hi1, rfl⟩ := hp
    omega

theorem iterRanges_desc (rs : List (Nat × Nat)) (left : Nat) (out : List (Nat × Nat)) (h : iterRanges left rs = some out) :
    (pnsDesc out).Pairwise (· > ·) ∧ ∀ p ∈ pnsDesc out, p < left := by
  induction rs generalizing left out with
  | nil => simp only [iterRanges, Option.some.injEq] at h; subst h; simp [pnsDesc]
  | cons x rs ih =>
    obtain ⟨g, a⟩ := x
    simp only [iterRanges] at h
    split at h
    · cases h
    · split at h
      · cases h
      · cases hr : iterRanges (left - g - 2 - a) rs with
        | none => simp [hr] at h
        | some o =>
          simp only [hr, Option.map_some, Option.some.injEq] at h
          subst h
          obtain ⟨i1, i2⟩ := ih _ _ hr
          obtain ⟨d1, d2⟩ := desc_run (left - g - 2 - a) (left - g - 2)
          simp only [pnsDesc]
          refine ⟨List.pairwise_append.2 ⟨d1, i1, ?_⟩, ?_⟩
          · intro p hp q hq
            have := d2 p hp; have := i2 q hq; omega
          · intro p hp
            rcases List.mem_append.1 hp with hp | hp
            · have := d2 p hp; omega
            · have := i2 p hp; omega

theorem iter_nodup (f : AckFrame) (out : List (Nat × Nat)) (h : f.iter = some out) : (pnsDesc out).Nodup := by
  unfold AckFrame.iter at h
  split at h
  · cases h
  · cases hr : iterRanges (f.largest - f.first) f.ranges with
    | none => simp [hr] at h
    | some o =>
      simp only [hr, Option.map_some, Option.some.injEq] at h
      subst h
      obtain ⟨i1, i2⟩ := iterRanges_desc _ _ _ hr
      obtain ⟨d1, d2⟩ := desc_run (f.largest - f.first) f.largest
      have : (pnsDesc ((f.largest - f.first, f.largest) :: o)).Pairwise (· > ·) := by
        simp only [pnsDesc]
        refine List.pairwise_append.2 ⟨d1, i1, ?_⟩
        intro p hp q hq
        have := d2 p hp; have := i2 q hq; omega
      exact this.imp (fun h => Nat.ne_of_gt h)

end GmQuic.RcvdJournal
