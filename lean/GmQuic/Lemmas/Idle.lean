import GmQuic.Model.Idle
/-! C17, part 2 — `IdleTimer`: history-level vocabulary (`Mono`, `lastEff`, `Op.effTime`) and the run invariant. -/
namespace GmQuic.Idle

/-- The op times are non-decreasing and ≥ the start clock `k` (`negotiate` carries no time). -/
def Mono : Nat → List Op → Prop
  | _, [] => True
  | k, .negotiate _ :: rest => Mono k rest
  | k, .sent _ x :: rest => k ≤ x ∧ Mono x rest
  | k, .rcvd _ x :: rest => k ≤ x ∧ Mono x rest
  | k, .health x :: rest => k ≤ x ∧ Mono x rest

instance decMono : (k : Nat) → (ops : List Op) → Decidable (Mono k ops)
  | _, [] => isTrue trivial
  | k, .negotiate _ :: rest => decMono k rest
  | _, .sent _ x :: rest => @instDecidableAnd _ _ _ (decMono x rest)
  | _, .rcvd _ x :: rest => @instDecidableAnd _ _ _ (decMono x rest)
  | _, .health x :: rest => @instDecidableAnd _ _ _ (decMono x rest)

/-- time of an EFFECTIVE sent / received packet (the ops that assign `last_effective_comm`) -/
def Op.effTime : Op → Option Nat
  | .sent true x => some x
  | .rcvd true x => some x
  | _ => none

def effStep (acc : Option Nat) (op : Op) : Option Nat :=
  match op.effTime with
  | some x => some x
  | none => acc

/-- time of the LAST effective sent / received packet of a history -/
def lastEff (ops : List Op) : Option Nat := ops.foldl effStep none

/-- the clock after a history that started at clock `k` -/
def clockStep (k : Nat) (op : Op) : Nat := op.time.getD k

/-! ### `Mono` -/

theorem mono_cons {k : Nat} {op : Op} {rest : List Op} :
    Mono k (op :: rest) ↔ (∀ x, op.time = some x → k ≤ x) ∧ Mono (clockStep k op) rest := by
  cases op <;> simp [Mono, Op.time, clockStep]

theorem mono_append_left {a b : List Op} : ∀ {k : Nat}, Mono k (a ++ b) → Mono k a := by
  induction a with
  | nil => intro k _; trivial
  | cons op a ih =>
    intro k h
    rw [List.cons_append, mono_cons] at h
    rw [mono_cons]
    exact ⟨h.1, ih h.2⟩

/-! ### `lastEff` -/

theorem effTime_time {op : Op} {x : Nat} (h : op.effTime = some x) : op.time = some x := by
  cases op with
  | sent e y => cases e <;> simp_all [Op.effTime, Op.time]
  | rcvd e y => cases e <;> simp_all [Op.effTime, Op.time]
  | health y => simp [Op.effTime] at h
  | negotiate r => simp [Op.effTime] at h

theorem lastEff_nil : lastEff [] = none := rfl

theorem lastEff_snoc (ops : List Op) (op : Op) : lastEff (ops ++ [op]) = effStep (lastEff ops) op := by
  simp [lastEff, List.foldl_append]

private theorem foldl_effStep_none_iff (ops : List Op) : ∀ acc : Option Nat,
    ops.foldl effStep acc = none ↔ acc = none ∧ ∀ op ∈ ops, op.effTime = none := by
  induction ops with
  | nil => intro acc; simp
  | cons op ops ih =>
    intro acc
    rw [List.foldl_cons, ih]
    unfold effStep
    cases h : op.effTime <;> simp [h]

/-- `lastEff` is `none` exactly when the history contains no effective sent / received packet. -/
theorem lastEff_eq_none_iff (ops : List Op) : lastEff ops = none ↔ ∀ op ∈ ops, op.effTime = none := by
  simp [lastEff, foldl_effStep_none_iff]

private theorem foldl_effStep_some (ops : List Op) : ∀ (acc : Option Nat) (c0 : Nat),
    ops.foldl effStep acc = some c0 → acc = some c0 ∨ ∃ op ∈ ops, op.effTime = some c0 := by
  induction ops with
  | nil => intro acc c0 h; exact Or.inl h
  | cons op ops ih =>
    intro acc c0 h
    rw [List.foldl_cons] at h
    rcases ih _ _ h with h1 | ⟨o, ho, he⟩
    · unfold effStep at h1
      cases hop : op.effTime with
      | none => rw [hop] at h1; exact Or.inl h1
      | some y =>
        rw [hop] at h1
        exact Or.inr ⟨op, List.mem_cons_self, by rw [hop]; simpa using h1⟩
    · exact Or.inr ⟨o, List.mem_cons_of_mem _ ho, he⟩

/-- `lastEff` really is the time of some effective op of the history. -/
theorem lastEff_mem {ops : List Op} {c0 : Nat} (h : lastEff ops = some c0) :
    ∃ op ∈ ops, op.effTime = some c0 := by
  rcases foldl_effStep_some ops none c0 h with h | h
  · cases h
  · exact h

/-! ### the timer tracks `lastEff` (no hypothesis on times) -/

theorem step_lastComm (tm : Timer) (op : Op) : (step tm op).1.lastComm = effStep tm.lastComm op := by
  cases op with
  | sent e x => cases e <;> simp [step, onSent, effStep, Op.effTime]
  | rcvd e x =>
    cases e <;> by_cases hb : tm.idleBegin.isSome <;> simp [step, onRcvd, effStep, Op.effTime, hb]
  | health x =>
    simp only [step, health, effStep, Op.effTime]
    split <;> (try split) <;> (try split) <;> simp_all
  | negotiate r => simp [step, effStep, Op.effTime]

theorem run_lastComm (ops : List Op) : ∀ tm : Timer,
    (run tm ops).lastComm = ops.foldl effStep tm.lastComm := by
  induction ops with
  | nil => intro tm; rfl
  | cons op ops ih =>
    intro tm
    show (run (step tm op).1 ops).lastComm = _
    rw [ih, step_lastComm, List.foldl_cons]

theorem run_init_lastComm (c : Cfg) (ops : List Op) : (run { cfg := c } ops).lastComm = lastEff ops :=
  run_lastComm ops _

/-! ### idle only begins after some effective communication (no hypothesis on times) -/

def IdleHasComm (tm : Timer) : Prop := tm.idleBegin.isSome → tm.lastComm.isSome

theorem step_idleHasComm (tm : Timer) (op : Op) (h : IdleHasComm tm) : IdleHasComm (step tm op).1 := by
  unfold IdleHasComm at *
  cases op with
  | sent e x => cases e <;> simp_all [step, onSent]
  | rcvd e x =>
    cases e <;> by_cases hb : tm.idleBegin.isSome <;> simp_all [step, onRcvd]
  | health x =>
    simp only [step, health]
    split <;> (try split) <;> (try split) <;> simp_all
  | negotiate r => simpa [step] using h

theorem run_idleHasComm (ops : List Op) : ∀ tm : Timer, IdleHasComm tm → IdleHasComm (run tm ops) := by
  induction ops with
  | nil => intro tm h; exact h
  | cons op ops ih => intro tm h; exact ih _ (step_idleHasComm tm op h)

/-! ### the invariant under monotone time -/

/-- `d` = the (constant) `defer_idle_timeout`, `k` = the clock, `hist` = the ops executed so far. -/
structure Good (d : Nat) (tm : Timer) (k : Nat) (hist : List Op) : Prop where
  defer_eq : tm.cfg.defer = d
  times_le : ∀ op ∈ hist, ∀ x, op.time = some x → x ≤ k
  eff_le : ∀ op ∈ hist, ∀ x, op.effTime = some x → ∃ c0, tm.lastComm = some c0 ∧ x ≤ c0
  idle : ∀ b, tm.idleBegin = some b →
    b ≤ k ∧ (∃ c0, tm.lastComm = some c0 ∧ c0 + d < b) ∧ ∀ e x, Op.rcvd e x ∈ hist → x ≤ b

theorem good_init (c : Cfg) (k : Nat) : Good c.defer { cfg := c } k [] :=
  ⟨rfl, by simp, by simp, by simp⟩

theorem negotiate_defer (c : Cfg) (r : Nat) : (c.negotiate r).defer = c.defer := rfl

theorem good_step {d : Nat} {tm : Timer} {k : Nat} {hist : List Op} (g : Good d tm k hist) (op : Op)
    (hk : ∀ x, op.time = some x → k ≤ x) : Good d (step tm op).1 (clockStep k op) (hist ++ [op]) := by
  obtain ⟨g1, g2, g3, g4⟩ := g
  cases op with
  | negotiate r =>
    refine ⟨g1, ?_, ?_, ?_⟩
    · intro o ho x hx
      rcases List.mem_append.1 ho with ho | ho
      · exact g2 o ho x hx
      · simp at ho; subst ho; simp [Op.time] at hx
    · intro o ho x hx
      rcases List.mem_append.1 ho with ho | ho
      · exact g3 o ho x hx
      · simp at ho; subst ho; simp [Op.effTime] at hx
    · intro b hb
      obtain ⟨h1, h2, h3⟩ := g4 b hb
      refine ⟨h1, h2, ?_⟩
      intro e x hm
      simp at hm
      exact h3 e x hm
  | sent e y =>
    have hy : k ≤ y := hk y rfl
    cases e <;> refine ⟨?_, ?_, ?_, ?_⟩ <;>
      simp only [step, onSent, clockStep, Op.time, Option.getD_some, List.mem_append, List.mem_singleton] <;>
      grind [Op.time, Op.effTime, effTime_time]
  | rcvd e y =>
    have hy : k ≤ y := hk y rfl
    cases e <;> cases hb : tm.idleBegin <;> refine ⟨?_, ?_, ?_, ?_⟩ <;>
      simp only [step, onRcvd, hb, clockStep, Op.time, Option.getD_some, List.mem_append, List.mem_singleton,
        Option.isSome_none, Option.isSome_some, if_true, if_false, Bool.false_eq_true] <;>
      grind [Op.time, Op.effTime, effTime_time]
  | health y =>
    have hy : k ≤ y := hk y rfl
    refine ⟨?_, ?_, ?_, ?_⟩ <;>
      simp only [step, health, clockStep, Op.time, Option.getD_some, List.mem_append, List.mem_singleton] <;>
      grind [Op.time, Op.effTime, effTime_time]

theorem good_run {d : Nat} (ops : List Op) : ∀ {tm : Timer} {k : Nat} {hist : List Op},
    Good d tm k hist → Mono k ops → ∃ k', Good d (run tm ops) k' (hist ++ ops) := by
  induction ops with
  | nil => intro tm k hist g _; exact ⟨k, by simpa [run] using g⟩
  | cons op ops ih =>
    intro tm k hist g hm
    rw [mono_cons] at hm
    obtain ⟨k', g'⟩ := ih (good_step g op hm.1) hm.2
    exact ⟨k', by simpa [run] using g'⟩

/-- every run from the initial timer over a time-monotone history satisfies the invariant -/
theorem good_reach (c : Cfg) {ops : List Op} (hm : Mono 0 ops) :
    ∃ k, Good c.defer (run { cfg := c } ops) k ops := by
  simpa using good_run ops (good_init c 0) hm

/-- what a `.timeout` observation of `health` says about the state it was called on -/
theorem health_timeout {tm : Timer} {t : Nat} (h : (health tm t).2 = .timeout) :
    tm.cfg.maxIdle ≠ 0 ∧ ∃ b, tm.idleBegin = some b ∧ b + tm.cfg.maxIdle < t := by
  have key : timeoutCheck tm t = .timeout →
      tm.cfg.maxIdle ≠ 0 ∧ ∃ b, tm.idleBegin = some b ∧ b + tm.cfg.maxIdle < t := by
    unfold timeoutCheck
    cases hb : tm.idleBegin with
    | none => simp
    | some b =>
      simp only
      split
      · rename_i hc; intro _; exact ⟨hc.1, b, rfl, by omega⟩
      · simp
  simp only [health] at h
  grind

end GmQuic.Idle
