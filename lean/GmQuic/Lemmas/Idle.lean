import GmQuic.Model.Idle
/-! C17, part 2 — `IdleTimer`: history-level vocabulary (`Mono`, `lastEff`, `Op.effTime`) and the run invariant. -/
namespace GmQuic.Idle

/-- The op times are non-decreasing and ≥ the start clock `k` (`negotiate` carries no time). -/
def Mono : Nat → List Op → Prop
  | _, [] => True
  | k, .negotiate _ :: rest => Mono k rest
  | k, .sent _ x :: rest => k ≤ x ∧ Mono x rest
  | k, .rcvd _ x :: rest => k ≤ x ∧ Mono x rest
  | k, .health x :: rest => k ≤ x ∧ Mono x rest

instance decMono : (k : Nat) → (ops : List Op) → Decidable (Mono k ops)
  | _, [] => isTrue trivial
  | k, .negotiate _ :: rest => decMono k rest
  | _, .sent _ x :: rest => @instDecidableAnd _ _ _ (decMono x rest)
  | _, .rcvd _ x :: rest => @instDecidableAnd _ _ _ (decMono x rest)
  | _, .health x :: rest => @instDecidableAnd _ _ _ (decMono x rest)

/-- time of an effective RECEIVED packet (always restarts the idle period) -/
def Op.effTime : Op → Option Nat
  | .rcvd true x => some x
  | _ => none

/-- an effective packet, sent or received -/
def Op.isEff : Op → Bool
  | .sent true _ => true
  | .rcvd true _ => true
  | _ => false

/-- History-level RFC 9000 §10.1 bookkeeping: (time of the last restart of the idle period, "an effective packet
has been sent since the last receive").  An effective receive restarts; an effective send restarts only if it
is the first one since the last received packet. -/
def rstStep (acc : Option Nat × Bool) : Op → Option Nat × Bool
  | .sent true x => if acc.2 then acc else (some x, true)
  | .rcvd true x => (some x, false)
  | .rcvd false _ => (acc.1, false)
  | _ => acc

def restart (ops : List Op) : Option Nat × Bool := ops.foldl rstStep (none, false)

/-- time of the LAST restart event of a history -/
def lastEff (ops : List Op) : Option Nat := (restart ops).1

/-- the clock after a history that started at clock `k` -/
def clockStep (k : Nat) (op : Op) : Nat := op.time.getD k

/-! ### `Mono` -/

theorem mono_cons {k : Nat} {op : Op} {rest : List Op} :
    Mono k (op :: rest) ↔ (∀ x, op.time = some x → k ≤ x) ∧ Mono (clockStep k op) rest := by
  cases op <;> simp [Mono, Op.time, clockStep]

theorem mono_append_left {a b : List Op} : ∀ {k : Nat}, Mono k (a ++ b) → Mono k a := by
  induction a with
  | nil => intro k _; trivial
  | cons op a ih =>
    intro k h
    rw [List.cons_append, mono_cons] at h
    rw [mono_cons]
    exact ⟨h.1, ih h.2⟩

/-! ### `lastEff` -/

theorem effTime_time {op : Op} {x : Nat} (h : op.effTime = some x) : op.time = some x := by
  cases op with
  | sent e y => simp [Op.effTime] at h
  | rcvd e y => cases e <;> simp_all [Op.effTime, Op.time]
  | health y => simp [Op.effTime] at h
  | negotiate r => simp [Op.effTime] at h

theorem lastEff_nil : lastEff [] = none := rfl

theorem restart_snoc (ops : List Op) (op : Op) : restart (ops ++ [op]) = rstStep (restart ops) op := by
  simp [restart, List.foldl_append]

theorem lastEff_snoc (ops : List Op) (op : Op) : lastEff (ops ++ [op]) = (rstStep (restart ops) op).1 := by
  simp [lastEff, restart_snoc]

private theorem foldl_rst_none_iff (ops : List Op) : ∀ acc : Option Nat × Bool, (acc.2 = true → acc.1.isSome = true) →
    ((ops.foldl rstStep acc).1 = none ↔ acc.1 = none ∧ ∀ op ∈ ops, op.isEff = false) := by
  induction ops with
  | nil => intro acc _; simp
  | cons op ops ih =>
    intro acc ha
    rw [List.foldl_cons, ih]
    · cases op with
      | sent e x =>
        cases e
        · simp [rstStep, Op.isEff]
        · by_cases hf : acc.2 = true
          · have := ha hf
            cases h1 : acc.1 <;> simp_all [rstStep, Op.isEff]
          · simp [rstStep, Op.isEff, hf]
      | rcvd e x => cases e <;> simp [rstStep, Op.isEff]
      | health x => simp [rstStep, Op.isEff]
      | negotiate r => simp [rstStep, Op.isEff]
    · cases op with
      | sent e x =>
        cases e
        · simpa [rstStep] using ha
        · by_cases hf : acc.2 = true <;> simp_all [rstStep]
      | rcvd e x => cases e <;> simp [rstStep]
      | health x => simpa [rstStep] using ha
      | negotiate r => simpa [rstStep] using ha

/-- `lastEff` is `none` exactly when the history contains no effective sent / received packet. -/
theorem lastEff_eq_none_iff (ops : List Op) : lastEff ops = none ↔ ∀ op ∈ ops, op.isEff = false := by
  simp [lastEff, restart, foldl_rst_none_iff]

private theorem foldl_rst_some (ops : List Op) : ∀ (acc : Option Nat × Bool) (c0 : Nat),
    (ops.foldl rstStep acc).1 = some c0 → acc.1 = some c0 ∨ ∃ op ∈ ops, op.isEff = true ∧ op.time = some c0 := by
  induction ops with
  | nil => intro acc c0 h; exact Or.inl h
  | cons op ops ih =>
    intro acc c0 h
    rw [List.foldl_cons] at h
    rcases ih _ _ h with h1 | ⟨o, ho, he⟩
    · cases op with
      | sent e x =>
        cases e
        · exact Or.inl h1
        · simp only [rstStep] at h1
          by_cases hf : acc.2 = true
          · simp [hf] at h1; exact Or.inl h1
          · simp [hf] at h1; exact Or.inr ⟨_, List.mem_cons_self, rfl, by simp [Op.time, h1]⟩
      | rcvd e x =>
        cases e
        · exact Or.inl h1
        · simp only [rstStep] at h1; exact Or.inr ⟨_, List.mem_cons_self, rfl, by simpa [Op.time] using h1⟩
      | health x => exact Or.inl h1
      | negotiate r => exact Or.inl h1
    · exact Or.inr ⟨o, List.mem_cons_of_mem _ ho, he⟩

/-- `lastEff` really is the time of some effective (sent or received) op of the history. -/
theorem lastEff_mem {ops : List Op} {c0 : Nat} (h : lastEff ops = some c0) :
    ∃ op ∈ ops, op.isEff = true ∧ op.time = some c0 := by
  rcases foldl_rst_some ops (none, false) c0 h with h | h
  · cases h
  · exact h

/-! ### the timer tracks the §10.1 restart state (no hypothesis on times) -/

theorem step_restart (tm : Timer) (op : Op) :
    ((step tm op).1.lastComm, (step tm op).1.sentSinceRcvd) = rstStep (tm.lastComm, tm.sentSinceRcvd) op := by
  cases op with
  | sent e x =>
    cases e
    · simp [step, onSent, rstStep]
    · by_cases hf : tm.sentSinceRcvd = true <;> simp [step, onSent, rstStep, hf]
  | rcvd e x =>
    cases e <;> by_cases hb : tm.idleBegin.isSome <;> simp [step, onRcvd, rstStep, hb]
  | health x =>
    simp only [step, health, rstStep]
    split <;> (try split) <;> (try split) <;> simp_all
  | negotiate r => simp [step, rstStep]

theorem run_restart (ops : List Op) : ∀ tm : Timer,
    ((run tm ops).lastComm, (run tm ops).sentSinceRcvd) = ops.foldl rstStep (tm.lastComm, tm.sentSinceRcvd) := by
  induction ops with
  | nil => intro tm; rfl
  | cons op ops ih =>
    intro tm
    show ((run (step tm op).1 ops).lastComm, (run (step tm op).1 ops).sentSinceRcvd) = _
    rw [ih, step_restart, List.foldl_cons]

theorem run_init_lastComm (c : Cfg) (ops : List Op) : (run { cfg := c } ops).lastComm = lastEff ops := by
  have := run_restart ops { cfg := c }
  exact congrArg Prod.fst this

theorem run_init_flag (c : Cfg) (ops : List Op) : (run { cfg := c } ops).sentSinceRcvd = (restart ops).2 := by
  have := run_restart ops { cfg := c }
  exact congrArg Prod.snd this

/-! ### idle only begins after some effective communication (no hypothesis on times) -/

def IdleHasComm (tm : Timer) : Prop := tm.idleBegin.isSome → tm.lastComm.isSome

theorem step_idleHasComm (tm : Timer) (op : Op) (h : IdleHasComm tm) : IdleHasComm (step tm op).1 := by
  unfold IdleHasComm at *
  cases op with
  | sent e x =>
    cases e
    · simp_all [step, onSent]
    · by_cases hf : tm.sentSinceRcvd = true <;> simp_all [step, onSent]
  | rcvd e x =>
    cases e <;> by_cases hb : tm.idleBegin.isSome <;> simp_all [step, onRcvd]
  | health x =>
    simp only [step, health]
    split <;> (try split) <;> (try split) <;> simp_all
  | negotiate r => simpa [step] using h

theorem run_idleHasComm (ops : List Op) : ∀ tm : Timer, IdleHasComm tm → IdleHasComm (run tm ops) := by
  induction ops with
  | nil => intro tm h; exact h
  | cons op ops ih => intro tm h; exact ih _ (step_idleHasComm tm op h)

/-! ### the invariant under monotone time -/

/-- `d` = the (constant) `defer_idle_timeout`, `k` = the clock, `hist` = the ops executed so far. -/
structure Good (d : Nat) (tm : Timer) (k : Nat) (hist : List Op) : Prop where
  defer_eq : tm.cfg.defer = d
  times_le : ∀ op ∈ hist, ∀ x, op.time = some x → x ≤ k
  eff_le : ∀ op ∈ hist, ∀ x, op.effTime = some x → ∃ c0, tm.lastComm = some c0 ∧ x ≤ c0
  idle : ∀ b, tm.idleBegin = some b →
    b ≤ k ∧ (∃ c0, tm.lastComm = some c0 ∧ c0 + d < b) ∧ ∀ e x, Op.rcvd e x ∈ hist → x ≤ b

theorem good_init (c : Cfg) (k : Nat) : Good c.defer { cfg := c } k [] :=
  ⟨rfl, by simp, by simp, by simp⟩

theorem negotiate_defer (c : Cfg) (r : Nat) : (c.negotiate r).defer = c.defer := rfl

theorem good_step {d : Nat} {tm : Timer} {k : Nat} {hist : List Op} (g : Good d tm k hist) (op : Op)
    (hk : ∀ x, op.time = some x → k ≤ x) : Good d (step tm op).1 (clockStep k op) (hist ++ [op]) := by
  obtain ⟨g1, g2, g3, g4⟩ := g
  cases op with
  | negotiate r =>
    refine ⟨g1, ?_, ?_, ?_⟩
    · intro o ho x hx
      rcases List.mem_append.1 ho with ho | ho
      · exact g2 o ho x hx
      · simp at ho; subst ho; simp [Op.time] at hx
    · intro o ho x hx
      rcases List.mem_append.1 ho with ho | ho
      · exact g3 o ho x hx
      · simp at ho; subst ho; simp [Op.effTime] at hx
    · intro b hb
      obtain ⟨h1, h2, h3⟩ := g4 b hb
      refine ⟨h1, h2, ?_⟩
      intro e x hm
      simp at hm
      exact h3 e x hm
  | sent e y =>
    have hy : k ≤ y := hk y rfl
    cases e <;> refine ⟨?_, ?_, ?_, ?_⟩ <;>
      simp only [step, onSent, clockStep, Op.time, Option.getD_some, List.mem_append, List.mem_singleton] <;>
      grind [Op.time, Op.effTime, effTime_time]
  | rcvd e y =>
    have hy : k ≤ y := hk y rfl
    cases e <;> cases hb : tm.idleBegin <;> refine ⟨?_, ?_, ?_, ?_⟩ <;>
      simp only [step, onRcvd, hb, clockStep, Op.time, Option.getD_some, List.mem_append, List.mem_singleton,
        Option.isSome_none, Option.isSome_some, if_true, if_false, Bool.false_eq_true] <;>
      grind [Op.time, Op.effTime, effTime_time]
  | health y =>
    have hy : k ≤ y := hk y rfl
    refine ⟨?_, ?_, ?_, ?_⟩ <;>
      simp only [step, health, clockStep, Op.time, Option.getD_some, List.mem_append, List.mem_singleton] <;>
      grind [Op.time, Op.effTime, effTime_time]

theorem good_run {d : Nat} (ops : List Op) : ∀ {tm : Timer} {k : Nat} {hist : List Op},
    Good d tm k hist → Mono k ops → ∃ k', Good d (run tm ops) k' (hist ++ ops) := by
  induction ops with
  | nil => intro tm k hist g _; exact ⟨k, by simpa [run] using g⟩
  | cons op ops ih =>
    intro tm k hist g hm
    rw [mono_cons] at hm
    obtain ⟨k', g'⟩ := ih (good_step g op hm.1) hm.2
    exact ⟨k', by simpa [run] using g'⟩

/-- every run from the initial timer over a time-monotone history satisfies the invariant -/
theorem good_reach (c : Cfg) {ops : List Op} (hm : Mono 0 ops) :
    ∃ k, Good c.defer (run { cfg := c } ops) k ops := by
  simpa using good_run ops (good_init c 0) hm

/-- what a `.timeout` observation of `health` says about the state it was called on -/
theorem health_timeout {tm : Timer} {t : Nat} (h : (health tm t).2 = .timeout) :
    tm.cfg.maxIdle ≠ 0 ∧ ∃ b, tm.idleBegin = some b ∧ b + tm.cfg.maxIdle < t := by
  have key : timeoutCheck tm t = .timeout →
      tm.cfg.maxIdle ≠ 0 ∧ ∃ b, tm.idleBegin = some b ∧ b + tm.cfg.maxIdle < t := by
    unfold timeoutCheck
    cases hb : tm.idleBegin with
    | none => simp
    | some b =>
      simp only
      split
      · rename_i hc; intro _; exact ⟨hc.1, b, rfl, by omega⟩
      · simp
  simp only [health] at h
  grind

/-! ### send-only tails (for `idle_eventually_despite_sending`) -/

/-- ops of a send-only tail: packets sent (effective or not) and `health` polls — nothing received -/
def Op.sendOrPoll : Op → Bool
  | .sent _ _ => true
  | .health _ => true
  | _ => false

def clockAfter (k : Nat) (ops : List Op) : Nat := ops.foldl clockStep k

theorem mono_append_right : ∀ {a b : List Op} {k : Nat}, Mono k (a ++ b) → Mono (clockAfter k a) b := by
  intro a
  induction a with
  | nil => intro b k h; exact h
  | cons op a ih =>
    intro b k h
    rw [List.cons_append, mono_cons] at h
    exact ih h.2

theorem clockAfter_snoc_health (k t : Nat) (a : List Op) : clockAfter k (a ++ [.health t]) = t := by
  simp [clockAfter, List.foldl_append, clockStep, Op.time]

/-- an op admissible in a tail: send or poll, and — unless the flag `sent_since_rcvd` is known to be set
(`fl = true`) — not an effective send -/
def TailOp (fl : Bool) (op : Op) : Prop := op.sendOrPoll = true ∧ (fl = true ∨ op.isEff = false)

/-- the state of a timer during a send-only tail that began after `c0 + defer` -/
def Tail (fl : Bool) (cfg0 : Cfg) (c0 : Nat) (tm : Timer) (k : Nat) : Prop :=
  tm.cfg = cfg0 ∧ (fl = true → tm.sentSinceRcvd = true) ∧ tm.lastComm = some c0 ∧ c0 + cfg0.defer < k ∧
    ∀ x, tm.idleBegin = some x → x ≤ k

theorem sent_noop {fl : Bool} {tm : Timer} (hf : fl = true → tm.sentSinceRcvd = true) (e : Bool) (x : Nat)
    (hop : TailOp fl (.sent e x)) : (step tm (.sent e x)).1 = tm := by
  cases e
  · simp [step, onSent]
  · rcases hop.2 with h | h
    · simp [step, onSent, hf h]
    · simp [Op.isEff] at h

theorem tail_step {fl : Bool} {cfg0 : Cfg} {c0 : Nat} {tm : Timer} {k : Nat} (h : Tail fl cfg0 c0 tm k)
    (op : Op) (hop : TailOp fl op) (hk : ∀ x, op.time = some x → k ≤ x) :
    Tail fl cfg0 c0 (step tm op).1 (clockStep k op) := by
  obtain ⟨h1, h2, h3, h4, h5⟩ := h
  cases op with
  | sent e x =>
    have hx := hk x rfl
    rw [sent_noop h2 e x hop]
    exact ⟨h1, h2, h3, by simp [clockStep, Op.time]; omega,
      fun y hy => by have := h5 y hy; simp [clockStep, Op.time]; omega⟩
  | health x =>
    have hx := hk x rfl
    have he : x - c0 > tm.cfg.defer := by rw [h1]; omega
    cases hi : tm.idleBegin with
    | none =>
      have : (step tm (.health x)).1 = { tm with idleBegin := some x } := by simp [step, health, h3, he, hi]
      rw [this]
      exact ⟨h1, h2, h3, by simp [clockStep, Op.time]; omega, by simp [clockStep, Op.time]⟩
    | some b =>
      have : (step tm (.health x)).1 = tm := by simp [step, health, h3, he, hi]
      rw [this]
      exact ⟨h1, h2, h3, by simp [clockStep, Op.time]; omega,
        fun y hy => by have := h5 y hy; simp [clockStep, Op.time]; omega⟩
  | rcvd e x => have := hop.1; simp [Op.sendOrPoll] at this
  | negotiate r => have := hop.1; simp [Op.sendOrPoll] at this

theorem tail_run {fl : Bool} {cfg0 : Cfg} {c0 : Nat} (ops : List Op) : ∀ {tm : Timer} {k : Nat},
    Tail fl cfg0 c0 tm k → (∀ op ∈ ops, TailOp fl op) → Mono k ops →
    Tail fl cfg0 c0 (run tm ops) (clockAfter k ops) := by
  induction ops with
  | nil => intro tm k h _ _; exact h
  | cons op ops ih =>
    intro tm k h hs hm
    rw [mono_cons] at hm
    exact ih (tail_step h op (hs op List.mem_cons_self) hm.1) (fun o ho => hs o (List.mem_cons_of_mem _ ho)) hm.2

/-- once idle has begun, a send-only tail changes nothing at all -/
theorem tail_const {fl : Bool} (tm : Timer) (c0 b : Nat) (hf : fl = true → tm.sentSinceRcvd = true)
    (hc : tm.lastComm = some c0) (hi : tm.idleBegin = some b) (ops : List Op) : ∀ (k : Nat),
    c0 + tm.cfg.defer < k → (∀ op ∈ ops, TailOp fl op) → Mono k ops → run tm ops = tm := by
  induction ops with
  | nil => intro _ _ _ _; rfl
  | cons op ops ih =>
    intro k hk hs hm
    rw [mono_cons] at hm
    have hop := hs op List.mem_cons_self
    have hstep : (step tm op).1 = tm := by
      cases op with
      | sent e x => exact sent_noop hf e x hop
      | health x =>
        have hx : k ≤ x := hm.1 x rfl
        have : x - c0 > tm.cfg.defer := by omega
        simp [step, health, hc, this, hi]
      | rcvd e x => have := hop.1; simp [Op.sendOrPoll] at this
      | negotiate r => have := hop.1; simp [Op.sendOrPoll] at this
    show run (step tm op).1 ops = tm
    rw [hstep]
    have hk' : c0 + tm.cfg.defer < clockStep k op := by
      cases op with
      | sent e x => have := hm.1 x rfl; simp [clockStep, Op.time]; omega
      | health x => have := hm.1 x rfl; simp [clockStep, Op.time]; omega
      | rcvd e x => have := hop.1; simp [Op.sendOrPoll] at this
      | negotiate r => have := hop.1; simp [Op.sendOrPoll] at this
    exact ih _ hk' (fun o ho => hs o (List.mem_cons_of_mem _ ho)) hm.2

theorem despite_core (fl : Bool) (tm : Timer) (c0 t1 t2 : Nat) (a b : List Op)
    (hf : fl = true → tm.sentSinceRcvd = true) (hc : tm.lastComm = some c0) (h0 : tm.cfg.maxIdle ≠ 0)
    (ha : ∀ op ∈ a, TailOp fl op) (hb : ∀ op ∈ b, TailOp fl op)
    (hm : Mono (c0 + tm.cfg.defer + 1) (a ++ [.health t1] ++ b ++ [.health t2]))
    (hi : ∀ x, tm.idleBegin = some x → x ≤ c0 + tm.cfg.defer + 1)
    (h2 : t1 + tm.cfg.maxIdle < t2) :
    (step (run tm (a ++ [.health t1] ++ b)) (.health t2)).2 = .timeout := by
  have hT : Tail fl tm.cfg c0 tm (c0 + tm.cfg.defer + 1) := ⟨rfl, hf, hc, by omega, hi⟩
  have hm1 : Mono (c0 + tm.cfg.defer + 1) (a ++ [.health t1]) := mono_append_left (mono_append_left hm)
  have hs1 : ∀ op ∈ a ++ [.health t1], TailOp fl op := by
    intro op ho
    rcases List.mem_append.1 ho with ho | ho
    · exact ha op ho
    · simp at ho; subst ho; exact ⟨rfl, Or.inr rfl⟩
  have hT1 := tail_run (a ++ [.health t1]) hT hs1 hm1
  rw [clockAfter_snoc_health] at hT1
  obtain ⟨g1, g2, g3, g4, g5⟩ := hT1
  have hib : ∃ x, (run tm (a ++ [.health t1])).idleBegin = some x := by
    have hTa := tail_run a hT ha (mono_append_left hm1)
    obtain ⟨q1, _, q3, q4, _⟩ := hTa
    have hk1 : clockAfter (c0 + tm.cfg.defer + 1) a ≤ t1 := by
      have := mono_append_right hm1
      simp only [Mono] at this
      exact this.1
    have he : t1 - c0 > (run tm a).cfg.defer := by rw [q1]; omega
    have : run tm (a ++ [.health t1]) = (step (run tm a) (.health t1)).1 := by simp [run, List.foldl_append]
    rw [this]
    cases hi' : (run tm a).idleBegin with
    | none => exact ⟨t1, by simp [step, health, q3, he, hi']⟩
    | some x => exact ⟨x, by simp [step, health, q3, he, hi']⟩
  obtain ⟨x, hx⟩ := hib
  have hxle := g5 x hx
  have hm2 : Mono t1 (b ++ [.health t2]) := by
    have : a ++ [.health t1] ++ b ++ [.health t2] = (a ++ [.health t1]) ++ (b ++ [.health t2]) := by simp
    rw [this] at hm
    have := mono_append_right hm
    rwa [clockAfter_snoc_health] at this
  have hconst : run (run tm (a ++ [.health t1])) b = run tm (a ++ [.health t1]) :=
    tail_const _ c0 x g2 g3 hx b t1 (by rw [g1]; exact g4) hb (mono_append_left hm2)
  have hrun : run tm (a ++ [.health t1] ++ b) = run (run tm (a ++ [.health t1])) b := by
    simp [run, List.foldl_append]
  rw [hrun, hconst]
  have hk2 : t1 ≤ t2 := by omega
  have he2 : t2 - c0 > (run tm (a ++ [.health t1])).cfg.defer := by rw [g1]; omega
  have h0' : (run tm (a ++ [.health t1])).cfg.maxIdle ≠ 0 := by rw [g1]; exact h0
  have hlt : t2 - x > (run tm (a ++ [.health t1])).cfg.maxIdle := by rw [g1]; omega
  simp [step, health, g3, he2, hx, timeoutCheck, h0', hlt]

theorem stepOld_eq_step (t : Timer) (op : Op) (h : op.isEff = false) : stepOld t op = step t op := by
  cases op with
  | sent e x => cases e <;> simp_all [stepOld, step, onSent, onSentOld, Op.isEff]
  | _ => rfl

theorem runOld_eq_run (ops : List Op) : ∀ t : Timer, (∀ op ∈ ops, op.isEff = false) → runOld t ops = run t ops := by
  induction ops with
  | nil => intro _ _; rfl
  | cons op ops ih =>
    intro t h
    show runOld (stepOld t op).1 ops = run (step t op).1 ops
    rw [stepOld_eq_step t op (h op List.mem_cons_self)]
    exact ih _ (fun o ho => h o (List.mem_cons_of_mem _ ho))


end GmQuic.Idle
