import GmQuic.Model.Recovery
/-! Helper lemmas for C13: which fields each function of `Model/Recovery.lean` can change, and the
NewReno window invariants. -/
namespace GmQuic.Recovery
open GmQuic.Gen

theorem bind_ok {α β ε : Type} {x : Except ε α} {f : α → Except ε β} {b : β} :
    (x >>= f) = .ok b ↔ ∃ a, x = .ok a ∧ f a = .ok b := by
  cases x <;> simp [bind, Except.bind]

@[simp] theorem pure_ok {α ε : Type} {a b : α} : ((pure a : Except ε α) = .ok b) ↔ a = b := by
  simp [pure, Except.pure]

/-- the congestion-relevant scalar fields: `(mds, cwnd, ssth, rs, now, bytes)` -/
def cc (s : St) : Nat × Nat × Nat × Option Nat × Nat × Nat := (s.mds, s.cwnd, s.ssth, s.rs, s.now, s.bytes)

@[simp] theorem setSp_cc (s : St) (e : Nat) (sp : Space) : cc (setSp s e sp) = cc s := by
  unfold setSp; split <;> rfl

@[simp] theorem getSp_setSp (s : St) (e : Nat) (sp : Space) : getSp (setSp s e sp) e = sp := by
  unfold setSp getSp; split <;> simp

theorem setTimer_eq {s s' : St} {a b : Nat} (h : setTimer s a b = .ok s') :
    s' = { s with timer := s'.timer } := by
  unfold setTimer at h
  split at h
  · cases h; rfl
  · split at h
    · cases h; rfl
    · split at h
      · cases h; rfl
      · cases hp : ptoTimeAndEpoch s a b with
        | error e => simp [hp, bind, Except.bind] at h
        | ok r => simp [hp, bind, Except.bind, pure, Except.pure] at h; cases h; rfl

theorem setTimer_cc {s s' : St} {a b : Nat} (h : setTimer s a b = .ok s') : cc s' = cc s := by
  rw [setTimer_eq h]; rfl

theorem setTimer_sp {s s' : St} {a b : Nat} (h : setTimer s a b = .ok s') (e : Nat) : getSp s' e = getSp s e := by
  rw [setTimer_eq h]; unfold getSp; split <;> rfl

/-! ### NewReno window: `2 * mds ≤ cwnd` -/

def WinOk (s : St) : Prop := 2 * s.mds ≤ s.cwnd

theorem onPacketAcked_mono (s : St) (p : Pkt) :
    (onPacketAcked s p).mds = s.mds ∧ s.cwnd ≤ (onPacketAcked s p).cwnd ∧ (onPacketAcked s p).now = s.now := by
  unfold onPacketAcked ackGrow ackBytes
  split
  · simp
  · split <;> split <;> (try split) <;> simp

theorem onCongestionEvent_win {s s' : St} {t : Nat} (h : onCongestionEvent s t = .ok s') (hw : WinOk s) :
    WinOk s' ∧ s'.mds = s.mds ∧ s'.now = s.now ∧ s'.cwnd ≤ s.cwnd := by
  unfold onCongestionEvent at h
  split at h
  · cases h; exact ⟨hw, rfl, rfl, Nat.le_refl _⟩
  · split at h
    · cases h
    · cases h
      unfold WinOk at *
      simp [minWindowDatagrams]
      omega

theorem onPacketsLost_win {s s' : St} {l : List Pkt} {p : Bool} (h : onPacketsLost s l p = .ok s') (hw : WinOk s) :
    WinOk s' ∧ s'.mds = s.mds ∧ s'.now = s.now ∧ s'.cwnd ≤ s.cwnd := by
  unfold onPacketsLost at h
  simp only at h
  split at h
  · cases h
  · rename_i s2 h2
    have k1 : WinOk s2 ∧ s2.mds = s.mds ∧ s2.now = s.now ∧ s2.cwnd ≤ s.cwnd := by
      split at h2
      · have := onCongestionEvent_win h2 (s := { s with bytes := (lostFold l s.bytes none).1 }) hw
        simpa using this
      · cases h2; exact ⟨hw, rfl, rfl, Nat.le_refl _⟩
    cases h
    split
    · unfold persistentCollapse WinOk at *
      simp [minWindowDatagramsPersistent, persistentShift]
      omega
    · exact k1

@[simp] theorem setSp_mds (s : St) (e : Nat) (sp : Space) : (setSp s e sp).mds = s.mds := by
  unfold setSp; split <;> rfl
@[simp] theorem setSp_cwnd (s : St) (e : Nat) (sp : Space) : (setSp s e sp).cwnd = s.cwnd := by
  unfold setSp; split <;> rfl
@[simp] theorem setSp_now (s : St) (e : Nat) (sp : Space) : (setSp s e sp).now = s.now := by
  unfold setSp; split <;> rfl
@[simp] theorem setSp_bytes (s : St) (e : Nat) (sp : Space) : (setSp s e sp).bytes = s.bytes := by
  unfold setSp; split <;> rfl
@[simp] theorem setSp_rs (s : St) (e : Nat) (sp : Space) : (setSp s e sp).rs = s.rs := by
  unfold setSp; split <;> rfl
@[simp] theorem setSp_ssth (s : St) (e : Nat) (sp : Space) : (setSp s e sp).ssth = s.ssth := by
  unfold setSp; split <;> rfl

/-- what the window theorems need of a state transition: same datagram size and clock, window still legal,
and not larger than before -/
def Shrinks (s s' : St) : Prop := WinOk s' ∧ s'.mds = s.mds ∧ s'.now = s.now ∧ s'.cwnd ≤ s.cwnd

theorem Shrinks.refl {s : St} (hw : WinOk s) : Shrinks s s := ⟨hw, rfl, rfl, Nat.le_refl _⟩

theorem Shrinks.trans {a b c : St} (h1 : Shrinks a b) (h2 : Shrinks b c) : Shrinks a c := by
  unfold Shrinks WinOk at *; omega

theorem shrinks_setSp {s : St} (e : Nat) (sp : Space) (hw : WinOk s) : Shrinks s (setSp s e sp) := by
  unfold Shrinks WinOk at *; simp; omega

theorem detectLost_win {s s' : St} {e ld : Nat} {lost : List Nat} (h : detectLost s e ld = .ok (s', lost))
    (hw : WinOk s) : Shrinks s s' := by
  unfold detectLost at h
  simp only at h
  split at h
  · cases h; exact shrinks_setSp _ _ hw
  · split at h
    · cases h
    · rename_i s2 h2
      cases h
      exact (shrinks_setSp _ _ hw).trans (onPacketsLost_win h2 (shrinks_setSp _ _ hw).1)

theorem setTimer_win {s s' : St} {a b : Nat} (h : setTimer s a b = .ok s') (hw : WinOk s) : Shrinks s s' := by
  rw [setTimer_eq h]; exact ⟨hw, rfl, rfl, Nat.le_refl _⟩

theorem ebind_ok {α β ε : Type} {x : Except ε α} {f : α → Except ε β} {b : β} :
    (x.bind f = .ok b) ↔ ∃ a, x = .ok a ∧ f a = .ok b := by
  cases x <;> simp [Except.bind]

theorem shrinks_fields {s s' : St} (hw : WinOk s) (h1 : s'.mds = s.mds) (h2 : s'.cwnd = s.cwnd)
    (h3 : s'.now = s.now) : Shrinks s s' := by
  unfold Shrinks WinOk at *; omega

theorem addNeed_win {s : St} (e : Nat) (hw : WinOk s) : Shrinks s (addNeed s e) := by
  unfold addNeed; exact shrinks_setSp _ _ hw

theorem armProbe_win {s s' : St} {i : Inp} (h : armProbe s i = .ok s') (hw : WinOk s) : Shrinks s s' := by
  unfold armProbe at h
  split at h
  · cases h; split <;> exact addNeed_win _ hw
  · simp only [ebind_ok] at h
    obtain ⟨r, _, h2⟩ := h
    split at h2
    · cases h2; exact addNeed_win _ hw
    · cases h2; exact Shrinks.refl hw

theorem onTimeout_win {s s' : St} {i : Inp} {l : List (Nat × List Nat)} (h : onTimeout s i = .ok (s', l))
    (hw : WinOk s) : Shrinks s s' := by
  unfold onTimeout at h
  split at h
  · simp only [ebind_ok] at h
    obtain ⟨r, h1, s2, h2, h3⟩ := h
    cases h3
    obtain ⟨s1, lost⟩ := r
    exact (detectLost_win h1 hw).trans (setTimer_win h2 (detectLost_win h1 hw).1)
  · simp only [ebind_ok] at h
    obtain ⟨s1, h1, s2, h2, h3⟩ := h
    cases h3
    have k1 := armProbe_win h1 hw
    have k2 : Shrinks s1 (bumpPto s1) := shrinks_fields k1.1 rfl rfl rfl
    exact k1.trans (k2.trans (setTimer_win h2 k2.1))

theorem discardReset_win {s : St} (e b : Nat) (hw : WinOk s) : Shrinks s (discardReset s e b) := by
  unfold discardReset
  apply shrinks_fields hw <;> simp

theorem discardEpoch_win {s s' : St} {e a b : Nat} (h : discardEpoch s e a b = .ok s') (hw : WinOk s) :
    Shrinks s s' := by
  unfold discardEpoch at h
  split at h
  · cases h
  · simp only [ebind_ok] at h
    obtain ⟨bytes, _, h2⟩ := h
    exact (discardReset_win e bytes hw).trans (setTimer_win h2 (discardReset_win e bytes hw).1)

theorem sentInflight_win {s : St} (ld e : Nat) (elic : Bool) (size : Nat) (hw : WinOk s) :
    Shrinks s (sentInflight s ld e elic size) := by
  unfold sentInflight
  apply shrinks_fields hw <;> simp

theorem pushPkt_win {s : St} (e : Nat) (p : Pkt) (hw : WinOk s) : Shrinks s (pushPkt s e p) := by
  unfold pushPkt; exact shrinks_setSp _ _ hw

theorem onPktSent_win {s s' : St} {i : Inp} {e pn : Nat} {elic infl : Bool} {size : Nat}
    (h : onPktSent s i e pn elic infl size = .ok s') (hw : WinOk s) : Shrinks s s' := by
  unfold onPktSent at h
  simp only [ebind_ok] at h
  obtain ⟨s1, h1, h2⟩ := h
  have k1 : Shrinks s s1 := by
    split at h1
    · exact (sentInflight_win _ _ _ _ hw).trans (setTimer_win h1 (sentInflight_win _ _ _ _ hw).1)
    · cases h1; exact Shrinks.refl hw
  have k2 := pushPkt_win e { pn := pn, ts := s.now, elic := elic, cc := infl, size := size, st := PSt.I } k1.1
  split at h2
  · exact k1.trans (k2.trans (discardEpoch_win h2 k2.1))
  · cases h2; exact k1.trans k2

theorem doTick_win {s s' : St} {i : Inp} {l : List (Nat × List Nat)} {t : Option Nat}
    (h : doTick s i = .ok (s', l, t)) (hw : WinOk s) : Shrinks s s' := by
  unfold doTick at h
  split at h
  · split at h
    · simp only [ebind_ok] at h
      obtain ⟨r, h1, h2⟩ := h
      cases h2
      obtain ⟨s1, l1⟩ := r
      exact onTimeout_win h1 hw
    · cases h; exact Shrinks.refl hw
  · cases h; exact Shrinks.refl hw

theorem onDatagramRcvd_win {s s' : St} {i : Inp} {l : List (Nat × List Nat)}
    (h : onDatagramRcvd s i = .ok (s', l)) (hw : WinOk s) : Shrinks s s' := by
  unfold onDatagramRcvd at h
  split at h
  · simp only [ebind_ok] at h
    obtain ⟨s1, h1, h2⟩ := h
    have k1 := setTimer_win h1 hw
    split at h2
    · split at h2
      · exact k1.trans (onTimeout_win h2 k1.1)
      · cases h2; exact k1
    · cases h2; exact k1
  · cases h; exact Shrinks.refl hw

/-! ### acknowledgements may grow the window -/

/-- same datagram size and clock, window still legal -/
def Keeps (s s' : St) : Prop := WinOk s' ∧ s'.mds = s.mds ∧ s'.now = s.now

theorem Shrinks.keeps {s s' : St} (h : Shrinks s s') : Keeps s s' := ⟨h.1, h.2.1, h.2.2.1⟩

theorem Keeps.trans {a b c : St} (h1 : Keeps a b) (h2 : Keeps b c) : Keeps a c := by
  unfold Keeps WinOk at *; omega

theorem ackWalk_keeps (f : Nat → Bool) (l : List Pkt) (s : St) (a : AckAcc) (hw : WinOk s) :
    Keeps s (ackWalk f l s a).2.1 := by
  induction l with
  | nil => exact ⟨hw, rfl, rfl⟩
  | cons p ps ih =>
    unfold ackWalk
    generalize (ackWalk f ps s a) = w at *
    obtain ⟨ps', x, a'⟩ := w
    simp only at ih ⊢
    split
    · have := onPacketAcked_mono x p
      unfold Keeps WinOk at *
      simp only
      omega
    · exact ih

theorem spaceOnAck_keeps {s : St} (e : Nat) (a : Ack) (hw : WinOk s) : Keeps s (spaceOnAck s e a).1 := by
  unfold spaceOnAck
  simp only
  have k := ackWalk_keeps (inRanges a.ranges) (getSp s e).sent s {} hw
  exact k.trans (shrinks_setSp _ _ k.1).keeps

theorem ackPost_win {i : Inp} {e : Nat} {s s' : St} {l l' : List (Nat × List Nat)}
    (h : ackPost i e s l = .ok (s', l')) (hw : WinOk s) : Shrinks s s' := by
  unfold ackPost at h
  split at h
  · simp only [ebind_ok] at h
    obtain ⟨s1, h1, h2⟩ := h
    cases h2
    exact discardEpoch_win h1 hw
  · cases h; exact Shrinks.refl hw

theorem processEcn_win {s s' : St} {e : Nat} {ce : Option Nat} {t : Nat} (h : processEcn s e ce t = .ok s')
    (hw : WinOk s) : Shrinks s s' := by
  unfold processEcn at h
  split at h
  · simp only at h
    split at h
    · exact (shrinks_setSp _ _ hw).trans (onCongestionEvent_win h (shrinks_setSp _ _ hw).1)
    · cases h; exact Shrinks.refl hw
  · cases h; exact Shrinks.refl hw

theorem resetPto_win {s : St} (hw : WinOk s) : Shrinks s (resetPto s) := by
  unfold resetPto; split
  · exact shrinks_fields hw rfl rfl rfl
  · exact Shrinks.refl hw

theorem updLargest_win {s : St} (e n : Nat) (hw : WinOk s) : Shrinks s (updLargest s e n) := by
  unfold updLargest; exact shrinks_setSp _ _ hw

theorem onAckRcvd_keeps {s s' : St} {i : Inp} {e : Nat} {a : Ack} {l : List (Nat × List Nat)}
    (h : onAckRcvd s i e a = .ok (s', l)) (hw : WinOk s) : Keeps s s' := by
  unfold onAckRcvd at h
  simp only at h
  have k0 := updLargest_win e a.largest hw
  split at h
  · exact (k0.trans (ackPost_win h k0.1)).keeps
  · have k1 := spaceOnAck_keeps e a k0.1
    split at h
    · exact k0.keeps.trans (k1.trans (ackPost_win h k1.1).keeps)
    · simp only [ebind_ok] at h
      obtain ⟨s1, h1, d, h2, s2, h3, h4⟩ := h
      obtain ⟨d1, d2⟩ := d
      have k2 := processEcn_win h1 k1.1
      have k3 := detectLost_win h2 k2.1
      have k4 := resetPto_win k3.1
      have k5 := setTimer_win h3 k4.1
      have k6 := ackPost_win h4 k5.1
      exact k0.keeps.trans (k1.trans (k2.trans (k3.trans (k4.trans (k5.trans k6)))).keeps)
