import GmQuic.Model.Recovery
/-! Helper lemmas for C13: which fields each function of `Model/Recovery.lean` can change, and the
NewReno window invariants. -/
namespace GmQuic.Recovery
open GmQuic.Gen

theorem bind_ok {α β ε : Type} {x : Except ε α} {f : α → Except ε β} {b : β} :
    (x >>= f) = .ok b ↔ ∃ a, x = .ok a ∧ f a = .ok b := by
  cases x <;> simp [bind, Except.bind]

@[simp] theorem pure_ok {α ε : Type} {a b : α} : ((pure a : Except ε α) = .ok b) ↔ a = b := by
  simp [pure, Except.pure]

/-- the congestion-relevant scalar fields: `(mds, cwnd, ssth, rs, now, bytes)` -/
def cc (s : St) : Nat × Nat × Nat × Option Nat × Nat × Nat := (s.mds, s.cwnd, s.ssth, s.rs, s.now, s.bytes)

@[simp] theorem setSp_cc (s : St) (e : Nat) (sp : Space) : cc (setSp s e sp) = cc s := by
  unfold setSp; split <;> rfl

@[simp] theorem getSp_setSp (s : St) (e : Nat) (sp : Space) : getSp (setSp s e sp) e = sp := by
  unfold setSp getSp; split <;> simp

theorem setTimer_eq {s s' : St} {a b : Nat} (h : setTimer s a b = .ok s') :
    s' = { s with timer := s'.timer } := by
  unfold setTimer at h
  split at h
  · cases h; rfl
  · split at h
    · cases h; rfl
    · split at h
      · cases h; rfl
      · cases hp : ptoTimeAndEpoch s a b with
        | error e => simp [hp, bind, Except.bind] at h
        | ok r => simp [hp, bind, Except.bind, pure, Except.pure] at h; cases h; rfl

theorem setTimer_cc {s s' : St} {a b : Nat} (h : setTimer s a b = .ok s') : cc s' = cc s := by
  rw [setTimer_eq h]; rfl

theorem setTimer_sp {s s' : St} {a b : Nat} (h : setTimer s a b = .ok s') (e : Nat) : getSp s' e = getSp s e := by
  rw [setTimer_eq h]; unfold getSp; split <;> rfl

/-! ### NewReno window: `2 * mds ≤ cwnd` -/

def WinOk (s : St) : Prop := 2 * s.mds ≤ s.cwnd

theorem onPacketAcked_mono (s : St) (p : Pkt) :
    (onPacketAcked s p).mds = s.mds ∧ s.cwnd ≤ (onPacketAcked s p).cwnd ∧ (onPacketAcked s p).now = s.now := by
  unfold onPacketAcked ackGrow ackBytes
  split
  · simp
  · split <;> split <;> (try split) <;> simp

theorem onCongestionEvent_win {s s' : St} {t : Nat} (h : onCongestionEvent s t = .ok s') (hw : WinOk s) :
    WinOk s' ∧ s'.mds = s.mds ∧ s'.now = s.now ∧ s'.cwnd ≤ s.cwnd := by
  unfold onCongestionEvent at h
  split at h
  · cases h; exact ⟨hw, rfl, rfl, Nat.le_refl _⟩
  · split at h
    · cases h
    · cases h
      unfold WinOk at *
      simp [minWindowDatagrams]
      omega

theorem onPacketsLost_win {s s' : St} {l : List Pkt} {p : Bool} (h : onPacketsLost s l p = .ok s') (hw : WinOk s) :
    WinOk s' ∧ s'.mds = s.mds ∧ s'.now = s.now ∧ s'.cwnd ≤ s.cwnd := by
  unfold onPacketsLost at h
  simp only at h
  split at h
  · cases h
  · rename_i s2 h2
    have k1 : WinOk s2 ∧ s2.mds = s.mds ∧ s2.now = s.now ∧ s2.cwnd ≤ s.cwnd := by
      split at h2
      · have := onCongestionEvent_win h2 (s := { s with bytes := (lostFold l s.bytes none).1 }) hw
        simpa using this
      · cases h2; exact ⟨hw, rfl, rfl, Nat.le_refl _⟩
    cases h
    split
    · unfold persistentCollapse WinOk at *
      simp [minWindowDatagramsPersistent, persistentShift]
      omega
    · exact k1

@[simp] theorem setSp_mds (s : St) (e : Nat) (sp : Space) : (setSp s e sp).mds = s.mds := by
  unfold setSp; split <;> rfl
@[simp] theorem setSp_cwnd (s : St) (e : Nat) (sp : Space) : (setSp s e sp).cwnd = s.cwnd := by
  unfold setSp; split <;> rfl
@[simp] theorem setSp_now (s : St) (e : Nat) (sp : Space) : (setSp s e sp).now = s.now := by
  unfold setSp; split <;> rfl
@[simp] theorem setSp_bytes (s : St) (e : Nat) (sp : Space) : (setSp s e sp).bytes = s.bytes := by
  unfold setSp; split <;> rfl
@[simp] theorem setSp_rs (s : St) (e : Nat) (sp : Space) : (setSp s e sp).rs = s.rs := by
  unfold setSp; split <;> rfl
@[simp] theorem setSp_ssth (s : St) (e : Nat) (sp : Space) : (setSp s e sp).ssth = s.ssth := by
  unfold setSp; split <;> rfl

/-- what the window theorems need of a state transition: same datagram size and clock, window still legal,
and not larger than before -/
def Shrinks (s s' : St) : Prop := WinOk s' ∧ s'.mds = s.mds ∧ s'.now = s.now ∧ s'.cwnd ≤ s.cwnd

theorem Shrinks.refl {s : St} (hw : WinOk s) : Shrinks s s := ⟨hw, rfl, rfl, Nat.le_refl _⟩

theorem Shrinks.trans {a b c : St} (h1 : Shrinks a b) (h2 : Shrinks b c) : Shrinks a c := by
  unfold Shrinks WinOk at *; omega

theorem shrinks_setSp {s : St} (e : Nat) (sp : Space) (hw : WinOk s) : Shrinks s (setSp s e sp) := by
  unfold Shrinks WinOk at *; simp; omega

theorem detectLost_win {s s' : St} {e ld : Nat} {lost : List Nat} (h : detectLost s e ld = .ok (s', lost))
    (hw : WinOk s) : Shrinks s s' := by
  unfold detectLost at h
  simp only at h
  split at h
  · cases h; exact shrinks_setSp _ _ hw
  · split at h
    · cases h
    · rename_i s2 h2
      cases h
      exact (shrinks_setSp _ _ hw).trans (onPacketsLost_win h2 (shrinks_setSp _ _ hw).1)

theorem setTimer_win {s s' : St} {a b : Nat} (h : setTimer s a b = .ok s') (hw : WinOk s) : Shrinks s s' := by
  rw [setTimer_eq h]; exact ⟨hw, rfl, rfl, Nat.le_refl _⟩

theorem ebind_ok {α β ε : Type} {x : Except ε α} {f : α → Except ε β} {b : β} :
    (x.bind f = .ok b) ↔ ∃ a, x = .ok a ∧ f a = .ok b := by
  cases x <;> simp [Except.bind]

theorem shrinks_fields {s s' : St} (hw : WinOk s) (h1 : s'.mds = s.mds) (h2 : s'.cwnd = s.cwnd)
    (h3 : s'.now = s.now) : Shrinks s s' := by
  unfold Shrinks WinOk at *; omega

theorem addNeed_win {s : St} (e : Nat) (hw : WinOk s) : Shrinks s (addNeed s e) := by
  unfold addNeed; exact shrinks_setSp _ _ hw

theorem armProbe_win {s s' : St} {i : Inp} (h : armProbe s i = .ok s') (hw : WinOk s) : Shrinks s s' := by
  unfold armProbe at h
  split at h
  · cases h; split <;> exact addNeed_win _ hw
  · simp only [ebind_ok] at h
    obtain ⟨r, _, h2⟩ := h
    split at h2
    · cases h2; exact addNeed_win _ hw
    · cases h2; exact Shrinks.refl hw

theorem onTimeout_win {s s' : St} {i : Inp} {l : List (Nat × List Nat)} (h : onTimeout s i = .ok (s', l))
    (hw : WinOk s) : Shrinks s s' := by
  unfold onTimeout at h
  split at h
  · simp only [ebind_ok] at h
    obtain ⟨r, h1, s2, h2, h3⟩ := h
    cases h3
    obtain ⟨s1, lost⟩ := r
    exact (detectLost_win h1 hw).trans (setTimer_win h2 (detectLost_win h1 hw).1)
  · simp only [ebind_ok] at h
    obtain ⟨s1, h1, s2, h2, h3⟩ := h
    cases h3
    have k1 := armProbe_win h1 hw
    have k2 : Shrinks s1 (bumpPto s1) := shrinks_fields k1.1 rfl rfl rfl
    exact k1.trans (k2.trans (setTimer_win h2 k2.1))

theorem discardReset_win {s : St} (e b : Nat) (hw : WinOk s) : Shrinks s (discardReset s e b) := by
  unfold discardReset markDiscarded
  simp only
  split
  · apply shrinks_fields hw <;> simp
  · split <;> (apply shrinks_fields hw <;> simp)

theorem discardEpoch_win {s s' : St} {e a b : Nat} (h : discardEpoch s e a b = .ok s') (hw : WinOk s) :
    Shrinks s s' := by
  unfold discardEpoch at h
  split at h
  · cases h
  · simp only [ebind_ok] at h
    obtain ⟨bytes, _, h2⟩ := h
    exact (discardReset_win e bytes hw).trans (setTimer_win h2 (discardReset_win e bytes hw).1)

theorem sentInflight_win {s : St} (ld e : Nat) (elic : Bool) (size : Nat) (hw : WinOk s) :
    Shrinks s (sentInflight s ld e elic size) := by
  unfold sentInflight
  apply shrinks_fields hw <;> simp

theorem pushPkt_win {s : St} (e : Nat) (p : Pkt) (hw : WinOk s) : Shrinks s (pushPkt s e p) := by
  unfold pushPkt; exact shrinks_setSp _ _ hw

theorem onPktSent_win {s s' : St} {i : Inp} {e pn : Nat} {elic infl : Bool} {size : Nat}
    (h : onPktSent s i e pn elic infl size = .ok s') (hw : WinOk s) : Shrinks s s' := by
  unfold onPktSent at h
  simp only [ebind_ok] at h
  obtain ⟨s1, h1, h2⟩ := h
  have k1 : Shrinks s s1 := by
    split at h1
    · exact (sentInflight_win _ _ _ _ hw).trans (setTimer_win h1 (sentInflight_win _ _ _ _ hw).1)
    · cases h1; exact Shrinks.refl hw
  have k2 := pushPkt_win e { pn := pn, ts := s.now, elic := elic, cc := infl, size := size, st := PSt.I } k1.1
  split at h2
  · exact k1.trans (k2.trans (discardEpoch_win h2 k2.1))
  · cases h2; exact k1.trans k2

theorem doTick_win {s s' : St} {i : Inp} {l : List (Nat × List Nat)} {t : Option Nat}
    (h : doTick s i = .ok (s', l, t)) (hw : WinOk s) : Shrinks s s' := by
  unfold doTick at h
  split at h
  · split at h
    · simp only [ebind_ok] at h
      obtain ⟨r, h1, h2⟩ := h
      cases h2
      obtain ⟨s1, l1⟩ := r
      exact onTimeout_win h1 hw
    · cases h; exact Shrinks.refl hw
  · cases h; exact Shrinks.refl hw

theorem onDatagramRcvd_win {s s' : St} {i : Inp} {l : List (Nat × List Nat)}
    (h : onDatagramRcvd s i = .ok (s', l)) (hw : WinOk s) : Shrinks s s' := by
  unfold onDatagramRcvd at h
  split at h
  · simp only [ebind_ok] at h
    obtain ⟨s1, h1, h2⟩ := h
    have k1 := setTimer_win h1 hw
    split at h2
    · split at h2
      · exact k1.trans (onTimeout_win h2 k1.1)
      · cases h2; exact k1
    · cases h2; exact k1
  · cases h; exact Shrinks.refl hw

/-! ### acknowledgements may grow the window -/

/-- same datagram size and clock, window still legal -/
def Keeps (s s' : St) : Prop := WinOk s' ∧ s'.mds = s.mds ∧ s'.now = s.now

theorem Shrinks.keeps {s s' : St} (h : Shrinks s s') : Keeps s s' := ⟨h.1, h.2.1, h.2.2.1⟩

theorem Keeps.trans {a b c : St} (h1 : Keeps a b) (h2 : Keeps b c) : Keeps a c := by
  unfold Keeps WinOk at *; omega

theorem ackWalk_keeps (f : Nat → Bool) (l : List Pkt) (s : St) (a : AckAcc) (hw : WinOk s) :
    Keeps s (ackWalk f l s a).2.1 := by
  induction l with
  | nil => exact ⟨hw, rfl, rfl⟩
  | cons p ps ih =>
    unfold ackWalk
    generalize (ackWalk f ps s a) = w at *
    obtain ⟨ps', x, a'⟩ := w
    simp only at ih ⊢
    split
    · have := onPacketAcked_mono x p
      unfold Keeps WinOk at *
      simp only
      omega
    · exact ih

theorem spaceOnAck_keeps {s : St} (e : Nat) (a : Ack) (hw : WinOk s) : Keeps s (spaceOnAck s e a).1 := by
  unfold spaceOnAck
  simp only
  have k := ackWalk_keeps (inRanges a.ranges) (getSp s e).sent s {} hw
  exact k.trans (shrinks_setSp _ _ k.1).keeps

theorem ackPost_win {i : Inp} {e : Nat} {s s' : St} {l l' : List (Nat × List Nat)}
    (h : ackPost i e s l = .ok (s', l')) (hw : WinOk s) : Shrinks s s' := by
  unfold ackPost at h
  split at h
  · simp only [ebind_ok] at h
    obtain ⟨s1, h1, h2⟩ := h
    cases h2
    exact discardEpoch_win h1 hw
  · cases h; exact Shrinks.refl hw

theorem processEcn_win {s s' : St} {e : Nat} {ce : Option Nat} {t : Nat} (h : processEcn s e ce t = .ok s')
    (hw : WinOk s) : Shrinks s s' := by
  unfold processEcn at h
  split at h
  · simp only at h
    split at h
    · exact (shrinks_setSp _ _ hw).trans (onCongestionEvent_win h (shrinks_setSp _ _ hw).1)
    · cases h; exact Shrinks.refl hw
  · cases h; exact Shrinks.refl hw

theorem resetPto_win {s : St} (hw : WinOk s) : Shrinks s (resetPto s) := by
  unfold resetPto; split
  · exact shrinks_fields hw rfl rfl rfl
  · exact Shrinks.refl hw

theorem updLargest_win {s : St} (e n : Nat) (hw : WinOk s) : Shrinks s (updLargest s e n) := by
  unfold updLargest; exact shrinks_setSp _ _ hw

theorem onAckRcvd_keeps {s s' : St} {i : Inp} {e : Nat} {a : Ack} {l : List (Nat × List Nat)}
    (h : onAckRcvd s i e a = .ok (s', l)) (hw : WinOk s) : Keeps s s' := by
  unfold onAckRcvd at h
  simp only at h
  have k0 := updLargest_win e a.largest hw
  split at h
  · exact (k0.trans (ackPost_win h k0.1)).keeps
  · have k1 := spaceOnAck_keeps e a k0.1
    split at h
    · exact k0.keeps.trans (k1.trans (ackPost_win h k1.1).keeps)
    · simp only [ebind_ok] at h
      obtain ⟨s1, h1, d, h2, s2, h3, h4⟩ := h
      obtain ⟨d1, d2⟩ := d
      have k2 := processEcn_win h1 k1.1
      have k3 := detectLost_win h2 k2.1
      have k4 := resetPto_win k3.1
      have k5 := setTimer_win h3 k4.1
      have k6 := ackPost_win h4 k5.1
      exact k0.keeps.trans (k1.trans (k2.trans (k3.trans (k4.trans (k5.trans k6)))).keeps)

/-! ### `step` -/

theorem step_keeps {s s' : St} {i : Inp} {op : Op} {o : Out} (h : step s i op = .ok (s', o)) (hw : WinOk s) :
    WinOk s' ∧ s'.mds = s.mds := by
  cases op with
  | sent e pn elic infl size =>
    simp only [step, ebind_ok] at h
    obtain ⟨r, h1, h2⟩ := h; cases h2
    exact ⟨(onPktSent_win h1 hw).1, (onPktSent_win h1 hw).2.1⟩
  | ack e a =>
    simp only [step, ebind_ok] at h
    obtain ⟨r, h1, h2⟩ := h; cases h2
    obtain ⟨r1, r2⟩ := r
    exact ⟨(onAckRcvd_keeps h1 hw).1, (onAckRcvd_keeps h1 hw).2.1⟩
  | tick dt =>
    simp only [step, ebind_ok] at h
    obtain ⟨r, h1, h2⟩ := h; cases h2
    obtain ⟨r1, r2, r3⟩ := r
    have k := doTick_win h1 (s := advance s dt) hw
    exact ⟨k.1, k.2.1⟩
  | rcvd =>
    simp only [step, ebind_ok] at h
    obtain ⟨r, h1, h2⟩ := h; cases h2
    obtain ⟨r1, r2⟩ := r
    exact ⟨(onDatagramRcvd_win h1 hw).1, (onDatagramRcvd_win h1 hw).2.1⟩
  | discard e =>
    simp only [step, ebind_ok] at h
    obtain ⟨r, h1, h2⟩ := h; cases h2
    exact ⟨(discardEpoch_win h1 hw).1, (discardEpoch_win h1 hw).2.1⟩
  | hskey => simp only [step] at h; cases h; exact ⟨hw, rfl⟩
  | hsack => simp only [step] at h; cases h; exact ⟨hw, rfl⟩
  | confirmed => simp only [step] at h; cases h; exact ⟨hw, rfl⟩
  | grant => simp only [step] at h; cases h; exact ⟨hw, rfl⟩
  | limit => simp only [step] at h; cases h; exact ⟨hw, rfl⟩

/-- every operation other than an acknowledgement leaves the window where it is or shrinks it -/
theorem step_nonack_le {s s' : St} {i : Inp} {op : Op} {o : Out} (h : step s i op = .ok (s', o)) (hw : WinOk s)
    (hop : ∀ e a, op ≠ .ack e a) : s'.cwnd ≤ s.cwnd := by
  cases op with
  | sent e pn elic infl size =>
    simp only [step, ebind_ok] at h
    obtain ⟨r, h1, h2⟩ := h; cases h2
    exact (onPktSent_win h1 hw).2.2.2
  | ack e a => exact absurd rfl (hop e a)
  | tick dt =>
    simp only [step, ebind_ok] at h
    obtain ⟨r, h1, h2⟩ := h; cases h2
    obtain ⟨r1, r2, r3⟩ := r
    exact (doTick_win h1 (s := advance s dt) hw).2.2.2
  | rcvd =>
    simp only [step, ebind_ok] at h
    obtain ⟨r, h1, h2⟩ := h; cases h2
    obtain ⟨r1, r2⟩ := r
    exact (onDatagramRcvd_win h1 hw).2.2.2
  | discard e =>
    simp only [step, ebind_ok] at h
    obtain ⟨r, h1, h2⟩ := h; cases h2
    exact (discardEpoch_win h1 hw).2.2.2
  | hskey => simp only [step] at h; cases h; exact Nat.le_refl _
  | hsack => simp only [step] at h; cases h; exact Nat.le_refl _
  | confirmed => simp only [step] at h; cases h; exact Nat.le_refl _
  | grant => simp only [step] at h; cases h; exact Nat.le_refl _
  | limit => simp only [step] at h; cases h; exact Nat.le_refl _

theorem run_keeps {h : List (Inp × Op)} : ∀ {s s' : St}, run s h = .ok s' → WinOk s → WinOk s' ∧ s'.mds = s.mds := by
  induction h with
  | nil => intro s s' hr hw; simp only [run] at hr; cases hr; exact ⟨hw, rfl⟩
  | cons x rest ih =>
    intro s s' hr hw
    obtain ⟨i, op⟩ := x
    simp only [run, ebind_ok] at hr
    obtain ⟨r, h1, h2⟩ := hr
    obtain ⟨s1, o⟩ := r
    have k := step_keeps h1 hw
    have k2 := ih h2 k.1
    exact ⟨k2.1, k2.2.trans k.2⟩

theorem initSt_win {server : Bool} {mtu mad : Nat} {s : St} (h : initSt server mtu mad = .ok s) :
    WinOk s ∧ s.mds = mtu := by
  unfold initSt at h
  split at h
  · cases h
  · split at h
    · cases h
    · cases h
      unfold WinOk
      simp [initWindowDatagrams, initWindowMinDatagrams, initWindowBytes]
      omega

/-! ### growth happens only through `ackGrow` outside recovery -/

theorem onCongestionEvent_in_recovery {s : St} {t : Nat} (h : inRecovery s t = true) :
    onCongestionEvent s t = .ok s := by
  unfold onCongestionEvent; simp [h]

theorem onPacketAcked_rs (s : St) (p : Pkt) : (onPacketAcked s p).rs = s.rs := by
  unfold onPacketAcked ackGrow ackBytes
  split
  · rfl
  · split <;> split <;> (try split) <;> rfl

theorem onPacketAcked_grows {s : St} {p : Pkt} (h : s.cwnd < (onPacketAcked s p).cwnd) :
    p.cc = true ∧ inRecovery s p.ts = false := by
  unfold onPacketAcked at h
  split at h
  · omega
  · rename_i hc
    refine ⟨by simpa using hc, ?_⟩
    unfold ackGrow at h
    have hrs : (ackBytes s p).rs = s.rs := by
      unfold ackBytes; split <;> rfl
    have hr : inRecovery (ackBytes s p) p.ts = inRecovery s p.ts := by
      unfold inRecovery; rw [hrs]
    have hcw : (ackBytes s p).cwnd = s.cwnd := by
      unfold ackBytes; split <;> rfl
    split at h
    · omega
    · rename_i hn
      rw [hr] at hn
      simpa using hn

theorem ackWalk_rs (f : Nat → Bool) (l : List Pkt) (s : St) (a : AckAcc) : (ackWalk f l s a).2.1.rs = s.rs := by
  induction l with
  | nil => rfl
  | cons p ps ih =>
    unfold ackWalk
    generalize (ackWalk f ps s a) = w at *
    obtain ⟨ps', x, a'⟩ := w
    simp only at ih ⊢
    split
    · simp only; rw [onPacketAcked_rs]; exact ih
    · exact ih

theorem ackWalk_grows (f : Nat → Bool) (l : List Pkt) (s : St) (a : AckAcc)
    (h : s.cwnd < (ackWalk f l s a).2.1.cwnd) :
    ∃ p ∈ l, f p.pn = true ∧ p.st ≠ PSt.A ∧ p.cc = true ∧ inRecovery s p.ts = false := by
  induction l with
  | nil => simp [ackWalk] at h
  | cons p ps ih =>
    have hrs := ackWalk_rs f ps s a
    unfold ackWalk at h
    generalize (ackWalk f ps s a) = w at *
    obtain ⟨ps', x, a'⟩ := w
    simp only at ih h hrs
    split at h
    · rename_i hc
      simp only at h
      by_cases hx : s.cwnd < x.cwnd
      · obtain ⟨q, hq, hq2⟩ := ih hx
        exact ⟨q, List.mem_cons_of_mem _ hq, hq2⟩
      · have hg : x.cwnd < (onPacketAcked x p).cwnd := by omega
        have k := onPacketAcked_grows hg
        have hr : inRecovery x p.ts = inRecovery s p.ts := by unfold inRecovery; rw [hrs]
        simp only [Bool.and_eq_true, bne_iff_ne, ne_eq] at hc
        exact ⟨p, List.mem_cons_self, hc.1, hc.2, k.1, hr ▸ k.2⟩
    · obtain ⟨q, hq, hq2⟩ := ih h
      exact ⟨q, List.mem_cons_of_mem _ hq, hq2⟩

theorem updLargest_sent (s : St) (e n : Nat) : (getSp (updLargest s e n) e).sent = (getSp s e).sent := by
  unfold updLargest; simp

theorem updLargest_rs (s : St) (e n : Nat) : (updLargest s e n).rs = s.rs := by
  unfold updLargest; simp

theorem updLargest_cwnd (s : St) (e n : Nat) : (updLargest s e n).cwnd = s.cwnd := by
  unfold updLargest; simp

theorem onAckRcvd_grows {s s' : St} {i : Inp} {e : Nat} {a : Ack} {l : List (Nat × List Nat)}
    (h : onAckRcvd s i e a = .ok (s', l)) (hw : WinOk s) (hg : s.cwnd < s'.cwnd) :
    ∃ p ∈ (getSp s e).sent, inRanges a.ranges p.pn = true ∧ p.st ≠ PSt.A ∧ p.cc = true ∧
      inRecovery s p.ts = false := by
  unfold onAckRcvd at h
  simp only at h
  have k0 := updLargest_win e a.largest hw
  have hc0 := updLargest_cwnd s e a.largest
  split at h
  · have := (ackPost_win h k0.1).2.2.2; omega
  · -- the window after the walk bounds everything that follows
    have hwalk : s'.cwnd ≤ (spaceOnAck (updLargest s e a.largest) e a).1.cwnd := by
      have k1 := spaceOnAck_keeps e a k0.1
      split at h
      · exact (ackPost_win h k1.1).2.2.2
      · simp only [ebind_ok] at h
        obtain ⟨s1, h1, d, h2, s2, h3, h4⟩ := h
        obtain ⟨d1, d2⟩ := d
        have k2 := processEcn_win h1 k1.1
        have k3 := detectLost_win h2 k2.1
        have k4 := resetPto_win k3.1
        have k5 := setTimer_win h3 k4.1
        have k6 := ackPost_win h4 k5.1
        exact (k2.trans (k3.trans (k4.trans (k5.trans k6)))).2.2.2
    have hsp : (spaceOnAck (updLargest s e a.largest) e a).1.cwnd =
        (ackWalk (inRanges a.ranges) (getSp (updLargest s e a.largest) e).sent (updLargest s e a.largest) {}).2.1.cwnd := by
      unfold spaceOnAck; simp
    have hgw : (updLargest s e a.largest).cwnd <
        (ackWalk (inRanges a.ranges) (getSp (updLargest s e a.largest) e).sent (updLargest s e a.largest) {}).2.1.cwnd := by
      omega
    obtain ⟨p, hp, h1, h2, h3, h4⟩ := ackWalk_grows _ _ _ _ hgw
    rw [updLargest_sent] at hp
    refine ⟨p, hp, h1, h2, h3, ?_⟩
    unfold inRecovery at h4 ⊢
    rw [updLargest_rs] at h4
    exact h4

/-! ### loss detection marks only in-flight packets, by one of the two thresholds -/

theorem lossWalk_lost (T ld L : Nat) (l : List Pkt) : ∀ (k : Nat) (lt : Option Nat),
    ∀ x ∈ (lossWalk T ld L l k lt).2.1, ∃ p ∈ l, p.st = PSt.I ∧ x.2 = { p with st := PSt.R } ∧
      (p.ts < T ∨ x.1 + packetThreshold ≤ L) := by
  induction l with
  | nil => intro k lt x hx; simp [lossWalk] at hx
  | cons p ps ih =>
    intro k lt x hx
    unfold lossWalk at hx
    split at hx
    · rename_i hI
      split at hx
      · rename_i hc
        have ih' := ih (k + 1) lt
        generalize (lossWalk T ld L ps (k + 1) lt) = w at *
        obtain ⟨ps', lost, lt'⟩ := w
        simp only [List.mem_cons] at hx
        rcases hx with hx | hx
        · subst hx
          refine ⟨p, List.mem_cons_self, by simpa using hI, rfl, ?_⟩
          simp only [Bool.or_eq_true, decide_eq_true_eq] at hc
          rcases hc with hc | hc
          · exact Or.inl hc
          · exact Or.inr hc
        · obtain ⟨q, hq, hq2⟩ := ih' x hx
          exact ⟨q, List.mem_cons_of_mem _ hq, hq2⟩
      · simp only at hx
        obtain ⟨q, hq, hq2⟩ := ih _ _ x hx
        exact ⟨q, List.mem_cons_of_mem _ hq, hq2⟩
    · have ih' := ih (k + 1) lt
      generalize (lossWalk T ld L ps (k + 1) lt) = w at *
      obtain ⟨ps', lost, lt'⟩ := w
      obtain ⟨q, hq, hq2⟩ := ih' x hx
      exact ⟨q, List.mem_cons_of_mem _ hq, hq2⟩

theorem lossWalk_keeps (T ld L : Nat) (l : List Pkt) : ∀ (k : Nat) (lt : Option Nat) (q : Pkt),
    q ∈ l → q.st ≠ PSt.I → q ∈ (lossWalk T ld L l k lt).1 := by
  induction l with
  | nil => intro k lt q hq; simp at hq
  | cons p ps ih =>
    intro k lt q hq hst
    unfold lossWalk
    simp only [List.mem_cons] at hq
    split
    · rename_i hI
      have hpq : q ≠ p := by
        intro h; subst h; exact hst (by simpa using hI)
      have hq' : q ∈ ps := by rcases hq with h | h; exact absurd h hpq; exact h
      split
      · have ih' := ih (k + 1) lt q hq' hst
        generalize (lossWalk T ld L ps (k + 1) lt) = w at *
        obtain ⟨ps', lost, lt'⟩ := w
        exact List.mem_cons_of_mem _ ih'
      · simp only
        exact List.mem_cons_of_mem _ (ih _ _ q hq' hst)
    · rcases hq with h | h
      · subst h
        generalize (lossWalk T ld L ps (k + 1) lt) = w
        obtain ⟨ps', lost, lt'⟩ := w
        exact List.mem_cons_self
      · have ih' := ih (k + 1) lt q h hst
        generalize (lossWalk T ld L ps (k + 1) lt) = w at *
        obtain ⟨ps', lost, lt'⟩ := w
        exact List.mem_cons_of_mem _ ih'

/-! ### one reduction per recovery period (without the persistent-loss branch) -/

theorem lostFold_le (r : Nat) (l : List Pkt) : ∀ (b : Nat) (t0 : Option Nat),
    (∀ p ∈ l, p.cc = true → p.ts ≤ r) → (∀ t, t0 = some t → t ≤ r) →
    ∀ t, (lostFold l b t0).2 = some t → t ≤ r := by
  induction l with
  | nil => intro b t0 _ h0 t ht; simp only [lostFold] at ht; exact h0 t ht
  | cons p ps ih =>
    intro b t0 hl h0 t ht
    unfold lostFold at ht
    have hps : ∀ q ∈ ps, q.cc = true → q.ts ≤ r := fun q hq => hl q (List.mem_cons_of_mem _ hq)
    split at ht
    · rename_i hc
      have hp := hl p List.mem_cons_self hc
      refine ih _ _ hps ?_ t ht
      intro t' ht'
      split at ht'
      · rename_i x
        cases ht'
        have := h0 x rfl
        omega
      · cases ht'; exact hp
    · exact ih _ _ hps h0 t ht

theorem onPacketsLost_in_recovery {s s' : St} {l : List Pkt} {r : Nat} (h : onPacketsLost s l false = .ok s')
    (hrs : s.rs = some r) (hl : ∀ p ∈ l, p.cc = true → p.ts ≤ r) : s'.cwnd = s.cwnd ∧ s'.rs = s.rs := by
  unfold onPacketsLost at h
  simp only at h
  split at h
  · cases h
  · rename_i s2 h2
    simp only [Bool.false_eq_true, if_false] at h
    cases h
    split at h2
    · rename_i t ht
      have hle := lostFold_le r l s.bytes none hl (by intro t h; cases h) t ht
      have hin : inRecovery { s with bytes := (lostFold l s.bytes none).1 } t = true := by
        unfold inRecovery; simp [hrs, hle]
      rw [onCongestionEvent_in_recovery hin] at h2
      cases h2; exact ⟨rfl, rfl⟩
    · cases h2; exact ⟨rfl, rfl⟩
