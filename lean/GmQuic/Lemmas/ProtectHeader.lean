import GmQuic.Lemmas.ProtectState
import GmQuic.Props.C05.Headers
/-! C06 ↔ C05: the packet-type parser looks only at first-byte bits that header protection never touches. -/
namespace GmQuic.Protect
open GmQuic.Wire GmQuic.Pn GmQuic.Codec GmQuic.Gen

theorem toNat_and_eq (b b' m : UInt8) (h : b' &&& m = b &&& m) : b'.toNat &&& m.toNat = b.toNat &&& m.toNat := by
  have := congrArg UInt8.toNat h
  simpa [UInt8.toNat_and] using this

/-- `be_packet_type` gives the same answer on two first bytes that agree on the form bit and — spin bit for the
short form, fixed bit and type bits for the long form — on the bits header protection leaves alone. -/
theorem decPType_congr (b b' : UInt8) (r : Bytes)
    (h80 : b' &&& 0x80 = b &&& 0x80) (h20 : b' &&& 0x20 = b &&& 0x20)
    (hlong : b &&& 0x80 = 0x80 → b' &&& 0x40 = b &&& 0x40 ∧ b' &&& 0x30 = b &&& 0x30) :
    decPType (b' :: r) = decPType (b :: r) := by
  have e80 := toNat_and_eq b b' 0x80 h80
  have e20 := toNat_and_eq b b' 0x20 h20
  have c80 : (0x80 : UInt8).toNat = headerFormMask := rfl
  have c20 : (0x20 : UInt8).toNat = spinBit := rfl
  rw [c80] at e80; rw [c20] at e20
  unfold decPType
  simp only
  rw [e80, e20]
  split
  · rfl
  · rename_i hne
    have hl : b &&& 0x80 = 0x80 := by
      rcases and80_cases b with h | h
      · exfalso; apply hne
        have := congrArg UInt8.toNat h
        simp only [UInt8.toNat_and] at this
        exact this
      · exact h
    obtain ⟨h40, h30⟩ := hlong hl
    have e40 := toNat_and_eq b b' 0x40 h40
    have e30 := toNat_and_eq b b' 0x30 h30
    have c40 : (0x40 : UInt8).toNat = fixedBit := rfl
    have c30 : (0x30 : UInt8).toNat = longPacketTypeMask := rfl
    rw [c40] at e40; rw [c30] at e30
    unfold longKindOfByte
    simp only
    rw [e40, e30]

end GmQuic.Protect
