import GmQuic.Lemmas.ProtectState
import GmQuic.Props.C05.Headers
/-! C06 ↔ C05: the packet-type parser looks only at first-byte bits that header protection never touches. -/
namespace GmQuic.Protect
open GmQuic.Wire GmQuic.Pn GmQuic.Codec GmQuic.Gen

theorem toNat_and_eq (b b' m : UInt8) (h : b' &&& m = b &&& m) : b'.toNat &&& m.toNat = b.toNat &&& m.toNat := by
  have := congrArg UInt8.toNat h
  simpa [UInt8.toNat_and] using this

/-- `be_packet_type` gives the same answer on two first bytes that agree on the form bit and — spin bit for the
short form, fixed bit and type bits for the long form — on the bits header protection leaves alone. -/
theorem decPType_congr (b b' : UInt8) (r : Bytes)
    (h80 : b' &&& 0x80 = b &&& 0x80) (h20 : b' &&& 0x20 = b &&& 0x20)
    (hlong : b &&& 0x80 = 0x80 → b' &&& 0x40 = b &&& 0x40 ∧ b' &&& 0x30 = b &&& 0x30) :
    decPType (b' :: r) = decPType (b :: r) := by
  have e80 := toNat_and_eq b b' 0x80 h80
  have e20 := toNat_and_eq b b' 0x20 h20
  have c80 : (0x80 : UInt8).toNat = headerFormMask := rfl
  have c20 : (0x20 : UInt8).toNat = spinBit := rfl
  rw [c80] at e80; rw [c20] at e20
  unfold decPType
  simp only
  rw [e80, e20]
  split
  · rfl
  · rename_i hne
    have hl : b &&& 0x80 = 0x80 := by
      rcases and80_cases b with h | h
      · exfalso; apply hne
        have := congrArg UInt8.toNat h
        simp only [UInt8.toNat_and] at this
        exact this
      · exact h
    obtain ⟨h40, h30⟩ := hlong hl
    have e40 := toNat_and_eq b b' 0x40 h40
    have e30 := toNat_and_eq b b' 0x30 h30
    have c40 : (0x40 : UInt8).toNat = fixedBit := rfl
    have c30 : (0x30 : UInt8).toNat = longPacketTypeMask := rfl
    rw [c40] at e40; rw [c30] at e30
    unfold longKindOfByte
    simp only
    rw [e40, e30]

/-- the packet types `PacketWriter` protects -/
def ptypeOfHeader : Header → Option PType
  | .initial .. => some .initial
  | .zeroRtt .. => some .zeroRtt
  | .handshake .. => some .handshake
  | .oneRtt .. => some .oneRtt
  | _ => none

/-- what `PacketWriter::new_{long,short}(header, …)` starts from: `put_header` wrote `encHeader h` -/
def txOfHeader (h : Header) (ty : PType) (pn : Nat) (enc : PacketNumber) (kp : Bool) (body : Bytes) : TxPkt :=
  ⟨ty, (encHeader h).headD 0, (encHeader h).tail, pn, enc, kp, body⟩

theorem encHeader_cons (h : Header) (ty : PType) (hty : ptypeOfHeader h = some ty) :
    encHeader h = (encHeader h).headD 0 :: (encHeader h).tail := by
  cases h <;> simp [ptypeOfHeader] at hty <;> simp [encHeader, Header.type, encPType]


theorem and_of_sub (a b C D : UInt8) (hD : C &&& D = D) (h : a &&& C = b &&& C) : a &&& D = b &&& D := by
  rw [← and_sub a C D hD, ← and_sub b C D hD, h]

/-- the bits `be_packet_type` reads are the same in the protected first byte and in what `put_header` wrote -/
theorem protected_first_bits (t : TxPkt) (w : WfHdr t) (f x : UInt8)
    (hf : f ^^^ (x &&& hpBits f) = encodeFirst t) :
    f &&& 0x80 = t.hdr0 &&& 0x80 ∧ f &&& 0x20 = t.hdr0 &&& 0x20 ∧
    (t.hdr0 &&& 0x80 = 0x80 → f &&& 0x40 = t.hdr0 &&& 0x40 ∧ f &&& 0x30 = t.hdr0 &&& 0x30) := by
  have g_e0 : encodeFirst t &&& 0xe0 = t.hdr0 &&& 0xe0 := by
    rw [encodeFirst_eq]; exact or_high _ _ _ (lowBits_and_e0 t)
  have f_e0 : f &&& 0xe0 = encodeFirst t &&& 0xe0 := by
    rw [← hf]; exact (xor_masked_and f x _ _ (hpBits_and_e0 f)).symm
  have e0 : f &&& 0xe0 = t.hdr0 &&& 0xe0 := f_e0.trans g_e0
  have h80 := and_of_sub _ _ 0xe0 0x80 (by decide) e0
  refine ⟨h80, and_of_sub _ _ 0xe0 0x20 (by decide) e0, ?_⟩
  intro hl
  have hlong : t.ptype ≠ .oneRtt := fun hs => by
    have := (wf_short w).mp hs; rw [hl] at this; exact absurd this (by decide)
  have g_f0 : encodeFirst t &&& 0xf0 = t.hdr0 &&& 0xf0 := by
    rw [encodeFirst_eq]; exact or_high _ _ _ (lowBits_long_f0 t hlong)
  have f_f0 : f &&& 0xf0 = encodeFirst t &&& 0xf0 := by
    rw [← hf]; exact (unmask_and_f0 f x (by rw [h80, hl])).symm
  have f0 := f_f0.trans g_f0
  exact ⟨and_of_sub _ _ 0xf0 0x40 (by decide) f0, and_of_sub _ _ 0xf0 0x30 (by decide) f0⟩


end GmQuic.Protect
