import GmQuic.Lemmas.Net
/-!
C02 liveness, part 1: the packet-level carriage of a C01 history under an IDENTITY network.

`lift` turns one C01 operation on stream `(d, sid)` into operations of the abstract stack: `deliver i` becomes
"the source seals a packet carrying STREAM frame `i`; the network hands exactly that ciphertext to the sink"
(`send` + `recv` of the ciphertext just sealed), every other operation is the local call / frame effect `app`.
`liftAll` threads the state.  `liftAll_run`: the stream of the stack after the lifted history is the C01 stream after
the C01 history (the refinement, in the direction needed for liveness), the lifted history contains no forgery, the
ciphertexts handed to the sink are exactly the ciphertexts sealed, each once, in order (`Identity`), and no other
stream and no connection-error flag is touched.
-/
namespace GmQuic.Net
open GmQuic.RecvBuf (Bytes)
open GmQuic

theorem upd2_same {α : Type} (f : Dir → Nat → α) (d : Dir) (k : Nat) (v : α) : upd2 f d k v d k = v := by
  simp [upd2]

theorem upd2_other {α : Type} (f : Dir → Nat → α) (d d' : Dir) (k k' : Nat) (v : α) (h : ¬ (d' = d ∧ k' = k)) :
    upd2 f d k v d' k' = f d' k' := by
  simp only [upd2]; rw [if_neg h]

theorem run_append {C : Type} (K : Crypto C) (ord : Order) (σ : Net C) (a b : List (Op C)) :
    run K ord σ (a ++ b) = run K ord (run K ord σ a) b := by
  simp only [run, List.foldl_append]

theorem noForgery_append {C : Type} (K : Crypto C) (ord : Order) (a b : List (Op C)) (σ : Net C)
    (h1 : NoForgery K ord σ a) (h2 : NoForgery K ord (run K ord σ a) b) : NoForgery K ord σ (a ++ b) := by
  induction a generalizing σ with
  | nil => exact h2
  | cons op rest ih => exact ⟨h1.1, ih _ h1.2 h2⟩

/-- packet-level carriage of ONE C01 operation on stream `(d, sid)` when the network is the identity -/
def lift {C : Type} (K : Crypto C) (d : Dir) (sid : Nat) (σ : Net C) (op : Stream.Op) : List (Op C) :=
  match op with
  | .deliver i =>
    match (σ.streams d sid).emitted[i]? with
    | some f => [.send d [.stream sid f], .recv d (K.sealP d ⟨σ.nextPn d, [.stream sid f]⟩)]
    | none => []
  | op => [.app d sid op]

def liftAll {C : Type} (K : Crypto C) (ord : Order) (d : Dir) (sid : Nat) : Net C → List Stream.Op → List (Op C)
  | _, [] => []
  | σ, op :: rest => lift K d sid σ op ++ liftAll K ord d sid (run K ord σ (lift K d sid σ op)) rest

/-- ciphertexts handed to the sink of `d` in a history, in order -/
def recvd {C : Type} (d : Dir) : List (Op C) → List C
  | [] => []
  | .recv d' c :: rest => if d' = d then c :: recvd d rest else recvd d rest
  | _ :: rest => recvd d rest

theorem recvd_append {C : Type} (d : Dir) (a b : List (Op C)) : recvd d (a ++ b) = recvd d a ++ recvd d b := by
  induction a with
  | nil => rfl
  | cons op rest ih =>
    cases op <;> simp only [List.cons_append, recvd, ih]
    split <;> simp

/-- what one lifted operation does -/
structure Lifted {C : Type} (K : Crypto C) (ord : Order) (sw rw : Nat) (d : Dir) (sid : Nat) (op : Stream.Op)
    (σ σ' : Net C) (blk : List (Op C)) : Prop where
  str : σ'.streams d sid = (σ.streams d sid).step op
  other : ∀ d' sid', ¬ (d' = d ∧ sid' = sid) → σ'.streams d' sid' = σ.streams d' sid'
  err : σ'.connErr = σ.connErr
  inv : Inv K sw rw σ'
  auth : NoForgery K ord σ blk
  wire : σ'.wire d = σ.wire d ++ recvd d blk
  wireO : ∀ d', d' ≠ d → σ'.wire d' = σ.wire d' ∧ recvd d' blk = []
  deliv : ∀ d', (σ'.delivered d').length + (σ.sent d').length = (σ'.sent d').length + (σ.delivered d').length

theorem lift_app {C : Type} {K : Crypto C} (ord : Order) {sw rw : Nat} {σ : Net C} (hi : Inv K sw rw σ) (d : Dir) (sid : Nat)
    (op : Stream.Op) (hl : isLocal op = true) :
    Lifted K ord sw rw d sid op σ (run K ord σ [.app d sid op]) [.app d sid op] := by
  have hs : run K ord σ [.app d sid op] = { σ with streams := upd2 σ.streams d sid ((σ.streams d sid).step op) } := by
    simp only [run, List.foldl_cons, List.foldl_nil, step, hl, if_true]
  have hinv : Inv K sw rw (run K ord σ [.app d sid op]) := inv_step ord hi (.app d sid op) trivial
  rw [hs] at hinv ⊢
  exact { str := upd2_same _ _ _ _, other := fun d' sid' h => upd2_other _ _ _ _ _ _ h, err := rfl, inv := hinv,
          auth := ⟨trivial, trivial⟩, wire := by simp [recvd], wireO := fun _ _ => ⟨rfl, rfl⟩,
          deliv := fun _ => Nat.add_comm _ _ }

theorem lift_deliver {C : Type} {K : Crypto C} (ord : Order) {sw rw : Nat} {σ : Net C} (hi : Inv K sw rw σ) (d : Dir) (sid : Nat)
    (hne : σ.connErr d = none) (i : Nat) :
    Lifted K ord sw rw d sid (.deliver i) σ (run K ord σ (lift K d sid σ (.deliver i))) (lift K d sid σ (.deliver i)) := by
  cases hf : (σ.streams d sid).emitted[i]? with
  | none =>
    have hl : lift K d sid σ (.deliver i) = [] := by simp only [lift, hf]
    rw [hl]
    have : (σ.streams d sid).step (.deliver i) = σ.streams d sid := by simp only [Stream.Stream.step, hf]
    exact { str := this.symm, other := fun _ _ _ => rfl, err := rfl, inv := hi, auth := trivial,
            wire := by simp [recvd, run], wireO := fun _ _ => ⟨rfl, rfl⟩, deliv := fun _ => Nat.add_comm _ _ }
  | some f =>
    have hl : lift K d sid σ (.deliver i) =
        [.send d [.stream sid f], .recv d (K.sealP d ⟨σ.nextPn d, [.stream sid f]⟩)] := by simp only [lift, hf]
    rw [hl]
    have hmem : f ∈ (σ.streams d sid).emitted := List.mem_of_getElem? hf
    have hfil : [PFrame.stream sid f].filter (legal σ d) = [.stream sid f] := by
      simp [List.filter, legal, hmem]
    have hfresh : fresh (σ.rcvd d) (σ.nextPn d) = true := fresh_next hi d
    -- the state after the two steps
    have hs : run K ord σ [.send d [.stream sid f], .recv d (K.sealP d ⟨σ.nextPn d, [.stream sid f]⟩)] =
        { σ with streams := upd2 σ.streams d sid (rxFrame (σ.streams d sid) f),
                 sent := upd σ.sent d (σ.sent d ++ [⟨σ.nextPn d, [.stream sid f]⟩]),
                 wire := upd σ.wire d (σ.wire d ++ [K.sealP d ⟨σ.nextPn d, [.stream sid f]⟩]),
                 nextPn := upd σ.nextPn d (σ.nextPn d + 1),
                 rcvd := upd σ.rcvd d ((σ.rcvd d).onRcvd (σ.nextPn d)),
                 delivered := upd σ.delivered d (σ.delivered d ++ [⟨σ.nextPn d, [.stream sid f]⟩]) } := by
      simp only [run, List.foldl_cons, List.foldl_nil, step, hfil, recvStep, hne, Option.isSome_none, Bool.false_eq_true,
        if_false, K.seal_reserved, and_false, K.open_seal, hfresh, if_true, dispatch, handle]
    have hauth : NoForgery K ord σ [.send d [.stream sid f], .recv d (K.sealP d ⟨σ.nextPn d, [.stream sid f]⟩)] := by
      refine ⟨trivial, ?_, trivial⟩
      intro _
      simp only [step, hfil, upd_same]
      exact List.mem_append_right _ (List.mem_singleton.mpr rfl)
    have hinv := inv_run ord _ σ hi hauth
    rw [hs] at hinv ⊢
    refine { str := ?_, other := fun d' sid' h => upd2_other _ _ _ _ _ _ h, err := rfl, inv := hinv, auth := hauth,
             wire := ?_, wireO := ?_, deliv := ?_ }
    · show upd2 σ.streams d sid (rxFrame (σ.streams d sid) f) d sid = _
      rw [upd2_same, rxFrame_is_deliver _ f i hf]
    · show upd σ.wire d _ d = _
      rw [upd_same]; simp [recvd]
    · intro d' hd
      refine ⟨upd_other _ _ _ _ hd, ?_⟩
      simp only [recvd]
      rw [if_neg (fun e => hd e.symm)]
    · intro d'
      show (upd σ.delivered d _ d').length + _ = (upd σ.sent d _ d').length + _
      by_cases hd : d' = d
      · subst hd; simp only [upd_same, List.length_append, List.length_cons, List.length_nil]; omega
      · simp only [upd_other _ _ _ _ hd]; omega

theorem lift_step {C : Type} {K : Crypto C} (ord : Order) {sw rw : Nat} {σ : Net C} (hi : Inv K sw rw σ) (d : Dir) (sid : Nat)
    (hne : σ.connErr d = none) (op : Stream.Op) :
    Lifted K ord sw rw d sid op σ (run K ord σ (lift K d sid σ op)) (lift K d sid σ op) := by
  cases op with
  | deliver i => exact lift_deliver ord hi d sid hne i
  | _ => exact lift_app ord hi d sid _ rfl

/-- what a lifted history does -/
structure LiftedAll {C : Type} (K : Crypto C) (ord : Order) (sw rw : Nat) (d : Dir) (sid : Nat) (sops : List Stream.Op)
    (σ σ' : Net C) (blk : List (Op C)) : Prop where
  str : σ'.streams d sid = (σ.streams d sid).run sops
  other : ∀ d' sid', ¬ (d' = d ∧ sid' = sid) → σ'.streams d' sid' = σ.streams d' sid'
  err : σ'.connErr = σ.connErr
  inv : Inv K sw rw σ'
  auth : NoForgery K ord σ blk
  wire : σ'.wire d = σ.wire d ++ recvd d blk
  wireO : ∀ d', d' ≠ d → σ'.wire d' = σ.wire d' ∧ recvd d' blk = []
  deliv : ∀ d', (σ'.delivered d').length + (σ.sent d').length = (σ'.sent d').length + (σ.delivered d').length

theorem liftAll_run {C : Type} {K : Crypto C} (ord : Order) {sw rw : Nat} (d : Dir) (sid : Nat) (sops : List Stream.Op)
    {σ : Net C} (hi : Inv K sw rw σ) (hne : σ.connErr d = none) :
    LiftedAll K ord sw rw d sid sops σ (run K ord σ (liftAll K ord d sid σ sops)) (liftAll K ord d sid σ sops) := by
  induction sops generalizing σ with
  | nil =>
    exact { str := rfl, other := fun _ _ _ => rfl, err := rfl, inv := hi, auth := trivial, wire := by simp [liftAll, recvd, run],
            wireO := fun _ _ => ⟨rfl, rfl⟩, deliv := fun _ => Nat.add_comm _ _ }
  | cons op rest ih =>
    have h1 := lift_step ord hi d sid hne op
    have hne1 : (run K ord σ (lift K d sid σ op)).connErr d = none := by rw [h1.err]; exact hne
    have h2 := ih h1.inv hne1
    simp only [liftAll]
    rw [run_append]
    exact { str := by rw [h2.str, h1.str]; rfl,
            other := fun d' sid' h => (h2.other d' sid' h).trans (h1.other d' sid' h),
            err := h2.err.trans h1.err, inv := h2.inv,
            auth := noForgery_append K ord _ _ σ h1.auth h2.auth,
            wire := by rw [h2.wire, h1.wire, recvd_append, List.append_assoc],
            wireO := fun d' hd => ⟨((h2.wireO d' hd).1).trans (h1.wireO d' hd).1, by
              rw [recvd_append, (h1.wireO d' hd).2, (h2.wireO d' hd).2]; rfl⟩,
            deliv := fun d' => by
              have a := h1.deliv d'; have b := h2.deliv d'
              omega }

end GmQuic.Net
