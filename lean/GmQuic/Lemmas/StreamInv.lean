import GmQuic.Lemmas.Stream
/-!
C01 helper lemmas, part 2: every operation preserves `Inv`; `Inv` holds after every history.
-/
namespace GmQuic.Stream
open GmQuic.RecvBuf (Bytes covered)

theorem inv_init (sw rw : Nat) (h : sw ≤ rw) : Inv (Stream.init sw rw) := by
  refine { a1 := ?_, a2 := ?_, a3 := ?_, a4 := ?_, a5 := ?_, a6 := ?_, a7 := ?_, a8 := rfl, b1 := ?_, b2 := rfl,
           b3 := ?_, b4 := ?_, b5 := ?_, b6 := ?_, b7 := ?_, b8 := rfl, b9 := ?_ } <;>
    simp [Stream.init, HasFin, Sized, h]
  rw [RecvBuf.inv_iff]
  simp [RecvBuf.Wf, RecvBuf.Content]

/-! ### sender-side operations -/

theorem write_fst (s : Sender) (bs : Bytes) :
    (s.write bs).1 = if s.err = false ∧ (s.st = .ready ∨ s.st = .sending) ∧ s.shutdown = false
      then { s with written := s.written ++ bs } else s := by
  unfold Sender.write
  cases he : s.err <;> cases hst : s.st <;> cases hsh : s.shutdown <;> simp

theorem inv_write {s : Stream} (h : Inv s) (bs : Bytes) : Inv (s.step (.write bs)) := by
  simp only [Stream.step, write_fst]
  split
  · rename_i hc
    obtain ⟨he, hst, hsh⟩ := hc
    -- the write is accepted: no FIN frame exists yet
    have hnf : ¬ HasFin s.emitted := fun hf => by have := (h.a4 hf).1; simp [hsh] at this
    have hnr := h.b1.nread_le
    have hll := h.b1.largest_le
    refine { a1 := ?_, a2 := ?_, a3 := ?_, a4 := ?_, a5 := h.a5, a6 := ?_, a7 := ?_, a8 := h.a8, b1 := ?_, b2 := ?_,
             b3 := ?_, b4 := ?_, b5 := ?_, b6 := h.b6, b7 := h.b7, b8 := h.b8, b9 := h.b9 }
    · intro f hm
      obtain ⟨h1, h2, h3⟩ := h.a1 f hm
      refine ⟨by simp; omega, ?_, h3⟩
      simp only
      rw [slice_append _ _ _ _ (by unfold Frame.stop at h1; omega)]
      exact h2
    · have := h.a2; simp; omega
    · intro f hm hf; exact absurd ⟨f, hm, hf⟩ hnf
    · intro hf; exact absurd hf hnf
    · intro hd; exact h.a6 hd
    · intro v hv
      have := (h.a7 v hv).2
      rcases hst with hst | hst <;> simp [hst] at this
    · exact rb_inv_append h.b1 bs
    · simp only
      rw [List.take_append_of_le_length (by omega)]
      exact h.b2
    · intro hsz; exact absurd (h.b3 hsz).1 hnf
    · refine ⟨fun hd => absurd (h.b3 (Or.inr (Or.inl hd))).1 hnf, fun hd => absurd (h.b3 (Or.inr (Or.inr hd))).1 hnf⟩
    · intro he'; exact absurd (h.b5 he').2.2 hnf
  · exact h

/-- A sender update that keeps `written`/`sentHi`, may raise the window (below the receiver's), and moves the
state along `Ready→Sending`, `DataSent→DataRcvd`, `ResetSent→ResetRcvd` or not at all. -/
structure SndStep (s : Stream) (snd' : Sender) : Prop where
  hw : snd'.written = s.snd.written
  hh : snd'.sentHi = s.snd.sentHi
  hm : s.snd.maxData ≤ snd'.maxData ∧ snd'.maxData ≤ s.rcv.maxSD
  hp : snd'.panicked = false
  hsh : s.snd.shutdown = true → snd'.shutdown = true
  hst : snd'.st = s.snd.st ∨ (s.snd.st = .ready ∧ snd'.st = .sending) ∨
        (s.snd.st = .dataSent ∧ snd'.st = .dataRcvd) ∨ (s.snd.st = .resetSent ∧ snd'.st = .resetRcvd)

theorem inv_snd_step {s : Stream} (h : Inv s) {snd' : Sender} (k : SndStep s snd') :
    Inv { s with snd := snd' } := by
  obtain ⟨hw, hh, hm, hp, hsh, hst⟩ := k
  refine { a1 := ?_, a2 := ?_, a3 := ?_, a4 := ?_, a5 := ?_, a6 := ?_, a7 := ?_, a8 := hp, b1 := ?_, b2 := ?_,
           b3 := ?_, b4 := h.b4, b5 := ?_, b6 := ?_, b7 := h.b7, b8 := h.b8, b9 := ⟨hm.2, h.b9.2⟩ }
  · simpa [hw, hh] using h.a1
  · have := h.a2; simp only [hw, hh]; omega
  · simpa [hw] using h.a3
  · intro hf
    obtain ⟨x1, x2, x3, x4⟩ := h.a4 hf
    refine ⟨hsh x1, ?_, ?_, by simp [hw, hh, x4]⟩
    · rcases hst with e | ⟨e, _⟩ | ⟨_, e⟩ | ⟨_, e⟩ <;> simp_all
    · rcases hst with e | ⟨e, _⟩ | ⟨_, e⟩ | ⟨_, e⟩ <;> simp_all
  · intro hr
    apply h.a5
    rcases hst with e | ⟨_, e⟩ | ⟨_, e⟩ | ⟨_, e⟩ <;> simp_all
  · intro hd
    apply h.a6
    rcases hst with e | ⟨_, e⟩ | ⟨e1, e⟩ | ⟨_, e⟩ <;> simp_all
  · intro v hv
    obtain ⟨y1, y2⟩ := h.a7 v hv
    refine ⟨by simpa [hh] using y1, ?_⟩
    rcases hst with e | ⟨e1, e⟩ | ⟨e1, e⟩ | ⟨e1, e⟩ <;> simp_all
  · simpa [hw] using h.b1
  · simpa [hw] using h.b2
  · intro hz; simpa [hw] using h.b3 hz
  · intro he
    obtain ⟨x1, x2, x3⟩ := h.b5 he
    exact ⟨hsh x1, by simpa [hw] using x2, x3⟩
  · simpa [hh] using h.b6

theorem inv_shutdown {s : Stream} (h : Inv s) : Inv (s.step .shutdown) := by
  simp only [Stream.step]
  apply inv_snd_step h
  have hb := h.b9.1; have h8 := h.a8
  unfold Sender.pollShutdown
  cases he : s.snd.err <;> cases hst : s.snd.st <;> constructor <;> simp_all

theorem inv_touch {s : Stream} (h : Inv s) : Inv (s.step .touch) := by
  simp only [Stream.step]
  apply inv_snd_step h
  have hb := h.b9.1; have h8 := h.a8
  unfold Sender.touch
  cases he : s.snd.err <;> cases hst : s.snd.st <;> constructor <;> simp_all

theorem inv_connErrSnd {s : Stream} (h : Inv s) : Inv (s.step .connErrorSnd) := by
  simp only [Stream.step]
  apply inv_snd_step h
  have hb := h.b9.1; have h8 := h.a8
  unfold Sender.connError
  cases he : s.snd.err <;> cases hst : s.snd.st <;> constructor <;> simp_all

theorem inv_ackReset {s : Stream} (h : Inv s) : Inv (s.step .ackReset) := by
  simp only [Stream.step]
  split
  · exact h
  apply inv_snd_step h
  have hb := h.b9.1; have h8 := h.a8
  unfold Sender.resetAcked
  cases hc : s.snd.closed <;> cases he : s.snd.err <;> cases hst : s.snd.st <;> constructor <;> simp_all

theorem inv_msd {s : Stream} (h : Inv s) (i : Nat) : Inv (s.step (.deliverMsd i)) := by
  simp only [Stream.step]
  split
  · rename_i m hm
    have hmle := h.b9.2 m (getElem?_mem' hm)
    apply inv_snd_step h
    have hb := h.b9.1; have h8 := h.a8
    unfold Sender.updateWindow
    cases he : s.snd.err <;> cases hst : s.snd.st <;> simp only [Bool.false_eq_true, if_false, if_true] <;>
      (try split) <;> constructor <;> simp_all <;> omega
  · exact h

theorem inv_ack {s : Stream} (h : Inv s) (i : Nat) : Inv (s.step (.ack i)) := by
  simp only [Stream.step]
  split
  · rename_i f hf
    have hne : s.snd.st ≠ .ready := fun hr => by simp [h.a5 hr] at hf
    apply inv_snd_step h
    have hb := h.b9.1; have h8 := h.a8
    unfold Sender.ack
    cases he : s.snd.err <;> cases hst : s.snd.st <;> simp only [Bool.false_eq_true, if_false, if_true] <;>
      (try split) <;> (try split) <;> constructor <;> simp_all
  · exact h

theorem inv_lose {s : Stream} (h : Inv s) (i : Nat) : Inv (s.step (.lose i)) := by
  simp only [Stream.step]
  split
  · rename_i f hf
    have hne : s.snd.st ≠ .ready := fun hr => by simp [h.a5 hr] at hf
    apply inv_snd_step h
    have hb := h.b9.1; have h8 := h.a8
    unfold Sender.lose
    cases he : s.snd.err <;> cases hst : s.snd.st <;> simp only [Bool.false_eq_true, if_false, if_true] <;>
      constructor <;> simp_all
  · exact h

/-- `cancel` and `be_stopped`: the sender enters `ResetSent` with final size `sentHi`. -/
theorem inv_reset_sent {s : Stream} (h : Inv s) (hst : s.snd.st = .ready ∨ s.snd.st = .sending ∨ s.snd.st = .dataSent)
    (snd' : Sender) (v : Nat) (hv : v = s.snd.sentHi) (h1 : snd'.st = .resetSent) (hw : snd'.written = s.snd.written)
    (hh : snd'.sentHi = s.snd.sentHi) (hm : snd'.maxData = s.snd.maxData) (hsh : snd'.shutdown = s.snd.shutdown)
    (hp : snd'.panicked = s.snd.panicked) :
    Inv { s with snd := snd', resets := s.resets ++ [v] } := by
  have hnr : s.resets = [] := by
    cases hr : s.resets with
    | nil => rfl
    | cons v rest =>
      have := (h.a7 v (by simp [hr])).2
      rcases hst with h1 | h1 | h1 <;> simp [h1] at this
  refine { a1 := ?_, a2 := ?_, a3 := ?_, a4 := ?_, a5 := ?_, a6 := ?_, a7 := ?_, a8 := ?_, b1 := ?_,
           b2 := ?_, b3 := ?_, b4 := h.b4, b5 := ?_, b6 := ?_, b7 := h.b7, b8 := h.b8, b9 := ?_ }
  · simpa [hw, hh] using h.a1
  · simpa [hw, hh, hm] using h.a2
  · simpa [hw] using h.a3
  · intro hf
    obtain ⟨x1, _, _, x4⟩ := h.a4 hf
    exact ⟨by simpa [hsh] using x1, by simp [h1], by simp [h1], by simpa [hw, hh] using x4⟩
  · intro hr; simp [h1] at hr
  · intro hd; simp [h1] at hd
  · intro v' hv'; simp [hnr] at hv'; simp [hv', hv, hh, h1]
  · simpa [hp] using h.a8
  · simpa [hw] using h.b1
  · simpa [hw] using h.b2
  · intro hz; simpa [hw] using h.b3 hz
  · intro he; simpa [hw, hsh] using h.b5 he
  · simpa [hh] using h.b6
  · simpa [hm] using h.b9

theorem inv_cancel {s : Stream} (h : Inv s) : Inv (s.step .cancel) := by
  simp only [Stream.step]
  unfold Sender.cancel
  cases he : s.snd.err <;> cases hst : s.snd.st <;> simp only [Bool.false_eq_true, if_false, if_true] <;>
    first
    | exact h
    | exact inv_reset_sent h (by simp [hst]) _ _ rfl rfl rfl rfl rfl rfl rfl

theorem inv_deliverStop {s : Stream} (h : Inv s) : Inv (s.step .deliverStop) := by
  simp only [Stream.step]
  split
  · exact h
  unfold Sender.beStopped
  cases he : s.snd.err <;> cases hst : s.snd.st <;> simp only [Bool.false_eq_true, if_false, if_true] <;>
    first
    | exact h
    | exact inv_reset_sent h (by simp [hst]) _ _ rfl rfl rfl rfl rfl rfl rfl
    | exact inv_reset_sent h (by simp [hst]) _ _ (h.a4 (h.a6 (Or.inl hst))).2.2.2.symm rfl rfl rfl rfl rfl rfl

end GmQuic.Stream
