import GmQuic.Model.SentFrames
import GmQuic.Lemmas.SentJournal
/-! Lemmas for the sent journal with frame contents (C10): the flat queue is the concatenation of the per-packet
frame lists, so the offset arithmetic of `on_packet_acked` / `may_loss_packet` / `resize` retrieves exactly a packet's frames. -/
namespace GmQuic.SentFrames
open GmQuic.SentJournal

/-! ### list facts -/

def lens (log : List (List Nat)) : List Nat := log.map List.length

theorem take_sum_le (l : List Nat) (i : Nat) : (l.take i).sum ≤ l.sum := by
  have : (l.take i).sum + (l.drop i).sum = l.sum := by rw [← List.sum_append, List.take_append_drop]
  omega

theorem take_drop_sum (l : List Nat) (i : Nat) : l.sum = (l.take i).sum + (l.drop i).sum := by
  rw [← List.sum_append, List.take_append_drop]

theorem flatten_drop_take (log : List (List Nat)) (k : Nat) :
    log.flatten.drop ((lens (log.take k)).sum) = (log.drop k).flatten := by
  induction log generalizing k with
  | nil => simp [lens]
  | cons x xs ih =>
    cases k with
    | zero => simp [lens]
    | succ k =>
      simp only [List.take_succ_cons, lens, List.map_cons, List.sum_cons, List.flatten_cons, List.drop_succ_cons]
      rw [← List.drop_drop, List.drop_left]
      exact ih k

theorem slice_flatten (log : List (List Nat)) (i : Nat) (x : List Nat) (h : log[i]? = some x) :
    (log.flatten.drop ((lens (log.take i)).sum)).take x.length = x ∧
    (lens (log.take i)).sum + x.length ≤ log.flatten.length := by
  rw [flatten_drop_take]
  have hi : i < log.length := by
    rcases Nat.lt_or_ge i log.length with h1 | h1
    · exact h1
    · rw [List.getElem?_eq_none h1] at h; cases h
  have hd : log.drop i = x :: log.drop (i + 1) := by
    rw [List.drop_eq_getElem_cons hi]
    have := List.getElem?_eq_getElem hi
    rw [this] at h; cases h; rfl
  constructor
  · rw [hd]; simp
  · have e : log.flatten.length = (lens (log.take i)).sum + (log.drop i).flatten.length := by
      simp only [lens, List.length_flatten, List.map_take, List.map_drop]
      exact take_drop_sum _ _
    rw [e, hd]; simp

theorem lens_sum_all (log : List (List Nat)) : (lens log).sum = log.flatten.length := by
  simp [lens, List.length_flatten]

/-! ### the invariant -/

structure SInv (s : State) : Prop where
  frames : s.recs.map Rec.nframes = lens s.log
  queue : s.queue = s.log.flatten

theorem SInv.len {s : State} (h : SInv s) : s.recs.length = s.log.length := by
  have := congrArg List.length h.frames; simpa [lens] using this

theorem sumFrames_take (s : State) (h : SInv s) (i : Nat) : sumFrames (s.recs.take i) = (lens (s.log.take i)).sum := by
  simp only [sumFrames, lens, List.map_take]
  rw [h.frames]; rfl

theorem dropCount_take (now : Nat) (rs : List Rec) : (dropCount now rs).2 = sumFrames (rs.take (dropCount now rs).1) := by
  induction rs with
  | nil => simp [dropCount, sumFrames]
  | cons r rs ih =>
    simp only [dropCount]; split
    · simp [sumFrames]
    · simp only [List.take_succ_cons, sumFrames, List.map_cons, List.sum_cons] at ih ⊢; omega

/-- frames recorded for packet `pn` while its record is Flighting / Retransmitted; `[]` for every other number -/
def live (s : State) (pn : Nat) : List Nat :=
  if s.offset ≤ pn then
    match s.recs[pn - s.offset]? with
    | some (.flighting _ _ _) => s.log.getD (pn - s.offset) []
    | some (.retrans _ _) => s.log.getD (pn - s.offset) []
    | _ => []
  else []

/-- frames recorded for packet `pn` (ghost), if it is still tracked -/
def recorded (s : State) (pn : Nat) : Option (List Nat) := if s.offset ≤ pn then s.log[pn - s.offset]? else none

/-- `pn` can never be reported again: dropped, acknowledged or skipped -/
def Settled (s : State) (pn : Nat) : Prop :=
  pn < s.offset ∨ ∃ r, s.recs[pn - s.offset]? = some r ∧ (r = .skipped ∨ ∃ n, r = .acked n)

/-! ### resize -/

theorem resize_spec (s : State) (h : SInv s) :
    ∃ s', resize s = some s' ∧ SInv s' ∧ s.offset ≤ s'.offset ∧ s'.largest = s.largest ∧ s'.la = s.la ∧
      (∀ pn, s'.offset ≤ pn → live s' pn = live s pn ∧ recorded s' pn = recorded s pn) ∧
      (∀ pn, Settled s pn → Settled s' pn) := by
  have hle := dropCount_le s.now s.recs
  have hd2 := dropCount_take s.now s.recs
  have hq : (dropCount s.now s.recs).2 ≤ s.queue.length := by
    rw [hd2, sumFrames_take s h, h.queue, ← lens_sum_all]
    simp only [lens, List.map_take]
    exact take_sum_le _ _
  unfold resize
  simp only
  rw [if_neg (by omega)]
  refine ⟨_, rfl, ⟨?_, ?_⟩, by simp, ?_, rfl, ?_, ?_⟩
  · simp only [lens, List.map_drop]; rw [h.frames]; rfl
  · simp only; rw [hd2, sumFrames_take s h, h.queue, flatten_drop_take]
  · simp only [State.largest, List.length_drop]; omega
  · intro pn hp
    simp only at hp
    have e : (dropCount s.now s.recs).1 + (pn - (s.offset + (dropCount s.now s.recs).1)) = pn - s.offset := by omega
    have e0 : s.offset ≤ pn := by omega
    constructor <;> simp only [live, recorded, hp, e0, if_true, List.getElem?_drop, e, List.getD_eq_getElem?_getD]
  · intro pn hs
    rcases hs with hs | ⟨r, hr, hk⟩
    · left; simp only; omega
    · by_cases hp : pn < s.offset + (dropCount s.now s.recs).1
      · left; exact hp
      · right
        refine ⟨r, ?_, hk⟩
        have e : (dropCount s.now s.recs).1 + (pn - (s.offset + (dropCount s.now s.recs).1)) = pn - s.offset := by omega
        simp only [List.getElem?_drop, e]; exact hr

/-! ### on_packet_acked / may_loss_packet -/

/-- what `f` may do: keep the frame count, report all frames or none -/
structure Touch (f : Rec → Rec × Nat) : Prop where
  keep : ∀ r, (f r).1.nframes = r.nframes
  count : ∀ r, (f r).2 = r.nframes ∨ (f r).2 = 0

theorem touch_beAcked : Touch Rec.beAcked := ⟨beAcked_nframes, fun r => by cases r <;> simp [Rec.beAcked, Rec.nframes]⟩
theorem touch_maybeLost : Touch Rec.maybeLost := ⟨maybeLost_nframes, fun r => by cases r <;> simp [Rec.maybeLost, Rec.nframes]⟩

theorem map_set_same (rs : List Rec) (i : Nat) (r r' : Rec) (h : rs[i]? = some r) (hn : r'.nframes = r.nframes) :
    (rs.set i r').map Rec.nframes = rs.map Rec.nframes := by
  rw [List.map_set, hn]
  apply List.ext_getElem?
  intro j
  by_cases hj : i = j
  · subst hj
    by_cases hl : i < rs.length
    · rw [List.getElem?_set_self (by simpa using hl)]; simp [h]
    · rw [List.set_eq_of_length_le (by simpa using hl)]
  · rw [List.getElem?_set_ne hj]

/-- the frames `touchFrames` reports: the packet's recorded frames when `f` reports a non-zero count -/
theorem touchFrames_spec (s : State) (h : SInv s) (pn : Nat) (f : Rec → Rec × Nat) (hf : Touch f) :
    ∃ s' fs, touchFrames s pn f = some (s', fs) ∧ SInv s' ∧ s'.offset = s.offset ∧ s'.log = s.log ∧ s'.la = s.la ∧
      s'.now = s.now ∧ s'.recs.length = s.recs.length ∧
      (∀ q, q ≠ pn → s'.recs[q - s.offset]? = s.recs[q - s.offset]? ∨ q < s.offset) ∧
      ((s.offset ≤ pn ∧ ∃ r x, s.recs[pn - s.offset]? = some r ∧ s.log[pn - s.offset]? = some x ∧ r.nframes = x.length ∧
          s'.recs[pn - s.offset]? = some (f r).1 ∧ fs = x.take (f r).2) ∨
       ((pn < s.offset ∨ s.recs[pn - s.offset]? = none) ∧ fs = [] ∧ s' = s)) := by
  unfold touchFrames frameOffset
  simp only
  by_cases hin : s.offset ≤ pn ∧ pn < s.largest
  · have hi : pn - s.offset < s.recs.length := by simp only [State.largest] at hin; omega
    have hr := List.getElem?_eq_getElem hi
    have hi2 : pn - s.offset < s.log.length := by rw [← h.len]; exact hi
    have hx := List.getElem?_eq_getElem hi2
    generalize s.recs[pn - s.offset] = r at hr
    generalize s.log[pn - s.offset] = x at hx
    have hnx : r.nframes = x.length := by
      have := congrArg (fun l => l[pn - s.offset]?) h.frames
      simp only [lens, List.getElem?_map, hr, hx, Option.map_some, Option.some.injEq] at this
      exact this
    obtain ⟨hs1, hs2⟩ := slice_flatten s.log (pn - s.offset) x hx
    rw [if_pos hin, hr]
    simp only
    rw [sumFrames_take s h, h.queue]
    have hc : (f r).2 ≤ x.length := by rcases hf.count r with hc | hc <;> omega
    rw [if_neg (by omega)]
    refine ⟨_, _, rfl, ⟨?_, rfl⟩, rfl, rfl, rfl, rfl, by simp, ?_, Or.inl ⟨hin.1, r, x, rfl, hx, hnx, ?_, ?_⟩⟩
    · simp only; rw [map_set_same _ _ r _ hr (hf.keep r)]; exact h.frames
    · intro q hq
      by_cases hqo : q < s.offset
      · exact Or.inr hqo
      · left; simp only; rw [List.getElem?_set_ne (by omega)]
    · simp only; rw [List.getElem?_set_self hi]
    · rw [← hs1, List.take_take, Nat.min_eq_left hc]
  · rw [if_neg hin]
    simp only [Nat.add_zero]
    rw [sumFrames_take s h, h.queue]
    have hle : (lens (s.log.take (pn - s.offset))).sum ≤ s.log.flatten.length := by
      rw [← lens_sum_all]
      simp only [lens, List.map_take]
      exact take_sum_le _ _
    rw [if_neg (by omega)]
    refine ⟨s, [], by simp, h, rfl, rfl, rfl, rfl, rfl, fun q _ => Or.inl rfl, Or.inr ⟨?_, rfl, rfl⟩⟩
    by_cases hlt : pn < s.offset
    · exact Or.inl hlt
    · right; apply List.getElem?_eq_none; simp only [State.largest] at hin; omega

/-- `on_packet_acked(pn)` reports exactly `live s pn` and settles the record -/
theorem acked_spec (s : State) (h : SInv s) (pn : Nat) :
    ∃ s', touchFrames s pn Rec.beAcked = some (s', live s pn) ∧ SInv s' ∧ s'.offset = s.offset ∧ s'.log = s.log ∧
      s'.la = s.la ∧ s'.now = s.now ∧ s'.recs.length = s.recs.length ∧
      (pn < s.largest → Settled s' pn) ∧ (∀ q, Settled s q → Settled s' q) ∧
      (∀ q, q ≠ pn → live s' q = live s q) := by
  obtain ⟨s', fs, h1, h2, h3, h4, h5, h6, h7, h8, h9⟩ := touchFrames_spec s h pn Rec.beAcked touch_beAcked
  have hothers : ∀ q, q ≠ pn → live s' q = live s q := by
    intro q hq
    unfold live
    rw [h3, h4]
    rcases h8 q hq with h8 | h8
    · rw [h8]
    · rw [if_neg (by omega), if_neg (by omega)]
  have hsettled : ∀ q, q ≠ pn → Settled s q → Settled s' q := by
    intro q hq hs
    unfold Settled at *
    rw [h3]
    rcases hs with hs | hs
    · exact Or.inl hs
    · rcases h8 q hq with h8 | h8
      · rw [h8]; exact Or.inr hs
      · exact Or.inl h8
  rcases h9 with ⟨ho, r, x, hr, hx, hn, hr', hfs⟩ | ⟨hno, hfs, hs'⟩
  · have hlive : live s pn = fs := by
      unfold live
      rw [if_pos ho, hr, hfs]
      simp only [List.getD_eq_getElem?_getD, hx, Option.getD_some]
      cases r <;> simp only [Rec.beAcked, Rec.nframes] at hn ⊢
      all_goals (try subst hn)
      all_goals simp
    rw [hlive]
    refine ⟨s', h1, h2, h3, h4, h5, h6, h7, ?_, ?_, hothers⟩
    · intro _
      right; rw [h3]; refine ⟨_, hr', ?_⟩
      cases r <;> simp [Rec.beAcked]
    · intro q hs
      by_cases hq : q = pn
      · subst hq
        rcases hs with hs | ⟨r2, hr2, hk⟩
        · left; rw [h3]; exact hs
        · right; rw [h3]; rw [hr] at hr2; cases hr2
          refine ⟨_, hr', ?_⟩
          rcases hk with hk | ⟨n, hk⟩ <;> subst hk <;> simp [Rec.beAcked]
      · exact hsettled q hq hs
  · have hlive : live s pn = [] := by
      unfold live
      rcases hno with hno | hno
      · rw [if_neg (by omega)]
      · split
        · rw [hno]
        · rfl
    have hs'' := hs'.symm
    subst hs''
    rw [hlive, ← hfs]
    refine ⟨s, h1, h, rfl, rfl, rfl, rfl, rfl, ?_, fun q hs => hs, fun q _ => rfl⟩
    intro hlt
    rcases hno with hno | hno
    · exact Or.inl hno
    · by_cases hpo : pn < s.offset
      · exact Or.inl hpo
      · exfalso
        have : pn - s.offset < s.recs.length := by simp only [State.largest] at hlt; omega
        rw [List.getElem?_eq_getElem this] at hno; cases hno

/-- `may_loss_packet(pn)` reports exactly `live s pn`; the packet stays live (an ACK may still deliver it) -/
theorem lost_spec (s : State) (h : SInv s) (pn : Nat) :
    ∃ s', touchFrames s pn Rec.maybeLost = some (s', live s pn) ∧ SInv s' ∧ s'.offset = s.offset ∧ s'.log = s.log ∧
      s'.la = s.la ∧ s'.now = s.now ∧ s'.recs.length = s.recs.length ∧
      (∀ q, Settled s q → Settled s' q) ∧ (∀ q, live s' q = live s q) := by
  obtain ⟨s', fs, h1, h2, h3, h4, h5, h6, h7, h8, h9⟩ := touchFrames_spec s h pn Rec.maybeLost touch_maybeLost
  have hothers : ∀ q, q ≠ pn → live s' q = live s q := by
    intro q hq
    unfold live
    rw [h3, h4]
    rcases h8 q hq with h8 | h8
    · rw [h8]
    · rw [if_neg (by omega), if_neg (by omega)]
  have hsettled : ∀ q, q ≠ pn → Settled s q → Settled s' q := by
    intro q hq hs
    unfold Settled at *
    rw [h3]
    rcases hs with hs | hs
    · exact Or.inl hs
    · rcases h8 q hq with h8 | h8
      · rw [h8]; exact Or.inr hs
      · exact Or.inl h8
  rcases h9 with ⟨ho, r, x, hr, hx, hn, hr', hfs⟩ | ⟨hno, hfs, hs'⟩
  · have hlive : live s pn = fs := by
      unfold live
      rw [if_pos ho, hr, hfs]
      simp only [List.getD_eq_getElem?_getD, hx, Option.getD_some]
      cases r <;> simp only [Rec.maybeLost, Rec.nframes] at hn ⊢
      all_goals (try subst hn)
      all_goals simp
    have hlive' : live s' pn = live s pn := by
      unfold live
      simp only [h3, h4, ho, if_true, hr', hr]
      cases r <;> rfl
    rw [hlive]
    refine ⟨s', h1, h2, h3, h4, h5, h6, h7, ?_, ?_⟩
    · intro q hs
      by_cases hq : q = pn
      · subst hq
        rcases hs with hs | ⟨r2, hr2, hk⟩
        · left; rw [h3]; exact hs
        · right; rw [h3]; rw [hr] at hr2; cases hr2
          refine ⟨_, hr', ?_⟩
          rcases hk with hk | ⟨n, hk⟩ <;> subst hk <;> simp [Rec.maybeLost]
      · exact hsettled q hq hs
    · intro q
      by_cases hq : q = pn
      · subst hq; exact hlive'
      · exact hothers q hq
  · have hlive : live s pn = [] := by
      unfold live
      rcases hno with hno | hno
      · rw [if_neg (by omega)]
      · split
        · rw [hno]
        · rfl
    have hs'' := hs'.symm
    subst hs''
    rw [hlive, ← hfs]
    exact ⟨s, h1, h, rfl, rfl, rfl, rfl, rfl, fun q hs => hs, fun q => rfl⟩

end GmQuic.SentFrames
