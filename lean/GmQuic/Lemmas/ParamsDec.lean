import GmQuic.Model.ParamsDec
import GmQuic.Lemmas.FrameRd
/-!
C03 helper lemmas (transport parameters): the value parsers are `Good`, one loop iteration consumes, the loop
never panics with enough fuel.
-/
namespace GmQuic.ParamsDec
open GmQuic.Wire GmQuic.Codec GmQuic.Params GmQuic.PacketDec GmQuic.FrameRd GmQuic.Gen.Params

theorem pResetToken_good (bs : Bytes) (n : Nat) (h : bs.length ≤ n) : Good (pResetToken bs) n := by
  unfold pResetToken
  cases ht : pTakeC 16 bs with
  | ok t r =>
    have hg := (pTakeC_good 16 bs n h).2 t r ht
    unfold pTakeC at ht
    split at ht
    · cases ht
    · cases ht
      simp only [Res.bind]
      have : ¬ ((List.take 16 bs).length != 16) = true := by simp; omega
      rw [if_neg this]; exact good_ok _ _ _ hg
  | err k => exact good_err _ _
  | panic s => exact absurd ht (pTakeC_np 16 bs s)

theorem pPreferred_good (bs : Bytes) (n : Nat) (h : bs.length ≤ n) : Good (pPreferred bs) n := by
  unfold pPreferred
  cases h1 : pTakeS 6 bs with
  | err k => exact good_err _ _
  | panic s => exact absurd h1 (pTakeS_np 6 bs s)
  | ok v4 r1 =>
    have e1 := pTakeS_ok _ _ _ _ h1
    simp only [Res.bind]
    rw [if_neg (by omega)]
    cases h2 : pTakeS 18 r1 with
    | err k => exact good_err _ _
    | panic s => exact absurd h2 (pTakeS_np 18 r1 s)
    | ok v6 r2 =>
      have e2 := pTakeS_ok _ _ _ _ h2
      simp only
      rw [if_neg (by omega)]
      apply good_bind (pCid_good r2 n (by omega)); intro cid r3 h3
      apply good_bind (pResetToken_good r3 n h3); intro tok r4 h4
      exact good_ok _ _ _ h4

theorem pValue_good (ty : Ty) (bs : Bytes) : Good (pValue ty bs) bs.length := by
  unfold pValue
  cases ty with
  | varint => exact good_map (pVarint_good bs _ (Nat.le_refl _))
  | duration => exact good_map (pVarint_good bs _ (Nat.le_refl _))
  | boolean => exact good_ok _ _ _ (Nat.le_refl _)
  | bytes => exact good_ok _ _ _ (by simp)
  | resetToken => exact good_map (pResetToken_good bs _ (Nat.le_refl _))
  | connectionId =>
    simp only
    split
    · exact good_err _ _
    · rename_i hc
      unfold GmQuic.Gen.C03.maxCidSize at hc
      rw [if_neg (by omega)]; exact good_ok _ _ _ (by simp)
  | preferredAddress => exact good_map (pPreferred_good bs _ (Nat.le_refl _))

theorem parseOne_spec (r : Role) (buf : Bytes) (acc : PMap) :
    (∀ s, parseOne r buf acc ≠ .panic s) ∧ (∀ a rest, parseOne r buf acc = .ok (a, rest) → rest.length < buf.length) := by
  unfold parseOne
  cases h1 : pVarint buf with
  | panic s => exact absurd h1 (pVarint_np buf s)
  | err k => exact ⟨fun s h => (by cases h), fun a rest h => (by cases h)⟩
  | ok id b1 =>
    have l1 := pVarint_lt buf id b1 h1
    simp only
    have hg : Good ((pVarint b1).bind fun n r => pTakeS n r) b1.length :=
      good_bind (pVarint_good b1 _ (Nat.le_refl _)) (fun n r hr => pTakeS_good n r _ hr)
    cases h2 : (pVarint b1).bind (fun n r => pTakeS n r) with
    | panic s => exact absurd h2 (hg.1 s)
    | err k => exact ⟨fun s h => (by cases h), fun a rest h => (by cases h)⟩
    | ok value rest =>
      have l2 := hg.2 value rest h2
      simp only
      cases row? id with
      | none => exact ⟨fun s h => (by cases h), fun a rest' h => (by cases h; omega)⟩
      | some row =>
        simp only
        split
        · exact ⟨fun s h => (by cases h), fun a rest h => (by cases h)⟩
        · have hv := pValue_good row.ty value
          cases h3 : pValue row.ty value with
          | panic s => exact absurd h3 (hv.1 s)
          | err k => exact ⟨fun s h => (by cases h), fun a rest h => (by cases h)⟩
          | ok v remain =>
            simp only
            split
            · exact ⟨fun s h => (by cases h), fun a rest h => (by cases h)⟩
            · cases setRow r acc row v with
              | error e => exact ⟨fun s h => (by cases h), fun a rest h => (by cases h)⟩
              | ok acc' => exact ⟨fun s h => (by cases h), fun a rest' h => (by cases h; omega)⟩

theorem loop_np (r : Role) : ∀ fuel buf acc, buf.length < fuel → ∀ s, parseLoopR r fuel buf acc ≠ .panic s := by
  intro fuel
  induction fuel with
  | zero => intro buf acc h; omega
  | succ fuel ih =>
    intro buf acc hlen s
    unfold parseLoopR
    split
    · intro h; cases h
    · have hs := parseOne_spec r buf acc
      cases h1 : parseOne r buf acc with
      | ok v =>
        obtain ⟨a, rest⟩ := v
        have := hs.2 a rest h1
        exact ih rest a (by omega) s
      | err w => intro h; cases h
      | panic s' => exact absurd h1 (hs.1 s')


end GmQuic.ParamsDec
