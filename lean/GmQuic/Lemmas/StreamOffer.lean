import GmQuic.Lemmas.SidInv
import GmQuic.Model.StreamRules
/-!
C12 — "each implicitly opened stream is offered to the application exactly once", at the endpoint:
the listener queues + what `accept_bi` / `accept_uni` handed out are, per kind and IN ORDER, exactly the ids
yielded by all `NeedCreate`s — an invariant of `Endpoint.step` for every operation (peer frames, accept polls
Pending or Ready, `drain`, the two halves of "peer parameters ready", local opens, MAX_STREAMS, STREAMS_BLOCKED).
-/
namespace GmQuic.StreamRules
open GmQuic.Sid

/-- `e'` differs from `e` in nothing the offer invariant looks at. -/
def Same (e e' : Endpoint) : Prop :=
  e'.offered = e.offered ∧ e'.listenBi = e.listenBi ∧ e'.listenUni = e.listenUni ∧
  e'.rem.created = e.rem.created ∧ e'.rem.unalloc = e.rem.unalloc ∧ e'.rem.role = e.rem.role ∧
  (e.rem.poisoned = true → e'.rem.poisoned = true)

theorem Same.refl (e : Endpoint) : Same e e := ⟨rfl, rfl, rfl, rfl, rfl, rfl, id⟩

theorem Same.trans {a b c : Endpoint} (h1 : Same a b) (h2 : Same b c) : Same a c := by
  obtain ⟨a1, a2, a3, a4, a5, a6, a7⟩ := h1
  obtain ⟨b1, b2, b3, b4, b5, b6, b7⟩ := h2
  exact ⟨b1.trans a1, b2.trans a2, b3.trans a3, b4.trans a4, b5.trans a5, b6.trans a6, fun h => b7 (a7 h)⟩

theorem Remote.step_poisoned {κ : Type} (S : Strategy κ) (r : Remote κ) (op : ROp) (h : r.poisoned = true) :
    (r.step S op).1.poisoned = true := by
  cases op <;> simp [Remote.step, h]

/-- Replacing `rem` by the result of an `eos` / `blocked` step (and touching `inputs`, `loc`, readiness …). -/
theorem same_of_rem {e e' : Endpoint} {r' : Remote CtrlSt}
    (ho : e'.offered = e.offered) (hb : e'.listenBi = e.listenBi) (hu : e'.listenUni = e.listenUni)
    (hr : e'.rem = r') (hc : r'.created = e.rem.created) (hun : r'.unalloc = e.rem.unalloc)
    (hro : r'.role = e.rem.role) (hp : e.rem.poisoned = true → r'.poisoned = true) : Same e e' := by
  subst hr; exact ⟨ho, hb, hu, hc, hun, hro, hp⟩

theorem shutRecv_same (e : Endpoint) (s : Nat) : Same e (e.shutRecv s).1 := by
  unfold Endpoint.shutRecv
  split
  · have h := Remote.step_eos_frame std e.rem s
    have hp := Remote.step_poisoned std e.rem (.eos s)
    generalize e.rem.step std (.eos s) = st at h hp
    obtain ⟨r', o⟩ := st
    simp only at h hp
    have key : Same e { e with rem := r' } :=
      same_of_rem rfl rfl rfl rfl h.1 h.2.1 h.2.2 hp
    cases o with
    | done f => cases f <;> exact key
    | old => exact key
    | new a b f => exact key
    | exceed m => exact key
    | panic => exact key
  · exact Same.refl e

theorem same_inputs (e : Endpoint) (l : List (Nat × StreamWindow.RecvHalf)) : Same e { e with inputs := l } :=
  ⟨rfl, rfl, rfl, rfl, rfl, rfl, id⟩

theorem deliver_same (e : Endpoint) (ms : List (Dir × Nat)) (k : FrameKind) (s a b : Nat) (fin : Bool) :
    Same e (e.deliver ms k s a b fin).1 := by
  unfold Endpoint.deliver
  cases k with
  | stream =>
    simp only
    split
    · exact Same.refl e
    · rename_i h hl
      generalize h.rx true a b fin = res
      obtain ⟨h', o⟩ := res
      cases o with
      | flowControl => exact Same.refl e
      | finalSize => exact Same.refl e
      | fresh n =>
        simp only
        split
        · have hs := shutRecv_same { e with inputs := remove e.inputs s } s
          have h0 := same_inputs e (remove e.inputs s)
          generalize ({ e with inputs := remove e.inputs s } : Endpoint).shutRecv s = sr at hs
          obtain ⟨e2, ms2, p⟩ := sr
          simp only at hs ⊢
          cases p <;> exact h0.trans hs
        · exact same_inputs e _
  | resetStream =>
    simp only
    split
    · exact Same.refl e
    · rename_i h hl
      cases resetRx h a with
      | none => exact Same.refl e
      | some ro =>
        cases ro with
        | finalSize => exact Same.refl e
        | flowControl => exact Same.refl e
        | sync n =>
          simp only
          have hs := shutRecv_same { e with inputs := remove e.inputs s } s
          have h0 := same_inputs e (remove e.inputs s)
          generalize ({ e with inputs := remove e.inputs s } : Endpoint).shutRecv s = sr at hs
          obtain ⟨e2, ms2, p⟩ := sr
          simp only at hs ⊢
          cases p <;> exact h0.trans hs
  | stopSending => exact Same.refl e
  | maxStreamData => exact Same.refl e
  | streamDataBlocked => exact Same.refl e

/-- The offer invariant. -/
structure OfferInv (e : Endpoint) : Prop where
  rinv : e.rem.Inv
  bi : ofDir e.offered .bi ++ e.listenBi = ofDir e.rem.created .bi
  uni : ofDir e.offered .uni ++ e.listenUni = ofDir e.rem.created .uni

/-- … holds unless a panic under the `RemoteStreamIds` mutex ended the connection. -/
def Offer (e : Endpoint) : Prop := e.rem.poisoned = true ∨ OfferInv e

theorem Offer.congr {e e' : Endpoint} (h : Offer e) (hs : Same e e') : Offer e' := by
  obtain ⟨s1, s2, s3, s4, s5, s6, s7⟩ := hs
  rcases h with h | h
  · exact Or.inl (s7 h)
  · right
    refine ⟨?_, ?_, ?_⟩
    · intro d; rw [s4, s5, s6]; exact h.rinv d
    · rw [s1, s2, s4]; exact h.bi
    · rw [s1, s3, s4]; exact h.uni

theorem ofDir_append (l1 l2 : List Nat) (d : Dir) : ofDir (l1 ++ l2) d = ofDir l1 d ++ ofDir l2 d := by
  simp [ofDir, List.filter_append]

theorem ofDir_of_suffix {l pre suf : List Nat} {d : Dir} (h : pre ++ suf = ofDir l d) : ofDir suf d = suf := by
  apply List.filter_eq_self.2
  intro x hx
  have : x ∈ ofDir l d := by rw [← h]; exact List.mem_append_right _ hx
  exact (List.mem_filter.1 this).2

theorem ofDir_other_of_suffix {l pre suf : List Nat} {d d' : Dir} (h : pre ++ suf = ofDir l d) (hne : d' ≠ d) :
    ofDir suf d' = [] := by
  apply List.filter_eq_nil_iff.2
  intro x hx
  have : x ∈ ofDir l d := by rw [← h]; exact List.mem_append_right _ hx
  have hd := (List.mem_filter.1 this).2
  simp only [decide_eq_true_eq] at hd ⊢
  rw [hd]; exact fun e => hne e.symm

theorem head_dir {l pre t : List Nat} {s : Nat} {d : Dir} (h : pre ++ s :: t = ofDir l d) : sidDir s = d := by
  have : s ∈ ofDir l d := by rw [← h]; simp
  simpa using (List.mem_filter.1 this).2

theorem ofDir_single_same {s : Nat} {d : Dir} (h : sidDir s = d) : ofDir [s] d = [s] := by
  simp [ofDir, h]

theorem ofDir_single_other {s : Nat} {d d' : Dir} (h : sidDir s = d) (hne : d' ≠ d) : ofDir [s] d' = [] := by
  simp only [ofDir, List.filter_cons, List.filter_nil, h]
  have : ¬ d = d' := fun e => hne e.symm
  simp [this]

theorem Remote.answer_panic {κ : Type} (r : Remote κ) (d : Dir) (ka : κ × Option Nat)
    (h : (r.answer d ka).2.1 = true) : (r.answer d ka).1.poisoned = true := by
  unfold Remote.answer at h ⊢
  split at h
  · cases h
  · split at h
    · rename_i hm; simp [hm]
    · cases h

/-- The four outcomes of `try_accept_sid`. -/
theorem Remote.accept_cases {κ : Type} (S : Strategy κ) (r : Remote κ) (s : Nat) :
    ((r.step S (.accept s)).2 = .panic ∧ (r.step S (.accept s)).1.poisoned = true) ∨
    (∃ m, (r.step S (.accept s)).2 = .exceed m) ∨
    ((r.step S (.accept s)).2 = .old ∧ (r.step S (.accept s)).1 = r) ∨
    (∃ f, (r.step S (.accept s)).2 =
        .new (sid r.role (sidDir s) (r.unalloc.get (sidDir s))) (sid r.role (sidDir s) (sidIdx s)) f ∧
      r.poisoned = false) := by
  simp only [Remote.step]
  by_cases hp : r.poisoned = true
  · left; simp [hp]
  · by_cases hr : sidRole s ≠ r.role
    · left; simp [hp, hr]
    · by_cases h1 : sidIdx s > r.max.get (sidDir s)
      · right; left; exact ⟨r.max.get (sidDir s), by simp [hp, hr, h1]⟩
      · by_cases h2 : sidIdx s < r.unalloc.get (sidDir s)
        · right; right; left; simp [hp, hr, h1, h2]
        · simp only [hp, hr, h1, h2, if_false, Bool.false_eq_true]
          split
          · rename_i ha
            left; exact ⟨rfl, Remote.answer_panic _ _ _ ha⟩
          · right; right; right
            exact ⟨_, rfl, by simp [hp]⟩

/-- `try_accept_{bi,uni}_sid` keeps the offer invariant: the ids of the `NeedCreate` go to the listener queue of
their kind, in order. -/
theorem acceptSid_offer (e : Endpoint) (s : Nat) (h : Offer e) :
    ∀ e1 ms p, e.acceptSid s = some (e1, ms, p) → Offer e1 := by
  intro e1 ms p he
  have hc := Remote.accept_cases std e.rem s
  have hcases := Remote.step_accept_cases std e.rem s
  have hinv := fun hi => Remote.inv_step std e.rem (.accept s) hi
  unfold Endpoint.acceptSid at he
  generalize hst : e.rem.step std (.accept s) = st at hc hcases hinv he
  obtain ⟨r', o⟩ := st
  simp only at hc hcases hinv he
  rcases hc with ⟨ho, hpo⟩ | ⟨m, ho⟩ | ⟨ho, hr⟩ | ⟨f, ho, hnp⟩
  · subst ho
    simp only at he
    injection he with he; injection he with he _; subst he
    exact Or.inl hpo
  · subst ho; simp only at he; cases he
  · subst ho; subst hr
    simp only at he
    injection he with he; injection he with he _; subst he
    exact h
  · subst ho
    simp only at he
    rcases h with h | h
    · rw [hnp] at h; cases h
    · rcases hcases with ⟨_, _, _, hn⟩ | ⟨_, hrole, _, hge, hcr, hun, hro⟩
      · exact absurd rfl (hn _ _ _)
      · have hids : idsFrom e.rem.role (sidDir s)
            (sidIdx (sid e.rem.role (sidDir s) (e.rem.unalloc.get (sidDir s))))
            (sidIdx (sid e.rem.role (sidDir s) (sidIdx s)) + 1 -
              sidIdx (sid e.rem.role (sidDir s) (e.rem.unalloc.get (sidDir s)))) =
            idsFrom e.rem.role (sidDir s) (e.rem.unalloc.get (sidDir s))
              (sidIdx s + 1 - e.rem.unalloc.get (sidDir s)) := by
          rw [sidIdx_sid, sidIdx_sid]
        rw [hids] at he
        have hri := hinv h.rinv
        cases hd : sidDir s with
        | bi =>
          rw [hd] at he hcr
          simp only at he
          injection he with he; injection he with he _; subst he
          right
          refine ⟨hri, ?_, ?_⟩
          · show ofDir e.offered .bi ++ (e.listenBi ++ _) = ofDir r'.created .bi
            rw [hcr, ofDir_append, ← h.bi, List.append_assoc]
            congr 1; congr 1
            exact (filter_idsFrom_same _ _ _ _).symm
          · show ofDir e.offered .uni ++ e.listenUni = ofDir r'.created .uni
            rw [hcr, ofDir_append, ← h.uni]
            have : ofDir (idsFrom e.rem.role .bi (e.rem.unalloc.get .bi) (sidIdx s + 1 - e.rem.unalloc.get .bi)) .uni = [] :=
              filter_idsFrom_other _ _ _ (by decide)
            rw [this, List.append_nil]
        | uni =>
          rw [hd] at he hcr
          simp only at he
          injection he with he; injection he with he _; subst he
          right
          refine ⟨hri, ?_, ?_⟩
          · show ofDir e.offered .bi ++ e.listenBi = ofDir r'.created .bi
            rw [hcr, ofDir_append, ← h.bi]
            have : ofDir (idsFrom e.rem.role .uni (e.rem.unalloc.get .uni) (sidIdx s + 1 - e.rem.unalloc.get .uni)) .bi = [] :=
              filter_idsFrom_other _ _ _ (by decide)
            rw [this, List.append_nil]
          · show ofDir e.offered .uni ++ (e.listenUni ++ _) = ofDir r'.created .uni
            rw [hcr, ofDir_append, ← h.uni, List.append_assoc]
            congr 1; congr 1
            exact (filter_idsFrom_same _ _ _ _).symm

theorem becomeReady_same (e : Endpoint) : Same e e.becomeReady.1 := by
  unfold Endpoint.becomeReady
  split
  · generalize e.loc.step (.revise false e.peerLim.bi e.peerLim.uni) = st
    obtain ⟨l', o⟩ := st
    simp only
    split <;> exact ⟨rfl, rfl, rfl, rfl, rfl, rfl, id⟩
  · exact Same.refl e

end GmQuic.StreamRules
