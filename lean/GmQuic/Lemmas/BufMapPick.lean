import GmQuic.Lemmas.BufMapAbs
/-!
C09 — `BufMap.pick` (transliteration of `BufMap::pick`, `sndbuf.rs`) stays inside the specification relation
`pickOk`, does not panic on a well-formed map, and its new run list abstracts to `SendSpec.picked`.
-/
namespace GmQuic.BufMap
open GmQuic.SendSpec

def obsOf : PickRes → SendObs
  | .none _ => .none
  | .range a b f => .range a b f

/-! ### `least` -/

theorem least_eq' (p : Nat → Bool) (n k : Nat) (hk : k ≤ n) (hlt : ∀ x, x < k → p x = false)
    (hat : k < n → p k = true) : least p n = k := by
  induction n generalizing k with
  | zero => simp [least]; omega
  | succ n ih =>
    simp only [least]
    by_cases hkn : k ≤ n
    · have h1 := ih k hkn hlt (fun h => hat (by omega))
      rw [h1]
      by_cases hkn' : k < n
      · simp [hkn']
      · have : k = n := by omega
        subst this
        simp [hat (by omega)]
    · have : k = n + 1 := by omega
      subst this
      have h1 := ih n (Nat.le_refl _) (fun x hx => hlt x (by omega)) (fun h => by omega)
      rw [h1]
      simp [hlt n (by omega)]

/-! ### `colourAt` -/

theorem pk_colourAt_head_gt (l : List Run) (p : Colour) (x : Nat) (h : ∀ r, l.head? = some r → x < r.1) :
    colourAt l p x = p := by
  have := colourAt_append_gt [] l p x h
  simpa [colourAt] using this

/-- the lookup result is the initial colour or the colour of some run -/
theorem pk_colourAt_mem (l : List Run) (p : Colour) (x : Nat) :
    colourAt l p x = p ∨ ∃ r ∈ l, r.2 = colourAt l p x := by
  induction l generalizing p with
  | nil => left; rfl
  | cons r l ih =>
    obtain ⟨o, c⟩ := r
    simp only [colourAt]
    split
    · left; rfl
    · right
      rcases ih c with h | ⟨r, hr, h⟩
      · exact ⟨(o, c), by simp, h.symm⟩
      · exact ⟨r, by simp [hr], h⟩

theorem pk_colourAt_append_congr (a l l' : List Run) (x : Nat) (h : ∀ p, colourAt l p x = colourAt l' p x) (p : Colour) :
    colourAt (a ++ l) p x = colourAt (a ++ l') p x := by
  induction a generalizing p with
  | nil => exact h p
  | cons r a ih =>
    obtain ⟨o, c⟩ := r
    simp only [List.cons_append, colourAt]
    split
    · rfl
    · exact ih c

theorem Sorted.pk_append_left {a b : List Run} (h : Sorted (a ++ b)) : Sorted a := by
  unfold Sorted at *; exact (List.pairwise_append.1 h).1

theorem Sorted.pk_append_right {a b : List Run} (h : Sorted (a ++ b)) : Sorted b := by
  unfold Sorted at *; exact (List.pairwise_append.1 h).2.1

theorem Sorted.pk_lt {a b : List Run} (h : Sorted (a ++ b)) : ∀ r ∈ a, ∀ r' ∈ b, r.1 < r'.1 := by
  unfold Sorted at *; exact (List.pairwise_append.1 h).2.2

theorem Sorted.pk_head_lt {r : Run} {b : List Run} (h : Sorted (r :: b)) : ∀ r' ∈ b, r.1 < r'.1 := by
  unfold Sorted at *; exact (List.pairwise_cons.1 h).1

theorem Sorted.pk_tail {r : Run} {b : List Run} (h : Sorted (r :: b)) : Sorted b := by
  unfold Sorted at *; exact (List.pairwise_cons.1 h).2

/-- the run that covers `x` -/
theorem pk_colourAt_run (pre post : List Run) (o : Nat) (c p : Colour) (x : Nat)
    (hpre : ∀ r ∈ pre, r.1 ≤ x) (ho : o ≤ x) (hpost : ∀ r, post.head? = some r → x < r.1) :
    colourAt (pre ++ (o, c) :: post) p x = c := by
  rw [colourAt_append_le _ _ _ _ hpre]
  have : ¬ x < o := by omega
  simp only [colourAt, this, if_false]
  exact pk_colourAt_head_gt _ _ _ hpost

/-- recolouring a run only matters for the offsets it covers -/
theorem pk_colourAt_recolour (pre post : List Run) (o : Nat) (c c' p : Colour) (x : Nat)
    (h : x < o ∨ ∃ r, post.head? = some r ∧ r.1 ≤ x) :
    colourAt (pre ++ (o, c) :: post) p x = colourAt (pre ++ (o, c') :: post) p x := by
  apply pk_colourAt_append_congr
  intro p
  simp only [colourAt]
  split
  · rfl
  · rcases h with h | ⟨r, hr, hx⟩
    · omega
    · cases post with
      | nil => simp at hr
      | cons r' post =>
        obtain ⟨o2, c2⟩ := r'
        simp only [List.head?_cons, Option.some.injEq] at hr
        subst hr
        have : ¬ x < o2 := by simp at hx; omega
        simp [colourAt, this]

/-- splitting a run at `e` and recolouring its first part -/
theorem pk_colourAt_split (pre post : List Run) (o e : Nat) (c c' p : Colour) (x : Nat)
    (hpre : ∀ r ∈ pre, r.1 < o) (_hoe : o < e) :
    colourAt (pre ++ (o, c') :: (e, c) :: post) p x =
      if o ≤ x ∧ x < e then c' else colourAt (pre ++ (o, c) :: post) p x := by
  split
  · next h =>
    exact pk_colourAt_run pre _ o c' p x (fun r hr => by have := hpre r hr; omega) h.1
      (fun r hr => by simp at hr; subst hr; exact h.2)
  · next h =>
    apply pk_colourAt_append_congr
    intro p
    simp only [colourAt]
    by_cases h1 : x < o
    · simp [h1]
    · have : ¬ x < e := by omega
      simp [h1, this]

/-- runs of the colour of their predecessor are redundant -/
theorem pk_colourAt_same (f z : List Run) (c : Colour) (x : Nat) (hs : Sorted (f ++ z)) (hf : ∀ r ∈ f, r.2 = c) :
    colourAt (f ++ z) c x = colourAt z c x := by
  induction f with
  | nil => rfl
  | cons r f ih =>
    obtain ⟨o, c'⟩ := r
    have hc : c' = c := hf (o, c') (by simp)
    subst hc
    simp only [List.cons_append, colourAt]
    split
    · next hx =>
      symm
      apply pk_colourAt_head_gt
      intro r hr
      have : r ∈ f ++ z := by
        cases z with
        | nil => simp at hr
        | cons r' z => simp at hr; subst hr; simp
      have := Sorted.pk_head_lt hs r this
      simp at this; omega
    · exact ih (Sorted.pk_tail hs) (fun r hr => hf r (by simp [hr]))

theorem pk_colourAt_drop_same (a f z : List Run) (g : Run) (p : Colour) (x : Nat) (hs : Sorted (a ++ g :: (f ++ z)))
    (hf : ∀ r ∈ f, r.2 = g.2) :
    colourAt (a ++ g :: z) p x = colourAt (a ++ g :: (f ++ z)) p x := by
  apply pk_colourAt_append_congr
  intro p
  obtain ⟨o, c⟩ := g
  simp only [colourAt]
  split
  · rfl
  · exact (pk_colourAt_same f z c x (Sorted.pk_tail (Sorted.pk_append_right hs)) hf).symm

/-! ### the scans of `pick` -/

/-- a run of this colour may be offered -/
def pk_sendable (flow : Nat) (c : Colour) : Prop := c = .lost ∨ (c = .pending ∧ flow ≠ 0)

theorem findPick_spec (flow win : Nat) (runs : List Run) (i : Nat) (sg : Sig) (hwin : ∀ r ∈ runs, r.1 < win) :
    match (findPick flow win runs i sg).1 with
    | none => ∀ r ∈ runs, ¬ pk_sendable flow r.2
    | some (idx, (o, c)) => ∃ pre post, runs = pre ++ (o, c) :: post ∧ idx = i + pre.length ∧
        (∀ r ∈ pre, ¬ pk_sendable flow r.2) ∧ pk_sendable flow c := by
  induction runs generalizing i sg with
  | nil => simp [findPick]
  | cons r rest ih =>
    obtain ⟨o, c⟩ := r
    have ho : ¬ o ≥ win := by have := hwin (o, c) (by simp); simp at this; omega
    have hrest : ∀ r ∈ rest, r.1 < win := fun r hr => hwin r (by simp [hr])
    -- skipping the head: it is not pk_sendable
    have skip : ∀ sg', ¬ pk_sendable flow c →
        match (findPick flow win rest (i + 1) sg').1 with
        | none => ∀ r ∈ (o, c) :: rest, ¬ pk_sendable flow r.2
        | some (idx, (o', c')) => ∃ pre post, (o, c) :: rest = pre ++ (o', c') :: post ∧ idx = i + pre.length ∧
            (∀ r ∈ pre, ¬ pk_sendable flow r.2) ∧ pk_sendable flow c' := by
      intro sg' hc
      have := ih (i + 1) sg' hrest
      split at this
      · next heq =>
        intro r hr
        simp only [List.mem_cons] at hr
        rcases hr with rfl | hr
        · exact hc
        · exact this r hr
      · next idx o' c' heq =>
        obtain ⟨pre, post, h1, h2, h3, h4⟩ := this
        refine ⟨(o, c) :: pre, post, by simp [h1], by simp [h2]; omega, ?_, h4⟩
        intro r hr
        simp only [List.mem_cons] at hr
        rcases hr with rfl | hr
        · exact hc
        · exact h3 r hr
    simp only [findPick, ho, if_false]
    cases c with
    | pending =>
      by_cases hf : flow ≠ 0
      · rw [if_pos hf]
        exact ⟨[], rest, rfl, by simp, by simp, Or.inr ⟨rfl, hf⟩⟩
      · rw [if_neg hf]
        exact skip _ (by simp [pk_sendable]; omega)
    | lost => exact ⟨[], rest, rfl, by simp, by simp, Or.inl rfl⟩
    | flighting => exact skip _ (by simp [pk_sendable])
    | recved => exact skip _ (by simp [pk_sendable])

theorem sameBefore_spec (l : List Run) (col : Colour) (n : Nat) :
    sameBefore l col n ≤ n ∧ ∀ j, sameBefore l col n ≤ j → j < n → ∃ o, l[j]? = some (o, col) := by
  induction n with
  | zero => simp [sameBefore]
  | succ n ih =>
    simp only [sameBefore]
    split
    · next o c heq =>
      split
      · next hc =>
        subst hc
        refine ⟨by omega, fun j h1 h2 => ?_⟩
        by_cases hj : j = n
        · subst hj; exact ⟨o, heq⟩
        · exact ih.2 j h1 (by omega)
      · exact ⟨Nat.le_refl _, fun j h1 h2 => by omega⟩
    · exact ⟨Nat.le_refl _, fun j h1 h2 => by omega⟩

theorem skipSame_spec (col : Colour) (l : List Run) (i : Nat) :
    ∃ k, skipSame col l i = i + k ∧ k ≤ l.length ∧ ∀ r ∈ l.take k, r.2 = col := by
  induction l generalizing i with
  | nil => exact ⟨0, by simp [skipSame]⟩
  | cons r l ih =>
    obtain ⟨o, c⟩ := r
    simp only [skipSame]
    split
    · next hc =>
      obtain ⟨k, h1, h2, h3⟩ := ih (i + 1)
      refine ⟨k + 1, by omega, by simp; omega, ?_⟩
      intro r hr
      simp only [List.take_succ_cons, List.mem_cons] at hr
      rcases hr with rfl | hr
      · exact hc
      · exact h3 r hr
    · exact ⟨0, by simp⟩

theorem pk_setAt_ok (l : List Run) (i : Nat) (r : Run) (h : i < l.length) : setAt l i r = pure (l.set i r) := by
  simp [setAt, h]

theorem pk_insertAt_ok (l : List Run) (i : Nat) (r : Run) (h : i ≤ l.length) :
    insertAt l i r = pure (l.take i ++ r :: l.drop i) := by
  simp [insertAt, h]

theorem pk_drain_ok (l : List Run) (a b : Nat) (h1 : a ≤ b) (h2 : b ≤ l.length) :
    drain l a b = pure (l.take a ++ l.drop b) := by
  simp [drain, h1, h2]

/-! ### list surgery -/

theorem pk_L_set (l : List Run) (i : Nat) (a : Run) (h : i < l.length) : l.set i a = l.take i ++ a :: l.drop (i+1) := by
  rw [List.set_eq_take_append_cons_drop]; simp [h]

theorem pk_L1 (l : List Run) (i index : Nat) (a : Run) (h1 : i < index) (h2 : index < l.length) :
    (if i + 1 < index then ((l.set (i+1) a).take (i + 1 + 1) ++ (l.set (i+1) a).drop (index + 1)) else l.set (i+1) a)
      = l.take (i+1) ++ a :: l.drop (index + 1) := by
  split
  · rw [pk_L_set _ _ _ (by omega)]
    have hA : (l.take (i+1) ++ [a]).length = i + 1 + 1 := by simp; omega
    have e1 : l.take (i+1) ++ a :: l.drop (i+1+1) = (l.take (i+1) ++ [a]) ++ l.drop (i+1+1) := by simp
    rw [e1, List.take_left' hA]
    have : index + 1 = (i + 1 + 1) + (index - i - 1) := by omega
    rw [this, ← List.drop_drop, List.drop_left' hA, List.drop_drop]
    simp
  · have : i + 1 = index := by omega
    subst this
    rw [pk_L_set _ _ _ (by omega)]

theorem pk_L2 (l : List Run) (i index e : Nat) (h1 : i ≤ index) (h2 : index < e) (h3 : e ≤ l.length) :
    (if i < index then ((l.take (index+1) ++ l.drop e).take (i + 1) ++ (l.take (index+1) ++ l.drop e).drop (index + 1))
      else l.take (index+1) ++ l.drop e) = l.take (i+1) ++ l.drop e := by
  split
  · have hA : (l.take (index+1)).length = index + 1 := by simp; omega
    rw [List.drop_left' hA, List.take_append_of_le_length (by omega), List.take_take]
    congr 2; omega
  · have : i = index := by omega
    subst this; rfl

theorem pk_split_at (R : List Run) (i e : Nat) (hi : i < e) (he : e ≤ R.length) :
    ∃ A g F Z, R = A ++ g :: (F ++ Z) ∧ R.take (i+1) ++ R.drop e = A ++ g :: Z ∧
      (∀ r ∈ g :: F, ∃ j, i ≤ j ∧ j < e ∧ R[j]? = some r) ∧ A.length = i := by
  have hi' : i < R.length := by omega
  refine ⟨R.take i, R[i], (R.take e).drop (i+1), R.drop e, ?_, ?_, ?_, ?_⟩
  · have h1 : (R.take e).length = e := by simp; omega
    rw [← List.drop_append_of_le_length (by omega), List.take_append_drop, ← List.drop_eq_getElem_cons,
      List.take_append_drop]
  · rw [List.take_succ_eq_append_getElem hi']; simp only [List.append_assoc, List.nil_append, List.cons_append]
  · intro r hr
    simp only [List.mem_cons] at hr
    rcases hr with rfl | hr
    · exact ⟨i, by omega, hi, by simp⟩
    · rw [List.mem_drop_iff_getElem] at hr
      obtain ⟨j, hj, rfl⟩ := hr
      simp at hj
      refine ⟨i + 1 + j, by omega, by omega, ?_⟩
      simp
  · simp; omega

/-- dropping runs `(i, e)` that all have the colour of run `i` does not change the abstraction -/
theorem pk_colourAt_take_drop (R : List Run) (i e : Nat) (c : Colour) (hi : i < e) (he : e ≤ R.length)
    (hs : Sorted R) (hc : ∀ j, i ≤ j → j < e → ∃ o, R[j]? = some (o, c)) :
    (∀ p x, colourAt (R.take (i + 1) ++ R.drop e) p x = colourAt R p x) ∧ Sorted (R.take (i + 1) ++ R.drop e) ∧
      ∀ r ∈ R.take (i + 1) ++ R.drop e, r ∈ R := by
  obtain ⟨A, g, F, Z, h1, h2, h3, _⟩ := pk_split_at R i e hi he
  have hcol : ∀ r ∈ g :: F, r.2 = c := by
    intro r hr
    obtain ⟨j, hj1, hj2, hj3⟩ := h3 r hr
    obtain ⟨o, ho⟩ := hc j hj1 hj2
    rw [ho] at hj3
    simp only [Option.some.injEq] at hj3
    rw [← hj3]
  rw [h2]
  refine ⟨?_, ?_, ?_⟩
  · intro p x
    rw [h1] at hs ⊢
    apply pk_colourAt_drop_same _ _ _ _ _ _ hs
    intro r hr
    rw [hcol r (by simp [hr]), hcol g (by simp)]
  · rw [h1] at hs
    unfold Sorted at *
    exact List.Pairwise.sublist
      (List.Sublist.append (List.Sublist.refl A) ((List.sublist_append_right F Z).cons_cons g)) hs
  · intro r hr
    rw [h1]
    simp only [List.mem_append, List.mem_cons] at hr ⊢
    rcases hr with h | h | h
    · exact Or.inl h
    · exact Or.inr (Or.inl h)
    · exact Or.inr (Or.inr (Or.inr h))

theorem Sorted.pk_recolour {pre post : List Run} {o : Nat} {c c' : Colour} (h : Sorted (pre ++ (o, c) :: post)) :
    Sorted (pre ++ (o, c') :: post) := by
  unfold Sorted at *
  rw [List.pairwise_append, List.pairwise_cons] at *
  obtain ⟨h1, ⟨h2, h3⟩, h4⟩ := h
  refine ⟨h1, ⟨h2, h3⟩, ?_⟩
  intro r hr r' hr'
  simp only [List.mem_cons] at hr'
  rcases hr' with rfl | hr'
  · exact h4 r hr (o, c) (by simp)
  · exact h4 r hr r' (by simp [hr'])

/-! ### the specification side -/

theorem pk_cand_iff (s : SendSpec) (flow x : Nat) : s.cand flow x = true ↔ pk_sendable flow (s.colour x) := by
  unfold SendSpec.cand pk_sendable
  cases s.colour x <;> simp <;> omega

theorem pk_win_eq (m : BufMap) (s : SendSpec) (hsize : s.size = m.size) (hwin : m.size ≤ s.maxData) :
    s.win = m.size := by
  unfold SendSpec.win; omega

theorem firstCand_none (m : BufMap) (s : SendSpec) (flow : Nat) (hsize : s.size = m.size)
    (hcol : ∀ x, s.colour x = m.abs x) (hwin : m.size ≤ s.maxData)
    (hno : ∀ r ∈ m.runs, ¬ pk_sendable flow r.2) : s.firstCand flow = s.win := by
  unfold SendSpec.firstCand
  apply least_eq' _ _ _ (Nat.le_refl _)
  · intro x hx
    have hx' : x < m.size := by rw [pk_win_eq m s hsize hwin] at hx; exact hx
    cases h : s.cand flow x with
    | false => rfl
    | true =>
      exfalso
      rw [pk_cand_iff, hcol, abs_of_lt _ _ hx'] at h
      rcases pk_colourAt_mem m.runs .recved x with h1 | ⟨r, hr, h1⟩
      · rw [h1] at h; simp [pk_sendable] at h
      · rw [← h1] at h; exact hno r hr h
  · intro h; omega

theorem firstCand_some (m : BufMap) (s : SendSpec) (flow : Nat) (pre post : List Run) (o : Nat) (c : Colour)
    (hwf : WF m) (hsize : s.size = m.size)
    (hcol : ∀ x, s.colour x = m.abs x) (hwin : m.size ≤ s.maxData)
    (hruns : m.runs = pre ++ (o, c) :: post)
    (hpre : ∀ r ∈ pre, ¬ pk_sendable flow r.2) (hc : pk_sendable flow c) :
    s.firstCand flow = o ∧ o < s.win := by
  have ho : o < m.size := hwf.lt_size (o, c) (by simp [hruns])
  have hw := pk_win_eq m s hsize hwin
  have hsorted : Sorted (pre ++ (o, c) :: post) := hruns ▸ hwf.sorted
  refine ⟨least_eq' _ _ _ (by omega) ?_ ?_, by omega⟩
  · intro x hx
    cases h : s.cand flow x with
    | false => rfl
    | true =>
      exfalso
      rw [pk_cand_iff, hcol, abs_of_lt _ _ (by omega), hruns,
        colourAt_append_gt pre _ _ x (by simp; omega)] at h
      rcases pk_colourAt_mem pre .recved x with h1 | ⟨r, hr, h1⟩
      · rw [h1] at h; simp [pk_sendable] at h
      · rw [← h1] at h; exact hpre r hr h
  · intro _
    rw [pk_cand_iff, hcol, abs_of_lt _ _ ho, hruns, pk_colourAt_run pre post o c .recved o
      (fun r hr => Nat.le_of_lt (Sorted.pk_lt hsorted r hr (o, c) (by simp))) (Nat.le_refl _)
      (fun r hr => Sorted.pk_head_lt (Sorted.pk_append_right hsorted) r (by
        cases post with
        | nil => simp at hr
        | cons r' post => simp at hr; subst hr; simp))]
    exact hc

theorem pick_some (m : BufMap) (pred : Nat → Option Nat) (flow win : Nat) (pre post : List Run) (start : Nat)
    (color : Colour) (available : Nat) (sg : Sig)
    (hwf : WF m) (hwin : m.size ≤ win) (h62 : m.size < 2 ^ 62)
    (hruns : m.runs = pre ++ (start, color) :: post)
    (hfind : findPick flow win m.runs 0 {} = (some (pre.length, (start, color)), sg))
    (hpred : pred start = some available) (hav : 0 < available) (hav63 : available < 2 ^ 63)
    (hsend : pk_sendable flow color) :
    ∃ runs' b, pick m pred flow win = .ok ({ m with runs := runs' }, .range start b (color == .pending)) ∧
      Sorted runs' ∧ (∀ r ∈ runs', r.1 < m.size) ∧ start < b ∧ b ≤ m.size ∧
      (∀ r, post.head? = some r → b ≤ r.1) ∧
      b - start ≤ available ∧ (color = .pending → b - start ≤ flow) ∧
      ∀ x, x < m.size → colourAt runs' .recved x =
        if start ≤ x ∧ x < b then .flighting else colourAt m.runs .recved x := by
  have hstart : start < m.size := hwf.lt_size (start, color) (by simp [hruns])
  have hsorted : Sorted (pre ++ (start, color) :: post) := hruns ▸ hwf.sorted
  have hpre_lt : ∀ r ∈ pre, r.1 < start := fun r hr => Sorted.pk_lt hsorted r hr (start, color) (by simp)
  have hpost_gt : ∀ r ∈ post, start < r.1 := Sorted.pk_head_lt (Sorted.pk_append_right hsorted)
  have hlen : pre.length < m.runs.length := by simp [hruns]
  have hset : m.runs.set pre.length (start, .flighting) = pre ++ (start, .flighting) :: post := by
    simp [hruns]
  unfold pick
  rw [hfind]
  dsimp only
  rw [hpred]
  dsimp only
  rw [pk_setAt_ok _ _ _ hlen, hset]
  simp only [pure_bind]
  generalize hal : (if color = Colour.lost then available else min available flow) = allowance
  have hal1 : 0 < allowance ∧ allowance ≤ available ∧ (color = .pending → allowance ≤ flow) := by
    subst hal
    rcases hsend with h | ⟨h, hf⟩ <;> subst h <;> simp <;> omega
  have hP : (pre ++ [(start, Colour.flighting)]).length = pre.length + 1 := by simp
  have hR1 : pre ++ (start, Colour.flighting) :: post = (pre ++ [(start, Colour.flighting)]) ++ post := by simp
  have hnext : (pre ++ (start, Colour.flighting) :: post)[pre.length + 1]? = post.head? := by
    rw [List.getElem?_append_right (by omega)]
    cases post <;> simp
  rw [hnext]
  generalize hE : min (match post.head? with | some (o, _) => o | none => m.size) win = E
  have hE' : start < E ∧ E ≤ m.size ∧ (∀ r, post.head? = some r → E = r.1) ∧ (post = [] → E = m.size) := by
    subst hE
    cases post with
    | nil => simp; omega
    | cons r post =>
      have h1 := hpost_gt r (by simp)
      have h2 := hwf.lt_size r (by simp [hruns])
      simp
      refine ⟨by omega, by omega, by omega⟩
  obtain ⟨hE1, hE2, hE3, hE4⟩ := hE'
  obtain ⟨hi_le, hi_fl⟩ := sameBefore_spec (pre ++ (start, .flighting) :: post) .flighting pre.length
  generalize sameBefore (pre ++ (start, .flighting) :: post) .flighting pre.length = i at *
  have hR1len : (pre ++ (start, Colour.flighting) :: post).length = pre.length + 1 + post.length := by
    simp; omega
  rw [if_neg (by omega)]
  have hfl : ∀ j, i ≤ j → j < pre.length + 1 →
      ∃ o, (pre ++ (start, Colour.flighting) :: post)[j]? = some (o, Colour.flighting) := by
    intro j h1 h2
    by_cases hj : j < pre.length
    · exact hi_fl j h1 hj
    · have : j = pre.length := by omega
      subst this
      exact ⟨start, by simp⟩
  have hR1s : Sorted (pre ++ (start, Colour.flighting) :: post) := Sorted.pk_recolour hsorted
  have hR1lt : ∀ r ∈ pre ++ (start, Colour.flighting) :: post, r.1 < m.size := by
    intro r hr
    simp only [List.mem_append, List.mem_cons] at hr
    rcases hr with h | rfl | h
    · exact hwf.lt_size r (by simp [hruns, h])
    · exact hstart
    · exact hwf.lt_size r (by simp [hruns, h])
  by_cases hsp : start + allowance < E
  · rw [if_pos hsp]
    have hR : pre ++ (start, Colour.flighting) :: (start + allowance, color) :: post =
        (pre ++ [(start, .flighting)]) ++ (start + allowance, color) :: post := by simp
    have hN : (pre ++ (start, Colour.flighting) :: post).take (i + 1) ++
          (start + allowance, color) :: (pre ++ (start, Colour.flighting) :: post).drop (pre.length + 1) =
        (pre ++ (start, Colour.flighting) :: (start + allowance, color) :: post).take (i + 1) ++
          (pre ++ (start, Colour.flighting) :: (start + allowance, color) :: post).drop (pre.length + 1) := by
      rw [hR1, hR, List.take_append_of_le_length (l₂ := post) (by omega),
        List.take_append_of_le_length (l₂ := (start + allowance, color) :: post) (by omega),
        List.drop_left' hP, List.drop_left' hP]
    refine ⟨(pre ++ (start, Colour.flighting) :: (start + allowance, color) :: post).take (i + 1) ++
      (pre ++ (start, Colour.flighting) :: (start + allowance, color) :: post).drop (pre.length + 1),
      start + allowance, ?_, ?_⟩
    · rw [← hN]
      by_cases hi : i < pre.length
      · rw [if_pos hi, pk_setAt_ok _ _ _ (by omega)]
        simp only [pure_bind]
        have h1 := pk_L1 (pre ++ (start, .flighting) :: post) i pre.length (start + allowance, color) hi (by omega)
        by_cases hi2 : i + 1 < pre.length
        · rw [if_pos hi2] at h1 ⊢
          rw [pk_drain_ok _ _ _ (by omega) (by simp <;> omega)]
          simp only [pure_bind]
          rw [h1]; rfl
        · rw [if_neg hi2] at h1 ⊢
          rw [h1]; rfl
      · have : i = pre.length := by omega
        subst this
        rw [if_neg hi, pk_insertAt_ok _ _ _ (by omega)]
        simp only [pure_bind]
        rw [if_neg (by omega)]; rfl
    · have hpostE : ∀ r ∈ post, E ≤ r.1 := by
        intro r hr
        cases post with
        | nil => simp at hr
        | cons r0 post =>
          have h0 := hE3 r0 rfl
          simp only [List.mem_cons] at hr
          rcases hr with rfl | hr
          · omega
          · have := Sorted.pk_head_lt (Sorted.pk_tail (Sorted.pk_append_right hsorted)) r hr
            omega
      have hRs : Sorted (pre ++ (start, Colour.flighting) :: (start + allowance, color) :: post) := by
        unfold Sorted at *
        rw [List.pairwise_append, List.pairwise_cons] at *
        obtain ⟨h1, ⟨h2, h3⟩, h4⟩ := hsorted
        refine ⟨h1, ⟨?_, ?_⟩, ?_⟩
        · intro r hr
          simp only [List.mem_cons] at hr
          rcases hr with rfl | hr
          · show start < start + allowance
            omega
          · exact h2 r hr
        · rw [List.pairwise_cons]
          refine ⟨fun r hr => ?_, h3⟩
          have := hpostE r hr
          show start + allowance < r.1
          omega
        · intro r hr r' hr'
          have := hpre_lt r hr
          simp only [List.mem_cons] at hr'
          rcases hr' with rfl | rfl | hr'
          · exact this
          · show r.1 < start + allowance
            omega
          · have := hpost_gt r' hr'
            omega
      have hRlt : ∀ r ∈ pre ++ (start, Colour.flighting) :: (start + allowance, color) :: post, r.1 < m.size := by
        intro r hr
        simp only [List.mem_append, List.mem_cons] at hr
        rcases hr with h | rfl | rfl | h
        · exact hwf.lt_size r (by simp [hruns, h])
        · exact hstart
        · show start + allowance < m.size
          omega
        · exact hwf.lt_size r (by simp [hruns, h])
      have hRfl : ∀ j, i ≤ j → j < pre.length + 1 →
          ∃ o, (pre ++ (start, Colour.flighting) :: (start + allowance, color) :: post)[j]? =
            some (o, Colour.flighting) := by
        intro j h1 h2
        obtain ⟨o, ho⟩ := hfl j h1 h2
        rw [hR1, List.getElem?_append_left (by omega)] at ho
        exact ⟨o, by rw [hR, List.getElem?_append_left (by omega)]; exact ho⟩
      obtain ⟨hc1, hc2, hc3⟩ := pk_colourAt_take_drop _ i (pre.length + 1) .flighting (by omega)
        (by simp) hRs hRfl
      refine ⟨hc2, fun r hr => hRlt r (hc3 r hr), by omega, by omega, ?_, by omega, ?_, ?_⟩
      · intro r hr
        have := hE3 r hr
        omega
      · intro h
        have := hal1.2.2 h
        omega
      · intro x _
        rw [hc1, pk_colourAt_split pre post start (start + allowance) color .flighting .recved x hpre_lt (by omega),
          hruns]
  · rw [if_neg hsp]
    obtain ⟨k, hk1, hk2, hk3⟩ := skipSame_spec .flighting post (pre.length + 1)
    have hdrop : (pre ++ (start, Colour.flighting) :: post).drop (pre.length + 1) = post := by
      rw [hR1, List.drop_left' hP]
    have hma : mergeAfter (pre ++ (start, Colour.flighting) :: post) pre.length .flighting =
        pure ((pre ++ (start, Colour.flighting) :: post).take (pre.length + 1) ++
          (pre ++ (start, Colour.flighting) :: post).drop (pre.length + 1 + k)) := by
      unfold mergeAfter sameAfterP1
      rw [hdrop, hk1]
      dsimp only
      split
      · exact pk_drain_ok _ _ _ (by omega) (by omega)
      · have : k = 0 := by omega
        subst this
        rw [Nat.add_zero, List.take_append_drop]
    rw [hma]
    simp only [pure_bind]
    refine ⟨(pre ++ (start, Colour.flighting) :: post).take (i + 1) ++
      (pre ++ (start, Colour.flighting) :: post).drop (pre.length + 1 + k), E, ?_, ?_⟩
    · have h2 := pk_L2 (pre ++ (start, Colour.flighting) :: post) i pre.length (pre.length + 1 + k) hi_le
        (by omega) (by omega)
      by_cases hi : i < pre.length
      · rw [if_pos hi] at h2 ⊢
        rw [pk_drain_ok _ _ _ (by omega) (by simp <;> omega)]
        simp only [pure_bind]
        rw [h2]; rfl
      · rw [if_neg hi] at h2 ⊢
        rw [h2]; rfl
    · have hfl2 : ∀ j, i ≤ j → j < pre.length + 1 + k →
          ∃ o, (pre ++ (start, Colour.flighting) :: post)[j]? = some (o, Colour.flighting) := by
        intro j h1 h2
        by_cases hj : j < pre.length + 1
        · exact hfl j h1 hj
        · rw [hR1, List.getElem?_append_right (by omega), hP]
          have hj' : j - (pre.length + 1) < post.length := by omega
          have hmem : post[j - (pre.length + 1)] ∈ post.take k := by
            rw [List.mem_take_iff_getElem]
            exact ⟨j - (pre.length + 1), by omega, rfl⟩
          refine ⟨post[j - (pre.length + 1)].1, ?_⟩
          rw [List.getElem?_eq_getElem hj', ← hk3 _ hmem]
      obtain ⟨hc1, hc2, hc3⟩ := pk_colourAt_take_drop _ i (pre.length + 1 + k) .flighting (by omega)
        (by omega) hR1s hfl2
      refine ⟨hc2, fun r hr => hR1lt r (hc3 r hr), hE1, hE2, ?_, by omega, ?_, ?_⟩
      · intro r hr
        have := hE3 r hr
        omega
      · intro h
        have := hal1.2.2 h
        omega
      · intro x hx
        rw [hc1]
        split
        · next h =>
          exact pk_colourAt_run pre post start .flighting .recved x
            (fun r hr => by have := hpre_lt r hr; omega) h.1
            (fun r hr => by rw [← hE3 r hr]; exact h.2)
        · next h =>
          rw [hruns]
          apply pk_colourAt_recolour
          by_cases hx1 : x < start
          · exact Or.inl hx1
          · right
            cases post with
            | nil => have := hE4 rfl; omega
            | cons r post =>
              have := hE3 r rfl
              exact ⟨r, rfl, by omega⟩

/-- `BufMap::pick` on a well-formed colour map does not panic, answers inside `pickOk`, keeps the map well-formed
and recolours exactly the answered range `Flighting`. -/
theorem pick_refines (m : BufMap) (s : SendSpec) (pred : Nat → Option Nat) (flow : Nat)
    (hwf : WF m) (hsize : s.size = m.size) (hcol : ∀ x, s.colour x = m.abs x)
    (hwin : m.size ≤ s.maxData) (h62 : m.size < 2 ^ 62) (hp : PredDom pred) :
    ∃ m' r, pick m pred flow s.maxData = .ok (m', r) ∧ WF m' ∧ m'.size = m.size ∧
      pickOk s pred flow (obsOf r) ∧ ∀ x, m'.abs x = (s.picked (obsOf r)).colour x := by
  have hw := pk_win_eq m s hsize hwin
  have hlt : ∀ r ∈ m.runs, r.1 < s.maxData := fun r hr => by have := hwf.lt_size r hr; omega
  have hspec := findPick_spec flow s.maxData m.runs 0 {} hlt
  cases hfp : findPick flow s.maxData m.runs 0 {} with
  | mk res sg =>
  rw [hfp] at hspec
  cases res with
  | none =>
    dsimp only at hspec
    refine ⟨m, .none sg, ?_, hwf, rfl, ?_, fun x => (hcol x).symm⟩
    · unfold pick; rw [hfp]; rfl
    · exact Or.inl (firstCand_none m s flow hsize hcol hwin hspec)
  | some v =>
    obtain ⟨idx, start, color⟩ := v
    dsimp only at hspec
    obtain ⟨pre, post, hruns, hidx, hpre, hsend⟩ := hspec
    simp only [Nat.zero_add] at hidx
    subst hidx
    obtain ⟨hfc, hfw⟩ := firstCand_some m s flow pre post start color hwf hsize hcol hwin hruns hpre hsend
    cases hpr : pred start with
    | none =>
      refine ⟨m, .none { sg with cong := true }, ?_, hwf, rfl, ?_, fun x => (hcol x).symm⟩
      · unfold pick; rw [hfp]; dsimp only; rw [hpr]; rfl
      · right; rw [hfc]; exact hpr
    | some available =>
      obtain ⟨hav, hav63⟩ := hp start available hpr
      obtain ⟨runs', b, hpick, hs', hlt', hsb, hbsz, hbpost, hbav, hbflow, habs⟩ :=
        pick_some m pred flow s.maxData pre post start color available sg hwf hwin h62 hruns hfp hpr hav hav63 hsend
      have hsorted : Sorted (pre ++ (start, color) :: post) := hruns ▸ hwf.sorted
      have hcover : ∀ x, start ≤ x → x < b → s.colour x = color := by
        intro x h1 h2
        rw [hcol, abs_of_lt _ _ (by omega), hruns]
        exact pk_colourAt_run pre post start color .recved x
          (fun r hr => by have := Sorted.pk_lt hsorted r hr (start, color) (by simp); simp at this; omega) h1
          (fun r hr => by have := hbpost r hr; omega)
      have hcs : s.colour start = color := hcover start (Nat.le_refl _) hsb
      refine ⟨{ m with runs := runs' }, .range start b (color == .pending), hpick, ⟨hs', hlt'⟩, rfl, ?_, ?_⟩
      · simp only [obsOf, pickOk]
        refine ⟨hfc.symm, hfw, hsb, by omega, ?_, ?_, ?_, ?_⟩
        · intro x h1 h2
          rw [hcover x h2 h1, hcs]
        · rw [hpr]; exact hbav
        · rw [hcs]
        · intro h
          rw [hcs] at h
          exact hbflow h
      · intro x
        simp only [obsOf, SendSpec.picked, setRange]
        by_cases hx : x < m.size
        · rw [abs_of_lt { runs := runs', size := m.size } x hx, hcol, abs_of_lt m x hx]
          exact habs x hx
        · rw [abs_of_ge { runs := runs', size := m.size } x (Nat.le_of_not_lt hx), if_neg (by omega), hcol,
            abs_of_ge m x (by omega)]

end GmQuic.BufMap
