import GmQuic.Lemmas.BufMapAbs
/-!
C09 — `BufMap.pick` (transliteration of `BufMap::pick`, `sndbuf.rs`) stays inside the specification relation
`pickOk`, does not panic on a well-formed map, and its new run list abstracts to `SendSpec.picked`.
-/
namespace GmQuic.BufMap
open GmQuic.SendSpec

def obsOf : PickRes → SendObs
  | .none _ => .none
  | .range a b f => .range a b f

/-! ### `least` -/

theorem least_eq' (p : Nat → Bool) (n k : Nat) (hk : k ≤ n) (hlt : ∀ x, x < k → p x = false)
    (hat : k < n → p k = true) : least p n = k := by
  induction n generalizing k with
  | zero => simp [least]; omega
  | succ n ih =>
    simp only [least]
    by_cases hkn : k ≤ n
    · have h1 := ih k hkn hlt (fun h => hat (by omega))
      rw [h1]
      by_cases hkn' : k < n
      · simp [hkn']
      · have : k = n := by omega
        subst this
        simp [hat (by omega)]
    · have : k = n + 1 := by omega
      subst this
      have h1 := ih n (Nat.le_refl _) (fun x hx => hlt x (by omega)) (fun h => by omega)
      rw [h1]
      simp [hlt n (by omega)]

/-! ### `colourAt` -/

theorem colourAt_head_gt (l : List Run) (p : Colour) (x : Nat) (h : ∀ r, l.head? = some r → x < r.1) :
    colourAt l p x = p := by
  have := colourAt_append_gt [] l p x h
  simpa [colourAt] using this

/-- the lookup result is the initial colour or the colour of some run -/
theorem colourAt_mem (l : List Run) (p : Colour) (x : Nat) :
    colourAt l p x = p ∨ ∃ r ∈ l, r.2 = colourAt l p x := by
  induction l generalizing p with
  | nil => left; rfl
  | cons r l ih =>
    obtain ⟨o, c⟩ := r
    simp only [colourAt]
    split
    · left; rfl
    · right
      rcases ih c with h | ⟨r, hr, h⟩
      · exact ⟨(o, c), by simp, h.symm⟩
      · exact ⟨r, by simp [hr], h⟩

theorem colourAt_append_congr (a l l' : List Run) (x : Nat) (h : ∀ p, colourAt l p x = colourAt l' p x) (p : Colour) :
    colourAt (a ++ l) p x = colourAt (a ++ l') p x := by
  induction a generalizing p with
  | nil => exact h p
  | cons r a ih =>
    obtain ⟨o, c⟩ := r
    simp only [List.cons_append, colourAt]
    split
    · rfl
    · exact ih c

theorem Sorted.append_left {a b : List Run} (h : Sorted (a ++ b)) : Sorted a := by
  unfold Sorted at *; exact (List.pairwise_append.1 h).1

theorem Sorted.append_right {a b : List Run} (h : Sorted (a ++ b)) : Sorted b := by
  unfold Sorted at *; exact (List.pairwise_append.1 h).2.1

theorem Sorted.lt {a b : List Run} (h : Sorted (a ++ b)) : ∀ r ∈ a, ∀ r' ∈ b, r.1 < r'.1 := by
  unfold Sorted at *; exact (List.pairwise_append.1 h).2.2

theorem Sorted.head_lt {r : Run} {b : List Run} (h : Sorted (r :: b)) : ∀ r' ∈ b, r.1 < r'.1 := by
  unfold Sorted at *; exact (List.pairwise_cons.1 h).1

theorem Sorted.tail {r : Run} {b : List Run} (h : Sorted (r :: b)) : Sorted b := by
  unfold Sorted at *; exact (List.pairwise_cons.1 h).2

/-- the run that covers `x` -/
theorem colourAt_run (pre post : List Run) (o : Nat) (c p : Colour) (x : Nat)
    (hpre : ∀ r ∈ pre, r.1 ≤ x) (ho : o ≤ x) (hpost : ∀ r, post.head? = some r → x < r.1) :
    colourAt (pre ++ (o, c) :: post) p x = c := by
  rw [colourAt_append_le _ _ _ _ hpre]
  have : ¬ x < o := by omega
  simp only [colourAt, this, if_false]
  exact colourAt_head_gt _ _ _ hpost

/-- recolouring a run only matters for the offsets it covers -/
theorem colourAt_recolour (pre post : List Run) (o : Nat) (c c' p : Colour) (x : Nat)
    (h : x < o ∨ ∃ r, post.head? = some r ∧ r.1 ≤ x) :
    colourAt (pre ++ (o, c) :: post) p x = colourAt (pre ++ (o, c') :: post) p x := by
  apply colourAt_append_congr
  intro p
  simp only [colourAt]
  split
  · rfl
  · rcases h with h | ⟨r, hr, hx⟩
    · omega
    · cases post with
      | nil => simp at hr
      | cons r' post =>
        obtain ⟨o2, c2⟩ := r'
        simp only [List.head?_cons, Option.some.injEq] at hr
        subst hr
        have : ¬ x < o2 := by simp at hx; omega
        simp [colourAt, this]

/-- splitting a run at `e` and recolouring its first part -/
theorem colourAt_split (pre post : List Run) (o e : Nat) (c c' p : Colour) (x : Nat)
    (hpre : ∀ r ∈ pre, r.1 < o) (_hoe : o < e) :
    colourAt (pre ++ (o, c') :: (e, c) :: post) p x =
      if o ≤ x ∧ x < e then c' else colourAt (pre ++ (o, c) :: post) p x := by
  split
  · next h =>
    exact colourAt_run pre _ o c' p x (fun r hr => by have := hpre r hr; omega) h.1
      (fun r hr => by simp at hr; subst hr; exact h.2)
  · next h =>
    apply colourAt_append_congr
    intro p
    simp only [colourAt]
    by_cases h1 : x < o
    · simp [h1]
    · have : ¬ x < e := by omega
      simp [h1, this]

/-- runs of the colour of their predecessor are redundant -/
theorem colourAt_same (f z : List Run) (c : Colour) (x : Nat) (hs : Sorted (f ++ z)) (hf : ∀ r ∈ f, r.2 = c) :
    colourAt (f ++ z) c x = colourAt z c x := by
  induction f with
  | nil => rfl
  | cons r f ih =>
    obtain ⟨o, c'⟩ := r
    have hc : c' = c := hf (o, c') (by simp)
    subst hc
    simp only [List.cons_append, colourAt]
    split
    · next hx =>
      symm
      apply colourAt_head_gt
      intro r hr
      have : r ∈ f ++ z := by
        cases z with
        | nil => simp at hr
        | cons r' z => simp at hr; subst hr; simp
      have := Sorted.head_lt hs r this
      simp at this; omega
    · exact ih (Sorted.tail hs) (fun r hr => hf r (by simp [hr]))

theorem colourAt_drop_same (a f z : List Run) (g : Run) (p : Colour) (x : Nat) (hs : Sorted (a ++ g :: (f ++ z)))
    (hf : ∀ r ∈ f, r.2 = g.2) :
    colourAt (a ++ g :: z) p x = colourAt (a ++ g :: (f ++ z)) p x := by
  apply colourAt_append_congr
  intro p
  obtain ⟨o, c⟩ := g
  simp only [colourAt]
  split
  · rfl
  · exact (colourAt_same f z c x (Sorted.tail (Sorted.append_right hs)) hf).symm

/-! ### the scans of `pick` -/

/-- a run of this colour may be offered -/
def sendable (flow : Nat) (c : Colour) : Prop := c = .lost ∨ (c = .pending ∧ flow ≠ 0)

theorem findPick_spec (flow win : Nat) (runs : List Run) (i : Nat) (sg : Sig) (hwin : ∀ r ∈ runs, r.1 < win) :
    match (findPick flow win runs i sg).1 with
    | none => ∀ r ∈ runs, ¬ sendable flow r.2
    | some (idx, (o, c)) => ∃ pre post, runs = pre ++ (o, c) :: post ∧ idx = i + pre.length ∧
        (∀ r ∈ pre, ¬ sendable flow r.2) ∧ sendable flow c := by
  induction runs generalizing i sg with
  | nil => simp [findPick]
  | cons r rest ih =>
    obtain ⟨o, c⟩ := r
    have ho : ¬ o ≥ win := by have := hwin (o, c) (by simp); simp at this; omega
    have hrest : ∀ r ∈ rest, r.1 < win := fun r hr => hwin r (by simp [hr])
    -- skipping the head: it is not sendable
    have skip : ∀ sg', ¬ sendable flow c →
        match (findPick flow win rest (i + 1) sg').1 with
        | none => ∀ r ∈ (o, c) :: rest, ¬ sendable flow r.2
        | some (idx, (o', c')) => ∃ pre post, (o, c) :: rest = pre ++ (o', c') :: post ∧ idx = i + pre.length ∧
            (∀ r ∈ pre, ¬ sendable flow r.2) ∧ sendable flow c' := by
      intro sg' hc
      have := ih (i + 1) sg' hrest
      split at this
      · next heq =>
        intro r hr
        simp only [List.mem_cons] at hr
        rcases hr with rfl | hr
        · exact hc
        · exact this r hr
      · next idx o' c' heq =>
        obtain ⟨pre, post, h1, h2, h3, h4⟩ := this
        refine ⟨(o, c) :: pre, post, by simp [h1], by simp [h2]; omega, ?_, h4⟩
        intro r hr
        simp only [List.mem_cons] at hr
        rcases hr with rfl | hr
        · exact hc
        · exact h3 r hr
    simp only [findPick, ho, if_false]
    cases c with
    | pending =>
      by_cases hf : flow ≠ 0
      · rw [if_pos hf]
        exact ⟨[], rest, rfl, by simp, by simp, Or.inr ⟨rfl, hf⟩⟩
      · rw [if_neg hf]
        exact skip _ (by simp [sendable]; omega)
    | lost => exact ⟨[], rest, rfl, by simp, by simp, Or.inl rfl⟩
    | flighting => exact skip _ (by simp [sendable])
    | recved => exact skip _ (by simp [sendable])

theorem sameBefore_spec (l : List Run) (col : Colour) (n : Nat) :
    sameBefore l col n ≤ n ∧ ∀ j, sameBefore l col n ≤ j → j < n → ∃ o, l[j]? = some (o, col) := by
  induction n with
  | zero => simp [sameBefore]
  | succ n ih =>
    simp only [sameBefore]
    split
    · next o c heq =>
      split
      · next hc =>
        subst hc
        refine ⟨by omega, fun j h1 h2 => ?_⟩
        by_cases hj : j = n
        · subst hj; exact ⟨o, heq⟩
        · exact ih.2 j h1 (by omega)
      · exact ⟨Nat.le_refl _, fun j h1 h2 => by omega⟩
    · exact ⟨Nat.le_refl _, fun j h1 h2 => by omega⟩

theorem skipSame_spec (col : Colour) (l : List Run) (i : Nat) :
    ∃ k, skipSame col l i = i + k ∧ k ≤ l.length ∧ ∀ r ∈ l.take k, r.2 = col := by
  induction l generalizing i with
  | nil => exact ⟨0, by simp [skipSame]⟩
  | cons r l ih =>
    obtain ⟨o, c⟩ := r
    simp only [skipSame]
    split
    · next hc =>
      obtain ⟨k, h1, h2, h3⟩ := ih (i + 1)
      refine ⟨k + 1, by omega, by simp; omega, ?_⟩
      intro r hr
      simp only [List.take_succ_cons, List.mem_cons] at hr
      rcases hr with rfl | hr
      · exact hc
      · exact h3 r hr
    · exact ⟨0, by simp⟩

theorem setAt_ok (l : List Run) (i : Nat) (r : Run) (h : i < l.length) : setAt l i r = pure (l.set i r) := by
  simp [setAt, h]

theorem insertAt_ok (l : List Run) (i : Nat) (r : Run) (h : i ≤ l.length) :
    insertAt l i r = pure (l.take i ++ r :: l.drop i) := by
  simp [insertAt, h]

theorem drain_ok (l : List Run) (a b : Nat) (h1 : a ≤ b) (h2 : b ≤ l.length) :
    drain l a b = pure (l.take a ++ l.drop b) := by
  simp [drain, h1, h2]

/-! ### list surgery -/

theorem L_set (l : List Run) (i : Nat) (a : Run) (h : i < l.length) : l.set i a = l.take i ++ a :: l.drop (i+1) := by
  rw [List.set_eq_take_append_cons_drop]; simp [h]

theorem L1 (l : List Run) (i index : Nat) (a : Run) (h1 : i < index) (h2 : index < l.length) :
    (if i + 1 < index then ((l.set (i+1) a).take (i + 1 + 1) ++ (l.set (i+1) a).drop (index + 1)) else l.set (i+1) a)
      = l.take (i+1) ++ a :: l.drop (index + 1) := by
  split
  · rw [L_set _ _ _ (by omega)]
    have hA : (l.take (i+1) ++ [a]).length = i + 1 + 1 := by simp; omega
    have e1 : l.take (i+1) ++ a :: l.drop (i+1+1) = (l.take (i+1) ++ [a]) ++ l.drop (i+1+1) := by simp
    rw [e1, List.take_left' hA]
    have : index + 1 = (i + 1 + 1) + (index - i - 1) := by omega
    rw [this, ← List.drop_drop, List.drop_left' hA, List.drop_drop]
    simp
  · have : i + 1 = index := by omega
    subst this
    rw [L_set _ _ _ (by omega)]

theorem L2 (l : List Run) (i index e : Nat) (h1 : i ≤ index) (h2 : index < e) (h3 : e ≤ l.length) :
    (if i < index then ((l.take (index+1) ++ l.drop e).take (i + 1) ++ (l.take (index+1) ++ l.drop e).drop (index + 1))
      else l.take (index+1) ++ l.drop e) = l.take (i+1) ++ l.drop e := by
  split
  · have hA : (l.take (index+1)).length = index + 1 := by simp; omega
    rw [List.drop_left' hA, List.take_append_of_le_length (by omega), List.take_take]
    congr 2; omega
  · have : i = index := by omega
    subst this; rfl

theorem split_at (R : List Run) (i e : Nat) (hi : i < e) (he : e ≤ R.length) :
    ∃ A g F Z, R = A ++ g :: (F ++ Z) ∧ R.take (i+1) ++ R.drop e = A ++ g :: Z ∧
      (∀ r ∈ g :: F, ∃ j, i ≤ j ∧ j < e ∧ R[j]? = some r) ∧ A.length = i := by
  have hi' : i < R.length := by omega
  refine ⟨R.take i, R[i], (R.take e).drop (i+1), R.drop e, ?_, ?_, ?_, ?_⟩
  · have h1 : (R.take e).length = e := by simp; omega
    rw [← List.drop_append_of_le_length (by omega), List.take_append_drop, ← List.drop_eq_getElem_cons,
      List.take_append_drop]
  · rw [List.take_succ_eq_append_getElem hi']; simp only [List.append_assoc, List.nil_append, List.cons_append]
  · intro r hr
    simp only [List.mem_cons] at hr
    rcases hr with rfl | hr
    · exact ⟨i, by omega, hi, by simp⟩
    · rw [List.mem_drop_iff_getElem] at hr
      obtain ⟨j, hj, rfl⟩ := hr
      simp at hj
      refine ⟨i + 1 + j, by omega, by omega, ?_⟩
      simp
  · simp; omega

end GmQuic.BufMap
