import GmQuic.Model.Stream
/-!
C01 helper lemmas, part 5: the state machines only move along the RFC 9000 §3.1 / §3.2 diagrams.
-/
namespace GmQuic.Stream
open GmQuic.RecvBuf (Bytes)

/-- Reachability in the sending-part diagram of RFC 9000 §3.1:
`Ready → Send → DataSent → DataRecvd`, and `Ready/Send/DataSent → ResetSent → ResetRecvd`. -/
def SSt.reach : SSt → SSt → Bool
  | .ready, _ => true
  | .sending, .ready => false
  | .sending, _ => true
  | .dataSent, .ready | .dataSent, .sending => false
  | .dataSent, _ => true
  | .dataRcvd, .dataRcvd => true
  | .dataRcvd, _ => false
  | .resetSent, .resetSent | .resetSent, .resetRcvd => true
  | .resetSent, _ => false
  | .resetRcvd, .resetRcvd => true
  | .resetRcvd, _ => false

/-- Reachability in the receiving-part diagram of RFC 9000 §3.2:
`Recv → SizeKnown → DataRecvd → DataRead`, and `Recv/SizeKnown → ResetRecvd → ResetRead`. -/
def RSt.reach : RSt → RSt → Bool
  | .recv, _ => true
  | .sizeKnown, .recv => false
  | .sizeKnown, _ => true
  | .dataRcvd, .dataRcvd | .dataRcvd, .dataRead => true
  | .dataRcvd, _ => false
  | .dataRead, .dataRead => true
  | .dataRead, _ => false
  | .resetRcvd, .resetRcvd | .resetRcvd, .resetRead => true
  | .resetRcvd, _ => false
  | .resetRead, .resetRead => true
  | .resetRead, _ => false

theorem SSt.reach_refl (a : SSt) : a.reach a = true := by cases a <;> rfl
theorem SSt.reach_trans {a b c : SSt} : a.reach b = true → b.reach c = true → a.reach c = true := by
  cases a <;> cases b <;> cases c <;> simp [SSt.reach]
theorem RSt.reach_refl (a : RSt) : a.reach a = true := by cases a <;> rfl
theorem RSt.reach_trans {a b c : RSt} : a.reach b = true → b.reach c = true → a.reach c = true := by
  cases a <;> cases b <;> cases c <;> simp [RSt.reach]

/-! ### one step of each sender function -/

theorem write_reach (s : Sender) (bs : Bytes) : s.st.reach (s.write bs).1.st = true := by
  unfold Sender.write
  cases s.err <;> cases hst : s.st <;> cases s.shutdown <;> simp [SSt.reach, hst]

theorem shutdown_reach (s : Sender) : s.st.reach s.pollShutdown.1.st = true := by
  unfold Sender.pollShutdown
  cases s.err <;> cases hst : s.st <;> simp [SSt.reach, hst]

theorem touch_reach (s : Sender) : s.st.reach s.touch.st = true := by
  unfold Sender.touch
  cases s.err <;> cases hst : s.st <;> simp [SSt.reach, hst]

theorem pick_reach (s : Sender) (off len : Nat) (h : s.live = true) : s.st.reach (s.pick off len).1.st = true := by
  unfold Sender.live at h
  unfold Sender.pick
  cases hst : s.st <;> simp [hst] at h ⊢ <;> (try split) <;> simp [SSt.reach]

theorem ack_reach (s : Sender) (f : Frame) : s.st.reach (s.ack f).st = true := by
  unfold Sender.ack
  cases s.err <;> cases hst : s.st <;> simp only [Bool.false_eq_true, if_false, if_true] <;>
    (try split) <;> (try split) <;> simp [SSt.reach, hst]

theorem lose_reach (s : Sender) (f : Frame) : s.st.reach (s.lose f).st = true := by
  unfold Sender.lose
  cases s.err <;> cases hst : s.st <;> simp [SSt.reach, hst]

theorem window_reach (s : Sender) (m : Nat) : s.st.reach (s.updateWindow m).st = true := by
  unfold Sender.updateWindow
  cases s.err <;> cases hst : s.st <;> simp only [Bool.false_eq_true, if_false, if_true] <;>
    (try split) <;> simp [SSt.reach, hst]

theorem cancel_reach (s : Sender) : s.st.reach s.cancel.1.st = true := by
  unfold Sender.cancel
  cases s.err <;> cases hst : s.st <;> simp [SSt.reach, hst]

theorem stopped_reach (s : Sender) : s.st.reach s.beStopped.1.st = true := by
  unfold Sender.beStopped
  cases s.err <;> cases hst : s.st <;> simp [SSt.reach, hst]

theorem resetAcked_reach (s : Sender) : s.st.reach s.resetAcked.st = true := by
  unfold Sender.resetAcked
  cases s.closed <;> cases s.err <;> cases hst : s.st <;> simp [SSt.reach, hst]

theorem connError_reach (s : Sender) : s.st.reach s.connError.st = true := by
  unfold Sender.connError
  cases s.err <;> cases hst : s.st <;> simp [SSt.reach, hst]

theorem step_sreach (s : Stream) (op : Op) : s.snd.st.reach (s.step op).snd.st = true := by
  cases op <;> simp only [Stream.step]
  case write bs => exact write_reach _ _
  case shutdown => exact shutdown_reach _
  case pick off len =>
    split
    · rename_i h; exact pick_reach _ _ _ h.1
    · exact SSt.reach_refl _
  case touch => exact touch_reach _
  case deliver i => split <;> exact SSt.reach_refl _
  case ack i =>
    split
    · exact ack_reach _ _
    · exact SSt.reach_refl _
  case lose i =>
    split
    · exact lose_reach _ _
    · exact SSt.reach_refl _
  case read cap => split <;> exact SSt.reach_refl _
  case cancel => exact cancel_reach _
  case stop => exact SSt.reach_refl _
  case deliverStop =>
    split
    · exact SSt.reach_refl _
    · exact stopped_reach _
  case deliverReset i => split <;> exact SSt.reach_refl _
  case ackReset =>
    split
    · exact SSt.reach_refl _
    · exact resetAcked_reach _
  case deliverMsd i =>
    split
    · exact window_reach _ _
    · exact SSt.reach_refl _
  case connErrorSnd => exact connError_reach _
  case connErrorRcv => exact SSt.reach_refl _

/-! ### receiver -/

theorem rx_reach (r : Recver) (f : Frame) : r.st.reach (r.rx f).1.st = true := by
  unfold Recver.rx
  split
  · exact RSt.reach_refl _
  cases hst : r.st <;> simp only [] <;> repeat' split
  all_goals simp [RSt.reach, hst]

theorem read_reach (r : Recver) (cap : Nat) : r.st.reach (r.read cap).1.st = true := by
  unfold Recver.read
  split
  · exact RSt.reach_refl _
  cases hst : r.st <;> simp only [] <;> repeat' split
  all_goals simp [RSt.reach, hst]

theorem stop_reach (r : Recver) : r.st.reach r.stop.1.st = true := by
  unfold Recver.stop
  cases r.err <;> cases hst : r.st <;> simp only [Bool.false_eq_true, if_false, if_true] <;>
    (try split) <;> simp [RSt.reach, hst]

theorem rxReset_reach (r : Recver) (v : Nat) : r.st.reach (r.rxReset v).1.st = true := by
  unfold Recver.rxReset
  split
  · exact RSt.reach_refl _
  split
  · exact RSt.reach_refl _
  cases hst : r.st <;> (try simp only []) <;> repeat' split
  all_goals simp [RSt.reach, hst]

theorem rconnError_reach (r : Recver) : r.st.reach r.connError.st = true := by
  unfold Recver.connError
  split
  · exact RSt.reach_refl _
  cases hst : r.st <;> simp [RSt.reach, hst]

theorem step_rreach (s : Stream) (op : Op) : s.rcv.st.reach (s.step op).rcv.st = true := by
  cases op <;> simp only [Stream.step]
  case write bs => exact RSt.reach_refl _
  case shutdown => exact RSt.reach_refl _
  case pick off len => split <;> exact RSt.reach_refl _
  case touch => exact RSt.reach_refl _
  case deliver i =>
    split
    · exact rx_reach _ _
    · exact RSt.reach_refl _
  case ack i => split <;> exact RSt.reach_refl _
  case lose i => split <;> exact RSt.reach_refl _
  case read cap => split <;> exact read_reach _ _
  case cancel => exact RSt.reach_refl _
  case stop => exact stop_reach _
  case deliverStop => split <;> exact RSt.reach_refl _
  case deliverReset i =>
    split
    · exact rxReset_reach _ _
    · exact RSt.reach_refl _
  case ackReset => split <;> exact RSt.reach_refl _
  case deliverMsd i => split <;> exact RSt.reach_refl _
  case connErrorSnd => exact RSt.reach_refl _
  case connErrorRcv => exact rconnError_reach _

theorem run_sreach (s : Stream) (ops : List Op) : s.snd.st.reach (s.run ops).snd.st = true := by
  induction ops generalizing s with
  | nil => exact SSt.reach_refl _
  | cons op ops ih => exact SSt.reach_trans (step_sreach s op) (ih (s.step op))

theorem run_rreach (s : Stream) (ops : List Op) : s.rcv.st.reach (s.run ops).rcv.st = true := by
  induction ops generalizing s with
  | nil => exact RSt.reach_refl _
  | cons op ops ih => exact RSt.reach_trans (step_rreach s op) (ih (s.step op))

end GmQuic.Stream
