import GmQuic.Model.RecvBuf
/-!
Specification vocabulary and helper lemmas for C08 (`RecvBuf`).  The property theorems themselves are in
`GmQuic/Props/C08.lean`.

Part 1: vocabulary (`Inv`, `Op.SliceOf`, `arrived`, `maxEnd`).
Part 2: the chain form `Wf` of the structural invariant and what `ins`, `readGo`, `tryNext` do to it.
Part 3: run-level induction principle and the combined run invariant.
-/
namespace GmQuic.RecvBuf

/-! ## Part 1: specification vocabulary -/

/-- The slice of `src` that a fragment at `off` of length `len` must carry. -/
def slice (src : Bytes) (off len : Nat) : Bytes := (src.drop off).take len

/-- Reassembly invariant with respect to the original byte string `src`. -/
structure Inv (src : Bytes) (s : State) : Prop where
  /-- sorted and pairwise disjoint: an earlier segment ends before a later one starts -/
  sorted : s.segs.Pairwise (fun a b => a.stop ≤ b.off)
  /-- no empty segment is stored -/
  nonempty : ∀ seg ∈ s.segs, seg.data ≠ []
  /-- nothing already read is stored (`segments[0].offset >= nread`) -/
  first_ge : ∀ seg ∈ s.segs.head?, s.nread ≤ seg.off
  /-- every segment carries exactly the bytes of `src` at its position -/
  content : ∀ seg ∈ s.segs, seg.data = (src.drop seg.off).take seg.data.length
  /-- every segment ends at or below `largest_offset` -/
  stop_le : ∀ seg ∈ s.segs, seg.stop ≤ s.largest
  largest_le : s.largest ≤ src.length
  nread_le : s.nread ≤ s.largest

/-- The premise of the property: every received fragment is a slice of `src`. -/
def Op.SliceOf (src : Bytes) : Op → Prop
  | .recv off data => off + data.length ≤ src.length ∧ data = (src.drop off).take data.length
  | .read _ => True
  | .next => True

/-- The `recv` op covers stream offset `x`. -/
def Op.covers : Op → Nat → Prop
  | .recv off data, x => off ≤ x ∧ x < off + data.length
  | .read _, _ => False
  | .next, _ => False

/-- Offset `x` has arrived: some `recv` op of the history covers it. -/
def arrived (ops : List Op) (x : Nat) : Prop := ∃ op ∈ ops, op.covers x

/-- `off + len` of a non-empty `recv` op, 0 for every other op. -/
def Op.endOf : Op → Nat
  | .recv off data => if data.isEmpty then 0 else off + data.length
  | .read _ => 0
  | .next => 0

/-- Largest `off + len` over the non-empty `recv` ops of a history (0 if none); see `maxEnd_is_max`. -/
def maxEnd (ops : List Op) : Nat := ops.foldl (fun m op => max m op.endOf) 0

/-- Offset `y` is stored in some segment. -/
def covered (segs : List Seg) (y : Nat) : Prop := ∃ seg ∈ segs, seg.off ≤ y ∧ y < seg.stop

/-! ## Part 2: chain form of the structural invariant -/

/-- `Wf lo hi segs`: the segments are non-empty, start at or after `lo`, each ends before the next starts,
and all end at or below `hi`. -/
def Wf (lo hi : Nat) : List Seg → Prop
  | [] => True
  | s :: rest => lo ≤ s.off ∧ s.data ≠ [] ∧ s.stop ≤ hi ∧ Wf s.stop hi rest

/-- every stored segment is the slice of `src` it claims to be -/
def Content (src : Bytes) (segs : List Seg) : Prop :=
  ∀ seg ∈ segs, seg.data = (src.drop seg.off).take seg.data.length

theorem Wf.mono {lo lo' hi hi' : Nat} {segs : List Seg} (h : Wf lo hi segs) (h1 : lo' ≤ lo) (h2 : hi ≤ hi') :
    Wf lo' hi' segs := by
  induction segs generalizing lo lo' with
  | nil => trivial
  | cons s rest ih =>
    obtain ⟨a, b, c, d⟩ := h
    exact ⟨by omega, b, by omega, ih d (Nat.le_refl _)⟩

theorem Seg.off_lt_stop {s : Seg} (h : s.data ≠ []) : s.off < s.stop := by
  have : 0 < s.data.length := List.length_pos_iff.mpr h
  unfold Seg.stop; omega

theorem Wf.off_ge {lo hi : Nat} {segs : List Seg} (h : Wf lo hi segs) :
    ∀ seg ∈ segs, lo ≤ seg.off ∧ seg.data ≠ [] ∧ seg.stop ≤ hi := by
  induction segs generalizing lo with
  | nil => simp
  | cons s rest ih =>
    obtain ⟨a, b, c, d⟩ := h
    intro seg hm
    rcases List.mem_cons.mp hm with rfl | hm
    · exact ⟨a, b, c⟩
    · have h1 := ih d seg hm
      have h2 := Seg.off_lt_stop b
      exact ⟨by omega, h1.2⟩

theorem Wf.covered_ge {lo hi : Nat} {segs : List Seg} (h : Wf lo hi segs) {y : Nat} (hc : covered segs y) :
    lo ≤ y := by
  obtain ⟨seg, hm, h1, _⟩ := hc
  have := h.off_ge seg hm
  omega

theorem Wf.pairwise {lo hi : Nat} {segs : List Seg} (h : Wf lo hi segs) :
    segs.Pairwise (fun a b => a.stop ≤ b.off) := by
  induction segs generalizing lo with
  | nil => simp
  | cons s rest ih =>
    obtain ⟨_, _, _, d⟩ := h
    refine List.pairwise_cons.mpr ⟨fun b hb => (d.off_ge b hb).1, ih d⟩

theorem wf_of_pairwise {lo hi : Nat} {segs : List Seg}
    (hp : segs.Pairwise (fun a b => a.stop ≤ b.off)) (hne : ∀ seg ∈ segs, seg.data ≠ [])
    (hfirst : ∀ seg ∈ segs.head?, lo ≤ seg.off) (hstop : ∀ seg ∈ segs, seg.stop ≤ hi) : Wf lo hi segs := by
  induction segs generalizing lo with
  | nil => trivial
  | cons s rest ih =>
    have hp' := List.pairwise_cons.mp hp
    refine ⟨hfirst s (by simp), hne s (by simp), hstop s (by simp), ?_⟩
    apply ih hp'.2 (fun seg hm => hne seg (by simp [hm])) _ (fun seg hm => hstop seg (by simp [hm]))
    intro seg hm
    cases rest with
    | nil => simp at hm
    | cons r rest' =>
      simp at hm; subst hm
      exact hp'.1 _ (by simp)

/-- The readable structure `Inv` is the chain invariant plus content. -/
theorem inv_iff (src : Bytes) (s : State) :
    Inv src s ↔ Wf s.nread s.largest s.segs ∧ Content src s.segs ∧ s.largest ≤ src.length ∧ s.nread ≤ s.largest := by
  constructor
  · intro h
    exact ⟨wf_of_pairwise h.sorted h.nonempty h.first_ge h.stop_le, h.content, h.largest_le, h.nread_le⟩
  · rintro ⟨hw, hc, h1, h2⟩
    refine ⟨hw.pairwise, fun seg hm => (hw.off_ge seg hm).2.1, ?_, hc, fun seg hm => (hw.off_ge seg hm).2.2, h1, h2⟩
    intro seg hm
    cases hs : s.segs with
    | nil => simp [hs] at hm
    | cons a rest =>
      simp [hs] at hm; subst hm
      exact (hw.off_ge a (by simp [hs])).1

/-! ### `largest` bookkeeping (moved here from Props/C08.lean) -/

theorem ins_largest_mono (segs : List Seg) (start : Nat) (data : Bytes) (lg : Nat) :
    lg ≤ (ins segs start data lg).2 := by
  fun_induction ins segs start data lg
  · simp
  · simp; omega
  · simp
  · simp; omega
  · simp_all
  · rename_i h1 h2 h3 pre lg1 r lg' heq ih
    simp only [heq] at ih
    simp only [lg1] at ih
    split at ih <;> omega

theorem tryNext_largest (s : State) : (tryNext s).1.largest = s.largest := by
  unfold tryNext; split <;> (try split) <;> simp

/-! ### unfolding equations of `ins` (one per Rust sub-case) -/

theorem ins_empty (segs : List Seg) (start lg : Nat) : ins segs start [] lg = (segs, lg) := by
  cases segs <;> simp [ins]

theorem ins_nil {start : Nat} {data : Bytes} {lg : Nat} (hd : data ≠ []) :
    ins [] start data lg = ([⟨start, data⟩], max lg (start + data.length)) := by
  simp [ins, hd]

theorem ins_before {seg : Seg} {rest : List Seg} {start : Nat} {data : Bytes} {lg : Nat} (hd : data ≠ [])
    (h : start + data.length ≤ seg.off) :
    ins (seg :: rest) start data lg = (⟨start, data⟩ :: seg :: rest, max lg (start + data.length)) := by
  simp [ins, hd, h]

theorem ins_after {seg : Seg} {rest : List Seg} {start : Nat} {data : Bytes} {lg : Nat} (hd : data ≠ [])
    (h1 : ¬ start + data.length ≤ seg.off) (h2 : seg.stop ≤ start) :
    ins (seg :: rest) start data lg = (seg :: (ins rest start data lg).1, (ins rest start data lg).2) := by
  simp [ins, hd, h1, h2]

theorem ins_overlap {seg : Seg} {rest : List Seg} {start : Nat} {data : Bytes} {lg : Nat} (hd : data ≠ [])
    (h1 : ¬ start + data.length ≤ seg.off) (h2 : ¬ seg.stop ≤ start) :
    ins (seg :: rest) start data lg =
      ((if start < seg.off then [⟨start, data.take (seg.off - start)⟩] else []) ++ seg ::
        (ins rest (max start seg.stop) (data.drop (seg.stop - start)) (if start < seg.off then max lg seg.off else lg)).1,
       (ins rest (max start seg.stop) (data.drop (seg.stop - start)) (if start < seg.off then max lg seg.off else lg)).2) := by
  simp [ins, hd, h1, h2]


/-! ### what `ins` does to coverage, structure and `largest` -/

@[simp] theorem covered_nil (y : Nat) : covered [] y ↔ False := by simp [covered]
@[simp] theorem covered_cons (s : Seg) (rest : List Seg) (y : Nat) :
    covered (s :: rest) y ↔ (s.off ≤ y ∧ y < s.stop) ∨ covered rest y := by simp [covered]
@[simp] theorem covered_append (a b : List Seg) (y : Nat) :
    covered (a ++ b) y ↔ covered a y ∨ covered b y := by
  simp [covered, or_and_right, exists_or]

theorem ins_lg {segs : List Seg} {start : Nat} {data : Bytes} {lg : Nat}
    (hs : ∀ seg ∈ segs, seg.stop ≤ lg) (hd : data ≠ []) :
    (ins segs start data lg).2 = max lg (start + data.length) := by
  induction segs generalizing start data lg with
  | nil => simp [ins_nil hd]
  | cons seg rest ih =>
    have hseg : seg.stop ≤ lg := hs seg (by simp)
    have hrest : ∀ s ∈ rest, s.stop ≤ lg := fun s hm => hs s (by simp [hm])
    have hoff : seg.off ≤ seg.stop := by unfold Seg.stop; omega
    by_cases h1 : start + data.length ≤ seg.off
    · simp [ins_before hd h1]
    · by_cases h2 : seg.stop ≤ start
      · rw [ins_after hd h1 h2]; exact ih hrest hd
      · rw [ins_overlap hd h1 h2]
        simp only
        have hlg1 : (if start < seg.off then max lg seg.off else lg) = lg := by split <;> omega
        rw [hlg1]
        by_cases hd' : data.drop (seg.stop - start) = []
        · rw [hd', ins_empty]
          have : data.length ≤ seg.stop - start := List.drop_eq_nil_iff.mp hd'
          simp only; omega
        · rw [ih hrest hd']
          have : seg.stop - start < data.length := by
            have := List.length_pos_iff.mpr hd'
            simp at this; omega
          simp only [List.length_drop]; omega

theorem ins_wf {lo hi hi' : Nat} {segs : List Seg} {start : Nat} {data : Bytes} {lg : Nat}
    (hw : Wf lo hi segs) (hlo : lo ≤ start) (hhi : hi ≤ hi') (hend : data ≠ [] → start + data.length ≤ hi') :
    Wf lo hi' (ins segs start data lg).1 := by
  induction segs generalizing lo start data lg with
  | nil =>
    by_cases hd : data = []
    · subst hd; simp [ins_empty, Wf]
    · simp [ins_nil hd, Wf, Seg.stop, hd]; exact ⟨hlo, hend hd⟩
  | cons seg rest ih =>
    by_cases hd : data = []
    · subst hd; rw [ins_empty]; exact hw.mono (Nat.le_refl _) hhi
    obtain ⟨a, b, c, d⟩ := hw
    have hlen := hend hd
    by_cases h1 : start + data.length ≤ seg.off
    · rw [ins_before hd h1]
      exact ⟨hlo, hd, by simpa [Seg.stop] using hlen, by simpa [Seg.stop] using h1, b, by omega, d.mono (Nat.le_refl _) hhi⟩
    · by_cases h2 : seg.stop ≤ start
      · rw [ins_after hd h1 h2]
        exact ⟨a, b, by omega, ih d h2 hend⟩
      · rw [ins_overlap hd h1 h2]
        simp only
        have hr : ∀ lg', Wf seg.stop hi' (ins rest (max start seg.stop) (data.drop (seg.stop - start)) lg').1 := by
          intro lg'
          apply ih d (by omega)
          intro hd'
          have := List.length_pos_iff.mpr hd'
          simp only [List.length_drop] at this ⊢
          omega
        have hoff : seg.off ≤ seg.stop := by unfold Seg.stop; omega
        split
        · rename_i hlt
          refine ⟨hlo, ?_, ?_, ?_, b, by omega, hr _⟩
          · have : 0 < (data.take (seg.off - start)).length := by
              have := List.length_pos_iff.mpr hd
              simp only [List.length_take]; omega
            exact List.length_pos_iff.mp this
          · simp only [Seg.stop, List.length_take]; omega
          · simp only [Seg.stop, List.length_take]; omega
        · exact ⟨a, b, by omega, hr _⟩

theorem ins_covered (segs : List Seg) (start : Nat) (data : Bytes) (lg : Nat) (y : Nat) :
    covered (ins segs start data lg).1 y ↔ covered segs y ∨ (start ≤ y ∧ y < start + data.length) := by
  induction segs generalizing start data lg with
  | nil =>
    by_cases hd : data = []
    · subst hd; simp [ins_empty]
    · simp [ins_nil hd, Seg.stop]
  | cons seg rest ih =>
    by_cases hd : data = []
    · subst hd; simp [ins_empty]; omega
    by_cases h1 : start + data.length ≤ seg.off
    · rw [ins_before hd h1]
      by_cases hc : covered rest y <;> simp [Seg.stop, hc] <;> omega
    · by_cases h2 : seg.stop ≤ start
      · rw [ins_after hd h1 h2]
        by_cases hc : covered rest y <;> simp [ih, hc] <;> omega
      · rw [ins_overlap hd h1 h2]
        simp only [covered_append, covered_cons, ih, List.length_drop]
        by_cases hc : covered rest y
        · simp [hc]
        · split
          · simp only [covered_cons, covered_nil, Seg.stop, List.length_take, hc, or_false, false_or] at *; omega
          · simp only [covered_nil, Seg.stop, hc, or_false, false_or] at *; omega

/-! ### content (slices of `src`) -/

/-- `data` is the slice of `src` at `off`. -/
def IsSlice (src : Bytes) (off : Nat) (data : Bytes) : Prop := data = (src.drop off).take data.length

theorem isSlice_nil (src : Bytes) (off : Nat) : IsSlice src off [] := by simp [IsSlice]

theorem IsSlice.take {src : Bytes} {off : Nat} {data : Bytes} (h : IsSlice src off data) (k : Nat) :
    IsSlice src off (data.take k) := by
  unfold IsSlice at *
  conv => lhs; rw [h]
  simp [List.take_take]

theorem IsSlice.drop {src : Bytes} {off : Nat} {data : Bytes} (h : IsSlice src off data) (k : Nat) :
    IsSlice src (off + k) (data.drop k) := by
  unfold IsSlice at *
  conv => lhs; rw [h]
  simp [List.drop_take, List.drop_drop]

theorem IsSlice.stop_le {src : Bytes} {off : Nat} {data : Bytes} (h : IsSlice src off data) (hd : data ≠ []) :
    off + data.length ≤ src.length := by
  unfold IsSlice at h
  have h2 := congrArg List.length h
  have := List.length_pos_iff.mpr hd
  simp only [List.length_take, List.length_drop] at h2
  omega

theorem ins_content {src : Bytes} {segs : List Seg} {start : Nat} {data : Bytes} {lg : Nat}
    (hc : Content src segs) (hd : IsSlice src start data) : Content src (ins segs start data lg).1 := by
  induction segs generalizing start data lg with
  | nil =>
    by_cases hd0 : data = []
    · subst hd0; simpa [ins_empty] using hc
    · simp only [ins_nil hd0]
      intro seg hm; simp at hm; subst hm; exact hd
  | cons seg rest ih =>
    by_cases hd0 : data = []
    · subst hd0; simpa [ins_empty] using hc
    have hseg := hc seg (by simp)
    have hrest : Content src rest := fun s hm => hc s (by simp [hm])
    by_cases h1 : start + data.length ≤ seg.off
    · rw [ins_before hd0 h1]
      intro s hm
      rcases List.mem_cons.mp hm with rfl | hm
      · exact hd
      · exact hc s hm
    · by_cases h2 : seg.stop ≤ start
      · rw [ins_after hd0 h1 h2]
        intro s hm
        rcases List.mem_cons.mp hm with rfl | hm
        · exact hseg
        · exact ih hrest hd s hm
      · rw [ins_overlap hd0 h1 h2]
        have hmax : max start seg.stop = start + (seg.stop - start) := by omega
        have hr : ∀ lg', Content src (ins rest (max start seg.stop) (data.drop (seg.stop - start)) lg').1 := by
          intro lg'; rw [hmax]; exact ih hrest (hd.drop _)
        intro s hm
        simp only [List.mem_append, List.mem_cons] at hm
        rcases hm with hm | rfl | hm
        · split at hm
          · simp at hm; subst hm; exact hd.take _
          · simp at hm
        · exact hseg
        · exact hr _ s hm

/-! ### `contEnd` / `available` -/

theorem contEnd_ge (segs : List Seg) (o : Nat) : o ≤ contEnd segs o := by
  induction segs generalizing o with
  | nil => simp [contEnd]
  | cons seg rest ih =>
    simp only [contEnd]; split
    · have := ih (o + seg.data.length); omega
    · omega

/-- `contEnd` is exactly the end of the contiguous covered run that starts at `lo`. -/
theorem contEnd_spec {lo hi : Nat} {segs : List Seg} (hw : Wf lo hi segs) (x : Nat) :
    x < contEnd segs lo ↔ ∀ y, y ≤ x → (y < lo ∨ covered segs y) := by
  induction segs generalizing lo with
  | nil =>
    simp only [contEnd, covered_nil, or_false]
    constructor
    · intro h y hy; omega
    · intro h; exact h x (Nat.le_refl _)
  | cons seg rest ih =>
    obtain ⟨a, b, c, d⟩ := hw
    simp only [contEnd]
    split
    · rename_i heq
      have : lo + seg.data.length = seg.stop := by unfold Seg.stop; omega
      rw [this, ih d]
      constructor
      · intro h y hy
        rcases h y hy with h | h
        · by_cases hlt : y < lo
          · exact Or.inl hlt
          · exact Or.inr ((covered_cons _ _ _).mpr (Or.inl ⟨by omega, h⟩))
        · exact Or.inr ((covered_cons _ _ _).mpr (Or.inr h))
      · intro h y hy
        rcases h y hy with h | h
        · exact Or.inl (by omega)
        · rcases (covered_cons _ _ _).mp h with h | h
          · exact Or.inl h.2
          · exact Or.inr h
    · rename_i hne
      constructor
      · intro h y hy; exact Or.inl (by omega)
      · intro h
        by_cases hlt : x < lo
        · exact hlt
        · exfalso
          rcases h lo (by omega) with h | h
          · omega
          · have hw' : Wf seg.off hi (seg :: rest) := ⟨Nat.le_refl _, b, c, d⟩
            have := hw'.covered_ge h
            omega

/-! ### `readGo` (`try_read`) -/

theorem readGo_stop {seg : Seg} {rest : List Seg} {nread cap : Nat} (h : seg.off ≠ nread ∨ cap = 0) :
    readGo (seg :: rest) nread cap = (seg :: rest, nread, []) := by
  simp [readGo, h]

theorem readGo_partial {seg : Seg} {rest : List Seg} {nread cap : Nat} (h1 : seg.off = nread) (h2 : cap ≠ 0)
    (h3 : cap < seg.data.length) :
    readGo (seg :: rest) nread cap = (⟨seg.off + cap, seg.data.drop cap⟩ :: rest, nread + cap, seg.data.take cap) := by
  have : min cap seg.data.length = cap := by omega
  simp [readGo, h1, h2, this, h3]

theorem readGo_full {seg : Seg} {rest : List Seg} {nread cap : Nat} (h1 : seg.off = nread) (h2 : cap ≠ 0)
    (h3 : seg.data.length ≤ cap) :
    readGo (seg :: rest) nread cap =
      ((readGo rest (nread + seg.data.length) (cap - seg.data.length)).1,
       (readGo rest (nread + seg.data.length) (cap - seg.data.length)).2.1,
       seg.data ++ (readGo rest (nread + seg.data.length) (cap - seg.data.length)).2.2) := by
  have : min cap seg.data.length = seg.data.length := by omega
  simp [readGo, h1, h2, this]

/-- What `try_read` does to structure, length and coverage (one induction over the segment list). -/
theorem readGo_struct {hi : Nat} {segs : List Seg} {nread cap : Nat} (hw : Wf nread hi segs) :
    (readGo segs nread cap).2.1 = nread + (readGo segs nread cap).2.2.length ∧
    (readGo segs nread cap).2.2.length = min cap (contEnd segs nread - nread) ∧
    Wf (readGo segs nread cap).2.1 hi (readGo segs nread cap).1 ∧
    (∀ y, (y < (readGo segs nread cap).2.1 ∨ covered (readGo segs nread cap).1 y) ↔ (y < nread ∨ covered segs y)) := by
  induction segs generalizing nread cap with
  | nil => simp [readGo, contEnd, Wf]
  | cons seg rest ih =>
    obtain ⟨a, b, c, d⟩ := hw
    have hlen := List.length_pos_iff.mpr b
    by_cases h : seg.off ≠ nread ∨ cap = 0
    · rw [readGo_stop h]
      refine ⟨by simp, ?_, ⟨a, b, c, d⟩, fun y => Iff.rfl⟩
      simp only [contEnd, List.length_nil]
      rcases h with h | h
      · simp [h]
      · omega
    · have h1 : seg.off = nread := by omega
      have h2 : cap ≠ 0 := by omega
      have hce : contEnd (seg :: rest) nread = contEnd rest (nread + seg.data.length) := by simp [contEnd, h1]
      have hge := contEnd_ge rest (nread + seg.data.length)
      by_cases h3 : cap < seg.data.length
      · rw [readGo_partial h1 h2 h3]
        refine ⟨by simp; omega, by simp [hce]; omega, ?_, ?_⟩
        · refine ⟨by simp; omega, ?_, ?_, ?_⟩
          · apply List.length_pos_iff.mp; simp; omega
          · simp [Seg.stop] at *; omega
          · have : (⟨seg.off + cap, seg.data.drop cap⟩ : Seg).stop = seg.stop := by simp [Seg.stop]; omega
            rw [this]; exact d
        · intro y
          by_cases hcv : covered rest y <;> simp [hcv, Seg.stop] <;> omega
      · have h3' : seg.data.length ≤ cap := by omega
        rw [readGo_full h1 h2 h3']
        have hd : Wf (nread + seg.data.length) hi rest := by
          have : nread + seg.data.length = seg.stop := by simp [Seg.stop]; omega
          rw [this]; exact d
        obtain ⟨i1, i2, i3, i6⟩ := ih (nread := nread + seg.data.length) (cap := cap - seg.data.length) hd
        refine ⟨by simp only [i1, List.length_append]; omega, by simp only [List.length_append, i2, hce]; omega, i3, ?_⟩
        intro y
        rw [i6 y]
        by_cases hcv : covered rest y <;> simp [hcv, Seg.stop] <;> omega

/-- What `try_read` hands out is the slice of `src` at `nread`, and what it keeps are still slices. -/
theorem readGo_content {src : Bytes} {segs : List Seg} {nread cap : Nat} (hc : Content src segs) :
    Content src (readGo segs nread cap).1 ∧ IsSlice src nread (readGo segs nread cap).2.2 := by
  induction segs generalizing nread cap with
  | nil => simp [readGo, isSlice_nil]; exact hc
  | cons seg rest ih =>
    have hseg : IsSlice src seg.off seg.data := hc seg (by simp)
    have hrest : Content src rest := fun s hm => hc s (by simp [hm])
    by_cases h : seg.off ≠ nread ∨ cap = 0
    · rw [readGo_stop h]; exact ⟨hc, isSlice_nil _ _⟩
    · have h1 : seg.off = nread := by omega
      have h2 : cap ≠ 0 := by omega
      by_cases h3 : cap < seg.data.length
      · rw [readGo_partial h1 h2 h3]
        refine ⟨?_, ?_⟩
        · intro s hm
          rcases List.mem_cons.mp hm with rfl | hm
          · exact hseg.drop cap
          · exact hrest s hm
        · rw [← h1]; exact hseg.take cap
      · have h3' : seg.data.length ≤ cap := by omega
        rw [readGo_full h1 h2 h3']
        obtain ⟨i4, i5⟩ := ih (nread := nread + seg.data.length) (cap := cap - seg.data.length) hrest
        refine ⟨i4, ?_⟩
        unfold IsSlice at *
        rw [List.length_append, List.take_add, List.drop_drop, ← i5, ← h1, ← hseg]

/-! ### `tryNext` -/

theorem tryNext_none {s : State} (h : (tryNext s).2 = none) : (tryNext s).1 = s := by
  unfold tryNext at *; split <;> (try split) <;> simp_all

theorem tryNext_some_iff (s : State) : (tryNext s).2.isSome ↔ ∃ seg rest, s.segs = seg :: rest ∧ seg.off = s.nread := by
  unfold tryNext; split
  · simp_all
  · split <;> simp_all

theorem tryNext_eq_of_ready {s : State} {seg : Seg} {rest : List Seg} (hs : s.segs = seg :: rest) (h : seg.off = s.nread) :
    tryNext s = ({ s with segs := rest, nread := s.nread + seg.data.length }, some seg.data) := by
  unfold tryNext; simp [hs, h]

/-! ## Part 3: state-level steps -/

/-- structural part of `Inv` (no reference to `src`) -/
def StructInv (s : State) : Prop := Wf s.nread s.largest s.segs ∧ s.nread ≤ s.largest

theorem inv_iff' (src : Bytes) (s : State) :
    Inv src s ↔ StructInv s ∧ Content src s.segs ∧ s.largest ≤ src.length := by
  rw [inv_iff]; unfold StructInv
  constructor
  · rintro ⟨a, b, c, d⟩; exact ⟨⟨a, d⟩, b, c⟩
  · rintro ⟨⟨a, d⟩, b, c⟩; exact ⟨a, b, c, d⟩

/-- start offset and trimmed data of `recv` -/
def recvStart (s : State) (off : Nat) : Nat := max off s.nread
def recvData (s : State) (off : Nat) (data : Bytes) : Bytes := data.drop (min data.length (recvStart s off - off))

theorem recv_fst (s : State) (off : Nat) (data : Bytes) :
    (recv s off data).1 = { s with segs := (ins s.segs (recvStart s off) (recvData s off data) s.largest).1,
                                   largest := (ins s.segs (recvStart s off) (recvData s off data) s.largest).2 } := by
  simp [recv, recvStart, recvData]

theorem recv_snd (s : State) (off : Nat) (data : Bytes) :
    (recv s off data).2 = (recv s off data).1.largest - s.largest := by
  simp [recv]

theorem recvData_end {s : State} {off : Nat} {data : Bytes} (h : recvData s off data ≠ []) :
    recvStart s off + (recvData s off data).length = off + data.length ∧ data ≠ [] := by
  have := List.length_pos_iff.mpr h
  unfold recvData recvStart at *
  simp only [List.length_drop] at *
  refine ⟨by omega, ?_⟩
  intro h0; subst h0; simp at this

theorem recvData_nil {s : State} {off : Nat} {data : Bytes} (h : recvData s off data = []) :
    data = [] ∨ off + data.length ≤ s.nread := by
  have := List.drop_eq_nil_iff.mp h
  unfold recvStart at this
  by_cases hd : data = []
  · exact Or.inl hd
  · have := List.length_pos_iff.mpr hd
    right; omega

theorem recv_largest {s : State} (hs : StructInv s) (off : Nat) (data : Bytes) :
    (recv s off data).1.largest = if data.isEmpty then s.largest else max s.largest (off + data.length) := by
  rw [recv_fst]; simp only
  by_cases hd : recvData s off data = []
  · rw [hd, ins_empty]
    rcases recvData_nil hd with h | h
    · simp [h]
    · split
      · rfl
      · have := hs.2; simp only; omega
  · rw [ins_lg (fun seg hm => (hs.1.off_ge seg hm).2.2) hd]
    obtain ⟨h1, h2⟩ := recvData_end hd
    simp [h2, h1]

theorem recv_struct {s : State} (hs : StructInv s) (off : Nat) (data : Bytes) : StructInv (recv s off data).1 := by
  have hl := recv_largest hs off data
  rw [recv_fst] at *
  simp only at hl
  refine ⟨?_, ?_⟩
  · simp only
    apply ins_wf hs.1 (by unfold recvStart; omega) (hi' := _)
    · rw [hl]; split <;> omega
    · intro hd
      obtain ⟨h1, h2⟩ := recvData_end hd
      rw [hl, h1]; simp [h2]; omega
  · simp only; rw [hl]; have := hs.2; split <;> omega

theorem recvData_slice {src : Bytes} {s : State} {off : Nat} {data : Bytes} (h : IsSlice src off data) :
    IsSlice src (recvStart s off) (recvData s off data) := by
  by_cases hd : recvData s off data = []
  · rw [hd]; exact isSlice_nil _ _
  · have := List.length_pos_iff.mpr hd
    unfold recvData at *
    simp only [List.length_drop] at this
    have h2 := h.drop (min data.length (recvStart s off - off))
    have : off + min data.length (recvStart s off - off) = recvStart s off := by unfold recvStart at *; omega
    rw [this] at h2; exact h2

theorem recv_inv' {src : Bytes} {s : State} (h : Inv src s) {off : Nat} {data : Bytes}
    (hop : (Op.recv off data).SliceOf src) : Inv src (recv s off data).1 := by
  rw [inv_iff'] at *
  obtain ⟨hs, hc, hl⟩ := h
  refine ⟨recv_struct hs off data, ?_, ?_⟩
  · rw [recv_fst]; exact ins_content hc (recvData_slice hop.2)
  · rw [recv_largest hs]; split
    · exact hl
    · have := hop.1; omega

theorem recv_covered (s : State) (off : Nat) (data : Bytes) (y : Nat) :
    (y < (recv s off data).1.nread ∨ covered (recv s off data).1.segs y) ↔
      (y < s.nread ∨ covered s.segs y) ∨ (off ≤ y ∧ y < off + data.length) := by
  rw [recv_fst]; simp only [ins_covered]
  unfold recvData recvStart
  simp only [List.length_drop]
  by_cases hc : covered s.segs y <;> simp [hc] <;> omega

/-! `tryRead` -/

theorem tryRead_fst (s : State) (cap : Nat) :
    (tryRead s cap).1 = { s with segs := (readGo s.segs s.nread cap).1, nread := (readGo s.segs s.nread cap).2.1 } := by
  simp [tryRead]

theorem tryRead_snd (s : State) (cap : Nat) : (tryRead s cap).2 = (readGo s.segs s.nread cap).2.2 := by
  simp [tryRead]

theorem available_eq (s : State) : s.nread + available s = contEnd s.segs s.nread := by
  have := contEnd_ge s.segs s.nread
  unfold available; omega

theorem read_struct {s : State} (hs : StructInv s) (cap : Nat) : StructInv (tryRead s cap).1 := by
  obtain ⟨i1, i2, i3, _⟩ := readGo_struct (cap := cap) hs.1
  rw [tryRead_fst]
  refine ⟨i3, ?_⟩
  simp only
  -- nread' = nread + |out| ≤ contEnd ≤ largest
  cases hsegs : (readGo s.segs s.nread cap).1 with
  | nil =>
    -- no segment left: bound through coverage of the last read byte
    by_cases h0 : (readGo s.segs s.nread cap).2.2.length = 0
    · have := hs.2; omega
    · obtain ⟨_, _, _, i6⟩ := readGo_struct (cap := cap) hs.1
      have hy := (i6 ((readGo s.segs s.nread cap).2.1 - 1)).mp (Or.inl (by omega))
      rcases hy with hy | ⟨seg, hm, _, h2⟩
      · omega
      · have := (hs.1.off_ge seg hm).2.2
        omega
  | cons seg rest =>
    rw [hsegs] at i3
    have := i3.1; have := i3.2.2.1
    have := Seg.off_lt_stop i3.2.1
    omega

theorem read_inv' {src : Bytes} {s : State} (h : Inv src s) (cap : Nat) : Inv src (tryRead s cap).1 := by
  rw [inv_iff'] at *
  obtain ⟨hs, hc, hl⟩ := h
  refine ⟨read_struct hs cap, ?_, ?_⟩
  · rw [tryRead_fst]; exact (readGo_content hc).1
  · rw [tryRead_fst]; exact hl

theorem read_len {s : State} (hs : StructInv s) (cap : Nat) :
    (tryRead s cap).2.length = min cap (available s) ∧
    (tryRead s cap).1.nread = s.nread + (tryRead s cap).2.length := by
  obtain ⟨i1, i2, _, _⟩ := readGo_struct (cap := cap) hs.1
  rw [tryRead_fst, tryRead_snd]
  exact ⟨i2, i1⟩

theorem read_covered {s : State} (hs : StructInv s) (cap : Nat) (y : Nat) :
    (y < (tryRead s cap).1.nread ∨ covered (tryRead s cap).1.segs y) ↔ (y < s.nread ∨ covered s.segs y) := by
  rw [tryRead_fst]; exact (readGo_struct (cap := cap) hs.1).2.2.2 y

theorem read_out {src : Bytes} {s : State} (h : Inv src s) (cap : Nat) {out : Bytes} (ho : out = src.take s.nread) :
    out ++ (tryRead s cap).2 = src.take (tryRead s cap).1.nread := by
  rw [inv_iff'] at h
  have h5 := (readGo_content (nread := s.nread) (cap := cap) h.2.1).2
  rw [(read_len h.1 cap).2, tryRead_snd, ho, List.take_add]
  unfold IsSlice at h5
  rw [← h5]

/-! `tryNext` -/

theorem tryNext_cases (s : State) :
    ((tryNext s).2 = none ∧ (tryNext s).1 = s ∧ available s = 0) ∨
    (∃ seg rest, s.segs = seg :: rest ∧ seg.off = s.nread ∧
      tryNext s = ({ s with segs := rest, nread := s.nread + seg.data.length }, some seg.data)) := by
  unfold tryNext available
  cases hs : s.segs with
  | nil => left; simp [contEnd]
  | cons seg rest =>
    by_cases h : seg.off = s.nread
    · right; exact ⟨seg, rest, rfl, h, by simp [h]⟩
    · left; simp [h, contEnd]

theorem next_struct {s : State} (hs : StructInv s) : StructInv (tryNext s).1 := by
  rcases tryNext_cases s with ⟨_, h, _⟩ | ⟨seg, rest, hsegs, hoff, heq⟩
  · rw [h]; exact hs
  · rw [heq]
    obtain ⟨hw, hn⟩ := hs
    rw [hsegs] at hw
    obtain ⟨a, b, c, d⟩ := hw
    have : s.nread + seg.data.length = seg.stop := by unfold Seg.stop; omega
    refine ⟨?_, ?_⟩
    · simp only; rw [this]; exact d
    · simp only; omega

theorem next_inv' {src : Bytes} {s : State} (h : Inv src s) : Inv src (tryNext s).1 := by
  rw [inv_iff'] at *
  obtain ⟨hs, hc, hl⟩ := h
  refine ⟨next_struct hs, ?_, ?_⟩
  · rcases tryNext_cases s with ⟨_, h, _⟩ | ⟨seg, rest, hsegs, hoff, heq⟩
    · rw [h]; exact hc
    · rw [heq]; intro sg hm; exact hc sg (by rw [hsegs]; simp at hm ⊢; exact Or.inr hm)
  · rcases tryNext_cases s with ⟨_, h, _⟩ | ⟨seg, rest, hsegs, hoff, heq⟩
    · rw [h]; exact hl
    · rw [heq]; exact hl

theorem next_covered (s : State) (y : Nat) :
    (y < (tryNext s).1.nread ∨ covered (tryNext s).1.segs y) ↔ (y < s.nread ∨ covered s.segs y) := by
  rcases tryNext_cases s with ⟨_, h, _⟩ | ⟨seg, rest, hsegs, hoff, heq⟩
  · rw [h]
  · rw [heq, hsegs]; simp only [covered_cons, Seg.stop]
    by_cases hc : covered rest y <;> simp [hc] <;> omega

theorem next_some_iff {s : State} (hs : StructInv s) : (tryNext s).2.isSome ↔ 0 < available s := by
  rcases tryNext_cases s with ⟨h1, _, h3⟩ | ⟨seg, rest, hsegs, hoff, heq⟩
  · simp [h1, h3]
  · rw [heq]; simp only [Option.isSome_some, true_iff]
    have hw := hs.1; rw [hsegs] at hw
    have := List.length_pos_iff.mpr hw.2.1
    have h2 := contEnd_ge rest (s.nread + seg.data.length)
    unfold available; rw [hsegs]; simp only [contEnd, hoff, if_true]; omega

theorem next_out {src : Bytes} {s : State} (h : Inv src s) {out : Bytes} (ho : out = src.take s.nread) :
    out ++ ((tryNext s).2.getD []) = src.take (tryNext s).1.nread := by
  rcases tryNext_cases s with ⟨h1, h2, _⟩ | ⟨seg, rest, hsegs, hoff, heq⟩
  · rw [h1, h2]; simpa using ho
  · rw [heq]; simp only [Option.getD_some]
    have hc := h.content seg (by rw [hsegs]; simp)
    rw [ho, List.take_add, ← hoff, ← hc]

/-- `tryNext` hands out exactly the first stored segment when it is readable. -/
theorem next_len (s : State) :
    (tryNext s).1.nread = s.nread + ((tryNext s).2.getD []).length := by
  rcases tryNext_cases s with ⟨h1, h2, _⟩ | ⟨seg, rest, hsegs, hoff, heq⟩
  · rw [h1, h2]; simp
  · rw [heq]; simp

/-! ## Part 4: runs -/

theorem run_snoc (ops : List Op) (op : Op) : run (ops ++ [op]) = (run ops).step op := by
  simp [run, List.foldl_append]

/-- Induction over histories, left to right, with the history so far visible to the invariant. -/
theorem run_induction {Q : Op → Prop} {P : List Op → Run → Prop} (h0 : P [] {})
    (hs : ∀ pre r op, Q op → P pre r → P (pre ++ [op]) (r.step op)) :
    ∀ ops, (∀ op ∈ ops, Q op) → P ops (run ops) := by
  suffices h : ∀ ops pre r, P pre r → (∀ op ∈ ops, Q op) → P (pre ++ ops) (ops.foldl Run.step r) by
    intro ops hq; simpa [run] using h ops [] {} h0 hq
  intro ops
  induction ops with
  | nil => intro pre r hp _; simpa using hp
  | cons op ops ih =>
    intro pre r hp hq
    have := ih (pre ++ [op]) (r.step op) (hs pre r op (hq op (by simp)) hp) (fun o hm => hq o (by simp [hm]))
    simpa using this

theorem snoc_induction {P : List Op → Prop} (h0 : P []) (hs : ∀ pre op, P pre → P (pre ++ [op])) (ops : List Op) :
    P ops :=
  run_induction (Q := fun _ => True) (P := fun ops _ => P ops) h0 (fun pre _ op _ h => hs pre op h) ops
    (fun _ _ => trivial)

theorem step_recv (r : Run) (off : Nat) (data : Bytes) :
    r.step (.recv off data) = { r with buf := (recv r.buf off data).1, charged := r.charged + (recv r.buf off data).2 } := rfl

theorem step_read (r : Run) (cap : Nat) :
    r.step (.read cap) = { r with buf := (tryRead r.buf cap).1, out := r.out ++ (tryRead r.buf cap).2 } := rfl

theorem step_next (r : Run) :
    r.step .next = { r with buf := (tryNext r.buf).1, out := r.out ++ (tryNext r.buf).2.getD [] } := by
  simp only [Run.step]
  split <;> rename_i h <;> simp [h]

theorem arrived_snoc (pre : List Op) (op : Op) (y : Nat) : arrived (pre ++ [op]) y ↔ arrived pre y ∨ op.covers y := by
  simp [arrived, or_and_right, exists_or]

theorem maxEnd_snoc (pre : List Op) (op : Op) : maxEnd (pre ++ [op]) = max (maxEnd pre) op.endOf := by
  simp [maxEnd, List.foldl_append]

/-- Facts that hold for EVERY history (no premise on the fragments): the structural invariant,
`largest = maxEnd`, and "arrived = already read or stored". -/
structure RunStruct (ops : List Op) (r : Run) : Prop where
  struct : StructInv r.buf
  lg : r.buf.largest = maxEnd ops
  arr : ∀ y, arrived ops y ↔ (y < r.buf.nread ∨ covered r.buf.segs y)

theorem run_struct (ops : List Op) : RunStruct ops (run ops) := by
  refine run_induction (Q := fun _ => True) (P := RunStruct) ⟨⟨trivial, Nat.le_refl _⟩, rfl, ?_⟩ ?_ ops (fun _ _ => trivial)
  · intro y; simp [arrived]
  rintro pre r op - ⟨hs, hl, ha⟩
  cases op with
  | recv off data =>
    rw [step_recv]
    refine ⟨recv_struct hs off data, ?_, ?_⟩
    · rw [maxEnd_snoc]; simp only [recv_largest hs, Op.endOf, hl]
      split <;> omega
    · intro y; rw [arrived_snoc, ha y]; simp only; rw [recv_covered]; rfl
  | read cap =>
    rw [step_read]
    refine ⟨read_struct hs cap, ?_, ?_⟩
    · rw [maxEnd_snoc]; simp only [tryRead_fst, Op.endOf, hl]; omega
    · intro y; rw [arrived_snoc, ha y]; simp only; rw [read_covered hs]; simp [Op.covers]
  | next =>
    rw [step_next]
    refine ⟨next_struct hs, ?_, ?_⟩
    · rw [maxEnd_snoc]; simp only [Op.endOf, tryNext_largest, hl]; omega
    · intro y; rw [arrived_snoc, ha y]; simp only; rw [next_covered]; simp [Op.covers]

/-- Invariant of a run whose fragments are slices of `src`. -/
structure RunInv (src : Bytes) (r : Run) : Prop where
  inv : Inv src r.buf
  out : r.out = src.take r.buf.nread

theorem run_inv (src : Bytes) (ops : List Op) (h : ∀ op ∈ ops, op.SliceOf src) : RunInv src (run ops) := by
  refine run_induction (Q := fun op => op.SliceOf src) (P := fun _ r => RunInv src r) ?_ ?_ ops h
  · exact ⟨(inv_iff' _ _).mpr ⟨⟨trivial, Nat.le_refl _⟩, by intro s hm; simp at hm, Nat.zero_le _⟩, by simp⟩
  · rintro pre r op hq ⟨hi, ho⟩
    cases op with
    | recv off data =>
      rw [step_recv]
      refine ⟨recv_inv' hi hq, ?_⟩
      simp only [recv_fst]; exact ho
    | read cap => rw [step_read]; exact ⟨read_inv' hi cap, read_out hi cap ho⟩
    | next => rw [step_next]; exact ⟨next_inv' hi, next_out hi ho⟩

theorem maxEnd_is_max (ops : List Op) :
    (∀ op ∈ ops, op.endOf ≤ maxEnd ops) ∧ (maxEnd ops = 0 ∨ ∃ op ∈ ops, op.endOf = maxEnd ops) := by
  induction ops using snoc_induction with
  | h0 => simp [maxEnd]
  | hs pre op ih =>
    rw [maxEnd_snoc]
    obtain ⟨h1, h2⟩ := ih
    refine ⟨?_, ?_⟩
    · intro o hm
      rcases List.mem_append.mp hm with hm | hm
      · have := h1 o hm; omega
      · simp at hm; subst hm; omega
    · by_cases hle : op.endOf ≤ maxEnd pre
      · rcases h2 with h2 | ⟨o, hm, h2⟩
        · left; omega
        · right; exact ⟨o, by simp [hm], by omega⟩
      · right; exact ⟨op, by simp, by omega⟩

/-! ## Part 5: the loop transliteration `recvLoop` refines `ins` -/

/-- every segment of `pre` lies entirely before `start` -/
def Passed (pre : List Seg) (start : Nat) : Prop := ∀ s ∈ pre, s.off < start ∧ s.stop ≤ start

theorem Passed.snoc {pre : List Seg} {start start' : Nat} {s : Seg} (h : Passed pre start) (hle : start ≤ start')
    (h1 : s.off < start') (h2 : s.stop ≤ start') : Passed (pre ++ [s]) start' := by
  intro x hm
  rcases List.mem_append.mp hm with hm | hm
  · have := h x hm; omega
  · simp at hm; subst hm; exact ⟨h1, h2⟩

theorem lowerBound_passed {pre : List Seg} {start : Nat} (h : Passed pre start) (suf : List Seg) :
    lowerBound (pre ++ suf) start = pre.length + lowerBound suf start := by
  induction pre with
  | nil => simp
  | cons p pre ih =>
    have hp := (h p (by simp)).1
    have := ih (fun s hm => h s (by simp [hm]))
    simp [lowerBound, hp, this]; omega

theorem getElem?_pre_len (pre suf : List Seg) : (pre ++ suf)[pre.length]? = suf.head? := by
  rw [List.getElem?_append_right (Nat.le_refl _)]; simp [List.head?_eq_getElem?]

theorem getElem?_pre_len_succ (pre : List Seg) (seg : Seg) (rest : List Seg) :
    (pre ++ seg :: rest)[pre.length + 1]? = rest.head? := by
  rw [List.getElem?_append_right (by omega)]; simp [List.head?_eq_getElem?]

theorem search_nil {pre : List Seg} {start : Nat} (h : Passed pre start) :
    search (pre ++ []) start = .err pre.length := by
  unfold search
  simp only [lowerBound_passed h, lowerBound, Nat.add_zero, getElem?_pre_len, List.head?_nil]

theorem search_lt {pre : List Seg} {start : Nat} (h : Passed pre start) {seg : Seg} (rest : List Seg)
    (hlt : start < seg.off) : search (pre ++ seg :: rest) start = .err pre.length := by
  unfold search
  have : ¬ seg.off < start := by omega
  have hne : seg.off ≠ start := by omega
  simp [lowerBound_passed h, lowerBound, this, hne]

theorem search_eq {pre : List Seg} {start : Nat} (h : Passed pre start) {seg : Seg} (rest : List Seg)
    (heq : seg.off = start) : search (pre ++ seg :: rest) start = .ok pre.length := by
  unfold search
  simp [lowerBound_passed h, lowerBound, heq]

theorem search_gt {pre : List Seg} {start : Nat} (h : Passed pre start) {seg : Seg} {rest : List Seg}
    (hgt : seg.off < start) (hrest : ∀ s ∈ rest.head?, start < s.off) :
    search (pre ++ seg :: rest) start = .err (pre.length + 1) := by
  unfold search
  have hlb : lowerBound rest start = 0 := by
    cases rest with
    | nil => rfl
    | cons r rest' =>
      have := hrest r (by simp)
      have : ¬ r.off < start := by omega
      simp [lowerBound, this]
  simp only [lowerBound_passed h, lowerBound, hgt, if_true, hlb, Nat.zero_add, getElem?_pre_len_succ]
  cases rest with
  | nil => simp
  | cons r rest' =>
    have := hrest r (by simp)
    have : r.off ≠ start := by omega
    simp [this]

theorem insertAt_pre (pre suf : List Seg) (x : Seg) : insertAt (pre ++ suf) pre.length x = pre ++ x :: suf := by
  simp [insertAt]

theorem insertAt_pre_succ (pre : List Seg) (seg : Seg) (rest : List Seg) (x : Seg) :
    insertAt (pre ++ seg :: rest) (pre.length + 1) x = pre ++ seg :: x :: rest := by
  have : pre ++ seg :: rest = (pre ++ [seg]) ++ rest := by simp
  rw [this]
  have h2 : pre.length + 1 = (pre ++ [seg]).length := by simp
  rw [h2, insertAt_pre]; simp

theorem recvLoop_empty (f : Nat) (segs : List Seg) (start lg : Nat) :
    recvLoop (f + 1) segs start [] lg = .done segs lg := by
  simp [recvLoop]

/-- the last element of a non-empty passed prefix ends at or before `start` -/
theorem passed_last {p : Seg} {pre : List Seg} {start : Nat} (h : Passed (p :: pre) start) (suf : List Seg) :
    ∃ prev, (p :: pre ++ suf)[pre.length]? = some prev ∧ prev.stop ≤ start := by
  have hlt : pre.length < (p :: pre).length := by simp
  refine ⟨(p :: pre)[pre.length], ?_, ?_⟩
  · rw [List.getElem?_append_left hlt, List.getElem?_eq_getElem hlt]
  · exact (h _ (List.getElem_mem hlt)).2

/-- Loop iteration that inserts in front of nothing (end of the deque). -/
theorem loop_insert_nil {pre : List Seg} {start : Nat} {data : Bytes} (lg f : Nat) (hp : Passed pre start)
    (hd : data ≠ []) :
    recvLoop (f + 1) (pre ++ []) start data lg =
      recvLoop f (pre ++ [⟨start, data⟩]) (start + data.length) [] (max lg (start + data.length)) := by
  have hs := search_nil hp
  cases pre with
  | nil =>
    simp only [List.length_nil, List.nil_append] at hs
    simp [recvLoop, hd, hs, insertAt]
  | cons p pre' =>
    obtain ⟨prev, hprev, hstop⟩ := passed_last hp []
    have hlen := List.length_pos_iff.mpr hd
    have h1 : ¬ start + data.length ≤ prev.stop := by omega
    have h2 : ¬ start < prev.stop := by omega
    have hnext : (p :: pre' ++ [])[pre'.length + 1]? = none := by simp
    have hins := insertAt_pre (p :: pre') [] ⟨start, data⟩
    simp only [List.length_cons] at hs hins
    simp only [recvLoop, hd, hs, hprev, h1, h2, hnext, hins, List.isEmpty_iff, if_false]

/-- Loop iteration that inserts in front of `next` (no overlap with the previous segment). -/
theorem loop_insert_cons {pre : List Seg} {start : Nat} {data : Bytes} (lg f : Nat) (hp : Passed pre start)
    (hd : data ≠ []) {next : Seg} (rest : List Seg) (hlt : start < next.off) :
    recvLoop (f + 1) (pre ++ next :: rest) start data lg =
      if start + data.length > next.off then
        recvLoop f (pre ++ ⟨start, data.take (next.off - start)⟩ :: next :: rest)
          (start + (data.take (next.off - start)).length) (data.drop (next.off - start))
          (max lg (start + (data.take (next.off - start)).length))
      else
        recvLoop f (pre ++ ⟨start, data⟩ :: next :: rest) (start + data.length) [] (max lg (start + data.length)) := by
  have hs := search_lt hp rest hlt
  have hnlt : ¬ next.off < start := by omega
  cases pre with
  | nil =>
    simp only [List.length_nil, List.nil_append] at hs
    by_cases hov : start + data.length > next.off
    · have : ¬ next.off - start > data.length := by omega
      simp [recvLoop, hd, hs, insertAt, hov, hnlt, this]
    · simp [recvLoop, hd, hs, insertAt, hov]
  | cons p pre' =>
    obtain ⟨prev, hprev, hstop⟩ := passed_last hp (next :: rest)
    have hlen := List.length_pos_iff.mpr hd
    have h1 : ¬ start + data.length ≤ prev.stop := by omega
    have h2 : ¬ start < prev.stop := by omega
    have hnext : (p :: pre' ++ next :: rest)[pre'.length + 1]? = some next := by
      have := getElem?_pre_len (p :: pre') (next :: rest)
      simp
    have hne : start ≠ next.off := by omega
    simp only [List.length_cons] at hs
    by_cases hov : start + data.length > next.off
    · have h3 : ¬ next.off - start > data.length := by omega
      have hins := insertAt_pre (p :: pre') (next :: rest) ⟨start, data.take (next.off - start)⟩
      simp only [List.length_cons] at hins
      simp only [recvLoop, hd, hs, hprev, h1, h2, hnext, hne, hov, hnlt, h3, hins, List.isEmpty_iff, if_false, if_true]
    · have hins := insertAt_pre (p :: pre') (next :: rest) ⟨start, data⟩
      simp only [List.length_cons] at hins
      simp only [recvLoop, hd, hs, hprev, h1, h2, hnext, hne, hov, hins, List.isEmpty_iff, if_false]

/-- Loop iteration at a segment that starts exactly at `start` (`Ok(i)`). -/
theorem loop_aligned {pre : List Seg} {start : Nat} {data : Bytes} (lg f : Nat) (hp : Passed pre start)
    (hd : data ≠ []) {seg : Seg} (rest : List Seg) (heq : seg.off = start) :
    recvLoop (f + 1) (pre ++ seg :: rest) start data lg =
      recvLoop f (pre ++ seg :: rest) (start + min data.length seg.data.length)
        (data.drop (min data.length seg.data.length)) lg := by
  have hs := search_eq hp rest heq
  have hg : (pre ++ seg :: rest)[pre.length]? = some seg := by simp
  simp only [recvLoop, hd, hs, hg, List.isEmpty_iff, if_false]

/-- Loop iteration inside a segment (`Err(i+1)`, overlapping the previous segment) whose trimmed rest starts
exactly at the next segment: the `continue` arm. -/
theorem loop_trim_continue {pre : List Seg} {start : Nat} {data : Bytes} (lg f : Nat) (hp : Passed pre start)
    {seg next : Seg} (rest : List Seg) (h1 : seg.off < start) (h2 : start < seg.stop)
    (h3 : seg.stop < start + data.length) (h4 : seg.stop = next.off) :
    recvLoop (f + 1) (pre ++ seg :: next :: rest) start data lg =
      recvLoop f (pre ++ seg :: next :: rest) seg.stop (data.drop (seg.stop - start)) lg := by
  have hd : data ≠ [] := by intro h; subst h; simp at h3; omega
  have hs := search_gt hp h1 (rest := next :: rest) (by intro s hm; simp at hm; subst hm; omega)
  have hg : (pre ++ seg :: next :: rest)[pre.length]? = some seg := by simp
  have hn : (pre ++ seg :: next :: rest)[pre.length + 1]? = some next := by
    rw [getElem?_pre_len_succ]; rfl
  have c1 : ¬ start + data.length ≤ seg.stop := by omega
  simp only [recvLoop, hd, hs, hg, hn, c1, h2, List.isEmpty_iff, if_false, if_true]
  rw [if_pos h4]

/-- Same situation, but the trimmed rest does not start at the next segment: the iteration does exactly what
an iteration started at `seg.stop` with the trimmed data does. -/
theorem loop_trim_other {pre : List Seg} {start : Nat} {data : Bytes} (lg f : Nat) (hp : Passed pre start)
    {seg : Seg} (rest : List Seg) (h1 : seg.off < start) (h2 : start < seg.stop)
    (h3 : seg.stop < start + data.length) (h4 : ∀ s ∈ rest.head?, seg.stop < s.off) :
    recvLoop (f + 1) (pre ++ seg :: rest) start data lg =
      recvLoop (f + 1) (pre ++ seg :: rest) seg.stop (data.drop (seg.stop - start)) lg := by
  have hd : data ≠ [] := by intro h; subst h; simp at h3; omega
  have hd2 : data.drop (seg.stop - start) ≠ [] := by
    apply List.length_pos_iff.mp; simp only [List.length_drop]; omega
  have hp' : Passed (pre ++ [seg]) seg.stop := hp.snoc (by omega) (by omega) (Nat.le_refl _)
  have hassoc : pre ++ seg :: rest = (pre ++ [seg]) ++ rest := by simp
  have hs := search_gt hp h1 (rest := rest) (by intro s hm; have := h4 s hm; omega)
  have hg : (pre ++ seg :: rest)[pre.length]? = some seg := by simp
  have c1 : ¬ start + data.length ≤ seg.stop := by omega
  cases rest with
  | nil =>
    have hn : (pre ++ [seg])[pre.length + 1]? = none := by simp
    have hins := insertAt_pre_succ pre seg [] ⟨seg.stop, data.drop (seg.stop - start)⟩
    conv => rhs; rw [hassoc, loop_insert_nil lg f hp' hd2]
    simp only [recvLoop, hd, hs, hg, hn, c1, h2, hins, List.isEmpty_iff, if_false, if_true]
    simp
  | cons next rest' =>
    have hlt := h4 next (by simp)
    have hn : (pre ++ seg :: next :: rest')[pre.length + 1]? = some next := by
      rw [getElem?_pre_len_succ]; rfl
    have hne : seg.stop ≠ next.off := by omega
    have hnlt : ¬ next.off < seg.stop := by omega
    conv => rhs; rw [hassoc, loop_insert_cons lg f hp' hd2 rest' hlt]
    by_cases hov : seg.stop + (data.drop (seg.stop - start)).length > next.off
    · have c3 : ¬ next.off - seg.stop > (data.drop (seg.stop - start)).length := by omega
      have hins := insertAt_pre_succ pre seg (next :: rest')
        ⟨seg.stop, (data.drop (seg.stop - start)).take (next.off - seg.stop)⟩
      simp only [recvLoop, hd, hs, hg, hn, c1, h2, hne, hov, hnlt, c3, hins, List.isEmpty_iff, if_false, if_true]
      simp
    · have hins := insertAt_pre_succ pre seg (next :: rest') ⟨seg.stop, data.drop (seg.stop - start)⟩
      simp only [recvLoop, hd, hs, hg, hn, c1, h2, hne, hov, hins, List.isEmpty_iff, if_false, if_true]
      simp

/-- Loop iteration whose data lies entirely inside the previous segment: the `break` arm. -/
theorem loop_trim_break {pre : List Seg} {start : Nat} {data : Bytes} (lg f : Nat) (hp : Passed pre start)
    (hd : data ≠ []) {seg : Seg} (rest : List Seg) (h1 : seg.off < start)
    (h3 : start + data.length ≤ seg.stop) (h4 : ∀ s ∈ rest.head?, start < s.off) :
    recvLoop (f + 1) (pre ++ seg :: rest) start data lg = .done (pre ++ seg :: rest) lg := by
  have hs := search_gt hp h1 h4
  have hg : (pre ++ seg :: rest)[pre.length]? = some seg := by simp
  simp only [recvLoop, hd, hs, hg, h3, List.isEmpty_iff, if_false, if_true]

/-- Refinement, generalised over the segments `pre` already passed: with `2·|suf| + 2` iterations the loop
returns exactly what the single pass `ins` computes on the remaining segments. -/
theorem recvLoop_eq_ins_aux {hi : Nat} (suf : List Seg) :
    ∀ (lo : Nat) (pre : List Seg) (start : Nat) (data : Bytes) (lg fuel : Nat),
      Passed pre start → Wf lo hi suf → 2 * suf.length + 2 ≤ fuel →
      recvLoop fuel (pre ++ suf) start data lg =
        .done (pre ++ (ins suf start data lg).1) (ins suf start data lg).2 := by
  induction suf with
  | nil =>
    intro lo pre start data lg fuel hp _ hf
    obtain ⟨f, rfl⟩ : ∃ f, fuel = f + 2 := ⟨fuel - 2, by omega⟩
    by_cases hd : data = []
    · subst hd; rw [recvLoop_empty, ins_empty]
    · rw [loop_insert_nil lg (f + 1) hp hd, recvLoop_empty, ins_nil hd]
  | cons seg rest ih =>
    intro lo pre start data lg fuel hp hw hf
    obtain ⟨a, b, c, d⟩ := hw
    have hsl := Seg.off_lt_stop b
    have hstop : seg.off + seg.data.length = seg.stop := rfl
    simp only [List.length_cons] at hf
    -- continuing behind `seg` is the induction hypothesis with `seg` moved to the passed prefix
    have behind : ∀ (pre' : List Seg) (st' : Nat) (data' : Bytes) (lg' f : Nat),
        Passed pre' st' → seg.stop ≤ st' → 2 * rest.length + 2 ≤ f →
        recvLoop f (pre' ++ seg :: rest) st' data' lg' =
          .done (pre' ++ seg :: (ins rest st' data' lg').1) (ins rest st' data' lg').2 := by
      intro pre' st' data' lg' f hp' hle hf'
      have := ih seg.stop (pre' ++ [seg]) st' data' lg' f (hp'.snoc (Nat.le_refl _) (by omega) hle) d hf'
      simpa only [List.append_assoc, List.singleton_append] using this
    -- an iteration that starts exactly at `seg`
    have aligned : ∀ (pre' : List Seg) (data' : Bytes) (lg' f : Nat),
        Passed pre' seg.off → data' ≠ [] → 2 * rest.length + 3 ≤ f →
        recvLoop f (pre' ++ seg :: rest) seg.off data' lg' =
          .done (pre' ++ seg :: (ins rest seg.stop (data'.drop seg.data.length) lg').1)
            (ins rest seg.stop (data'.drop seg.data.length) lg').2 := by
      intro pre' data' lg' f hp' hd' hf'
      obtain ⟨g, rfl⟩ : ∃ g, f = g + 2 := ⟨f - 2, by omega⟩
      rw [loop_aligned lg' (g + 1) hp' hd' rest rfl]
      by_cases hle : data'.length ≤ seg.data.length
      · have e1 : min data'.length seg.data.length = data'.length := by omega
        rw [e1, List.drop_length, recvLoop_empty, List.drop_eq_nil_of_le hle, ins_empty]
      · have e1 : min data'.length seg.data.length = seg.data.length := by omega
        rw [e1, hstop]
        exact behind pre' seg.stop _ lg' (g + 1) (fun s hm => by have := hp' s hm; omega) (Nat.le_refl _) (by omega)
    by_cases hd : data = []
    · obtain ⟨f, rfl⟩ : ∃ f, fuel = f + 1 := ⟨fuel - 1, by omega⟩
      subst hd; rw [recvLoop_empty, ins_empty]
    have hlen := List.length_pos_iff.mpr hd
    by_cases h1 : start + data.length ≤ seg.off
    · -- entirely before `seg`
      obtain ⟨f, rfl⟩ : ∃ f, fuel = f + 2 := ⟨fuel - 2, by omega⟩
      have hov : ¬ start + data.length > seg.off := by omega
      rw [loop_insert_cons lg (f + 1) hp hd rest (by omega), if_neg hov, recvLoop_empty, ins_before hd h1]
    by_cases h2 : seg.stop ≤ start
    · -- entirely after `seg`
      rw [ins_after hd h1 h2]
      exact behind pre start data lg fuel hp h2 (by omega)
    rw [ins_overlap hd h1 h2]
    have hmax : max start seg.stop = seg.stop := by omega
    rw [hmax]
    by_cases hlt : start < seg.off
    · -- uncovered prefix in front of `seg`, then aligned with `seg`
      obtain ⟨f, rfl⟩ : ∃ f, fuel = f + 2 := ⟨fuel - 2, by omega⟩
      have hov : start + data.length > seg.off := by omega
      have hk : (data.take (seg.off - start)).length = seg.off - start := by rw [List.length_take]; omega
      have e : start + (data.take (seg.off - start)).length = seg.off := by omega
      rw [loop_insert_cons lg (f + 1) hp hd rest hlt, if_pos hov, e]
      have hassoc : pre ++ ⟨start, data.take (seg.off - start)⟩ :: seg :: rest
          = (pre ++ [⟨start, data.take (seg.off - start)⟩]) ++ seg :: rest := by simp
      have hp' : Passed (pre ++ [⟨start, data.take (seg.off - start)⟩]) seg.off :=
        hp.snoc (by omega) hlt (by simp only [Seg.stop]; omega)
      have hd' : data.drop (seg.off - start) ≠ [] := by
        apply List.length_pos_iff.mp; rw [List.length_drop]; omega
      rw [hassoc, aligned _ _ _ (f + 1) hp' hd' (by omega)]
      have e2 : (data.drop (seg.off - start)).drop seg.data.length = data.drop (seg.stop - start) := by
        rw [List.drop_drop]; congr 1; omega
      simp only [hlt, if_true, e2, List.append_assoc, List.singleton_append]
    · simp only [hlt, if_false, List.nil_append]
      by_cases heq : start = seg.off
      · -- aligned with `seg`
        have e2 : seg.stop - start = seg.data.length := by omega
        rw [heq] at hp ⊢
        rw [aligned pre data lg fuel hp hd (by omega)]
        have : seg.stop - seg.off = seg.data.length := by omega
        rw [this]
      · -- starts inside `seg`
        have hgt : seg.off < start := by omega
        have hin : start < seg.stop := by omega
        have hhead : ∀ s ∈ rest.head?, seg.stop ≤ s.off := by
          intro s hm
          cases rest with
          | nil => simp at hm
          | cons r rest' => simp at hm; subst hm; exact d.1
        obtain ⟨f, rfl⟩ : ∃ f, fuel = f + 1 := ⟨fuel - 1, by omega⟩
        by_cases h3 : start + data.length ≤ seg.stop
        · rw [loop_trim_break lg f hp hd rest hgt h3 (fun s hm => by have := hhead s hm; omega)]
          rw [List.drop_eq_nil_of_le (by omega), ins_empty]
        · have h3' : seg.stop < start + data.length := by omega
          by_cases hcont : ∃ next rest', rest = next :: rest' ∧ seg.stop = next.off
          · obtain ⟨next, rest', hr, hno⟩ := hcont
            subst hr
            rw [loop_trim_continue lg f hp rest' hgt hin h3' hno]
            exact behind pre seg.stop _ lg f (fun s hm => by have := hp s hm; omega) (Nat.le_refl _) (by omega)
          · have h4 : ∀ s ∈ rest.head?, seg.stop < s.off := by
              intro s hm
              have hge := hhead s hm
              cases rest with
              | nil => simp at hm
              | cons r rest' =>
                simp at hm; subst hm
                have : seg.stop ≠ r.off := fun h => hcont ⟨r, rest', rfl, h⟩
                omega
            rw [loop_trim_other lg f hp rest hgt hin h3' h4]
            exact behind pre seg.stop _ lg (f + 1) (fun s hm => by have := hp s hm; omega) (Nat.le_refl _) (by omega)

theorem recvViaLoop_eq_recv {s : State} (hs : StructInv s) (off : Nat) (data : Bytes) :
    recvViaLoop s off data = .ok (recv s off data).1 (recv s off data).2 := by
  have h := recvLoop_eq_ins_aux s.segs s.nread [] (max off s.nread)
    (data.drop (min data.length (max off s.nread - off))) s.largest (loopFuel s.segs)
    (fun _ hm => by simp at hm) hs.1 (Nat.le_refl _)
  simp only [List.nil_append] at h
  simp only [recvViaLoop, h, recv]

/-! ### concrete history used by the non-vacuity examples of Props/C08.lean:
three overlapping fragments (the second overlaps the first on the left, the third on the right and is
partly already read), interleaved with `read` / `next`. -/
def exSrc : Bytes := [1, 2, 3, 4, 5, 6, 7, 8]
def exOps : List Op :=
  [.recv 2 [3, 4, 5], .recv 0 [1, 2, 3], .read 1, .recv 1 [2, 3, 4, 5, 6, 7], .next, .read 1, .recv 7 [], .read 10]

end GmQuic.RecvBuf
