import GmQuic.Lemmas.Recovery
/-! C13: `bytes_in_flight` equals the sizes of the packets still outstanding — invariant through every function. -/
namespace GmQuic.Recovery
open GmQuic.Gen

def Bal (s : St) : Prop := s.bytes = outstandingAll s

def ccSum : List Pkt → Nat
  | [] => 0
  | p :: ps => (if p.cc then p.size else 0) + ccSum ps

theorem outstanding_append (l : List Pkt) (p : Pkt) :
    outstanding (l ++ [p]) = outstanding l + (if p.st == PSt.I && p.cc then p.size else 0) := by
  induction l with
  | nil => simp [outstanding]
  | cons q qs ih => simp only [List.cons_append, outstanding, ih]; omega

theorem outstandingAll_setSp (s : St) (e : Nat) (sp : Space) :
    outstandingAll (setSp s e sp) + outstanding (getSp s e).sent = outstandingAll s + outstanding sp.sent := by
  unfold setSp getSp outstandingAll
  split <;> simp only <;> omega

theorem outstandingAll_setSp_same (s : St) (e : Nat) (sp : Space) (h : sp.sent = (getSp s e).sent) :
    outstandingAll (setSp s e sp) = outstandingAll s := by
  have := outstandingAll_setSp s e sp
  rw [h] at this
  omega

theorem outstanding_le_all (s : St) (e : Nat) : outstanding (getSp s e).sent ≤ outstandingAll s := by
  unfold getSp outstandingAll
  split <;> omega

theorem bal_of_eq {s s' : St} (hb : s'.bytes = s.bytes) (h0 : s'.s0 = s.s0) (h1 : s'.s1 = s.s1) (h2 : s'.s2 = s.s2)
    (h : Bal s) : Bal s' := by
  unfold Bal outstandingAll at *
  rw [hb, h0, h1, h2]; exact h

theorem trimFront_outstanding (l : List Pkt) : outstanding (trimFront l) = outstanding l := by
  induction l with
  | nil => rfl
  | cons p ps ih =>
    unfold trimFront
    split
    · rename_i h
      rw [ih]
      simp only [outstanding]
      have : (p.st == PSt.I) = false := by
        cases hp : p.st <;> simp [hp] at h ⊢
      simp [this]
    · rfl

theorem onPacketAcked_bytes (s : St) (p : Pkt) :
    (onPacketAcked s p).bytes = (if p.cc && p.st == PSt.I then s.bytes - p.size else s.bytes) ∧
    (onPacketAcked s p).s0 = s.s0 ∧ (onPacketAcked s p).s1 = s.s1 ∧ (onPacketAcked s p).s2 = s.s2 := by
  unfold onPacketAcked ackGrow ackBytes
  cases p.cc <;> cases hst : (p.st == PSt.I) <;> simp <;> (repeat' split) <;> simp

theorem ackWalk_bal (f : Nat → Bool) (l : List Pkt) (s : St) (a : AckAcc) (h : outstanding l ≤ s.bytes) :
    (ackWalk f l s a).2.1.bytes + outstanding l = s.bytes + outstanding (ackWalk f l s a).1 ∧
    (ackWalk f l s a).2.1.s0 = s.s0 ∧ (ackWalk f l s a).2.1.s1 = s.s1 ∧ (ackWalk f l s a).2.1.s2 = s.s2 := by
  induction l with
  | nil => simp [ackWalk, outstanding]
  | cons p ps ih =>
    have hps : outstanding ps ≤ s.bytes := by simp only [outstanding] at h; omega
    have ih' := ih hps
    unfold ackWalk
    generalize (ackWalk f ps s a) = w at *
    obtain ⟨ps', x, a'⟩ := w
    simp only at ih' ⊢
    obtain ⟨i1, i2, i3, i4⟩ := ih'
    split
    · obtain ⟨b1, b2, b3, b4⟩ := onPacketAcked_bytes x p
      simp only [outstanding] at h ⊢
      refine ⟨?_, b2.trans i2, b3.trans i3, b4.trans i4⟩
      rw [b1]
      cases hcc : p.cc <;> cases hst : (p.st == PSt.I) <;> simp [hcc, hst] at h ⊢ <;> omega
    · simp only [outstanding]
      exact ⟨by omega, i2, i3, i4⟩

theorem lostFold_fst (l : List Pkt) : ∀ (b : Nat) (t : Option Nat), (lostFold l b t).1 = b - ccSum l := by
  induction l with
  | nil => intro b t; simp [lostFold, ccSum]
  | cons p ps ih =>
    intro b t
    unfold lostFold
    split
    · rename_i hc; rw [ih]; simp [ccSum, hc]; omega
    · rename_i hc; rw [ih]; simp [ccSum, hc]

theorem lossWalk_bal (T ld L : Nat) (l : List Pkt) : ∀ (k : Nat) (lt : Option Nat),
    outstanding l = outstanding (lossWalk T ld L l k lt).1 + ccSum ((lossWalk T ld L l k lt).2.1.map (·.2)) := by
  induction l with
  | nil => intro k lt; simp [lossWalk, outstanding, ccSum]
  | cons p ps ih =>
    intro k lt
    unfold lossWalk
    split
    · rename_i hI
      split
      · have ih' := ih (k + 1) lt
        generalize (lossWalk T ld L ps (k + 1) lt) = w at *
        obtain ⟨ps', lost, lt'⟩ := w
        simp only at ih' ⊢
        simp only [outstanding, List.map_cons, ccSum, hI]
        cases p.cc <;> simp <;> omega
      · simp only
        have ih' := ih (k + 1) (match lt with | some t => some (min t (p.ts + ld)) | none => some (p.ts + ld))
        generalize (lossWalk T ld L ps (k + 1) _) = w at *
        obtain ⟨ps', lost, lt'⟩ := w
        simp only at ih' ⊢
        simp only [outstanding]
        omega
    · have ih' := ih (k + 1) lt
      generalize (lossWalk T ld L ps (k + 1) lt) = w at *
      obtain ⟨ps', lost, lt'⟩ := w
      simp only at ih' ⊢
      simp only [outstanding]
      omega

theorem removeFromBytes_bal (l : List Pkt) : ∀ (b b' : Nat),
    removeFromBytes (l.filter fun p => p.st == PSt.I) b = .ok b' → b' + outstanding l = b := by
  induction l with
  | nil => intro b b' h; simp [removeFromBytes] at h; simp [outstanding, h]
  | cons p ps ih =>
    intro b b' h
    simp only [List.filter_cons] at h
    split at h
    · rename_i hI
      unfold removeFromBytes at h
      have hR : (p.st != PSt.R) = true := by
        have : p.st = PSt.I := by simpa using hI
        rw [this]; decide
      simp only [hR, Bool.and_true] at h
      split at h
      · rename_i hc
        split at h
        · cases h
        · have := ih _ _ h
          simp only [outstanding, hI, hc, Bool.and_self, if_true]
          omega
      · rename_i hc
        have := ih _ _ h
        simp only [outstanding, hI]
        simp at hc
        simp [hc]
        omega
    · rename_i hI
      have := ih _ _ h
      simp only [outstanding]
      simp at hI
      simp [hI]
      omega

/-! ### state level -/

def SameSp (s s' : St) : Prop := s'.s0 = s.s0 ∧ s'.s1 = s.s1 ∧ s'.s2 = s.s2

theorem SameSp.all {s s' : St} (h : SameSp s s') : outstandingAll s' = outstandingAll s := by
  unfold outstandingAll; rw [h.1, h.2.1, h.2.2]

theorem SameSp.get {s s' : St} (h : SameSp s s') (e : Nat) : getSp s' e = getSp s e := by
  unfold getSp; split
  · exact h.1
  · exact h.2.1
  · exact h.2.2

theorem bal_setSp_same {s : St} (e : Nat) (sp : Space) (h : sp.sent = (getSp s e).sent) (hb : Bal s) :
    Bal (setSp s e sp) := by
  unfold Bal at *
  rw [setSp_bytes, outstandingAll_setSp_same s e sp h]; exact hb

theorem setTimer_bal {s s' : St} {a b : Nat} (h : setTimer s a b = .ok s') (hb : Bal s) : Bal s' := by
  rw [setTimer_eq h]; exact bal_of_eq rfl rfl rfl rfl hb

theorem addNeed_bal {s : St} (e : Nat) (hb : Bal s) : Bal (addNeed s e) := by
  unfold addNeed; exact bal_setSp_same _ _ rfl hb

theorem updLargest_bal {s : St} (e n : Nat) (hb : Bal s) : Bal (updLargest s e n) := by
  unfold updLargest; exact bal_setSp_same _ _ rfl hb

theorem resetPto_bal {s : St} (hb : Bal s) : Bal (resetPto s) := by
  unfold resetPto; split
  · exact bal_of_eq rfl rfl rfl rfl hb
  · exact hb

theorem armProbe_bal {s s' : St} {i : Inp} (h : armProbe s i = .ok s') (hb : Bal s) : Bal s' := by
  unfold armProbe at h
  split at h
  · cases h; split <;> exact addNeed_bal _ hb
  · simp only [ebind_ok] at h
    obtain ⟨r, _, h2⟩ := h
    split at h2
    · cases h2; exact addNeed_bal _ hb
    · cases h2; exact hb

theorem onCongestionEvent_frame {s s' : St} {t : Nat} (h : onCongestionEvent s t = .ok s') :
    s'.bytes = s.bytes ∧ SameSp s s' := by
  unfold onCongestionEvent at h
  split at h
  · cases h; exact ⟨rfl, rfl, rfl, rfl⟩
  · split at h
    · cases h
    · cases h; exact ⟨rfl, rfl, rfl, rfl⟩

theorem onPacketsLost_frame {s s' : St} {l : List Pkt} {p : Bool} (h : onPacketsLost s l p = .ok s') :
    s'.bytes = s.bytes - ccSum l ∧ SameSp s s' := by
  unfold onPacketsLost at h
  simp only at h
  split at h
  · cases h
  · rename_i s2 h2
    have k : s2.bytes = s.bytes - ccSum l ∧ SameSp s s2 := by
      split at h2
      · have := onCongestionEvent_frame h2
        simp only [lostFold_fst] at this
        exact ⟨this.1, this.2⟩
      · cases h2; exact ⟨lostFold_fst _ _ _, rfl, rfl, rfl⟩
    cases h
    split
    · unfold persistentCollapse; exact ⟨k.1, k.2.1, k.2.2.1, k.2.2.2⟩
    · exact k

theorem detectLost_bal {s s' : St} {e ld : Nat} {lost : List Nat} (h : detectLost s e ld = .ok (s', lost))
    (hb : Bal s) : Bal s' := by
  unfold detectLost at h
  simp only at h
  have hw := lossWalk_bal (s.now - ld - (getSp s e).mad) ld (bsearch (getSp s e).sent ((getSp s e).la.getD 0))
    (getSp s e).sent 0 none
  generalize (lossWalk (s.now - ld - (getSp s e).mad) ld (bsearch (getSp s e).sent ((getSp s e).la.getD 0))
    (getSp s e).sent 0 none) = w at *
  obtain ⟨sent', lostp, lt'⟩ := w
  simp only at h hw
  have hsp := outstandingAll_setSp s e { getSp s e with sent := sent', lt := lt' }
  simp only at hsp
  have hle := outstanding_le_all s e
  split at h
  · rename_i hemp
    cases h
    have : lostp = [] := by simpa using hemp
    subst this
    simp only [List.map_nil, ccSum] at hw
    unfold Bal at *
    rw [setSp_bytes]; omega
  · split at h
    · cases h
    · rename_i s2 h2
      cases h
      obtain ⟨f1, f2⟩ := onPacketsLost_frame h2
      unfold Bal at *
      rw [f1, f2.all, setSp_bytes]
      omega

theorem onTimeout_bal {s s' : St} {i : Inp} {l : List (Nat × List Nat)} (h : onTimeout s i = .ok (s', l))
    (hb : Bal s) : Bal s' := by
  unfold onTimeout at h
  split at h
  · simp only [ebind_ok] at h
    obtain ⟨r, h1, s2, h2, h3⟩ := h
    cases h3
    obtain ⟨s1, lost⟩ := r
    exact setTimer_bal h2 (detectLost_bal h1 hb)
  · simp only [ebind_ok] at h
    obtain ⟨s1, h1, s2, h2, h3⟩ := h
    cases h3
    have k1 := armProbe_bal h1 hb
    have k2 : Bal (bumpPto s1) := bal_of_eq rfl rfl rfl rfl k1
    exact setTimer_bal h2 k2

theorem discardEpoch_bal {s s' : St} {e a b : Nat} (h : discardEpoch s e a b = .ok s') (hb : Bal s) : Bal s' := by
  unfold discardEpoch at h
  split at h
  · cases h
  · simp only [ebind_ok] at h
    obtain ⟨bytes, h1, h2⟩ := h
    refine setTimer_bal h2 ?_
    have hr := removeFromBytes_bal _ _ _ h1
    have hsp := outstandingAll_setSp { s with bytes := bytes } e { getSp s e with sent := [], tl := none, lt := none }
    have hle := outstanding_le_all s e
    have hg : getSp { s with bytes := bytes } e = getSp s e := by unfold getSp; split <;> rfl
    have ho : outstandingAll { s with bytes := bytes } = outstandingAll s := rfl
    rw [hg, ho] at hsp
    simp only [outstanding] at hsp
    have kb : Bal (setSp { s with bytes := bytes } e { getSp s e with sent := [], tl := none, lt := none }) := by
      unfold Bal at *
      rw [setSp_bytes]
      simp only
      omega
    unfold discardReset markDiscarded
    simp only
    split
    · exact bal_of_eq (s := setSp { s with bytes := bytes } e { getSp s e with sent := [], tl := none, lt := none }) rfl rfl rfl rfl kb
    · split <;> exact bal_of_eq rfl rfl rfl rfl kb

theorem onPktSent_bal {s s' : St} {i : Inp} {e pn : Nat} {elic infl : Bool} {size : Nat}
    (h : onPktSent s i e pn elic infl size = .ok s') (hb : Bal s) : Bal s' := by
  unfold onPktSent at h
  simp only [ebind_ok] at h
  obtain ⟨s1, h1, h2⟩ := h
  -- after the in-flight block: bytes already count the new packet, the list does not hold it yet
  have k1 : s1.bytes = outstandingAll s1 + (if infl then size else 0) := by
    split at h1
    · rename_i hi
      rw [setTimer_eq h1]
      simp only [hi, if_true]
      show (sentInflight s i.ld0 e elic size).bytes = outstandingAll (sentInflight s i.ld0 e elic size) + size
      unfold sentInflight
      simp only [setSp_bytes]
      rw [outstandingAll_setSp_same]
      · unfold Bal at hb
        show s.bytes + size = outstandingAll s + size
        omega
      · show _ = (getSp s e).sent
        split <;> split <;> rfl
    · rename_i hi
      cases h1
      simp only [hi]
      unfold Bal at hb; simpa using hb
  have k2 : Bal (pushPkt s1 e { pn := pn, ts := s.now, elic := elic, cc := infl, size := size, st := PSt.I }) := by
    unfold pushPkt Bal
    have hsp := outstandingAll_setSp s1 e { getSp s1 e with sent := (getSp s1 e).sent ++ [{ pn := pn, ts := s.now, elic := elic, cc := infl, size := size, st := PSt.I }] }
    simp only [outstanding_append] at hsp
    rw [setSp_bytes, k1]
    simp only at hsp ⊢
    cases infl <;> simp at hsp ⊢ <;> omega
  split at h2
  · exact discardEpoch_bal h2 k2
  · cases h2; exact k2

theorem spaceOnAck_bal {s : St} (e : Nat) (a : Ack) (hb : Bal s) : Bal (spaceOnAck s e a).1 := by
  unfold spaceOnAck
  simp only
  have hle := outstanding_le_all s e
  have hle' : outstanding (getSp s e).sent ≤ s.bytes := by unfold Bal at hb; omega
  obtain ⟨w1, w2, w3, w4⟩ := ackWalk_bal (inRanges a.ranges) (getSp s e).sent s {} hle'
  have hss : SameSp s (ackWalk (inRanges a.ranges) (getSp s e).sent s {}).2.1 := ⟨w2, w3, w4⟩
  generalize (ackWalk (inRanges a.ranges) (getSp s e).sent s {}) = w at *
  obtain ⟨sent', x, acc⟩ := w
  simp only at w1 hss ⊢
  have hg := hss.get e
  rw [hg]
  have hsp := outstandingAll_setSp x e { getSp s e with sent := trimFront sent' }
  simp only [trimFront_outstanding] at hsp
  rw [hg, hss.all] at hsp
  unfold Bal at *
  rw [setSp_bytes]
  omega

theorem processEcn_bal {s s' : St} {e : Nat} {ce : Option Nat} {t : Nat} (h : processEcn s e ce t = .ok s')
    (hb : Bal s) : Bal s' := by
  unfold processEcn at h
  split at h
  · simp only at h
    split at h
    · obtain ⟨f1, f2⟩ := onCongestionEvent_frame h
      exact bal_of_eq f1 f2.1 f2.2.1 f2.2.2 (bal_setSp_same e _ rfl hb)
    · cases h; exact hb
  · cases h; exact hb

theorem ackPost_bal {i : Inp} {e : Nat} {s s' : St} {l l' : List (Nat × List Nat)}
    (h : ackPost i e s l = .ok (s', l')) (hb : Bal s) : Bal s' := by
  unfold ackPost at h
  split at h
  · simp only [ebind_ok] at h
    obtain ⟨s1, h1, h2⟩ := h
    cases h2
    exact discardEpoch_bal h1 hb
  · cases h; exact hb

theorem onAckRcvd_bal {s s' : St} {i : Inp} {e : Nat} {a : Ack} {l : List (Nat × List Nat)}
    (h : onAckRcvd s i e a = .ok (s', l)) (hb : Bal s) : Bal s' := by
  unfold onAckRcvd at h
  simp only at h
  have k0 := updLargest_bal e a.largest hb
  split at h
  · exact ackPost_bal h k0
  · have k1 := spaceOnAck_bal e a k0
    split at h
    · exact ackPost_bal h k1
    · simp only [ebind_ok] at h
      obtain ⟨s1, h1, d, h2, s2, h3, h4⟩ := h
      obtain ⟨d1, d2⟩ := d
      exact ackPost_bal h4 (setTimer_bal h3 (resetPto_bal (detectLost_bal h2 (processEcn_bal h1 k1))))

theorem doTick_bal {s s' : St} {i : Inp} {l : List (Nat × List Nat)} {t : Option Nat}
    (h : doTick s i = .ok (s', l, t)) (hb : Bal s) : Bal s' := by
  unfold doTick at h
  split at h
  · split at h
    · simp only [ebind_ok] at h
      obtain ⟨r, h1, h2⟩ := h
      cases h2
      obtain ⟨s1, l1⟩ := r
      exact onTimeout_bal h1 hb
    · cases h; exact hb
  · cases h; exact hb

theorem onDatagramRcvd_bal {s s' : St} {i : Inp} {l : List (Nat × List Nat)}
    (h : onDatagramRcvd s i = .ok (s', l)) (hb : Bal s) : Bal s' := by
  unfold onDatagramRcvd at h
  split at h
  · simp only [ebind_ok] at h
    obtain ⟨s1, h1, h2⟩ := h
    have k1 := setTimer_bal h1 hb
    split at h2
    · split at h2
      · exact onTimeout_bal h2 k1
      · cases h2; exact k1
    · cases h2; exact k1
  · cases h; exact hb

theorem step_bal {s s' : St} {i : Inp} {op : Op} {o : Out} (h : step s i op = .ok (s', o)) (hb : Bal s) : Bal s' := by
  cases op with
  | sent e pn elic infl size =>
    simp only [step, ebind_ok] at h
    obtain ⟨r, h1, h2⟩ := h; cases h2
    exact onPktSent_bal h1 hb
  | ack e a =>
    simp only [step, ebind_ok] at h
    obtain ⟨r, h1, h2⟩ := h; cases h2
    obtain ⟨r1, r2⟩ := r
    exact onAckRcvd_bal h1 hb
  | tick dt =>
    simp only [step, ebind_ok] at h
    obtain ⟨r, h1, h2⟩ := h; cases h2
    obtain ⟨r1, r2, r3⟩ := r
    exact doTick_bal h1 (s := advance s dt) (bal_of_eq rfl rfl rfl rfl hb)
  | rcvd =>
    simp only [step, ebind_ok] at h
    obtain ⟨r, h1, h2⟩ := h; cases h2
    obtain ⟨r1, r2⟩ := r
    exact onDatagramRcvd_bal h1 hb
  | discard e =>
    simp only [step, ebind_ok] at h
    obtain ⟨r, h1, h2⟩ := h; cases h2
    exact discardEpoch_bal h1 hb
  | hskey => simp only [step] at h; cases h; exact bal_of_eq rfl rfl rfl rfl hb
  | hsack => simp only [step] at h; cases h; exact bal_of_eq rfl rfl rfl rfl hb
  | confirmed => simp only [step] at h; cases h; exact bal_of_eq rfl rfl rfl rfl hb
  | grant => simp only [step] at h; cases h; exact bal_of_eq rfl rfl rfl rfl hb
  | limit => simp only [step] at h; cases h; exact bal_of_eq rfl rfl rfl rfl hb

theorem run_bal {h : List (Inp × Op)} : ∀ {s s' : St}, run s h = .ok s' → Bal s → Bal s' := by
  induction h with
  | nil => intro s s' hr hb; simp only [run] at hr; cases hr; exact hb
  | cons x rest ih =>
    intro s s' hr hb
    obtain ⟨i, op⟩ := x
    simp only [run, ebind_ok] at hr
    obtain ⟨r, h1, h2⟩ := hr
    obtain ⟨s1, o⟩ := r
    exact ih h2 (step_bal h1 hb)

theorem initSt_bal {server : Bool} {mtu mad : Nat} {s : St} (h : initSt server mtu mad = .ok s) : Bal s := by
  unfold initSt at h
  split at h
  · cases h
  · split at h
    · cases h
    · cases h; unfold Bal outstandingAll; simp [outstanding]

/-- under the invariant, the unchecked `bytes_in_flight -= sent_bytes` of `remove_from_bytes_in_flight` cannot underflow -/
theorem removeFromBytes_ok (l : List Pkt) : ∀ (b : Nat), outstanding l ≤ b →
    ∃ b', removeFromBytes (l.filter fun p => p.st == PSt.I) b = .ok b' := by
  induction l with
  | nil => intro b _; exact ⟨b, by simp [removeFromBytes]⟩
  | cons p ps ih =>
    intro b hle
    simp only [List.filter_cons]
    simp only [outstanding] at hle
    split
    · rename_i hI
      unfold removeFromBytes
      have hR : (p.st != PSt.R) = true := by
        have : p.st = PSt.I := by simpa using hI
        rw [this]; decide
      simp only [hR, Bool.and_true]
      split
      · rename_i hc
        simp only [hI, hc, Bool.and_self, if_true] at hle
        split
        · omega
        · exact ih _ (by omega)
      · exact ih _ (by omega)
    · exact ih _ (by omega)

/-! ### an armed timer while something ack-eliciting is outstanding -/

theorem ptoCandidate_some {sp : Space} {d e : Nat} {acc r : Option (Nat × Nat)}
    (h : ptoCandidate sp d e acc = .ok r) (hs : noElic sp = false ∨ acc.isSome = true) : r.isSome = true := by
  unfold ptoCandidate at h
  split at h
  · rename_i hn
    cases h
    rcases hs with hs | hs
    · rw [hn] at hs; cases hs
    · exact hs
  · split at h
    · cases h
    · cases h
      split
      · rfl
      · split <;> rfl

theorem setTimer_armed {s s' : St} {srtt rttvar : Nat} (h : setTimer s srtt rttvar = .ok s')
    (haa : s.aaLimit = false)
    (hout : noElic s.s0 = false ∨ noElic s.s1 = false ∨ (noElic s.s2 = false ∧ s.confirmed = true)) :
    s'.timer.isSome = true := by
  have hall : noElicAll s = false := by
    unfold noElicAll
    rcases hout with h0 | h1 | h2
    · simp [h0]
    · simp [h1]
    · simp [h2.1]
  unfold setTimer at h
  split at h
  · cases h; rfl
  · simp only [haa, hall, Bool.false_and, Bool.false_eq_true, if_false] at h
    simp only [bind, Except.bind] at h
    split at h
    · cases h
    · rename_i r hr
      simp only [pure, Except.pure] at h
      cases h
      simp only [Option.isSome_map]
      unfold ptoTimeAndEpoch at hr
      split at hr
      · cases hr
      · simp only [hall, Bool.false_eq_true, if_false, ebind_ok] at hr
        obtain ⟨a0, h0, a1, h1, h2⟩ := hr
        rcases hout with o0 | o1 | o2
        · have k0 := ptoCandidate_some h0 (Or.inl o0)
          have k1 := ptoCandidate_some h1 (Or.inr k0)
          split at h2
          · cases h2; exact k1
          · split at h2
            · cases h2; exact k1
            · exact ptoCandidate_some h2 (Or.inr k1)
        · have k1 := ptoCandidate_some h1 (Or.inl o1)
          split at h2
          · cases h2; exact k1
          · split at h2
            · cases h2; exact k1
            · exact ptoCandidate_some h2 (Or.inr k1)
        · simp only [o2.1, o2.2, Bool.false_eq_true, if_false, Bool.not_true] at h2
          exact ptoCandidate_some h2 (Or.inl o2.1)
