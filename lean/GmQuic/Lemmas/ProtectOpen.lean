import GmQuic.Lemmas.ProtectTx
/-! C06: the AEAD hypotheses, and "whatever the receiver managed to open is the original packet". -/
namespace GmQuic.Protect
open GmQuic.Wire GmQuic.Pn

/-- AEAD correctness at one point: opening what was sealed returns the plaintext. -/
def CorrectAt {K : Type} (A : Aead K) (k : K) (n : Nat) (a p : Bytes) : Prop :=
  A.aopen k n a (A.aseal k n a p) = some p

/-- Ideal integrity relative to the ONE packet that was sealed (INT-CTXT idealised, single-packet game):
under no key in play does anything open except exactly (nonce, AAD, ciphertext) of that packet under its key.
This is a hypothesis about the AEAD + the absence of other sealed packets, never an axiom. -/
def IdealFor {K : Type} (A : Aead K) (k : K) (n : Nat) (a p : Bytes) : Prop :=
  ∀ k' n' a' c', A.aopen k' n' a' c' ≠ none → k' = k ∧ n' = n ∧ a' = a ∧ c' = A.aseal k n a p

/-- an AEAD that opens exactly one sealed packet (non-vacuity witness for `IdealFor`) -/
def restrict {K : Type} [DecidableEq K] (A : Aead K) (k0 : K) (n0 : Nat) (a0 p0 : Bytes) : Aead K :=
  { A with aopen := fun k n a c =>
      if k = k0 ∧ n = n0 ∧ a = a0 ∧ c = A.aseal k0 n0 a0 p0 then some p0 else none }

theorem restrict_correctAt {K : Type} [DecidableEq K] (A : Aead K) (k0 : K) (n0 : Nat) (a0 p0 : Bytes) :
    CorrectAt (restrict A k0 n0 a0 p0) k0 n0 a0 p0 := by
  simp [CorrectAt, restrict]

theorem restrict_idealFor {K : Type} [DecidableEq K] (A : Aead K) (k0 : K) (n0 : Nat) (a0 p0 : Bytes) :
    IdealFor (restrict A k0 n0 a0 p0) k0 n0 a0 p0 := by
  intro k' n' a' c' h
  simp only [restrict] at h ⊢
  split at h
  · assumption
  · exact absurd rfl h

/-- The receiver opened *something* at `(sp', ty')`: under ideal integrity that something is the sender's packet. -/
theorem opened_is_original {K H : Type} (A : Aead K) (P : Hp H) (c : RxCfg K H) (k : K) (t : TxPkt)
    (pkt : Bytes) (off : Nat) (w : WfHdr t)
    (hp : protect A P k (c.hpKey t.ptype) t = .ok pkt off)
    (hi : IdealFor A k t.pn (aadOf A.tagLen t) t.body)
    (buf' : Bytes) (off' : Nat) (sp' : Split) (ty' : PType) (k' : K) (pn' : Nat)
    (hs : split buf' off' = some sp') (hty : typeOfFirst sp'.first = some ty')
    (ho : A.aopen k' pn' ((unmask (P.mask (c.hpKey ty') (sp'.tail.take 16)) sp').aad sp')
            ((unmask (P.mask (c.hpKey ty') (sp'.tail.take 16)) sp').ct sp') ≠ none) :
    buf' = pkt ∧ off' = off ∧ ty' = t.ptype ∧ k' = k ∧ pn' = t.pn := by
  obtain ⟨sp, v⟩ := protect_view A P k (c.hpKey t.ptype) t pkt off w hp
  obtain ⟨hk, hn, ha, hc⟩ := hi _ _ _ _ ho
  have s' := split_some hs
  have s0 := split_some v.hsplit
  have heq : sp' = sp :=
    unmask_inj (fun ty smp => P.mask (c.hpKey ty) smp) sp' sp ty' t.ptype s'.2.2.1 v.h4 hty v.hty
      (by rw [ha, v.haad]) (by rw [hc, v.hct])
  subst heq
  refine ⟨by rw [← s'.1, s0.1], by rw [← s'.2.1, s0.2.1], ?_, hk, hn⟩
  have := v.hty; rw [hty] at this; exact Option.some.inj this

end GmQuic.Protect
