import GmQuic.Lemmas.Wire
/-! helper for `Props/C05/CloseBounded.lean`: the varint width is monotone (the length field of a truncated reason is
never wider than the length field of the whole reason). -/
namespace GmQuic.Codec
open GmQuic.Wire

theorem varintSize_mono {a b : Nat} (h : a ≤ b) : varintSize a ≤ varintSize b := by
  unfold varintSize
  repeat' split
  all_goals omega

end GmQuic.Codec
