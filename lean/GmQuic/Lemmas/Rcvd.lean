import GmQuic.Model.Pn
/-! Helper definitions and lemmas for the receiver half of C07 (`RcvdJournal::decode_pn`). -/
namespace GmQuic.Pn

/-- receiver histories after a packet was registered -/
inductive ROp
  | rcvd (pn : Nat)     -- `on_rcvd_pn(pn, ..)`
  | slide (n : Nat)     -- `rotate_queue` popped `n` cells (any n)

def rstep (r : Rcvd) : ROp → Rcvd
  | .rcvd pn => r.onRcvd pn
  | .slide n => r.slide n

/-- "pn can no longer be accepted": below the window, or marked received. -/
def Gone (r : Rcvd) (pn : Nat) : Prop := pn < r.offset ∨ r.seen pn = true

theorem seen_eq (r : Rcvd) (pn : Nat) :
    r.seen pn = (decide (r.offset ≤ pn) && (r.cells[pn - r.offset]?).getD false) := by
  unfold Rcvd.seen Rcvd.largest
  by_cases h : r.offset ≤ pn
  · by_cases h2 : pn < r.offset + r.cells.length
    · simp [h, h2, List.getD_eq_getElem?_getD]
    · have : r.cells.length ≤ pn - r.offset := by omega
      simp [h, h2, List.getElem?_eq_none this]
  · simp [h]

theorem decodePn_ok (r : Rcvd) (e : PacketNumber) (pn : Nat) (h : r.decodePn e = .ok pn) :
    decode e r.largest = .ok pn ∧ r.offset ≤ pn ∧ r.seen pn = false := by
  unfold Rcvd.decodePn at h
  split at h
  · cases h
  · split at h
    · cases h
    · split at h
      · cases h
      · cases h
        refine ⟨by assumption, by omega, by simp_all⟩

theorem gone_not_ok (r : Rcvd) (pn : Nat) (hg : Gone r pn) (e : PacketNumber) : r.decodePn e ≠ .ok pn := by
  intro h
  obtain ⟨_, h1, h2⟩ := decodePn_ok r e pn h
  rcases hg with hg | hg
  · omega
  · simp [h2] at hg

theorem gone_onRcvd_self (r : Rcvd) (pn : Nat) : Gone (r.onRcvd pn) pn := by
  unfold Gone
  by_cases h : pn < r.offset
  · left; simp [Rcvd.onRcvd, h]
  · right
    rw [seen_eq]
    unfold Rcvd.onRcvd Rcvd.largest
    simp only [h, if_false]
    split
    · have : pn - r.offset < r.cells.length := by omega
      simp [this]; omega
    · have e : pn - r.offset = (r.cells ++ List.replicate (pn - (r.offset + r.cells.length)) false).length := by
        simp; omega
      simp only [e, List.getElem?_concat_length]
      simp; omega

theorem gone_onRcvd (r : Rcvd) (pn q : Nat) (hg : Gone r pn) : Gone (r.onRcvd q) pn := by
  unfold Gone at *
  rcases hg with hg | hg
  · left; unfold Rcvd.onRcvd; split
    · exact hg
    · split <;> exact hg
  · right
    rw [seen_eq] at hg ⊢
    simp only [Bool.and_eq_true, decide_eq_true_eq] at hg
    obtain ⟨h1, h2⟩ := hg
    have hlt : pn - r.offset < r.cells.length := by
      by_cases hc : pn - r.offset < r.cells.length
      · exact hc
      · rw [List.getElem?_eq_none (by omega)] at h2
        simp at h2
    unfold Rcvd.onRcvd Rcvd.largest
    split
    · simp [h1, h2]
    · split
      · simp only [Bool.and_eq_true, decide_eq_true_eq]
        refine ⟨h1, ?_⟩
        rw [List.getElem?_set]
        by_cases hq : q - r.offset = pn - r.offset
        · simp [hq, hlt]
        · simp [hq, h2]
      · simp only [Bool.and_eq_true, decide_eq_true_eq]
        refine ⟨h1, ?_⟩
        rw [List.append_assoc, List.getElem?_append_left hlt]
        exact h2

theorem gone_slide (r : Rcvd) (pn n : Nat) (hg : Gone r pn) : Gone (r.slide n) pn := by
  unfold Gone at *
  rcases hg with hg | hg
  · left; simp only [Rcvd.slide]; omega
  · rw [seen_eq] at hg
    simp only [Bool.and_eq_true, decide_eq_true_eq] at hg
    obtain ⟨h1, h2⟩ := hg
    by_cases hk : pn < r.offset + min n r.cells.length
    · left; simp only [Rcvd.slide]; exact hk
    · right
      rw [seen_eq]
      simp only [Rcvd.slide, Bool.and_eq_true]
      refine ⟨decide_eq_true (by omega), ?_⟩
      rw [List.getElem?_drop]
      have : min n r.cells.length + (pn - (r.offset + min n r.cells.length)) = pn - r.offset := by omega
      rw [this]; exact h2

theorem gone_fold (pn : Nat) (ops : List ROp) (r' : Rcvd) (h : Gone r' pn) : Gone (ops.foldl rstep r') pn := by
  induction ops generalizing r' with
  | nil => exact h
  | cons op ops ih =>
    simp only [List.foldl_cons]
    apply ih
    cases op with
    | rcvd q => exact gone_onRcvd r' pn q h
    | slide n => exact gone_slide r' pn n h

end GmQuic.Pn
