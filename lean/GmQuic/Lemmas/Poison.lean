import GmQuic.Model.Poison
/-! Invariant of the poison graph and the list lemmas behind the C17 theorems. -/
namespace GmQuic.Poison

def sndLabs : Nat → List Snd → List Lab
  | _, [] => []
  | i, s :: rest => flag s.wW (.w i) ++ flag s.wF (.f i) ++ flag s.wS (.s i) ++ sndLabs (i + 1) rest

def rcvLabs : Nat → List Rcv → List Lab
  | _, [] => []
  | i, r :: rest => flag r.wR (.r i) ++ rcvLabs (i + 1) rest

/-- every waiter parked on an object that `DataStreams::on_conn_error` is responsible for -/
def parkedDs (g : G) : List Lab :=
  sndLabs 0 g.snds ++ rcvLabs 0 g.rcvs ++ flag g.wAb .ab ++ flag g.wAu .au ++ (flag g.sidOb .ob ++ flag g.sidOu .ou)

/-- waiters parked in `Parameters.wakers` -/
def parkedPr (g : G) : List Lab := flag g.pAb .ab ++ flag g.pOb .ob ++ flag g.pOu .ou ++ flag g.pPr .pr

def parkedDg (g : G) : List Lab := flag g.wDg .dg

def SndOk (s : Snd) : Prop := (s.wW = true ∨ s.wF = true ∨ s.wS = true) → s.poison = none ∧ s.st.live = true
def RcvOk (r : Rcv) : Prop := r.wR = true → r.poison = none ∧ r.st.live = true

structure Inv (g : G) : Prop where
  sndFlags : ∀ s ∈ g.snds, SndOk s
  rcvFlags : ∀ r ∈ g.rcvs, RcvOk r
  sndPoison : ∀ s ∈ g.snds, ∀ e, s.poison = some e → g.ds = some e
  rcvPoison : ∀ r ∈ g.rcvs, ∀ e, r.poison = some e → g.ds = some e
  dsSnd : g.ds.isSome = true → ∀ s ∈ g.snds, s.st.live = true → s.poison.isSome = true
  dsRcv : g.ds.isSome = true → ∀ r ∈ g.rcvs, r.st.live = true → r.poison.isSome = true
  dsLis : g.ds.isSome = true → g.wAb = false ∧ g.wAu = false
  dsSid : g.ds.isSome = true → g.fixedSid = true → g.sidOb = false ∧ g.sidOu = false
  prW : g.pr.isSome = true → g.pOb = false ∧ g.pOu = false ∧ g.pAb = false ∧ g.pPr = false
  dgW : g.dg.isSome = true → g.wDg = false ∧ g.dgQ = 0

theorem flag_false (l : Lab) : flag false l = [] := rfl

/-! ### `poisonSnds` / `poisonRcvs` -/

theorem poisonSnds_woken (e : Nat) (l : List Snd) : ∀ i, (∀ s ∈ l, SndOk s) → (poisonSnds e i l).2 = sndLabs i l := by
  induction l with
  | nil => intro i _; rfl
  | cons s rest ih =>
    intro i h
    have hs : SndOk s := h s (by simp)
    have hr := ih (i + 1) (fun x hx => h x (by simp [hx]))
    simp only [poisonSnds, sndLabs, hr, poisonSnd]
    by_cases hc : s.poison.isNone = true ∧ s.st.live = true
    · simp [hc, List.append_assoc]
    · have : s.wW = false ∧ s.wF = false ∧ s.wS = false := by
        unfold SndOk at hs
        cases h1 : s.wW <;> cases h2 : s.wF <;> cases h3 : s.wS <;> simp_all
      simp [this.1, this.2.1, this.2.2, flag]
      split <;> rfl

theorem poisonRcvs_woken (e : Nat) (l : List Rcv) : ∀ i, (∀ r ∈ l, RcvOk r) → (poisonRcvs e i l).2 = rcvLabs i l := by
  induction l with
  | nil => intro i _; rfl
  | cons r rest ih =>
    intro i h
    have hs : RcvOk r := h r (by simp)
    have hr := ih (i + 1) (fun x hx => h x (by simp [hx]))
    simp only [poisonRcvs, rcvLabs, hr, poisonRcv]
    by_cases hc : r.poison.isNone = true ∧ r.st.live = true
    · simp [hc]
    · have : r.wR = false := by
        unfold RcvOk at hs
        cases h1 : r.wR <;> simp_all
      simp [this, flag]
      split <;> rfl

theorem mem_poisonSnds (e : Nat) (l : List Snd) : ∀ i x, x ∈ (poisonSnds e i l).1 → ∃ s ∈ l, ∃ j, x = (poisonSnd e j s).1 := by
  induction l with
  | nil => intro i x h; simp [poisonSnds] at h
  | cons s rest ih =>
    intro i x h
    simp only [poisonSnds, List.mem_cons] at h
    rcases h with h | h
    · exact ⟨s, by simp, i, h⟩
    · obtain ⟨s', hs', j, hj⟩ := ih (i + 1) x h
      exact ⟨s', by simp [hs'], j, hj⟩

theorem mem_poisonRcvs (e : Nat) (l : List Rcv) : ∀ i x, x ∈ (poisonRcvs e i l).1 → ∃ r ∈ l, ∃ j, x = (poisonRcv e j r).1 := by
  induction l with
  | nil => intro i x h; simp [poisonRcvs] at h
  | cons s rest ih =>
    intro i x h
    simp only [poisonRcvs, List.mem_cons] at h
    rcases h with h | h
    · exact ⟨s, by simp, i, h⟩
    · obtain ⟨s', hs', j, hj⟩ := ih (i + 1) x h
      exact ⟨s', by simp [hs'], j, hj⟩

theorem sndLabs_nil_of (l : List Snd) : ∀ i, (∀ s ∈ l, s.wW = false ∧ s.wF = false ∧ s.wS = false) → sndLabs i l = [] := by
  induction l with
  | nil => intro i _; rfl
  | cons s rest ih =>
    intro i h
    have := h s (by simp)
    simp [sndLabs, this.1, this.2.1, this.2.2, flag, ih (i + 1) (fun x hx => h x (by simp [hx]))]

theorem rcvLabs_nil_of (l : List Rcv) : ∀ i, (∀ r ∈ l, r.wR = false) → rcvLabs i l = [] := by
  induction l with
  | nil => intro i _; rfl
  | cons s rest ih =>
    intro i h
    simp [rcvLabs, h s (by simp), flag, ih (i + 1) (fun x hx => h x (by simp [hx]))]

/-- a single poisoned sender, given the flag discipline -/
theorem poisonSnd_after (e j : Nat) (s : Snd) (hs : SndOk s) (hp : ∀ e', s.poison = some e' → False) :
    let x := (poisonSnd e j s).1
    x.wW = false ∧ x.wF = false ∧ x.wS = false ∧ (x.st.live = true → x.poison = some e) ∧ x.st = s.st ∧
      (∀ e', x.poison = some e' → e' = e) := by
  intro x
  have hn : s.poison = none := by
    cases h : s.poison with
    | none => rfl
    | some e' => exact (hp e' h).elim
  unfold SndOk at hs
  simp only [x, poisonSnd]
  by_cases hl : s.st.live = true
  · simp [hn, hl]
  · cases h1 : s.wW <;> cases h2 : s.wF <;> cases h3 : s.wS <;> simp_all

theorem poisonRcv_after (e j : Nat) (r : Rcv) (hs : RcvOk r) (hp : ∀ e', r.poison = some e' → False) :
    let x := (poisonRcv e j r).1
    x.wR = false ∧ (x.st.live = true → x.poison = some e) ∧ x.st = r.st ∧ (∀ e', x.poison = some e' → e' = e) := by
  intro x
  have hn : r.poison = none := by
    cases h : r.poison with
    | none => rfl
    | some e' => exact (hp e' h).elim
  unfold RcvOk at hs
  simp only [x, poisonRcv]
  by_cases hl : r.st.live = true
  · simp [hn, hl]
  · cases h1 : r.wR <;> simp_all


/-! ### The invariant is preserved by every operation -/

theorem mem_of_get? {α} (l : List α) (i : Nat) (x : α) (h : l[i]? = some x) : x ∈ l :=
  List.mem_of_getElem? h

theorem mem_setAt {α} (l : List α) (i : Nat) (y x : α) (h : x ∈ setAt l i y) : x ∈ l ∨ x = y :=
  List.mem_or_eq_of_mem_set h

theorem inv_snds_update (g : G) (i : Nat) (s s' : Snd) (h : Inv g) (hi : g.snds[i]? = some s)
    (hp : s.poison = none) (hl : s.st.live = true) (hp' : s'.poison = none) (hst : s'.st = s.st) :
    Inv { g with snds := setAt g.snds i s' } := by
  have hm := mem_of_get? _ _ _ hi
  have hds : g.ds.isSome = false := by
    cases hd : g.ds.isSome with
    | false => rfl
    | true => have := h.dsSnd hd s hm hl; simp [hp] at this
  constructor
  · intro x hx
    rcases mem_setAt _ _ _ _ hx with hx | hx
    · exact h.sndFlags x hx
    · subst hx; intro _; exact ⟨hp', by rw [hst]; exact hl⟩
  · exact h.rcvFlags
  · intro x hx e he
    rcases mem_setAt _ _ _ _ hx with hx | hx
    · exact h.sndPoison x hx e he
    · subst hx; simp [hp'] at he
  · exact h.rcvPoison
  · intro hd; simp [hds] at hd
  · intro hd; simp [hds] at hd
  · exact h.dsLis
  · exact h.dsSid
  · exact h.prW
  · exact h.dgW

theorem inv_rcvs_update (g : G) (i : Nat) (r r' : Rcv) (d : Nat) (h : Inv g) (hi : g.rcvs[i]? = some r)
    (hp' : r'.poison = r.poison) (hw : r'.wR = true → r.poison = none ∧ r'.st.live = true)
    (hst : r'.st.live = true → r.st.live = true) :
    Inv { g with rcvs := setAt g.rcvs i r', delivered := d } := by
  have hm := mem_of_get? _ _ _ hi
  constructor
  · exact h.sndFlags
  · intro x hx
    rcases mem_setAt _ _ _ _ hx with hx | hx
    · exact h.rcvFlags x hx
    · subst hx; intro hw'; have := hw hw'; exact ⟨by rw [hp']; exact this.1, this.2⟩
  · exact h.sndPoison
  · intro x hx e he
    rcases mem_setAt _ _ _ _ hx with hx | hx
    · exact h.rcvPoison x hx e he
    · subst hx; rw [hp'] at he; exact h.rcvPoison r hm e he
  · exact h.dsSnd
  · intro hd x hx hl
    rcases mem_setAt _ _ _ _ hx with hx | hx
    · exact h.dsRcv hd x hx hl
    · subst hx; rw [hp']; exact h.dsRcv hd r hm (hst hl)
  · exact h.dsLis
  · exact h.dsSid
  · exact h.prW
  · exact h.dgW

theorem inv_sndOp (g : G) (i k : Nat) (h : Inv g) : Inv (sndOp g i k).1 := by
  unfold sndOp
  split
  · exact h
  · rename_i s hi
    split
    · exact h
    · rename_i hp
      split <;> first
        | exact h
        | (split <;> first
            | exact h
            | (split <;> first
                | exact h
                | exact inv_snds_update g i s _ h hi hp (by simp_all [SSt.live]) (by simp_all) rfl
                | (obtain ⟨h1, h2, h3, h4, h5, h6, h7, h8, h9, h10⟩ := h; constructor <;> assumption))
            | exact inv_snds_update g i s _ h hi hp (by simp_all [SSt.live]) (by simp_all) rfl)
        | exact inv_snds_update g i s _ h hi hp (by simp_all [SSt.live]) (by simp_all) rfl


theorem inv_readOp (g : G) (i : Nat) (h : Inv g) : Inv (readOp g i).1 := by
  unfold readOp
  split
  · exact h
  · rename_i r hi
    split
    · exact h
    · rename_i hp
      split
      · exact inv_rcvs_update g i r _ g.delivered h hi rfl (by intro _; simp_all [RSt.live]) (by simp_all)
      · exact inv_rcvs_update g i r _ g.delivered h hi rfl (by intro _; simp_all [RSt.live]) (by simp_all)
      · exact inv_rcvs_update g i r _ _ h hi rfl (by intro hw; have := h.rcvFlags r (mem_of_get? _ _ _ hi) hw; simp_all [RSt.live]) (by simp [RSt.live])
      · exact h
      · exact inv_rcvs_update g i r _ g.delivered h hi rfl (by intro hw; have := h.rcvFlags r (mem_of_get? _ _ _ hi) hw; simp_all [RSt.live]) (by simp [RSt.live])
      · exact h

theorem inv_errDs (g : G) (e : Nat) (h : Inv g) : Inv (errDs g e).1 := by
  unfold errDs
  split
  · exact h
  · rename_i hd
    have hdn : g.ds = none := by cases hh : g.ds <;> simp_all
    have hsp : ∀ s ∈ g.snds, ∀ e', s.poison = some e' → False := by
      intro s hs e' he; have := h.sndPoison s hs e' he; simp [hdn] at this
    have hrp : ∀ r ∈ g.rcvs, ∀ e', r.poison = some e' → False := by
      intro r hr e' he; have := h.rcvPoison r hr e' he; simp [hdn] at this
    constructor
    · intro x hx
      obtain ⟨s, hs, j, rfl⟩ := mem_poisonSnds e g.snds 0 x hx
      have := poisonSnd_after e j s (h.sndFlags s hs) (hsp s hs)
      intro hf; rcases hf with hf | hf | hf <;> simp_all
    · intro x hx
      obtain ⟨s, hs, j, rfl⟩ := mem_poisonRcvs e g.rcvs 0 x hx
      have := poisonRcv_after e j s (h.rcvFlags s hs) (hrp s hs)
      intro hf; simp_all
    · intro x hx e' he
      obtain ⟨s, hs, j, rfl⟩ := mem_poisonSnds e g.snds 0 x hx
      have := (poisonSnd_after e j s (h.sndFlags s hs) (hsp s hs)).2.2.2.2.2 e' he
      simp [this]
    · intro x hx e' he
      obtain ⟨s, hs, j, rfl⟩ := mem_poisonRcvs e g.rcvs 0 x hx
      have := (poisonRcv_after e j s (h.rcvFlags s hs) (hrp s hs)).2.2.2 e' he
      simp [this]
    · intro _ x hx hl
      obtain ⟨s, hs, j, rfl⟩ := mem_poisonSnds e g.snds 0 x hx
      have := (poisonSnd_after e j s (h.sndFlags s hs) (hsp s hs)).2.2.2.1 hl
      simp [this]
    · intro _ x hx hl
      obtain ⟨s, hs, j, rfl⟩ := mem_poisonRcvs e g.rcvs 0 x hx
      have := (poisonRcv_after e j s (h.rcvFlags s hs) (hrp s hs)).2.1 hl
      simp [this]
    · intro _; exact ⟨rfl, rfl⟩
    · intro _ hf; simp at hf; simp [hf]
    · exact h.prW
    · exact h.dgW

theorem inv_mkSnd (g : G) (st : SSt) (full : Bool) (h : Inv g) : Inv (step g (.mkSnd st full)).1 := by
  simp only [step]
  split
  · exact h
  · rename_i hc
    have hds : g.ds.isSome = false := by cases hh : g.ds.isSome <;> simp_all
    constructor
    · intro x hx
      simp only [List.mem_append, List.mem_singleton] at hx
      rcases hx with hx | hx
      · exact h.sndFlags x hx
      · subst hx; intro hf; cases st <;> simp_all [SSt.live]
    · exact h.rcvFlags
    · intro x hx e he
      simp only [List.mem_append, List.mem_singleton] at hx
      rcases hx with hx | hx
      · exact h.sndPoison x hx e he
      · subst hx; simp at he
    · exact h.rcvPoison
    · intro hd; simp [hds] at hd
    · intro hd; simp [hds] at hd
    · exact h.dsLis
    · exact h.dsSid
    · exact h.prW
    · exact h.dgW

theorem inv_mkRcv (g : G) (st : RSt) (h : Inv g) : Inv (step g (.mkRcv st)).1 := by
  simp only [step]
  split
  · exact h
  · rename_i hc
    have hds : g.ds.isSome = false := by cases hh : g.ds.isSome <;> simp_all
    split
    · exact h
    · constructor
      · exact h.sndFlags
      · intro x hx
        simp only [List.mem_append, List.mem_singleton] at hx
        rcases hx with hx | hx
        · exact h.rcvFlags x hx
        · subst hx; intro hf; simp at hf
      · exact h.sndPoison
      · intro x hx e he
        simp only [List.mem_append, List.mem_singleton] at hx
        rcases hx with hx | hx
        · exact h.rcvPoison x hx e he
        · subst hx; simp at he
      · intro hd; simp [hds] at hd
      · intro hd; simp [hds] at hd
      · intro hd; simp [hds] at hd
      · intro hd; simp [hds] at hd
      · exact h.prW
      · exact h.dgW

/-- ops that only touch scalar fields -/
theorem inv_scalar (g g' : G) (h : Inv g) (hs : g'.snds = g.snds) (hr : g'.rcvs = g.rcvs) (hds : g'.ds = g.ds)
    (hfx : g'.fixedSid = g.fixedSid)
    (h7 : g'.ds.isSome = true → g'.wAb = false ∧ g'.wAu = false)
    (h8 : g'.ds.isSome = true → g'.fixedSid = true → g'.sidOb = false ∧ g'.sidOu = false)
    (h9 : g'.pr.isSome = true → g'.pOb = false ∧ g'.pOu = false ∧ g'.pAb = false ∧ g'.pPr = false)
    (h10 : g'.dg.isSome = true → g'.wDg = false ∧ g'.dgQ = 0) : Inv g' := by
  constructor
  · rw [hs]; exact h.sndFlags
  · rw [hr]; exact h.rcvFlags
  · rw [hs, hds]; exact h.sndPoison
  · rw [hr, hds]; exact h.rcvPoison
  · rw [hs, hds]; exact h.dsSnd
  · rw [hr, hds]; exact h.dsRcv
  · exact h7
  · exact h8
  · exact h9
  · exact h10

theorem inv_step (g : G) (op : Op) (h : Inv g) : Inv (step g op).1 := by
  have h7 := h.dsLis; have h8 := h.dsSid; have h9 := h.prW; have h10 := h.dgW
  cases op with
  | mkSnd st full => exact inv_mkSnd g st full h
  | mkRcv st => exact inv_mkRcv g st h
  | write i => exact inv_sndOp g i 0 h
  | flush i => exact inv_sndOp g i 1 h
  | shutdown i => exact inv_sndOp g i 2 h
  | read i => exact inv_readOp g i h
  | errDs e => exact inv_errDs g e h
  | _ =>
    simp only [step]
    repeat' split
    all_goals first
      | exact h
      | (refine inv_scalar g _ h ?_ ?_ ?_ ?_ ?_ ?_ ?_ ?_ <;> simp_all)

end GmQuic.Poison
