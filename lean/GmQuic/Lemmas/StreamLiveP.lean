import GmQuic.Lemmas.StreamLiveS
/-!
C01 liveness, part 2 (sender side): settling the frames in flight (`lose i` or `deliver i; ack i` for every emitted
frame), and the termination measure of "pick until there is nothing to pick".
-/
namespace GmQuic.Stream
open GmQuic.RecvBuf (Bytes covered)

/-- offset `x` lies in one of the emitted frames with an index in `is` -/
def CoveredBy (em : List Frame) (is : List Nat) (x : Nat) : Prop :=
  ∃ i ∈ is, ∃ f, em[i]? = some f ∧ f.off ≤ x ∧ x < f.stop
/-- one of the emitted frames with an index in `is` carries the FIN -/
def FinIn (em : List Frame) (is : List Nat) : Prop := ∃ i ∈ is, ∃ f, em[i]? = some f ∧ f.fin = true

/-- What is still in flight hangs on the frames `is`: every byte in flight is covered by one of them, and a FIN
in flight (`DataSent`, `fin_state = Sent`) is carried by one of them. -/
def Pend (s : Stream) (is : List Nat) : Prop :=
  s.snd.st = .dataRcvd ∨
    ((∀ x, s.snd.status x = .inflight → CoveredBy s.emitted is x) ∧
     (s.snd.st = .dataSent → s.snd.fin = .sent → FinIn s.emitted is))

/-- the sender is in a state in which transport notifications are legal (a frame was emitted, no error) -/
def Act (s : Sender) : Prop := s.err = false ∧ (s.st = .sending ∨ s.st = .dataSent ∨ s.st = .dataRcvd)

/-- the network-side operations of the suffix: they leave everything but colours / `fin_state` / `DataSent → DataRcvd` alone -/
structure Same (s t : Stream) : Prop where
  em : t.emitted = s.emitted
  wr : t.snd.written = s.snd.written
  hi : t.snd.sentHi = s.snd.sentHi
  md : t.snd.maxData = s.snd.maxData
  sh : t.snd.shutdown = s.snd.shutdown
  act : Act s.snd → Act t.snd

theorem Same.refl (s : Stream) : Same s s := ⟨rfl, rfl, rfl, rfl, rfl, id⟩
theorem Same.trans {a b c : Stream} (h1 : Same a b) (h2 : Same b c) : Same a c :=
  ⟨h2.em.trans h1.em, h2.wr.trans h1.wr, h2.hi.trans h1.hi, h2.md.trans h1.md, h2.sh.trans h1.sh, fun x => h2.act (h1.act x)⟩

/-- `on_data_acked` in `DataSent` before the `is_all_rcvd` test -/
def Sender.ack1 (s : Sender) (f : Frame) : Sender :=
  { s with status := setRange s.status f.off f.stop (fun _ => .acked), fin := if f.fin then .rcvd else s.fin }

theorem ack_dataSent {s : Sender} (f : Frame) (he : s.err = false) (hst : s.st = .dataSent) :
    s.ack f = if (s.ack1 f).allAcked ∧ (s.ack1 f).fin = .rcvd then { s.ack1 f with st := .dataRcvd } else s.ack1 f := by
  unfold Sender.ack Sender.ack1
  simp only [he, hst, Bool.false_eq_true, if_false]

theorem ack_act {s : Sender} (f : Frame) (h : Act s) : Act (s.ack f) := by
  obtain ⟨he, hst⟩ := h
  rcases hst with hst | hst | hst
  · simp [Sender.ack, he, hst, Act]
  · rw [ack_dataSent f he hst]
    split <;> simp [Act, Sender.ack1, he, hst]
  · simp [Sender.ack, he, hst, Act]

theorem ack_same (s : Sender) (f : Frame) :
    (s.ack f).written = s.written ∧ (s.ack f).maxData = s.maxData ∧ (s.ack f).shutdown = s.shutdown ∧
    (Act s → Act (s.ack f)) := by
  refine ⟨?_, ?_, ?_, ack_act f⟩ <;>
  · unfold Sender.ack
    cases s.err <;> cases s.st <;> simp only [Bool.false_eq_true, if_false, if_true] <;> (repeat' split) <;> rfl

theorem lose_act {s : Sender} (f : Frame) (h : Act s) : Act (s.lose f) := by
  obtain ⟨he, hst⟩ := h
  rcases hst with hst | hst | hst <;> simp [Sender.lose, he, hst, Act]

theorem lose_same (s : Sender) (f : Frame) :
    (s.lose f).written = s.written ∧ (s.lose f).maxData = s.maxData ∧ (s.lose f).shutdown = s.shutdown ∧
    (Act s → Act (s.lose f)) := by
  refine ⟨?_, ?_, ?_, lose_act f⟩ <;>
  · unfold Sender.lose
    cases s.err <;> cases s.st <;> rfl

theorem same_ack (s : Stream) (i : Nat) : Same s (s.step (.ack i)) := by
  simp only [Stream.step]; split
  · rename_i f _
    obtain ⟨a, b, c, d⟩ := ack_same s.snd f
    exact ⟨rfl, a, (ack_status s.snd f).1, b, c, d⟩
  · exact Same.refl s

theorem same_lose (s : Stream) (i : Nat) : Same s (s.step (.lose i)) := by
  simp only [Stream.step]; split
  · rename_i f _
    obtain ⟨a, b, c, d⟩ := lose_same s.snd f
    exact ⟨rfl, a, (lose_status s.snd f).1, b, c, d⟩
  · exact Same.refl s

theorem same_deliver (s : Stream) (i : Nat) : Same s (s.step (.deliver i)) := by
  simp only [Stream.step]; split
  · exact ⟨rfl, rfl, rfl, rfl, rfl, id⟩
  · exact Same.refl s

theorem same_read (s : Stream) (cap : Nat) : Same s (s.step (.read cap)) := by
  simp only [Stream.step]; split <;> exact ⟨rfl, rfl, rfl, rfl, rfl, id⟩

/-! ### one frame settled -/

theorem coveredBy_tail {em : List Frame} {i : Nat} {is : List Nat} {x : Nat} (h : CoveredBy em (i :: is) x)
    (hn : ∀ f, em[i]? = some f → ¬ (f.off ≤ x ∧ x < f.stop)) : CoveredBy em is x := by
  obtain ⟨j, hj, f, hf, hc⟩ := h
  rcases List.mem_cons.mp hj with e | e
  · subst e; exact absurd hc (hn f hf)
  · exact ⟨j, e, f, hf, hc⟩

theorem finIn_tail {em : List Frame} {i : Nat} {is : List Nat} (h : FinIn em (i :: is))
    (hn : ∀ f, em[i]? = some f → f.fin = false) : FinIn em is := by
  obtain ⟨j, hj, f, hf, hc⟩ := h
  rcases List.mem_cons.mp hj with e | e
  · subst e; rw [hn f hf] at hc; cases hc
  · exact ⟨j, e, f, hf, hc⟩

theorem pend_deliver {s : Stream} {is : List Nat} (i : Nat) (h : Pend s is) : Pend (s.step (.deliver i)) is := by
  simp only [Stream.step]; split
  · exact h
  · exact h

theorem pend_lose {s : Stream} {i : Nat} {is : List Nat} (ha : Act s.snd) (h : Pend s (i :: is)) :
    Pend (s.step (.lose i)) is := by
  simp only [Stream.step]
  split
  case h_2 hn =>
    rcases h with h | ⟨h1, h2⟩
    · exact Or.inl h
    · exact Or.inr ⟨fun x hx => coveredBy_tail (h1 x hx) (fun f hf => by rw [hn] at hf; cases hf),
        fun a b => finIn_tail (h2 a b) (fun f hf => by rw [hn] at hf; cases hf)⟩
  rename_i f hf
  rcases h with h | ⟨h1, h2⟩
  · left; simp only [Sender.lose]; cases s.snd.err <;> simp [h]
  obtain ⟨he, hst⟩ := ha
  have key : ∀ x, setRange s.snd.status f.off f.stop lostOf x = .inflight → CoveredBy s.emitted is x := by
    intro x hx
    simp only [setRange] at hx
    split at hx
    · exact absurd hx (lostOf_ne_inflight _)
    · rename_i hr
      exact coveredBy_tail (h1 x hx) (fun g hg => by rw [hf] at hg; cases hg; exact hr)
  rcases hst with hst | hst | hst
  · right; simp only [Sender.lose, he, hst, Bool.false_eq_true, if_false]
    exact ⟨key, fun x => by simp at x⟩
  · right; simp only [Sender.lose, he, hst, Bool.false_eq_true, if_false]
    refine ⟨key, fun _ hfin => ?_⟩
    split at hfin
    · cases hfin
    · rename_i hc
      refine finIn_tail (h2 hst hfin) (fun g hg => ?_)
      rw [hf] at hg; cases hg
      cases hff : f.fin
      · rfl
      · exact absurd ⟨hff, by rw [hfin]; simp⟩ hc
  · left; simp only [Sender.lose, he, hst, Bool.false_eq_true, if_false]

theorem pend_ack {s : Stream} {i : Nat} {is : List Nat} (ha : Act s.snd) (h : Pend s (i :: is)) :
    Pend (s.step (.ack i)) is := by
  simp only [Stream.step]
  split
  case h_2 hn =>
    rcases h with h | ⟨h1, h2⟩
    · exact Or.inl h
    · exact Or.inr ⟨fun x hx => coveredBy_tail (h1 x hx) (fun f hf => by rw [hn] at hf; cases hf),
        fun a b => finIn_tail (h2 a b) (fun f hf => by rw [hn] at hf; cases hf)⟩
  rename_i f hf
  rcases h with h | ⟨h1, h2⟩
  · left; simp only [Sender.ack]; cases s.snd.err <;> simp [h]
  obtain ⟨he, hst⟩ := ha
  have key : ∀ x, setRange s.snd.status f.off f.stop (fun _ => BSt.acked) x = .inflight → CoveredBy s.emitted is x := by
    intro x hx
    simp only [setRange] at hx
    split at hx
    · cases hx
    · rename_i hr
      exact coveredBy_tail (h1 x hx) (fun g hg => by rw [hf] at hg; cases hg; exact hr)
  rcases hst with hst | hst | hst
  · right; simp only [Sender.ack, he, hst, Bool.false_eq_true, if_false]
    exact ⟨key, fun x => by simp at x⟩
  · rw [ack_dataSent f he hst]
    split
    · left; rfl
    · right
      refine ⟨key, fun _ hfin => ?_⟩
      simp only [Sender.ack1] at hfin
      split at hfin
      · cases hfin
      · rename_i hc
        refine finIn_tail (h2 hst hfin) (fun g hg => ?_)
        rw [hf] at hg; cases hg
        simpa using hc
  · left; simp only [Sender.ack, he, hst, Bool.false_eq_true, if_false]

/-! ### all frames of a list settled -/

/-- frame `i` is delivered and then acknowledged -/
def dAck (i : Nat) : List Op := [.deliver i, .ack i]

/-- every frame of `is` is either declared lost or delivered and acknowledged (`keep i`) -/
def settleOps (keep : Nat → Bool) : List Nat → List Op
  | [] => []
  | i :: is => (if keep i then dAck i else [.lose i]) ++ settleOps keep is

theorem run_cons (s : Stream) (op : Op) (ops : List Op) : s.run (op :: ops) = (s.step op).run ops := rfl

theorem settle_pend (keep : Nat → Bool) (is : List Nat) {s : Stream} (ha : Act s.snd) (h : Pend s is) :
    Pend (s.run (settleOps keep is)) [] ∧ Same s (s.run (settleOps keep is)) := by
  induction is generalizing s with
  | nil => exact ⟨h, Same.refl s⟩
  | cons i is ih =>
    simp only [settleOps]
    cases keep i
    · simp only [Bool.false_eq_true, if_false, List.singleton_append, run_cons]
      have s1 := same_lose s i
      obtain ⟨r1, r2⟩ := ih (s1.act ha) (pend_lose ha h)
      exact ⟨r1, s1.trans r2⟩
    · simp only [if_true, dAck, List.cons_append, List.nil_append, run_cons]
      have s1 := same_deliver s i
      have s2 := same_ack (s.step (.deliver i)) i
      have hp : Pend (s.step (.deliver i)) (i :: is) := pend_deliver i h
      obtain ⟨r1, r2⟩ := ih (s2.act (s1.act ha)) (pend_ack (s1.act ha) hp)
      exact ⟨r1, (s1.trans s2).trans r2⟩

/-! ### the termination measure of "pick until there is nothing to pick" -/

/-- a FIN (re)transmission is outstanding -/
def Sender.needFin (s : Sender) : Bool :=
  match s.st with
  | .dataSent => s.fin == .lost
  | .ready | .sending => s.shutdown
  | _ => false

/-- number of written bytes that are unsent or marked lost, plus one for an outstanding FIN -/
def Sender.mu (s : Sender) : Nat :=
  (List.range s.written.length).countP (fun x => (s.status x).pickable) + (if s.needFin then 1 else 0)

theorem countP_lt {α} (p q : α → Bool) (l : List α) (hle : ∀ x ∈ l, q x = true → p x = true)
    (hx : ∃ x ∈ l, p x = true ∧ q x = false) : l.countP q < l.countP p := by
  induction l with
  | nil => obtain ⟨x, hm, _⟩ := hx; cases hm
  | cons a l ih =>
    have hle' : ∀ x ∈ l, q x = true → p x = true := fun x hm => hle x (List.mem_cons_of_mem _ hm)
    have hmono : l.countP q ≤ l.countP p := List.countP_mono_left hle'
    obtain ⟨x, hm, h1, h2⟩ := hx
    simp only [List.countP_cons]
    rcases List.mem_cons.mp hm with e | e
    · subst e; simp only [h1, h2, if_true, Bool.false_eq_true, if_false]; omega
    · have := ih hle' ⟨x, e, h1, h2⟩
      have hq := hle a List.mem_cons_self
      cases hqa : q a
      · simp only [Bool.false_eq_true, if_false]; split <;> omega
      · simp only [hq hqa, if_true]; omega

/-- a legal pick that is not a mere repetition of the FIN-only frame strictly decreases the measure -/
theorem pick_mu_lt {s : Sender} {off len : Nat} (hok : s.pickOk off len) (hm : len ≠ 0 ∨ s.finDue) :
    (s.pick off len).1.mu < s.mu := by
  obtain ⟨e1, _, e3, _⟩ := pick_fields s off len
  have hlen := pickOk_len hok
  unfold Sender.mu
  rw [e1, e3]
  by_cases h0 : len = 0
  · subst h0
    have hd : s.finDue := by rcases hm with h | h; exact absurd rfl h; exact h
    have hset : setRange s.status off (off + 0) (fun _ => BSt.inflight) = s.status := by
      funext x; simp only [setRange]; rw [if_neg (by omega)]
    rw [hset]
    have n1 : s.needFin = true := by
      obtain ⟨hl, _, h3⟩ := hd
      have := (live_iff s).mp hl
      unfold Sender.needFin
      rcases this.2 with h | h | h <;> simp_all
    have n2 : (s.pick off 0).1.needFin = false := by
      obtain ⟨hl, hk⟩ := hok
      simp only [if_true] at hk
      have := (live_iff s).mp hl
      unfold Sender.needFin Sender.pick Sender.pickFin
      rcases this.2 with h | h | h
      · simp_all
      · simp_all
      · cases hf : s.fin <;> simp [h, hf]
    simp [n1, n2]
  · have hk : (∀ k, k < len → (s.status (off + k)).pickable = true) := by
      obtain ⟨_, hk⟩ := hok; simp only [h0, if_false] at hk; exact hk.2.2.1
    have hc : (List.range s.written.length).countP (fun x => (setRange s.status off (off + len) (fun _ => BSt.inflight) x).pickable) <
        (List.range s.written.length).countP (fun x => (s.status x).pickable) := by
      apply countP_lt
      · intro x _ hq
        simp only [setRange] at hq
        split at hq
        · simp [BSt.pickable] at hq
        · exact hq
      · refine ⟨off, by simp; omega, by simpa using hk 0 (by omega), ?_⟩
        simp only [setRange]; rw [if_pos (by omega)]; rfl
    have n2 : (s.pick off len).1.needFin = true → s.needFin = true := by
      obtain ⟨hl, _⟩ := hok
      have := (live_iff s).mp hl
      unfold Sender.needFin Sender.pick Sender.pickFin
      rcases this.2 with h | h | h <;> simp only [h] <;> simp <;> (try split) <;> simp_all
    cases hn : (s.pick off len).1.needFin
    · simp only [Bool.false_eq_true, if_false]; split <;> omega
    · simp only [n2 hn, if_true]; omega

end GmQuic.Stream
