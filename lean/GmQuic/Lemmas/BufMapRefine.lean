import GmQuic.Lemmas.SendSpec
import GmQuic.Lemmas.BufMapEasy
import GmQuic.Lemmas.BufMapAck
import GmQuic.Lemmas.BufMapPick
import GmQuic.Lemmas.BufMapLoss
/-!
C09 — assembly of the refinement: every transliterated `SendBuf` operation, run on a state that represents a spec
state (`Rel`), inside the operation's domain (`DomX`), does not panic and is a legal step of the specification
(`stepOk`) to a state that is again represented.  The four index-juggling routines enter as named hypotheses
(`AckRefines`, `ShiftRefines`, `LossRefines`, `PickRefines`); they are discharged in `Lemmas/BufMapAck.lean`,
`Lemmas/BufMapPick.lean`, `Lemmas/BufMapLoss.lean` (`ackRefines`, `shiftRefines`, `pickRefines`, `lossRefines` below).
-/
namespace GmQuic.BufMap
open GmQuic.SendSpec

def AckRefines : Prop :=
  ∀ (m : BufMap) (a b : Nat), WF m → a < b → b ≤ m.size → (∀ x, a ≤ x → x < b → m.abs x ≠ .pending) →
    ∃ m', ackRcvd m a b = .ok m' ∧ WF m' ∧ m'.size = m.size ∧
      ∀ x, m'.abs x = setRange m.abs a b (fun _ => Colour.recved) x

def ShiftRefines : Prop :=
  ∀ (m : BufMap), WF m →
    WF (shift m).1 ∧ (shift m).1.size = m.size ∧ (∀ x, (shift m).1.abs x = m.abs x) ∧
    (shift m).2 = firstUnrecved m.abs m.size

def LossRefines : Prop :=
  ∀ (m : BufMap) (a b : Nat), WF m → a < b → b ≤ m.size → (∀ x, a ≤ x → x < b → m.abs x ≠ .pending) →
    ∃ m', mayLoss m a b = .ok m' ∧ WF m' ∧ m'.size = m.size ∧
      ∀ x, m'.abs x = setRange m.abs a b lostOf x

def PickRefines : Prop :=
  ∀ (m : BufMap) (s : SendSpec) (pred : Nat → Option Nat) (flow : Nat),
    WF m → s.size = m.size → (∀ x, s.colour x = m.abs x) → m.size ≤ s.maxData → m.size < 2 ^ 62 → PredDom pred →
    ∃ m' r, pick m pred flow s.maxData = .ok (m', r) ∧ WF m' ∧ m'.size = m.size ∧
      pickOk s pred flow (obsOf r) ∧ ∀ x, m'.abs x = (s.picked (obsOf r)).colour x

/-- domain of an operation, stated on the transliterated buffer (mirrors the conditions of `stepOk`) -/
def DomX (b : SendBuf) : SendOp → Prop
  | .write bs => b.written + bs.length < 2 ^ 62
  | .extend m => b.maxData ≤ m
  | .pick pred _ => PredDom pred
  | .ack a e => a < e ∧ e ≤ b.state.size ∧ ∀ x, a ≤ x → x < e → b.state.abs x ≠ .pending
  | .lose a e => a < e ∧ e ≤ b.state.size ∧ ∀ x, a ≤ x → x < e → b.state.abs x ≠ .pending
  | .resend => True
  | .forget => b.offset = 0

/-- one operation of the public `SendBuf` API on the transliteration -/
def xstep (b : SendBuf) : SendOp → Res (SendBuf × SendObs)
  | .write bs => (b.write bs.length).map (·, .unit)
  | .extend m => (b.extend m).map (·, .unit)
  | .pick pred flow => (b.pickUp pred flow).map fun (b', r) => (b', obsOf r)
  | .ack a e => (b.onDataAcked a e).map (·, .unit)
  | .lose a e => (b.mayLossData a e).map (·, .unit)
  | .resend => pure (b.resendFlighting, .unit)
  | .forget => pure (b.forget, .unit)

theorem write_refines (b : SendBuf) (s : SendSpec) (hR : Rel b s) (bs : List UInt8)
    (hd : b.written + bs.length < 2 ^ 62) :
    ∃ b', b.write bs.length = .ok b' ∧ Rel b' (s.write bs) := by
  unfold SendBuf.write SendSpec.write
  cases bs with
  | nil => exact ⟨b, rfl, by simpa using hR⟩
  | cons x xs =>
    have hne : (x :: xs).length ≠ 0 := by simp
    simp only [hne, ne_eq, not_false_eq_true, if_true, List.isEmpty_cons, Bool.false_eq_true, if_false]
    have hsz : b.state.size ≤ min (b.written + (x :: xs).length) b.maxData := by
      have := hR.size_eq; rw [hR.size, hR.written, hR.maxData] at this; omega
    obtain ⟨m', hm, hwf, hs', habs⟩ := extendTo_refines b.state _ hR.wf hsz (by omega)
    refine ⟨{ b with state := m', chunks := b.chunks ++ [(x :: xs).length] }, by rw [hm]; rfl, ?_⟩
    have hw : SendBuf.written { b with state := m', chunks := b.chunks ++ [(x :: xs).length] }
        = b.written + (x :: xs).length := by
      simp [SendBuf.written, List.sum_append]; omega
    refine ⟨hwf, ?_, hR.maxData, hR.base, ?_, ?_, ?_, ?_, ?_, ?_⟩
    · simp only [hs', hR.written, hR.maxData]
    · simp only [List.length_append, hw, hR.written]
    · intro y; rw [habs y]; exact hR.colour y
    · intro c hc
      simp only [List.mem_append, List.mem_singleton] at hc
      rcases hc with hc | hc
      · exact hR.chunks_pos c hc
      · subst hc; simp
    · simp only [List.length_append]
    · have := hR.base_le; have := hR.size_eq; simp only; omega
    · simp only [List.length_append]; rw [hR.written]; exact hd

theorem extend_refines (b : SendBuf) (s : SendSpec) (hR : Rel b s) (m : Nat) (hd : b.maxData ≤ m) :
    ∃ b', b.extend m = .ok b' ∧ Rel b' (s.extend m) := by
  unfold SendBuf.extend SendSpec.extend
  have : ¬ m < b.maxData := by omega
  simp only [this, if_false]
  have hsz : b.state.size ≤ min b.written m := by
    have := hR.size_eq; rw [hR.size, hR.written, hR.maxData] at this; omega
  have h62 : min b.written m < 2 ^ 62 := by have := hR.lt62; rw [hR.written] at this; omega
  obtain ⟨m', hm, hwf, hs', habs⟩ := extendTo_refines b.state _ hR.wf hsz h62
  refine ⟨{ b with maxData := m, state := m' }, by rw [hm]; rfl, ?_⟩
  refine ⟨hwf, ?_, rfl, hR.base, hR.written, ?_, hR.chunks_pos, rfl, ?_, hR.lt62⟩
  · simp only [hs', hR.written]
  · intro y; rw [habs y]; exact hR.colour y
  · have := hR.base_le; have := hR.size_eq; rw [hR.maxData] at this; simp only; omega

theorem forget_refines (b : SendBuf) (s : SendSpec) (hR : Rel b s) (hd : b.offset = 0) :
    Rel b.forget s.forget := by
  refine ⟨⟨List.Pairwise.nil, by simp [SendBuf.forget]⟩, rfl, rfl, hR.base, hR.written, ?_, hR.chunks_pos, ?_, ?_, hR.lt62⟩
  · intro x; simp [SendSpec.forget, SendBuf.forget, BufMap.abs]
  · simp [SendSpec.forget]
  · have := hR.base; simp only [SendSpec.forget]; omega

theorem resendFlighting_refines (b : SendBuf) (s : SendSpec) (hR : Rel b s) :
    Rel b.resendFlighting s.resend := by
  obtain ⟨hwf, hs, habs⟩ := resend_refines b.state hR.wf
  refine ⟨hwf, ?_, hR.maxData, hR.base, hR.written, ?_, hR.chunks_pos, hR.size_eq, hR.base_le, hR.lt62⟩
  · simp only [SendSpec.resend, SendBuf.resendFlighting, hs]; exact hR.size
  · intro x
    simp only [SendSpec.resend, SendBuf.resendFlighting]
    rw [habs x, hR.colour x]

theorem ack_refines (hA : AckRefines) (hS : ShiftRefines) (b : SendBuf) (s : SendSpec) (hR : Rel b s) (a e : Nat)
    (hd : a < e ∧ e ≤ b.state.size ∧ ∀ x, a ≤ x → x < e → b.state.abs x ≠ .pending) :
    ∃ b', b.onDataAcked a e = .ok b' ∧ Rel b' (s.ack a e) := by
  obtain ⟨m1, hm1, hwf1, hs1, habs1⟩ := hA b.state a e hR.wf hd.1 hd.2.1 hd.2.2
  obtain ⟨hwf2, hs2, habs2, hmin⟩ := hS m1 hwf1
  have hcol : m1.abs = setRange s.colour a e (fun _ => Colour.recved) := by
    funext x
    rw [habs1 x]
    simp only [setRange, hR.colour]
  have hfu : (shift m1).2 = firstUnrecved (setRange s.colour a e (fun _ => Colour.recved)) s.size := by
    rw [hmin, hcol, hs1, hR.size]
  have hle : (shift m1).2 ≤ s.size := by rw [hfu]; exact firstUnrecved_le _ _
  unfold SendBuf.onDataAcked
  simp only [hm1, bind, Except.bind]
  by_cases hlt : b.offset < (shift m1).2
  · simp only [hlt, if_true]
    refine ⟨_, rfl, ?_⟩
    have hsum : (shift m1).2 - b.offset ≤ b.chunks.sum := by
      have := hR.size_eq; have := hR.written; simp only [SendBuf.written] at this; omega
    obtain ⟨hds, hdp⟩ := dropChunks_sum b.chunks _ hsum hR.chunks_pos
    refine ⟨hwf2, ?_, hR.maxData, ?_, ?_, ?_, hdp, hR.size_eq, ?_, hR.lt62⟩
    · simp only [SendSpec.ack, hs2, hs1]; exact hR.size
    · simp only [SendSpec.ack, ← hfu, hR.base]; omega
    · simp only [SendSpec.ack, SendBuf.written]
      have := hR.written; simp only [SendBuf.written] at this; omega
    · intro x; simp only [SendSpec.ack]; rw [habs2 x, hcol]
    · simp only [SendSpec.ack, ← hfu, hR.base]; omega
  · simp only [hlt, if_false]
    refine ⟨_, rfl, ?_⟩
    refine ⟨hwf2, ?_, hR.maxData, ?_, hR.written, ?_, hR.chunks_pos, hR.size_eq, ?_, hR.lt62⟩
    · simp only [SendSpec.ack, hs2, hs1]; exact hR.size
    · simp only [SendSpec.ack, ← hfu, hR.base]; omega
    · intro x; simp only [SendSpec.ack]; rw [habs2 x, hcol]
    · simp only [SendSpec.ack, ← hfu]; have := hR.base_le; omega

theorem lose_refines (hL : LossRefines) (b : SendBuf) (s : SendSpec) (hR : Rel b s) (a e : Nat)
    (hd : a < e ∧ e ≤ b.state.size ∧ ∀ x, a ≤ x → x < e → b.state.abs x ≠ .pending) :
    ∃ b', b.mayLossData a e = .ok b' ∧ Rel b' (s.lose a e) := by
  obtain ⟨m1, hm1, hwf1, hs1, habs1⟩ := hL b.state a e hR.wf hd.1 hd.2.1 hd.2.2
  unfold SendBuf.mayLossData
  simp only [hm1, bind, Except.bind]
  refine ⟨_, rfl, ?_⟩
  refine ⟨hwf1, ?_, hR.maxData, hR.base, hR.written, ?_, hR.chunks_pos, hR.size_eq, hR.base_le, hR.lt62⟩
  · simp only [SendSpec.lose, hs1]; exact hR.size
  · intro x
    simp only [SendSpec.lose]
    rw [habs1 x]
    simp only [setRange, hR.colour]

theorem pickUp_refines (hP : PickRefines) (b : SendBuf) (s : SendSpec) (hR : Rel b s)
    (pred : Nat → Option Nat) (flow : Nat) (hd : PredDom pred) :
    ∃ b' r, b.pickUp pred flow = .ok (b', r) ∧ pickOk s pred flow (obsOf r) ∧ Rel b' (s.picked (obsOf r)) := by
  have hwin : b.state.size ≤ s.maxData := by have := hR.size_eq; rw [hR.size] at this; omega
  have h62 : b.state.size < 2 ^ 62 := by have := hR.size_eq; have := hR.lt62; rw [hR.size] at *; omega
  obtain ⟨m', r, hp, hwf, hs, hok, habs⟩ := hP b.state s pred flow hR.wf hR.size hR.colour hwin h62 hd
  have hp' : pick b.state pred flow b.maxData = .ok (m', r) := by rw [← hR.maxData]; exact hp
  unfold SendBuf.pickUp
  rw [hp']
  refine ⟨{ b with state := m' }, r, rfl, hok, ?_⟩
  have hsame : ∀ o, (s.picked o).size = s.size ∧ (s.picked o).maxData = s.maxData ∧ (s.picked o).base = s.base ∧
      (s.picked o).data = s.data := by
    intro o; cases o <;> simp [SendSpec.picked]
  obtain ⟨h1, h2, h3, h4⟩ := hsame (obsOf r)
  refine ⟨hwf, ?_, ?_, ?_, ?_, ?_, hR.chunks_pos, ?_, ?_, ?_⟩
  · rw [h1, hs]; exact hR.size
  · rw [h2]; exact hR.maxData
  · rw [h3]; exact hR.base
  · rw [h4]; exact hR.written
  · intro x; exact (habs x).symm
  · rw [h1, h4, h2]; exact hR.size_eq
  · rw [h1, h3]; exact hR.base_le
  · rw [h4]; exact hR.lt62

/-- **Refinement, one step.**  Every public operation of the transliterated `SendBuf`, inside its domain, on a
state representing `s`: no panic, and the answer is a legal step of the specification. -/
theorem step_refines (hA : AckRefines) (hS : ShiftRefines) (hP : PickRefines)
    (b : SendBuf) (s : SendSpec) (hR : Rel b s) (op : SendOp) (hL : (∃ a e, op = .lose a e) → LossRefines)
    (hd : DomX b op) :
    ∃ b' obs s', xstep b op = .ok (b', obs) ∧ stepOk s op obs s' ∧ Rel b' s' := by
  cases op with
  | write bs =>
    obtain ⟨b', hb, hR'⟩ := write_refines b s hR bs hd
    refine ⟨b', .unit, s.write bs, by simp [xstep, hb, Except.map], ⟨?_, rfl⟩, hR'⟩
    rw [hR.written]; exact hd
  | extend m =>
    obtain ⟨b', hb, hR'⟩ := extend_refines b s hR m hd
    refine ⟨b', .unit, s.extend m, by simp [xstep, hb, Except.map], ⟨?_, rfl⟩, hR'⟩
    rw [hR.maxData]; exact hd
  | pick pred flow =>
    obtain ⟨b', r, hb, hok, hR'⟩ := pickUp_refines hP b s hR pred flow hd
    exact ⟨b', obsOf r, s.picked (obsOf r), by simp [xstep, hb, Except.map], ⟨hd, hok, rfl⟩, hR'⟩
  | ack a e =>
    obtain ⟨b', hb, hR'⟩ := ack_refines hA hS b s hR a e hd
    refine ⟨b', .unit, s.ack a e, by simp [xstep, hb, Except.map], ⟨⟨hd.1, ?_, ?_⟩, rfl⟩, hR'⟩
    · rw [hR.size]; exact hd.2.1
    · intro x h1 h2; rw [hR.colour]; exact hd.2.2 x h1 h2
  | lose a e =>
    obtain ⟨b', hb, hR'⟩ := lose_refines (hL ⟨a, e, rfl⟩) b s hR a e hd
    refine ⟨b', .unit, s.lose a e, by simp [xstep, hb, Except.map], ⟨⟨hd.1, ?_, ?_⟩, rfl⟩, hR'⟩
    · rw [hR.size]; exact hd.2.1
    · intro x h1 h2; rw [hR.colour]; exact hd.2.2 x h1 h2
  | resend =>
    exact ⟨b.resendFlighting, .unit, s.resend, rfl, rfl, resendFlighting_refines b s hR⟩
  | forget =>
    refine ⟨b.forget, .unit, s.forget, rfl, ⟨?_, rfl⟩, forget_refines b s hR hd⟩
    rw [hR.base]; exact hd

/-- a run of the transliteration: operations in their domain, with the answers it gave, without panic -/
inductive XRun : SendBuf → List (SendOp × SendObs) → SendBuf → Prop
  | nil (b) : XRun b [] b
  | snoc {b₀ tr b op obs b'} : XRun b₀ tr b → DomX b op → xstep b op = .ok (b', obs) → XRun b₀ (tr ++ [(op, obs)]) b'

/-- **Refinement, all histories.**  Every run of the transliteration is a trace of the specification. -/
def HasLose (tr : List (SendOp × SendObs)) : Prop := ∃ e ∈ tr, ∃ a b, e.1 = .lose a b

theorem run_refines (hA : AckRefines) (hS : ShiftRefines) (hP : PickRefines)
    (b₀ : SendBuf) (s₀ : SendSpec) (hR : Rel b₀ s₀) (tr : List (SendOp × SendObs)) (b : SendBuf)
    (h : XRun b₀ tr b) (hL : HasLose tr → LossRefines) : ∃ s, Trace.Ok s₀ tr s ∧ Rel b s := by
  induction h with
  | nil => exact ⟨s₀, .nil _, hR⟩
  | @snoc tr0 b1 op obs b2 _ hd hx ih =>
    obtain ⟨s, ht, hRs⟩ := ih (fun ⟨e, he, q⟩ => hL ⟨e, by simp [he], q⟩)
    obtain ⟨b'', obs', s', hx', hok, hR'⟩ := step_refines hA hS hP _ s hRs _
      (fun ⟨a, e, q⟩ => hL ⟨(op, obs), by simp, a, e, q⟩) hd
    rw [hx] at hx'
    cases hx'
    exact ⟨s', .snoc ht hok, hR'⟩

/-- `ack_rcvd` refines the spec (`Lemmas/BufMapAck.lean`) -/
theorem ackRefines : AckRefines := fun m a b hwf hab hb hnp => ackRcvd_refines m a b hwf hab hb hnp

/-- `shift` refines the spec (`Lemmas/BufMapAck.lean`) -/
theorem shiftRefines : ShiftRefines := fun m hwf => shift_refines m hwf

/-- `pick` stays inside `pickOk` (`Lemmas/BufMapPick.lean`) -/
theorem pickRefines : PickRefines :=
  fun m s pred flow hwf hsize hcol hwin h62 hp => pick_refines m s pred flow hwf hsize hcol hwin h62 hp

/-- `may_loss` / `may_lost_from` refine the spec (`Lemmas/BufMapLoss.lean`) -/
theorem lossRefines : LossRefines := fun m a b hwf hab hb hnp => mayLoss_refines m a b hwf hab hb hnp

end GmQuic.BufMap
