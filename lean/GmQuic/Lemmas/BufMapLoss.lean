import GmQuic.Lemmas.BufMapAbs
/-!
C09 — refinement of `may_loss` / `may_lost_from` (transliteration in `Model/BufMap.lean`) to the per-byte
specification `setRange _ a b lostOf` of `Model/SendSpec.lean`.
-/
namespace GmQuic.BufMap
open GmQuic.SendSpec

/-! ### generic facts about `colourAt` -/

/-- per-run effect of a loss report -/
def lostRun (r : Run) : Run := (r.1, lostOf r.2)
/-- recolouring of a scanned run -/
def toLost (r : Run) : Run := (r.1, Colour.lost)

theorem colourAt_lt_all (l : List Run) (p : Colour) (x : Nat) (h : ∀ r ∈ l, x < r.1) : colourAt l p x = p := by
  cases l with
  | nil => rfl
  | cons r l =>
    obtain ⟨o, c⟩ := r
    have := h (o, c) (by simp)
    simp [colourAt, this]

theorem colourAt_append (l1 l2 : List Run) (p : Colour) (x : Nat)
    (h : ∀ r1 ∈ l1, ∀ r2 ∈ l2, r1.1 ≤ r2.1) :
    colourAt (l1 ++ l2) p x = colourAt l2 (colourAt l1 p x) x := by
  induction l1 generalizing p with
  | nil => rfl
  | cons r l1 ih =>
    obtain ⟨o, c⟩ := r
    simp only [List.cons_append, colourAt]
    split
    · rename_i hx
      symm
      apply colourAt_lt_all
      intro r2 hr2
      have := h (o, c) (by simp) r2 hr2
      simp at this
      omega
    · exact ih c (fun r1 h1 r2 h2 => h r1 (by simp [h1]) r2 h2)

theorem colourAt_allc (l : List Run) (c : Colour) (x : Nat) (h : ∀ r ∈ l, r.2 = c) : colourAt l c x = c := by
  induction l with
  | nil => rfl
  | cons r l ih =>
    obtain ⟨o, c'⟩ := r
    have hc : c' = c := h (o, c') (by simp)
    subst hc
    simp only [colourAt]
    split
    · rfl
    · exact ih (fun r hr => h r (by simp [hr]))

theorem colourAt_map_lostRun (l : List Run) (p : Colour) (x : Nat) :
    colourAt (l.map lostRun) (lostOf p) x = lostOf (colourAt l p x) := by
  induction l generalizing p with
  | nil => rfl
  | cons r l ih =>
    obtain ⟨o, c⟩ := r
    simp only [List.map_cons, lostRun, colourAt]
    split
    · rfl
    · exact ih c

/-- colour of a list of `Lost` runs -/
theorem colourAt_lostList (l : List Run) (p : Colour) (x : Nat) (h : ∀ r ∈ l, r.2 = Colour.lost) :
    colourAt l p x = match l with
      | [] => p
      | r :: _ => if x < r.1 then p else Colour.lost := by
  cases l with
  | nil => rfl
  | cons r l =>
    obtain ⟨o, c⟩ := r
    have hc : c = Colour.lost := h (o, c) (by simp)
    subst hc
    simp only [colourAt]
    split
    · rfl
    · exact colourAt_allc l _ x (fun r hr => h r (by simp [hr]))

theorem lastCol_of_ne_nil (l : List Run) (p q : Colour) (h : l ≠ []) : lastCol l p = lastCol l q := by
  cases l with
  | nil => exact absurd rfl h
  | cons r l => simp [lastCol_cons]

theorem lastCol_prop (Q : Colour → Prop) (l : List Run) (p : Colour) (hp : Q p) (h : ∀ r ∈ l, Q r.2) :
    Q (lastCol l p) := by
  induction l generalizing p with
  | nil => simpa [lastCol_nil] using hp
  | cons r l ih =>
    rw [lastCol_cons]
    exact ih r.2 (h r (by simp)) (fun r' hr' => h r' (by simp [hr']))

/-- for `x` at or above all runs of `l`, the colour is that of the last run -/
theorem colourAt_ge_all (l : List Run) (p : Colour) (x : Nat) (h : ∀ r ∈ l, r.1 ≤ x) :
    colourAt l p x = lastCol l p := by
  have := colourAt_append_le l [] p x h
  simp [colourAt] at this; exact this

/-! ### list surgery below a prefix -/

theorem set_prefix (P l : List Run) (i : Nat) (r : Run) : (P ++ l).set (P.length + i) r = P ++ l.set i r := by
  induction P with
  | nil => simp
  | cons p P ih => simp [Nat.succ_add, ih]

theorem take_prefix (P l : List Run) (i : Nat) : (P ++ l).take (P.length + i) = P ++ l.take i := by
  induction P with
  | nil => simp
  | cons p P ih => simp [Nat.succ_add, ih]

theorem drop_prefix (P l : List Run) (i : Nat) : (P ++ l).drop (P.length + i) = l.drop i := by
  induction P with
  | nil => simp
  | cons p P ih => simp [Nat.succ_add, ih]

/-! ### `skipSame` -/

theorem skipSame_spec (c : Colour) (l : List Run) (i : Nat) (hs : Sorted l) :
    ∃ k, skipSame c l i = i + k ∧ k ≤ l.length ∧ (∀ r ∈ l.take k, r.2 = c) := by
  induction l generalizing i with
  | nil => exact ⟨0, by simp [skipSame]⟩
  | cons r l ih =>
    obtain ⟨o, c'⟩ := r
    simp only [skipSame]
    split
    · rename_i hc
      obtain ⟨k, h1, h2, h3⟩ := ih (i + 1) (List.Pairwise.of_cons hs)
      refine ⟨k + 1, by omega, by simp; omega, ?_⟩
      intro r hr
      simp only [List.take_succ_cons, List.mem_cons] at hr
      rcases hr with rfl | hr
      · exact hc
      · exact h3 r hr
    · exact ⟨0, by simp⟩

/-! ### the scanning loop of `may_lost_from` -/

theorem mlfScan_spec (e size : Nat) (he : e ≤ size) (rest : List Run) :
    ∀ (done : List Run) (idx : Nat) (pre : Colour), idx = done.length →
    (∀ r ∈ rest, r.1 < e → r.2 ≠ Colour.pending) →
    ∃ L R, rest = L ++ R ∧ (∀ r ∈ L, r.1 < e ∧ (r.2 = Colour.flighting ∨ r.2 = Colour.lost)) ∧
      ((R = [] ∧ mlfScan e size done rest idx pre =
          .ok (done.reverse ++ L.map toLost ++ R, idx + L.length, lastCol L pre,
            decide (e < size) && lastCol L pre == Colour.flighting, none)) ∨
       (∃ o R', R = (o, Colour.recved) :: R' ∧ o < e ∧ mlfScan e size done rest idx pre =
          .ok (done.reverse ++ L.map toLost ++ R, idx + L.length, Colour.recved, false,
            some (idx + L.length + 1))) ∨
       (∃ c R', R = (e, c) :: R' ∧ mlfScan e size done rest idx pre =
          .ok (done.reverse ++ L.map toLost ++ R, skipSame Colour.lost R (idx + L.length), lastCol L pre,
            false, none)) ∨
       (∃ o c R', R = (o, c) :: R' ∧ e < o ∧ mlfScan e size done rest idx pre =
          .ok (done.reverse ++ L.map toLost ++ R, idx + L.length, lastCol L pre,
            lastCol L pre == Colour.flighting, none))) := by
  induction rest with
  | nil =>
    intro done idx pre _ _
    refine ⟨[], [], rfl, by simp, Or.inl ⟨rfl, ?_⟩⟩
    have : ¬ e > size := by omega
    simp [mlfScan, this, lastCol_nil]
    rfl
  | cons r rest ih =>
    intro done idx pre hidx hnp
    obtain ⟨o, c⟩ := r
    by_cases hoe : o < e
    · have hcp : c ≠ Colour.pending := hnp (o, c) (by simp) hoe
      by_cases hcr : c = Colour.recved
      · subst hcr
        refine ⟨[], (o, Colour.recved) :: rest, rfl, by simp, Or.inr (Or.inl ⟨o, rest, rfl, hoe, ?_⟩)⟩
        simp [mlfScan, hoe]
        rfl
      · obtain ⟨L, R, hLR, hL, hres⟩ := ih ((o, Colour.lost) :: done) (idx + 1) c (by simp [hidx])
          (fun r hr => hnp r (by simp [hr]))
        have hunf : mlfScan e size done ((o, c) :: rest) idx pre
            = mlfScan e size ((o, Colour.lost) :: done) rest (idx + 1) c := by
          simp [mlfScan, hoe, hcp, hcr]
        have hc2 : c = Colour.flighting ∨ c = Colour.lost := by
          cases c <;> simp_all
        refine ⟨(o, c) :: L, R, by simp [hLR], ?_, ?_⟩
        · intro r hr
          simp only [List.mem_cons] at hr
          rcases hr with rfl | hr
          · exact ⟨hoe, hc2⟩
          · exact hL r hr
        · have hrev : ((o, Colour.lost) :: done).reverse ++ L.map toLost
              = done.reverse ++ ((o, c) :: L).map toLost := by
            simp [toLost]
          have hlen : idx + 1 + L.length = idx + ((o, c) :: L).length := by simp; omega
          have hlc : lastCol ((o, c) :: L) pre = lastCol L c := lastCol_cons _ _ _
          rw [hunf, ← hrev, ← hlen, hlc]
          exact hres
    · by_cases hoe2 : o = e
      · subst hoe2
        refine ⟨[], (o, c) :: rest, rfl, by simp, Or.inr (Or.inr (Or.inl ⟨c, rest, rfl, ?_⟩))⟩
        have hd : (done.reverse ++ (o, c) :: rest).drop idx = (o, c) :: rest := by
          have := drop_prefix done.reverse ((o, c) :: rest) 0
          simpa [hidx] using this
        simp [mlfScan, sameAfterP1, hd, lastCol_nil]
        rfl
      · refine ⟨[], (o, c) :: rest, rfl, by simp, Or.inr (Or.inr (Or.inr ⟨o, c, rest, rfl, by omega, ?_⟩))⟩
        simp [mlfScan, hoe, hoe2, lastCol_nil]
        rfl

end GmQuic.BufMap
