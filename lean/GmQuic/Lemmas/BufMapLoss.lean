import GmQuic.Lemmas.BufMapAbs
/-!
C09 — refinement of `may_loss` / `may_lost_from` (transliteration in `Model/BufMap.lean`) to the per-byte
specification `setRange _ a b lostOf` of `Model/SendSpec.lean`.
-/
namespace GmQuic.BufMap
open GmQuic.SendSpec

/-! ### generic facts about `colourAt` -/

/-- per-run effect of a loss report -/
def lostRun (r : Run) : Run := (r.1, lostOf r.2)
/-- recolouring of a scanned run -/
def toLost (r : Run) : Run := (r.1, Colour.lost)

theorem colourAt_lt_all (l : List Run) (p : Colour) (x : Nat) (h : ∀ r ∈ l, x < r.1) : colourAt l p x = p := by
  cases l with
  | nil => rfl
  | cons r l =>
    obtain ⟨o, c⟩ := r
    have := h (o, c) (by simp)
    simp [colourAt, this]

theorem colourAt_append (l1 l2 : List Run) (p : Colour) (x : Nat)
    (h : ∀ r1 ∈ l1, ∀ r2 ∈ l2, r1.1 ≤ r2.1) :
    colourAt (l1 ++ l2) p x = colourAt l2 (colourAt l1 p x) x := by
  induction l1 generalizing p with
  | nil => rfl
  | cons r l1 ih =>
    obtain ⟨o, c⟩ := r
    simp only [List.cons_append, colourAt]
    split
    · rename_i hx
      symm
      apply colourAt_lt_all
      intro r2 hr2
      have := h (o, c) (by simp) r2 hr2
      simp at this
      omega
    · exact ih c (fun r1 h1 r2 h2 => h r1 (by simp [h1]) r2 h2)

theorem colourAt_allc (l : List Run) (c : Colour) (x : Nat) (h : ∀ r ∈ l, r.2 = c) : colourAt l c x = c := by
  induction l with
  | nil => rfl
  | cons r l ih =>
    obtain ⟨o, c'⟩ := r
    have hc : c' = c := h (o, c') (by simp)
    subst hc
    simp only [colourAt]
    split
    · rfl
    · exact ih (fun r hr => h r (by simp [hr]))

theorem colourAt_map_lostRun (l : List Run) (p : Colour) (x : Nat) :
    colourAt (l.map lostRun) (lostOf p) x = lostOf (colourAt l p x) := by
  induction l generalizing p with
  | nil => rfl
  | cons r l ih =>
    obtain ⟨o, c⟩ := r
    simp only [List.map_cons, lostRun, colourAt]
    split
    · rfl
    · exact ih c

/-- colour of a list of `Lost` runs -/
theorem colourAt_lostCons (o : Nat) (l : List Run) (p : Colour) (x : Nat) (h : ∀ r ∈ l, r.2 = Colour.lost) :
    colourAt ((o, Colour.lost) :: l) p x = if x < o then p else Colour.lost := by
  simp only [colourAt]
  split
  · rfl
  · exact colourAt_allc l _ x h

theorem lastCol_of_ne_nil (l : List Run) (p q : Colour) (h : l ≠ []) : lastCol l p = lastCol l q := by
  cases l with
  | nil => exact absurd rfl h
  | cons r l => simp [lastCol_cons]

theorem lastCol_prop (Q : Colour → Prop) (l : List Run) (p : Colour) (hp : Q p) (h : ∀ r ∈ l, Q r.2) :
    Q (lastCol l p) := by
  induction l generalizing p with
  | nil => simpa [lastCol_nil] using hp
  | cons r l ih =>
    rw [lastCol_cons]
    exact ih r.2 (h r (by simp)) (fun r' hr' => h r' (by simp [hr']))

/-- for `x` at or above all runs of `l`, the colour is that of the last run -/
theorem colourAt_ge_all (l : List Run) (p : Colour) (x : Nat) (h : ∀ r ∈ l, r.1 ≤ x) :
    colourAt l p x = lastCol l p := by
  have := colourAt_append_le l [] p x h
  simp [colourAt] at this; exact this

/-! ### list surgery below a prefix -/

theorem set_prefix (P l : List Run) (i : Nat) (r : Run) : (P ++ l).set (P.length + i) r = P ++ l.set i r := by
  induction P with
  | nil => simp
  | cons p P ih => simp [Nat.succ_add, ih]

theorem take_prefix (P l : List Run) (i : Nat) : (P ++ l).take (P.length + i) = P ++ l.take i := by
  induction P with
  | nil => simp
  | cons p P ih => simp [Nat.succ_add, ih]

theorem drop_prefix (P l : List Run) (i : Nat) : (P ++ l).drop (P.length + i) = l.drop i := by
  induction P with
  | nil => simp
  | cons p P ih => simp [Nat.succ_add, ih]

/-! ### `skipSame` -/

theorem loss_skipSame_spec (c : Colour) (l : List Run) (i : Nat) (hs : Sorted l) :
    ∃ k, skipSame c l i = i + k ∧ k ≤ l.length ∧ (∀ r ∈ l.take k, r.2 = c) := by
  induction l generalizing i with
  | nil => exact ⟨0, by simp [skipSame]⟩
  | cons r l ih =>
    obtain ⟨o, c'⟩ := r
    simp only [skipSame]
    split
    · rename_i hc
      obtain ⟨k, h1, h2, h3⟩ := ih (i + 1) (List.Pairwise.of_cons hs)
      refine ⟨k + 1, by omega, by simp; omega, ?_⟩
      intro r hr
      simp only [List.take_succ_cons, List.mem_cons] at hr
      rcases hr with rfl | hr
      · exact hc
      · exact h3 r hr
    · exact ⟨0, by simp⟩

/-! ### the scanning loop of `may_lost_from` -/

theorem mlfScan_spec (e size : Nat) (he : e ≤ size) (rest : List Run) :
    ∀ (done : List Run) (idx : Nat) (pre : Colour), idx = done.length →
    (∀ r ∈ rest, r.1 < e → r.2 ≠ Colour.pending) →
    ∃ L R, rest = L ++ R ∧ (∀ r ∈ L, r.1 < e ∧ (r.2 = Colour.flighting ∨ r.2 = Colour.lost)) ∧
      ((R = [] ∧ mlfScan e size done rest idx pre =
          .ok (done.reverse ++ L.map toLost ++ R, idx + L.length, lastCol L pre,
            decide (e < size) && lastCol L pre == Colour.flighting, none)) ∨
       (∃ o R', R = (o, Colour.recved) :: R' ∧ o < e ∧ mlfScan e size done rest idx pre =
          .ok (done.reverse ++ L.map toLost ++ R, idx + L.length, Colour.recved, false,
            some (idx + L.length + 1))) ∨
       (∃ c R', R = (e, c) :: R' ∧ mlfScan e size done rest idx pre =
          .ok (done.reverse ++ L.map toLost ++ R, skipSame Colour.lost R (idx + L.length), lastCol L pre,
            false, none)) ∨
       (∃ o c R', R = (o, c) :: R' ∧ e < o ∧ mlfScan e size done rest idx pre =
          .ok (done.reverse ++ L.map toLost ++ R, idx + L.length, lastCol L pre,
            lastCol L pre == Colour.flighting, none))) := by
  induction rest with
  | nil =>
    intro done idx pre _ _
    refine ⟨[], [], rfl, by simp, Or.inl ⟨rfl, ?_⟩⟩
    have : ¬ e > size := by omega
    simp [mlfScan, this, lastCol_nil]
    rfl
  | cons r rest ih =>
    intro done idx pre hidx hnp
    obtain ⟨o, c⟩ := r
    by_cases hoe : o < e
    · have hcp : c ≠ Colour.pending := hnp (o, c) (by simp) hoe
      by_cases hcr : c = Colour.recved
      · subst hcr
        refine ⟨[], (o, Colour.recved) :: rest, rfl, by simp, Or.inr (Or.inl ⟨o, rest, rfl, hoe, ?_⟩)⟩
        simp [mlfScan, hoe]
        rfl
      · obtain ⟨L, R, hLR, hL, hres⟩ := ih ((o, Colour.lost) :: done) (idx + 1) c (by simp [hidx])
          (fun r hr => hnp r (by simp [hr]))
        have hunf : mlfScan e size done ((o, c) :: rest) idx pre
            = mlfScan e size ((o, Colour.lost) :: done) rest (idx + 1) c := by
          simp [mlfScan, hoe, hcp, hcr]
        have hc2 : c = Colour.flighting ∨ c = Colour.lost := by
          cases c <;> simp_all
        refine ⟨(o, c) :: L, R, by simp [hLR], ?_, ?_⟩
        · intro r hr
          simp only [List.mem_cons] at hr
          rcases hr with rfl | hr
          · exact ⟨hoe, hc2⟩
          · exact hL r hr
        · have hrev : ((o, Colour.lost) :: done).reverse ++ L.map toLost
              = done.reverse ++ ((o, c) :: L).map toLost := by
            simp [toLost]
          have hlen : idx + 1 + L.length = idx + ((o, c) :: L).length := by simp; omega
          have hlc : lastCol ((o, c) :: L) pre = lastCol L c := lastCol_cons _ _ _
          rw [hunf, ← hrev, ← hlen, hlc]
          exact hres
    · by_cases hoe2 : o = e
      · subst hoe2
        refine ⟨[], (o, c) :: rest, rfl, by simp, Or.inr (Or.inr (Or.inl ⟨c, rest, rfl, ?_⟩))⟩
        have hd : (done.reverse ++ (o, c) :: rest).drop idx = (o, c) :: rest := by
          simp [hidx]
        simp [mlfScan, sameAfterP1, hd, lastCol_nil]
        rfl
      · refine ⟨[], (o, c) :: rest, rfl, by simp, Or.inr (Or.inr (Or.inr ⟨o, c, rest, rfl, by omega, ?_⟩))⟩
        simp [mlfScan, hoe, hoe2, lastCol_nil]
        rfl

/-! ### the tail of `may_lost_from`: re-insert the end, drain the merged runs -/

def mlfPost (runs2 : List Run) (idxStart idx e : Nat) (pre : Colour) (nie : Bool) : Res (List Run) := do
  let (runs3, idxStart) ← if nie then do
      let l ← if idxStart + 1 < idx then setAt runs2 (idxStart + 1) (e, pre) else insertAt runs2 (idxStart + 1) (e, pre)
      pure (l, idxStart + 1)
    else pure (runs2, idxStart)
  if idxStart + 1 < idx then drain runs3 (idxStart + 1) idx else pure runs3

theorem mayLostFrom_succ (fuel : Nat) (runs : List Run) (size j e : Nat) :
    mayLostFrom (fuel + 1) runs size j e = (do
      let (runs1, idx, pre, nie, recAt) ← mlfScan e size (runs.take j).reverse (runs.drop j) j .recved
      let runs2 ← match recAt with
        | some j => mayLostFrom fuel runs1 size j e
        | none => pure runs1
      mlfPost runs2 j idx e pre nie) := rfl

theorem loss_setAt_ok (l : List Run) (i : Nat) (r : Run) (h : i < l.length) : setAt l i r = .ok (l.set i r) := by
  simp [setAt, h]; rfl

theorem loss_insertAt_ok (l : List Run) (i : Nat) (r : Run) (h : i ≤ l.length) :
    insertAt l i r = .ok (l.take i ++ r :: l.drop i) := by
  simp [insertAt, h]; rfl

theorem loss_drain_ok (l : List Run) (a b : Nat) (h1 : a ≤ b) (h2 : b ≤ l.length) :
    drain l a b = .ok (l.take a ++ l.drop b) := by
  simp [drain, h1, h2]; rfl

theorem mlfPost_spec (P M S : List Run) (e : Nat) (pre : Colour) (nie : Bool) (hn : nie = true → M ≠ []) :
    mlfPost (P ++ M ++ S) P.length (P.length + M.length) e pre nie
      = .ok (P ++ (M.take 1 ++ ((if nie = true then [(e, pre)] else []) ++ S))) := by
  match M, hn with
  | [], hn =>
    cases nie
    · have : ¬ P.length + 1 < P.length := by omega
      simp [mlfPost, this]; rfl
    · exact absurd rfl (hn rfl)
  | [m], _ =>
    have hn1 : ¬ P.length + 1 < P.length + 1 := by omega
    have hn2 : ¬ P.length + 1 + 1 < P.length + 1 := by omega
    cases nie
    · simp [mlfPost]; rfl
    · have h1 : (P ++ [m] ++ S).take (P.length + 1) = P ++ [m] := by
        have := take_prefix P ([m] ++ S) 1
        simpa using this
      have h2 : (P ++ [m] ++ S).drop (P.length + 1) = S := by
        simp
      have hi := loss_insertAt_ok (P ++ [m] ++ S) (P.length + 1) (e, pre) (by simp)
      rw [h1, h2] at hi
      simp only [mlfPost, List.length_cons, List.length_nil, if_true, hn1, if_false, hi, Nat.zero_add]
      simp [bind, Except.bind, pure, Except.pure, hn2]
  | m :: m' :: M'', _ =>
    have hX : P ++ m :: m' :: M'' ++ S = P ++ (m :: m' :: (M'' ++ S)) := by simp
    have hlen : ∀ Y : Run, (P ++ (m :: Y :: (M'' ++ S))).length = P.length + (M''.length + 2) + S.length := by
      intro Y; simp; omega
    have hd : ∀ Y : Run, (P ++ (m :: Y :: (M'' ++ S))).drop (P.length + (M''.length + 2)) = S := by
      intro Y
      have := drop_prefix P (m :: Y :: (M'' ++ S)) (M''.length + 2)
      rw [this]; simp
    have h1 : P.length + 1 < P.length + (m :: m' :: M'').length := by simp
    have hML : (m :: m' :: M'').length = M''.length + 2 := by simp
    rw [hX]
    cases nie
    · have ht : (P ++ (m :: m' :: (M'' ++ S))).take (P.length + 1) = P ++ [m] := by
        have := take_prefix P (m :: m' :: (M'' ++ S)) 1
        rw [this]; simp
      have hdr := loss_drain_ok (P ++ (m :: m' :: (M'' ++ S))) (P.length + 1) (P.length + (M''.length + 2))
        (by omega) (by rw [hlen]; omega)
      rw [ht, hd] at hdr
      simp only [mlfPost, Bool.false_eq_true, if_false, bind, Except.bind, pure, Except.pure, hML, hdr]
      simp
    · have hs : (P ++ (m :: m' :: (M'' ++ S))).set (P.length + 1) (e, pre) = P ++ (m :: (e, pre) :: (M'' ++ S)) := by
        have := set_prefix P (m :: m' :: (M'' ++ S)) 1 (e, pre)
        rw [this]; simp
      have hset := loss_setAt_ok (P ++ (m :: m' :: (M'' ++ S))) (P.length + 1) (e, pre) (by rw [hlen]; omega)
      rw [hs] at hset
      simp only [mlfPost, if_true, hset, bind, Except.bind, pure, Except.pure, hML]
      by_cases hM : M'' = []
      · subst hM
        simp
      · have hpos : 0 < M''.length := List.length_pos_iff.mpr hM
        have h2 : P.length + 1 + 1 < P.length + (M''.length + 2) := by omega
        have ht : (P ++ (m :: (e, pre) :: (M'' ++ S))).take (P.length + 1 + 1) = P ++ [m, (e, pre)] := by
          have := take_prefix P (m :: (e, pre) :: (M'' ++ S)) 2
          rw [show P.length + 1 + 1 = P.length + 2 by omega, this]; simp
        have hdr := loss_drain_ok (P ++ (m :: (e, pre) :: (M'' ++ S))) (P.length + 1 + 1) (P.length + (M''.length + 2))
          (by omega) (by rw [hlen]; omega)
        rw [ht, hd] at hdr
        simp only [h2, if_true, hdr]
        simp

/-! ### `may_lost_from` -/

theorem loss_sorted_append {l1 l2 : List Run} :
    Sorted (l1 ++ l2) ↔ Sorted l1 ∧ Sorted l2 ∧ ∀ a ∈ l1, ∀ b ∈ l2, a.1 < b.1 := by
  unfold Sorted; exact List.pairwise_append

theorem loss_sorted_cons {r : Run} {l : List Run} : Sorted (r :: l) ↔ (∀ b ∈ l, r.1 < b.1) ∧ Sorted l := by
  unfold Sorted; exact List.pairwise_cons

theorem sorted_map_toLost {l : List Run} (h : Sorted l) : Sorted (l.map toLost) := by
  unfold Sorted at *
  rw [List.pairwise_map]
  exact h

theorem mem_map_toLost {l : List Run} {r : Run} (h : r ∈ l.map toLost) : ∃ r0 ∈ l, r.1 = r0.1 := by
  rw [List.mem_map] at h
  obtain ⟨r0, h0, rfl⟩ := h
  exact ⟨r0, h0, rfl⟩

/-- keeping only the first of a block of `Lost` runs does not change the colours -/
theorem take1_spec (M S : List Run) (hM : ∀ r ∈ M, r.2 = Colour.lost) (hs : Sorted (M ++ S)) :
    Sorted (M.take 1 ++ S) ∧ (∀ r ∈ M.take 1 ++ S, r ∈ M ++ S) ∧
      ∀ p x, colourAt (M.take 1 ++ S) p x = colourAt (M ++ S) p x := by
  cases M with
  | nil => exact ⟨hs, fun r h => h, fun p x => rfl⟩
  | cons m M =>
    obtain ⟨o, c⟩ := m
    have hc : c = Colour.lost := hM (o, c) (by simp)
    subst hc
    rw [List.cons_append, loss_sorted_cons] at hs
    obtain ⟨h1, h2⟩ := hs
    rw [loss_sorted_append] at h2
    obtain ⟨h2, h3, h4⟩ := h2
    refine ⟨?_, ?_, ?_⟩
    · simp only [List.take_succ_cons, List.take_zero, List.cons_append, List.nil_append]
      rw [loss_sorted_cons]
      exact ⟨fun b hb => h1 b (by simp [hb]), h3⟩
    · intro r hr
      simp at hr ⊢
      rcases hr with h | h
      · exact Or.inl h
      · exact Or.inr (Or.inr h)
    · intro p x
      simp only [List.take_succ_cons, List.take_zero, List.cons_append, List.nil_append, colourAt]
      split
      · rfl
      · rw [colourAt_append M S _ x (fun a ha b hb => Nat.le_of_lt (h4 a ha b hb)),
          colourAt_allc M _ x (fun r hr => hM r (by simp [hr]))]

/-- reduction of the colour equation to what happens at and after the end `e` of the range -/
theorem colour_reduce (L R S' : List Run) (e : Nat)
    (hL : ∀ r ∈ L, r.1 < e ∧ (r.2 = Colour.flighting ∨ r.2 = Colour.lost))
    (hLR : ∀ r ∈ L, ∀ s ∈ R, r.1 ≤ s.1) (hLS : ∀ r ∈ L, ∀ s ∈ S', r.1 ≤ s.1) (p : Colour) (x : Nat)
    (h : ∀ q, (e ≤ x → q = if L = [] then p else Colour.lost) →
      colourAt S' q x = if x < e then colourAt (R.map lostRun) q x else colourAt R (lastCol L p) x) :
    colourAt (L.map toLost ++ S') p x
      = if x < e then colourAt ((L ++ R).map lostRun) p x else colourAt (L ++ R) p x := by
  have hmap : L.map lostRun = L.map toLost := by
    apply List.map_congr_left
    intro r hr
    obtain ⟨_, h2⟩ := hL r hr
    obtain ⟨o, c⟩ := r
    rcases h2 with h2 | h2 <;> simp at h2 <;> subst h2 <;> rfl
  have hq : e ≤ x → colourAt (L.map toLost) p x = if L = [] then p else Colour.lost := by
    intro hx
    cases L with
    | nil => rfl
    | cons r L =>
      have := (hL r (by simp)).1
      have h' : ¬ x < r.1 := by omega
      simp only [List.map_cons, toLost]
      rw [colourAt_lostCons _ _ p x (by
        intro r hr
        rw [List.mem_map] at hr
        obtain ⟨r0, _, rfl⟩ := hr
        rfl)]
      simp [h']
  rw [colourAt_append _ _ _ _ (by
    intro r1 h1 r2 h2
    obtain ⟨r0, h0, h0'⟩ := mem_map_toLost h1
    rw [h0']
    exact hLS r0 h0 r2 h2)]
  rw [List.map_append, hmap, colourAt_append _ _ _ _ (by
    intro r1 h1 r2 h2
    obtain ⟨r0, h0, h0'⟩ := mem_map_toLost h1
    rw [List.mem_map] at h2
    obtain ⟨s0, hs0, rfl⟩ := h2
    rw [h0']
    exact hLR r0 h0 s0 hs0)]
  rw [colourAt_append L R p x hLR]
  rw [h _ hq]
  split
  · rfl
  · rename_i hx
    rw [colourAt_ge_all L p x (fun r hr => by have := (hL r hr).1; omega)]

/-- what follows the recoloured runs `L` in the result (`C`, after an optional re-inserted end `(e, pre)`), in the
four ways the scanning loop can stop; conclusion: the list `first of L recoloured ++ optional end ++ C` is sorted,
inside the prefix, and has the colours of `L ++ R` with `[.., e)` recoloured by `lostOf` -/
theorem loss_tail_ok (size e : Nat) (he : e ≤ size) (L R C : List Run) (nie : Bool)
    (hL : ∀ r ∈ L, r.1 < e ∧ (r.2 = Colour.flighting ∨ r.2 = Colour.lost))
    (hsorted : Sorted (L ++ R)) (hsize : ∀ r ∈ L ++ R, r.1 < size)
    (hcase : (R = [] ∧ C = [] ∧ nie = (decide (e < size) && lastCol L Colour.recved == Colour.flighting)) ∨
      (∃ o R' R'', R = (o, Colour.recved) :: R' ∧ C = (o, Colour.recved) :: R'' ∧ o < e ∧ nie = false ∧
        Sorted R'' ∧ (∀ r ∈ R'', r.1 < size) ∧ (∀ lb, (∀ r ∈ R', lb < r.1) → ∀ r ∈ R'', lb < r.1) ∧
        (∀ p x, x < size → colourAt R'' p x
          = if x < e then colourAt (R'.map lostRun) p x else colourAt R' p x)) ∨
      (∃ c R', R = (e, c) :: R' ∧ C = R ∧ nie = false) ∨
      (∃ o c R', R = (o, c) :: R' ∧ e < o ∧ C = R ∧ nie = (lastCol L Colour.recved == Colour.flighting))) :
    Sorted ((L.map toLost).take 1 ++ ((if nie = true then [(e, lastCol L Colour.recved)] else []) ++ C)) ∧
    (∀ r ∈ (L.map toLost).take 1 ++ ((if nie = true then [(e, lastCol L Colour.recved)] else []) ++ C),
      r.1 < size) ∧
    (∀ lb, (∀ r ∈ L ++ R, lb < r.1) →
      ∀ r ∈ (L.map toLost).take 1 ++ ((if nie = true then [(e, lastCol L Colour.recved)] else []) ++ C),
        lb < r.1) ∧
    ∀ p x, x < size →
      colourAt ((L.map toLost).take 1 ++ ((if nie = true then [(e, lastCol L Colour.recved)] else []) ++ C)) p x
        = if x < e then colourAt ((L ++ R).map lostRun) p x else colourAt (L ++ R) p x := by
    rw [loss_sorted_append] at hsorted
    obtain ⟨hsL, hsR, hLltR⟩ := hsorted
    have hLleR : ∀ r ∈ L, ∀ s ∈ R, r.1 ≤ s.1 := fun r hr s hs => Nat.le_of_lt (hLltR r hr s hs)
    have hLm : ∀ r ∈ L.map toLost, r.2 = Colour.lost := by
      intro r hr
      rw [List.mem_map] at hr
      obtain ⟨r0, _, rfl⟩ := hr
      rfl
    -- common finishing step: from the un-drained list `L.map toLost ++ S'` to the result
    have finish : ∀ (S' : List Run) (res : List Run),
        (∀ p x, colourAt res p x = colourAt (L.map toLost ++ S') p x) →
        Sorted res → (∀ r ∈ res, r ∈ L.map toLost ++ S') →
        Sorted S' → (∀ r ∈ L, ∀ s ∈ S', r.1 < s.1) → (∀ s ∈ S', s.1 < size) →
        (∀ lb, (∀ r ∈ R, lb < r.1) → (L = [] ∨ lb < e) → ∀ r ∈ S', lb < r.1) →
        (∀ p x, x < size → ∀ q, (e ≤ x → q = if L = [] then p else Colour.lost) →
          colourAt S' q x = if x < e then colourAt (R.map lostRun) q x else colourAt R (lastCol L p) x) →
        Sorted res ∧ (∀ r ∈ res, r.1 < size) ∧
        (∀ lb, (∀ r ∈ L ++ R, lb < r.1) → ∀ r ∈ res, lb < r.1) ∧
        ∀ p x, x < size → colourAt res p x
          = if x < e then colourAt ((L ++ R).map lostRun) p x else colourAt (L ++ R) p x := by
      intro S' res hcol hsres hmem hsS hLS hSsize hlb hc
      refine ⟨hsres, ?_, ?_, ?_⟩
      · intro r hr
        have := hmem r hr
        rw [List.mem_append] at this
        rcases this with h | h
        · obtain ⟨r0, h0, h0'⟩ := mem_map_toLost h
          rw [h0']; exact hsize r0 (by simp [h0])
        · exact hSsize r h
      · intro lb hlbh r hr
        have := hmem r hr
        rw [List.mem_append] at this
        rcases this with h | h
        · obtain ⟨r0, h0, h0'⟩ := mem_map_toLost h
          rw [h0']; exact hlbh r0 (by simp [h0])
        · refine hlb lb (fun r hr => hlbh r (by simp [hr])) ?_ r h
          cases L with
          | nil => exact Or.inl rfl
          | cons r0 L =>
            right
            have h1 := hlbh r0 (by simp)
            have h2 := (hL r0 (by simp)).1
            omega
      · intro p x hx
        rw [hcol]
        exact colour_reduce L R S' e hL hLleR (fun r hr s hs => Nat.le_of_lt (hLS r hr s hs)) p x (hc p x hx)
    have sortedFull : ∀ S' : List Run, Sorted S' → (∀ r ∈ L, ∀ s ∈ S', r.1 < s.1) →
        Sorted (L.map toLost ++ S') := by
      intro S' h1 h2
      rw [loss_sorted_append]
      refine ⟨sorted_map_toLost hsL, h1, ?_⟩
      intro a ha b hb
      obtain ⟨r0, h0, h0'⟩ := mem_map_toLost ha
      rw [h0']; exact h2 r0 h0 b hb
    have finish1 : ∀ (S' : List Run),
        Sorted S' → (∀ r ∈ L, ∀ s ∈ S', r.1 < s.1) → (∀ s ∈ S', s.1 < size) →
        (∀ lb, (∀ r ∈ R, lb < r.1) → (L = [] ∨ lb < e) → ∀ r ∈ S', lb < r.1) →
        (∀ p x, x < size → ∀ q, (e ≤ x → q = if L = [] then p else Colour.lost) →
          colourAt S' q x = if x < e then colourAt (R.map lostRun) q x else colourAt R (lastCol L p) x) →
        Sorted ((L.map toLost).take 1 ++ S') ∧ (∀ r ∈ (L.map toLost).take 1 ++ S', r.1 < size) ∧
        (∀ lb, (∀ r ∈ L ++ R, lb < r.1) → ∀ r ∈ (L.map toLost).take 1 ++ S', lb < r.1) ∧
        ∀ p x, x < size → colourAt ((L.map toLost).take 1 ++ S') p x
          = if x < e then colourAt ((L ++ R).map lostRun) p x else colourAt (L ++ R) p x := by
      intro S' hsS hLS hSsize hlb hc
      obtain ⟨t1, t2, t3⟩ := take1_spec (L.map toLost) S' hLm (sortedFull S' hsS hLS)
      exact finish S' _ t3 t1 t2 hsS hLS hSsize hlb hc
    have hpreQ : (L = [] ∧ lastCol L Colour.recved = Colour.recved) ∨
        (L ≠ [] ∧ (lastCol L Colour.recved = Colour.flighting ∨ lastCol L Colour.recved = Colour.lost)) := by
      cases L with
      | nil => exact Or.inl ⟨rfl, rfl⟩
      | cons r L =>
        right
        refine ⟨by simp, ?_⟩
        rw [lastCol_cons]
        exact lastCol_prop (fun c => c = Colour.flighting ∨ c = Colour.lost) L r.2 (hL r (by simp)).2
          (fun r' hr' => (hL r' (by simp [hr'])).2)
    have hpreP : ∀ p, L ≠ [] → lastCol L p = lastCol L Colour.recved :=
      fun p h => lastCol_of_ne_nil L p _ h
    have hlenLm : (L.map toLost).length = L.length := List.length_map _
    rcases hcase with ⟨hR, hC, hnie⟩ | ⟨o, R', R'', hR, hC, hoe, hnie, hsR'', hsz'', hlb'', hcol''⟩ |
      ⟨c, R', hR, hC, hnie⟩ | ⟨o, c, R', hR, hoe, hC, hnie⟩
    · subst hR hC hnie
      apply finish1
      · split <;> simp [Sorted]
      · intro r hr s hs
        split at hs
        · simp at hs; subst hs; exact (hL r hr).1
        · simp at hs
      · intro s hs
        split at hs
        · rename_i hnie
          simp at hs hnie; subst hs; exact hnie.1
        · simp at hs
      · intro lb _ hlb r hr
        split at hr
        · rename_i hnie
          simp at hr; subst hr
          rcases hlb with h | h
          · rcases hpreQ with ⟨_, h2⟩ | ⟨h1, _⟩
            · rw [h2] at hnie; simp at hnie
            · exact absurd h h1
          · exact h
        · simp at hr
      · intro p x hx q hq
        by_cases hxe : x < e
        · simp only [hxe, if_true, List.map_nil, colourAt]
          split <;> simp [colourAt, hxe]
        · have hq' := hq (by omega)
          simp only [hxe, if_false, colourAt]
          rcases hpreQ with ⟨h1, h2⟩ | ⟨h1, h2⟩
          · subst h1
            simp [lastCol_nil] at h2 hq' ⊢
            simp [hq', colourAt]
          · rw [hpreP p h1]
            simp only [h1, if_false] at hq'
            have hes : e < size := by omega
            rcases h2 with h2 | h2
            · simp [h2, hes, colourAt, hxe]
            · simp [h2, colourAt, hq']
    · subst hR hC hnie
      have hsR' := (loss_sorted_cons.mp hsR).2
      have hoR' := (loss_sorted_cons.mp hsR).1
      apply finish1
      · simp only [Bool.false_eq_true, if_false, List.nil_append]
        rw [loss_sorted_cons]
        exact ⟨hlb'' o hoR', hsR''⟩
      · intro r hr s hs
        simp only [Bool.false_eq_true, if_false, List.nil_append, List.mem_cons] at hs
        rcases hs with rfl | hs
        · exact hLltR r hr _ (by simp)
        · exact hlb'' r.1 (fun r' hr' => hLltR r hr r' (by simp [hr'])) s hs
      · intro s hs
        simp only [Bool.false_eq_true, if_false, List.nil_append, List.mem_cons] at hs
        rcases hs with rfl | hs
        · exact hsize _ (by simp)
        · exact hsz'' s hs
      · intro lb hlb _ s hs
        simp only [Bool.false_eq_true, if_false, List.nil_append, List.mem_cons] at hs
        rcases hs with rfl | hs
        · exact hlb _ (by simp)
        · exact hlb'' lb (fun r' hr' => hlb r' (by simp [hr'])) s hs
      · intro p x hx q _
        simp only [Bool.false_eq_true, if_false, List.nil_append, colourAt, List.map_cons, lostRun, lostOf]
        rw [hcol'' Colour.recved x hx]
        by_cases h1 : x < o <;> by_cases h2 : x < e <;> simp [h1, h2]
        omega
    · subst hR hC hnie
      have hRe : ∀ s ∈ (e, c) :: R', e ≤ s.1 := by
        intro s hs
        simp only [List.mem_cons] at hs
        rcases hs with rfl | hs
        · exact Nat.le_refl _
        · exact Nat.le_of_lt ((loss_sorted_cons.mp hsR).1 s hs)
      apply finish1
      · simp only [Bool.false_eq_true, if_false, List.nil_append]; exact hsR
      · simp only [Bool.false_eq_true, if_false, List.nil_append]; exact hLltR
      · simp only [Bool.false_eq_true, if_false, List.nil_append]; exact fun s hs => hsize s (by simp [hs])
      · simp only [Bool.false_eq_true, if_false, List.nil_append]; exact fun lb h _ r hr => h r hr
      · simp only [Bool.false_eq_true, if_false, List.nil_append]
        intro p x hx q _
        by_cases hxe : x < e
        · simp only [hxe, if_true]
          rw [colourAt_lt_all _ q x (fun r hr => by have := hRe r hr; omega)]
          rw [colourAt_lt_all _ q x (fun r hr => by
            rw [List.mem_map] at hr
            obtain ⟨r0, h0, rfl⟩ := hr
            have := hRe r0 h0
            show x < r0.1
            omega)]
        · simp [hxe, colourAt]
    · subst C nie
      have hsR2 : Sorted ((o, c) :: R') := by rw [← hR]; exact hsR
      have hRdef : (o, c) :: R' = R := hR.symm
      have hRe : ∀ s ∈ R, e < s.1 := by
        intro s hs
        rw [hR] at hs
        simp only [List.mem_cons] at hs
        rcases hs with rfl | hs
        · exact hoe
        · exact Nat.lt_trans hoe ((loss_sorted_cons.mp hsR2).1 s hs)
      apply finish1
      · split
        · rw [List.singleton_append, loss_sorted_cons]
          exact ⟨hRe, hsR⟩
        · exact hsR
      · intro r hr s hs
        split at hs
        · simp only [List.singleton_append, List.mem_cons] at hs
          rcases hs with rfl | hs
          · exact (hL r hr).1
          · exact hLltR r hr s hs
        · exact hLltR r hr s hs
      · intro s hs
        have hs' : s ∈ R → s.1 < size := fun h => hsize s (by simp [h])
        split at hs
        · simp only [List.singleton_append, List.mem_cons] at hs
          rcases hs with rfl | hs
          · have h1 := hRe (o, c) (by rw [← hRdef]; simp)
            have h2 := hsize (o, c) (by rw [← hRdef]; simp)
            simp at h1 h2 ⊢; omega
          · exact hs' hs
        · exact hs' hs
      · intro lb hlb hlbe r hr
        split at hr
        · rename_i hnie
          simp only [List.singleton_append, List.mem_cons] at hr
          rcases hr with rfl | hr
          · rcases hlbe with h | h
            · rcases hpreQ with ⟨_, h2⟩ | ⟨h1, _⟩
              · rw [h2] at hnie; simp at hnie
              · exact absurd h h1
            · exact h
          · exact hlb r hr
        · exact hlb r hr
      · intro p x hx q hq
        by_cases hxe : x < e
        · simp only [hxe, if_true]
          rw [colourAt_lt_all (R.map lostRun) q x (fun r hr => by
            rw [List.mem_map] at hr
            obtain ⟨r0, h0, rfl⟩ := hr
            have := hRe r0 h0
            show x < r0.1
            omega)]
          apply colourAt_lt_all
          intro r hr
          split at hr
          · simp only [List.singleton_append, List.mem_cons] at hr
            rcases hr with rfl | hr
            · exact hxe
            · have := hRe r hr; omega
          · have := hRe r hr; omega
        · have hq' := hq (by omega)
          simp only [hxe, if_false]
          rcases hpreQ with ⟨h1, h2⟩ | ⟨h1, h2⟩
          · subst h1
            simp only [if_true] at hq'
            subst hq'
            simp [lastCol_nil]
          · rw [hpreP p h1]
            simp only [h1, if_false] at hq'
            subst hq'
            rcases h2 with h2 | h2
            · simp [h2, colourAt, hxe]
            · simp [h2]


theorem mayLostFrom_spec (size e : Nat) (he : e ≤ size) (fuel : Nat) :
    ∀ (P rest : List Run), rest.length < fuel → Sorted rest → (∀ r ∈ rest, r.1 < size) →
      (∀ r ∈ rest, r.1 < e → r.2 ≠ Colour.pending) →
      ∃ rest', mayLostFrom fuel (P ++ rest) size P.length e = .ok (P ++ rest') ∧
        Sorted rest' ∧ (∀ r ∈ rest', r.1 < size) ∧
        (∀ lb, (∀ r ∈ rest, lb < r.1) → ∀ r ∈ rest', lb < r.1) ∧
        ∀ p x, x < size → colourAt rest' p x
          = if x < e then colourAt (rest.map lostRun) p x else colourAt rest p x := by
  induction fuel with
  | zero => intro P rest h; exact absurd h (Nat.not_lt_zero _)
  | succ fuel ih =>
    intro P rest hfuel hsorted hsize hnp
    have htake : (P ++ rest).take P.length = P := by
      simp
    have hdrop : (P ++ rest).drop P.length = rest := by
      simp
    obtain ⟨L, R, hLR, hL, hscan⟩ := mlfScan_spec e size he rest P.reverse P.length Colour.recved (by simp) hnp
    subst hLR
    rw [loss_sorted_append] at hsorted
    obtain ⟨hsL, hsR, hLltR⟩ := hsorted
    have hLleR : ∀ r ∈ L, ∀ s ∈ R, r.1 ≤ s.1 := fun r hr s hs => Nat.le_of_lt (hLltR r hr s hs)
    have hLm : ∀ r ∈ L.map toLost, r.2 = Colour.lost := by
      intro r hr
      rw [List.mem_map] at hr
      obtain ⟨r0, _, rfl⟩ := hr
      rfl
    simp only [List.reverse_reverse] at hscan
    rw [mayLostFrom_succ, htake, hdrop]
    -- common finishing step: from the un-drained list `L.map toLost ++ S'` to the result
    have finish : ∀ (S' : List Run) (res : List Run),
        (∀ p x, colourAt res p x = colourAt (L.map toLost ++ S') p x) →
        Sorted res → (∀ r ∈ res, r ∈ L.map toLost ++ S') →
        Sorted S' → (∀ r ∈ L, ∀ s ∈ S', r.1 < s.1) → (∀ s ∈ S', s.1 < size) →
        (∀ lb, (∀ r ∈ R, lb < r.1) → (L = [] ∨ lb < e) → ∀ r ∈ S', lb < r.1) →
        (∀ p x, x < size → ∀ q, (e ≤ x → q = if L = [] then p else Colour.lost) →
          colourAt S' q x = if x < e then colourAt (R.map lostRun) q x else colourAt R (lastCol L p) x) →
        Sorted res ∧ (∀ r ∈ res, r.1 < size) ∧
        (∀ lb, (∀ r ∈ L ++ R, lb < r.1) → ∀ r ∈ res, lb < r.1) ∧
        ∀ p x, x < size → colourAt res p x
          = if x < e then colourAt ((L ++ R).map lostRun) p x else colourAt (L ++ R) p x := by
      intro S' res hcol hsres hmem hsS hLS hSsize hlb hc
      refine ⟨hsres, ?_, ?_, ?_⟩
      · intro r hr
        have := hmem r hr
        rw [List.mem_append] at this
        rcases this with h | h
        · obtain ⟨r0, h0, h0'⟩ := mem_map_toLost h
          rw [h0']; exact hsize r0 (by simp [h0])
        · exact hSsize r h
      · intro lb hlbh r hr
        have := hmem r hr
        rw [List.mem_append] at this
        rcases this with h | h
        · obtain ⟨r0, h0, h0'⟩ := mem_map_toLost h
          rw [h0']; exact hlbh r0 (by simp [h0])
        · refine hlb lb (fun r hr => hlbh r (by simp [hr])) ?_ r h
          cases L with
          | nil => exact Or.inl rfl
          | cons r0 L =>
            right
            have h1 := hlbh r0 (by simp)
            have h2 := (hL r0 (by simp)).1
            omega
      · intro p x hx
        rw [hcol]
        exact colour_reduce L R S' e hL hLleR (fun r hr s hs => Nat.le_of_lt (hLS r hr s hs)) p x (hc p x hx)
    have sortedFull : ∀ S' : List Run, Sorted S' → (∀ r ∈ L, ∀ s ∈ S', r.1 < s.1) →
        Sorted (L.map toLost ++ S') := by
      intro S' h1 h2
      rw [loss_sorted_append]
      refine ⟨sorted_map_toLost hsL, h1, ?_⟩
      intro a ha b hb
      obtain ⟨r0, h0, h0'⟩ := mem_map_toLost ha
      rw [h0']; exact h2 r0 h0 b hb
    have finish1 : ∀ (S' : List Run),
        Sorted S' → (∀ r ∈ L, ∀ s ∈ S', r.1 < s.1) → (∀ s ∈ S', s.1 < size) →
        (∀ lb, (∀ r ∈ R, lb < r.1) → (L = [] ∨ lb < e) → ∀ r ∈ S', lb < r.1) →
        (∀ p x, x < size → ∀ q, (e ≤ x → q = if L = [] then p else Colour.lost) →
          colourAt S' q x = if x < e then colourAt (R.map lostRun) q x else colourAt R (lastCol L p) x) →
        Sorted ((L.map toLost).take 1 ++ S') ∧ (∀ r ∈ (L.map toLost).take 1 ++ S', r.1 < size) ∧
        (∀ lb, (∀ r ∈ L ++ R, lb < r.1) → ∀ r ∈ (L.map toLost).take 1 ++ S', lb < r.1) ∧
        ∀ p x, x < size → colourAt ((L.map toLost).take 1 ++ S') p x
          = if x < e then colourAt ((L ++ R).map lostRun) p x else colourAt (L ++ R) p x := by
      intro S' hsS hLS hSsize hlb hc
      obtain ⟨t1, t2, t3⟩ := take1_spec (L.map toLost) S' hLm (sortedFull S' hsS hLS)
      exact finish S' _ t3 t1 t2 hsS hLS hSsize hlb hc
    have hpreQ : (L = [] ∧ lastCol L Colour.recved = Colour.recved) ∨
        (L ≠ [] ∧ (lastCol L Colour.recved = Colour.flighting ∨ lastCol L Colour.recved = Colour.lost)) := by
      cases L with
      | nil => exact Or.inl ⟨rfl, rfl⟩
      | cons r L =>
        right
        refine ⟨by simp, ?_⟩
        rw [lastCol_cons]
        exact lastCol_prop (fun c => c = Colour.flighting ∨ c = Colour.lost) L r.2 (hL r (by simp)).2
          (fun r' hr' => (hL r' (by simp [hr'])).2)
    have hpreP : ∀ p, L ≠ [] → lastCol L p = lastCol L Colour.recved :=
      fun p h => lastCol_of_ne_nil L p _ h
    have hlenLm : (L.map toLost).length = L.length := List.length_map _
    rcases hscan with ⟨hR, hscan⟩ | ⟨o, R', hR, hoe, hscan⟩ | ⟨c, R', hR, hscan⟩ | ⟨o, c, R', hR, hoe, hscan⟩
    · -- end of the run list
      subst hR
      rw [hscan]
      have hn : (decide (e < size) && lastCol L Colour.recved == Colour.flighting) = true → L.map toLost ≠ [] := by
        intro h
        rcases hpreQ with ⟨h1, h2⟩ | ⟨h1, _⟩
        · rw [h2] at h; simp at h
        · simpa using h1
      have hpost := mlfPost_spec P (L.map toLost) [] e (lastCol L Colour.recved) _ hn
      rw [hlenLm] at hpost
      refine ⟨_, hpost, ?_⟩
      exact loss_tail_ok size e he L [] [] _ hL (loss_sorted_append.mpr ⟨hsL, hsR, hLltR⟩) hsize (Or.inl ⟨rfl, rfl, rfl⟩)
    · -- a `Recved` run inside the range: recursive call
      subst hR
      rw [hscan]
      have hsR' := (loss_sorted_cons.mp hsR).2
      have hoR' := (loss_sorted_cons.mp hsR).1
      have e1 : P ++ L.map toLost ++ (o, Colour.recved) :: R'
          = (P ++ L.map toLost ++ [(o, Colour.recved)]) ++ R' := by simp
      have e2 : (P ++ L.map toLost ++ [(o, Colour.recved)]).length = P.length + L.length + 1 := by simp; omega
      obtain ⟨R'', hrec, hsR'', hsz'', hlb'', hcol''⟩ := ih (P ++ L.map toLost ++ [(o, Colour.recved)]) R'
        (by simp at hfuel; omega) hsR' (fun r hr => hsize r (by simp [hr]))
        (fun r hr => hnp r (by simp [hr]))
      rw [e2, ← e1] at hrec
      have e3 : (P ++ L.map toLost ++ [(o, Colour.recved)]) ++ R''
          = P ++ L.map toLost ++ ((o, Colour.recved) :: R'') := by simp
      have hpost := mlfPost_spec P (L.map toLost) ((o, Colour.recved) :: R'') e Colour.recved false (by simp)
      rw [hlenLm, ← e3] at hpost
      refine ⟨_, (by
        show (mayLostFrom fuel _ size _ e >>= fun runs2 => mlfPost runs2 P.length (P.length + L.length) e
          Colour.recved false) = _
        rw [hrec]; exact hpost), ?_⟩
      exact loss_tail_ok size e he L _ _ false hL (loss_sorted_append.mpr ⟨hsL, hsR, hLltR⟩) hsize
        (Or.inr (Or.inl ⟨o, R', R'', rfl, rfl, hoe, rfl, hsR'', hsz'', hlb'', hcol''⟩))
    · -- a run starts exactly at the end of the range: merge with the `Lost` runs that follow
      subst hR
      rw [hscan]
      obtain ⟨k, hk1, hk2, hk3⟩ := loss_skipSame_spec Colour.lost ((e, c) :: R') (P.length + L.length) hsR
      have hM : ∀ r ∈ L.map toLost ++ ((e, c) :: R').take k, r.2 = Colour.lost := by
        intro r hr
        rw [List.mem_append] at hr
        rcases hr with h | h
        · exact hLm r h
        · exact hk3 r h
      have e1 : P ++ L.map toLost ++ (e, c) :: R'
          = P ++ (L.map toLost ++ ((e, c) :: R').take k) ++ ((e, c) :: R').drop k := by
        simp only [List.append_assoc, List.take_append_drop]
      have e2 : (L.map toLost ++ ((e, c) :: R').take k).length = L.length + k := by
        rw [List.length_append, hlenLm, List.length_take]; omega
      have hpost := mlfPost_spec P (L.map toLost ++ ((e, c) :: R').take k) (((e, c) :: R').drop k) e
        (lastCol L Colour.recved) false (by simp)
      rw [e2, ← e1, ← Nat.add_assoc, ← hk1] at hpost
      refine ⟨_, hpost, ?_⟩
      have hRe : ∀ s ∈ (e, c) :: R', e ≤ s.1 := by
        intro s hs
        simp only [List.mem_cons] at hs
        rcases hs with rfl | hs
        · exact Nat.le_refl _
        · exact Nat.le_of_lt ((loss_sorted_cons.mp hsR).1 s hs)
      have hLS : ∀ r ∈ L, ∀ s ∈ (e, c) :: R', r.1 < s.1 := hLltR
      have hfull : L.map toLost ++ ((e, c) :: R').take k ++ ((e, c) :: R').drop k
          = L.map toLost ++ (e, c) :: R' := by
        simp only [List.append_assoc, List.take_append_drop]
      obtain ⟨t1, t2, t3⟩ := take1_spec (L.map toLost ++ ((e, c) :: R').take k) (((e, c) :: R').drop k) hM
        (by rw [hfull]; exact sortedFull _ hsR hLS)
      simp only [Bool.false_eq_true, if_false, List.nil_append]
      rw [hfull] at t2 t3
      refine finish ((e, c) :: R') _ t3 t1 t2 hsR hLS (fun s hs => hsize s (by simp [hs]))
        (fun lb h _ r hr => h r hr) ?_
      intro p x hx q _
      by_cases hxe : x < e
      · simp only [hxe, if_true]
        rw [colourAt_lt_all _ q x (fun r hr => by have := hRe r hr; omega)]
        rw [colourAt_lt_all _ q x (fun r hr => by
          rw [List.mem_map] at hr
          obtain ⟨r0, h0, rfl⟩ := hr
          have := hRe r0 h0
          show x < r0.1
          omega)]
      · simp [hxe, colourAt]
    · -- the next run starts after the end of the range
      subst hR
      rw [hscan]
      have hRe : ∀ s ∈ (o, c) :: R', e < s.1 := by
        intro s hs
        simp only [List.mem_cons] at hs
        rcases hs with rfl | hs
        · exact hoe
        · exact Nat.lt_trans hoe ((loss_sorted_cons.mp hsR).1 s hs)
      have hn : (lastCol L Colour.recved == Colour.flighting) = true → L.map toLost ≠ [] := by
        intro h
        rcases hpreQ with ⟨h1, h2⟩ | ⟨h1, _⟩
        · rw [h2] at h; simp at h
        · simpa using h1
      have hpost := mlfPost_spec P (L.map toLost) ((o, c) :: R') e (lastCol L Colour.recved) _ hn
      rw [hlenLm] at hpost
      refine ⟨_, hpost, ?_⟩
      exact loss_tail_ok size e he L _ _ _ hL (loss_sorted_append.mpr ⟨hsL, hsR, hLltR⟩) hsize
        (Or.inr (Or.inr (Or.inr ⟨o, c, R', rfl, hoe, rfl, rfl⟩)))

/-! ### `may_lost_from` at the level of the abstraction function -/

/-- `may_lost_from(j, b)` on a well-formed map, called where `may_loss` calls it: every run before index `j`
starts at or below `a` and the last of them (if any) is `Recved`, every run from `j` on starts at or above `a`,
no `Pending` run starts below `b`.  It does not panic, keeps the map well-formed and recolours exactly
`[a, b)` by `lostOf`. -/
theorem mayLostFrom_abs (m : BufMap) (hwf : WF m) (j a b : Nat) (hb : b ≤ m.size) (hj : j ≤ m.runs.length)
    (hnp : ∀ r ∈ m.runs.drop j, r.1 < b → r.2 ≠ Colour.pending)
    (hP1 : ∀ r ∈ m.runs.take j, r.1 ≤ a) (hP2 : lastCol (m.runs.take j) Colour.recved = Colour.recved)
    (hR : ∀ r ∈ m.runs.drop j, a ≤ r.1) :
    ∃ r', mayLostFrom (m.runs.length + 2) m.runs m.size j b = .ok r' ∧ WF { m with runs := r' } ∧
      ∀ x, BufMap.abs { m with runs := r' } x = setRange m.abs a b lostOf x := by
  have hsplit : m.runs.take j ++ m.runs.drop j = m.runs := List.take_append_drop j m.runs
  have hlenP : (m.runs.take j).length = j := by rw [List.length_take]; omega
  have hs := hwf.sorted
  rw [← hsplit, loss_sorted_append] at hs
  obtain ⟨hsP, hsR, hPR⟩ := hs
  obtain ⟨rest', hrun, hs', hsz', hlb', hcol'⟩ := mayLostFrom_spec m.size b hb (m.runs.length + 2)
    (m.runs.take j) (m.runs.drop j) (by rw [List.length_drop]; omega) hsR
    (fun r hr => hwf.lt_size r (List.mem_of_mem_drop hr)) hnp
  rw [hsplit, hlenP] at hrun
  have hPR' : ∀ r1 ∈ m.runs.take j, ∀ r2 ∈ rest', r1.1 < r2.1 :=
    fun r1 h1 r2 h2 => hlb' r1.1 (fun r hr => hPR r1 h1 r hr) r2 h2
  refine ⟨_, hrun, ⟨?_, ?_⟩, ?_⟩
  · show Sorted (m.runs.take j ++ rest')
    rw [loss_sorted_append]
    exact ⟨hsP, hs', hPR'⟩
  · intro r hr
    have hr' : r ∈ m.runs.take j ++ rest' := hr
    rw [List.mem_append] at hr'
    rcases hr' with h | h
    · exact hwf.lt_size r (List.mem_of_mem_take h)
    · exact hsz' r h
  · intro x
    by_cases hx : x < m.size
    · have e1 : BufMap.abs { m with runs := m.runs.take j ++ rest' } x
          = colourAt (m.runs.take j ++ rest') Colour.recved x := by
        simp [BufMap.abs, hx]
      have e2 : m.abs x = colourAt (m.runs.take j ++ m.runs.drop j) Colour.recved x := by
        rw [hsplit]; exact abs_of_lt m x hx
      rw [e1]
      simp only [setRange, e2]
      rw [colourAt_append _ _ _ _ (fun r1 h1 r2 h2 => Nat.le_of_lt (hPR' r1 h1 r2 h2)),
        colourAt_append _ _ _ _ (fun r1 h1 r2 h2 => Nat.le_of_lt (hPR r1 h1 r2 h2)), hcol' _ x hx]
      by_cases hxb : x < b
      · by_cases hax : a ≤ x
        · have hq : colourAt (m.runs.take j) Colour.recved x = Colour.recved := by
            rw [colourAt_ge_all _ _ x (fun r hr => Nat.le_trans (hP1 r hr) hax)]; exact hP2
          rw [if_pos hxb, if_pos ⟨hax, hxb⟩, hq]
          exact colourAt_map_lostRun _ Colour.recved x
        · have h1 : ¬ (a ≤ x ∧ x < b) := fun h => hax h.1
          rw [if_pos hxb, if_neg h1]
          rw [colourAt_lt_all (m.runs.drop j) _ x (fun r hr => by have := hR r hr; omega)]
          apply colourAt_lt_all
          intro r hr
          rw [List.mem_map] at hr
          obtain ⟨r0, h0, rfl⟩ := hr
          have := hR r0 h0
          show x < r0.1
          omega
      · have h1 : ¬ (a ≤ x ∧ x < b) := fun h => hxb h.2
        rw [if_neg hxb, if_neg h1]
    · have h1 : m.abs x = Colour.pending := abs_of_ge m x (by omega)
      have h2 : BufMap.abs { m with runs := m.runs.take j ++ rest' } x = Colour.pending :=
        abs_of_ge _ x (by show m.size ≤ x; omega)
      rw [h2]
      simp only [setRange, h1]
      split <;> rfl

/-! ### towards `may_loss` -/

/-- `binary_search` position on a sorted run list: the runs before it start below `a`, the others at or above -/
theorem lowerBound_spec (a : Nat) (l : List Run) (hs : Sorted l) :
    lowerBound a l ≤ l.length ∧ (∀ r ∈ l.take (lowerBound a l), r.1 < a) ∧
      (∀ r ∈ l.drop (lowerBound a l), a ≤ r.1) := by
  induction l with
  | nil => simp [lowerBound]
  | cons r l ih =>
    obtain ⟨o, c⟩ := r
    obtain ⟨h1, h2⟩ := loss_sorted_cons.mp hs
    obtain ⟨i1, i2, i3⟩ := ih h2
    simp only [lowerBound]
    split
    · rename_i hoa
      refine ⟨by simp; omega, ?_, ?_⟩
      · intro r hr
        simp only [List.take_succ_cons, List.mem_cons] at hr
        rcases hr with rfl | hr
        · exact hoa
        · exact i2 r hr
      · intro r hr
        simp only [List.drop_succ_cons] at hr
        exact i3 r hr
    · rename_i hoa
      refine ⟨by simp, by simp, ?_⟩
      intro r hr
      simp only [List.drop_zero, List.mem_cons] at hr
      rcases hr with rfl | hr
      · show a ≤ o; omega
      · have := h1 r hr
        simp at this; omega

/-! ### glue: position of `a` in the run list, unfolding of `mayLoss` -/

theorem lowerBound_append (a : Nat) (P S : List Run) (hP : ∀ r ∈ P, r.1 < a) (hS : ∀ r ∈ S, a ≤ r.1) :
    lowerBound a (P ++ S) = P.length := by
  induction P with
  | nil =>
    cases S with
    | nil => rfl
    | cons r S =>
      have := hS r (by simp)
      have h : ¬ r.1 < a := by omega
      simp [lowerBound, h]
  | cons r P ih =>
    have := hP r (by simp)
    simp [lowerBound, this, ih (fun r hr => hP r (by simp [hr]))]

theorem bsearch_append (a : Nat) (P S : List Run) (hP : ∀ r ∈ P, r.1 < a) (hS : ∀ r ∈ S, a ≤ r.1) :
    bsearch (P ++ S) a = match S with
      | [] => (false, P.length)
      | (o, _) :: _ => (o == a, P.length) := by
  simp only [bsearch, lowerBound_append a P S hP hS]
  cases S with
  | nil => simp
  | cons r S => obtain ⟨o, c⟩ := r; simp

/-- colour of a byte inside a run -/
theorem abs_in_run (m : BufMap) (hwf : WF m) (X Y : List Run) (o : Nat) (c : Colour) (x : Nat)
    (hr : m.runs = X ++ (o, c) :: Y) (hox : o ≤ x) (hY : ∀ r ∈ Y, x < r.1) (hx : x < m.size) : m.abs x = c := by
  rw [abs_of_lt m x hx, hr]
  have hs := hwf.sorted
  rw [hr, loss_sorted_append] at hs
  rw [colourAt_append_le X _ _ x (fun r h => by
    have := hs.2.2 r h (o, c) (by simp)
    simp at this; omega)]
  have h1 : ¬ x < o := by omega
  simp only [colourAt, h1, if_false]
  exact colourAt_lt_all Y c x hY

/-- a run starting inside the reported range is not `Pending` -/
theorem run_not_pending (m : BufMap) (hwf : WF m) (a b : Nat)
    (hnp : ∀ x, a ≤ x → x < b → m.abs x ≠ Colour.pending) :
    ∀ r ∈ m.runs, a ≤ r.1 → r.1 < b → r.2 ≠ Colour.pending := by
  intro r hr h1 h2
  obtain ⟨o, c⟩ := r
  obtain ⟨X, Y, hXY⟩ := List.append_of_mem hr
  have hs := hwf.sorted
  rw [hXY, loss_sorted_append] at hs
  have := abs_in_run m hwf X Y o c o hXY (Nat.le_refl _) (fun r h => (loss_sorted_cons.mp hs.2.1).1 r h)
    (hwf.lt_size _ hr)
  have h3 := hnp o h1 h2
  rw [this] at h3
  exact h3

/-- the branches of `may_loss` that only call `may_lost_from` -/
theorem mayLoss_via_mlf (m : BufMap) (a b j : Nat) (hwf : WF m) (hb : b ≤ m.size)
    (hnp : ∀ x, a ≤ x → x < b → m.abs x ≠ Colour.pending)
    (hj : j ≤ m.runs.length)
    (hP1 : ∀ r ∈ m.runs.take j, r.1 ≤ a) (hP2 : lastCol (m.runs.take j) Colour.recved = Colour.recved)
    (hR : ∀ r ∈ m.runs.drop j, a ≤ r.1)
    (hunf : mayLoss m a b = (mayLostFrom (m.runs.length + 2) m.runs m.size j b >>= fun r =>
      pure { m with runs := r })) :
    ∃ m', mayLoss m a b = .ok m' ∧ WF m' ∧ m'.size = m.size ∧
      ∀ x, m'.abs x = setRange m.abs a b lostOf x := by
  obtain ⟨r', h1, h2, h3⟩ := mayLostFrom_abs m hwf j a b hb hj
    (fun r hr hrb => run_not_pending m hwf a b hnp r (List.mem_of_mem_drop hr) (hR r hr) hrb) hP1 hP2 hR
  refine ⟨{ m with runs := r' }, ?_, h2, rfl, h3⟩
  rw [hunf, h1]
  rfl

theorem lastCol_concat (P : List Run) (r : Run) (p : Colour) : lastCol (P ++ [r]) p = r.2 := by
  induction P generalizing p with
  | nil => simp [lastCol_cons, lastCol_nil]
  | cons q P ih => rw [List.cons_append, lastCol_cons]; exact ih _

theorem bsearch_hit (a : Nat) (P S' : List Run) (c : Colour) (hP : ∀ r ∈ P, r.1 < a) (hS : ∀ r ∈ S', a < r.1) :
    bsearch (P ++ (a, c) :: S') a = (true, P.length) := by
  rw [bsearch_append a P _ hP (by
    intro r hr
    simp only [List.mem_cons] at hr
    rcases hr with rfl | hr
    · exact Nat.le_refl _
    · exact Nat.le_of_lt (hS r hr))]
  simp

theorem bsearch_miss (a : Nat) (P S : List Run) (hP : ∀ r ∈ P, r.1 < a) (hS : ∀ r ∈ S, a < r.1) :
    bsearch (P ++ S) a = (false, P.length) := by
  rw [bsearch_append a P _ hP (fun r hr => Nat.le_of_lt (hS r hr))]
  cases S with
  | nil => rfl
  | cons r S =>
    obtain ⟨o, c⟩ := r
    have := hS (o, c) (by simp)
    have h : o ≠ a := by simp at this; omega
    simp [h]

/-- where the start `a` of the range lies in the run list -/
theorem loss_shape (m : BufMap) (a : Nat) (hwf : WF m) (ha : a < m.size) :
    (∃ P c S', m.runs = P ++ (a, c) :: S' ∧ (∀ r ∈ P, r.1 < a) ∧ (∀ r ∈ S', a < r.1) ∧ m.abs a = c) ∨
    ((∀ r ∈ m.runs, a < r.1) ∧ m.abs a = Colour.recved) ∨
    (∃ P' o' c S, m.runs = P' ++ (o', c) :: S ∧ (∀ r ∈ P', r.1 < a) ∧ o' < a ∧ (∀ r ∈ S, a < r.1) ∧
      m.abs a = c) := by
  obtain ⟨hk, hPlt, hSge⟩ := lowerBound_spec a m.runs hwf.sorted
  have hsplit : m.runs.take (lowerBound a m.runs) ++ m.runs.drop (lowerBound a m.runs) = m.runs :=
    List.take_append_drop _ _
  generalize m.runs.take (lowerBound a m.runs) = P at *
  generalize m.runs.drop (lowerBound a m.runs) = S at *
  have hs := hwf.sorted
  rw [← hsplit, loss_sorted_append] at hs
  obtain ⟨hsP, hsS, hPS⟩ := hs
  -- hit or miss
  have hcase : (∃ c S', S = (a, c) :: S' ∧ ∀ r ∈ S', a < r.1) ∨ (∀ r ∈ S, a < r.1) := by
    cases S with
    | nil => right; simp
    | cons r S' =>
      obtain ⟨o, c⟩ := r
      have h1 := hSge (o, c) (by simp)
      have h2 := (loss_sorted_cons.mp hsS).1
      by_cases h : o = a
      · subst h; exact Or.inl ⟨c, S', rfl, h2⟩
      · right
        intro r hr
        simp only [List.mem_cons] at hr
        rcases hr with rfl | hr
        · show a < o; simp at h1; omega
        · have := h2 r hr; simp at h1 this; omega
  rcases hcase with ⟨c, S', rfl, hS'⟩ | hS
  · left
    exact ⟨P, c, S', hsplit.symm, hPlt, hS', abs_in_run m hwf P S' a c a hsplit.symm (Nat.le_refl _) hS' ha⟩
  · right
    rcases List.eq_nil_or_concat P with rfl | ⟨P', r, rfl⟩
    · left
      simp only [List.nil_append] at hsplit
      subst hsplit
      exact ⟨hS, by rw [abs_of_lt m a ha]; exact colourAt_lt_all _ _ a hS⟩
    · right
      obtain ⟨o', c⟩ := r
      have ho' : o' < a := hPlt (o', c) (by simp)
      have hr : m.runs = P' ++ (o', c) :: S := by rw [← hsplit]; simp
      exact ⟨P', o', c, S, hr, fun r hr => hPlt r (by simp [hr]), ho', hS,
        abs_in_run m hwf P' S o' c a hr (Nat.le_of_lt ho') hS ha⟩

theorem mayLoss_hit_recved (m : BufMap) (a b : Nat) (hwf : WF m) (hb : b ≤ m.size)
    (hnp : ∀ x, a ≤ x → x < b → m.abs x ≠ Colour.pending) (P S' : List Run)
    (hr : m.runs = P ++ (a, Colour.recved) :: S') (hP : ∀ r ∈ P, r.1 < a) (hS : ∀ r ∈ S', a < r.1) :
    ∃ m', mayLoss m a b = .ok m' ∧ WF m' ∧ m'.size = m.size ∧
      ∀ x, m'.abs x = setRange m.abs a b lostOf x := by
  have hbs : bsearch m.runs a = (true, P.length) := by rw [hr]; exact bsearch_hit a P S' _ hP hS
  have hget : m.runs[P.length]? = some (a, Colour.recved) := by rw [hr]; simp
  have htake : m.runs.take (P.length + 1) = P ++ [(a, Colour.recved)] := by
    rw [hr, take_prefix]; simp
  have hdrop : m.runs.drop (P.length + 1) = S' := by
    rw [hr, drop_prefix]; simp
  apply mayLoss_via_mlf m a b (P.length + 1) hwf hb hnp
  · rw [hr]; simp
  · rw [htake]
    intro r h
    simp only [List.mem_append, List.mem_singleton] at h
    rcases h with h | rfl
    · exact Nat.le_of_lt (hP r h)
    · exact Nat.le_refl _
  · rw [htake]; exact lastCol_concat _ _ _
  · rw [hdrop]; exact fun r h => Nat.le_of_lt (hS r h)
  · unfold mayLoss
    simp only [hbs, hget]
    rfl

theorem mayLoss_miss_zero (m : BufMap) (a b : Nat) (hwf : WF m) (hb : b ≤ m.size)
    (hnp : ∀ x, a ≤ x → x < b → m.abs x ≠ Colour.pending) (hS : ∀ r ∈ m.runs, a < r.1) :
    ∃ m', mayLoss m a b = .ok m' ∧ WF m' ∧ m'.size = m.size ∧
      ∀ x, m'.abs x = setRange m.abs a b lostOf x := by
  have hbs : bsearch m.runs a = (false, 0) := by
    have := bsearch_miss a [] m.runs (by simp) hS
    simpa using this
  apply mayLoss_via_mlf m a b 0 hwf hb hnp
  · omega
  · simp
  · simp [lastCol_nil]
  · simp only [List.drop_zero]; exact fun r h => Nat.le_of_lt (hS r h)
  · unfold mayLoss
    simp only [hbs]
    rfl

theorem mayLoss_miss_recved (m : BufMap) (a b : Nat) (hwf : WF m) (hb : b ≤ m.size)
    (hnp : ∀ x, a ≤ x → x < b → m.abs x ≠ Colour.pending) (P' S : List Run) (o' : Nat)
    (hr : m.runs = P' ++ (o', Colour.recved) :: S) (hP : ∀ r ∈ P', r.1 < a) (ho' : o' < a)
    (hS : ∀ r ∈ S, a < r.1) :
    ∃ m', mayLoss m a b = .ok m' ∧ WF m' ∧ m'.size = m.size ∧
      ∀ x, m'.abs x = setRange m.abs a b lostOf x := by
  have hr' : m.runs = (P' ++ [(o', Colour.recved)]) ++ S := by rw [hr]; simp
  have hPP : ∀ r ∈ P' ++ [(o', Colour.recved)], r.1 < a := by
    intro r h
    simp only [List.mem_append, List.mem_singleton] at h
    rcases h with h | rfl
    · exact hP r h
    · exact ho'
  have hlen : (P' ++ [(o', Colour.recved)]).length = P'.length + 1 := by simp
  have hbs : bsearch m.runs a = (false, P'.length + 1) := by
    rw [hr', ← hlen]; exact bsearch_miss a _ S hPP hS
  have hget : m.runs[P'.length + 1 - 1]? = some (o', Colour.recved) := by rw [hr]; simp
  have htake : m.runs.take (P'.length + 1) = P' ++ [(o', Colour.recved)] := by
    rw [hr, take_prefix]; simp
  have hdrop : m.runs.drop (P'.length + 1) = S := by
    rw [hr, drop_prefix]; simp
  apply mayLoss_via_mlf m a b (P'.length + 1) hwf hb hnp
  · rw [hr]; simp
  · rw [htake]; exact fun r h => Nat.le_of_lt (hPP r h)
  · rw [htake]; exact lastCol_concat _ _ _
  · rw [hdrop]; exact fun r h => Nat.le_of_lt (hS r h)
  · unfold mayLoss
    simp only [hbs, hget]
    rfl

/-- `may_loss` when the start of the range is a `Recved` byte (all the branches that only call `may_lost_from`) -/
theorem mayLoss_refines_recved_start (m : BufMap) (a b : Nat) (hwf : WF m) (hab : a < b) (hb : b ≤ m.size)
    (hnp : ∀ x, a ≤ x → x < b → m.abs x ≠ Colour.pending) (hra : m.abs a = Colour.recved) :
    ∃ m', mayLoss m a b = .ok m' ∧ WF m' ∧ m'.size = m.size ∧
      ∀ x, m'.abs x = setRange m.abs a b lostOf x := by
  rcases loss_shape m a hwf (by omega) with ⟨P, c, S', hr, hP, hS, hc⟩ | ⟨hS, _⟩ | ⟨P', o', c, S, hr, hP, ho', hS, hc⟩
  · rw [hra] at hc; subst hc
    exact mayLoss_hit_recved m a b hwf hb hnp P S' hr hP hS
  · exact mayLoss_miss_zero m a b hwf hb hnp hS
  · rw [hra] at hc; subst hc
    exact mayLoss_miss_recved m a b hwf hb hnp P' S o' hr hP ho' hS

/-! ### `splice`, `sameBefore` (same lemmas as in `BufMapAck.lean`, prefixed to avoid clashes) -/

private theorem loss_drain_eq (A B C : List Run) (ds de : Nat) (hds : ds = A.length)
    (h1 : B ≠ [] → de = A.length + B.length) (h2 : B = [] → de ≤ A.length) :
    (if ds < de then drain (A ++ B ++ C) ds de else pure (A ++ B ++ C)) = .ok (A ++ C) := by
  subst hds
  cases B with
  | nil =>
    have := h2 rfl
    have h : ¬ A.length < de := by omega
    simp [h, pure, Except.pure]
  | cons x B =>
    have := h1 (by simp)
    have h : A.length < de := by simp at this; omega
    subst this
    simp [drain, pure, Except.pure]

private def loss_stepOpt (l : List Run) (ds de : Nat) : Option Run → Res (List Run × Nat)
  | some r => do
    let l' ← if ds < de then setAt l ds r else insertAt l ds r
    pure (l', ds + 1)
  | none => pure (l, ds)

private theorem loss_splice_unfold (l : List Run) (ds de : Nat) (s e : Option Run) :
    splice l ds de s e =
      (loss_stepOpt l ds de s >>= fun p => loss_stepOpt p.1 p.2 de e >>= fun q =>
        if q.2 < de then drain q.1 q.2 de else pure q.1) := by
  cases s <;> cases e <;> simp only [splice, loss_stepOpt, bind, Except.bind, pure, Except.pure] <;>
    (try split) <;> (try split) <;> (try split) <;> (try split) <;> simp_all

private theorem loss_stepOpt_eq (A B C : List Run) (s : Option Run) (ds de : Nat) (hds : ds = A.length)
    (h1 : B ≠ [] → de = A.length + B.length) (h2 : B = [] → de ≤ A.length) :
    loss_stepOpt (A ++ B ++ C) ds de s
      = .ok ((A ++ s.toList) ++ B.drop s.toList.length ++ C, (A ++ s.toList).length) := by
  subst hds
  cases s with
  | none => simp [loss_stepOpt, pure, Except.pure]
  | some r =>
    cases B with
    | nil =>
      have := h2 rfl
      have h : ¬ A.length < de := by omega
      simp [loss_stepOpt, h, insertAt, bind, Except.bind, pure, Except.pure]
    | cons x B =>
      have := h1 (by simp)
      have h : A.length < de := by simp at this; omega
      simp [loss_stepOpt, h, setAt, bind, Except.bind, pure, Except.pure]

private theorem loss_drop_cond (A B : List Run) (de : Nat) (X : List Run)
    (h1 : B ≠ [] → de = A.length + B.length) (h2 : B = [] → de ≤ A.length) :
    (B.drop X.length ≠ [] → de = (A ++ X).length + (B.drop X.length).length) ∧
    (B.drop X.length = [] → de ≤ (A ++ X).length) := by
  constructor
  · intro h
    have hB : B ≠ [] := by intro hB; subst hB; simp at h
    have := h1 hB
    have hl : X.length < B.length := by
      false_or_by_contra
      apply h
      simp; omega
    simp; omega
  · intro h
    simp at h
    by_cases hB : B = []
    · have := h2 hB; simp; omega
    · have := h1 hB; simp; omega

/-- `splice` replaces the middle piece by the (optional) two inserted runs -/
theorem loss_splice_decomp (A B C : List Run) (ds de : Nat) (s e : Option Run) (hds : ds = A.length)
    (hde : de = A.length + B.length) :
    splice (A ++ B ++ C) ds de s e = .ok (A ++ s.toList ++ e.toList ++ C) := by
  have h1 : B ≠ [] → de = A.length + B.length := fun _ => hde
  have h2 : B = [] → de ≤ A.length := fun h => by subst h; simp at hde; omega
  have c1 := loss_drop_cond A B de s.toList h1 h2
  have c2 := loss_drop_cond (A ++ s.toList) (B.drop s.toList.length) de e.toList c1.1 c1.2
  rw [loss_splice_unfold, loss_stepOpt_eq A B C s ds de hds h1 h2]
  simp only [bind, Except.bind]
  rw [loss_stepOpt_eq (A ++ s.toList) _ C e _ de rfl c1.1 c1.2]
  simp only []
  exact loss_drain_eq _ _ C _ de rfl c2.1 c2.2

theorem loss_sameBefore_split (col : Colour) (l : List Run) (i : Nat) (hi : i ≤ l.length) :
    ∃ P1 P2 P3, l = P1 ++ P2 ++ P3 ∧ sameBefore l col i = P1.length ∧ P1.length + P2.length = i ∧
      (∀ r ∈ P2, r.2 = col) := by
  induction i with
  | zero => exact ⟨[], [], l, rfl, rfl, rfl, by simp⟩
  | succ i ih =>
    obtain ⟨P1, P2, P3, h1, h2, h3, h4⟩ := ih (by omega)
    have hP3 : P3 ≠ [] := by
      intro h; subst h; subst h1; simp at hi; omega
    obtain ⟨⟨o, c⟩, P3', rfl⟩ := List.exists_cons_of_ne_nil hP3
    have hget : l[i]? = some (o, c) := by
      subst h1; rw [List.getElem?_append_right (by simp; omega)]; simp [← h3]
    by_cases h : c = col
    · refine ⟨P1, P2 ++ [(o, c)], P3', by simp [h1], ?_, by simp; omega, ?_⟩
      · simp only [sameBefore, hget, h, if_true]; exact h2
      · intro r hr
        simp at hr
        rcases hr with hr | hr
        · exact h4 r hr
        · subst hr; exact h
    · refine ⟨P1 ++ P2 ++ [(o, c)], [], P3', by simp [h1], ?_, by simp; omega, by simp⟩
      simp only [sameBefore, hget, h, if_false]; simp; omega


/-! ### the scanning loop of `may_loss` -/

theorem lossScan_spec (b size : Nat) (hb : b ≤ size) (all rest : List Run) :
    ∀ (de : Nat) (pre : Colour), (∀ r ∈ rest, r.1 < b → r.2 ≠ Colour.pending) →
    ∃ L R, rest = L ++ R ∧ (∀ r ∈ L, r.1 < b ∧ (r.2 = Colour.flighting ∨ r.2 = Colour.lost)) ∧
      ((R = [] ∧ lossScan b size all rest de pre =
          .ok (de + L.length, lastCol L pre, decide (b < size) && lastCol L pre == Colour.flighting, none)) ∨
       (∃ o R', R = (o, Colour.recved) :: R' ∧ o < b ∧ lossScan b size all rest de pre =
          .ok (de + L.length, lastCol L pre, false, some (de + L.length + 1))) ∨
       (∃ c R', R = (b, c) :: R' ∧ lossScan b size all rest de pre =
          .ok (sameAfterP1 all Colour.lost (de + L.length), lastCol L pre, false, none)) ∨
       (∃ o c R', R = (o, c) :: R' ∧ b < o ∧ lossScan b size all rest de pre =
          .ok (de + L.length, lastCol L pre, lastCol L pre == Colour.flighting, none))) := by
  induction rest with
  | nil =>
    intro de pre _
    refine ⟨[], [], rfl, by simp, Or.inl ⟨rfl, ?_⟩⟩
    have : ¬ b > size := by omega
    simp [lossScan, this, lastCol_nil]
    rfl
  | cons r rest ih =>
    intro de pre hnp
    obtain ⟨o, c⟩ := r
    by_cases hob : o < b
    · have hcp : c ≠ Colour.pending := hnp (o, c) (by simp) hob
      by_cases hcr : c = Colour.recved
      · subst hcr
        refine ⟨[], (o, Colour.recved) :: rest, rfl, by simp, Or.inr (Or.inl ⟨o, rest, rfl, hob, ?_⟩)⟩
        simp [lossScan, hob, lastCol_nil]
        rfl
      · obtain ⟨L, R, hLR, hL, hres⟩ := ih (de + 1) c (fun r hr => hnp r (by simp [hr]))
        have hunf : lossScan b size all ((o, c) :: rest) de pre = lossScan b size all rest (de + 1) c := by
          simp [lossScan, hob, hcp, hcr]
        have hc2 : c = Colour.flighting ∨ c = Colour.lost := by
          cases c <;> simp_all
        refine ⟨(o, c) :: L, R, by simp [hLR], ?_, ?_⟩
        · intro r hr
          simp only [List.mem_cons] at hr
          rcases hr with rfl | hr
          · exact ⟨hob, hc2⟩
          · exact hL r hr
        · have hlen : de + 1 + L.length = de + ((o, c) :: L).length := by simp; omega
          have hlc : lastCol ((o, c) :: L) pre = lastCol L c := lastCol_cons _ _ _
          rw [hunf, ← hlen, hlc]
          exact hres
    · by_cases hob2 : o = b
      · subst hob2
        refine ⟨[], (o, c) :: rest, rfl, by simp, Or.inr (Or.inr (Or.inl ⟨c, rest, rfl, ?_⟩))⟩
        simp [lossScan, lastCol_nil]
        rfl
      · refine ⟨[], (o, c) :: rest, rfl, by simp, Or.inr (Or.inr (Or.inr ⟨o, c, rest, rfl, by omega, ?_⟩))⟩
        simp [lossScan, hob, hob2, lastCol_nil]
        rfl

/-! ### the common tail of `may_loss` -/

theorem mayLossTail_unfold (m : BufMap) (runs1 : List Run) (ds : Nat) (nis : Bool) (de0 : Nat) (pre0 : Colour)
    (a b fuel : Nat) :
    mayLoss.mayLossTail m runs1 ds nis de0 pre0 a b fuel =
      (lossScan b m.size runs1 (runs1.drop de0) de0 pre0 >>= fun r =>
        (match r.2.2.2 with
          | some j => mayLostFrom fuel runs1 m.size j b
          | none => pure runs1) >>= fun runs2 =>
        splice runs2 ds r.1 (if nis then some (a, Colour.lost) else none)
          (if r.2.2.1 then some (b, r.2.1) else none) >>= fun runs3 =>
        pure { m with runs := runs3 }) := by
  unfold mayLoss.mayLossTail
  cases lossScan b m.size runs1 (runs1.drop de0) de0 pre0 with
  | error e => rfl
  | ok r =>
    obtain ⟨de, pre, nie, recAt⟩ := r
    cases recAt <;> rfl

theorem splice_tail (A B C : List Run) (ds de : Nat) (nis nie : Bool) (r1 r2 : Run) (hds : ds = A.length)
    (hde : de = A.length + B.length) :
    splice (A ++ B ++ C) ds de (if nis then some r1 else none) (if nie then some r2 else none)
      = .ok (A ++ (if nis then [r1] else []) ++ ((if nie then [r2] else []) ++ C)) := by
  rw [loss_splice_decomp A B C ds de _ _ hds hde]
  cases nis <;> cases nie <;> simp

theorem mayLossTail_spec (m : BufMap) (A B0 T : List Run) (nis : Bool) (pre0 : Colour) (a b fuel : Nat)
    (hb : b ≤ m.size) (hfuel : T.length < fuel) (hsT : Sorted T) (hszT : ∀ r ∈ T, r.1 < m.size)
    (hnp : ∀ r ∈ T, r.1 < b → r.2 ≠ Colour.pending) :
    ∃ L R C K nie, T = L ++ R ∧ (∀ r ∈ L, r.1 < b ∧ (r.2 = Colour.flighting ∨ r.2 = Colour.lost)) ∧
      (∀ r ∈ K, r.2 = Colour.lost) ∧
      mayLoss.mayLossTail m (A ++ B0 ++ T) A.length nis (A.length + B0.length) pre0 a b fuel
        = .ok { m with runs := A ++ (if nis then [(a, Colour.lost)] else []) ++
            ((if nie then [(b, lastCol L pre0)] else []) ++ C) } ∧
      ((R = [] ∧ C = [] ∧ K = [] ∧ nie = (decide (b < m.size) && lastCol L pre0 == Colour.flighting)) ∨
       (∃ o R' R'', R = (o, Colour.recved) :: R' ∧ C = (o, Colour.recved) :: R'' ∧ K = [] ∧ o < b ∧ nie = false ∧
          Sorted R'' ∧ (∀ r ∈ R'', r.1 < m.size) ∧ (∀ lb, (∀ r ∈ R', lb < r.1) → ∀ r ∈ R'', lb < r.1) ∧
          (∀ p x, x < m.size → colourAt R'' p x
            = if x < b then colourAt (R'.map lostRun) p x else colourAt R' p x)) ∨
       (∃ c R', R = (b, c) :: R' ∧ R = K ++ C ∧ nie = false) ∨
       (∃ o c R', R = (o, c) :: R' ∧ b < o ∧ C = R ∧ K = [] ∧ nie = (lastCol L pre0 == Colour.flighting))) := by
  obtain ⟨L, R, hLR, hL, hscan⟩ := lossScan_spec b m.size hb (A ++ B0 ++ T) T (A.length + B0.length) pre0 hnp
  have hdrop : (A ++ B0 ++ T).drop (A.length + B0.length) = T := by
    have := drop_prefix (A ++ B0) T 0
    simp
  subst hLR
  rw [loss_sorted_append] at hsT
  obtain ⟨hsL, hsR, hLltR⟩ := hsT
  rcases hscan with ⟨hR, hscan⟩ | ⟨o, R', hR, hob, hscan⟩ | ⟨c, R', hR, hscan⟩ | ⟨o, c, R', hR, hob, hscan⟩
  · subst hR
    refine ⟨L, [], [], [], _, rfl, hL, by simp, ?_, Or.inl ⟨rfl, rfl, rfl, rfl⟩⟩
    rw [mayLossTail_unfold, hdrop, hscan]
    have e1 : A ++ B0 ++ (L ++ []) = A ++ (B0 ++ L) ++ [] := by simp
    have hsp := splice_tail A (B0 ++ L) [] A.length (A.length + B0.length + L.length) nis
      (decide (b < m.size) && lastCol L pre0 == Colour.flighting) (a, Colour.lost) (b, lastCol L pre0) rfl
      (by simp; omega)
    rw [← e1] at hsp
    show (splice _ _ _ _ _ >>= fun runs3 => pure { m with runs := runs3 }) = _
    rw [hsp]
    rfl
  · subst hR
    have hsR' := (loss_sorted_cons.mp hsR).2
    have e1 : A ++ B0 ++ (L ++ (o, Colour.recved) :: R') = (A ++ B0 ++ L ++ [(o, Colour.recved)]) ++ R' := by simp
    have e2 : (A ++ B0 ++ L ++ [(o, Colour.recved)]).length = A.length + B0.length + L.length + 1 := by
      simp; omega
    obtain ⟨R'', hrec, hsR'', hsz'', hlb'', hcol''⟩ := mayLostFrom_spec m.size b hb fuel
      (A ++ B0 ++ L ++ [(o, Colour.recved)]) R' (by simp at hfuel; omega) hsR'
      (fun r hr => hszT r (by simp [hr])) (fun r hr => hnp r (by simp [hr]))
    rw [e2, ← e1] at hrec
    refine ⟨L, _, (o, Colour.recved) :: R'', [], false, rfl, hL, by simp, ?_,
      Or.inr (Or.inl ⟨o, R', R'', rfl, rfl, rfl, hob, rfl, hsR'', hsz'', hlb'', hcol''⟩)⟩
    rw [mayLossTail_unfold, hdrop, hscan]
    have e3 : (A ++ B0 ++ L ++ [(o, Colour.recved)]) ++ R'' = A ++ (B0 ++ L) ++ ((o, Colour.recved) :: R'') := by
      simp
    have hsp := splice_tail A (B0 ++ L) ((o, Colour.recved) :: R'') A.length (A.length + B0.length + L.length) nis
      false (a, Colour.lost) (b, lastCol L pre0) rfl (by simp; omega)
    rw [← e3] at hsp
    show (mayLostFrom fuel _ m.size _ b >>= fun runs2 => splice runs2 _ _ _ _ >>= fun runs3 =>
      pure { m with runs := runs3 }) = _
    rw [hrec]
    show (splice _ _ _ _ _ >>= fun runs3 => pure { m with runs := runs3 }) = _
    rw [hsp]
    rfl
  · subst hR
    obtain ⟨k, hk1, hk2, hk3⟩ := loss_skipSame_spec Colour.lost ((b, c) :: R')
      (A.length + B0.length + L.length) hsR
    refine ⟨L, _, ((b, c) :: R').drop k, ((b, c) :: R').take k, false, rfl, hL, hk3, ?_,
      Or.inr (Or.inr (Or.inl ⟨c, R', rfl, (List.take_append_drop _ _).symm, rfl⟩))⟩
    rw [mayLossTail_unfold, hdrop, hscan]
    have hd2 : (A ++ B0 ++ (L ++ (b, c) :: R')).drop (A.length + B0.length + L.length) = (b, c) :: R' := by
      have := drop_prefix (A ++ B0 ++ L) ((b, c) :: R') 0
      simp [Nat.add_assoc]
    have e1 : A ++ B0 ++ (L ++ (b, c) :: R')
        = A ++ (B0 ++ L ++ ((b, c) :: R').take k) ++ ((b, c) :: R').drop k := by
      simp only [List.append_assoc, List.take_append_drop]
    have hsp := splice_tail A (B0 ++ L ++ ((b, c) :: R').take k) (((b, c) :: R').drop k) A.length
      (sameAfterP1 (A ++ B0 ++ (L ++ (b, c) :: R')) Colour.lost (A.length + B0.length + L.length)) nis
      false (a, Colour.lost) (b, lastCol L pre0) rfl (by
        simp only [sameAfterP1, hd2, hk1, List.length_append, List.length_take]; omega)
    rw [← e1] at hsp
    show (splice _ _ _ _ _ >>= fun runs3 => pure { m with runs := runs3 }) = _
    rw [hsp]
    rfl
  · subst hR
    refine ⟨L, _, (o, c) :: R', [], _, rfl, hL, by simp, ?_,
      Or.inr (Or.inr (Or.inr ⟨o, c, R', rfl, hob, rfl, rfl, rfl⟩))⟩
    rw [mayLossTail_unfold, hdrop, hscan]
    have e1 : A ++ B0 ++ (L ++ (o, c) :: R') = A ++ (B0 ++ L) ++ ((o, c) :: R') := by simp
    have hsp := splice_tail A (B0 ++ L) ((o, c) :: R') A.length (A.length + B0.length + L.length) nis
      (lastCol L pre0 == Colour.flighting) (a, Colour.lost) (b, lastCol L pre0) rfl (by simp; omega)
    rw [← e1] at hsp
    show (splice _ _ _ _ _ >>= fun runs3 => pure { m with runs := runs3 }) = _
    rw [hsp]
    rfl

/-! ### from the computed list to the canonical one, and its colours -/

theorem colourAt_prefix_congr (P X Y : List Run) (x : Nat) (h : ∀ p, colourAt X p x = colourAt Y p x) :
    ∀ p, colourAt (P ++ X) p x = colourAt (P ++ Y) p x := by
  induction P with
  | nil => exact h
  | cons r P ih =>
    intro p
    obtain ⟨o, c⟩ := r
    simp only [List.cons_append, colourAt]
    split
    · rfl
    · exact ih c

/-- keeping only the first run of a block `M` of `Lost` runs, below a prefix -/
theorem act_canon (Pre M S : List Run) (hM : ∀ r ∈ M, r.2 = Colour.lost) (hs : Sorted (Pre ++ (M ++ S))) :
    Sorted (Pre ++ (M.take 1 ++ S)) ∧ (∀ r ∈ Pre ++ (M.take 1 ++ S), r ∈ Pre ++ (M ++ S)) ∧
      ∀ p x, colourAt (Pre ++ (M.take 1 ++ S)) p x = colourAt (Pre ++ (M ++ S)) p x := by
  rw [loss_sorted_append] at hs
  obtain ⟨h1, h2, h3⟩ := hs
  obtain ⟨t1, t2, t3⟩ := take1_spec M S hM h2
  refine ⟨loss_sorted_append.mpr ⟨h1, t1, fun a ha b hb => h3 a ha b (t2 b hb)⟩, ?_, ?_⟩
  · intro r hr
    rw [List.mem_append] at hr ⊢
    rcases hr with h | h
    · exact Or.inl h
    · exact Or.inr (t2 r h)
  · intro p x
    exact colourAt_prefix_congr Pre _ _ x (fun p => t3 p x) p

/-- colours of the canonical result of the `may_loss` tail: the run list is (colour-equivalent to)
`P ++ (a, c0) :: (L ++ R)` with `c0` Flighting or Lost, the result is
`P ++ (a, lost) :: (K ++ (optional end ++ C))`. -/
theorem tail_abs (m : BufMap) (a b : Nat) (hab : a < b) (hb : b ≤ m.size) (P L R C K : List Run) (c0 : Colour)
    (nie : Bool)
    (hvirt : ∀ x, x < m.size → m.abs x = colourAt (P ++ (a, c0) :: (L ++ R)) Colour.recved x)
    (hsV : Sorted (P ++ (a, c0) :: (L ++ R))) (hszV : ∀ r ∈ P ++ (a, c0) :: (L ++ R), r.1 < m.size)
    (hc0 : c0 = Colour.flighting ∨ c0 = Colour.lost)
    (hL : ∀ r ∈ L, r.1 < b ∧ (r.2 = Colour.flighting ∨ r.2 = Colour.lost))
    (hcase : (R = [] ∧ C = [] ∧ K = [] ∧ nie = (decide (b < m.size) && lastCol L c0 == Colour.flighting)) ∨
       (∃ o R' R'', R = (o, Colour.recved) :: R' ∧ C = (o, Colour.recved) :: R'' ∧ K = [] ∧ o < b ∧ nie = false ∧
          Sorted R'' ∧ (∀ r ∈ R'', r.1 < m.size) ∧ (∀ lb, (∀ r ∈ R', lb < r.1) → ∀ r ∈ R'', lb < r.1) ∧
          (∀ p x, x < m.size → colourAt R'' p x
            = if x < b then colourAt (R'.map lostRun) p x else colourAt R' p x)) ∨
       (∃ c R', R = (b, c) :: R' ∧ R = K ++ C ∧ nie = false) ∨
       (∃ o c R', R = (o, c) :: R' ∧ b < o ∧ C = R ∧ K = [] ∧ nie = (lastCol L c0 == Colour.flighting))) :
    Sorted (P ++ (a, Colour.lost) :: (K ++ ((if nie then [(b, lastCol L c0)] else []) ++ C))) ∧
    (∀ r ∈ P ++ (a, Colour.lost) :: (K ++ ((if nie then [(b, lastCol L c0)] else []) ++ C)), r.1 < m.size) ∧
    ∀ x, BufMap.abs { m with runs := P ++ (a, Colour.lost) :: (K ++ ((if nie then [(b, lastCol L c0)] else []) ++ C)) } x
      = setRange m.abs a b lostOf x := by
  have hlc : lastCol ((a, c0) :: L) Colour.recved = lastCol L c0 := lastCol_cons _ _ _
  -- commute `K` and the optional end (one of them is empty)
  have hKC : K ++ ((if nie then [(b, lastCol L c0)] else []) ++ C)
      = (if nie = true then [(b, lastCol ((a, c0) :: L) Colour.recved)] else []) ++ (K ++ C) := by
    rw [hlc]
    rcases hcase with ⟨_, _, hK, _⟩ | ⟨_, _, _, _, _, hK, _⟩ | ⟨_, _, _, _, hn⟩ | ⟨_, _, _, _, _, _, hK, _⟩
    · subst hK; simp
    · subst hK; simp
    · subst hn; simp
    · subst hK; simp
  have hcase' : (R = [] ∧ K ++ C = [] ∧
        nie = (decide (b < m.size) && lastCol ((a, c0) :: L) Colour.recved == Colour.flighting)) ∨
      (∃ o R' R'', R = (o, Colour.recved) :: R' ∧ K ++ C = (o, Colour.recved) :: R'' ∧ o < b ∧ nie = false ∧
        Sorted R'' ∧ (∀ r ∈ R'', r.1 < m.size) ∧ (∀ lb, (∀ r ∈ R', lb < r.1) → ∀ r ∈ R'', lb < r.1) ∧
        (∀ p x, x < m.size → colourAt R'' p x
          = if x < b then colourAt (R'.map lostRun) p x else colourAt R' p x)) ∨
      (∃ c R', R = (b, c) :: R' ∧ K ++ C = R ∧ nie = false) ∨
      (∃ o c R', R = (o, c) :: R' ∧ b < o ∧ K ++ C = R ∧
        nie = (lastCol ((a, c0) :: L) Colour.recved == Colour.flighting)) := by
    rw [hlc]
    rcases hcase with ⟨h1, h2, h3, h4⟩ | ⟨o, R', R'', h1, h2, h3, h4⟩ | ⟨c, R', h1, h2, h3⟩ |
      ⟨o, c, R', h1, h2, h3, h4, h5⟩
    · subst h2 h3; exact Or.inl ⟨h1, rfl, h4⟩
    · subst h2 h3; exact Or.inr (Or.inl ⟨o, R', R'', h1, rfl, h4⟩)
    · exact Or.inr (Or.inr (Or.inl ⟨c, R', h1, h2.symm, h3⟩))
    · subst h3 h4; exact Or.inr (Or.inr (Or.inr ⟨o, c, R', h1, h2, rfl, h5⟩))
  rw [loss_sorted_append] at hsV
  obtain ⟨hsP, hsVr, hPV⟩ := hsV
  have hL' : ∀ r ∈ (a, c0) :: L, r.1 < b ∧ (r.2 = Colour.flighting ∨ r.2 = Colour.lost) := by
    intro r hr
    simp only [List.mem_cons] at hr
    rcases hr with rfl | hr
    · exact ⟨hab, hc0⟩
    · exact hL r hr
  obtain ⟨t1, t2, t3, t4⟩ := loss_tail_ok m.size b hb ((a, c0) :: L) R (K ++ C) nie hL' hsVr
    (fun r hr => hszV r (by simp at hr ⊢; exact Or.inr hr)) hcase'
  have htk : (((a, c0) :: L).map toLost).take 1 = [(a, Colour.lost)] := by simp [toLost]
  rw [htk, ← hKC] at t1 t2 t3 t4
  simp only [List.singleton_append] at t1 t2 t3 t4
  generalize (a, Colour.lost) :: (K ++ ((if nie then [(b, lastCol L c0)] else []) ++ C)) = res at *
  have hPres : ∀ r1 ∈ P, ∀ r2 ∈ res, r1.1 < r2.1 :=
    fun r1 h1 r2 h2 => t3 r1.1 (fun r hr => hPV r1 h1 r hr) r2 h2
  refine ⟨loss_sorted_append.mpr ⟨hsP, t1, hPres⟩, ?_, ?_⟩
  · intro r hr
    rw [List.mem_append] at hr
    rcases hr with h | h
    · exact hszV r (by simp [h])
    · exact t2 r h
  · intro x
    by_cases hx : x < m.size
    · have e1 : BufMap.abs { m with runs := P ++ res } x = colourAt (P ++ res) Colour.recved x := by
        simp [BufMap.abs, hx]
      rw [e1]
      simp only [setRange, hvirt x hx]
      rw [colourAt_append _ _ _ _ (fun r1 h1 r2 h2 => Nat.le_of_lt (hPres r1 h1 r2 h2)),
        colourAt_append P _ _ _ (fun r1 h1 r2 h2 => Nat.le_of_lt (hPV r1 h1 r2 h2)), t4 _ x hx]
      by_cases hxb : x < b
      · by_cases hax : a ≤ x
        · have hxa : ¬ x < a := by omega
          rw [if_pos hxb, if_pos ⟨hax, hxb⟩]
          simp only [List.cons_append, List.map_cons, lostRun, colourAt, hxa, if_false]
          exact colourAt_map_lostRun _ c0 x
        · have h1 : ¬ (a ≤ x ∧ x < b) := fun h => hax h.1
          have hxa : x < a := by omega
          rw [if_pos hxb, if_neg h1]
          simp only [List.cons_append, List.map_cons, lostRun, colourAt, hxa, if_true]
      · have h1 : ¬ (a ≤ x ∧ x < b) := fun h => hxb h.2
        rw [if_neg hxb, if_neg h1]
        rfl
    · have h1 : m.abs x = Colour.pending := abs_of_ge m x (by omega)
      have h2 : BufMap.abs { m with runs := P ++ res } x = Colour.pending :=
        abs_of_ge _ x (by show m.size ≤ x; omega)
      rw [h2]
      simp only [setRange, h1]
      split <;> rfl

theorem take1_append_of_ne_nil (M K : List Run) (h : M ≠ []) : (M ++ K).take 1 = M.take 1 := by
  cases M with
  | nil => exact absurd rfl h
  | cons r M => simp

/-- the tail of `may_loss`, in terms of decompositions: the map is colour-equivalent to `P ++ (a, c0) :: T`, the
list handed to the tail is `A ++ B0 ++ T` with drain start `|A|` and scan start `|A| + |B0|`, and what is kept
before the scanned part is `Pre ++ first of M0` where `Pre ++ M0 = P ++ [(a, lost)]`, `M0` all `Lost` -/
theorem mayLoss_tail_branch (m : BufMap) (a b fuel : Nat) (hab : a < b) (hb : b ≤ m.size)
    (P T A B0 Pre M0 : List Run) (c0 : Colour) (nis : Bool)
    (hvirt : ∀ x, x < m.size → m.abs x = colourAt (P ++ (a, c0) :: T) Colour.recved x)
    (hsV : Sorted (P ++ (a, c0) :: T)) (hszV : ∀ r ∈ P ++ (a, c0) :: T, r.1 < m.size)
    (hc0 : c0 = Colour.flighting ∨ c0 = Colour.lost)
    (hnpT : ∀ r ∈ T, r.1 < b → r.2 ≠ Colour.pending) (hfuel : T.length < fuel)
    (hA : A ++ (if nis then [(a, Colour.lost)] else []) = Pre ++ M0.take 1)
    (hPre : Pre ++ M0 = P ++ [(a, Colour.lost)]) (hM0 : ∀ r ∈ M0, r.2 = Colour.lost) (hM0ne : M0 ≠ []) :
    ∃ m', mayLoss.mayLossTail m (A ++ B0 ++ T) A.length nis (A.length + B0.length) c0 a b fuel = .ok m' ∧
      WF m' ∧ m'.size = m.size ∧ ∀ x, m'.abs x = setRange m.abs a b lostOf x := by
  have hsT : Sorted T := by
    rw [loss_sorted_append] at hsV
    exact (loss_sorted_cons.mp hsV.2.1).2
  obtain ⟨L, R, C, K, nie, hT, hL, hK, hrun, hcase⟩ := mayLossTail_spec m A B0 T nis c0 a b fuel hb hfuel hsT
    (fun r hr => hszV r (by simp [hr])) hnpT
  subst hT
  obtain ⟨c1, c2, c3⟩ := tail_abs m a b hab hb P L R C K c0 nie hvirt hsV hszV hc0 hL hcase
  generalize hSdef : (if nie then [(b, lastCol L c0)] else []) ++ C = S at *
  have hCn : P ++ (a, Colour.lost) :: (K ++ S) = Pre ++ ((M0 ++ K) ++ S) := by
    have : P ++ (a, Colour.lost) :: (K ++ S) = (P ++ [(a, Colour.lost)]) ++ (K ++ S) := by simp
    rw [this, ← hPre]; simp
  have hAct : A ++ (if nis then [(a, Colour.lost)] else []) ++ S = Pre ++ ((M0 ++ K).take 1 ++ S) := by
    rw [hA, take1_append_of_ne_nil M0 K hM0ne]; simp
  rw [hAct] at hrun
  rw [hCn] at c1 c2 c3
  obtain ⟨u1, u2, u3⟩ := act_canon Pre (M0 ++ K) S (by
    intro r hr
    rw [List.mem_append] at hr
    rcases hr with h | h
    · exact hM0 r h
    · exact hK r h) c1
  refine ⟨_, hrun, ⟨u1, fun r hr => c2 r (u2 r hr)⟩, rfl, ?_⟩
  intro x
  rw [← c3 x]
  simp only [BufMap.abs]
  rw [u3]

theorem mayLoss_hit_lost (m : BufMap) (a b : Nat) (hwf : WF m) (hab : a < b) (hb : b ≤ m.size)
    (hnp : ∀ x, a ≤ x → x < b → m.abs x ≠ Colour.pending) (P S' : List Run)
    (hr : m.runs = P ++ (a, Colour.lost) :: S') (hP : ∀ r ∈ P, r.1 < a) (hS : ∀ r ∈ S', a < r.1) :
    ∃ m', mayLoss m a b = .ok m' ∧ WF m' ∧ m'.size = m.size ∧
      ∀ x, m'.abs x = setRange m.abs a b lostOf x := by
  have hbs : bsearch m.runs a = (true, P.length) := by rw [hr]; exact bsearch_hit a P S' _ hP hS
  have hget : m.runs[P.length]? = some (a, Colour.lost) := by rw [hr]; simp
  have hunf : mayLoss m a b
      = mayLoss.mayLossTail m m.runs (P.length + 1) false (P.length + 1) Colour.lost a b (m.runs.length + 2) := by
    unfold mayLoss
    simp only [hbs, hget]
    rfl
  have h := mayLoss_tail_branch m a b (m.runs.length + 2) hab hb P S' (P ++ [(a, Colour.lost)]) [] P
    [(a, Colour.lost)] Colour.lost false
    (fun x hx => by rw [abs_of_lt m x hx, hr])
    (by rw [← hr]; exact hwf.sorted) (by rw [← hr]; exact hwf.lt_size) (Or.inr rfl)
    (fun r hr' hrb => run_not_pending m hwf a b hnp r (by rw [hr]; simp [hr']) (Nat.le_of_lt (hS r hr')) hrb)
    (by rw [hr]; simp; omega) (by simp) rfl (by simp) (by simp)
  have e1 : (P ++ [(a, Colour.lost)]) ++ [] ++ S' = m.runs := by rw [hr]; simp
  have e2 : (P ++ [(a, Colour.lost)]).length = P.length + 1 := by simp
  simp only [List.length_nil, Nat.add_zero] at h
  rw [e1, e2] at h
  rw [hunf]
  exact h

theorem mayLoss_hit_flighting (m : BufMap) (a b : Nat) (hwf : WF m) (hab : a < b) (hb : b ≤ m.size)
    (hnp : ∀ x, a ≤ x → x < b → m.abs x ≠ Colour.pending) (P S' : List Run)
    (hr : m.runs = P ++ (a, Colour.flighting) :: S') (hP : ∀ r ∈ P, r.1 < a) (hS : ∀ r ∈ S', a < r.1) :
    ∃ m', mayLoss m a b = .ok m' ∧ WF m' ∧ m'.size = m.size ∧
      ∀ x, m'.abs x = setRange m.abs a b lostOf x := by
  have hbs : bsearch m.runs a = (true, P.length) := by rw [hr]; exact bsearch_hit a P S' _ hP hS
  have hget : m.runs[P.length]? = some (a, Colour.flighting) := by rw [hr]; simp
  have hset : m.runs.set P.length (a, Colour.lost) = P ++ (a, Colour.lost) :: S' := by
    rw [hr]; simp
  have hunf : mayLoss m a b
      = mayLoss.mayLossTail m (P ++ (a, Colour.lost) :: S')
          (sameBefore (P ++ (a, Colour.lost) :: S') Colour.lost P.length + 1) false (P.length + 1)
          Colour.flighting a b (m.runs.length + 2) := by
    unfold mayLoss
    simp only [hbs, hget]
    rw [← hset]
    rfl
  obtain ⟨P1, P2, P3, h1, h2, h3, h4⟩ := loss_sameBefore_split Colour.lost (P ++ (a, Colour.lost) :: S') P.length
    (by simp)
  have h1' : P ++ (a, Colour.lost) :: S' = (P1 ++ P2) ++ P3 := h1
  obtain ⟨hPeq, hP3⟩ := List.append_inj h1' (by simp; try omega)
  subst hPeq hP3
  have hQne : P2 ++ [(a, Colour.lost)] ≠ [] := by simp
  have hQ1 : ((P2 ++ [(a, Colour.lost)]).take 1).length = 1 := by
    rw [List.length_take]; simp
  have h := mayLoss_tail_branch m a b (m.runs.length + 2) hab hb (P1 ++ P2) S'
    (P1 ++ (P2 ++ [(a, Colour.lost)]).take 1) ((P2 ++ [(a, Colour.lost)]).drop 1) P1
    (P2 ++ [(a, Colour.lost)]) Colour.flighting false
    (fun x hx => by rw [abs_of_lt m x hx, hr])
    (by rw [← hr]; exact hwf.sorted) (by rw [← hr]; exact hwf.lt_size) (Or.inl rfl)
    (fun r hr' hrb => run_not_pending m hwf a b hnp r (by rw [hr]; simp [hr']) (Nat.le_of_lt (hS r hr')) hrb)
    (by rw [hr]; simp; omega) (by simp) (by simp)
    (by
      intro r hr'
      rw [List.mem_append] at hr'
      rcases hr' with h | h
      · exact h4 r h
      · simp at h; subst h; rfl) hQne
  have e1 : (P1 ++ (P2 ++ [(a, Colour.lost)]).take 1) ++ (P2 ++ [(a, Colour.lost)]).drop 1 ++ S'
      = (P1 ++ P2) ++ (a, Colour.lost) :: S' := by
    have := List.take_append_drop 1 (P2 ++ [(a, Colour.lost)])
    calc (P1 ++ (P2 ++ [(a, Colour.lost)]).take 1) ++ (P2 ++ [(a, Colour.lost)]).drop 1 ++ S'
        = P1 ++ ((P2 ++ [(a, Colour.lost)]).take 1 ++ (P2 ++ [(a, Colour.lost)]).drop 1) ++ S' := by
          simp only [List.append_assoc]
      _ = (P1 ++ P2) ++ (a, Colour.lost) :: S' := by rw [this]; simp
  have e2 : (P1 ++ (P2 ++ [(a, Colour.lost)]).take 1).length = P1.length + 1 := by
    rw [List.length_append, hQ1]
  have e3 : (P1 ++ (P2 ++ [(a, Colour.lost)]).take 1).length + ((P2 ++ [(a, Colour.lost)]).drop 1).length
      = (P1 ++ P2).length + 1 := by
    rw [e2, List.length_drop]; simp; omega
  rw [e3, e2, e1] at h
  rw [hunf, h2]
  exact h

theorem mayLoss_miss_tail (m : BufMap) (a b : Nat) (hwf : WF m) (hab : a < b) (hb : b ≤ m.size)
    (hnp : ∀ x, a ≤ x → x < b → m.abs x ≠ Colour.pending) (P' S : List Run) (o' : Nat) (c : Colour)
    (hc : c = Colour.flighting ∨ c = Colour.lost)
    (hr : m.runs = P' ++ (o', c) :: S) (hP : ∀ r ∈ P', r.1 < a) (ho' : o' < a)
    (hS : ∀ r ∈ S, a < r.1) :
    ∃ m', mayLoss m a b = .ok m' ∧ WF m' ∧ m'.size = m.size ∧
      ∀ x, m'.abs x = setRange m.abs a b lostOf x := by
  have hr' : m.runs = (P' ++ [(o', c)]) ++ S := by rw [hr]; simp
  have hPP : ∀ r ∈ P' ++ [(o', c)], r.1 < a := by
    intro r h
    simp only [List.mem_append, List.mem_singleton] at h
    rcases h with h | rfl
    · exact hP r h
    · exact ho'
  have hlen : (P' ++ [(o', c)]).length = P'.length + 1 := by simp
  have hbs : bsearch m.runs a = (false, P'.length + 1) := by
    rw [hr', ← hlen]; exact bsearch_miss a _ S hPP hS
  have hget : m.runs[P'.length + 1 - 1]? = some (o', c) := by rw [hr]; simp
  have hunf : mayLoss m a b
      = mayLoss.mayLossTail m m.runs (P'.length + 1) (c == Colour.flighting) (P'.length + 1) c a b
          (m.runs.length + 2) := by
    unfold mayLoss
    simp only [hbs, hget]
    rcases hc with rfl | rfl <;> rfl
  have hs := hwf.sorted
  rw [hr', loss_sorted_append] at hs
  obtain ⟨hs1, hs2, hs3⟩ := hs
  have hasz : a < m.size := by omega
  have hsV : Sorted ((P' ++ [(o', c)]) ++ (a, c) :: S) := by
    rw [loss_sorted_append]
    refine ⟨hs1, loss_sorted_cons.mpr ⟨hS, hs2⟩, ?_⟩
    intro r1 h1 r2 h2
    simp only [List.mem_cons] at h2
    rcases h2 with rfl | h2
    · exact hPP r1 h1
    · exact hs3 r1 h1 r2 h2
  have hszV : ∀ r ∈ (P' ++ [(o', c)]) ++ (a, c) :: S, r.1 < m.size := by
    intro r h
    rw [List.mem_append, List.mem_cons] at h
    rcases h with h | rfl | h
    · exact hwf.lt_size r (by rw [hr']; exact List.mem_append_left _ h)
    · exact hasz
    · exact hwf.lt_size r (by rw [hr']; simp [h])
  have hvirt : ∀ x, x < m.size → m.abs x = colourAt ((P' ++ [(o', c)]) ++ (a, c) :: S) Colour.recved x := by
    intro x hx
    rw [abs_of_lt m x hx, hr]
    have e : (P' ++ [(o', c)]) ++ (a, c) :: S = P' ++ ((o', c) :: (a, c) :: S) := by simp
    rw [e]
    apply colourAt_prefix_congr
    intro p
    simp only [colourAt]
    split
    · rfl
    · split
      · rename_i hxa
        exact colourAt_lt_all S c x (fun r h => by have := hS r h; omega)
      · rfl
  have hnpT : ∀ r ∈ S, r.1 < b → r.2 ≠ Colour.pending :=
    fun r h hrb => run_not_pending m hwf a b hnp r (by rw [hr]; simp [h]) (Nat.le_of_lt (hS r h)) hrb
  have hfuel : S.length < m.runs.length + 2 := by rw [hr]; simp; omega
  have e1 : (P' ++ [(o', c)]) ++ [] ++ S = m.runs := by rw [hr]; simp
  rw [hunf]
  rcases hc with rfl | rfl
  · have h := mayLoss_tail_branch m a b (m.runs.length + 2) hab hb (P' ++ [(o', Colour.flighting)]) S
      (P' ++ [(o', Colour.flighting)]) [] (P' ++ [(o', Colour.flighting)]) [(a, Colour.lost)] Colour.flighting true
      hvirt hsV hszV (Or.inl rfl) hnpT hfuel (by simp) rfl (by simp) (by simp)
    simp only [List.length_nil, Nat.add_zero] at h
    rw [e1, hlen] at h
    exact h
  · have h := mayLoss_tail_branch m a b (m.runs.length + 2) hab hb (P' ++ [(o', Colour.lost)]) S
      (P' ++ [(o', Colour.lost)]) [] P' [(o', Colour.lost), (a, Colour.lost)] Colour.lost false
      hvirt hsV hszV (Or.inr rfl) hnpT hfuel (by simp) (by simp) (by simp) (by simp)
    simp only [List.length_nil, Nat.add_zero] at h
    rw [e1, hlen] at h
    exact h

/-- **`may_loss` refines the per-byte specification** -/
theorem mayLoss_refines (m : BufMap) (a b : Nat) (hwf : WF m) (hab : a < b) (hb : b ≤ m.size)
    (hnp : ∀ x, a ≤ x → x < b → m.abs x ≠ .pending) :
    ∃ m', mayLoss m a b = .ok m' ∧ WF m' ∧ m'.size = m.size ∧
      ∀ x, m'.abs x = setRange m.abs a b lostOf x := by
  have hpa : m.abs a ≠ Colour.pending := hnp a (Nat.le_refl _) hab
  rcases loss_shape m a hwf (by omega) with ⟨P, c, S', hr, hP, hS, hc⟩ | ⟨hS, _⟩ | ⟨P', o', c, S, hr, hP, ho', hS, hc⟩
  · rw [hc] at hpa
    cases c with
    | pending => exact absurd rfl hpa
    | recved => exact mayLoss_hit_recved m a b hwf hb hnp P S' hr hP hS
    | flighting => exact mayLoss_hit_flighting m a b hwf hab hb hnp P S' hr hP hS
    | lost => exact mayLoss_hit_lost m a b hwf hab hb hnp P S' hr hP hS
  · exact mayLoss_miss_zero m a b hwf hb hnp hS
  · rw [hc] at hpa
    cases c with
    | pending => exact absurd rfl hpa
    | recved => exact mayLoss_miss_recved m a b hwf hb hnp P' S o' hr hP ho' hS
    | flighting => exact mayLoss_miss_tail m a b hwf hab hb hnp P' S o' _ (Or.inl rfl) hr hP ho' hS
    | lost => exact mayLoss_miss_tail m a b hwf hab hb hnp P' S o' _ (Or.inr rfl) hr hP ho' hS

end GmQuic.BufMap
