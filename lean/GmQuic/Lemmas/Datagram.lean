import GmQuic.Model.Datagram
import GmQuic.Lemmas.Wire
/-! C19 helper lemmas, part 1: the DATAGRAM frame codec and the packet decoder. -/
namespace GmQuic.Datagram
open GmQuic.Wire

theorem encVarint_frameType (wl : Bool) : encVarint (frameType wl) = [UInt8.ofNat (frameType wl)] := by
  cases wl <;> rfl

theorem frameType_lt (wl : Bool) : frameType wl < 2 ^ 62 := by
  cases wl <;> decide

theorem encFrame_length (wl : Bool) (d : Bytes) :
    (encFrame wl d).length = hdrSize wl d.length + d.length := by
  cases wl <;> simp [encFrame, hdrSize, encVarint_frameType, encVarint_length] <;> omega

theorem encLoaded_length (pad : Nat) (wl : Bool) (d : Bytes) :
    (encLoaded pad wl d).length = pad + hdrSize wl d.length + d.length := by
  simp [encLoaded, encFrame_length]; omega

theorem Loaded.enc_length (l : Loaded) : l.enc.length = l.size := by
  simp [Loaded.enc, Loaded.size, encLoaded_length]

theorem hdrSize_pos (wl : Bool) (n : Nat) : 1 ≤ hdrSize wl n := by
  simp [hdrSize]

theorem hdrSize_le (wl : Bool) (n : Nat) : hdrSize wl n ≤ hdrMax := by
  have := varintSize_le n
  cases wl <;> simp [hdrSize, hdrMax] <;> omega

/-- decode ∘ encode, with-length form: exact consumption, whatever follows is left untouched. -/
theorem decFrame_encFrame_withLen (d rest : Bytes) (hd : d.length < 2 ^ 62) :
    decFrame (encFrame true d ++ rest) = .ok (.datagram true d, rest) := by
  have h1 : encFrame true d ++ rest = encVarint (frameType true) ++ (encVarint d.length ++ (d ++ rest)) := by
    simp [encFrame, List.append_assoc]
  rw [h1]
  unfold decFrame
  rw [decVarint_encVarint _ _ (frameType_lt true)]
  simp only [frameType]
  rw [decVarint_encVarint _ _ hd]
  simp

/-- decode ∘ encode, no-length form: the frame swallows the rest of the packet. -/
theorem decFrame_encFrame_noLen (d rest : Bytes) :
    decFrame (encFrame false d ++ rest) = .ok (.datagram false (d ++ rest), []) := by
  have h1 : encFrame false d ++ rest = encVarint (frameType false) ++ (d ++ rest) := by
    simp [encFrame, List.append_assoc]
  rw [h1]
  unfold decFrame
  rw [decVarint_encVarint _ _ (frameType_lt false)]
  simp [frameType]

theorem decFrame_padding (rest : Bytes) : decFrame ((0 : UInt8) :: rest) = .ok (.padding, rest) := by
  have : (0 : UInt8) :: rest = encVarint 0 ++ rest := by
    have : encVarint 0 = [(0 : UInt8)] := by rfl
    rw [this]; rfl
  rw [this]
  unfold decFrame
  rw [decVarint_encVarint _ _ (by decide)]
  simp

/-- every successfully decoded frame consumes at least one byte -/
theorem decFrame_consumes (bs : Bytes) (f : Frame) (rest : Bytes) (h : decFrame bs = .ok (f, rest)) :
    rest.length < bs.length := by
  unfold decFrame at h
  split at h
  · simp at h
  · rename_i ty r1 h1
    have c1 := (decVarint_consumes bs ty r1 h1).1
    split at h
    · simp only [Except.ok.injEq, Prod.mk.injEq] at h; rw [← h.2]; exact c1
    split at h
    · simp only [Except.ok.injEq, Prod.mk.injEq] at h; rw [← h.2]; simp; omega
    split at h
    · split at h
      · simp at h
      · rename_i len r2 h2
        have c2 := (decVarint_consumes r1 len r2 h2).1
        split at h
        · simp at h
        · simp only [Except.ok.injEq, Prod.mk.injEq] at h; rw [← h.2]; simp; omega
    · simp at h

theorem decAllFuel_indep (n : Nat) : ∀ (m : Nat) (bs : Bytes), bs.length ≤ n → bs.length ≤ m →
    decAllFuel n bs = decAllFuel m bs := by
  induction n with
  | zero =>
    intro m bs hn _
    have : bs = [] := List.eq_nil_of_length_eq_zero (by omega)
    subst this
    cases m <;> simp [decAllFuel]
  | succ n ih =>
    intro m bs hn hm
    cases m with
    | zero =>
      have : bs = [] := List.eq_nil_of_length_eq_zero (by omega)
      subst this
      simp [decAllFuel]
    | succ m =>
      unfold decAllFuel
      split
      · rfl
      · cases hdf : decFrame bs with
        | error e => rfl
        | ok v =>
          obtain ⟨f, rest⟩ := v
          have := decFrame_consumes bs f rest hdf
          simp only
          rw [ih m rest (by omega) (by omega)]

/-- the unfolding equation of the packet decoder -/
theorem decAll_eq (bs : Bytes) :
    decAll bs = if bs.isEmpty then ([], none) else
      match decFrame bs with
      | .error e => ([], some e)
      | .ok (f, rest) => (f :: (decAll rest).1, (decAll rest).2) := by
  cases bs with
  | nil => simp [decAll, decAllFuel]
  | cons b tl =>
    simp only [decAll, List.length_cons, decAllFuel, List.isEmpty_cons, Bool.false_eq_true, if_false]
    cases hdf : decFrame (b :: tl) with
    | error e => rfl
    | ok v =>
      obtain ⟨f, rest⟩ := v
      have := decFrame_consumes (b :: tl) f rest hdf
      simp only
      rw [decAllFuel_indep tl.length rest.length rest (by simp at this; omega) (Nat.le_refl _)]

theorem decAll_nil : decAll [] = ([], none) := by simp [decAll, decAllFuel]

theorem decAll_padding (pad : Nat) (bs : Bytes) :
    decAll (List.replicate pad (0 : UInt8) ++ bs) =
      (List.replicate pad Frame.padding ++ (decAll bs).1, (decAll bs).2) := by
  induction pad with
  | zero => simp
  | succ k ih =>
    rw [List.replicate_succ, List.cons_append, decAll_eq]
    simp only [List.isEmpty_cons, Bool.false_eq_true, if_false, decFrame_padding, ih]
    simp [List.replicate_succ]

theorem encFrame_ne_nil (wl : Bool) (d : Bytes) : encFrame wl d ≠ [] := by
  intro h
  have := encFrame_length wl d
  rw [h] at this
  have := hdrSize_pos wl d.length
  simp at *; omega

theorem decAll_withLen (d tail : Bytes) (hd : d.length < 2 ^ 62) :
    decAll (encFrame true d ++ tail) = (Frame.datagram true d :: (decAll tail).1, (decAll tail).2) := by
  rw [decAll_eq]
  have hne : (encFrame true d ++ tail).isEmpty = false := by
    cases h : encFrame true d ++ tail with
    | nil => exact absurd (List.append_eq_nil_iff.mp h).1 (encFrame_ne_nil true d)
    | cons _ _ => rfl
  simp [hne, decFrame_encFrame_withLen d tail hd]

theorem decAll_noLen (d tail : Bytes) :
    decAll (encFrame false d ++ tail) = ([Frame.datagram false (d ++ tail)], none) := by
  rw [decAll_eq]
  have hne : (encFrame false d ++ tail).isEmpty = false := by
    cases h : encFrame false d ++ tail with
    | nil => exact absurd (List.append_eq_nil_iff.mp h).1 (encFrame_ne_nil false d)
    | cons _ _ => rfl
  simp [hne, decFrame_encFrame_noLen d tail, decAll_nil]

/-! ### packets -/

def Loaded.frames (l : Loaded) : List Frame :=
  List.replicate l.pad Frame.padding ++ [Frame.datagram l.withLen l.payload]

def Pkt.payloads (p : Pkt) : List Bytes := p.map (·.payload)

/-- well-formed loader output: payload lengths are encodable and a no-length frame is the last thing
in the packet -/
def WFPkt : Pkt → Prop
  | [] => True
  | [l] => l.payload.length < 2 ^ 62
  | l :: l' :: rest => l.payload.length < 2 ^ 62 ∧ l.withLen = true ∧ WFPkt (l' :: rest)

theorem WFPkt_tail {l : Loaded} {p : Pkt} (h : WFPkt (l :: p)) : WFPkt p := by
  cases p with
  | nil => trivial
  | cons _ _ => exact h.2.2

theorem WFPkt_head {l : Loaded} {p : Pkt} (h : WFPkt (l :: p)) : l.payload.length < 2 ^ 62 := by
  cases p with
  | nil => exact h
  | cons _ _ => exact h.1

/-- A well-formed packet decodes to exactly the frames that were written: nothing merged, nothing
lost, no error. -/
theorem decAll_encPkt (p : Pkt) (h : WFPkt p) : decAll (encPkt p) = (p.flatMap Loaded.frames, none) := by
  induction p with
  | nil => simp [encPkt, decAll_nil]
  | cons l p ih =>
    have hl := WFPkt_head h
    have ih' := ih (WFPkt_tail h)
    cases p with
    | nil =>
      simp only [encPkt, List.flatMap_cons, List.flatMap_nil, List.append_nil, Loaded.enc, encLoaded]
      rw [decAll_padding]
      cases hw : l.withLen with
      | true =>
        have := decAll_withLen l.payload [] hl
        simp only [List.append_nil] at this
        simp [this, decAll_nil, Loaded.frames, hw]
      | false =>
        have := decAll_noLen l.payload []
        simp only [List.append_nil] at this
        simp [this, Loaded.frames, hw]
    | cons l' rest =>
      have hw : l.withLen = true := h.2.1
      have e1 : encPkt (l :: l' :: rest) =
          List.replicate l.pad (0 : UInt8) ++ (encFrame true l.payload ++ encPkt (l' :: rest)) := by
        simp [encPkt, Loaded.enc, encLoaded, hw, List.append_assoc]
      rw [e1, decAll_padding, decAll_withLen _ _ hl]
      simp only [encPkt] at ih'
      simp only [encPkt, ih']
      simp [Loaded.frames, hw]

end GmQuic.Datagram
