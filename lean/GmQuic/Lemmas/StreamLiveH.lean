import GmQuic.Lemmas.StreamLiveK
/-!
C01 liveness, part 6: the honest-network property through the settling phase; what the final
"deliver and acknowledge every new frame" phase achieves on both sides.
-/
namespace GmQuic.Stream
open GmQuic.RecvBuf (Bytes covered)

theorem ack_fin (s : Sender) (f : Frame) (h : (s.ack f).fin = .rcvd) : s.fin = .rcvd ∨ f.fin = true := by
  by_cases ha : s.err = false ∧ s.st = .dataSent
  · rw [ack_dataSent f ha.1 ha.2] at h
    cases hf : f.fin
    · left
      split at h <;> simpa [Sender.ack1, hf] using h
    · right; rfl
  · have : (s.ack f).fin = s.fin := by
      unfold Sender.ack; cases he : s.err <;> cases hst : s.st <;> simp_all
    left; rw [← this]; exact h

theorem lose_fin (s : Sender) (f : Frame) (h : (s.lose f).fin = .rcvd) : s.fin = .rcvd := by
  revert h
  unfold Sender.lose
  cases he : s.err <;> cases hst : s.st <;> simp only [Bool.false_eq_true, if_false, if_true] <;> (try exact id)
  split
  · intro x; cases x
  · exact id

theorem honest_lose {s : Stream} (h : Honest s) (i : Nat) : Honest (s.step (.lose i)) := by
  simp only [Stream.step]; split
  · rename_i f hf
    obtain ⟨a, _, _, _⟩ := lose_same s.snd f
    obtain ⟨_, e2⟩ := lose_status s.snd f
    refine ⟨fun x hx hs => ?_, fun hfin => h.fin (lose_fin s.snd f hfin)⟩
    · simp only at hx hs ⊢; rw [a] at hx
      rcases e2 with e | e <;> rw [e] at hs
      · exact h.data x hx hs
      · simp only [setRange] at hs; split at hs
        · exact h.data x hx (lostOf_acked hs)
        · exact h.data x hx hs
  · exact h

theorem honest_deliver {s : Stream} (hr : Reach s) (h : Honest s) (i : Nat) : Honest (s.step (.deliver i)) := by
  have hm := mono_step hr (op := .deliver i) rfl
  have hs := same_deliver s i
  have hsnd : (s.step (.deliver i)).snd = s.snd := by simp only [Stream.step]; split <;> rfl
  exact ⟨fun x hx hst => hm.hv x (h.data x (by rw [hsnd] at hx; exact hx) (by rw [hsnd] at hst; exact hst)),
    fun hf => hm.sz (h.fin (by rw [hsnd] at hf; exact hf))⟩

theorem honest_ack {s : Stream} (h : Honest s) {i : Nat} {f : Frame} (hf : s.emitted[i]? = some f)
    (hv : ∀ x, f.off ≤ x → x < f.stop → Have s.rcv x) (hz : f.fin = true → Sized s.rcv) :
    Honest (s.step (.ack i)) := by
  simp only [Stream.step, hf]
  obtain ⟨a, _, _, _⟩ := ack_same s.snd f
  obtain ⟨_, e2⟩ := ack_status s.snd f
  refine ⟨fun x hx hs => ?_, fun hfin => ?_⟩
  · simp only at hx hs ⊢; rw [a] at hx
    rcases e2 with e | e <;> rw [e] at hs
    · exact h.data x hx hs
    · simp only [setRange] at hs; split at hs
      · rename_i hr; exact hv x hr.1 hr.2
      · exact h.data x hx hs
  · rcases ack_fin s.snd f hfin with e | e
    · exact h.fin e
    · exact hz e

theorem ack_none {t : Stream} {i : Nat} (h : t.emitted[i]? = none) : t.step (.ack i) = t := by
  simp only [Stream.step, h]

theorem honest_dack {s : Stream} (hr : Reach s) (ok : RcvOk s.rcv) (h : Honest s) (i : Nat) :
    Honest ((s.step (.deliver i)).step (.ack i)) := by
  have h1 := honest_deliver hr h i
  have hem : (s.step (.deliver i)).emitted = s.emitted := (same_deliver s i).em
  cases hf : s.emitted[i]? with
  | none =>
    rw [ack_none (by rw [hem]; exact hf)]; exact h1
  | some f =>
    obtain ⟨d1, d2⟩ := deliver_have hr.inv hr.invR ok hf
    exact honest_ack h1 (by rw [hem]; exact hf) d1 d2

theorem honest_settle (keep : Nat → Bool) (is : List Nat) {s : Stream} (hr : Reach s) (ok : RcvOk s.rcv) (h : Honest s) :
    Honest (s.run (settleOps keep is)) := by
  induction is generalizing s with
  | nil => exact h
  | cons i is ih =>
    simp only [settleOps]
    cases keep i
    · simp only [Bool.false_eq_true, if_false, List.singleton_append, run_cons]
      exact ih (reach_step hr _) ((mono_step hr (op := .lose i) rfl).ok ok) (honest_lose h i)
    · simp only [if_true, dAck, List.cons_append, List.nil_append, run_cons]
      have r1 := reach_step hr (.deliver i)
      have o1 := (mono_step hr (op := .deliver i) rfl).ok ok
      exact ih (reach_step r1 _) ((mono_step r1 (op := .ack i) rfl).ok o1) (honest_dack hr ok h i)

/-- after "deliver and acknowledge every frame of `is`", the bytes of each of these frames have reached the receiver -/
theorem settle_have (is : List Nat) {s : Stream} (hr : Reach s) (ok : RcvOk s.rcv) {i : Nat} {f : Frame}
    (hi : i ∈ is) (hf : s.emitted[i]? = some f) :
    (∀ x, f.off ≤ x → x < f.stop → Have (s.run (settleOps (fun _ => true) is)).rcv x) ∧
    (f.fin = true → Sized (s.run (settleOps (fun _ => true) is)).rcv) := by
  induction is generalizing s with
  | nil => cases hi
  | cons j js ih =>
    simp only [settleOps, if_true, dAck, List.cons_append, List.nil_append, run_cons]
    have r1 := reach_step hr (.deliver j)
    have m1 := mono_step hr (op := .deliver j) rfl
    have m2 := mono_step r1 (op := .ack j) rfl
    have r2 := reach_step r1 (.ack j)
    rcases List.mem_cons.mp hi with e | e
    · subst e
      obtain ⟨d1, d2⟩ := deliver_have hr.inv hr.invR ok hf
      have m3 := mono_run r2 (settleOps (fun _ => true) js) (settle_coop _ _)
      exact ⟨fun x x1 x2 => m3.hv x (m2.hv x (d1 x x1 x2)), fun x => m3.sz (m2.sz (d2 x))⟩
    · exact ih r2 (m2.ok (m1.ok ok)) e (m2.em i f (m1.em i f hf))

/-! ### the sender after everything new was acknowledged -/

/-- nothing is marked lost any more -/
def Clean (s : Sender) : Prop :=
  (∀ x, x < s.written.length → s.status x = .inflight ∨ s.status x = .acked) ∧ s.fin ≠ .lost

def Fin4 (s : Sender) : Prop := s.st = .dataRcvd ∨ (s.st = .dataSent ∧ s.err = false ∧ Clean s)

theorem fin4_ack (s : Sender) (f : Frame) (h : Fin4 s) : Fin4 (s.ack f) := by
  rcases h with h | ⟨h1, h2, h3, h4⟩
  · left; unfold Sender.ack; cases he : s.err <;> simp [h]
  · rw [ack_dataSent f h2 h1]
    split
    · left; rfl
    · right
      refine ⟨h1, h2, fun x hx => ?_, ?_⟩
      · simp only [Sender.ack1, setRange]
        split
        · right; rfl
        · exact h3 x hx
      · simp only [Sender.ack1]; split
        · simp
        · exact h4

theorem fin4_step_ack {t : Stream} (i : Nat) (h : Fin4 t.snd) : Fin4 (t.step (.ack i)).snd := by
  simp only [Stream.step]; split
  · exact fin4_ack _ _ h
  · exact h

theorem fin4_settle (is : List Nat) {s : Stream} (h : Fin4 s.snd) : Fin4 (s.run (settleOps (fun _ => true) is)).snd := by
  induction is generalizing s with
  | nil => exact h
  | cons j js ih =>
    simp only [settleOps, if_true, dAck, List.cons_append, List.nil_append, run_cons]
    apply ih
    have hsnd : (s.step (.deliver j)).snd = s.snd := by simp only [Stream.step]; split <;> rfl
    apply fin4_step_ack
    rw [hsnd]; exact h

theorem fin4_done {s : Stream} (h4 : Fin4 s.snd) (hp : Pend s []) (hd : Done s.snd) : s.snd.st = .dataRcvd := by
  rcases h4 with h | ⟨h1, _, h3, h4⟩
  · exact h
  · rcases hp with hp | ⟨p1, p2⟩
    · exact hp
    · exfalso
      apply hd.2 h1
      refine ⟨fun x hx => ?_, ?_⟩
      · rcases h3 x hx with e | e
        · obtain ⟨_, hm, _⟩ := p1 x e; cases hm
        · exact e
      · cases hfin : s.snd.fin
        · obtain ⟨_, hm, _⟩ := p2 h1 hfin; cases hm
        · exact absurd hfin h4
        · rfl

end GmQuic.Stream
