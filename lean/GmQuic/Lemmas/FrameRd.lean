import GmQuic.Model.FrameRd
import GmQuic.Lemmas.PacketDec
/-!
C03 helper lemmas (frames): every `be_*_frame` body parser is panic-free and returns a rest no longer than its
input (`Good`), proved compositionally over the parser combinators.
-/
namespace GmQuic.FrameRd
open GmQuic.Wire GmQuic.Codec GmQuic.PacketDec GmQuic.Gen

/-- never panics, and on success the rest is at most `n` bytes -/
def Good {α} (r : Res α) (n : Nat) : Prop := NP r ∧ RestLe r n

theorem good_ok {α} (a : α) (rest : Bytes) (n : Nat) (h : rest.length ≤ n) : Good (Res.ok a rest) n :=
  ⟨np_ok _ _, fun _ _ e => by cases e; exact h⟩

theorem good_err {α} (k : ErrKind) (n : Nat) : Good (Res.err k : Res α) n :=
  ⟨np_err k, fun _ _ e => by cases e⟩

theorem good_bind {α β} {r : Res α} {f : α → Bytes → Res β} {n : Nat}
    (hr : Good r n) (hf : ∀ a rest, rest.length ≤ n → Good (f a rest) n) : Good (r.bind f) n := by
  cases r with
  | ok a rest => exact hf a rest (hr.2 a rest rfl)
  | err k => exact good_err k n
  | panic s => exact absurd rfl (hr.1 s)

theorem good_map {α β} {r : Res α} {f : α → β} {n : Nat} (hr : Good r n) : Good (r.map f) n :=
  ⟨np_map hr.1, restLe_map hr.2⟩

theorem pVarint_good (bs : Bytes) (n : Nat) (h : bs.length ≤ n) : Good (pVarint bs) n :=
  ⟨pVarint_np bs, restLe_mono (pVarint_le bs) h⟩
theorem pTakeS_good (k : Nat) (bs : Bytes) (n : Nat) (h : bs.length ≤ n) : Good (pTakeS k bs) n :=
  ⟨pTakeS_np k bs, restLe_mono (pTakeS_le k bs) h⟩
theorem pTakeC_good (k : Nat) (bs : Bytes) (n : Nat) (h : bs.length ≤ n) : Good (pTakeC k bs) n := by
  refine ⟨pTakeC_np k bs, ?_⟩
  intro a rest e
  unfold pTakeC at e
  split at e
  · cases e
  · cases e; simp; omega
theorem pCid_good (bs : Bytes) (n : Nat) (h : bs.length ≤ n) : Good (pCid bs) n :=
  ⟨pCid_np bs, restLe_mono (pCid_le bs) h⟩
theorem pSockAddr_good (v6 : Bool) (bs : Bytes) (n : Nat) (h : bs.length ≤ n) : Good (pSockAddr v6 bs) n :=
  ⟨pSockAddr_np v6 bs, restLe_mono (pSockAddr_le v6 bs) h⟩

theorem pRanges_good (c : Nat) : ∀ (bs : Bytes) (n : Nat), bs.length ≤ n → Good (pRanges c bs) n := by
  induction c with
  | zero => intro bs n h; exact good_ok _ _ _ h
  | succ c ih =>
    intro bs n h
    unfold pRanges
    apply good_bind (pVarint_good bs n h); intro gap r hr
    apply good_bind (pVarint_good r n hr); intro ack r hr
    apply good_bind (ih r n hr); intro rest r hr
    exact good_ok _ _ _ hr

theorem pErrFty_good (bs : Bytes) (n : Nat) (h : bs.length ≤ n) : Good (pErrFty bs) n := by
  unfold pErrFty
  apply good_bind (pVarint_good bs n h); intro v r hr
  split <;> exact good_ok _ _ _ hr

/-- the `map_err(|_| Alt)` wrapper around `be_frame_type` in `be_quic_close_frame` -/
theorem closeFty_good (bs : Bytes) (n : Nat) (h : bs.length ≤ n) :
    Good (match pErrFty bs with | .err _ => Res.err (.nom .alt) | x => x) n := by
  have := pErrFty_good bs n h
  split
  · exact good_err _ _
  · assumption

syntax "good_step" : tactic
macro_rules
  | `(tactic| good_step) => `(tactic| first
    | exact good_err _ _
    | exact pVarint_good _ _ (by assumption)
    | exact pTakeS_good _ _ _ (by assumption)
    | exact pTakeC_good _ _ _ (by assumption)
    | exact pCid_good _ _ (by assumption)
    | exact pSockAddr_good _ _ _ (by assumption)
    | exact pRanges_good _ _ _ (by assumption)
    | exact closeFty_good _ _ (by assumption)
    | (apply good_ok; first | assumption | (simp only [List.length_drop, List.length_nil]; omega))
    | apply good_map
    | apply good_bind
    | intro _ _ _
    | split)

theorem decBody_good (t : FrameType) (bs : Bytes) (n : Nat) (h : bs.length ≤ n) : Good (decBody t bs) n := by
  unfold decBody
  split <;> repeat good_step

theorem decType_lt (bs : Bytes) (t : FrameType) (r : Bytes) (h : decType bs = .ok t r) : r.length < bs.length := by
  unfold decType at h
  split at h
  · cases h
  · rename_i v r' hd
    split at h
    · cases h
    · cases h; exact (decVarint_consumes bs _ _ hd).1

theorem decFrame_np (pt : PktType) (bs : Bytes) (s : String) : decFrame pt bs ≠ .panic s := by
  unfold decFrame
  cases ht : decType bs with
  | err k => intro h; cases h
  | panic s' => unfold decType at ht; split at ht <;> (try split at ht) <;> cases ht
  | ok t r =>
    simp only [Res.bind]
    split
    · intro h; cases h
    · have hg := (decBody_good t r r.length (Nat.le_refl _)).1
      cases hb : decBody t r with
      | ok f rest => intro h; cases h
      | err k => cases k <;> (intro h; cases h)
      | panic s' => exact absurd hb (hg s')

theorem decFrame_lt (pt : PktType) (bs : Bytes) (f : Frame) (rest : Bytes) (h : decFrame pt bs = .ok f rest) :
    rest.length < bs.length := by
  unfold decFrame at h
  cases ht : decType bs with
  | err k => rw [ht] at h; cases h
  | panic s' => rw [ht] at h; cases h
  | ok t r =>
    have hlt := decType_lt bs t r ht
    rw [ht] at h
    simp only [Res.bind] at h
    split at h
    · cases h
    · have hg := (decBody_good t r r.length (Nat.le_refl _)).2
      cases hb : decBody t r with
      | ok f' rest' =>
        rw [hb] at h; cases h
        have := hg f rest hb; omega
      | err k => rw [hb] at h; cases k <;> cases h
      | panic s' => rw [hb] at h; cases h

/-- the errors that leave `be_frame` are exactly the five `frame::Error` variants it constructs -/
theorem decFrame_err (pt : PktType) (bs : Bytes) (k : ErrKind) (h : decFrame pt bs = .err k) :
    ∃ e, ferrOf k = some e ∧ e ≠ .noFrames := by
  unfold decFrame at h
  cases ht : decType bs with
  | err k' =>
    rw [ht] at h; cases h
    unfold decType at ht
    split at ht
    · cases ht; exact ⟨_, rfl, by decide⟩
    · split at ht
      · cases ht; exact ⟨_, rfl, by decide⟩
      · cases ht
  | panic s' => rw [ht] at h; cases h
  | ok t r =>
    rw [ht] at h
    simp only [Res.bind] at h
    split at h
    · cases h; exact ⟨_, rfl, by decide⟩
    · cases hb : decBody t r with
      | ok f' rest' => rw [hb] at h; cases h
      | panic s' => rw [hb] at h; cases h
      | err k' =>
        rw [hb] at h
        cases k' with
        | incomplete => cases h; exact ⟨_, rfl, by decide⟩
        | nom c => cases h; exact ⟨_, rfl, by decide⟩
        | incompleteType => cases h; exact ⟨_, rfl, by decide⟩
        | invalidType v => cases h; exact ⟨_, rfl, by decide⟩
        | wrongType => cases h; exact ⟨_, rfl, by decide⟩
        | incompleteFrame => cases h; exact ⟨_, rfl, by decide⟩
        | parseError c => cases h; exact ⟨_, rfl, by decide⟩

end GmQuic.FrameRd
