import GmQuic.Lemmas.AntiAmpConcStep
/-! Preservation of `CInv` by the atomic steps of the sending task. -/
namespace GmQuic.AntiAmp

theorem cinv_sender (s : Conc) (amt : Nat) (hi : CInv s) : CInv (s.step (.senderStep amt)) := by
  obtain ⟨uf, ng, pool, sok, i3, i4, i6⟩ := hi
  simp only [Conc.step]
  cases hsd : s.sender with
  | idle =>
    simp only
    refine ⟨uf, ng, pool, by simp [Sender.ok], ?_, by simp [Sender.pendSub, Sender.held], i6⟩
    simp only [Conc.A, hsd, Sender.pendSub, Sender.mayHold] at i3 ⊢
    exact i3
  | stopped =>
    simp only
    exact ⟨uf, ng, pool, sok, i3, i4, i6⟩
  | asleep =>
    simp only
    split
    · refine ⟨by simpa using uf, by simpa using ng, pool, by simp [Sender.ok], ?_, by simp [Sender.pendSub, Sender.held], by simpa using i6⟩
      simp only [Conc.A, hsd, Sender.pendSub, Sender.mayHold] at i3 ⊢
      exact i3
    · exact ⟨uf, ng, pool, sok, i3, i4, i6⟩
  | holding c =>
    simp only
    have hc : c ≤ s.aa.credit := by simp [hsd, Sender.pendSub, Sender.held] at i4; exact i4
    split
    · refine ⟨uf, ng, pool, by simp [Sender.ok], ?_, by simp [Sender.pendSub, Sender.held], i6⟩
      simp only [Conc.A, hsd, Sender.pendSub, Sender.mayHold] at i3 ⊢
      split <;> rename_i hs <;> simp [hs] at i3 ⊢ <;> omega
    · refine ⟨uf, ng, pool, by simp [Sender.ok], ?_, by simp [Sender.pendSub, Sender.held]; omega, i6⟩
      simp only [Conc.A, hsd, Sender.pendSub, Sender.mayHold] at i3 ⊢
      split <;> rename_i hs <;> simp [hs] at i3 ⊢ <;> omega
  | sending f =>
    simp only [hsd, Sender.ok] at sok
    cases f <;> simp only [Sender.ok] at sok
    · -- sent0 k
      rename_i k
      simp only [Frame.step]
      by_cases hs : s.aa.state = .normal
      · simp only [hs, ↓reduceIte]
        refine ⟨uf, ng, pool, by simp [Sender.ok], ?_, by simpa [hsd, Sender.pendSub, Sender.held] using i4, i6⟩
        simp only [Conc.A, hsd, Sender.pendSub, Sender.mayHold] at i3 ⊢
        exact i3
      · simp only [hs, ↓reduceIte]
        refine ⟨uf, ng, pool, by simp [Sender.ok], ?_, by simp [Sender.pendSub, Sender.held], i6⟩
        simp only [Conc.A, hsd, Sender.pendSub, Sender.mayHold, hs] at i3 ⊢
        simpa using i3
    · -- sent1 k
      rename_i k
      have hk : k ≤ s.aa.credit := by simp [hsd, Sender.pendSub, Sender.held] at i4; exact i4
      simp only [Frame.step]
      rw [fetchSub_le _ _ hk]
      refine ⟨by simpa using uf, by simpa using ng, pool, by simp [Sender.ok], ?_, by simp [Sender.pendSub, Sender.held], by simp; omega⟩
      simp only [Conc.A, hsd, Sender.pendSub, Sender.mayHold] at i3 ⊢
      split <;> rename_i hs <;> simp [hs] at i3 ⊢ <;> omega
  | polling f =>
    simp only [hsd, Sender.ok] at sok
    cases f <;> simp only [Sender.ok] at sok
    · -- bal0
      simp only [Frame.step]
      cases hs : s.aa.state
      · simp only
        refine ⟨uf, ng, pool, by simp [Sender.ok], ?_, by simp [Sender.pendSub, Sender.held], i6⟩
        simp only [Conc.A, hsd, Sender.pendSub, Sender.mayHold, hs] at i3 ⊢
        simpa using i3
      · exact absurd hs ng
      · simp only
        refine ⟨uf, ng, pool, by simp [Sender.ok], ?_, by simp [Sender.pendSub, Sender.held], i6⟩
        simp only [Conc.A, hsd, Sender.pendSub, Sender.mayHold, hs] at i3 ⊢
        simpa using i3
    · -- bal1
      simp only [Frame.step]
      by_cases hc : s.aa.credit = 0
      · simp only [hc, ↓reduceIte]
        refine ⟨uf, ng, pool, by simp [Sender.ok], ?_, by simp [Sender.pendSub, Sender.held], i6⟩
        simp only [Conc.A, hsd, Sender.pendSub, Sender.mayHold] at i3 ⊢
        split <;> rename_i hs <;> simp [hs] at i3 ⊢ <;> omega
      · simp only [hc, ↓reduceIte]
        refine ⟨uf, ng, pool, by simp [Sender.ok], ?_, by simp [Sender.pendSub, Sender.held], i6⟩
        simp only [Conc.A, hsd, Sender.pendSub, Sender.mayHold] at i3 ⊢
        exact i3
    · -- bal2
      simp only [Frame.step]
      by_cases hs : s.aa.state = .normal
      · simp only [hs, ↓reduceIte]
        refine ⟨uf, ng, pool, by simp [Sender.ok], ?_, by simp [Sender.pendSub, Sender.held], i6⟩
        simp only [Conc.A, hsd, Sender.pendSub, Sender.mayHold, hs] at i3 ⊢
        simpa using i3
      · simp only [hs, ↓reduceIte]
        have hab : s.aa.state = .aborted := by
          cases h : s.aa.state <;> simp_all
        refine ⟨uf, ng, pool, by simp [Sender.ok, hab], ?_, by simp [Sender.pendSub, Sender.held], i6⟩
        simp only [Conc.A, hsd, Sender.pendSub, Sender.mayHold, hs] at i3 ⊢
        simpa using i3
    · -- bal3 st
      rename_i st
      subst sok
      simp only [Frame.step, AA.wake, reduceCtorEq, ↓reduceIte]
      refine ⟨by simpa using uf, by simpa using ng, pool, by simp [Sender.ok], ?_, by simp [Sender.pendSub, Sender.held], by simpa using i6⟩
      simp only [Conc.A, hsd, Sender.pendSub, Sender.mayHold] at i3 ⊢
      split <;> rename_i hs <;> simp [hs] at i3 ⊢ <;> omega

end GmQuic.AntiAmp
