import GmQuic.Lemmas.Net
import GmQuic.Props.C07.Receiver
/-!
C02 ↔ C07: the receive journal of one direction of the abstract stack, along ANY history of the stack, follows a
history of the C07 receiver model (`Pn.ROp`: `on_rcvd_pn` / rotation), so C07's receiver theorem applies to it.
-/
namespace GmQuic.Net
open GmQuic

theorem rcvd_handles {C : Type} (d : Dir) (frames : List PFrame) (σ : Net C) :
    (frames.foldl (handle d) σ).rcvd = σ.rcvd := by
  induction frames generalizing σ with
  | nil => rfl
  | cons fr rest ih =>
    simp only [List.foldl_cons]; rw [ih]
    cases fr <;> rfl

theorem rcvd_dispatch {C : Type} (σ : Net C) (d : Dir) (p : Packet) :
    (dispatch σ d p).rcvd = upd σ.rcvd d ((σ.rcvd d).onRcvd p.pn) := by
  simp only [dispatch, rcvd_handles]

/-- one step of the stack is zero or one step of the C07 receiver model on the journal of direction `d` -/
theorem rcvd_step_rop {C : Type} (K : Crypto C) (ord : Order) (σ : Net C) (op : Op C) (d : Dir) :
    ∃ rops : List Pn.ROp, (step K ord σ op).rcvd d = rops.foldl Pn.rstep (σ.rcvd d) := by
  cases op with
  | app d' sid sop => exact ⟨[], by simp only [step]; split <;> rfl⟩
  | dgSend d' x => exact ⟨[], rfl⟩
  | send d' fr => exact ⟨[], rfl⟩
  | slide d' n =>
    by_cases hd : d = d'
    · subst hd; exact ⟨[.slide n], by simp only [step, upd_same]; rfl⟩
    · exact ⟨[], by simp only [step, upd_other _ _ _ _ hd]; rfl⟩
  | recv d' c =>
    simp only [step, recvStep]
    split
    · exact ⟨[], rfl⟩
    · split
      · exact ⟨[], rfl⟩
      · split
        · exact ⟨[], rfl⟩
        · rename_i p _
          split
          · exact ⟨[], rfl⟩
          · split
            · rw [rcvd_dispatch]
              by_cases hd : d = d'
              · subst hd; exact ⟨[.rcvd p.pn], by rw [upd_same]; rfl⟩
              · exact ⟨[], by rw [upd_other _ _ _ _ hd]; rfl⟩
            · exact ⟨[], rfl⟩

theorem rcvd_run_rop {C : Type} (K : Crypto C) (ord : Order) (ops : List (Op C)) (σ : Net C) (d : Dir) :
    ∃ rops : List Pn.ROp, (run K ord σ ops).rcvd d = rops.foldl Pn.rstep (σ.rcvd d) := by
  induction ops generalizing σ with
  | nil => exact ⟨[], rfl⟩
  | cons op rest ih =>
    obtain ⟨r1, h1⟩ := rcvd_step_rop K ord σ op d
    obtain ⟨r2, h2⟩ := ih (step K ord σ op)
    refine ⟨r1 ++ r2, ?_⟩
    simp only [run, List.foldl_cons] at h2 ⊢
    rw [h2, h1, List.foldl_append]

/-- the stack's freshness test is C07's `decode_pn` acceptance, for every encoding that decodes to `pn` -/
theorem fresh_iff_decodePn (r : Pn.Rcvd) (e : Pn.PacketNumber) (pn : Nat) (hd : Pn.decode e r.largest = .ok pn) :
    fresh r pn = true ↔ r.decodePn e = .ok pn := by
  constructor
  · intro hf
    simp only [fresh, Bool.and_eq_true, decide_eq_true_eq, Bool.not_eq_true'] at hf
    exact (Pn.decode_pn_rejects_dup_and_old r e pn hd).2.2 hf.1 hf.2
  · intro h
    obtain ⟨_, h2, h3⟩ := Pn.decodePn_ok r e pn h
    simp [fresh, h2, h3]

end GmQuic.Net
