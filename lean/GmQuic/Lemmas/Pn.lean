import GmQuic.Model.Pn
import GmQuic.Lemmas.Wire
/-!
Helper lemmas for C07: the bit operations of `PacketNumber::decode` equal the div/mod form, the wire
round trip of `put_packet_number`/`take_pn_len`, and the closed form of `encode` on the property's domain.
-/
namespace GmQuic.Pn
open GmQuic.Gen GmQuic.Wire

/-- `x & !(2^n − 1)` on `u64` clears the low `n` bits. -/
theorem land_not_mask (x n : Nat) (hn : n ≤ 64) (hx : x < 2 ^ 64) :
    x &&& (2 ^ 64 - 1 - (2 ^ n - 1)) = x / 2 ^ n * 2 ^ n := by
  have hm : 2 ^ 64 - 1 - (2 ^ n - 1) = (2 ^ (64 - n) - 1) * 2 ^ n := by
    have h1 : 2 ^ 64 = 2 ^ (64 - n) * 2 ^ n := by rw [← Nat.pow_add]; congr 1; omega
    have h2 : 0 < 2 ^ n := Nat.pow_pos (by decide)
    rw [Nat.sub_mul, ← h1]; omega
  rw [hm]
  apply Nat.eq_of_testBit_eq
  intro i
  rw [Nat.testBit_and, Nat.testBit_mul_two_pow, Nat.testBit_mul_two_pow, Nat.testBit_two_pow_sub_one,
    Nat.testBit_div_two_pow]
  by_cases h : n ≤ i
  · simp only [h, decide_true, Bool.true_and]
    have e : i - n + n = i := by omega
    rw [e]
    by_cases h2 : i < 64
    · have : i - n < 64 - n := by omega
      simp [this]
    · have : x.testBit i = false :=
        Nat.testBit_lt_two_pow (Nat.lt_of_lt_of_le hx (Nat.pow_le_pow_right (by decide) (by omega)))
      simp [this]
  · simp [h]

/-- OR-ing a value below `2^n` into a multiple of `2^n` is addition. -/
theorem lor_add (h t n : Nat) (ht : t < 2 ^ n) : (h * 2 ^ n) ||| t = h * 2 ^ n + t := by
  rw [Nat.mul_comm]; exact (Nat.two_pow_add_eq_or_of_lt ht h).symm

/-- **Bit form = div/mod form** of `let candidate = (expected & !mask) | truncated`
when the truncated value fits the window (always true for a value parsed from the wire). -/
theorem candidate_eq (expected truncated n : Nat) (hn : n ≤ 64) (he : expected < 2 ^ 64)
    (ht : truncated < 2 ^ n) :
    candidate expected (2 ^ n - 1) truncated = expected / 2 ^ n * 2 ^ n + truncated := by
  unfold candidate u64Size
  rw [land_not_mask expected n hn he, lor_add _ _ _ ht]

/-- `decode` with the candidate computed by div/mod instead of `&`, `!`, `|`. -/
def decodeDM (nbits truncated expected : Nat) : Res Nat :=
  let win := 2 ^ nbits
  let hwin := win / 2
  let cand := expected / win * win + truncated
  if hwin ≤ expected ∧ cand ≤ expected - hwin then
    if cand + win < 2 ^ 64 then .ok (cand + win) else .panic .addOverflow
  else if 2 ^ 64 ≤ expected + hwin then .panic .addOverflow
  else if cand > expected + hwin ∧ cand > win then .ok (cand - win)
  else .ok cand

/-- A value whose payload fits its variant's width (what `take_pn_len` produces). -/
def Canonical (e : PacketNumber) : Prop := (parts e).1 < 2 ^ (parts e).2

theorem bits_le (e : PacketNumber) : (parts e).2 ≤ 64 := by
  cases e <;> simp [parts, pnBits8, pnBits16, pnBits24, pnBits32]

/-- The model's `decode` (bit operations) agrees with the div/mod form on canonical values. -/
theorem decode_eq_decodeDM (e : PacketNumber) (expected : Nat) (he : expected < 2 ^ 64)
    (hc : Canonical e) : decode e expected = decodeDM (parts e).2 (parts e).1 expected := by
  unfold decode decodeDM
  simp only [pnWinOne, pnHwinDiv, pnMaskSub, Nat.one_mul, u64Size]
  rw [candidate_eq expected _ _ (bits_le e) he hc]

/-! ### wire round trip -/

theorem take_append (w : Nat) (a rest : Bytes) (h : a.length = w) :
    (a ++ rest).take w = a ∧ (a ++ rest).drop w = rest := by
  subst h; simp

theorem put_u24_eq (x : Nat) : put (.u24 x) = beBytes 3 x := by
  simp [put, pnPut24Shift, beBytes]

/-- What the receiver's parser returns for what the sender's writer wrote: the low `8·size` bits. -/
def truncWire : PacketNumber → PacketNumber
  | .u8 x => .u8 (x % 2 ^ 8)
  | .u16 x => .u16 (x % 2 ^ 16)
  | .u24 x => .u24 (x % 2 ^ 24)
  | .u32 x => .u32 (x % 2 ^ 32)

theorem takeW_beBytes (w : Nat) (mk : Nat → PacketNumber) (x : Nat) (rest : Bytes) :
    takeW (8 * w) mk (beBytes w x ++ rest) = .ok (mk (x % 256 ^ w)) rest := by
  have hl : (beBytes w x).length = w := beBytes_length w x
  have ht := take_append w (beBytes w x) rest hl
  unfold takeW
  have hw : 8 * w / 8 = w := by omega
  simp only [hw]
  have : ¬ ((beBytes w x ++ rest).length < w) := by simp [hl]
  simp only [this, if_false, ht.1, ht.2, beVal_beBytes]

/-- `take_pn_len(e.size())` after `put_packet_number(e)` returns the truncated value and the rest. -/
theorem viaWire_eq (e : PacketNumber) (rest : Bytes) : viaWire e rest = .ok (truncWire e) rest := by
  cases e with
  | u8 x =>
    have := takeW_beBytes 1 .u8 x rest
    simpa [viaWire, size, take, put, pnSize8, pnTake1, pnPut8, truncWire] using this
  | u16 x =>
    have := takeW_beBytes 2 .u16 x rest
    simpa [viaWire, size, take, put, pnSize16, pnTake2, pnPut16, truncWire] using this
  | u24 x =>
    have := takeW_beBytes 3 .u24 x rest
    simp only [viaWire, size, take, pnSize24, pnTake3, put_u24_eq, truncWire]
    simpa using this
  | u32 x =>
    have := takeW_beBytes 4 .u32 x rest
    simpa [viaWire, size, take, put, pnSize32, pnTake4, pnPut32, truncWire] using this

theorem truncWire_canonical (e : PacketNumber) : Canonical (truncWire e) := by
  cases e <;> simp [truncWire, Canonical, parts, pnBits8, pnBits16, pnBits24, pnBits32] <;>
    exact Nat.mod_lt _ (by decide)

/-! ### `encode` on the property's domain (closed form) -/

/-- With `la ≤ pn` and a gap below `2^31`, `encode` never panics and picks the width by the gap.
(`U8` is unreachable: the minimum range is `2^16 − 1`.) -/
theorem encode_closed (pn la : Nat) (hla : la ≤ pn) (hgap : pn - la < 2 ^ 31) :
    encode pn la =
      if pn - la < 2 ^ 15 then .ok (.u16 (pn % 2 ^ 16))
      else if pn - la < 2 ^ 23 then .ok (.u24 (pn % 2 ^ 24))
      else .ok (.u32 (pn % 2 ^ 32)) := by
  have hmask : (pn % 2 ^ 32) &&& 16777215 = pn % 2 ^ 24 := by
    rw [show (16777215 : Nat) = 2 ^ 24 - 1 from rfl, Nat.and_two_pow_sub_one_eq_mod]; omega
  unfold encode
  simp only [pnRangeFactor, pnMinRange, pnThresh8, pnThresh16, pnThresh24, pnThresh32, pnCast16, pnCast24,
    pnCast32, pnCast8, pnMask24, hmask, u64Size, Nat.max_def]
  have h1 : ¬ pn < la := by omega
  have h2 : ¬ 2 ^ 64 ≤ (pn - la) * 2 := by omega
  simp only [h1, h2, if_false]
  by_cases a : pn - la < 2 ^ 15
  · have : (pn - la) * 2 ≤ 65535 := by omega
    simp [a, this]
  · have n1 : ¬ (pn - la) * 2 ≤ 65535 := by omega
    by_cases b : pn - la < 2 ^ 23
    · have b1 : ¬ (pn - la) * 2 < 256 := by omega
      have b2 : ¬ (pn - la) * 2 < 65536 := by omega
      have b3 : (pn - la) * 2 < 16777216 := by omega
      simp [a, b, n1, b1, b2, b3]
    · have b1 : ¬ (pn - la) * 2 < 256 := by omega
      have b2 : ¬ (pn - la) * 2 < 65536 := by omega
      have b3 : ¬ (pn - la) * 2 < 16777216 := by omega
      have b4 : (pn - la) * 2 < 4294967296 := by omega
      simp [a, b, n1, b1, b2, b3, b4]

/-- RFC 9000 A.3 in div/mod form: a number within half a window above `expected` is recovered. -/
theorem decodeDM_correct (n pn exp : Nat) (hn : n = 8 ∨ n = 16 ∨ n = 24 ∨ n = 32)
    (hpn : pn < 2 ^ 62) (hle : exp ≤ pn) (hwin : pn - exp < 2 ^ (n - 1)) :
    decodeDM n (pn % 2 ^ n) exp = .ok pn := by
  unfold decodeDM
  rcases hn with rfl | rfl | rfl | rfl <;>
    simp only [Nat.reducePow, Nat.reduceDiv, Nat.reduceSub] at * <;>
    (split
     · split
       · refine congrArg Res.ok ?_; omega
       · omega
     · split
       · omega
       · split
         · refine congrArg Res.ok ?_; omega
         · refine congrArg Res.ok ?_; omega)

end GmQuic.Pn
