import GmQuic.Lemmas.CidSwitch
/-! C14 — `Good` is kept by `retire_prior_to`, by the cell operations, `apply_dcid`, `apply_initial_dcid`. -/
namespace GmQuic.Cid
namespace Remote

/-! ### `retire_prior_to` -/

theorem popReady_pending (n : Nat) : ∀ s : Remote, n ≤ s.ready.length →
    ∀ x, x ∈ (popReady s n).pending ↔ x ∈ s.pending ∨ (x ∈ s.ready.take n ∧ (s.cell x).retired = false) := by
  induction n with
  | zero => intro s _ x; simp [popReady]
  | succ n ih =>
    intro s hn x
    unfold popReady
    cases hr : s.ready with
    | nil => simp [hr] at hn
    | cons c rest =>
      simp only
      have hn' : n ≤ rest.length := by simp [hr] at hn; omega
      split
      · rename_i hret
        have := ih { s with ready := rest, roff := s.roff + 1 } hn' x
        simp only at this
        rw [this, List.take_succ_cons, List.mem_cons]
        constructor
        · rintro (h | ⟨h1, h2⟩)
          · exact Or.inl h
          · exact Or.inr ⟨Or.inr h1, h2⟩
        · rintro (h | ⟨h1 | h1, h2⟩)
          · exact Or.inl h
          · subst h1; rw [hret] at h2; cases h2
          · exact Or.inr ⟨h1, h2⟩
      · rename_i hret
        have := ih { s with ready := rest, roff := s.roff + 1, pending := s.pending ++ [c] } hn' x
        simp only at this
        rw [this, List.take_succ_cons, List.mem_cons, List.mem_append, List.mem_singleton]
        constructor
        · rintro ((h | h) | ⟨h1, h2⟩)
          · exact Or.inl h
          · subst h; exact Or.inr ⟨Or.inl rfl, by simpa using hret⟩
          · exact Or.inr ⟨Or.inr h1, h2⟩
        · rintro (h | ⟨h1 | h1, h2⟩)
          · exact Or.inl (Or.inl h)
          · exact Or.inl (Or.inr h1)
          · exact Or.inr ⟨h1, h2⟩

/-- what `retire_prior_to(t)` does when `t` is above the offset, in one shape for all its branches -/
theorem retirePriorTo_shape {s s' : Remote} {t : Nat} (hi : RInv s) (ht : s.roff < t) (h : s.retirePriorTo t = .ok s') :
    s'.cells = s.cells ∧ s'.cursor = max s.cursor t ∧ s'.roff = t ∧
    s'.frames = s.frames ++ List.range' s.cursor (t - s.cursor) ∧
    s'.ready = s.ready.drop (t - s.roff) ∧
    (∀ x, x ∈ s'.pending ↔ x ∈ s.pending ∨ (x ∈ s.ready.take (t - s.roff) ∧ (s.cell x).retired = false)) := by
  unfold retirePriorTo at h
  split at h
  · omega
  split at h; · cases h
  have hi1 := hi.i1
  simp only at h
  split at h
  · rename_i he
    cases h
    have he : s.ready = [] := by simpa using he
    simp only [he, List.length_nil, Nat.add_zero] at hi1
    refine ⟨rfl, rfl, rfl, ?_, by simp [he], fun x => by simp [he]⟩
    show s.frames ++ List.range' s.roff (t - s.roff) = _
    rw [hi1]
  · have hp := popReady_spec (min (s.roff + s.ready.length) t - s.roff)
      { s with cdq := s.cdq.drop (t - s.coff), coff := t, cursor := max s.cursor t } (by simp only; omega)
    have hq := popReady_pending (min (s.roff + s.ready.length) t - s.roff)
      { s with cdq := s.cdq.drop (t - s.coff), coff := t, cursor := max s.cursor t } (by simp only; omega)
    simp only at hp hq
    obtain ⟨h1, h2, h3, h4, h5, h6, h7, h8⟩ := hp
    split at h
    · rename_i hlt
      cases h
      have e1 : min (s.roff + s.ready.length) t - s.roff = s.ready.length := by omega
      refine ⟨h3, h6, rfl, ?_, ?_, ?_⟩
      · show (popReady _ _).frames ++ _ = _
        rw [h8, hi1]
      · show (popReady _ _).ready = _
        rw [h1, e1, List.drop_length, List.drop_eq_nil_of_le (by omega)]
      · intro x
        show x ∈ (popReady _ _).pending ↔ _
        rw [hq x, e1, List.take_length, List.take_of_length_le (by omega)]
        exact Iff.rfl
    · rename_i hlt
      cases h
      have e1 : min (s.roff + s.ready.length) t - s.roff = t - s.roff := by omega
      refine ⟨h3, h6, by rw [h2]; omega, ?_, by rw [h1, e1], ?_⟩
      · rw [h8]
        have : t - s.cursor = 0 := by omega
        simp [this]
      · intro x
        rw [hq x, e1]
        exact Iff.rfl

theorem retirePriorTo_good {s s' : Remote} {t : Nat} (hg : Good s s.pending) (h : s.retirePriorTo t = .ok s') :
    Good s' s'.pending ∧ Leaves s s' := by
  obtain ⟨hi', hcells', _, hcase⟩ := retirePriorTo_spec hg.rinv h
  rcases hcase with ⟨_, rfl⟩ | ⟨ht, _⟩
  · exact ⟨hg, Leaves.refl _⟩
  obtain ⟨hcells, hcur, hroff, hfr, hrd, hpd⟩ := retirePriorTo_shape hg.rinv ht h
  have hcell : ∀ i, s'.cell i = s.cell i := by intro i; simp only [cell, hcells]
  have hi1 := hg.rinv.i1
  refine ⟨⟨hi', ?_, ?_, ?_, ?_, ?_⟩, Leaves.of_cells_eq hcells ⟨_, hfr⟩⟩
  · intro q
    rw [acct_of_eq s s' _ q hcells hfr, count_range', hg.acct q, hcur]
    by_cases a : q < s.cursor
    · have b : ¬ (s.cursor ≤ q ∧ q < s.cursor + (t - s.cursor)) := by omega
      have c : q < max s.cursor t := by omega
      simp [a, b, c]
    · by_cases b : s.cursor ≤ q ∧ q < s.cursor + (t - s.cursor)
      · have c : q < max s.cursor t := by omega
        simp [a, b, c]
      · have c : ¬ q < max s.cursor t := by omega
        simp [a, b, c]
  · intro x hx
    rw [hcells]
    rcases (hpd x).1 hx with h1 | ⟨h1, _⟩
    · exact hg.pend x h1
    · exact hg.rdy x (List.mem_of_mem_take h1)
  · intro x hx
    rw [hcells]
    rw [hrd] at hx
    exact hg.rdy x (List.mem_of_mem_drop hx)
  · intro x hx
    rw [hcells] at hx
    rw [hcell]
    rcases hg.cover x hx with h1 | h1 | h1
    · exact Or.inl ((hpd x).2 (Or.inl h1))
    · rw [← List.take_append_drop (t - s.roff) s.ready, List.mem_append] at h1
      rcases h1 with h1 | h1
      · cases hret : (s.cell x).retired with
        | true => exact Or.inr (Or.inr rfl)
        | false => exact Or.inl ((hpd x).2 (Or.inr ⟨h1, hret⟩))
      · right; left; rw [hrd]; exact h1
    · exact Or.inr (Or.inr h1)
  · intro j x hx
    rw [hrd, List.getElem?_drop] at hx
    rw [hcell, hroff]
    rcases hg.heads _ x hx with h1 | ⟨hh, y, rest, h1, h2⟩
    · exact Or.inl h1
    · exact Or.inr ⟨hh, y, rest, h1, by omega⟩

/-! ### one cell replaced (borrow / release / retire of a path) -/

theorem good_set {s s' : Remote} {p : List Nat} (i : Nat) (c' : Cell) (fr : List Nat) (h : Good s p)
    (hc : s'.cells = s.cells.set i c') (hf : s'.frames = s.frames ++ fr)
    (e1 : s'.roff = s.roff) (e2 : s'.ready = s.ready) (e3 : s'.cursor = s.cursor) (e4 : s'.coff = s.coff)
    (hok : CellOk c') (hcount : ∀ q, c'.seqs.count q + fr.count q = (s.cell i).seqs.count q)
    (hret : (s.cell i).retired = true → c'.retired = true)
    (hhead : ∀ a x rest, (s.cell i).alloc = (a, x) :: rest → c'.retired = true ∨ ∃ rest', c'.alloc = (a, x) :: rest') :
    Good s' p := by
  have hlen : s'.cells.length = s.cells.length := by rw [hc]; simp
  have hcell : ∀ j, s'.cell j = (s.setCell i c').cell j := by intro j; simp only [cell, setCell, hc]
  refine ⟨⟨by rw [e1, e2, e3]; exact h.rinv.i1, by rw [e1, e4]; exact h.rinv.i2, ?_⟩, ?_, ?_, ?_, ?_, ?_⟩
  · intro x hx
    rw [hc] at hx
    rcases List.mem_or_eq_of_mem_set hx with h1 | h1
    · exact h.rinv.ok x h1
    · subst h1; exact hok
  · intro q
    rw [e3, ← h.acct q]
    rcases Nat.lt_or_ge i s.cells.length with hi | hi
    · have := acct_of_set s s' i c' fr q hi hc hf
      have := hcount q
      omega
    · have hc' : s'.cells = s.cells := by rw [hc, List.set_eq_of_length_le hi]
      have := hcount q
      rw [cell_ge s i hi] at this
      simp [Cell.seqs, Cell.fresh] at this
      rw [acct_of_eq s s' fr q hc' hf]
      have := this.2
      omega
  · intro x hx; rw [hlen]; exact h.pend x hx
  · intro x hx; rw [hlen]; rw [e2] at hx; exact h.rdy x hx
  · intro x hx
    rw [hlen] at hx
    rw [e2, hcell, cell_setCell]
    rcases h.cover x hx with h1 | h1 | h1
    · exact Or.inl h1
    · exact Or.inr (Or.inl h1)
    · right; right
      split
      · rename_i he; obtain ⟨rfl, _⟩ := he; exact hret h1
      · exact h1
  · intro j x hx
    rw [e2] at hx
    rw [e1, hcell, cell_setCell]
    split
    · rename_i he
      obtain ⟨rfl, _⟩ := he
      rcases h.heads j i hx with h1 | ⟨a, y, rest, h1, h2⟩
      · exact Or.inl (hret h1)
      · rcases hhead a y rest h1 with h3 | ⟨rest', h3⟩
        · exact Or.inl h3
        · exact Or.inr ⟨a, y, rest', h3, h2⟩
    · exact h.heads j x hx

theorem borrow_good (s : Remote) (c : Nat) (h : Good s s.pending) :
    Good (s.borrow c).1 (s.borrow c).1.pending ∧ Leaves s (s.borrow c).1 := by
  have hal := Cell.borrow_alloc (s.cell c)
  have hrt := Cell.borrow_retired (s.cell c)
  constructor
  · refine good_set (s' := (s.borrow c).1) c (s.cell c).borrow.1 [] h rfl (by simp [borrow, setCell]) rfl rfl rfl rfl
      (Cell.ok_borrow _ (cell_ok_of_all _ h.rinv.ok c)) (fun q => by simp [Cell.seqs, hal]) (fun hr => by rw [hrt]; exact hr)
      (fun a x rest hh => Or.inr ⟨rest, by rw [hal]; exact hh⟩)
  · exact Leaves.of_set c (s.cell c).borrow.1 [] rfl (by simp [borrow, setCell]) (fun q hq => Or.inl (by simpa [Cell.seqs, hal] using hq))

theorem release_good {s s' : Remote} {c : Nat} (h : Good s s.pending) (hr : s.release c = some s') :
    Good s' s'.pending ∧ Leaves s s' := by
  unfold release at hr
  split at hr
  · rename_i cl fr heq
    simp only [Option.some.injEq] at hr
    subst hr
    obtain ⟨_, hal, _⟩ := Cell.renew_alloc _ _ _ heq
    constructor
    · refine good_set (s' := { s.setCell c cl with frames := s.frames ++ fr }) c cl fr h rfl rfl rfl rfl rfl rfl
        (Cell.ok_renew _ _ _ (cell_ok_of_all _ h.rinv.ok c) heq) (Cell.renew_count _ _ _ heq)
        (fun hr' => by rw [Cell.renew_retired _ _ _ heq]; exact hr')
        (fun a x rest hh => Or.inr ⟨[], by rw [hal, hh]; rfl⟩)
    · exact Leaves.of_set c cl fr rfl rfl (Cell.renew_mem _ _ _ heq)
  · cases hr

theorem retireCell_good (s : Remote) (c : Nat) (h : Good s s.pending) :
    Good (s.retireCell c) (s.retireCell c).pending ∧ Leaves s (s.retireCell c) := by
  constructor
  · refine good_set (s' := s.retireCell c) c (s.cell c).retire.1 (s.cell c).retire.2 h rfl rfl rfl rfl rfl rfl
      (Cell.ok_retire _ (cell_ok_of_all _ h.rinv.ok c)) (Cell.retire_count _) (fun _ => Cell.retire_retired _)
      (fun _ _ _ _ => Or.inl (Cell.retire_retired _))
  · exact Leaves.of_set c (s.cell c).retire.1 (s.cell c).retire.2 rfl rfl (Cell.retire_mem _)

end Remote
end GmQuic.Cid
