import GmQuic.Lemmas.AckIter
import GmQuic.Lemmas.Wire
/-! With enough room `gen_ack_frame_util` never cuts (C10 `ack_complete_when_room`, generous room bound). -/
namespace GmQuic.RcvdJournal
open GmQuic.Wire

theorem rangeCountIncr_le (n : Nat) : rangeCountIncr n ≤ 4 := by
  unfold rangeCountIncr
  simp only [GmQuic.Gen.ackIncrBy1, GmQuic.Gen.ackIncrBy2, GmQuic.Gen.ackIncrBy3, GmQuic.Gen.ackIncrDefault]
  repeat' split
  all_goals omega

theorem foldRanges_nobreak (bs : List Bool) (gap ack : Nat) (last : Bool) (cap : Nat) (rs : List (Nat × Nat))
    (h : 21 * (bs.length + 1) ≤ cap) :
    (foldRanges gap ack last cap rs bs).broke = false ∧ 21 ≤ (foldRanges gap ack last cap rs bs).cap := by
  induction bs generalizing gap ack last cap rs with
  | nil => simp only [foldRanges]; simp at h; exact ⟨trivial, h⟩
  | cons b bs ih =>
    simp only [List.length_cons] at h
    cases last <;> cases b <;> simp only [foldRanges]
    · exact ih _ _ _ _ _ (by omega)
    · exact ih _ _ _ _ _ (by omega)
    · have h1 := rangeCountIncr_le rs.length
      have h2 := (varintSize_le (gap - 1)).2
      have h3 := (varintSize_le (ack - 1)).2
      rw [if_neg (by omega)]
      exact ih _ _ _ _ _ (by omega)
    · exact ih _ _ _ _ _ (by omega)

theorem finalRanges_complete (r : List Bool) (cap0 : Nat) (h : 21 * (r.length + 1) ≤ cap0) :
    ∃ t, false :: r = coverRanges (finalRanges (foldRanges 1 0 false cap0 [] r)) ++ t ∧ ∀ b ∈ t, b = false := by
  obtain ⟨rs2, tail, h1, h2, h3, h4⟩ := foldRanges_prefix r 1 0 false cap0 [] ⟨by omega, by simp, by simp⟩
  obtain ⟨hb, hc⟩ := foldRanges_nobreak r 1 0 false cap0 [] h
  simp only [List.nil_append] at h1
  have hbs : false :: r = coverRanges rs2 ++ tail := by rw [← h2]; simp [pend]
  unfold finalRanges
  split
  · rename_i hlast
    obtain ⟨ht, hg, ha⟩ := h3 hlast
    have s1 := rangeCountIncr_le (foldRanges 1 0 false cap0 [] r).ranges.length
    have s2 := (varintSize_le ((foldRanges 1 0 false cap0 [] r).gap - 1)).2
    have s3 := (varintSize_le ((foldRanges 1 0 false cap0 [] r).ack - 1)).2
    have s4 : GmQuic.Gen.ackLastSpare ≤ 1 := by decide
    rw [if_pos (by omega), h1, coverRanges_append]
    have e2 : ∀ n, 1 ≤ n → n - 1 + 1 = n := by omega
    simp only [coverRanges, e2 _ hg, e2 _ ha, List.append_nil]
    exact ⟨[], by rw [hbs, ht]; simp [pend], by simp⟩
  · rename_i hlast
    rw [h1]
    exact ⟨tail, hbs, h4 hb (by simpa using hlast)⟩

theorem covAt_append_false (c t : List Bool) (i : Nat) (ht : ∀ b ∈ t, b = false) (h : covAt (c ++ t) i = true) :
    covAt c i = true := by
  unfold covAt at *
  simp only [List.getD_eq_getElem?_getD] at *
  by_cases hi : i < c.length
  · rwa [List.getElem?_append_left hi] at h
  · exfalso
    rw [List.getElem?_append_right (by omega)] at h
    cases hx : t[i - c.length]? with
    | none => simp [hx] at h
    | some b =>
      have := ht b (List.mem_of_getElem? hx)
      simp [hx, this] at h

/-- generous room ⇒ the frame's cover is the whole scanned list up to a tail of untracked cells -/
theorem genFrame_complete (largest delay cap : Nat) (bs : List Bool) (f : AckFrame) (v : Nat)
    (h : genFrame largest delay cap bs = (.ok f, v)) (h0 : 1 ≤ leadTrue bs) (hroom : 47 + 21 * bs.length ≤ cap) :
    ∃ t, bs = cover f.first f.ranges ++ t ∧ ∀ b ∈ t, b = false := by
  obtain ⟨hs, hd, hl⟩ := leadTrue_split bs
  have hr : f.ranges = finalRanges (foldRanges 1 0 false
      (cap - (1 + varintSize largest + varintSize delay + varintSize (leadTrue bs - 1) + 1)) []
      (bs.drop (min (leadTrue bs + 1) bs.length))) ∧ f.first = leadTrue bs - 1 := by
    unfold genFrame at h
    simp only at h
    split at h
    · simp at h
    · simp only [Prod.mk.injEq, GenOut.ok.injEq] at h
      obtain ⟨h, -⟩ := h
      subst h
      exact ⟨rfl, rfl⟩
  have v1 := (varintSize_le largest).2
  have v2 := (varintSize_le delay).2
  have v3 := (varintSize_le (leadTrue bs - 1)).2
  rw [hr.1, hr.2]
  simp only [cover]
  have e1 : leadTrue bs - 1 + 1 = leadTrue bs := by omega
  rw [e1]
  generalize hn : leadTrue bs = n at *
  generalize hc0 : cap - (1 + varintSize largest + varintSize delay + varintSize (n - 1) + 1) = cap0
  have hcap0 : 21 * (bs.length + 1) ≤ cap0 := by omega
  rcases hd with hd | ⟨r, hd⟩
  · have hlen : bs.length = n := by
      have := congrArg List.length hs; simp [hd] at this; omega
    have hdrop : bs.drop (min (n + 1) bs.length) = [] := by
      apply List.drop_eq_nil_of_le; omega
    rw [hdrop]
    rw [hd] at hs; simp only [List.append_nil] at hs
    exact ⟨[], by simp [finalRanges, foldRanges, coverRanges, ← hs], by simp⟩
  · have hlen : n + 1 ≤ bs.length := by
      have := congrArg List.length hs; simp [hd] at this; omega
    have hlen2 : bs.length = n + 1 + r.length := by
      have := congrArg List.length hs; simp [hd] at this; omega
    have hdrop : bs.drop (min (n + 1) bs.length) = r := by
      rw [Nat.min_eq_left hlen, ← List.drop_drop, hd]; rfl
    rw [hdrop]
    obtain ⟨t, ht, hf⟩ := finalRanges_complete r cap0 (by omega)
    refine ⟨t, ?_, hf⟩
    rw [List.append_assoc, ← ht, ← hd]; exact hs

end GmQuic.RcvdJournal
