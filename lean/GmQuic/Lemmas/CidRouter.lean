import GmQuic.Model.Router
import GmQuic.Lemmas.CidLocal
/-! The shared router: table lemmas and the invariant behind `router_domain_is_active_ids`, `local_consecutive`,
`local_active_le_limit`. -/
namespace GmQuic.Cid
namespace Table

def WF (t : Table) : Prop := (t.map Prod.fst).Nodup

theorem lookup_cons (e : Cid × Nat) (t : Table) (c : Cid) :
    lookup (e :: t) c = if e.1 = c then some e.2 else lookup t c := by
  simp only [lookup, List.find?_cons]
  by_cases h : e.1 = c <;> simp [h]

theorem lookup_erase (t : Table) (c x : Cid) :
    lookup (erase t c) x = if x = c then none else lookup t x := by
  induction t with
  | nil => simp [erase, lookup]
  | cons e t ih =>
    simp only [erase] at ih ⊢
    by_cases h : e.1 = c
    · simp only [List.filter_cons, h, ne_eq, not_true_eq_false, decide_false, Bool.false_eq_true, ↓reduceIte, ih, lookup_cons]
      grind
    · simp only [List.filter_cons, h, ne_eq, not_false_eq_true, decide_true, ↓reduceIte, ih, lookup_cons]
      grind

theorem lookup_insert (t : Table) (c : Cid) (k : Nat) (x : Cid) :
    lookup (insert t c k) x = if x = c then some k else lookup t x := by
  simp only [insert, lookup_cons, lookup_erase]
  grind

theorem lookup_none_of_not_mem (t : Table) (c : Cid) (h : c ∉ t.map Prod.fst) : lookup t c = none := by
  induction t with
  | nil => rfl
  | cons e t ih => simp at h; simp [lookup_cons, ih, h]; grind

theorem lookup_removeIf (t : Table) (hw : WF t) (c : Cid) (k : Nat) (x : Cid) :
    lookup (removeIf t c k) x = if x = c ∧ lookup t c = some k then none else lookup t x := by
  induction t with
  | nil => simp [removeIf, lookup]
  | cons e t ih =>
    have hw' : WF t := by unfold WF at hw ⊢; simp at hw; exact hw.2
    have hne : e.1 ∉ t.map Prod.fst := by unfold WF at hw; simp at hw; simpa using hw.1
    have hl := lookup_none_of_not_mem t e.1 hne
    have ih := ih hw'
    simp only [removeIf] at ih ⊢
    by_cases h : e.1 = c ∧ e.2 = k
    · simp only [List.filter_cons, h, and_self, not_true_eq_false, decide_false, Bool.false_eq_true, ↓reduceIte, ih, lookup_cons]
      grind
    · simp only [List.filter_cons, h, not_false_eq_true, decide_true, ↓reduceIte, ih, lookup_cons]
      grind

theorem lookup_eraseAll (cs : List Cid) (t : Table) (x : Cid) :
    lookup (eraseAll t cs) x = if x ∈ cs then none else lookup t x := by
  induction cs generalizing t with
  | nil => simp [eraseAll]
  | cons c cs ih =>
    simp only [eraseAll, List.foldl_cons] at ih ⊢
    rw [ih, lookup_erase]
    grind

theorem wf_erase (t : Table) (c : Cid) (h : WF t) : WF (erase t c) := by
  unfold WF erase at *
  exact (List.Nodup.sublist ((List.filter_sublist).map _) h)

theorem wf_removeIf (t : Table) (c : Cid) (k : Nat) (h : WF t) : WF (removeIf t c k) := by
  unfold WF removeIf at *
  exact (List.Nodup.sublist ((List.filter_sublist).map _) h)

theorem wf_insert (t : Table) (c : Cid) (k : Nat) (h : WF t) : WF (insert t c k) := by
  have := wf_erase t c h
  unfold WF insert erase at *
  simp only [List.map_cons, List.nodup_cons]
  refine ⟨?_, this⟩
  simp [List.mem_filter]

theorem wf_eraseAll (cs : List Cid) (t : Table) (h : WF t) : WF (eraseAll t cs) := by
  induction cs generalizing t with
  | nil => simpa [eraseAll]
  | cons c cs ih => simp only [eraseAll, List.foldl_cons] at ih ⊢; exact ih _ (wf_erase t c h)

end Table

def OwnsC (cn : Conn) (c : Cid) : Prop := some c ∈ cn.loc.dq ∨ (cn.odcid = some c ∧ cn.olive = true)

/-- connection `k` currently owns id `c`: issued and unretired in its `LocalCids`, or its registered original DCID -/
def Owns (s : Sys) (k : Nat) (c : Cid) : Prop := ∃ cn, s.conns[k]? = some cn ∧ OwnsC cn c

theorem owns_iff {s : Sys} {k : Nat} {c : Conn} (hk : s.conns[k]? = some c) (x : Cid) :
    Owns s k x ↔ OwnsC c x := by
  unfold Owns; constructor
  · rintro ⟨cn, h1, h2⟩; rw [hk] at h1; cases h1; exact h2
  · intro h; exact ⟨c, hk, h⟩

structure CInv (next : Nat) (cn : Conn) : Prop where
  nodup : cn.loc.active.Nodup
  bound : ∀ n, some (Cid.gen n) ∈ cn.loc.dq → n < next
  od : ∀ c, cn.odcid = some c → some c ∉ cn.loc.dq ∧ ∀ n, c = .gen n → n < next
  largest : cn.loc.largest = cn.frames.length + 1
  seqs : cn.frames.map (·.seq) = List.range' 1 cn.frames.length
  act : cn.loc.active.length ≤ cn.loc.limit.getD 2
  lim : ∀ n, cn.loc.limit = some n → 2 ≤ n

theorem CInv.mono {next next' : Nat} {cn : Conn} (h : CInv next cn) (hn : next ≤ next') : CInv next' cn :=
  { h with
    bound := fun n hm => Nat.lt_of_lt_of_le (h.bound n hm) hn
    od := fun c hc => ⟨(h.od c hc).1, fun n e => Nat.lt_of_lt_of_le ((h.od c hc).2 n e) hn⟩ }

structure Inv (s : Sys) : Prop where
  wf : s.table.WF
  dom : ∀ (c : Cid) (k : Nat), s.table.lookup c = some k ↔ Owns s k c
  conn : ∀ (k : Nat) (cn : Conn), s.conns[k]? = some cn → CInv s.next cn

theorem mem_active (l : Local) (x : Cid) : x ∈ l.active ↔ some x ∈ l.dq := by
  simp [Local.active, List.mem_filterMap]

/-- nobody owns an id that has not been generated yet -/
theorem owns_fresh {s : Sys} (hconn : ∀ (k : Nat) (cn : Conn), s.conns[k]? = some cn → CInv s.next cn)
    (m : Nat) (hm : s.next ≤ m) (j : Nat) : ¬ Owns s j (.gen m) := by
  rintro ⟨cn, h1, h2⟩
  have hc := hconn j cn h1
  rcases h2 with h2 | h2
  · have := hc.bound m h2; omega
  · have := (hc.od _ h2.1).2 m rfl; omega

theorem Inv.fresh {s : Sys} (hi : Inv s) (m : Nat) (hm : s.next ≤ m) (j : Nat) : ¬ Owns s j (.gen m) :=
  owns_fresh hi.conn m hm j

theorem Inv.owner_unique {s : Sys} (hi : Inv s) {j k : Nat} {x : Cid} (h1 : Owns s j x) (h2 : Owns s k x) : j = k := by
  have a := (hi.dom x j).2 h1
  have b := (hi.dom x k).2 h2
  rw [a] at b; cases b; rfl

/-- replacing one connection's state -/
theorem inv_set {s : Sys} (hi : Inv s) {k : Nat} {c c' : Conn} (hk : s.conns[k]? = some c)
    {next' : Nat} (hn : s.next ≤ next') {t' : Table} (hwf : t'.WF) (hc' : CInv next' c')
    (hdom : ∀ x j, t'.lookup x = some j ↔ (if j = k then OwnsC c' x else Owns s j x)) :
    Inv { next := next', table := t', conns := s.conns.set k c' } := by
  have hlt : k < s.conns.length := by
    rcases Nat.lt_or_ge k s.conns.length with h | h
    · exact h
    · rw [List.getElem?_eq_none h] at hk; cases hk
  have hget : ∀ j, (s.conns.set k c')[j]? = if j = k then some c' else s.conns[j]? := by
    intro j
    rw [List.getElem?_set]
    by_cases h : k = j
    · subst h; simp [hlt]
    · have : ¬ j = k := fun e => h e.symm
      simp [h, this]
  refine ⟨hwf, ?_, ?_⟩
  · intro x j
    rw [hdom x j]
    unfold Owns
    simp only [hget]
    by_cases h : j = k
    · simp [h]
    · simp [h]
  · intro j cn hj
    simp only [hget] at hj
    by_cases h : j = k
    · simp [h] at hj; subst hj; exact hc'
    · simp [h] at hj; exact (hi.conn j cn hj).mono hn

theorem lookup_insertAll (fs : List NewCid) (t : Table) (k : Nat) (x : Cid) :
    (Sys.insertAll t k fs).lookup x = if x ∈ fs.map (·.cid) then some k else t.lookup x := by
  induction fs generalizing t with
  | nil => simp [Sys.insertAll]
  | cons f fs ih =>
    simp only [Sys.insertAll, List.foldl_cons] at ih ⊢
    rw [ih, Table.lookup_insert]
    simp only [List.map_cons, List.mem_cons]
    grind

theorem wf_insertAll (fs : List NewCid) (t : Table) (k : Nat) (h : t.WF) : (Sys.insertAll t k fs).WF := by
  induction fs generalizing t with
  | nil => simpa [Sys.insertAll]
  | cons f fs ih => simp only [Sys.insertAll, List.foldl_cons] at ih ⊢; exact ih _ (Table.wf_insert t _ k h)


/-- a change of fields that neither routing nor the id bookkeeping looks at -/
theorem inv_set_same {s : Sys} (hi : Inv s) {k : Nat} {c : Conn} (hk : s.conns[k]? = some c) (c' : Conn)
    (h1 : c'.loc = c.loc) (h2 : c'.odcid = c.odcid) (h3 : c'.frames = c.frames) (h4 : c'.olive = c.olive) :
    Inv { next := s.next, table := s.table, conns := s.conns.set k c' } := by
  have hc := hi.conn k c hk
  apply inv_set hi hk (Nat.le_refl _) hi.wf
  · exact ⟨by rw [h1]; exact hc.nodup, by rw [h1]; exact hc.bound, by rw [h1, h2]; exact hc.od,
      by rw [h1, h3]; exact hc.largest, by rw [h3]; exact hc.seqs, by rw [h1]; exact hc.act, by rw [h1]; exact hc.lim⟩
  · intro x j
    rw [hi.dom x j]
    by_cases h : j = k
    · subst h; simp only [if_true]; rw [owns_iff hk]; unfold OwnsC; rw [h1, h2, h4]
    · simp [h]

theorem nodup_map_gen (l : List Nat) (h : l.Nodup) : (l.map Cid.gen).Nodup := by
  induction l with
  | nil => simp
  | cons a t ih =>
    simp only [List.nodup_cons, List.map_cons, List.mem_map] at h ⊢
    refine ⟨?_, ih h.2⟩
    rintro ⟨b, hb, e⟩
    cases e; exact h.1 hb

def odInsert (t : Table) (od : Option Cid) (k : Nat) : Table :=
  match od with | some c => t.insert c k | none => t

theorem lookup_odInsert (t : Table) (od : Option Cid) (k : Nat) (x : Cid) :
    (odInsert t od k).lookup x = if od = some x then some k else t.lookup x := by
  cases od with
  | none => simp [odInsert]
  | some c => simp only [odInsert, Table.lookup_insert, Option.some.injEq]; grind

theorem wf_odInsert (t : Table) (od : Option Cid) (k : Nat) (h : t.WF) : (odInsert t od k).WF := by
  cases od with
  | none => exact h
  | some c => exact Table.wf_insert _ _ _ h

theorem inv_setLimit {s : Sys} (hi : Inv s) {k : Nat} {c : Conn} (hk : s.conns[k]? = some c)
    {n : Nat} {l : Local} {fs : List NewCid} (h : c.loc.setLimit s.next n = .ok l fs) :
    Inv { next := s.next + fs.length, table := Sys.insertAll s.table k fs,
          conns := s.conns.set k { c with loc := l, frames := c.frames ++ fs } } := by
  have hc := hi.conn k c hk
  obtain ⟨hlim, hn2, hl', hdq, hact, hlar, _, hseq, hcid, hlen⟩ := Local.setLimit_ok h
  have hmem : ∀ x, some x ∈ l.dq ↔ (some x ∈ c.loc.dq ∨ ∃ i, s.next ≤ i ∧ i < s.next + fs.length ∧ x = .gen i) := by
    intro x
    rw [hdq]
    simp only [List.mem_append, List.mem_map, List.mem_range'_1, Option.some.injEq]
    constructor
    · rintro (h | ⟨i, hi, rfl⟩)
      · exact Or.inl h
      · exact Or.inr ⟨i, hi.1, hi.2, rfl⟩
    · rintro (h | ⟨i, h1, h2, rfl⟩)
      · exact Or.inl h
      · exact Or.inr ⟨i, ⟨h1, h2⟩, rfl⟩
  apply inv_set hi hk (Nat.le_add_right _ _) (wf_insertAll _ _ _ hi.wf)
  · refine ⟨?_, ?_, ?_, ?_, ?_, ?_, ?_⟩
    · show l.active.Nodup
      rw [hact, List.nodup_append]
      refine ⟨hc.nodup, ?_, ?_⟩
      · exact nodup_map_gen _ (List.nodup_range' (step := 1) (by omega))
      · intro a ha b hb
        simp only [List.mem_map, List.mem_range'_1] at hb
        obtain ⟨i, hi1, rfl⟩ := hb
        intro e; subst e
        have := hc.bound i ((mem_active _ _).1 ha)
        omega
    · intro m hm
      rcases (hmem _).1 hm with h | ⟨i, _, h2, e⟩
      · have := hc.bound m h; omega
      · cases e; exact h2
    · intro x hx
      have ho := hc.od x hx
      refine ⟨?_, fun m e => by have := ho.2 m e; omega⟩
      intro hm
      rcases (hmem _).1 hm with h | ⟨i, h1, _, e⟩
      · exact ho.1 h
      · have := ho.2 i e; omega
    · show l.largest = (c.frames ++ fs).length + 1
      rw [hlar, hc.largest, List.length_append]; omega
    · show (c.frames ++ fs).map (·.seq) = List.range' 1 (c.frames ++ fs).length
      rw [List.map_append, hc.seqs, hseq, hc.largest, List.length_append, ← Local.range'_app]
      congr 2; omega
    · show l.active.length ≤ l.limit.getD 2
      rw [hact, hl', List.length_append, List.length_map, List.length_range']
      have h1 := Local.active_le_largest c.loc
      have h2 := hc.act
      rw [hlim] at h2
      simp only [Option.getD_some, Option.getD_none] at h2 ⊢
      omega
    · intro m hm
      show 2 ≤ m
      rw [hl'] at hm; cases hm; exact hn2
  · intro x j
    rw [lookup_insertAll, hcid]
    by_cases hx : x ∈ (List.range' s.next fs.length).map Cid.gen
    · simp only [hx, if_true]
      simp only [List.mem_map, List.mem_range'_1] at hx
      obtain ⟨i, hi1, rfl⟩ := hx
      by_cases hj : j = k
      · subst hj
        simp only [if_true, true_iff]
        exact Or.inl ((hmem _).2 (Or.inr ⟨i, hi1.1, hi1.2, rfl⟩))
      · simp only [hj, if_false]
        constructor
        · intro e; cases e; exact absurd rfl hj
        · intro ho; exact absurd ho (hi.fresh i hi1.1 j)
    · simp only [hx, if_false]
      rw [hi.dom x j]
      by_cases hj : j = k
      · subst hj
        simp only [if_true]
        rw [owns_iff hk]
        unfold OwnsC
        show some x ∈ c.loc.dq ∨ (c.odcid = some x ∧ c.olive = true) ↔ some x ∈ l.dq ∨ (c.odcid = some x ∧ c.olive = true)
        rw [hmem]
        constructor
        · rintro (h | h); exact Or.inl (Or.inl h); exact Or.inr h
        · rintro ((h | ⟨i, h1, h2, rfl⟩) | h)
          · exact Or.inl h
          · exact absurd (List.mem_map.2 ⟨i, List.mem_range'_1.2 ⟨h1, h2⟩, rfl⟩) hx
          · exact Or.inr h
      · simp [hj]

theorem inv_retire {s : Sys} (hi : Inv s) {k : Nat} {c : Conn} (hk : s.conns[k]? = some c)
    {seq : Nat} {l : Local} {old : Cid} {f : NewCid} (h : c.loc.retire seq (.gen s.next) = .retired l old f) :
    Inv { next := s.next + 1, table := (s.table.insert f.cid k).erase old,
          conns := s.conns.set k { c with loc := l, frames := c.frames ++ [f] } } := by
  have hc := hi.conn k c hk
  obtain ⟨hfseq, hfcid⟩ := Local.retire_frame h
  have hold := Local.retire_old_active h
  have hfresh : some (Cid.gen s.next) ∉ c.loc.dq := fun hm => by have := hc.bound _ hm; omega
  have hmem := Local.retire_mem h hc.nodup
  have hne : old ≠ Cid.gen s.next := fun e => hfresh (e ▸ hold)
  have holdk : Owns s k old := (owns_iff hk old).2 (Or.inl hold)
  apply inv_set hi hk (Nat.le_add_right _ _) (Table.wf_erase _ _ (Table.wf_insert _ _ _ hi.wf))
  · refine ⟨Local.retire_active_nodup h hc.nodup hfresh, ?_, ?_, ?_, ?_, ?_, ?_⟩
    · intro m hm
      rcases (hmem _).1 hm with e | ⟨h1, _⟩
      · cases e; omega
      · have := hc.bound m h1; omega
    · intro x hx
      have ho := hc.od x hx
      refine ⟨?_, fun m e => by have := ho.2 m e; omega⟩
      intro hm
      rcases (hmem _).1 hm with e | ⟨h1, _⟩
      · have := ho.2 s.next e; omega
      · exact ho.1 h1
    · show l.largest = (c.frames ++ [f]).length + 1
      rw [Local.retire_largest h, hc.largest, List.length_append]; simp
    · show (c.frames ++ [f]).map (·.seq) = List.range' 1 (c.frames ++ [f]).length
      rw [List.map_append, hc.seqs, List.length_append, ← Local.range'_app]
      simp [hfseq, hc.largest]; omega
    · show l.active.length ≤ l.limit.getD 2
      rw [Local.retire_active_length h, (Local.retire_retired h).2.2.2.2.2.2]; exact hc.act
    · intro m hm
      rw [(Local.retire_retired h).2.2.2.2.2.2] at hm; exact hc.lim m hm
  · intro x j
    rw [Table.lookup_erase, Table.lookup_insert, hfcid]
    show _ ↔ if j = k then (some x ∈ l.dq ∨ (c.odcid = some x ∧ c.olive = true)) else Owns s j x
    rw [hmem]
    by_cases hxo : x = old
    · subst hxo
      simp only [if_true]
      constructor
      · intro e; cases e
      · intro hh
        by_cases hj : j = k
        · subst hj
          simp only [if_true] at hh
          rcases hh with (e | ⟨_, e⟩) | e
          · exact absurd e hne
          · exact absurd rfl e
          · exact absurd hold (hc.od _ e.1).1
        · simp only [hj, if_false] at hh
          exact absurd (hi.owner_unique hh holdk) hj
    · simp only [hxo, if_false]
      by_cases hxn : x = Cid.gen s.next
      · subst hxn
        simp only [if_true]
        by_cases hj : j = k
        · subst hj; simp
        · simp only [hj, if_false]
          constructor
          · intro e; cases e; exact absurd rfl hj
          · intro ho; exact absurd ho (hi.fresh _ (Nat.le_refl _) j)
      · simp only [hxn, if_false]
        rw [hi.dom x j]
        by_cases hj : j = k
        · subst hj
          simp only [if_true]
          rw [owns_iff hk]
          unfold OwnsC
          simp [hxo]
        · simp [hj]

theorem inv_clear {s : Sys} (hi : Inv s) {k : Nat} {c : Conn} (hk : s.conns[k]? = some c) (c' : Conn)
    (h1 : c'.loc = c.loc.clear.1) (h2 : c'.odcid = c.odcid) (h3 : c'.frames = c.frames) (h4 : c'.olive = c.olive) :
    Inv { next := s.next, table := s.table.eraseAll c.loc.clear.2, conns := s.conns.set k c' } := by
  have hc := hi.conn k c hk
  apply inv_set hi hk (Nat.le_refl _) (Table.wf_eraseAll _ _ hi.wf)
  · refine ⟨by rw [h1]; simp [Local.active, Local.clear], by rw [h1]; simp [Local.clear], ?_, ?_, by rw [h3]; exact hc.seqs,
      by rw [h1]; simp [Local.active, Local.clear], by rw [h1]; exact hc.lim⟩
    · intro x hx
      rw [h2] at hx
      rw [h1]
      exact ⟨by simp [Local.clear], (hc.od x hx).2⟩
    · rw [h1, h3, Local.clear_largest]; exact hc.largest
  · intro x j
    rw [Table.lookup_eraseAll]
    show _ ↔ if j = k then OwnsC c' x else Owns s j x
    have hcl : c.loc.clear.2 = c.loc.active := rfl
    simp only [hcl, mem_active]
    have hoc : OwnsC c' x ↔ (c.odcid = some x ∧ c.olive = true) := by unfold OwnsC; rw [h1, h2, h4]; simp [Local.clear]
    by_cases hx : some x ∈ c.loc.dq
    · simp only [hx, if_true]
      have hxk : Owns s k x := (owns_iff hk x).2 (Or.inl hx)
      constructor
      · intro e; cases e
      · intro hh
        by_cases hj : j = k
        · subst hj
          simp only [if_true] at hh
          exact absurd hx (hc.od _ (hoc.1 hh).1).1
        · simp only [hj, if_false] at hh
          exact absurd (hi.owner_unique hh hxk) hj
    · simp only [hx, if_false]
      rw [hi.dom x j]
      by_cases hj : j = k
      · subst hj
        simp only [if_true]
        rw [owns_iff hk, hoc]
        unfold OwnsC
        simp [hx]
      · simp [hj]

theorem inv_dropOdcid {s : Sys} (hi : Inv s) {k : Nat} {c : Conn} (hk : s.conns[k]? = some c) {od : Cid}
    (hod : c.odcid = some od) :
    Inv { next := s.next, table := s.table.removeIf od k, conns := s.conns.set k { c with odcid := none } } := by
  have hc := hi.conn k c hk
  have hnd : some od ∉ c.loc.dq := (hc.od _ hod).1
  apply inv_set hi hk (Nat.le_refl _) (Table.wf_removeIf _ _ _ hi.wf)
  · exact ⟨hc.nodup, hc.bound, (by intro x hx; cases hx), hc.largest, hc.seqs, hc.act, hc.lim⟩
  · intro x j
    rw [Table.lookup_removeIf _ hi.wf]
    show _ ↔ if j = k then (some x ∈ c.loc.dq ∨ (none = some x ∧ c.olive = true)) else Owns s j x
    by_cases hx : x = od
    · subst hx
      by_cases hl : s.table.lookup x = some k
      · -- the entry still owns the route: it is removed
        have hodk : Owns s k x := (hi.dom x k).1 hl
        simp only [hl, and_self, if_true]
        constructor
        · intro e; cases e
        · intro hh
          by_cases hj : j = k
          · subst hj
            simp only [if_true] at hh
            rcases hh with h | ⟨h, _⟩
            · exact absurd h hnd
            · cases h
          · simp only [hj, if_false] at hh
            exact absurd (hi.owner_unique hh hodk) hj
      · -- superseded entry (another connection re-registered the signpost): `remove_if` leaves the table alone
        simp only [hl, and_false, if_false]
        rw [hi.dom x j]
        by_cases hj : j = k
        · subst hj
          simp only [if_true]
          constructor
          · intro ho; exact absurd ((hi.dom x j).2 ho) hl
          · rintro (h | ⟨h, _⟩)
            · exact absurd h hnd
            · cases h
        · simp [hj]
    · simp only [hx, false_and, if_false]
      rw [hi.dom x j]
      by_cases hj : j = k
      · subst hj
        simp only [if_true]
        rw [owns_iff hk]
        unfold OwnsC
        rw [hod]
        constructor
        · rintro (h | ⟨h, _⟩)
          · exact Or.inl h
          · cases h; exact absurd rfl hx
        · rintro (h | ⟨h, _⟩)
          · exact Or.inl h
          · cases h
      · simp [hj]

/-- `Inv` with the table entry of one signpost left open: the state between "another connection's entry for `od` has lost
its route" and "the new connection has registered `od`" -/
structure InvX (od : Option Cid) (s : Sys) : Prop where
  wf : s.table.WF
  dom : ∀ (c : Cid) (k : Nat), od ≠ some c → (s.table.lookup c = some k ↔ Owns s k c)
  conn : ∀ (k : Nat) (cn : Conn), s.conns[k]? = some cn → CInv s.next cn
  free : ∀ c, od = some c → (∀ j, ¬ Owns s j c) ∧ ∀ n, c = .gen n → n < s.next

theorem inv_conn_core {s : Sys} (od : Option Cid) (hi : InvX od s) :
    Inv { next := s.next + 2,
             table := Table.insert (odInsert (Table.insert s.table (.gen s.next) s.conns.length) od s.conns.length)
                        (.gen (s.next + 1)) s.conns.length,
             conns := s.conns ++ [{ loc := { off := 0, dq := [some (.gen s.next), some (.gen (s.next + 1))], limit := none },
                                    poisoned := false, dropped := false, odcid := od, olive := true,
                                    frames := [{ seq := 1, rpt := 0, cid := .gen (s.next + 1) }] }] } := by
  have hget : ∀ (cn : Conn) (j : Nat), (s.conns ++ [cn])[j]? = if j = s.conns.length then some cn else s.conns[j]? := by
    intro cn j
    rcases Nat.lt_trichotomy j s.conns.length with h | h | h
    · rw [List.getElem?_append_left h]; simp [Nat.ne_of_lt h]
    · subst h; simp
    · rw [List.getElem?_append_right (Nat.le_of_lt h)]
      have : j - s.conns.length ≠ 0 := by omega
      simp [Nat.ne_of_gt h, List.getElem?_eq_none (Nat.le_of_lt h)]
      cases hh : j - s.conns.length with
      | zero => exact absurd hh this
      | succ m => simp
  have hnone : ∀ x, ¬ Owns s s.conns.length x := by
    rintro x ⟨cn, h1, _⟩
    rw [List.getElem?_eq_none (Nat.le_refl _)] at h1; cases h1
  have hod_notowned : ∀ c, od = some c → ∀ j, ¬ Owns s j c := fun c hc => (hi.free c hc).1
  refine ⟨?_, ?_, ?_⟩
  · exact Table.wf_insert _ _ _ (wf_odInsert _ _ _ (Table.wf_insert _ _ _ hi.wf))
  · intro x j
    have hl : Table.lookup (Table.insert (odInsert (Table.insert s.table (Cid.gen s.next) s.conns.length) od s.conns.length) (Cid.gen (s.next + 1)) s.conns.length) x
        = if x = Cid.gen (s.next + 1) ∨ od = some x ∨ x = Cid.gen s.next then some s.conns.length else s.table.lookup x := by
      simp only [Table.lookup_insert, lookup_odInsert]; grind
    show Table.lookup (Table.insert (odInsert (Table.insert s.table (Cid.gen s.next) s.conns.length) od s.conns.length) (Cid.gen (s.next + 1)) s.conns.length) x = some j ↔ _
    rw [hl]
    unfold Owns
    simp only [hget]
    by_cases hj : j = s.conns.length
    · subst hj
      simp only [if_true, Option.some.injEq, exists_eq_left']
      unfold OwnsC
      simp only [List.mem_cons, Option.some.injEq, List.not_mem_nil, or_false]
      have := hnone x
      constructor
      · intro h
        split at h
        · rename_i hc; rcases hc with h1 | h1 | h1
          · exact Or.inl (Or.inr h1)
          · exact Or.inr ⟨h1, trivial⟩
          · exact Or.inl (Or.inl h1)
        · rename_i hc
          exact absurd ((hi.dom x s.conns.length (fun e => hc (Or.inr (Or.inl e)))).1 h) this
      · intro h
        have : x = Cid.gen (s.next + 1) ∨ od = some x ∨ x = Cid.gen s.next := by
          rcases h with (h | h) | ⟨h, _⟩
          · exact Or.inr (Or.inr h)
          · exact Or.inl h
          · exact Or.inr (Or.inl h)
        simp [this]
    · simp only [hj, if_false]
      constructor
      · intro h
        split at h
        · cases h; exact absurd rfl hj
        · rename_i hc
          exact (hi.dom x j (fun e => hc (Or.inr (Or.inl e)))).1 h
      · intro ho
        have hne : ¬ (x = Cid.gen (s.next + 1) ∨ od = some x ∨ x = Cid.gen s.next) := by
          rintro (h | h | h)
          · subst h; exact owns_fresh hi.conn _ (by omega) j ho
          · exact hod_notowned x h j ho
          · subst h; exact owns_fresh hi.conn _ (Nat.le_refl _) j ho
        simp only [hne, if_false]
        exact (hi.dom x j (fun e => hne (Or.inr (Or.inl e)))).2 ho
  · intro j cn hj
    show CInv (s.next + 2) cn
    simp only [hget] at hj
    by_cases h : j = s.conns.length
    · simp only [h, if_true, Option.some.injEq] at hj
      subst hj
      refine ⟨?_, ?_, ?_, ?_, ?_, ?_, ?_⟩
      · simp [Local.active]
      · intro m hm; simp at hm; omega
      · intro x hx
        simp only at hx
        have := (hi.free x hx).2
        refine ⟨?_, fun m e => by have := this m e; omega⟩
        simp only [List.mem_cons, Option.some.injEq, List.not_mem_nil, or_false]
        rintro (e | e)
        · have := this _ e; omega
        · have := this _ e; omega
      · simp [Local.largest]
      · simp
      · simp [Local.active]
      · intro m hm; cases hm
    · simp only [h, if_false] at hj
      exact (hi.conn j cn hj).mono (by omega)

/-- the only hypothesis on histories: the original DCID a new server connection registers is not an id that some connection
has issued and not retired (it was chosen by a client; `QuicRouter::deliver` creates a connection only for a packet that
found no entry) and, if it is a generated name, it has already been generated.  It MAY be a signpost that another
connection registered the same way and still holds the entry of: `QuicRouter::insert` then takes the route over. -/
def OdcidNotIssued (s : Sys) : Op → Prop
  | .conn (some c) => (∀ cn ∈ s.conns, some c ∉ cn.loc.dq) ∧ (∀ n, c = .gen n → n < s.next)
  | _ => True

theorem ownsC_supersede_ne (c x : Cid) (cn : Conn) (h : x ≠ c) : OwnsC (Sys.supersedeC c cn) x ↔ OwnsC cn x := by
  unfold OwnsC Sys.supersedeC
  split
  · rename_i h1
    simp only
    constructor
    · rintro (a | ⟨_, b⟩)
      · exact Or.inl a
      · cases b
    · rintro (a | ⟨a, _⟩)
      · exact Or.inl a
      · rw [h1] at a; cases a; exact absurd rfl h
  · exact Iff.rfl

theorem not_ownsC_supersede (c : Cid) (cn : Conn) (h : some c ∉ cn.loc.dq) : ¬ OwnsC (Sys.supersedeC c cn) c := by
  unfold OwnsC Sys.supersedeC
  split
  · rintro (a | ⟨_, b⟩)
    · exact h a
    · cases b
  · rename_i h1
    rintro (a | ⟨a, _⟩)
    · exact h a
    · exact h1 a

theorem cinv_supersede (c : Cid) (cn : Conn) (next : Nat) (h : CInv next cn) : CInv next (Sys.supersedeC c cn) := by
  unfold Sys.supersedeC
  split
  · exact ⟨h.nodup, h.bound, h.od, h.largest, h.seqs, h.act, h.lim⟩
  · exact h

theorem invx_supersede {s : Sys} (hi : Inv s) (od : Option Cid) (hf : OdcidNotIssued s (.conn od)) :
    InvX od (Sys.supersede s od) := by
  cases od with
  | none => exact ⟨hi.wf, fun c k _ => hi.dom c k, hi.conn, fun c h => by cases h⟩
  | some c =>
    have hget : ∀ j : Nat, (Sys.supersede s (some c)).conns[j]? = (s.conns[j]?).map (Sys.supersedeC c) := by
      intro j; show (s.conns.map _)[j]? = _; exact List.getElem?_map
    refine ⟨hi.wf, ?_, ?_, ?_⟩
    · intro x k hne
      have hx : x ≠ c := fun e => hne (by rw [e])
      show s.table.lookup x = some k ↔ _
      rw [hi.dom x k]
      unfold Owns
      rw [hget]
      constructor
      · rintro ⟨cn, h1, h2⟩
        exact ⟨_, by rw [h1]; rfl, (ownsC_supersede_ne c x cn hx).2 h2⟩
      · rintro ⟨cn', h1, h2⟩
        cases hk : s.conns[k]? with
        | none => rw [hk] at h1; cases h1
        | some cn =>
          rw [hk] at h1
          simp only [Option.map_some, Option.some.injEq] at h1
          subst h1
          exact ⟨cn, rfl, (ownsC_supersede_ne c x cn hx).1 h2⟩
    · intro k cn' h1
      rw [hget] at h1
      cases hk : s.conns[k]? with
      | none => rw [hk] at h1; cases h1
      | some cn =>
        rw [hk] at h1
        simp only [Option.map_some, Option.some.injEq] at h1
        subst h1
        exact cinv_supersede c cn _ (hi.conn k cn hk)
    · intro x hx
      cases hx
      refine ⟨?_, hf.2⟩
      rintro j ⟨cn', h1, h2⟩
      rw [hget] at h1
      cases hk : s.conns[j]? with
      | none => rw [hk] at h1; cases h1
      | some cn =>
        rw [hk] at h1
        simp only [Option.map_some, Option.some.injEq] at h1
        subst h1
        exact not_ownsC_supersede c cn (hf.1 cn (List.mem_of_getElem? hk)) h2

theorem inv_conn {s : Sys} (hi : Inv s) (od : Option Cid) (hf : OdcidNotIssued s (.conn od)) :
    Inv (s.step (.conn od)).1 := by
  have h := inv_conn_core od (invx_supersede hi od hf)
  have hlen : (Sys.supersede s od).conns.length = s.conns.length := by
    cases od with
    | none => rfl
    | some c => show (s.conns.map _).length = _; simp
  exact h

theorem inv_step {s : Sys} (hi : Inv s) (o : Op) (hf : OdcidNotIssued s o) : Inv (s.step o).1 := by
  cases o with
  | conn od => exact inv_conn hi od hf
  | setLimit k n =>
    simp only [Sys.step]
    split
    · exact hi
    · rename_i c hk
      split; · exact hi
      split; · exact hi
      split
      · exact inv_set_same hi hk _ rfl rfl rfl rfl
      · exact hi
      · rename_i l fs hsl; exact inv_setLimit hi hk hsl
  | retire k seq =>
    simp only [Sys.step]
    split
    · exact hi
    · rename_i c hk
      split; · exact hi
      split; · exact hi
      split
      · exact hi
      · exact hi
      · rename_i l old f hr; exact inv_retire hi hk hr
  | clear k =>
    simp only [Sys.step]
    split
    · exact hi
    · rename_i c hk
      split; · exact hi
      split; · exact hi
      exact inv_clear hi hk _ rfl rfl rfl rfl
  | drop k =>
    simp only [Sys.step]
    split
    · exact hi
    · rename_i c hk
      split; · exact hi
      exact inv_clear hi hk _ rfl rfl rfl rfl
  | dropOdcid k =>
    simp only [Sys.step]
    split
    · exact hi
    · rename_i c hk
      split
      · exact hi
      · rename_i od hod; exact inv_dropOdcid hi hk hod
  | relQueue k =>
    simp only [Sys.step]
    split <;> exact hi
  | route c => exact hi

theorem inv_init : Inv Sys.init := by
  refine ⟨by simp [Sys.init, Table.WF], ?_, ?_⟩
  · intro c k; simp [Sys.init, Table.lookup, Owns]
  · intro k cn h; simp [Sys.init] at h

/-- every connection-creating op of the history is fresh at its own moment -/
def Hist : Sys → List Op → Prop
  | _, [] => True
  | s, o :: rest => OdcidNotIssued s o ∧ Hist (s.step o).1 rest

def Sys.runFrom (s : Sys) (ops : List Op) : Sys := ops.foldl (fun s o => (s.step o).1) s

theorem inv_runFrom (ops : List Op) : ∀ (s : Sys), Inv s → Hist s ops → Inv (s.runFrom ops) := by
  induction ops with
  | nil => intro s hi _; exact hi
  | cons o rest ih =>
    intro s hi hh
    exact ih _ (inv_step hi o hh.1) hh.2

theorem inv_run (ops : List Op) (h : Hist Sys.init ops) : Inv (Sys.run ops) :=
  inv_runFrom ops Sys.init inv_init h

end GmQuic.Cid
