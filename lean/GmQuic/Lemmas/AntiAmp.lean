import GmQuic.Model.AntiAmp
/-! Closed forms of the `AntiAmplifier` methods (run-to-completion of their frames) and bounds on the
burst rule. -/
namespace GmQuic.AntiAmp

theorem onRcvd_eq (a : AA) (n : Nat) :
    a.onRcvd n =
      if a.state = .normal then
        (if n * N < U then ((a.fetchAdd (n * N)).wake, .unit) else (a, .panic))
      else (a, .unit) := by
  by_cases h : a.state = .normal
  · by_cases h2 : n * N < U <;> simp [AA.onRcvd, Frame.run, Frame.step, h, h2]
  · simp [AA.onRcvd, Frame.run, Frame.step, h]

theorem onSent_eq (a : AA) (n : Nat) :
    a.onSent n = if a.state = .normal then a.fetchSub n else a := by
  by_cases h : a.state = .normal <;> simp [AA.onSent, Frame.run, Frame.step, h]

theorem grant_eq (a : AA) :
    a.grant = if a.state = .normal then { a with state := .granted, sig := true } else a := by
  by_cases h : a.state = .normal <;> simp [AA.grant, Frame.run, Frame.step, AA.cas, AA.wake, h]

theorem abort_eq (a : AA) :
    a.abort = if a.state = .normal then { a with state := .aborted, sig := true } else a := by
  by_cases h : a.state = .normal <;> simp [AA.abort, Frame.run, Frame.step, AA.cas, AA.wake, h]

theorem balance_eq (a : AA) :
    a.balance =
      match a.state with
      | .granted => (a, .unlimited)
      | .aborted => (a, .deactivated)
      | .normal => if a.credit = 0 then (a, .wait) else (a, .some a.credit) := by
  cases hs : a.state
  · by_cases hc : a.credit = 0 <;> simp [AA.balance, Frame.run, Frame.step, hs, hc]
  · simp [AA.balance, Frame.run, Frame.step, hs]
  · simp [AA.balance, Frame.run, Frame.step, hs]

end GmQuic.AntiAmp

namespace GmQuic.AntiAmp

theorem loadPkts_snd (c : Cons) (rem : Nat) (w : Nat × Bool) (ws : List (Nat × Bool)) :
    (loadPkts c rem (w :: ws)).2 =
      min w.1 (c.constrain rem) +
        (loadPkts (c.commit (min w.1 (c.constrain rem)) w.2) (rem - min w.1 (c.constrain rem)) ws).2 := by
  obtain ⟨w, fl⟩ := w
  simp [loadPkts]

theorem loadPkts_le (c : Cons) (rem : Nat) (ws : List (Nat × Bool)) :
    (loadPkts c rem ws).2 ≤ rem ∧ (loadPkts c rem ws).2 ≤ c.credit := by
  induction ws generalizing c rem with
  | nil => simp [loadPkts]
  | cons w ws ih =>
    rw [loadPkts_snd]
    have := ih (c.commit (min w.1 (c.constrain rem)) w.2) (rem - min w.1 (c.constrain rem))
    simp only [Cons.commit, Cons.constrain] at this ⊢
    omega

/-- Conditions under which the burst rule `r` keeps one segment within the credit. -/
def SegOk (r : Rule) (s : Seg) : Prop :=
  (r.carry = true ∨ s.rev = 0) ∧ (r.capPad = true ∨ s.initial.1 = 0)

theorem segLen_le (r : Rule) (c spent : Nat) (s : Seg) (h : SegOk r s)
    (hs : r.carry = false → spent = 0) : segLen r c spent s ≤ c - spent := by
  obtain ⟨h1, h2⟩ := h
  unfold segLen
  generalize hl : (if r.carry = true then c - (spent + s.rev) else c) = limit
  have hlim : s.rev + limit ≤ c - spent ∨ limit = 0 := by
    cases hc : r.carry
    · have := hs hc; simp [hc] at hl h1; omega
    · simp [hc] at hl; omega
  simp only []
  split
  · omega
  · generalize hz : min s.initial.1 (Cons.constrain ⟨limit, s.quota⟩ s.buf) = szI
    have hszI : szI ≤ limit ∧ szI ≤ s.buf ∧ szI ≤ s.initial.1 := by
      simp only [Cons.constrain] at hz; omega
    have hp := loadPkts_le (Cons.commit ⟨limit, s.quota⟩ szI s.initial.2) (s.buf - szI) s.rest
    generalize (loadPkts (Cons.commit ⟨limit, s.quota⟩ szI s.initial.2) (s.buf - szI) s.rest) = pr at hp
    obtain ⟨c', rest⟩ := pr
    simp only [Cons.commit] at hp
    simp only []
    have hfb : min s.fallback (Cons.constrain ⟨limit, s.quota⟩ s.buf) ≤ limit := by
      simp only [Cons.constrain]; omega
    generalize min s.fallback (Cons.constrain ⟨limit, s.quota⟩ s.buf) = fb at hfb
    have hlen : (if szI > 0 then (if r.capPad = true then max (szI + rest) (min s.buf limit) else s.buf)
        else if szI + rest > 0 then szI + rest else fb) ≤ limit := by
      split
      · cases hcp : r.capPad
        · simp [hcp] at h2; omega
        · simp; omega
      · split <;> omega
    generalize (if szI > 0 then (if r.capPad = true then max (szI + rest) (min s.buf limit) else s.buf)
        else if szI + rest > 0 then szI + rest else fb) = len at hlen
    split <;> omega

theorem burstLens_sum_carry (r : Rule) (hc : r.carry = true) (segs : List Seg)
    (hok : ∀ s ∈ segs, SegOk r s) (c spent last : Nat) :
    (burstLens r c spent last segs).sum ≤ c - spent := by
  induction segs generalizing spent last with
  | nil => simp [burstLens]
  | cons s ss ih =>
    have hl := segLen_le r c spent s (hok s (by simp)) (by simp [hc])
    have ih' := ih (fun x hx => hok x (by simp [hx])) (spent + segLen r c spent s) (segLen r c spent s)
    simp only [burstLens]
    split
    · simp
    · split
      · simp; omega
      · simp only [List.sum_cons]; omega

def BurstOk (r : Rule) (segs : List Seg) : Prop :=
  (∀ s ∈ segs, SegOk r s) ∧ (r.carry = true ∨ segs.length ≤ 1)

theorem burstLens_sum_le (r : Rule) (segs : List Seg) (h : BurstOk r segs) (c : Nat) :
    (burstLens r c 0 0 segs).sum ≤ c := by
  obtain ⟨h1, h2⟩ := h
  cases hc : r.carry
  · simp [hc] at h2
    match segs, h1, h2 with
    | [], _, _ => simp [burstLens]
    | [s], h1, _ =>
      have hl := segLen_le r c 0 s (h1 s (by simp)) (by simp)
      simp only [burstLens]
      split
      · simp
      · split <;> simp <;> omega
    | _ :: _ :: _, _, h2 => simp at h2
  · have := burstLens_sum_carry r hc segs h1 c 0 0
    omega

end GmQuic.AntiAmp
