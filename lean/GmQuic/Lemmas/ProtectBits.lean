import GmQuic.Model.Protect
/-! Byte-level facts used by C06 (first-byte bit fields, XOR masks). Core only. -/
namespace GmQuic.Protect

theorem u8_xor_and (a b c : UInt8) : (a ^^^ b) &&& c = (a &&& c) ^^^ (b &&& c) := by
  apply UInt8.toBitVec_inj.mp
  simp only [UInt8.toBitVec_xor, UInt8.toBitVec_and]
  ext i hi
  simp only [BitVec.getElem_and, BitVec.getElem_xor]
  cases a.toBitVec[i] <;> cases b.toBitVec[i] <;> cases c.toBitVec[i] <;> rfl

theorem u8_or_and (a b c : UInt8) : (a ||| b) &&& c = (a &&& c) ||| (b &&& c) := by
  apply UInt8.toBitVec_inj.mp
  simp only [UInt8.toBitVec_or, UInt8.toBitVec_and]
  ext i hi
  simp only [BitVec.getElem_and, BitVec.getElem_or]
  cases a.toBitVec[i] <;> cases b.toBitVec[i] <;> cases c.toBitVec[i] <;> rfl

theorem xor_cancel (a b : UInt8) : (a ^^^ b) ^^^ b = a := by
  rw [UInt8.xor_assoc, UInt8.xor_self, UInt8.xor_zero]

/-- masking with `x &&& B` leaves every bit outside `B` alone -/
theorem xor_masked_and (a x B C : UInt8) (h : B &&& C = 0) : (a ^^^ (x &&& B)) &&& C = a &&& C := by
  rw [u8_xor_and, UInt8.and_assoc, h, UInt8.and_zero, UInt8.xor_zero]

theorem and_sub (a C D : UInt8) (h : C &&& D = D) : (a &&& C) &&& D = a &&& D := by
  rw [UInt8.and_assoc, h]

theorem hpBits_cases (f : UInt8) : hpBits f = 0x0f ∨ hpBits f = 0x1f := by
  unfold hpBits; split <;> simp

theorem hpBits_and_80 (f : UInt8) : hpBits f &&& 0x80 = 0 := by
  rcases hpBits_cases f with h | h <;> rw [h] <;> decide

theorem hpBits_and_e0 (f : UInt8) : hpBits f &&& 0xe0 = 0 := by
  rcases hpBits_cases f with h | h <;> rw [h] <;> decide

/-- the form bit survives (un)masking, hence so does the set of masked bits -/
theorem unmask_and_80 (f x : UInt8) : (f ^^^ (x &&& hpBits f)) &&& 0x80 = f &&& 0x80 :=
  xor_masked_and f x _ _ (hpBits_and_80 f)

theorem hpBits_congr (f g : UInt8) (h : g &&& 0x80 = f &&& 0x80) : hpBits g = hpBits f := by
  unfold hpBits; rw [h]

theorem hpBits_unmask (f x : UInt8) : hpBits (f ^^^ (x &&& hpBits f)) = hpBits f :=
  hpBits_congr _ _ (unmask_and_80 f x)

theorem unmask_unmask (f x : UInt8) :
    (f ^^^ (x &&& hpBits f)) ^^^ (x &&& hpBits (f ^^^ (x &&& hpBits f))) = f := by
  rw [hpBits_unmask, xor_cancel]

/-- for the long form the four top bits survive -/
theorem unmask_and_f0 (f x : UInt8) (hl : f &&& 0x80 = 0x80) : (f ^^^ (x &&& hpBits f)) &&& 0xf0 = f &&& 0xf0 := by
  apply xor_masked_and
  unfold hpBits; rw [if_pos hl]; decide

theorem typeOfFirst_hi (f : UInt8) : typeOfFirst f = typeOfFirst (f &&& 0xf0) := by
  unfold typeOfFirst
  rw [and_sub f 0xf0 0x80 (by decide), and_sub f 0xf0 0x40 (by decide), and_sub f 0xf0 0x30 (by decide)]

theorem typeOfFirst_short (f : UInt8) (h : f &&& 0x80 = 0) : typeOfFirst f = some .oneRtt := by
  unfold typeOfFirst; rw [if_pos h]

theorem and80_cases (f : UInt8) : f &&& 0x80 = 0 ∨ f &&& 0x80 = 0x80 := by
  have h : (f &&& 0x80).toNat = 0 ∨ (f &&& 0x80).toNat = 128 := by
    rw [UInt8.toNat_and]
    show f.toNat &&& 2 ^ 7 = 0 ∨ f.toNat &&& 2 ^ 7 = 128
    cases hb : f.toNat.testBit 7
    · left; apply Nat.eq_of_testBit_eq; intro i
      rw [Nat.testBit_and, Nat.testBit_two_pow]
      by_cases hi : 7 = i
      · subst hi; simp [hb]
      · simp [hi]
    · right; apply Nat.eq_of_testBit_eq; intro i
      rw [Nat.testBit_and, Nat.testBit_two_pow]
      by_cases hi : 7 = i
      · subst hi; simp [hb]
      · have : Nat.testBit 128 i = false := by
          show Nat.testBit (2 ^ 7) i = false
          rw [Nat.testBit_two_pow]; simp [hi]
        simp [hi]
  rcases h with h | h
  · left; exact UInt8.toNat_inj.mp h
  · right; exact UInt8.toNat_inj.mp h

theorem typeOfFirst_unmask (f x : UInt8) : typeOfFirst (f ^^^ (x &&& hpBits f)) = typeOfFirst f := by
  rcases and80_cases f with h | h
  · rw [typeOfFirst_short f h, typeOfFirst_short _ (by rw [unmask_and_80, h])]
  · rw [typeOfFirst_hi, unmask_and_f0 f x h, ← typeOfFirst_hi]

theorem or_low (h b M C : UInt8) (hM : h &&& M = 0) (hC : M &&& C = C) : (h ||| b) &&& C = b &&& C := by
  rw [u8_or_and, ← hC, ← UInt8.and_assoc, hM]; simp

theorem or_high (h b C : UInt8) (hb : b &&& C = 0) : (h ||| b) &&& C = h &&& C := by
  rw [u8_or_and, hb]; simp

/-! ### the first byte the sender writes -/
open GmQuic.Pn

/-- the bits `encode_{long,short}_first_byte` OR into the first byte -/
def lowBits (t : TxPkt) : UInt8 :=
  let bits := UInt8.ofNat (size t.enc - 1)
  if t.ptype = .oneRtt then (if t.keyPhase then bits ||| 0x04 else bits &&& 0xfb) else bits

theorem encodeFirst_eq (t : TxPkt) : encodeFirst t = t.hdr0 ||| lowBits t := by
  unfold encodeFirst lowBits; split <;> rfl

/-- what `put_header` leaves in the first byte: the bits that header protection masks are still zero,
and the type bits say `ptype` -/
structure WfHdr (t : TxPkt) : Prop where
  low : t.hdr0 &&& hpBits t.hdr0 = 0
  ty : typeOfFirst t.hdr0 = some t.ptype

theorem size_cases (e : PacketNumber) : size e = 1 ∨ size e = 2 ∨ size e = 3 ∨ size e = 4 := by
  cases e <;> simp [size] <;> decide

theorem lowBits_and_3 (t : TxPkt) : (lowBits t &&& 3).toNat + 1 = size t.enc := by
  unfold lowBits
  rcases size_cases t.enc with h | h | h | h <;> rw [h] <;> split <;> (try split) <;> decide

theorem lowBits_and_e0 (t : TxPkt) : lowBits t &&& 0xe0 = 0 := by
  unfold lowBits
  rcases size_cases t.enc with h | h | h | h <;> rw [h] <;> split <;> (try split) <;> decide

theorem lowBits_long_f0 (t : TxPkt) (hl : t.ptype ≠ .oneRtt) : lowBits t &&& 0xf0 = 0 := by
  unfold lowBits; rw [if_neg hl]
  rcases size_cases t.enc with h | h | h | h <;> rw [h] <;> decide

theorem lowBits_long_0c (t : TxPkt) (hl : t.ptype ≠ .oneRtt) : lowBits t &&& 0x0c = 0 := by
  unfold lowBits; rw [if_neg hl]
  rcases size_cases t.enc with h | h | h | h <;> rw [h] <;> decide

theorem lowBits_short_18 (t : TxPkt) (hs : t.ptype = .oneRtt) : lowBits t &&& 0x18 = 0 := by
  unfold lowBits; rw [if_pos hs]
  rcases size_cases t.enc with h | h | h | h <;> rw [h] <;> split <;> decide

theorem lowBits_short_04 (t : TxPkt) (hs : t.ptype = .oneRtt) : (lowBits t &&& 0x04 ≠ 0) ↔ t.keyPhase = true := by
  unfold lowBits; rw [if_pos hs]
  rcases size_cases t.enc with h | h | h | h <;> rw [h] <;> cases t.keyPhase <;> decide

end GmQuic.Protect
