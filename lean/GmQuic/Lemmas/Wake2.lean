import GmQuic.Model.Wake2
import GmQuic.Lemmas.Wake
/-! Per-instance invariants for the C16 instances of Model/Wake2.lean. -/
namespace GmQuic.Wake

/-! ### Parameters, any number of tasks -/
namespace Params

def Inv (s : State) (l : List (Sleeper Op)) : Prop :=
  ∀ x ∈ l, x.op = .poll x.t x.w ∧ x.w ∈ s.wakers ∧ s.closed = false ∧ s.ready = false

theorem pres (s : State) (l : List (Sleeper Op)) (op : Op) (_ : AnyOp proto op) (h : Inv s l) :
    Inv (step s op).1 (nextSlp proto l op (step s op).2) := by
  intro x hx
  obtain ⟨hw, hx⟩ := mem_nextSlp (P := proto) hx
  rcases hx with ⟨hxl, hp, hd⟩ | ⟨t, w, hp, hr, rfl⟩
  · obtain ⟨h1, h2, h3, h4⟩ := h x hxl
    refine ⟨h1, ?_⟩
    cases op with
    | poll t w => simp [step, h3, h4, h2]
    | recvParams =>
      simp only [proto, step, h3] at hw ⊢
      by_cases hr : s.rcvd <;> by_cases hs : s.scid <;> simp_all
    | scid =>
      simp only [proto, step, h3] at hw ⊢
      by_cases hr : s.rcvd <;> by_cases hs : s.scid <;> simp_all
    | connError => simp [proto, step, h3, h2] at hw
    | dropfut t => exact ⟨h2, h3, h4⟩
  · cases op with
    | poll t' w' =>
      simp only [proto, Option.some.injEq, Prod.mk.injEq] at hp
      obtain ⟨rfl, rfl⟩ := hp
      refine ⟨rfl, ?_⟩
      revert hr
      simp only [proto, step]
      by_cases hc : s.closed <;> by_cases hy : s.ready <;> simp [hc, hy]
    | _ => simp [proto] at hp

theorem safe (s : State) (l : List (Sleeper Op)) (x : Sleeper Op) (h : Inv s l) (hx : x ∈ l) :
    (step s x.op).2.res = .pending := by
  obtain ⟨h1, _, h3, h4⟩ := h x hx
  rw [h1]; simp [step, h3, h4]

theorem closeWakes (s : State) (l : List (Sleeper Op)) (x : Sleeper Op) (h : Inv s l) (hx : x ∈ l) :
    x.w ∈ (step s .connError).2.wakes := by
  obtain ⟨_, h2, h3, _⟩ := h x hx
  simp [step, h3, h2]

def sound : CloseSound proto (AnyOp proto) where
  Inv := Inv
  init := by intro x hx; cases hx
  pres := pres
  safe := safe
  closeWakes := closeWakes

end Params

/-! ### KeysState / OneRttKeysState -/
namespace Keys
variable (r : Bool)

def Inv (s : State) (l : List (Sleeper Op)) : Prop :=
  ∀ x ∈ l, x.op = .poll x.t x.w ∧ x.t = 0 ∧ s = .pending (some x.w)

theorem pres (s : State) (l : List (Sleeper Op)) (op : Op) (hok : SingleTask (proto r) op) (h : Inv s l) :
    Inv (step r s op).1 (nextSlp (proto r) l op (step r s op).2) := by
  intro x hx
  obtain ⟨hw, hx⟩ := mem_nextSlp (P := proto r) hx
  rcases hx with ⟨hxl, hp, hd⟩ | ⟨t, w, hp, hr, rfl⟩
  · obtain ⟨h1, h2, h3⟩ := h x hxl
    cases op with
    | poll t w =>
      have := hok t w rfl
      exact absurd (h2.trans this.symm) (hp t w rfl)
    | set => simp [proto, step, h3, takeWake] at hw
    | invalid => simp [proto, step, h3, takeWake] at hw
    | dropfut t => exact ⟨h1, h2, h3⟩
  · cases op with
    | poll t' w' =>
      simp only [proto, Option.some.injEq, Prod.mk.injEq] at hp
      obtain ⟨rfl, rfl⟩ := hp
      refine ⟨rfl, hok t' w' rfl, ?_⟩
      revert hr
      simp only [proto, step]
      cases s with
      | pending o =>
        cases o with
        | none => simp
        | some old => by_cases ho : old = w' <;> simp [ho]
      | ready => simp
      | invalid => simp
    | _ => simp [proto] at hp

theorem safe (s : State) (l : List (Sleeper Op)) (x : Sleeper Op) (h : Inv s l) (hx : x ∈ l) :
    (step r s x.op).2.res = .pending := by
  obtain ⟨h1, _, h3⟩ := h x hx
  rw [h1, h3]; simp [step]

theorem closeWakes (s : State) (l : List (Sleeper Op)) (x : Sleeper Op) (h : Inv s l) (hx : x ∈ l) :
    x.w ∈ (step r s .invalid).2.wakes := by
  obtain ⟨_, _, h3⟩ := h x hx
  simp [step, h3, takeWake]

def sound : CloseSound (proto r) (SingleTask (proto r)) where
  Inv := Inv
  init := by intro x hx; cases hx
  pres := pres r
  safe := safe r
  closeWakes := closeWakes r

end Keys

/-! ### DatagramReader -/
namespace Dgram

def Inv (s : State) (l : List (Sleeper Op)) : Prop :=
  ∀ x ∈ l, x.op = .poll x.t x.w ∧ x.t = 0 ∧ s.waker = some x.w ∧ s.queue = [] ∧ s.closed = false

theorem pres (s : State) (l : List (Sleeper Op)) (op : Op) (hok : SingleTask proto op) (h : Inv s l) :
    Inv (step s op).1 (nextSlp proto l op (step s op).2) := by
  intro x hx
  obtain ⟨hw, hx⟩ := mem_nextSlp (P := proto) hx
  rcases hx with ⟨hxl, hp, hd⟩ | ⟨t, w, hp, hr, rfl⟩
  · obtain ⟨h1, h2, h3, h4, h5⟩ := h x hxl
    cases op with
    | poll t w =>
      have := hok t w rfl
      exact absurd (h2.trans this.symm) (hp t w rfl)
    | recv v => simp [proto, step, h3, h5, takeWake] at hw
    | connError => simp [proto, step, h3, h5, takeWake] at hw
    | dropfut t => exact ⟨h1, h2, h3, h4, h5⟩
  · cases op with
    | poll t' w' =>
      simp only [proto, Option.some.injEq, Prod.mk.injEq] at hp
      obtain ⟨rfl, rfl⟩ := hp
      refine ⟨rfl, hok t' w' rfl, ?_⟩
      revert hr
      simp only [proto, step]
      by_cases hc : s.closed
      · simp [hc]
      · cases hq : s.queue with
        | nil => simp [hc]
        | cons v r => simp [hc]
    | _ => simp [proto] at hp

theorem safe (s : State) (l : List (Sleeper Op)) (x : Sleeper Op) (h : Inv s l) (hx : x ∈ l) :
    (step s x.op).2.res = .pending := by
  obtain ⟨h1, _, _, h4, h5⟩ := h x hx
  rw [h1]; simp [step, h4, h5]

theorem closeWakes (s : State) (l : List (Sleeper Op)) (x : Sleeper Op) (h : Inv s l) (hx : x ∈ l) :
    x.w ∈ (step s .connError).2.wakes := by
  obtain ⟨_, _, h3, _, h5⟩ := h x hx
  simp [step, h3, h5, takeWake]

def sound : CloseSound proto (SingleTask proto) where
  Inv := Inv
  init := by intro x hx; cases hx
  pres := pres
  safe := safe
  closeWakes := closeWakes

end Dgram
end GmQuic.Wake
