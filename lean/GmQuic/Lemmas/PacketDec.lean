import GmQuic.Model.PacketDec
import GmQuic.Lemmas.Wire
/-!
Helper lemmas for C03 (packets): every nom-level primitive is panic-free and returns a rest that is no
longer than its input; the packet-level parsers inherit both.
-/
namespace GmQuic.PacketDec
open GmQuic.Wire GmQuic.Codec

/-- "never `.panic`" -/
def NP {α} (r : Res α) : Prop := ∀ s, r ≠ .panic s
/-- on success the rest is at most `n` long -/
def RestLe {α} (r : Res α) (n : Nat) : Prop := ∀ a rest, r = .ok a rest → rest.length ≤ n
/-- on success the rest is strictly shorter than `n` -/
def RestLt {α} (r : Res α) (n : Nat) : Prop := ∀ a rest, r = .ok a rest → rest.length < n

theorem np_ok {α} (a : α) (r : Bytes) : NP (Res.ok a r) := by intro s h; cases h
theorem np_err {α} (k : ErrKind) : NP (Res.err k : Res α) := by intro s h; cases h

theorem np_bind {α β} {r : Res α} {f : α → Bytes → Res β} (hr : NP r) (hf : ∀ a rest, NP (f a rest)) :
    NP (r.bind f) := by
  cases r with
  | ok a rest => exact hf a rest
  | err k => exact np_err k
  | panic s => exact absurd rfl (hr s)

theorem np_map {α β} {r : Res α} {f : α → β} (hr : NP r) : NP (r.map f) := by
  cases r with
  | ok a rest => exact np_ok _ _
  | err k => exact np_err k
  | panic s => exact absurd rfl (hr s)

theorem restLe_bind {α β} {r : Res α} {f : α → Bytes → Res β} {n : Nat}
    (hr : RestLe r n) (hf : ∀ a rest, rest.length ≤ n → RestLe (f a rest) n) : RestLe (r.bind f) n := by
  cases r with
  | ok a rest => exact hf a rest (hr a rest rfl)
  | err k => intro a rest h; cases h
  | panic s => intro a rest h; cases h

theorem restLe_map {α β} {r : Res α} {f : α → β} {n : Nat} (hr : RestLe r n) : RestLe (r.map f) n := by
  cases r with
  | ok a rest => intro b rest' h; cases h; exact hr a rest rfl
  | err k => intro a rest h; cases h
  | panic s => intro a rest h; cases h

theorem restLe_mono {α} {r : Res α} {n m : Nat} (h : RestLe r n) (hnm : n ≤ m) : RestLe r m :=
  fun a rest e => Nat.le_trans (h a rest e) hnm

/-! primitives -/

theorem pVarint_np (bs : Bytes) : NP (pVarint bs) := by
  unfold pVarint; split <;> intro s h <;> cases h

theorem pVarint_lt (bs : Bytes) : RestLt (pVarint bs) bs.length := by
  intro a rest h
  unfold pVarint at h
  split at h
  · cases h
  · rename_i v r hd
    cases h
    exact (decVarint_consumes bs _ _ hd).1

theorem pVarint_le (bs : Bytes) : RestLe (pVarint bs) bs.length :=
  fun a rest h => Nat.le_of_lt (pVarint_lt bs a rest h)

theorem pTakeS_np (n : Nat) (bs : Bytes) : NP (pTakeS n bs) := by
  unfold pTakeS; split <;> intro s h <;> cases h

/-- `streaming::take(n)` never reads beyond the buffer: it succeeds only when `n ≤ len`, and then splits exactly. -/
theorem pTakeS_ok (n : Nat) (bs a rest : Bytes) (h : pTakeS n bs = .ok a rest) :
    n ≤ bs.length ∧ a = bs.take n ∧ rest = bs.drop n ∧ a.length = n ∧ rest.length + n = bs.length := by
  unfold pTakeS at h
  split at h
  · cases h
  · cases h
    refine ⟨by omega, rfl, rfl, ?_, ?_⟩ <;> simp <;> omega

theorem pTakeS_le (n : Nat) (bs : Bytes) : RestLe (pTakeS n bs) bs.length := by
  intro a rest h; have := pTakeS_ok n bs a rest h; omega

theorem pTakeC_np (n : Nat) (bs : Bytes) : NP (pTakeC n bs) := by
  unfold pTakeC; split <;> intro s h <;> cases h

theorem pU8S_np (bs : Bytes) : NP (pU8S bs) := by
  unfold pU8S; split <;> intro s h <;> cases h

theorem pU8S_lt (bs : Bytes) : RestLt (pU8S bs) bs.length := by
  intro a rest h
  unfold pU8S at h
  split at h
  · cases h
  · cases h; simp

theorem pU8S_le (bs : Bytes) : RestLe (pU8S bs) bs.length :=
  fun a rest h => Nat.le_of_lt (pU8S_lt bs a rest h)

theorem pBeC_np (w : Nat) (bs : Bytes) : NP (pBeC w bs) := by
  unfold pBeC; split <;> intro s h <;> cases h

theorem pBeC_le (w : Nat) (bs : Bytes) : RestLe (pBeC w bs) bs.length := by
  intro a rest h
  unfold pBeC at h
  split at h
  · cases h
  · cases h; simp

theorem pCid_np (bs : Bytes) : NP (pCid bs) := by
  unfold pCid
  apply np_bind (pU8S_np bs)
  intro len r
  split
  · exact np_err _
  · exact pTakeS_np _ _

theorem pCid_lt (bs : Bytes) : RestLt (pCid bs) bs.length := by
  intro a rest h
  unfold pCid at h
  cases hu : pU8S bs with
  | ok len r =>
    rw [hu] at h
    simp only [Res.bind] at h
    have h1 := pU8S_lt bs len r hu
    split at h
    · cases h
    · have := pTakeS_le _ _ a rest h; omega
  | err k => rw [hu] at h; cases h
  | panic s => rw [hu] at h; cases h

theorem pCid_le (bs : Bytes) : RestLe (pCid bs) bs.length :=
  fun a rest h => Nat.le_of_lt (pCid_lt bs a rest h)

/-- a connection ID that `be_connection_id` returns is at most 20 bytes -/
theorem pCid_len (bs a rest : Bytes) (h : pCid bs = .ok a rest) : a.length ≤ maxCidSize := by
  unfold pCid at h
  cases hu : pU8S bs with
  | ok len r =>
    rw [hu] at h
    simp only [Res.bind] at h
    split at h
    · cases h
    · have := pTakeS_ok _ _ a rest h; omega
  | err k => rw [hu] at h; cases h
  | panic s => rw [hu] at h; cases h

theorem pSockAddr_np (v6 : Bool) (bs : Bytes) : NP (pSockAddr v6 bs) := by
  unfold pSockAddr
  apply np_bind (pBeC_np _ _); intro port r
  apply np_bind (pBeC_np _ _); intro ip r
  exact np_ok _ _

theorem pSockAddr_le (v6 : Bool) (bs : Bytes) : RestLe (pSockAddr v6 bs) bs.length := by
  unfold pSockAddr
  apply restLe_bind (pBeC_le _ _); intro port r hr
  apply restLe_bind (restLe_mono (pBeC_le _ _) hr); intro ip r' hr'
  intro a rest h; cases h; exact hr'

theorem pVersions_np (bs : Bytes) : NP (pVersions bs) := by
  fun_induction pVersions bs with
  | case1 => exact np_ok _ _
  | case2 a b c d r vs rest h ih => exact np_ok _ _
  | case3 a b c d r k h ih => exact np_err _
  | case4 a b c d r s h ih => exact absurd h (ih s)
  | case5 => exact np_err _

theorem pVersions_rest (bs : Bytes) : ∀ a rest, pVersions bs = .ok a rest → rest = [] := by
  fun_induction pVersions bs with
  | case1 => intro a rest h; cases h; rfl
  | case2 a b c d r vs rest' h ih => intro x rest hx; cases hx; exact ih vs rest' h
  | case3 a b c d r k h ih => intro x rest hx; cases hx
  | case4 a b c d r s h ih => intro x rest hx; cases hx
  | case5 => intro x rest hx; cases hx

theorem pLengthData_np (bs : Bytes) : NP (pLengthData bs) := by
  unfold pLengthData
  exact np_bind (pVarint_np bs) (fun n r => pTakeS_np n r)

/-- `length_data(be_varint)`: the length field is compared with what is left before slicing; on success
`varint ++ payload ++ rest` is the input. -/
theorem pLengthData_ok (bs payload rest : Bytes) (h : pLengthData bs = .ok payload rest) :
    rest.length + payload.length < bs.length ∧ rest = bs.drop (bs.length - rest.length) ∧
    payload = (bs.drop (bs.length - rest.length - payload.length)).take payload.length := by
  unfold pLengthData at h
  cases hv : pVarint bs with
  | ok n r =>
    rw [hv] at h
    simp only [Res.bind] at h
    have h1 := pVarint_lt bs n r hv
    have h2 := pTakeS_ok n r payload rest h
    have hr : r = bs.drop (bs.length - r.length) := by
      unfold pVarint at hv
      split at hv
      · cases hv
      · rename_i v r' hd
        cases hv
        cases bs with
        | nil => simp [decVarint] at hd
        | cons b tl =>
          simp only [decVarint] at hd
          split at hd
          · cases hd
          · simp only [Option.some.injEq, Prod.mk.injEq] at hd
            obtain ⟨_, h2'⟩ := hd
            rw [← h2']
            simp only [List.length_drop, List.length_cons]
            have : tl.length + 1 - (tl.length - (2 ^ (b.toNat / 64) - 1)) = (2 ^ (b.toNat / 64) - 1) + 1 := by omega
            rw [this]; rfl
    obtain ⟨hn, hp, hrest, hpl, hsum⟩ := h2
    refine ⟨by omega, ?_, ?_⟩
    · rw [hrest, hr]; simp only [List.drop_drop, List.length_drop]; congr 1; omega
    · have e : bs.length - rest.length - payload.length = bs.length - r.length := by omega
      rw [e, ← hr, hpl]; exact hp
  | err k => rw [hv] at h; cases h
  | panic s => rw [hv] at h; cases h

theorem pLengthData_le (bs : Bytes) : RestLe (pLengthData bs) bs.length := by
  intro a rest h; have := pLengthData_ok bs a rest h; omega

/-! long-header specific part, header -/

theorem pLongSpecific_np (t : LongTy) (d s bs : Bytes) : NP (pLongSpecific t d s bs) := by
  unfold pLongSpecific
  cases t with
  | vn => exact np_map (pVersions_np bs)
  | retry =>
    simp only
    split
    · exact np_err _
    · exact np_bind (pTakeS_np _ _) (fun _ _ => np_ok _ _)
  | initial => exact np_map (pLengthData_np bs)
  | zeroRtt => exact np_ok _ _
  | handshake => exact np_ok _ _

theorem pLongSpecific_le (t : LongTy) (d s bs : Bytes) : RestLe (pLongSpecific t d s bs) bs.length := by
  unfold pLongSpecific
  cases t with
  | vn =>
    apply restLe_map
    intro a rest h; rw [pVersions_rest bs a rest h]; simp
  | retry =>
    simp only
    split
    · intro a rest h; cases h
    · apply restLe_bind (pTakeS_le _ _)
      intro a r _ x rest h; cases h; simp
  | initial => exact restLe_map (pLengthData_le bs)
  | zeroRtt => intro a rest h; cases h; exact Nat.le_refl _
  | handshake => intro a rest h; cases h; exact Nat.le_refl _

theorem beHeader_np (t : PTy) (dcidLen : Nat) (hd : dcidLen ≤ 20) (bs : Bytes) : NP (beHeader t dcidLen bs) := by
  unfold beHeader
  cases t with
  | long lt =>
    apply np_bind (pCid_np bs); intro dcid r
    apply np_bind (pCid_np r); intro scid r
    exact pLongSpecific_np _ _ _ _
  | short spin =>
    simp only
    cases ht : pTakeS dcidLen bs with
    | ok dcid r =>
      simp only [Res.bind]
      have := pTakeS_ok _ _ _ _ ht
      have hl : ¬ dcid.length > maxCid := by unfold maxCid GmQuic.Gen.C03.maxCidSize; omega
      rw [if_neg hl]; exact np_ok _ _
    | err k => exact np_err _
    | panic s => exact absurd ht (pTakeS_np _ _ s)

theorem beHeader_le (t : PTy) (dcidLen : Nat) (bs : Bytes) : RestLe (beHeader t dcidLen bs) bs.length := by
  unfold beHeader
  cases t with
  | long lt =>
    apply restLe_bind (pCid_le bs); intro dcid r hr
    apply restLe_bind (restLe_mono (pCid_le r) hr); intro scid r' hr'
    exact restLe_mono (pLongSpecific_le _ _ _ _) hr'
  | short spin =>
    apply restLe_bind (pTakeS_le _ _); intro dcid r hr
    split
    · intro a rest h; cases h
    · intro a rest h; cases h; exact hr

/-! packet type -/

theorem v1Type_some (b : Nat) : ∃ t, v1Type b = some t := by
  unfold v1Type
  have : (b / 16) % 4 < 4 := Nat.mod_lt _ (by decide)
  generalize (b / 16) % 4 = x at this
  match x, this with
  | 0, _ => exact ⟨_, rfl⟩
  | 1, _ => exact ⟨_, rfl⟩
  | 2, _ => exact ⟨_, rfl⟩
  | 3, _ => exact ⟨_, rfl⟩

theorem bePacketType_np (bs : Bytes) (s : String) : bePacketType bs ≠ .panic s := by
  unfold bePacketType
  split
  · intro h; cases h
  · rename_i b r
    split
    · intro h; cases h
    · split
      · intro h; cases h
      · simp only
        split
        · intro h; cases h
        · split
          · split
            · intro h; cases h
            · obtain ⟨t, ht⟩ := v1Type_some b.toNat
              rw [ht]; intro h; cases h
          · intro h; cases h

theorem bePacketType_lt (bs : Bytes) (t : PTy) (rest : Bytes) (h : bePacketType bs = .ok t rest) :
    rest.length < bs.length := by
  unfold bePacketType at h
  split at h
  · cases h
  · rename_i b r
    split at h
    · cases h; simp
    · split at h
      · cases h
      · simp only at h
        have hdrop : (r.drop 4).length < (b :: r).length := by simp; omega
        split at h
        · cases h; exact hdrop
        · split at h
          · split at h
            · cases h
            · split at h
              · cases h; exact hdrop
              · cases h
          · cases h

end GmQuic.PacketDec
