import GmQuic.Lemmas.StreamWinA
/-!
C01 liveness with flow control, part 2: the end of a round in which the sender is BLOCKED by the window
(`maxData < |written|`, nothing left to pick): the new frames are delivered and acknowledged, one large read, the last
MAX_STREAM_DATA frame is delivered ⇒ the sender's window is strictly larger and the flow-control hypothesis holds again.
-/
namespace GmQuic.Stream
open GmQuic.RecvBuf (Bytes covered)

/-- The sender knows the receiver's current limit, or that limit is the value of the last MAX_STREAM_DATA frame
emitted (it is on its way). -/
def Synced (s : Stream) : Prop := s.snd.maxData = s.rcv.maxSD ∨ s.msds.getLast? = some s.rcv.maxSD

/-- The flow-control hypothesis of the windowed liveness theorem: the receiver's advertised limit exceeds what the
application has read by at least one byte (`Recv::poll_read` re-establishes this on every read: the limit is raised to
`nread + 2_000_000` as soon as `nread + 1_000_000` exceeds it), and the sender is `Synced`. -/
structure Flow (s : Stream) : Prop where
  pos : s.rcv.buf.nread < s.rcv.maxSD
  syn : Synced s

theorem flow_of_sameW {s t : Stream} (h : SameW s t) (f : Flow s) : Flow t := by
  obtain ⟨p, q⟩ := f
  refine ⟨by rw [h.nr, h.sd]; exact p, ?_⟩
  unfold Synced at *
  rw [h.md, h.sd, h.ms]; exact q

theorem uw_raise (s : Sender) (m : Nat) (he : s.err = false) (hst : s.st = .ready ∨ s.st = .sending)
    (h : s.maxData < m) : (s.updateWindow m).maxData = m := by
  unfold Sender.updateWindow
  rcases hst with e | e <;> simp [he, e, h]

theorem uw_ge (s : Sender) (m : Nat) : s.maxData ≤ (s.updateWindow m).maxData := by
  unfold Sender.updateWindow
  cases s.err <;> cases s.st <;> simp <;> split <;> simp <;> omega

theorem step_read_fields (s : Stream) (cap : Nat) :
    (s.step (.read cap)).rcv = (s.rcv.read cap).1 ∧
    (s.step (.read cap)).msds = (match (s.rcv.read cap).2.2 with | some v => s.msds ++ [v] | none => s.msds) := by
  simp only [Stream.step]; split <;> exact ⟨rfl, rfl⟩

theorem step_msd_some {s : Stream} {i m : Nat} (h : s.msds[i]? = some m) :
    s.step (.deliverMsd i) = { s with snd := s.snd.updateWindow m } := by
  simp only [Stream.step, h]

theorem getLast_idx {α} (l : List α) (a : α) (h : l.getLast? = some a) : l[l.length - 1]? = some a := by
  rw [← List.getLast?_eq_getElem?]; exact h

theorem lt_min_aux (n w T V : Nat) (h1 : n ≤ w) (h2 : w < V) (hT : 0 < T) : n < min (n + T * 2) V := by
  rw [Nat.lt_min]; omega

/-- the end of a blocked round (only the data clause `k3` of the picking-phase invariant is needed) -/
theorem phaseW_core {n0 : Nat} {s3 : Stream} (hr : Reach s3) (ok : RcvOk s3.rcv) (hs : SndOk s3.snd)
    (k3 : ∀ x, x < s3.snd.written.length → (s3.snd.status x).pickable = true ∨ Have s3.rcv x ∨ CovNew n0 s3.emitted x)
    (hblk : s3.snd.maxData < s3.snd.written.length) (hidle : s3.snd.somePick = none) (hw : Flow s3)
    (hlen : s3.snd.written.length < varintMax) {cap : Nat} (hcap : s3.snd.written.length < cap) :
    let s5 := s3.run (settleOps (fun _ => true) (List.range' n0 (s3.emitted.length - n0)) ++ [.read cap])
    let s6 := s5.step (.deliverMsd (s5.msds.length - 1))
    Flow s6 ∧ s3.snd.maxData < s6.snd.maxData := by
  intro s5 s6
  obtain ⟨he, hst⟩ := hs
  -- no FIN frame exists while the window is smaller than the stream
  have nofin : ∀ t : Stream, Reach t → t.snd.written = s3.snd.written → t.snd.maxData = s3.snd.maxData →
      ¬ HasFin t.emitted := by
    intro t ht e1 e2 hf
    have h1 := (ht.inv.a4 hf).2.2.2
    have h2 := ht.inv.a2.2
    rw [e1] at h1; rw [e2] at h2; omega
  have hlive : s3.snd.live = true := by
    refine (live_iff _).mpr ⟨he, ?_⟩
    rcases hst with e | e | e | e
    · exact Or.inl e
    · exact Or.inr (Or.inl e)
    · exact Or.inr (Or.inr e)
    · exact absurd (hr.inv.a6 (Or.inr e)) (nofin s3 hr rfl rfl)
  obtain ⟨np, _⟩ := somePick_none hlive hidle
  let new := List.range' n0 (s3.emitted.length - n0)
  let s4 := s3.run (settleOps (fun _ => true) new)
  have hs5 : s5 = s4.step (.read cap) := by
    show s3.run (settleOps (fun _ => true) new ++ [.read cap]) = _
    rw [run_append]; rfl
  have hr4 : Reach s4 := reach_run hr _
  have hm4 : Mono s3 s4 := mono_run hr _ (settle_coop _ _)
  have hw4 : SameW s3 s4 := sameW_run s3 _ (settle_net _ _)
  have ok4 : RcvOk s4.rcv := hm4.ok ok
  have nofin4 := nofin s4 hr4 hm4.wr hm4.md
  have hall : ∀ y, y < s3.snd.maxData → Have s4.rcv y := by
    intro y hy
    have hyw : y < s3.snd.written.length := by omega
    rcases k3 y hyw with a | a | a
    · rw [np y hyw hy] at a; cases a
    · exact hm4.hv y a
    · obtain ⟨i, h1, f, h2, h3⟩ := a
      have := (List.getElem?_eq_some_iff.mp h2).1
      exact (settle_have new hr ok (List.mem_range'_1.mpr ⟨h1, by omega⟩) h2).1 y h3.1 h3.2
  have hrecv : s4.rcv.st = .recv := by
    have hns : ¬ Sized s4.rcv := fun hz => nofin4 (hr4.inv.b3 hz).1
    obtain ⟨_, r1, r2⟩ := ok4
    unfold Sized at hns
    cases hx : s4.rcv.st
    · rfl
    · exact absurd (Or.inl hx) hns
    · exact absurd (Or.inr (Or.inl hx)) hns
    · exact absurd (Or.inr (Or.inr hx)) hns
    · exact absurd hx r1
    · exact absurd hx r2
  have hst4 : s4.snd.err = false ∧ (s4.snd.st = .ready ∨ s4.snd.st = .sending) := by
    obtain ⟨e4, st4⟩ := hm4.so ⟨he, hst⟩
    refine ⟨e4, ?_⟩
    rcases st4 with e | e | e | e
    · exact Or.inl e
    · exact Or.inr e
    · exact absurd (hr4.inv.a6 (Or.inl e)) nofin4
    · exact absurd (hr4.inv.a6 (Or.inr e)) nofin4
  have hcap4 : s4.snd.written.length < cap := by rw [hm4.wr]; exact hcap
  have hup : s3.snd.maxData ≤ s5.rcv.buf.nread := by rw [hs5]; exact read_upto hr4.inv ok4 hrecv hall hcap4
  have hr5 : Reach s5 := by rw [hs5]; exact reach_step hr4 _
  have hsnd5 : s5.snd = s4.snd := by rw [hs5]; exact step_read_snd s4 cap
  have hn5 : s5.rcv.buf.nread ≤ s3.snd.written.length := by
    have a := hr5.inv.b1.nread_le
    have b := hr5.inv.b1.largest_le
    rw [hsnd5, hm4.wr] at b; omega
  obtain ⟨hrcv5, hmsd5⟩ : s5.rcv = (s4.rcv.read cap).1 ∧
      s5.msds = (match (s4.rcv.read cap).2.2 with | some v => s4.msds ++ [v] | none => s4.msds) := by
    rw [hs5]; exact step_read_fields s4 cap
  have hb9 := hr.inv.b9.1
  have hT : 0 < msdThreshold := by unfold msdThreshold; omega
  rcases read_recv_w s4.rcv cap ok4.1 hrecv with ⟨m0, sd0, dj⟩ | ⟨v, m1, sd1, lt1, ev⟩
  · -- no MAX_STREAM_DATA frame emitted by this read: the last one emitted carries the current limit
    rw [m0] at hmsd5
    have hsd5 : s5.rcv.maxSD = s3.rcv.maxSD := by rw [hrcv5, sd0, hw4.sd]
    have hlt : s3.snd.maxData < s3.rcv.maxSD ∧ s5.rcv.buf.nread < s3.rcv.maxSD := by
      rcases dj with d | d | d
      · rw [← hrcv5, hw4.sd] at d; omega
      · rw [hw4.sd] at d; omega
      · have hb : s5.rcv.buf = s4.rcv.buf := by
          rw [hrcv5, read_recv_buf s4.rcv cap ok4.1 hrecv, d]; simp
        have hp := hw.pos
        rw [hb, hw4.nr] at hup ⊢
        omega
    have hlast : s5.msds[s5.msds.length - 1]? = some s3.rcv.maxSD := by
      rcases hw.syn with e | e
      · omega
      · rw [hmsd5, hw4.ms]; exact getLast_idx _ _ e
    have hs6 : s6 = { s5 with snd := s5.snd.updateWindow s3.rcv.maxSD } := step_msd_some hlast
    have hmd6 : s6.snd.maxData = s3.rcv.maxSD := by
      rw [hs6]; show (s5.snd.updateWindow s3.rcv.maxSD).maxData = _
      rw [hsnd5]; exact uw_raise _ _ hst4.1 hst4.2 (by rw [hm4.md]; exact hlt.1)
    have hrcv6 : s6.rcv = s5.rcv := by rw [hs6]
    refine ⟨⟨by rw [hrcv6, hsd5]; exact hlt.2, Or.inl (by rw [hmd6, hrcv6, hsd5])⟩, by rw [hmd6]; exact hlt.1⟩
  · -- a MAX_STREAM_DATA frame with a larger limit was emitted
    rw [m1] at hmsd5
    have hsd5 : s5.rcv.maxSD = v := by rw [hrcv5, sd1]
    have hlast : s5.msds[s5.msds.length - 1]? = some v := by
      rw [hmsd5, List.length_append, List.length_singleton, Nat.add_sub_cancel]
      exact getElem?_append_len _ _
    have hs6 : s6 = { s5 with snd := s5.snd.updateWindow v } := step_msd_some hlast
    have hgt : s3.snd.maxData < v := Nat.lt_of_le_of_lt hb9 (by rw [← hw4.sd]; exact lt1)
    have hmd6 : s6.snd.maxData = v := by
      rw [hs6]; show (s5.snd.updateWindow v).maxData = _
      rw [hsnd5]; exact uw_raise _ _ hst4.1 hst4.2 (by rw [hm4.md]; exact hgt)
    have hrcv6 : s6.rcv = s5.rcv := by rw [hs6]
    refine ⟨⟨?_, Or.inl (by rw [hmd6, hrcv6, hsd5])⟩, by rw [hmd6]; exact hgt⟩
    rw [hrcv6, hsd5, ev, ← hrcv5]
    exact lt_min_aux _ _ _ _ hn5 hlen hT

/-- the end of a blocked round -/
theorem phaseW {n0 : Nat} {s3 : Stream} (hr : Reach s3) (ok : RcvOk s3.rcv) (hs : SndOk s3.snd) (k : K n0 s3)
    (hblk : s3.snd.maxData < s3.snd.written.length) (hidle : s3.snd.somePick = none) (hw : Flow s3)
    (hlen : s3.snd.written.length < varintMax) {cap : Nat} (hcap : s3.snd.written.length < cap) :
    let s5 := s3.run (settleOps (fun _ => true) (List.range' n0 (s3.emitted.length - n0)) ++ [.read cap])
    let s6 := s5.step (.deliverMsd (s5.msds.length - 1))
    Flow s6 ∧ s3.snd.maxData < s6.snd.maxData :=
  phaseW_core hr ok hs k.k3 hblk hidle hw hlen hcap

end GmQuic.Stream
