import GmQuic.Model.StreamWindow
import GmQuic.Spec.Rfc9000Windows
/-!
Helper lemmas for C11, stream level: invariants of the sending half (`SendHalf`) and of the
receiving half (`RecvHalf`) of `GmQuic/Model/StreamWindow.lean`.
-/
namespace GmQuic.StreamWindow
open GmQuic.Flow

/-! ### sending half -/

structure SendHalf.Inv (h : SendHalf) : Prop where
  hiMax : h.sentHi ≤ h.maxData
  maxGr : h.maxData ≤ h.granted
  emHi : ∀ r ∈ h.emitted, r.1 ≤ r.2 ∧ r.2 ≤ h.sentHi
  chg : h.charged = h.sentHi

theorem SendHalf.inv_init (w : Nat) : (SendHalf.init w).Inv := by
  constructor <;> simp [SendHalf.init]

theorem SendHalf.updateWindow_inv (h : SendHalf) (m : Nat) (hi : h.Inv) : (h.updateWindow m).Inv := by
  obtain ⟨h1, h2, h3, h4⟩ := hi
  unfold SendHalf.updateWindow
  dsimp only
  split
  · exact ⟨h1, by simp; omega, h3, h4⟩
  · split
    · exact ⟨by simp; omega, by simp; omega, h3, h4⟩
    · exact ⟨h1, by simp; omega, h3, h4⟩

theorem SendHalf.emit_inv (h h' : SendHalf) (a b : Nat) (fin : Bool) (avail c : Nat) (hi : h.Inv)
    (he : h.emit a b fin avail = some (h', c)) :
    h'.Inv ∧ c ≤ avail ∧ h'.charged = h.charged + c ∧ h'.granted = h.granted ∧ b ≤ h.granted ∧
      h'.emitted = h.emitted ++ [(a, b)] := by
  obtain ⟨h1, h2, h3, h4⟩ := hi
  unfold SendHalf.emit at he
  split at he
  · rename_i hc
    obtain ⟨hab, hbm, hbw, _⟩ := hc
    split at he
    · rename_i hf
      split at he
      · simp only [Option.some.injEq, Prod.mk.injEq] at he
        obtain ⟨rfl, rfl⟩ := he
        refine ⟨⟨by simpa using hbm, h2, ?_, by simp; omega⟩, by omega, by simp, rfl, by omega, rfl⟩
        intro r hr
        simp at hr
        rcases hr with hr | hr
        · have := h3 r hr; simp; omega
        · subst hr; simp; omega
      · simp at he
    · split at he
      · rename_i hb
        simp only [Option.some.injEq, Prod.mk.injEq] at he
        obtain ⟨rfl, rfl⟩ := he
        refine ⟨⟨h1, h2, ?_, h4⟩, by omega, by simp, rfl, by omega, rfl⟩
        intro r hr
        simp at hr
        rcases hr with hr | hr
        · exact h3 r hr
        · subst hr; simp; omega
      · simp at he
  · simp at he

theorem SendHalf.emit_inv' (h h' : SendHalf) (a b : Nat) (fin : Bool) (avail c : Nat)
    (he : h.emit a b fin avail = some (h', c)) : h'.granted = h.granted := by
  unfold SendHalf.emit at he
  split at he
  · split at he
    · split at he
      · simp only [Option.some.injEq, Prod.mk.injEq] at he; obtain ⟨rfl, _⟩ := he; rfl
      · simp at he
    · split at he
      · simp only [Option.some.injEq, Prod.mk.injEq] at he; obtain ⟨rfl, _⟩ := he; rfl
      · simp at he
  · simp at he

theorem SendHalf.step_inv (h : SendHalf) (op : SOp) (hi : h.Inv) : (h.step op).Inv := by
  cases op with
  | write n =>
    simp only [SendHalf.step]; split
    · exact hi
    · exact ⟨hi.hiMax, hi.maxGr, hi.emHi, hi.chg⟩
  | fin => exact ⟨hi.hiMax, hi.maxGr, hi.emHi, hi.chg⟩
  | msd m => exact h.updateWindow_inv m hi
  | emit a b fin avail =>
    simp only [SendHalf.step]
    split
    · rename_i h' c he; exact (h.emit_inv h' a b fin avail c hi he).1
    · exact hi

theorem SendHalf.inv_foldl (ops : List SOp) (h : SendHalf) (hi : h.Inv) :
    (ops.foldl SendHalf.step h).Inv := by
  induction ops generalizing h with
  | nil => simpa using hi
  | cons op ops ih => exact ih _ (h.step_inv op hi)

theorem SendHalf.updateWindow_granted (h : SendHalf) (m : Nat) :
    (h.updateWindow m).granted = max h.granted m := by
  unfold SendHalf.updateWindow; dsimp only; split
  · rfl
  · split <;> rfl

theorem SendHalf.step_granted (h : SendHalf) (op : SOp) :
    (h.step op).granted = (match op with | .msd m => max h.granted m | _ => h.granted) := by
  cases op with
  | write n => simp only [SendHalf.step]; split <;> rfl
  | fin => rfl
  | msd m => exact h.updateWindow_granted m
  | emit a b fin avail =>
    simp only [SendHalf.step]
    split
    · rename_i h' c he
      exact (h.emit_inv' h' a b fin avail c he)
    · rfl

theorem SendHalf.granted_foldl (ops : List SOp) (h : SendHalf) :
    (ops.foldl SendHalf.step h).granted =
      ops.foldl (fun g op => match op with | .msd m => max g m | _ => g) h.granted := by
  induction ops generalizing h with
  | nil => rfl
  | cons op ops ih =>
    simp only [List.foldl_cons]
    rw [ih, h.step_granted op]


/-! ### receiving half -/

structure RecvHalf.Inv (h : RecvHalf) : Prop where
  base : h.init ≤ h.msd
  adv : ∀ a ∈ h.advertised, h.init ≤ a ∧ a ≤ h.msd
  mono : h.advertised.Pairwise (· ≤ ·)
  last : h.msd = h.advertised.getLast?.getD h.init

theorem RecvHalf.inv_mk0 (w : Nat) : (RecvHalf.mk0 w).Inv := by
  constructor <;> simp [RecvHalf.mk0]

theorem RecvHalf.rx_fields (fixed : Bool) (h : RecvHalf) (off len : Nat) (fin : Bool) :
    (h.rx fixed off len fin).1.msd = h.msd ∧ (h.rx fixed off len fin).1.advertised = h.advertised ∧
    (h.rx fixed off len fin).1.init = h.init := by
  unfold RecvHalf.rx
  dsimp only
  repeat' split
  all_goals simp

theorem growWindow_spec (msd n : Nat) :
    ((growWindow msd n).2 = none ∧ (growWindow msd n).1 = msd) ∨
    ((growWindow msd n).2 = some (growWindow msd n).1 ∧ msd < (growWindow msd n).1) := by
  unfold growWindow
  dsimp only
  split
  · split
    · right; exact ⟨rfl, by omega⟩
    · left; exact ⟨rfl, rfl⟩
  · left; exact ⟨rfl, rfl⟩

theorem RecvHalf.grow_inv (h : RecvHalf) (b : RecvBuf.State) (hi : h.Inv) :
    (h.grow b).1.Inv ∧ (h.grow b).1.phase = h.phase ∧ h.msd ≤ (h.grow b).1.msd := by
  obtain ⟨hb, ha, hm, hl⟩ := hi
  have sp := growWindow_spec h.msd b.nread
  unfold RecvHalf.grow
  generalize growWindow h.msd b.nread = g at sp ⊢
  obtain ⟨g1, g2⟩ := g
  dsimp only at sp ⊢
  rcases sp with ⟨s2, s1⟩ | ⟨s2, s1⟩
  · subst s2; subst s1
    simp only [Option.toList_none, List.append_nil]
    exact ⟨⟨hb, ha, hm, hl⟩, trivial, Nat.le_refl _⟩
  · subst s2
    simp only [Option.toList_some]
    refine ⟨⟨?_, ?_, ?_, ?_⟩, trivial, ?_⟩
    · show h.init ≤ g1; omega
    · intro a haa
      simp only [List.mem_append, List.mem_singleton] at haa
      show h.init ≤ a ∧ a ≤ g1
      rcases haa with haa | haa
      · have := ha a haa; omega
      · subst haa; omega
    · show (h.advertised ++ [g1]).Pairwise (· ≤ ·)
      simp only [List.pairwise_append, List.pairwise_cons, List.Pairwise.nil, and_true,
        List.mem_singleton, forall_eq]
      refine ⟨hm, ?_, ?_⟩
      · intro a ha'; cases ha'
      · intro a haa; have := ha a haa; omega
    · show g1 = (h.advertised ++ [g1]).getLast?.getD h.init
      simp
    · show h.msd ≤ g1; omega
theorem RecvHalf.read_inv (h : RecvHalf) (cap : Nat) (hi : h.Inv) :
    (h.read cap).1.Inv ∧ (h.read cap).1.phase = h.phase ∧ h.msd ≤ (h.read cap).1.msd := by
  have hg := fun b => h.grow_inv b hi
  obtain ⟨hb, ha, hm, hl⟩ := hi
  unfold RecvHalf.read
  cases hph : h.phase with
  | recv =>
    simp only
    split
    · exact ⟨⟨hb, ha, hm, hl⟩, hph, Nat.le_refl _⟩
    · have := hg (RecvBuf.tryRead h.buf cap).1
      rw [hph] at this
      exact this
  | sizeKnown fs =>
    simp only
    split
    · exact ⟨⟨hb, ha, hm, hl⟩, hph, Nat.le_refl _⟩
    · exact ⟨⟨hb, ha, hm, hl⟩, rfl, Nat.le_refl _⟩
  | done => exact ⟨⟨hb, ha, hm, hl⟩, rfl, Nat.le_refl _⟩

theorem RecvHalf.step_inv (fixed : Bool) (h : RecvHalf) (op : ROp) (hi : h.Inv) :
    (h.step fixed op).Inv := by
  cases op with
  | rx off len fin =>
    obtain ⟨e1, e2, e3⟩ := h.rx_fields fixed off len fin
    obtain ⟨hb, ha, hm, hl⟩ := hi
    unfold RecvHalf.step
    exact ⟨by rw [e1, e3]; exact hb, by rw [e1, e2, e3]; exact ha, by rw [e2]; exact hm,
           by rw [e1, e2, e3]; exact hl⟩
  | read cap => exact (h.read_inv cap hi).1

theorem RecvHalf.inv_foldl (fixed : Bool) (ops : List ROp) (h : RecvHalf) (hi : h.Inv) :
    (ops.foldl (RecvHalf.step fixed) h).Inv := by
  induction ops generalizing h with
  | nil => simpa using hi
  | cons op ops ih => exact ih _ (h.step_inv fixed op hi)

/-- With the FIN check in place the final size never exceeds the stream limit. -/
def RecvHalf.FinOk (h : RecvHalf) : Prop := ∀ fs, h.phase = .sizeKnown fs → fs ≤ h.msd

theorem RecvHalf.rx_finOk (h : RecvHalf) (off len : Nat) (fin : Bool) (hf : h.FinOk) :
    (h.rx true off len fin).1.FinOk := by
  have e1 := (h.rx_fields true off len fin).1
  intro fs hp
  rw [e1]
  unfold RecvHalf.rx at hp
  cases hph : h.phase with
  | recv =>
    simp only [hph] at hp
    split at hp
    · split at hp
      · rw [hph] at hp; cases hp
      · split at hp
        · rw [hph] at hp; cases hp
        · rename_i hnot
          split at hp
          · simp at hp
          · simp only [Phase.sizeKnown.injEq] at hp
            subst hp
            simp only [true_and, Nat.not_lt] at hnot
            exact hnot
    · split at hp
      · rw [hph] at hp; cases hp
      · simp only at hp; cases hp
  | sizeKnown fs' =>
    simp only [hph] at hp
    have := hf fs' hph
    split at hp
    · rw [hph] at hp; cases hp; exact this
    · split at hp
      · rw [hph] at hp; cases hp; exact this
      · split at hp
        · simp at hp
        · simp only [Phase.sizeKnown.injEq] at hp; subst hp; exact this
  | done =>
    simp only [hph] at hp
    cases hp

theorem RecvHalf.step_finOk (h : RecvHalf) (op : ROp) (hi : h.Inv) (hf : h.FinOk) :
    (h.step true op).FinOk := by
  cases op with
  | rx off len fin => exact h.rx_finOk off len fin hf
  | read cap =>
    obtain ⟨_, hp, hm⟩ := h.read_inv cap hi
    intro fs hfs
    have hfs' : (h.read cap).1.phase = .sizeKnown fs := hfs
    rw [hp] at hfs'
    have := hf fs hfs'
    show fs ≤ (h.read cap).1.msd
    omega

theorem RecvHalf.finOk_foldl (ops : List ROp) (h : RecvHalf) (hi : h.Inv) (hf : h.FinOk) :
    (ops.foldl (RecvHalf.step true) h).FinOk := by
  induction ops generalizing h with
  | nil => simpa using hf
  | cons op ops ih => exact ih _ (h.step_inv true op hi) (h.step_finOk op hi hf)

end GmQuic.StreamWindow
