import GmQuic.Lemmas.AntiAmpPath
/-! Invariant of the interleaving model `Conc` (atomic-operation granularity). -/
namespace GmQuic.AntiAmp

/-- credit an in-flight `on_rcvd` may still add -/
def Frame.padd : Frame → Nat
  | .rcvd0 n => n * N
  | .rcvd1 n => n * N
  | _ => 0

def pendAdd (p : List Frame) : Nat := (p.map Frame.padd).sum

/-- frames that can be in the pool as long as `grant` was never called -/
def Frame.poolOk : Frame → Prop
  | .rcvd0 _ | .rcvd1 _ | .rcvd2 | .abort0 | .abort1 => True
  | _ => False

def Sender.pendSub : Sender → Nat
  | .sending (.sent0 k) => k
  | .sending (.sent1 k) => k
  | _ => 0

def Sender.held : Sender → Nat
  | .holding c => c
  | _ => 0

def Sender.ok : Sender → Prop
  | .polling .bal0 | .polling .bal1 | .polling .bal2 => True
  | .polling (.bal3 st) => st = .aborted
  | .polling _ => False
  | .sending (.sent0 _) | .sending (.sent1 _) => True
  | .sending _ => False
  | _ => True

/-- after an abort: can the sender still come to use an allowance it read (or is reading)? -/
def Sender.mayHold : Sender → Bool
  | .polling .bal1 => true
  | .holding _ => true
  | _ => false

/-- allowance still usable -/
def Conc.A (s : Conc) : Nat :=
  if s.aa.state = .normal then s.aa.credit + pendAdd s.pool - s.sender.pendSub
  else if s.sender.mayHold then s.aa.credit + pendAdd s.pool else 0

structure CInv (s : Conc) : Prop where
  uf : s.aa.underflow = false
  ng : s.aa.state ≠ .granted
  pool : ∀ f ∈ s.pool, f.poolOk
  sok : s.sender.ok
  i3 : s.sentTotal + s.A ≤ 3 * s.rcvdTotal
  i4 : s.sender.pendSub + s.sender.held ≤ s.aa.credit
  i6 : s.aa.credit + pendAdd s.pool ≤ 3 * s.rcvdTotal

theorem pendAdd_cons (f : Frame) (p : List Frame) : pendAdd (f :: p) = f.padd + pendAdd p := by
  simp [pendAdd]

theorem pendAdd_append (p : List Frame) (f : Frame) : pendAdd (p ++ [f]) = pendAdd p + f.padd := by
  simp [pendAdd]

/-- effect of one atomic step of a pool frame on the shared state and the pending additions -/
structure PoolRel (a : AA) (P : Nat) (a' : AA) (P' : Nat) : Prop where
  uf : a'.underflow = a.underflow
  sum : a'.credit + P' ≤ a.credit + P
  mono : a.credit ≤ a'.credit
  st : a'.state = a.state ∨ (a.state = .normal ∧ a'.state = .aborted)

theorem fetchAdd_nowrap (a : AA) (k : Nat) (h : a.credit + k < U) :
    a.fetchAdd k = { a with credit := a.credit + k } := by
  unfold AA.fetchAdd; simp [h]

theorem frame_step_rel (f : Frame) (a : AA) (hf : f.poolOk) (hb : a.credit + f.padd < U) :
    match f.step a with
    | (a', .inl f') => f'.poolOk ∧ PoolRel a f.padd a' f'.padd
    | (a', .inr _) => PoolRel a f.padd a' 0 := by
  cases f <;> simp only [Frame.poolOk] at hf
  · -- rcvd0
    rename_i n
    by_cases hs : a.state = .normal
    · simp [Frame.step, hs, Frame.poolOk, Frame.padd]; constructor <;> (try simp) <;> (try omega)
    · simp [Frame.step, hs, Frame.poolOk, Frame.padd]; constructor <;> (try simp) <;> (try omega)
  · -- rcvd1
    rename_i n
    simp only [Frame.padd] at hb
    have hn : n * N < U := by omega
    simp only [Frame.step, hn, ↓reduceIte]
    rw [fetchAdd_nowrap _ _ hb]
    simp [Frame.poolOk, Frame.padd]
    constructor <;> (try simp) <;> (try omega)
  · simp [Frame.step, AA.wake, Frame.padd]; constructor <;> (try simp) <;> (try omega)
  · -- abort0
    simp only [Frame.step, AA.cas]
    by_cases hs : a.state = .normal
    · simp [hs, Frame.poolOk, Frame.padd]; constructor <;> (try simp [hs]) <;> (try omega)
    · simp [hs, Frame.padd]; constructor <;> (try simp) <;> (try omega)
  · simp [Frame.step, AA.wake, Frame.padd]; constructor <;> (try simp) <;> (try omega)

theorem stepAt_rel (i : Nat) (p : List Frame) (a : AA) (hp : ∀ f ∈ p, f.poolOk)
    (hb : a.credit + pendAdd p < U) :
    (∀ f ∈ (stepAt i p a).1, f.poolOk) ∧
      PoolRel a (pendAdd p) (stepAt i p a).2 (pendAdd (stepAt i p a).1) := by
  induction p generalizing i with
  | nil => simp [stepAt]; constructor <;> (try simp) <;> (try omega)
  | cons f fs ih =>
    rw [pendAdd_cons] at hb
    cases i with
    | zero =>
      have hfr := frame_step_rel f a (hp f (by simp)) (by omega)
      simp only [stepAt]
      generalize f.step a = r at hfr
      obtain ⟨a', r⟩ := r
      cases r with
      | inl f' =>
        simp only at hfr ⊢
        obtain ⟨h1, h2⟩ := hfr
        refine ⟨?_, ?_⟩
        · intro g hg; simp at hg; rcases hg with rfl | hg
          · exact h1
          · exact hp g (by simp [hg])
        · rw [pendAdd_cons, pendAdd_cons]
          exact ⟨h2.uf, by have := h2.sum; omega, h2.mono, h2.st⟩
      | inr _ =>
        simp only at hfr ⊢
        refine ⟨fun g hg => hp g (by simp [hg]), ?_⟩
        rw [pendAdd_cons]
        exact ⟨hfr.uf, by have := hfr.sum; omega, hfr.mono, hfr.st⟩
    | succ i =>
      have := ih i (fun g hg => hp g (by simp [hg])) (by omega)
      simp only [stepAt]
      obtain ⟨h1, h2⟩ := this
      refine ⟨?_, ?_⟩
      · intro g hg; simp at hg; rcases hg with rfl | hg
        · exact hp g (by simp)
        · exact h1 g hg
      · rw [pendAdd_cons, pendAdd_cons]
        exact ⟨h2.uf, by have := h2.sum; omega, h2.mono, h2.st⟩

end GmQuic.AntiAmp
