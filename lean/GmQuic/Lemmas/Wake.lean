import GmQuic.Model.Wake
/-! Generic lift (one-step preservation ⇒ all schedules) and the per-instance invariants for C16. -/
namespace GmQuic.Wake

variable {P : WaitProto}

theorem Sound.foldl_inv {ok : P.Op → Prop} (h : Sound P ok) (sched : List P.Op) :
    ∀ r : Run P, (∀ op ∈ sched, ok op) → h.Inv r.st r.slp →
      h.Inv (sched.foldl (Run.step P) r).st (sched.foldl (Run.step P) r).slp := by
  induction sched with
  | nil => intro r _ hr; exact hr
  | cons op rest ih =>
    intro r hok hr
    simp only [List.foldl_cons]
    apply ih
    · intro o ho; exact hok o (by simp [ho])
    · exact h.pres _ _ op (hok op (by simp)) hr

/-- the invariant of a sound instance holds after every schedule of allowed ops -/
theorem Sound.run_inv {ok : P.Op → Prop} (h : Sound P ok) (sched : List P.Op)
    (hok : ∀ op ∈ sched, ok op) : h.Inv (run P sched).st (run P sched).slp :=
  h.foldl_inv sched (Run.init P) hok h.init

theorem mem_nextSlp {l : List (Sleeper P.Op)} {op : P.Op} {o : Obs} {x : Sleeper P.Op}
    (hx : x ∈ nextSlp P l op o) :
    x.w ∉ o.wakes ∧
    ((x ∈ l ∧ (∀ t w, P.pollBy op = some (t, w) → x.t ≠ t) ∧ (P.pollBy op = none → ∀ t, P.dropBy op = some t → x.t ≠ t))
      ∨ (∃ t w, P.pollBy op = some (t, w) ∧ o.res = .pending ∧ x = ⟨t, w, op⟩)) := by
  unfold nextSlp at hx
  simp only [List.mem_filter, Bool.not_eq_eq_eq_not, Bool.not_true, List.contains_eq_mem,
    decide_eq_false_iff_not] at hx
  refine ⟨hx.2, ?_⟩
  have h1 := hx.1
  clear hx
  cases hp : P.pollBy op with
  | some tw =>
    obtain ⟨t, w⟩ := tw
    simp only [hp] at h1
    by_cases hr : o.res = .pending
    · simp only [hr, if_true, List.mem_cons, List.mem_filter, bne_iff_ne, ne_eq] at h1
      rcases h1 with h1 | h1
      · right; exact ⟨t, w, rfl, hr, h1⟩
      · left; refine ⟨h1.1, ?_, by simp⟩
        intro t' w' he; cases he; exact h1.2
    · simp only [hr, if_false, List.mem_filter, bne_iff_ne, ne_eq] at h1
      left; refine ⟨h1.1, ?_, by simp⟩
      intro t' w' he; cases he; exact h1.2
  | none =>
    simp only [hp] at h1
    left
    cases hd : P.dropBy op with
    | some t =>
      simp only [hd, List.mem_filter, bne_iff_ne, ne_eq] at h1
      refine ⟨h1.1, by simp, ?_⟩
      intro _ t' he; cases he; exact h1.2
    | none =>
      simp only [hd] at h1
      exact ⟨h1, by simp, by simp⟩

end GmQuic.Wake

namespace GmQuic.Wake

/-- schedule restriction "one waiting task" (the API hands out a single waiting handle / `&mut self`):
every poll is made by task 0 — with any waker, which may change from poll to poll. -/
def SingleTask (P : WaitProto) (op : P.Op) : Prop := ∀ t w, P.pollBy op = some (t, w) → t = 0

def AnyOp (P : WaitProto) (_ : P.Op) : Prop := True

/-! ### AsyncDeque -/
namespace Deque

def Inv (s : State) (l : List (Sleeper Op)) : Prop :=
  ∀ x ∈ l, x.op = .poll x.t x.w ∧ x.t = 0 ∧ s.waker = some x.w ∧ s.queue = some []

theorem pres (s : State) (l : List (Sleeper Op)) (op : Op) (hok : SingleTask proto op) (h : Inv s l) :
    Inv (step s op).1 (nextSlp proto l op (step s op).2) := by
  intro x hx
  obtain ⟨hw, hx⟩ := mem_nextSlp (P := proto) hx
  rcases hx with ⟨hxl, hp, hd⟩ | ⟨t, w, hp, hr, rfl⟩
  · obtain ⟨h1, h2, h3, h4⟩ := h x hxl
    cases op with
    | poll t w =>
      have := hok t w rfl
      exact absurd (h2.trans this.symm) (hp t w rfl)
    | pushBack v => simp [step, h4, h3, takeWake] at hw
    | pushFront v => simp [step, h4, h3, takeWake] at hw
    | extend vs => simp [step, h4, h3, takeWake] at hw
    | close => simp [step, h3, takeWake] at hw
    | dropfut t => exact ⟨h1, h2, h3, h4⟩
  · cases op with
    | poll t' w' =>
      simp only [proto, Option.some.injEq, Prod.mk.injEq] at hp
      obtain ⟨rfl, rfl⟩ := hp
      have ht := hok t' w' rfl
      refine ⟨rfl, ht, ?_⟩
      revert hr
      simp only [step]
      cases hq : s.queue with
      | none => simp
      | some q =>
        cases q with
        | cons v r => simp
        | nil =>
          cases hk : s.waker with
          | none => simp
          | some old =>
            by_cases ho : old = w' <;> simp [ho]
    | _ => simp [proto] at hp

theorem safe (s : State) (l : List (Sleeper Op)) (x : Sleeper Op) (h : Inv s l) (hx : x ∈ l) :
    (step s x.op).2.res = .pending := by
  obtain ⟨h1, _, h3, h4⟩ := h x hx
  rw [h1]; simp [step, h3, h4]

theorem closeWakes (s : State) (l : List (Sleeper Op)) (x : Sleeper Op) (h : Inv s l) (hx : x ∈ l) :
    x.w ∈ (step s .close).2.wakes := by
  obtain ⟨_, _, h3, _⟩ := h x hx
  simp [step, h3, takeWake]

def sound : CloseSound proto (SingleTask proto) where
  Inv := Inv
  init := by intro x hx; cases hx
  pres := pres
  safe := safe
  closeWakes := closeWakes

end Deque
/-! ### Receiving (fixed code) -/
namespace Receiving

def Inv (s : State) (l : List (Sleeper Op)) : Prop :=
  ∀ x ∈ l, x.op = .poll x.t x.w ∧ x.t = 0 ∧ s = .waiting x.w

theorem pres (s : State) (l : List (Sleeper Op)) (op : Op) (hok : SingleTask (proto true) op) (h : Inv s l) :
    Inv (step true s op).1 (nextSlp (proto true) l op (step true s op).2) := by
  intro x hx
  obtain ⟨hw, hx⟩ := mem_nextSlp (P := proto true) hx
  rcases hx with ⟨hxl, hp, hd⟩ | ⟨t, w, hp, hr, rfl⟩
  · obtain ⟨h1, h2, h3⟩ := h x hxl
    cases op with
    | poll t w =>
      have := hok t w rfl
      exact absurd (h2.trans this.symm) (hp t w rfl)
    | recv v => simp [proto, step, h3] at hw
    | reset => simp [proto, step, h3] at hw
    | dropfut t => exact ⟨h1, h2, h3⟩
  · cases op with
    | poll t' w' =>
      simp only [proto, Option.some.injEq, Prod.mk.injEq] at hp
      obtain ⟨rfl, rfl⟩ := hp
      refine ⟨rfl, hok t' w' rfl, ?_⟩
      revert hr
      cases s <;> simp [proto, step]
    | _ => simp [proto] at hp

theorem safe (s : State) (l : List (Sleeper Op)) (x : Sleeper Op) (h : Inv s l) (hx : x ∈ l) :
    (step true s x.op).2.res = .pending := by
  obtain ⟨h1, _, h3⟩ := h x hx
  rw [h1, h3]; simp [step]

theorem closeWakes (s : State) (l : List (Sleeper Op)) (x : Sleeper Op) (h : Inv s l) (hx : x ∈ l) :
    x.w ∈ (step true s .reset).2.wakes := by
  obtain ⟨_, _, h3⟩ := h x hx
  simp [step, h3]

def sound : CloseSound (proto true) (SingleTask (proto true)) where
  Inv := Inv
  init := by intro x hx; cases hx
  pres := pres
  safe := safe
  closeWakes := closeWakes

end Receiving

/-! ### SendWaker -/
namespace SendWaker

theorem not_and_self16 (x : BitVec 16) : ~~~x &&& x = 0 := by
  ext i; simp

def Inv (s : State) (l : List (Sleeper Op)) : Prop :=
  ∀ x ∈ l, ∃ sig, x.op = .poll x.t x.w sig ∧ x.t = 0 ∧ s.waker = some x.w ∧ s.bits &&& sig = 0

theorem pres (s : State) (l : List (Sleeper Op)) (op : Op) (hok : SingleTask proto op) (h : Inv s l) :
    Inv (step s op).1 (nextSlp proto l op (step s op).2) := by
  intro x hx
  obtain ⟨hw, hx⟩ := mem_nextSlp (P := proto) hx
  rcases hx with ⟨hxl, hp, hd⟩ | ⟨t, w, hp, hr, rfl⟩
  · obtain ⟨sig, h1, h2, h3, h4⟩ := h x hxl
    cases op with
    | poll t w sg =>
      have := hok t w rfl
      exact absurd (h2.trans this.symm) (hp t w rfl)
    | wakeBy sg =>
      by_cases hb : s.bits ||| sg = s.bits
      · exact ⟨sig, h1, h2, by simpa [step] using h3, by simpa [step, hb] using h4⟩
      · simp [proto, step, hb, h3] at hw
    | dropfut t => exact ⟨sig, h1, h2, h3, h4⟩
  · cases op with
    | poll t' w' sg =>
      simp only [proto, Option.some.injEq, Prod.mk.injEq] at hp
      obtain ⟨rfl, rfl⟩ := hp
      refine ⟨sg, rfl, hok t' w' rfl, ?_⟩
      revert hr
      simp only [step]
      split
      · intro _; exact ⟨rfl, not_and_self16 sg⟩
      · intro h; simp at h
    | _ => simp [proto] at hp

theorem safe (s : State) (l : List (Sleeper Op)) (x : Sleeper Op) (h : Inv s l) (hx : x ∈ l) :
    (step s x.op).2.res = .pending := by
  obtain ⟨sig, h1, _, _, h4⟩ := h x hx
  rw [h1]; simp [step, h4]

def sound : Sound proto (SingleTask proto) where
  Inv := Inv
  init := by intro x hx; cases hx
  pres := pres
  safe := safe

end SendWaker

/-! ### opening a stream (fixed code) -/
namespace LocalSid

@[simp] theorem sel_upd_same {α : Type} (p : α × α) (d : Bool) (v : α) : sel (upd p d v) d = v := by
  cases d <;> simp [sel, upd]
theorem sel_upd_ne {α : Type} (p : α × α) (d d' : Bool) (v : α) (h : d ≠ d') : sel (upd p d v) d' = sel p d' := by
  cases d <;> cases d' <;> simp_all [sel, upd]

def Inv (s : State) (l : List (Sleeper Op)) : Prop :=
  ∀ x ∈ l, ∃ dir, x.op = .poll x.t x.w dir ∧ x.w ∈ sel s.wakers dir ∧ s.closed = false ∧
    ¬ (sel s.unalloc dir > limit) ∧ ¬ (sel s.unalloc dir < sel s.max dir)

theorem pres (s : State) (l : List (Sleeper Op)) (op : Op) (_ : AnyOp (proto true) op) (h : Inv s l) :
    Inv (step true s op).1 (nextSlp (proto true) l op (step true s op).2) := by
  intro x hx
  obtain ⟨hw, hx⟩ := mem_nextSlp (P := proto true) hx
  rcases hx with ⟨hxl, hp, hd⟩ | ⟨t, w, hp, hr, rfl⟩
  · obtain ⟨dir, h1, h2, h3, h4, h5⟩ := h x hxl
    refine ⟨dir, h1, ?_⟩
    cases op with
    | poll t w d =>
      simp only [step, h3, Bool.false_eq_true, if_false]
      split
      · exact ⟨h2, by simp [h3], h4, h5⟩
      · split
        · rename_i hlt
          have hne : d ≠ dir := by
            intro he; subst he; exact h5 hlt
          simp only [sel_upd_ne _ _ _ _ hne]
          exact ⟨h2, by simp [h3], h4, h5⟩
        · by_cases he : d = dir
          · subst he
            simp only [sel_upd_same]
            exact ⟨by simp [h2], by simp [h3], h4, h5⟩
          · simp only [sel_upd_ne _ _ _ _ he]
            exact ⟨h2, by simp [h3], h4, h5⟩
    | maxStreams d v =>
      simp only [proto, step] at hw ⊢
      split
      · rename_i hlt
        simp only [hlt, if_true] at hw
        have hne : d ≠ dir := by
          intro he; subst he; exact hw h2
        simp only [sel_upd_ne _ _ _ _ hne]
        exact ⟨h2, h3, h4, h5⟩
      · exact ⟨h2, h3, h4, h5⟩
    | connError =>
      simp only [proto, step, h3, Bool.false_eq_true, if_false, if_true] at hw
      exfalso; apply hw
      cases dir <;> simp_all [sel]
    | dropfut t => exact ⟨h2, h3, h4, h5⟩
  · cases op with
    | poll t' w' d =>
      simp only [proto, Option.some.injEq, Prod.mk.injEq] at hp
      obtain ⟨rfl, rfl⟩ := hp
      refine ⟨d, rfl, ?_⟩
      revert hr
      simp only [proto, step]
      split
      · intro h; simp at h
      · split
        · intro h; simp at h
        · split
          · intro h; simp at h
          · rename_i hc hl hm
            intro _
            simp only [sel_upd_same]
            exact ⟨by simp, by simpa using hc, hl, hm⟩
    | _ => simp [proto] at hp

theorem safe (s : State) (l : List (Sleeper Op)) (x : Sleeper Op) (h : Inv s l) (hx : x ∈ l) :
    (step true s x.op).2.res = .pending := by
  obtain ⟨dir, h1, _, h3, h4, h5⟩ := h x hx
  rw [h1]; simp [step, h3, h4, h5]

theorem closeWakes (s : State) (l : List (Sleeper Op)) (x : Sleeper Op) (h : Inv s l) (hx : x ∈ l) :
    x.w ∈ (step true s .connError).2.wakes := by
  obtain ⟨dir, _, h2, h3, _, _⟩ := h x hx
  simp only [step, h3, Bool.false_eq_true, if_false, if_true]
  cases dir <;> simp_all [sel]

def sound : CloseSound (proto true) (AnyOp (proto true)) where
  Inv := Inv
  init := by intro x hx; cases hx
  pres := pres
  safe := safe
  closeWakes := closeWakes

end LocalSid

end GmQuic.Wake
