import GmQuic.Lemmas.Net
import GmQuic.Lemmas.StreamLiveN
/-!
C02 liveness, part 2: the refinement `net → C01` preserves the hypotheses of C01's liveness theorem (`Stream.Fair`).

`Live` = histories of the abstract stack in which no endpoint terminates or aborts a stream (no cancel / stop / reset /
connection-error operation) and an endpoint acknowledges a STREAM frame only after a packet carrying it was dispatched by
its frame handlers (what an honest receiver does; ACK frames travel inside authenticated packets, so the adversary cannot
forge one).  Everything the ADVERSARY does (`recv` of any ciphertext, at any time) is unrestricted.  After every such
history (with AEAD integrity) every stream of either direction satisfies `Stream.Fair`.
-/
namespace GmQuic.Net
open GmQuic.RecvBuf (Bytes)
open GmQuic

/-- STREAM frame `f` of stream `(d, sid)` was in a packet dispatched by the sink of `d` -/
def Dispatched {C : Type} (σ : Net C) (d : Dir) (sid : Nat) (f : Stream.Frame) : Prop :=
  ∃ p ∈ σ.delivered d, PFrame.stream sid f ∈ p.frames

/-- operations of honest endpoints that keep running -/
def opLive {C : Type} (σ : Net C) : Op C → Prop
  | .app _ _ (.write _) | .app _ _ .shutdown | .app _ _ (.pick _ _) | .app _ _ .touch | .app _ _ (.lose _)
  | .app _ _ (.read _) | .app _ _ (.deliverMsd _) | .app _ _ (.deliver _) => True
  | .app d sid (.ack i) => ∃ f, (σ.streams d sid).emitted[i]? = some f ∧ Dispatched σ d sid f
  | .app _ _ _ => False
  | _ => True

def Live {C : Type} (K : Crypto C) (ord : Order) : Net C → List (Op C) → Prop
  | _, [] => True
  | σ, op :: rest => opLive σ op ∧ Live K ord (step K ord σ op) rest

theorem live_append {C : Type} (K : Crypto C) (ord : Order) (a b : List (Op C)) (σ : Net C)
    (h1 : Live K ord σ a) (h2 : Live K ord (run K ord σ a) b) : Live K ord σ (a ++ b) := by
  induction a generalizing σ with
  | nil => exact h2
  | cons op rest ih => exact ⟨h1.1, ih _ h1.2 h2⟩

/-- the bytes of `f` (and its FIN) have reached the receiving half -/
def GotF (s : Stream.Stream) (f : Stream.Frame) : Prop :=
  (∀ x, f.off ≤ x → x < f.stop → Stream.Have s.rcv x) ∧ (f.fin = true → Stream.Sized s.rcv)

theorem gotF_mono {s t : Stream.Stream} (m : Stream.Mono s t) {f : Stream.Frame} (h : GotF s f) : GotF t f :=
  ⟨fun x a b => m.hv x (h.1 x a b), fun e => m.sz (h.2 e)⟩

theorem gotF_rcv {s t : Stream.Stream} (e : t.rcv = s.rcv) {f : Stream.Frame} (h : GotF s f) : GotF t f := by
  unfold GotF; rw [e]; exact h

structure FInv {C : Type} (σ : Net C) : Prop where
  fair : ∀ d sid, Stream.Fair (σ.streams d sid)
  got : ∀ d sid f, Dispatched σ d sid f → GotF (σ.streams d sid) f

theorem finv_init (C : Type) (sw rw : Nat) (h : sw ≤ rw) : FInv (Net.init C sw rw) :=
  ⟨fun _ _ => Stream.fair_init sw rw h, fun d sid f ⟨p, hp, _⟩ => by simp [Net.init] at hp⟩

/-! ### frame handlers -/

theorem rxFrame_fair {s : Stream.Stream} (h : Stream.Fair s) (f : Stream.Frame) (hf : f ∈ s.emitted) :
    Stream.Fair (rxFrame s f) ∧ Stream.Mono s (rxFrame s f) ∧ GotF (rxFrame s f) f := by
  obtain ⟨i, hi⟩ := List.getElem?_of_mem hf
  rw [← rxFrame_is_deliver s f i hi]
  exact ⟨Stream.fair_step h (.deliver i), Stream.mono_step h.reach (op := .deliver i) rfl,
    Stream.deliver_have h.reach.inv h.reach.invR h.rcv hi⟩

/-- what a run of handlers does to the streams -/
structure LiveTo {C : Type} (d : Dir) (frames : List PFrame) (σ σ' : Net C) : Prop where
  fair : ∀ d' sid, Stream.Fair (σ'.streams d' sid)
  mono : ∀ d' sid, Stream.Mono (σ.streams d' sid) (σ'.streams d' sid)
  got : ∀ sid f, PFrame.stream sid f ∈ frames → GotF (σ'.streams d sid) f

theorem handle_live {C : Type} (d : Dir) (σ : Net C) (fr : PFrame) (hf : FrameOk σ d fr)
    (hfair : ∀ d' sid, Stream.Fair (σ.streams d' sid)) : LiveTo d [fr] σ (handle d σ fr) := by
  cases fr with
  | stream sid f =>
    obtain ⟨a, b, c⟩ := rxFrame_fair (hfair d sid) f hf
    refine ⟨fun d' sid' => ?_, fun d' sid' => ?_, fun sid' f' hm => ?_⟩
    · simp only [handle, upd2]; split
      · exact a
      · exact hfair d' sid'
    · simp only [handle, upd2]; split
      · rename_i hc; obtain ⟨rfl, rfl⟩ := hc; exact b
      · exact Stream.Mono.refl _
    · simp only [List.mem_singleton, PFrame.stream.injEq] at hm
      obtain ⟨rfl, rfl⟩ := hm
      simp only [handle, upd2, and_self, if_true]
      exact c
  | dgram x =>
    exact ⟨hfair, fun _ _ => Stream.Mono.refl _, fun sid f hm => by simp at hm⟩
  | other t =>
    exact ⟨hfair, fun _ _ => Stream.Mono.refl _, fun sid f hm => by simp at hm⟩

theorem handles_live {C : Type} (sw rw : Nat) (d : Dir) (frames : List PFrame) (σ : Net C)
    (hf : ∀ fr ∈ frames, FrameOk σ d fr) (hfair : ∀ d' sid, Stream.Fair (σ.streams d' sid)) :
    LiveTo d frames σ (frames.foldl (handle d) σ) := by
  induction frames generalizing σ with
  | nil => exact ⟨hfair, fun _ _ => Stream.Mono.refl _, fun sid f hm => by simp at hm⟩
  | cons fr rest ih =>
    simp only [List.foldl_cons]
    have h1 := handle_live d σ fr (hf fr (by simp)) hfair
    have hk := handle_ok sw rw d σ fr (hf fr (by simp))
    have h2 := ih (handle d σ fr) (fun g hg => frameOk_of_handlesTo hk d g (hf g (by simp [hg]))) h1.fair
    refine ⟨h2.fair, fun d' sid => (h1.mono d' sid).trans (h2.mono d' sid), fun sid f hm => ?_⟩
    rcases List.mem_cons.mp hm with e | e
    · exact gotF_mono (h2.mono d sid) (h1.got sid f (by rw [e]; simp))
    · exact h2.got sid f e

/-! ### one step -/

theorem finv_dispatch {C : Type} {K : Crypto C} {sw rw : Nat} {σ : Net C} (hi : Inv K sw rw σ) (h : FInv σ) (d : Dir)
    (p : Packet) (hp : p ∈ σ.sent d) : FInv (dispatch σ d p) := by
  let σ0 : Net C := { σ with rcvd := upd σ.rcvd d ((σ.rcvd d).onRcvd p.pn),
                             delivered := upd σ.delivered d (σ.delivered d ++ [p]) }
  have hok : ∀ fr ∈ p.frames, FrameOk σ0 d fr := fun fr hfr => hi.sent_ok d p hp fr hfr
  have hl : LiveTo d p.frames σ0 (dispatch σ d p) := handles_live sw rw d p.frames σ0 hok h.fair
  have ht : HandlesTo sw rw d σ0 (dispatch σ d p) := handles_fold sw rw d p.frames σ0 hok
  refine ⟨hl.fair, fun d' sid f ⟨q, hq, hfq⟩ => ?_⟩
  rw [ht.delivered] at hq
  change q ∈ upd σ.delivered d (σ.delivered d ++ [p]) d' at hq
  by_cases hd : d' = d
  · subst hd
    rw [upd_same, List.mem_append, List.mem_singleton] at hq
    rcases hq with hq | rfl
    · exact gotF_mono (hl.mono d' sid) (h.got d' sid f ⟨q, hq, hfq⟩)
    · exact hl.got sid f hfq
  · rw [upd_other _ _ _ _ hd] at hq
    exact gotF_mono (hl.mono d' sid) (h.got d' sid f ⟨q, hq, hfq⟩)

/-- a local operation of a live endpoint on one stream -/
theorem finv_stream_op {s : Stream.Stream} (h : Stream.Fair s) (op : Stream.Op)
    (hgot : ∀ i f, op = .ack i → s.emitted[i]? = some f → GotF s f)
    (hop : match op with
      | .write _ | .shutdown | .pick _ _ | .touch | .lose _ | .read _ | .deliverMsd _ | .ack _ => True
      | _ => False) :
    Stream.Fair (s.step op) ∧ ∀ f, GotF s f → GotF (s.step op) f := by
  cases op with
  | write bs => exact ⟨Stream.fair_step h (.write bs), fun f g => gotF_rcv rfl g⟩
  | shutdown => exact ⟨Stream.fair_step h .shutdown, fun f g => gotF_mono (Stream.mono_step h.reach (op := .shutdown) rfl) g⟩
  | pick o l => exact ⟨Stream.fair_step h (.pick o l), fun f g => gotF_mono (Stream.mono_step h.reach (op := .pick o l) rfl) g⟩
  | touch => exact ⟨Stream.fair_step h .touch, fun f g => gotF_rcv rfl g⟩
  | lose i => exact ⟨Stream.fair_step h (.lose i), fun f g => gotF_mono (Stream.mono_step h.reach (op := .lose i) rfl) g⟩
  | read c => exact ⟨Stream.fair_step h (.read c), fun f g => gotF_mono (Stream.mono_step h.reach (op := .read c) rfl) g⟩
  | deliverMsd i =>
    refine ⟨Stream.fair_step h (.deliverMsd i), fun f g => gotF_rcv ?_ g⟩
    simp only [Stream.Stream.step]; split <;> rfl
  | ack i =>
    refine ⟨?_, fun f g => gotF_mono (Stream.mono_step h.reach (op := .ack i) rfl) g⟩
    cases hf : s.emitted[i]? with
    | none => rw [Stream.ack_none hf]; exact h
    | some f =>
      have g := hgot i f rfl hf
      exact Stream.fair_coop h (op := .ack i) rfl (Stream.honest_ack h.hon hf g.1 g.2)
  | _ => exact absurd hop (by simp)

theorem finv_step {C : Type} {K : Crypto C} {sw rw : Nat} (ord : Order) {σ : Net C} (hi : Inv K sw rw σ) (h : FInv σ)
    (op : Op C) (ha : opAuthentic K σ op) (hl : opLive σ op) : FInv (step K ord σ op) := by
  cases op with
  | app d sid sop =>
    cases hloc : isLocal sop with
    | false => simp only [step, hloc, Bool.false_eq_true, if_false]; exact h
    | true =>
      simp only [step, hloc, if_true]
      have key := finv_stream_op (h.fair d sid) sop
        (fun i f e hf => by
          subst e
          obtain ⟨f', hf', hd⟩ := hl
          rw [hf] at hf'; cases hf'
          exact h.got d sid f hd)
        (by cases sop <;> first | trivial | exact hl | (simp [isLocal] at hloc))
      refine ⟨fun d' sid' => ?_, fun d' sid' f hd => ?_⟩
      · simp only [upd2]; split
        · exact key.1
        · exact h.fair d' sid'
      · have g := h.got d' sid' f hd
        simp only [upd2]; split
        · rename_i hc; obtain ⟨rfl, rfl⟩ := hc; exact key.2 f g
        · exact g
  | dgSend d x => exact ⟨h.fair, h.got⟩
  | send d frames => exact ⟨h.fair, h.got⟩
  | slide d n => exact ⟨h.fair, h.got⟩
  | recv d c =>
    simp only [step, recvStep]
    split
    · exact h
    · split
      · exact ⟨h.fair, h.got⟩
      · split
        · exact h
        · rename_i p ho
          split
          · exact ⟨h.fair, h.got⟩
          · split
            · exact finv_dispatch hi h d p (authentic_sent hi d c p ho (ha (by simp [ho])))
            · exact h

theorem finv_run {C : Type} {K : Crypto C} {sw rw : Nat} (ord : Order) (ops : List (Op C)) (σ : Net C)
    (hi : Inv K sw rw σ) (h : FInv σ) (hn : NoForgery K ord σ ops) (hl : Live K ord σ ops) :
    FInv (run K ord σ ops) := by
  induction ops generalizing σ with
  | nil => exact h
  | cons op rest ih =>
    simp only [run, List.foldl_cons]
    exact ih _ (inv_step ord hi op hn.1) (finv_step ord hi h op hn.1 hl.1) hn.2 hl.2

end GmQuic.Net
