import GmQuic.Lemmas.AckGen
/-! `AckFrame::iter` ↔ the cover list (C10 `iter_set_semantics`), and the prefix property of `genFrame`. -/
namespace GmQuic.RcvdJournal

def covAt (c : List Bool) (i : Nat) : Bool := c.getD i false

theorem covAt_nil (i : Nat) : covAt [] i = false := by simp [covAt]

theorem covAt_replicate_append (n : Nat) (x : Bool) (r : List Bool) (i : Nat) :
    covAt (List.replicate n x ++ r) i = if i < n then x else covAt r (i - n) := by
  induction n generalizing i with
  | zero => simp
  | succ n ih =>
    cases i with
    | zero => simp [covAt, List.replicate_succ]
    | succ i =>
      have := ih i
      simp only [covAt, List.replicate_succ, List.cons_append, List.getD_cons_succ] at this ⊢
      rw [this]; simp

theorem covAt_prefix (c bs : List Bool) (h : c <+: bs) (i : Nat) (hc : covAt c i = true) : covAt bs i = true := by
  obtain ⟨t, rfl⟩ := h
  unfold covAt at hc ⊢
  simp only [List.getD_eq_getElem?_getD] at hc ⊢
  by_cases hi : i < c.length
  · rw [List.getElem?_append_left hi]; exact hc
  · rw [List.getElem?_eq_none (by omega)] at hc; simp at hc

theorem coverRanges_length_cons (g a : Nat) (rs : List (Nat × Nat)) :
    (coverRanges ((g, a) :: rs)).length = g + a + 2 + (coverRanges rs).length := by
  simp [coverRanges]; omega

/-- `iter` of the ranges after the first: underflow exactly when the cover does not fit below `left`;
otherwise the ranges enumerate exactly the numbers the cover marks. -/
theorem iterRanges_spec (rs : List (Nat × Nat)) (left : Nat) :
    (left < (coverRanges rs).length → iterRanges left rs = none) ∧
    ((coverRanges rs).length ≤ left → ∃ out, iterRanges left rs = some out ∧
      ∀ p, covers out p = (decide (p < left) && covAt (coverRanges rs) (left - 1 - p))) := by
  induction rs generalizing left with
  | nil =>
    refine ⟨by simp [coverRanges], fun _ => ⟨[], rfl, fun p => by simp [covers, coverRanges, covAt_nil]⟩⟩
  | cons x rs ih =>
    obtain ⟨g, a⟩ := x
    rw [coverRanges_length_cons]
    constructor
    · intro hl
      simp only [iterRanges]
      split; · rfl
      split; · rfl
      have := (ih (left - g - 2 - a)).1 (by omega)
      simp [this]
    · intro hl
      obtain ⟨out, ho, hc⟩ := (ih (left - g - 2 - a)).2 (by omega)
      refine ⟨(left - g - 2 - a, left - g - 2) :: out, ?_, ?_⟩
      · simp only [iterRanges]
        rw [if_neg (by omega), if_neg (by omega), ho]; rfl
      · intro p
        simp only [covers, List.any_cons] at hc ⊢
        rw [hc p]
        simp only [coverRanges, List.append_assoc]
        rw [covAt_replicate_append, covAt_replicate_append]
        by_cases h1 : p < left - g - 2 - a
        · have e : left - 1 - p - (g + 1) - (a + 1) = left - g - 2 - a - 1 - p := by omega
          simp only [e]
          have : ¬ (left - 1 - p < g + 1) := by omega
          have : ¬ (left - 1 - p - (g + 1) < a + 1) := by omega
          have : p < left := by omega
          simp [*]; omega
        · by_cases h2 : p ≤ left - g - 2
          · have : ¬ (left - 1 - p < g + 1) := by omega
            have : (left - 1 - p - (g + 1) < a + 1) := by omega
            have : p < left := by omega
            have : left - g - 2 - a ≤ p := by omega
            simp [*]
          · by_cases h3 : p < left
            · have : (left - 1 - p < g + 1) := by omega
              have : ¬ (left - g - 2 - a ≤ p ∧ p ≤ left - g - 2) := by omega
              simp [*]
            · have : ¬ (left - g - 2 - a ≤ p ∧ p ≤ left - g - 2) := by omega
              simp [*]

theorem cover_length (first : Nat) (rs : List (Nat × Nat)) : (cover first rs).length = first + 1 + (coverRanges rs).length := by
  simp [cover]

/-- **iter_set_semantics** (list form): `AckFrame::iter` underflows exactly when the frame describes more numbers than
exist below `largest`; otherwise it enumerates exactly the numbers `largest - i` with `cover[i] = true`. -/
theorem iter_spec (f : AckFrame) :
    (f.largest + 1 < (cover f.first f.ranges).length → f.iter = none) ∧
    ((cover f.first f.ranges).length ≤ f.largest + 1 → ∃ out, f.iter = some out ∧
      ∀ p, covers out p = (decide (p ≤ f.largest) && covAt (cover f.first f.ranges) (f.largest - p))) := by
  rw [cover_length]
  constructor
  · intro h
    unfold AckFrame.iter
    split; · rfl
    have := (iterRanges_spec f.ranges (f.largest - f.first)).1 (by omega)
    simp [this]
  · intro h
    obtain ⟨out, ho, hc⟩ := (iterRanges_spec f.ranges (f.largest - f.first)).2 (by omega)
    refine ⟨(f.largest - f.first, f.largest) :: out, ?_, ?_⟩
    · unfold AckFrame.iter; rw [if_neg (by omega), ho]; rfl
    · intro p
      simp only [covers, List.any_cons] at hc ⊢
      rw [hc p]
      simp only [cover]
      rw [covAt_replicate_append]
      by_cases h1 : p < f.largest - f.first
      · have e : f.largest - p - (f.first + 1) = f.largest - f.first - 1 - p := by omega
        have : ¬ (f.largest - p < f.first + 1) := by omega
        have : p ≤ f.largest := by omega
        have : ¬ (f.largest - f.first ≤ p) := by omega
        simp [*]
      · by_cases h2 : p ≤ f.largest
        · have : (f.largest - p < f.first + 1) := by omega
          have : f.largest - f.first ≤ p := by omega
          simp [*]
        · have : ¬ (f.largest - f.first ≤ p ∧ p ≤ f.largest) := by omega
          simp [*]

/-! ### genFrame: the cover of the generated frame is a prefix of the scanned flags -/

theorem leadTrue_split (bs : List Bool) :
    bs = List.replicate (leadTrue bs) true ++ bs.drop (leadTrue bs) ∧
    (bs.drop (leadTrue bs) = [] ∨ ∃ r, bs.drop (leadTrue bs) = false :: r) ∧ leadTrue bs ≤ bs.length := by
  induction bs with
  | nil => simp [leadTrue]
  | cons b bs ih =>
    cases b
    · simp [leadTrue]
    · obtain ⟨h1, h2, h3⟩ := ih
      refine ⟨?_, ?_, ?_⟩
      · simp only [leadTrue, List.replicate_succ, List.cons_append, List.drop_succ_cons]; rw [← h1]
      · simpa [leadTrue] using h2
      · simp [leadTrue]; omega

/-- the ranges finally put into the frame (the `if last_is_acked { if capacity >= size { push } }` tail) -/
def finalRanges (r : Fold) : List (Nat × Nat) :=
  if r.last then
    if rangeCountIncr r.ranges.length + GmQuic.Wire.varintSize (r.gap - 1) + GmQuic.Wire.varintSize (r.ack - 1)
        + GmQuic.Gen.ackLastSpare ≤ r.cap
    then r.ranges ++ [(r.gap - 1, r.ack - 1)] else r.ranges
  else r.ranges

theorem finalRanges_prefix (r : List Bool) (cap0 : Nat) :
    coverRanges (finalRanges (foldRanges 1 0 false cap0 [] r)) <+: false :: r := by
  obtain ⟨rs2, tail, h1, h2, h3, -⟩ := foldRanges_prefix r 1 0 false cap0 [] ⟨by omega, by simp, by simp⟩
  simp only [List.nil_append] at h1
  have hbs : false :: r = coverRanges rs2 ++ tail := by
    rw [← h2]; simp [pend]
  rw [hbs]
  unfold finalRanges
  split
  · rename_i hlast
    obtain ⟨ht, hg, ha⟩ := h3 hlast
    split
    · rw [h1, coverRanges_append]
      have e2 : ∀ n, 1 ≤ n → n - 1 + 1 = n := by omega
      simp only [coverRanges, e2 _ hg, e2 _ ha, List.append_nil]
      exact ⟨[], by rw [ht]; simp [pend]⟩
    · rw [h1]; exact ⟨tail, rfl⟩
  · rw [h1]; exact ⟨tail, rfl⟩

theorem genFrame_ranges (largest delay cap : Nat) (bs : List Bool) (f : AckFrame) (v : Nat)
    (h : genFrame largest delay cap bs = (.ok f, v)) :
    ∃ cap0, f.ranges = finalRanges (foldRanges 1 0 false cap0 [] (bs.drop (min (leadTrue bs + 1) bs.length))) ∧
      f.first = leadTrue bs - 1 := by
  unfold genFrame at h
  simp only at h
  split at h
  · simp at h
  · simp only [Prod.mk.injEq, GenOut.ok.injEq] at h
    obtain ⟨h, -⟩ := h
    subst h
    exact ⟨_, rfl, rfl⟩

theorem genFrame_prefix (largest delay cap : Nat) (bs : List Bool) (f : AckFrame) (v : Nat)
    (h : genFrame largest delay cap bs = (.ok f, v)) (h0 : 1 ≤ leadTrue bs) :
    cover f.first f.ranges <+: bs := by
  obtain ⟨hs, hd, hl⟩ := leadTrue_split bs
  obtain ⟨cap0, hr, hf⟩ := genFrame_ranges largest delay cap bs f v h
  rw [hr, hf]
  simp only [cover]
  have e1 : leadTrue bs - 1 + 1 = leadTrue bs := by omega
  rw [e1]
  generalize hn : leadTrue bs = n at *
  rcases hd with hd | ⟨r, hd⟩
  · have hlen : bs.length = n := by
      have := congrArg List.length hs; simp [hd] at this; omega
    have hdrop : bs.drop (min (n + 1) bs.length) = [] := by
      apply List.drop_eq_nil_of_le; omega
    rw [hdrop]
    rw [hd] at hs; simp only [List.append_nil] at hs
    exact ⟨[], by simp [finalRanges, foldRanges, coverRanges, ← hs]⟩
  · have hlen : n + 1 ≤ bs.length := by
      have := congrArg List.length hs; simp [hd] at this; omega
    have hdrop : bs.drop (min (n + 1) bs.length) = r := by
      rw [Nat.min_eq_left hlen, ← List.drop_drop, hd]; rfl
    rw [hdrop]
    obtain ⟨t, ht⟩ := finalRanges_prefix r cap0
    refine ⟨t, ?_⟩
    rw [hs, hd, List.append_assoc, ht]

end GmQuic.RcvdJournal
