import GmQuic.Lemmas.AntiAmpPath
/-! Further one-step facts of the path model (any state, fixed rule unless stated). -/
namespace GmQuic.AntiAmp

theorem opOk_fixed (op : AaOp) : OpOk Rule.fixed op := by
  cases op <;> simp [OpOk, BurstOk, SegOk, Rule.fixed]

/-- One step of the fixed tree never wraps the credit, whatever the state. -/
theorem uf_step (s : PathSt) (op : AaOp) (h : s.aa.underflow = false) :
    (Path.stepRepaired s op).aa.underflow = false := by
  unfold Path.stepRepaired
  cases op with
  | rcvd n =>
    simp only [Path.stepR, onRcvd_eq]
    have h2 := fetchAdd_same s.aa (n * N)
    by_cases hst : s.aa.state = .normal
    · by_cases hn : n * N < U <;> simp [hst, hn, AA.wake, h2, h]
    · simp [hst, h]
  | grant => simp only [Path.stepR, grant_eq]; split <;> simp [h]
  | abort => simp only [Path.stepR, abort_eq]; split <;> simp [h]
  | poll => simp [Path.stepR, balance_fst, h]
  | burst segs =>
    simp only [Path.stepR, balance_fst, balance_snd]
    cases hs : s.aa.state
    · by_cases hc : s.aa.credit = 0
      · simp [hc, balNat, h]
      · simp only [hc, ↓reduceIte, balNat]
        have hsum := burstLens_sum_le Rule.fixed segs (opOk_fixed (.burst segs)) s.aa.credit
        split
        · simp [h]
        · rw [onSent_eq]; simp only [hs, ↓reduceIte]
          rw [fetchSub_le _ _ hsum]; simp [h]
    · simp only [balNat]
      split
      · simp [h]
      · rw [onSent_eq]; simp [hs, h]
    · simp [balNat, h]
  | close n =>
    simp only [Path.stepR, Rule.fixed, ↓reduceIte, balance_fst, balance_snd]
    cases hs : s.aa.state
    · by_cases hc : s.aa.credit = 0
      · simp [hc, balNat, h]
      · simp only [hc, ↓reduceIte, balNat]
        by_cases hn : n ≤ s.aa.credit ∧ n > 0
        · have : (decide (n ≤ s.aa.credit) && decide (n > 0)) = true := by simp [hn]
          simp only [this, ↓reduceIte]
          rw [onSent_eq]; simp only [hs, ↓reduceIte]
          rw [fetchSub_le _ _ hn.1]; simp [h]
        · have : (decide (n ≤ s.aa.credit) && decide (n > 0)) = false := by simp; omega
          simp [this, h]
    · simp only [balNat]
      by_cases hn : (decide (n ≤ U - 1) && decide (n > 0)) = true
      · simp only [hn, ↓reduceIte]; rw [onSent_eq]; simp [hs, h]
      · simp [hn, h]
    · simp [balNat, h]

/-- Once granted: state, credit and flags are frozen, `balance()` is `usize::MAX`. -/
theorem granted_step (r : Rule) (s : PathSt) (op : AaOp) (h : s.aa.state = .granted) :
    (Path.stepR r s op).aa.state = .granted ∧ (Path.stepR r s op).aa.credit = s.aa.credit ∧
      (Path.stepR r s op).aa.underflow = s.aa.underflow := by
  cases op with
  | rcvd n => simp [Path.stepR, onRcvd_eq, h]
  | grant => simp [Path.stepR, grant_eq, h]
  | abort => simp [Path.stepR, abort_eq, h]
  | poll => simp [Path.stepR, balance_fst, h]
  | burst segs =>
    simp only [Path.stepR, balance_fst, balance_snd, h, balNat]
    split
    · simp [h]
    · rw [onSent_eq]; simp [h]
  | close n =>
    simp only [Path.stepR, balance_fst, balance_snd, h, balNat]
    split <;> split <;> (try rw [onSent_eq]) <;> simp [h]

/-- Once aborted: nothing is sent any more (fixed tree), state frozen. -/
theorem aborted_step (s : PathSt) (op : AaOp) (h : s.aa.state = .aborted) :
    (Path.stepRepaired s op).aa.state = .aborted ∧ (Path.stepRepaired s op).sentTotal = s.sentTotal := by
  unfold Path.stepRepaired
  cases op with
  | rcvd n => simp [Path.stepR, onRcvd_eq, h]
  | grant => simp [Path.stepR, grant_eq, h]
  | abort => simp [Path.stepR, abort_eq, h]
  | poll => simp [Path.stepR, balance_fst, h]
  | burst segs => simp [Path.stepR, balance_fst, balance_snd, h, balNat]
  | close n => simp [Path.stepR, Rule.fixed, balance_fst, balance_snd, h, balNat]

end GmQuic.AntiAmp
