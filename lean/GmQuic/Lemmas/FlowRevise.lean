import GmQuic.Model.StreamRevise
import GmQuic.Lemmas.FlowSender
/-!
Helper lemmas for C11, remembered-parameters (0-RTT) path: `Sndr.revise` keeps the sending-half invariant,
`revise_params` visits every stream opened before it (`opened_streams` is read before the stream counts are
revised, and until then `unallocated ≤ max`), so every stream ends up under the fresh limits.
-/
namespace GmQuic.StreamWindow

theorem Sndr.revise_inv (s : Sndr) (rej : Bool) (m : Nat) (hi : s.Inv) : (s.revise rej m).Inv := by
  obtain ⟨h1, h2, h3, h4, h6⟩ := hi
  obtain ⟨a1, a2, a3, a4⟩ := h1
  unfold Sndr.revise
  split
  · exact ⟨⟨a1, a2, a3, a4⟩, h2, h3, h4, h6⟩
  · rename_i hr
    have hr' : s.rst = none := notSome' hr
    cases rej
    · -- accepted: `update_window(m)` raises only
      simp only [Bool.false_eq_true, ↓reduceIte]
      split
      · refine ⟨⟨?_, ?_, a3, a4⟩, h2, h3, ?_, h6⟩
        · show s.half.sentHi ≤ m; omega
        · show m ≤ max s.half.granted m; omega
        · intro f hf; simp only [hr'] at hf; cases hf
      · refine ⟨⟨a1, ?_, a3, a4⟩, h2, h3, ?_, h6⟩
        · show s.half.maxData ≤ max s.half.granted m; omega
        · intro f hf; simp only [hr'] at hf; cases hf
    · -- rejected: `forget_sent_state`, then `update_window(m)` from 0
      simp only [↓reduceIte, SendHalf.forget]
      split
      · refine ⟨⟨?_, ?_, ?_, rfl⟩, ?_, ?_, ?_, ?_⟩
        · show 0 ≤ m; omega
        · show m ≤ m; omega
        · intro r hr2; cases hr2
        · intro hf; cases hf
        · show 0 ≤ s.half.written; omega
        · intro f hf; simp only [hr'] at hf; cases hf
        · intro hf; cases hf
      · rename_i hm
        refine ⟨⟨?_, ?_, ?_, rfl⟩, ?_, ?_, ?_, ?_⟩
        · show 0 ≤ 0; omega
        · show 0 ≤ m; omega
        · intro r hr2; cases hr2
        · intro hf; cases hf
        · show 0 ≤ s.half.written; omega
        · intro f hf; simp only [hr'] at hf; cases hf
        · intro hf; cases hf

/-- What a rejection leaves of a live sending half: nothing sent, window = limit = the fresh value. -/
theorem Sndr.revise_rejected (s : Sndr) (m : Nat) (hr : s.rst = none) :
    (s.revise true m).half.granted = m ∧ (s.revise true m).half.maxData = m ∧
    (s.revise true m).half.emitted = [] ∧ (s.revise true m).half.sentHi = 0 ∧
    (s.revise true m).half.charged = 0 := by
  by_cases hm : m > 0
  · simp [Sndr.revise, hr, SendHalf.forget, hm]
  · have : m = 0 := by omega
    subst this; simp [Sndr.revise, hr, SendHalf.forget]

end GmQuic.StreamWindow

namespace GmQuic.StreamRevise
open GmQuic.StreamWindow GmQuic.Sid

theorem Per.get_set (p : Per) (d d' : Dir) (v : Nat) :
    (p.set d v).get d' = if d = d' then v else p.get d' := by
  cases d <;> cases d' <;> rfl

/-- Until the stream counts are revised, no more streams are handed out than the limit allows. -/
def Within (l : Local) : Prop := ∀ d, l.unalloc.get d ≤ l.max.get d

theorem alloc_cases (l : Local) (d : Dir) :
    ((∃ s, (l.step (.alloc d)).2 = .sid s) ∧ l.unalloc.get d < l.max.get d ∧
      (l.step (.alloc d)).1.unalloc = l.unalloc.set d (l.unalloc.get d + 1) ∧
      (l.step (.alloc d)).1.max = l.max) ∨
    ((∀ s, (l.step (.alloc d)).2 ≠ .sid s) ∧ (l.step (.alloc d)).1.unalloc = l.unalloc ∧
      (l.step (.alloc d)).1.max = l.max) := by
  unfold Local.step
  dsimp only
  split
  · right; exact ⟨by intro s; simp, rfl, rfl⟩
  · split
    · right; exact ⟨by intro s; simp, rfl, rfl⟩
    · split
      · rename_i hlt
        left; exact ⟨⟨_, rfl⟩, hlt, rfl, rfl⟩
      · right; exact ⟨by intro s; simp, rfl, rfl⟩

theorem increase_some (l : Local) (d : Dir) (v : Nat) (l' : Local) (w : Nat)
    (h : l.increase d v = some (l', w)) : l'.unalloc = l.unalloc ∧ (Within l → Within l') := by
  unfold Local.increase at h
  split at h
  · cases h
  · split at h
    · rename_i hlt
      simp only [Option.some.injEq, Prod.mk.injEq] at h
      obtain ⟨rfl, _⟩ := h
      refine ⟨rfl, ?_⟩
      intro hw d'
      show l.unalloc.get d' ≤ (l.max.set d v).get d'
      rw [Per.get_set]
      have := hw d'
      split
      · rename_i hd; subst hd; omega
      · exact this
    · simp only [Option.some.injEq, Prod.mk.injEq] at h
      obtain ⟨rfl, _⟩ := h
      exact ⟨rfl, fun hw => hw⟩

theorem maxStreams_fields (l : Local) (d : Dir) (v : Nat) (hw : Within l) :
    (l.step (.maxStreams d v)).1.unalloc = l.unalloc ∧ Within (l.step (.maxStreams d v)).1 := by
  unfold Local.step
  dsimp only
  split
  · exact ⟨rfl, hw⟩
  · split
    · exact ⟨rfl, hw⟩
    · rename_i l' w heq
      have := increase_some l d v l' w heq
      exact ⟨this.1, this.2 hw⟩

/-- Invariant before the revision. -/
structure PreInv (e : ZEp) : Prop where
  within : Within e.ids
  below : ∀ z ∈ e.ss, z.idx < e.ids.unalloc.get z.dir
  halves : ∀ z ∈ e.ss, z.s.Inv

/-- Invariant after it (and before it): every sending half is within what the peer granted. -/
def Good (e : ZEp) : Prop := ∀ z ∈ e.ss, z.s.Inv

theorem preInv_init (mb mu wb wu : Nat) : PreInv (ZEp.init mb mu wb wu) := by
  refine ⟨?_, ?_, ?_⟩
  · intro d; cases d <;> simp [ZEp.init, Per.get]
  · intro z hz; simp [ZEp.init] at hz
  · intro z hz; simp [ZEp.init] at hz

theorem good_step (e : ZEp) (op : ZOp) (hg : Good e) : Good (e.step op) := by
  cases op with
  | openS d =>
    simp only [ZEp.step]
    split
    · intro z hz
      simp only [List.mem_append, List.mem_singleton] at hz
      rcases hz with hz | hz
      · exact hg z hz
      · subst hz; exact Sndr.inv_init _
    · exact hg
  | snd d i op =>
    simp only [ZEp.step]
    split
    · exact hg
    · intro z hz
      simp only [List.mem_map] at hz
      obtain ⟨z0, hz0, rfl⟩ := hz
      split
      · exact (z0.s).step_inv op (hg z0 hz0)
      · exact hg z0 hz0
  | maxStreams d v => exact hg

theorem good_run (ops : List ZOp) (e : ZEp) (hg : Good e) : Good (e.run ops) := by
  unfold ZEp.run
  induction ops generalizing e with
  | nil => simpa using hg
  | cons op ops ih => exact ih _ (good_step e op hg)

theorem preInv_step (e : ZEp) (op : ZOp) (hp : PreInv e) : PreInv (e.step op) := by
  obtain ⟨hw, hb, hh⟩ := hp
  have hgood : Good (e.step op) := good_step e op hh
  cases op with
  | openS d =>
    rcases alloc_cases e.ids d with ⟨⟨s, hs⟩, hlt, hu, hm⟩ | ⟨hn, hu, hm⟩
    · have hstep : e.step (.openS d) =
          { e with ids := (e.ids.step (.alloc d)).1,
                   ss := e.ss ++ [⟨d, e.ids.unalloc.get d, Sndr.init (e.win d)⟩] } := by
        simp only [ZEp.step, hs]
      refine ⟨?_, ?_, hgood⟩
      · rw [hstep]; intro d'
        show (e.ids.step (.alloc d)).1.unalloc.get d' ≤ (e.ids.step (.alloc d)).1.max.get d'
        rw [hu, hm, Per.get_set]
        have := hw d'
        split
        · rename_i hd; subst hd; omega
        · exact this
      · rw [hstep]; intro z hz
        show z.idx < (e.ids.step (.alloc d)).1.unalloc.get z.dir
        rw [hu, Per.get_set]
        simp only [List.mem_append, List.mem_singleton] at hz
        rcases hz with hz | hz
        · have := hb z hz
          split
          · rename_i hd; rw [← hd] at this; omega
          · exact this
        · subst hz; simp
    · have hstep : e.step (.openS d) = { e with ids := (e.ids.step (.alloc d)).1 } := by
        simp only [ZEp.step]
      refine ⟨?_, ?_, hgood⟩
      · rw [hstep]; intro d'
        show (e.ids.step (.alloc d)).1.unalloc.get d' ≤ (e.ids.step (.alloc d)).1.max.get d'
        rw [hu, hm]; exact hw d'
      · rw [hstep]; intro z hz
        show z.idx < (e.ids.step (.alloc d)).1.unalloc.get z.dir
        rw [hu]; exact hb z hz
  | snd d i op =>
    refine ⟨?_, ?_, hgood⟩
    · simp only [ZEp.step]; split <;> exact hw
    · simp only [ZEp.step]
      split
      · exact hb
      · intro z hz
        simp only [List.mem_map] at hz
        obtain ⟨z0, hz0, rfl⟩ := hz
        split <;> exact hb z0 hz0
  | maxStreams d v =>
    obtain ⟨hu, hw'⟩ := maxStreams_fields e.ids d v hw
    refine ⟨hw', ?_, hgood⟩
    intro z hz
    show z.idx < (e.ids.step (.maxStreams d v)).1.unalloc.get z.dir
    rw [hu]; exact hb z hz

theorem preInv_run (ops : List ZOp) (e : ZEp) (hp : PreInv e) : PreInv (e.run ops) := by
  unfold ZEp.run
  induction ops generalizing e with
  | nil => simpa using hp
  | cons op ops ih => exact ih _ (preInv_step e op hp)

/-- `revise_params` visits EVERY stream opened before it. -/
theorem revise_covers (e : ZEp) (hp : PreInv e) (z : ZS) (hz : z ∈ e.ss) :
    z.idx < (match z.dir with | .bi => e.ids.openedStreams .bi | .uni => e.ids.openedStreams .uni) := by
  have h1 := hp.below z hz
  have h2 := hp.within z.dir
  unfold Local.openedStreams
  cases hd : z.dir <;> simp only [hd] at h1 h2 ⊢ <;> omega

theorem revise_good (e : ZEp) (rej : Bool) (fb fu mb mu : Nat) (hp : PreInv e) :
    Good (e.revise rej fb fu mb mu) := by
  intro z hz
  simp only [ZEp.revise, List.mem_map] at hz
  obtain ⟨z0, hz0, rfl⟩ := hz
  have h1 := hp.below z0 hz0
  have h2 := hp.within z0.dir
  unfold Local.openedStreams
  cases hd : z0.dir <;> simp only [hd] at h1 h2 ⊢
  all_goals
    split
    · exact (z0.s).revise_inv rej _ (hp.halves z0 hz0)
    · rename_i hnot; exact absurd (by omega) hnot

end GmQuic.StreamRevise
