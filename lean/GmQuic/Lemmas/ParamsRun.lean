import GmQuic.Lemmas.Params
/-! C18 lemmas: `parse_from_bytes` only yields accepted entries; invariants of the connection-level state machine. -/
namespace GmQuic.Params
open GmQuic.Gen.Params GmQuic.Wire

/-- every stored entry passed `belong_to` + `validate` with the id's own value type -/
def AllAcc (r : Role) (m : PMap) : Prop := ∀ e ∈ m, accepts r e.1 e.2 = true

/-- a map as `parse_from_bytes` for sender `r` returns it -/
def Good (r : Role) (m : PMap) : Prop := AllAcc r m ∧ (required r).all m.has = true

theorem parseValue_ty {ty : Ty} {inp : Bytes} {v : PVal} (h : parseValue ty inp = some v) : v.ty = ty := by
  cases ty <;> simp only [parseValue] at h <;> (repeat' split at h) <;>
    first
      | (cases h; rfl)
      | (simp at h)
      | (simp only [Option.some.injEq] at h; subst h; rfl)

theorem insert_AllAcc {r : Role} {m : PMap} {id : Nat} {v : PVal} (hm : AllAcc r m) (hv : accepts r id v = true) :
    AllAcc r (m.insert id v) := by
  intro e he
  simp only [PMap.insert, List.mem_cons, List.mem_filter] at he
  rcases he with rfl | ⟨he, _⟩
  · exact hv
  · exact hm e he

theorem setRow_ok {r : Role} {m m' : PMap} {row : Row} {v : PVal} (h : setRow r m row v = .ok m') :
    belongTo row.id r = true ∧ validate row v = none ∧ m' = m.insert row.id v := by
  unfold setRow at h
  split at h
  · cases h
  · split at h
    · cases h
    · rename_i hb _ hv
      cases h
      exact ⟨by simpa using hb, hv, rfl⟩

theorem accepts_of {r : Role} {id : Nat} {row : Row} {v : PVal} (hrow : row? id = some row)
    (hb : belongTo row.id r = true) (hty : v.ty = row.ty) (hv : validate row v = none) : accepts r id v = true := by
  simp [accepts, hrow, hb, hty, hv]

theorem parseLoop_AllAcc (r : Role) : ∀ (fuel : Nat) (buf : Bytes) (acc m : PMap),
    AllAcc r acc → parseLoop r fuel buf acc = some m → AllAcc r m := by
  intro fuel
  induction fuel with
  | zero => intro buf acc m _ h; simp [parseLoop] at h
  | succ n ih =>
    intro buf acc m hacc h
    unfold parseLoop at h
    split at h
    · cases h; exact hacc
    · split at h
      · cases h
      · split at h
        · cases h
        · split at h
          · cases h
          · split at h
            · exact ih _ _ _ hacc h
            · rename_i row hrow
              split at h
              · cases h
              · split at h
                · cases h
                · rename_i v hpv
                  split at h
                  · cases h
                  · rename_i acc' hset
                    obtain ⟨hb, hv, rfl⟩ := setRow_ok hset
                    have hid := row?_id hrow
                    refine ih _ _ _ (insert_AllAcc hacc ?_) h
                    rw [hid]
                    exact accepts_of hrow hb (parseValue_ty hpv) hv

theorem parse_good {r : Role} {buf : Bytes} {m : PMap} (h : parse r buf = some m) : Good r m := by
  unfold parse at h
  split at h
  · cases h
  · rename_i m' hm
    split at h
    · rename_i hreq
      cases h
      exact ⟨parseLoop_AllAcc r _ _ _ _ (by intro e he; cases he) hm, hreq⟩
    · cases h

/-! ### lookups in a good map -/

theorem has_get {m : PMap} {id : Nat} (h : m.has id = true) : ∃ v, m.get? id = some v ∧ (id, v) ∈ m := by
  simp only [PMap.has, List.any_eq_true, beq_iff_eq] at h
  obtain ⟨e, he, hid⟩ := h
  cases hf : m.find? (fun e => e.1 == id) with
  | none =>
    have := List.find?_eq_none.mp hf e he
    simp [hid] at this
  | some e' =>
    have h1 := List.find?_some hf
    have h2 := List.mem_of_find?_eq_some hf
    refine ⟨e'.2, by simp [PMap.get?, hf], ?_⟩
    have : e'.1 = id := by simpa using h1
    rw [← this]; exact h2

theorem accepts_ty {r : Role} {id : Nat} {v : PVal} (h : accepts r id v = true) :
    (row? id).map (·.ty) = some v.ty := by
  unfold accepts at h
  cases hr : row? id with
  | none => simp [hr] at h
  | some row =>
    simp only [hr, Bool.and_eq_true, beq_iff_eq] at h
    simp [h.1.2]

theorem good_cid {r : Role} {m : PMap} {id : Nat} (hm : AllAcc r m) (hid : m.has id = true)
    (hty : (row? id).map (·.ty) = some .connectionId) : ∃ c, getCid m id = some c := by
  obtain ⟨v, hget, hmem⟩ := has_get hid
  have := accepts_ty (hm _ hmem)
  rw [hty] at this
  simp only [Option.some.injEq] at this
  cases v <;> simp [PVal.ty] at this
  rename_i c
  exact ⟨c, by simp [getCid, getVal, hget]⟩

theorem good_ne_nil {r : Role} {m : PMap} (h : Good r m) : m ≠ [] := by
  intro hn
  have h2 := h.2
  rw [hn] at h2
  cases r <;> revert h2 <;> decide

/-! ### authenticate -/

/-- what `authenticate_cids` returning `Ok(true)` establishes -/
def Authd (s : Core) : Prop :=
  ∃ c, s.initialScid = some c ∧ getCid s.remote idISCID = some c ∧
    (s.role = .client → getCid s.remote idODCID = some s.odcid ∧ getCid s.remote idRSCID = s.retryScid)

instance (s : Core) : Decidable (Authd s) := by
  unfold Authd
  cases h : s.initialScid with
  | none => exact isFalse (by simp)
  | some c =>
    by_cases h1 : getCid s.remote idISCID = some c
    · by_cases h2 : (s.role = .client → getCid s.remote idODCID = some s.odcid ∧ getCid s.remote idRSCID = s.retryScid)
      · exact isTrue ⟨c, rfl, h1, h2⟩
      · exact isFalse (by rintro ⟨c', hc, _, h3⟩; cases hc; exact h2 h3)
    · exact isFalse (by rintro ⟨c', hc, h3, _⟩; cases hc; exact h1 h3)

theorem authenticate_ok_iff (s : Core) : authenticate s = some .ok ↔ Authd s := by
  unfold authenticate Authd
  cases hi : s.initialScid with
  | none => simp
  | some c =>
    cases hd : getCid s.remote idISCID with
    | none => simp
    | some d =>
      by_cases hdc : d = c
      · subst hdc
        cases hr : s.role with
        | server => simp
        | client =>
          by_cases hrs : getCid s.remote idRSCID = s.retryScid
          · cases ho : getCid s.remote idODCID with
            | none => simp [hrs]
            | some o =>
              by_cases hoo : o = s.odcid
              · simp [hrs, hoo]
              · simp [hrs, hoo]
          · simp [hrs]
      · simp [hdc]

/-- On a good map `authenticate_cids` never hits `.expect("this value must be set")`. -/
theorem authenticate_no_panic (s : Core) (hg : Good s.role.peer s.remote) : authenticate s ≠ none := by
  have h15 : ∃ c, getCid s.remote idISCID = some c := by
    refine good_cid hg.1 ?_ (by decide)
    have := hg.2
    have hmem : ∀ r : Role, idISCID ∈ required r := by intro r; cases r <;> decide
    exact (List.all_eq_true.mp this) idISCID (hmem _)
  obtain ⟨d, hd⟩ := h15
  unfold authenticate
  cases hi : s.initialScid with
  | none => simp
  | some c =>
    simp only [hd]
    split
    · simp
    · cases hr : s.role with
      | server => simp
      | client =>
        have h0 : ∃ c, getCid s.remote idODCID = some c := by
          refine good_cid hg.1 ?_ (by decide)
          have := hg.2
          rw [hr] at this
          exact (List.all_eq_true.mp this) idODCID (by decide)
        obtain ⟨o, ho⟩ := h0
        simp only [ho]
        split <;> (try split) <;> simp

end GmQuic.Params
