import GmQuic.Lemmas.Sid
/-! Invariants of `Sid.Local` and `Sid.Remote` over arbitrary histories (and arbitrary strategies). -/
namespace GmQuic.Sid

/-! ## Remote: `answer` touches neither the cursor nor the ghost list of created ids -/
section
variable {κ : Type}

@[simp] theorem Remote.answer_role (r : Remote κ) (d) (ka) : (r.answer d ka).1.role = r.role := by
  unfold Remote.answer; split <;> (try split) <;> rfl
@[simp] theorem Remote.answer_unalloc (r : Remote κ) (d) (ka) : (r.answer d ka).1.unalloc = r.unalloc := by
  unfold Remote.answer; split <;> (try split) <;> rfl
@[simp] theorem Remote.answer_ranges (r : Remote κ) (d) (ka) : (r.answer d ka).1.ranges = r.ranges := by
  unfold Remote.answer; split <;> (try split) <;> rfl
@[simp] theorem Remote.answer_created (r : Remote κ) (d) (ka) : (r.answer d ka).1.created = r.created := by
  simp [Remote.created]

/-- What a `try_accept_sid` that creates streams does to cursor and ghost list. -/
theorem Remote.step_accept_cases (S : Strategy κ) (r : Remote κ) (s : Nat) :
    ((r.step S (.accept s)).1.created = r.created ∧ (r.step S (.accept s)).1.unalloc = r.unalloc ∧
      (r.step S (.accept s)).1.role = r.role ∧ ∀ a b f, (r.step S (.accept s)).2 ≠ .new a b f) ∨
    (r.poisoned = false ∧ sidRole s = r.role ∧ sidIdx s ≤ r.max.get (sidDir s) ∧ r.unalloc.get (sidDir s) ≤ sidIdx s ∧
      (r.step S (.accept s)).1.created =
        r.created ++ idsFrom r.role (sidDir s) (r.unalloc.get (sidDir s)) (sidIdx s + 1 - r.unalloc.get (sidDir s)) ∧
      (r.step S (.accept s)).1.unalloc = r.unalloc.set (sidDir s) (sidIdx s + 1) ∧
      (r.step S (.accept s)).1.role = r.role) := by
  simp only [Remote.step]
  by_cases hp : r.poisoned = true
  · left; simp [hp]
  · by_cases hr : sidRole s ≠ r.role
    · left; simp [hp, hr, Remote.created]
    · by_cases h1 : sidIdx s > r.max.get (sidDir s)
      · left; simp [hp, hr, h1]
      · by_cases h2 : sidIdx s < r.unalloc.get (sidDir s)
        · left; simp [hp, hr, h1, h2]
        · right
          have hr' : sidRole s = r.role := by simpa using hr
          refine ⟨by simpa using hp, hr', by omega, by omega, ?_, ?_, ?_⟩ <;>
            (simp only [hp, hr, h1, h2, if_false, Bool.false_eq_true]; split <;>
              simp [Remote.created, List.flatMap_append])

theorem Remote.step_eos_frame (S : Strategy κ) (r : Remote κ) (s : Nat) :
    (r.step S (.eos s)).1.created = r.created ∧ (r.step S (.eos s)).1.unalloc = r.unalloc ∧
    (r.step S (.eos s)).1.role = r.role := by
  simp only [Remote.step]
  split <;> (try split) <;> (try split) <;> simp

theorem Remote.step_blocked_frame (S : Strategy κ) (r : Remote κ) (d : Dir) (v : Nat) :
    (r.step S (.blocked d v)).1.created = r.created ∧ (r.step S (.blocked d v)).1.unalloc = r.unalloc ∧
    (r.step S (.blocked d v)).1.role = r.role := by
  simp only [Remote.step]
  split <;> (try split) <;> simp

/-- Invariant: per kind, the ids yielded by all `NeedCreate`s so far are exactly the indices
`0 .. unallocated-1`, in order. -/
def Remote.Inv (r : Remote κ) : Prop :=
  ∀ d, ofDir r.created d = idsFrom r.role d 0 (r.unalloc.get d)

theorem Remote.inv_new (role : Role) (mb mu : Nat) (k : κ) : (Remote.new role mb mu k).Inv := by
  intro d; cases d <;> rfl

theorem Remote.inv_step (S : Strategy κ) (r : Remote κ) (op : ROp) (h : r.Inv) : (r.step S op).1.Inv := by
  cases op with
  | eos s =>
    obtain ⟨h1, h2, h3⟩ := Remote.step_eos_frame S r s
    intro d; rw [h1, h2, h3]; exact h d
  | blocked d v =>
    obtain ⟨h1, h2, h3⟩ := Remote.step_blocked_frame S r d v
    intro d; rw [h1, h2, h3]; exact h d
  | accept s =>
    rcases Remote.step_accept_cases S r s with ⟨h1, h2, h3, _⟩ | ⟨_, _, _, hle, h1, h2, h3⟩
    · intro d; rw [h1, h2, h3]; exact h d
    · intro d
      rw [h1, h2, h3, ofDir, List.filter_append]
      by_cases hd : d = sidDir s
      · subst hd
        rw [filter_idsFrom_same, Per.get_set_same]
        have := h (sidDir s)
        rw [ofDir] at this
        rw [this]
        have e := idsFrom_append r.role (sidDir s) 0 (r.unalloc.get (sidDir s)) (sidIdx s + 1 - r.unalloc.get (sidDir s))
        rw [Nat.zero_add] at e
        rw [e]; congr 1; omega
      · rw [filter_idsFrom_other _ _ _ hd, List.append_nil, Per.get_set_ne _ _ hd]
        exact h d

theorem Remote.inv_run (S : Strategy κ) (r : Remote κ) (ops : List ROp) (h : r.Inv) : (r.run S ops).Inv := by
  induction ops generalizing r with
  | nil => exact h
  | cons op ops ih => exact ih _ (Remote.inv_step S r op h)

theorem Remote.run_role (S : Strategy κ) (r : Remote κ) (ops : List ROp) : (r.run S ops).role = r.role := by
  induction ops generalizing r with
  | nil => rfl
  | cons op ops ih =>
    show (Remote.run S (r.step S op).1 ops).role = r.role
    rw [ih]
    cases op with
    | eos s => exact (Remote.step_eos_frame S r s).2.2
    | blocked d v => exact (Remote.step_blocked_frame S r d v).2.2
    | accept s => rcases Remote.step_accept_cases S r s with ⟨_, _, h3, _⟩ | ⟨_, _, _, _, _, _, h3⟩ <;> exact h3

/-- A list of stream ids whose per-kind sublists are duplicate free is duplicate free. -/
theorem nodup_of_ofDir {l : List Nat} (h : ∀ d, (ofDir l d).Nodup) : l.Nodup := by
  induction l with
  | nil => exact List.nodup_nil
  | cons a l ih =>
    rw [List.nodup_cons]
    constructor
    · intro ha
      have := h (sidDir a)
      simp only [ofDir, List.filter_cons, if_true, decide_true] at this
      rw [List.nodup_cons] at this
      exact this.1 (List.mem_filter.2 ⟨ha, by simp⟩)
    · apply ih
      intro d
      have := h d
      simp only [ofDir, List.filter_cons] at this
      split at this
      · exact (List.nodup_cons.1 this).2
      · exact this

theorem Remote.Inv.nodup {r : Remote κ} (h : r.Inv) : r.created.Nodup :=
  nodup_of_ofDir fun d => by rw [h d]; exact idsFrom_nodup _ _ _ _

theorem Remote.Inv.mem_iff {r : Remote κ} (h : r.Inv) (d : Dir) (i : Nat) :
    sid r.role d i ∈ r.created ↔ i < r.unalloc.get d := by
  have : sid r.role d i ∈ r.created ↔ sid r.role d i ∈ ofDir r.created d := by
    simp [ofDir, List.mem_filter, sidDir_sid]
  rw [this, h d, mem_idsFrom]
  constructor
  · rintro ⟨k, hk, e⟩; have := sid_inj e; omega
  · intro hi; exact ⟨i, hi, by rw [Nat.zero_add]⟩

end

/-! ## Local -/

theorem Local.increase_frame {l l' : Local} {d : Dir} {v w : Nat} (h : l.increase d v = some (l', w)) :
    l'.role = l.role ∧ l'.unalloc = l.unalloc ∧ l'.opened = l.opened ∧ l'.poisoned = l.poisoned ∧
    l'.rejected = l.rejected ∧ v ≤ LIMIT ∧
    (∀ d', l'.max.get d' = if d' = d then Max.max (l.max.get d) v else l.max.get d') := by
  unfold Local.increase at h
  split at h
  · cases h
  · split at h <;> injection h with h <;> injection h with h1 h2 <;> subst h1
    · refine ⟨rfl, rfl, rfl, rfl, rfl, by omega, ?_⟩
      intro d'; rw [Per.get_set]; split
      · rename_i e; subst e; omega
      · rfl
    · refine ⟨rfl, rfl, rfl, rfl, rfl, by omega, ?_⟩
      intro d'; split
      · rename_i e; subst e; omega
      · rfl

/-- Invariant for every history: per kind, the ids handed out are exactly the indices `0 .. unallocated-1`. -/
def Local.Inv (l : Local) : Prop :=
  ∀ d, ofDir l.opened d = idsFrom l.role d 0 (l.unalloc.get d)

/-- Invariant for histories without a 0-RTT rejection. -/
def Local.Within (l : Local) : Prop := ∀ d, l.unalloc.get d ≤ l.max.get d

def LOp.isRejection : LOp → Bool
  | .revise true _ _ => true
  | _ => false

end GmQuic.Sid

namespace GmQuic.Sid

/-! ## Local: step lemmas -/

theorem Local.step_alloc_cases (l : Local) (d : Dir) :
    ((l.step (.alloc d)).1.opened = l.opened ∧ (l.step (.alloc d)).1.unalloc = l.unalloc ∧
      (l.step (.alloc d)).1.max = l.max ∧ (l.step (.alloc d)).1.role = l.role ∧
      (l.step (.alloc d)).1.poisoned = l.poisoned ∧ ∀ s, (l.step (.alloc d)).2 ≠ .sid s) ∨
    (l.unalloc.get d < l.max.get d ∧ l.unalloc.get d ≤ LIMIT ∧ l.poisoned = false ∧
      (l.step (.alloc d)).2 = .sid (sid l.role d (l.unalloc.get d)) ∧
      (l.step (.alloc d)).1.opened = l.opened ++ [sid l.role d (l.unalloc.get d)] ∧
      (l.step (.alloc d)).1.unalloc = l.unalloc.set d (l.unalloc.get d + 1) ∧
      (l.step (.alloc d)).1.max = l.max ∧ (l.step (.alloc d)).1.role = l.role ∧
      (l.step (.alloc d)).1.poisoned = false) := by
  simp only [Local.step]
  by_cases hp : l.poisoned = true
  · left; simp [hp]
  · by_cases h1 : l.unalloc.get d > LIMIT
    · left; simp [hp, h1]
    · by_cases h2 : l.unalloc.get d < l.max.get d
      · right; simp [hp, h1, h2]; omega
      · left; simp [hp, h1, h2]

/-- `recv_max_streams_frame` / `revise_max_streams` never touch the cursor or the ghost list. -/
theorem Local.step_limit_frame (l : Local) (op : LOp) (h : ∀ d, op ≠ .alloc d) :
    (l.step op).1.opened = l.opened ∧ (l.step op).1.unalloc = l.unalloc ∧ (l.step op).1.role = l.role := by
  cases op with
  | alloc d => exact absurd rfl (h d)
  | maxStreams d v =>
    simp only [Local.step]
    split
    · simp
    · split
      · simp
      · rename_i l' w he
        obtain ⟨h1, h2, h3, _⟩ := Local.increase_frame he
        exact ⟨h3, h2, h1⟩
  | revise rej b u =>
    simp only [Local.step]
    split
    · simp
    · split
      · cases rej <;> simp
      · rename_i l1 w1 he1
        obtain ⟨a1, a2, a3, _⟩ := Local.increase_frame he1
        split
        · cases rej <;> simp_all
        · rename_i l2 w2 he2
          obtain ⟨b1, b2, b3, _⟩ := Local.increase_frame he2
          cases rej <;> simp_all

theorem Local.inv_new {role : Role} {mb mu : Nat} {l : Local} (h : Local.new role mb mu = some l) : l.Inv := by
  unfold Local.new at h
  split at h
  · injection h with h; subst h; intro d; cases d <;> rfl
  · cases h

theorem Local.inv_step (l : Local) (op : LOp) (h : l.Inv) : (l.step op).1.Inv := by
  cases op with
  | alloc d =>
    rcases Local.step_alloc_cases l d with ⟨h1, h2, _, h4, _⟩ | ⟨_, _, _, _, h1, h2, _, h4, _⟩
    · intro d'; rw [h1, h2, h4]; exact h d'
    · intro d'
      rw [h1, h2, h4, ofDir, List.filter_append]
      by_cases hd : d' = d
      · subst hd
        have := h d'
        rw [ofDir] at this
        rw [this, Per.get_set_same]
        have e := idsFrom_append l.role d' 0 (l.unalloc.get d') 1
        rw [← e]
        congr 1
        simp [idsFrom, sidDir_sid]
      · rw [Per.get_set_ne _ _ hd]
        have : List.filter (fun s => decide (sidDir s = d')) [sid l.role d (l.unalloc.get d)] = [] := by
          simp [sidDir_sid, Ne.symm hd]
        rw [this, List.append_nil]
        exact h d'
  | maxStreams d v =>
    obtain ⟨h1, h2, h3⟩ := Local.step_limit_frame l (.maxStreams d v) (by intro d' h; cases h)
    intro d'; rw [h1, h2, h3]; exact h d'
  | revise rej b u =>
    obtain ⟨h1, h2, h3⟩ := Local.step_limit_frame l (.revise rej b u) (by intro d' h; cases h)
    intro d'; rw [h1, h2, h3]; exact h d'

theorem Local.inv_run (l : Local) (ops : List LOp) (h : l.Inv) : (l.run ops).Inv := by
  induction ops generalizing l with
  | nil => exact h
  | cons op ops ih => exact ih _ (Local.inv_step l op h)

/-- Without a 0-RTT rejection the limit only grows, so the cursor stays below it. -/
theorem Local.within_step (l : Local) (op : LOp) (hr : op.isRejection = false) (h : l.Within) :
    (l.step op).1.Within := by
  cases op with
  | alloc d =>
    rcases Local.step_alloc_cases l d with ⟨_, h2, h3, _⟩ | ⟨hlt, _, _, _, _, h2, h3, _⟩
    · intro d'; rw [h2, h3]; exact h d'
    · intro d'; rw [h2, h3, Per.get_set]; split
      · rename_i e; subst e; omega
      · exact h d'
  | maxStreams d v =>
    simp only [Local.step]
    split
    · exact h
    · split
      · exact h
      · rename_i l' w he
        obtain ⟨_, h2, _, _, _, _, h7⟩ := Local.increase_frame he
        intro d'; rw [h2, h7]; have := h d'
        by_cases e : d' = d
        · subst e; simp only [if_true]; omega
        · simp only [e, if_false]; omega
  | revise rej b u =>
    cases rej with
    | true => simp [LOp.isRejection] at hr
    | false =>
      simp only [Local.step]
      split
      · exact h
      · simp only [Bool.false_eq_true, if_false]
        split
        · exact h
        · rename_i l1 w1 he1
          obtain ⟨_, a2, _, _, _, _, a7⟩ := Local.increase_frame he1
          have h1 : l1.Within := by
            intro d'; rw [a2, a7]; have := h d'
            by_cases e : d' = Dir.bi
            · subst e; simp only [if_true]; omega
            · simp only [e, if_false]; omega
          split
          · exact h1
          · rename_i l2 w2 he2
            obtain ⟨_, b2, _, _, _, _, b7⟩ := Local.increase_frame he2
            intro d'; rw [b2, b7]; have := h1 d'
            by_cases e : d' = Dir.uni
            · subst e; simp only [if_true]; omega
            · simp only [e, if_false]; omega

theorem Local.within_run (l : Local) (ops : List LOp) (hr : ∀ op ∈ ops, op.isRejection = false)
    (h : l.Within) : (l.run ops).Within := by
  induction ops generalizing l with
  | nil => exact h
  | cons op ops ih =>
    exact ih _ (fun o ho => hr o (List.mem_cons_of_mem _ ho))
      (Local.within_step l op (hr op List.mem_cons_self) h)

theorem Local.within_new {role : Role} {mb mu : Nat} {l : Local} (h : Local.new role mb mu = some l) : l.Within := by
  unfold Local.new at h
  split at h
  · injection h with h; subst h; intro d; cases d <;> simp [Per.get]
  · cases h

end GmQuic.Sid
