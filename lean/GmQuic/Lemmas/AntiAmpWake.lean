import GmQuic.Model.AntiAmp
/-! No lost wake-up between `balance()` answering `Err(CREDIT)` and a concurrent
`on_rcvd` / `grant` / `abort`, at atomic-operation granularity (invariant `WInv`). -/
namespace GmQuic.AntiAmp

/-- frames that will still call `wake_by(CREDIT)` as their next operation -/
def Frame.wk : Frame → Nat
  | .rcvd2 | .grant1 | .abort1 => 1
  | _ => 0

def wakers (p : List Frame) : Nat := (p.map Frame.wk).sum

/-- frames of the methods that run concurrently with the sender -/
def Frame.poolKind : Frame → Prop
  | .rcvd0 _ | .rcvd1 _ | .rcvd2 | .grant0 | .grant1 | .abort0 | .abort1 => True
  | _ => False

theorem wakers_cons (f : Frame) (p : List Frame) : wakers (f :: p) = f.wk + wakers p := by
  simp [wakers]

theorem wakers_append (p : List Frame) (f : Frame) : wakers (p ++ [f]) = wakers p + f.wk := by
  simp [wakers]

/-- effect of a pool step as far as the wake protocol is concerned -/
def WRel (a : AA) (w : Nat) (a' : AA) (w' : Nat) : Prop :=
  a'.sig = true ∨
    (a'.sig = a.sig ∧ w ≤ w' ∧ ((a'.credit = a.credit ∧ a'.state = a.state) ∨ 0 < w'))

theorem wrel_add {a a' : AA} {w w' : Nat} (h : WRel a w a' w') (k : Nat) :
    WRel a (w + k) a' (w' + k) := by
  unfold WRel at h ⊢
  rcases h with h | ⟨h2, h3, h4⟩
  · exact Or.inl h
  · refine Or.inr ⟨h2, by omega, ?_⟩
    rcases h4 with h4 | h4
    · exact Or.inl h4
    · exact Or.inr (by omega)

theorem wrel_add_left {a a' : AA} {w w' : Nat} (h : WRel a w a' w') (k : Nat) :
    WRel a (k + w) a' (k + w') := by
  rw [Nat.add_comm k w, Nat.add_comm k w']; exact wrel_add h k

theorem or_wakers_mono {P : Prop} {w w' : Nat} (h : P ∨ 0 < w) (hw : w ≤ w') : P ∨ 0 < w' := by
  rcases h with h | h
  · exact Or.inl h
  · exact Or.inr (by omega)

theorem frame_step_wrel (f : Frame) (a : AA) (hf : f.poolKind) :
    match f.step a with
    | (a', .inl f') => f'.poolKind ∧ WRel a f.wk a' f'.wk
    | (a', .inr _) => WRel a f.wk a' 0 := by
  cases f <;> simp only [Frame.poolKind] at hf
  · rename_i n
    by_cases hs : a.state = .normal <;> simp [Frame.step, hs, Frame.poolKind, Frame.wk, WRel]
  · rename_i n
    by_cases hn : n * N < U
    · simp only [Frame.step, hn, ↓reduceIte, Frame.poolKind, Frame.wk, WRel, true_and]
      right
      refine ⟨?_, by omega, Or.inr (by omega)⟩
      unfold AA.fetchAdd; split <;> rfl
    · simp [Frame.step, hn, Frame.wk, WRel]
  · simp [Frame.step, AA.wake, WRel]
  · by_cases hs : a.state = .normal <;> simp [Frame.step, AA.cas, hs, Frame.poolKind, Frame.wk, WRel]
  · simp [Frame.step, AA.wake, WRel]
  · by_cases hs : a.state = .normal <;> simp [Frame.step, AA.cas, hs, Frame.poolKind, Frame.wk, WRel]
  · simp [Frame.step, AA.wake, WRel]

theorem stepAt_wrel (i : Nat) (p : List Frame) (a : AA) (hp : ∀ f ∈ p, f.poolKind) :
    (∀ f ∈ (stepAt i p a).1, f.poolKind) ∧
      WRel a (wakers p) (stepAt i p a).2 (wakers (stepAt i p a).1) := by
  induction p generalizing i with
  | nil => simp [stepAt, WRel, wakers]
  | cons f fs ih =>
    cases i with
    | zero =>
      have hfr := frame_step_wrel f a (hp f (by simp))
      simp only [stepAt]
      generalize f.step a = r at hfr
      obtain ⟨a', r⟩ := r
      cases r with
      | inl f' =>
        simp only at hfr ⊢
        obtain ⟨h1, h2⟩ := hfr
        refine ⟨?_, ?_⟩
        · intro g hg; simp at hg; rcases hg with rfl | hg
          · exact h1
          · exact hp g (by simp [hg])
        · rw [wakers_cons, wakers_cons]; exact wrel_add h2 _
      | inr _ =>
        simp only at hfr ⊢
        refine ⟨fun g hg => hp g (by simp [hg]), ?_⟩
        rw [wakers_cons]
        have := wrel_add hfr (wakers fs)
        simpa using this
    | succ i =>
      have := ih i (fun g hg => hp g (by simp [hg]))
      simp only [stepAt]
      obtain ⟨h1, h2⟩ := this
      refine ⟨?_, ?_⟩
      · intro g hg; simp at hg; rcases hg with rfl | hg
        · exact hp g (by simp)
        · exact h1 g hg
      · rw [wakers_cons, wakers_cons]; exact wrel_add_left h2 _

/-- The wake invariant. -/
structure WInv (s : Conc) : Prop where
  pool : ∀ f ∈ s.pool, f.poolKind
  /-- about to re-check the state after reading credit 0 -/
  bal2 : s.sender = .polling .bal2 → s.aa.sig = false → s.aa.credit = 0 ∨ 0 < wakers s.pool
  /-- asleep without a pending signal: nothing to send for, or a waker is on its way -/
  asleep : s.sender = .asleep → s.aa.sig = false →
    (s.aa.state = .normal ∧ s.aa.credit = 0) ∨ 0 < wakers s.pool

theorem winv_step (s : Conc) (op : COp) (hi : WInv s) : WInv (s.step op) := by
  obtain ⟨pool, hb2, hsl⟩ := hi
  cases op with
  | callRcvd n =>
    simp only [Conc.step]
    refine ⟨?_, ?_, ?_⟩
    · intro f hf; simp at hf; rcases hf with hf | rfl
      · exact pool f hf
      · simp [Frame.poolKind]
    · intro h1 h2; rw [wakers_append]; exact or_wakers_mono (hb2 h1 h2) (by omega)
    · intro h1 h2; rw [wakers_append]; exact or_wakers_mono (hsl h1 h2) (by omega)
  | callGrant =>
    simp only [Conc.step]
    refine ⟨?_, ?_, ?_⟩
    · intro f hf; simp at hf; rcases hf with hf | rfl
      · exact pool f hf
      · simp [Frame.poolKind]
    · intro h1 h2; rw [wakers_append]; exact or_wakers_mono (hb2 h1 h2) (by omega)
    · intro h1 h2; rw [wakers_append]; exact or_wakers_mono (hsl h1 h2) (by omega)
  | callAbort =>
    simp only [Conc.step]
    refine ⟨?_, ?_, ?_⟩
    · intro f hf; simp at hf; rcases hf with hf | rfl
      · exact pool f hf
      · simp [Frame.poolKind]
    · intro h1 h2; rw [wakers_append]; exact or_wakers_mono (hb2 h1 h2) (by omega)
    · intro h1 h2; rw [wakers_append]; exact or_wakers_mono (hsl h1 h2) (by omega)
  | stepPool i =>
    have hr := stepAt_wrel i s.pool s.aa pool
    simp only [Conc.step]
    generalize stepAt i s.pool s.aa = r at hr
    obtain ⟨p', a'⟩ := r
    obtain ⟨hp', rel⟩ := hr
    simp only at hp' rel ⊢
    unfold WRel at rel
    refine ⟨hp', ?_, ?_⟩
    · intro h1 h2
      rcases rel with rel | ⟨r1, r2, r3⟩
      · simp [rel] at h2
      · have := hb2 h1 (by rw [← r1]; exact h2)
        rcases r3 with ⟨r3, _⟩ | r3
        · rw [r3]; exact or_wakers_mono this r2
        · exact Or.inr r3
    · intro h1 h2
      rcases rel with rel | ⟨r1, r2, r3⟩
      · simp [rel] at h2
      · have := hsl h1 (by rw [← r1]; exact h2)
        rcases r3 with ⟨r3, r4⟩ | r3
        · rw [r3, r4]; exact or_wakers_mono this r2
        · exact Or.inr r3
  | senderStep amt =>
    simp only [Conc.step]
    cases hsd : s.sender with
    | idle => exact ⟨pool, by simp, by simp⟩
    | stopped => simp only; exact ⟨pool, by simp [hsd], by simp [hsd]⟩
    | holding c => simp only; split <;> exact ⟨pool, by simp, by simp⟩
    | asleep =>
      simp only
      split
      · exact ⟨pool, by simp, by simp⟩
      · exact ⟨pool, by simp [hsd], hsl⟩
    | sending f =>
      simp only
      generalize f.step s.aa = r
      obtain ⟨a', r⟩ := r
      cases r <;> exact ⟨pool, by simp, by simp⟩
    | polling f =>
      cases f
      case bal1 =>
        simp only [Frame.step]
        by_cases hc : s.aa.credit = 0
        · simp only [hc, ↓reduceIte]; exact ⟨pool, fun _ _ => Or.inl hc, by simp⟩
        · simp only [hc, ↓reduceIte]; exact ⟨pool, by simp, by simp⟩
      case bal2 =>
        simp only [Frame.step]
        by_cases hs : s.aa.state = .normal
        · simp only [hs, ↓reduceIte]
          refine ⟨pool, by simp, ?_⟩
          intro _ h2
          rcases hb2 hsd h2 with h | h
          · exact Or.inl ⟨hs, h⟩
          · exact Or.inr h
        · simp only [hs, ↓reduceIte]; exact ⟨pool, by simp, by simp⟩
      case bal0 =>
        simp only [Frame.step]
        cases s.aa.state <;> exact ⟨pool, by simp, by simp⟩
      case bal3 st =>
        simp only [Frame.step]
        cases st <;> simp only [reduceCtorEq, ↓reduceIte] <;> exact ⟨pool, by simp, by simp⟩
      case rcvd0 n =>
        by_cases hs : s.aa.state = .normal <;> simp only [Frame.step, hs, ↓reduceIte] <;>
          exact ⟨pool, by simp, by simp⟩
      case rcvd1 n =>
        by_cases hn : n * N < U <;> simp only [Frame.step, hn, ↓reduceIte] <;>
          exact ⟨pool, by simp, by simp⟩
      case sent0 n =>
        by_cases hs : s.aa.state = .normal <;> simp only [Frame.step, hs, ↓reduceIte] <;>
          exact ⟨pool, by simp, by simp⟩
      case grant0 =>
        by_cases hs : s.aa.state = .normal <;> simp only [Frame.step, AA.cas, hs, ↓reduceIte] <;>
          exact ⟨pool, by simp, by simp⟩
      case abort0 =>
        by_cases hs : s.aa.state = .normal <;> simp only [Frame.step, AA.cas, hs, ↓reduceIte] <;>
          exact ⟨pool, by simp, by simp⟩
      all_goals
        simp only [Frame.step]
        exact ⟨pool, by simp, by simp⟩

end GmQuic.AntiAmp
