import GmQuic.Lemmas.NetLive
import GmQuic.Lemmas.NetFair
/-!
C02 liveness, part 3: the C01 cooperative suffixes as operation lists (the schedules of `Stream.eventually_complete` and
`Stream.eventually_flushed`), to be carried at packet level by `liftAll`.
-/
namespace GmQuic.Stream

/-- the schedule of `eventually_complete` from `s0`: shutdown; every frame in flight lost or delivered+acknowledged
(`keep`); the picks `ps`; exactly the frames these picks emitted delivered and acknowledged; two large reads -/
def coopSuffix (s0 : Stream) (keep : Nat → Bool) (ps : List (Nat × Nat)) (cap : Nat) : List Op :=
  (.shutdown :: settleOps keep (List.range s0.emitted.length)) ++ pickOps ps ++
    (settleOps (fun _ => true) (List.range' s0.emitted.length
        (((s0.run (.shutdown :: settleOps keep (List.range s0.emitted.length))).run (pickOps ps)).emitted.length -
          s0.emitted.length)) ++ [.read cap, .read cap])

/-- the schedule of `eventually_flushed` (the application does not shut the stream down) -/
def flushSuffix (s0 : Stream) (keep : Nat → Bool) (ps : List (Nat × Nat)) (cap : Nat) : List Op :=
  settleOps keep (List.range s0.emitted.length) ++ pickOps ps ++
    (settleOps (fun _ => true) (List.range' s0.emitted.length
        (((s0.run (settleOps keep (List.range s0.emitted.length))).run (pickOps ps)).emitted.length -
          s0.emitted.length)) ++ [.read cap])

theorem coopSuffix_run (s0 : Stream) (keep : Nat → Bool) (ps : List (Nat × Nat)) (cap : Nat) :
    s0.run (coopSuffix s0 keep ps cap) =
      (((s0.run (.shutdown :: settleOps keep (List.range s0.emitted.length))).run (pickOps ps)).run
        (settleOps (fun _ => true) (List.range' s0.emitted.length
          (((s0.run (.shutdown :: settleOps keep (List.range s0.emitted.length))).run (pickOps ps)).emitted.length -
            s0.emitted.length)) ++ [.read cap, .read cap])) := by
  simp only [coopSuffix, run_append]

theorem flushSuffix_run (s0 : Stream) (keep : Nat → Bool) (ps : List (Nat × Nat)) (cap : Nat) :
    s0.run (flushSuffix s0 keep ps cap) =
      (((s0.run (settleOps keep (List.range s0.emitted.length))).run (pickOps ps)).run
        (settleOps (fun _ => true) (List.range' s0.emitted.length
          (((s0.run (settleOps keep (List.range s0.emitted.length))).run (pickOps ps)).emitted.length -
            s0.emitted.length)) ++ [.read cap])) := by
  simp only [flushSuffix, run_append]

/-- every operation of the two schedules is a cooperative one (no reset, no stop, no connection error, no write) -/
theorem coopSuffix_coop (s0 : Stream) (keep : Nat → Bool) (ps : List (Nat × Nat)) (cap : Nat) :
    ∀ op ∈ coopSuffix s0 keep ps cap, op.coop = true := by
  intro op hm
  simp only [coopSuffix, List.mem_append, List.mem_cons, List.not_mem_nil, or_false] at hm
  rcases hm with ((e | e) | e) | e | e | e
  · subst e; rfl
  · exact settle_coop _ _ op e
  · exact pickOps_coop ps op e
  · exact settle_coop _ _ op e
  · subst e; rfl
  · subst e; rfl

end GmQuic.Stream
