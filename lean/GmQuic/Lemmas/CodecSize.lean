import GmQuic.Model.FrameWF
import GmQuic.Lemmas.Codec
/-! Declared size = written size ≤ declared maximum, per frame kind. -/
namespace GmQuic.Codec
open GmQuic.Wire GmQuic.Gen

/-- the RFC 9000 frame types (everything but the five traversal extension frames) -/
def FrameType.isCore : FrameType → Bool
  | .addAddress _ | .removeAddress | .punchMeNow _ | .punchHello | .punchDone => false
  | _ => true

/-- every core frame type number is < 64, i.e. the literal `1` in the Rust `encoding_size` bodies is
the size of the type varint (re-checked against the generated table on every run). -/
theorem core_type_size (t : FrameType) (h : t.isCore = true) : varintSize (natOfFrameType t) = 1 := by
  cases t <;> simp only [FrameType.isCore, Bool.false_eq_true] at h <;>
    first | rfl | (rename_i a; cases a <;> rfl) | (rename_i a b c; cases a <;> cases b <;> cases c <;> rfl)

theorem ext_type_size (t : FrameType) : varintSize (natOfFrameType t) ≤ 4 := by
  have := natOfFrameType_lt t
  unfold varintSize; split <;> (try split) <;> (try split) <;> omega

theorem varintSize_le8 (v : Nat) : varintSize v ≤ 8 := (varintSize_le v).2
theorem varintSize_ge1 (v : Nat) : 1 ≤ varintSize v := (varintSize_le v).1
theorem varintSize_le2 (v : Nat) (h : v < 2 ^ 14) : varintSize v ≤ 2 := by
  unfold varintSize; split <;> (try split) <;> omega

theorem size_enc_all (f : Frame) (hwf : wf f = true) : (encBytes f).length = sizeOf f + dataLen f := by
  cases f
  case streamCtl c =>
    cases c <;> simp only [encBytes, Frame.type, List.length_append, encType_length] <;>
      rw [core_type_size _ rfl] <;>
      simp [encBody, sizeOf, dataLen, encVarint_length] <;> omega
  case stream sid off len lb fin data =>
    simp only [wf, v62, Bool.and_eq_true, decide_eq_true_eq] at hwf
    have h4 := hwf.2
    have ht : varintSize (natOfFrameType (.stream (off != 0) lb fin)) = 1 := core_type_size _ rfl
    simp only [encBytes, encBody, sizeOf, dataLen, Frame.type, List.length_append, encType_length, encVarint_length, ht]
    rw [Nat.mod_eq_of_lt h4]
    cases lb <;> by_cases h0 : off = 0 <;> simp [h0, encVarint_length] <;> omega
  case ack l d fr rs ecn =>
    have ht : varintSize (natOfFrameType (.ack ecn.isSome)) = 1 := core_type_size _ rfl
    simp only [encBytes, encBody, sizeOf, dataLen, Frame.type, List.length_append, encType_length, encVarint_length,
      encRanges_length, ht]
    cases ecn with
    | none => simp [encEcn]; omega
    | some e => obtain ⟨a, b, c⟩ := e; simp [encEcn, encVarint_length]; omega
  case closeApp code r =>
    simp only [wf, v62, Bool.and_eq_true, decide_eq_true_eq] at hwf
    simp only [encBytes, encBody, sizeOf, dataLen, Frame.type, List.length_append, encType_length, encVarint_length]
    rw [Nat.mod_eq_of_lt (by omega), core_type_size _ rfl]; omega
  case closeQuic k t r =>
    simp only [wf, Bool.and_eq_true, decide_eq_true_eq] at hwf
    simp only [encBytes, encBody, sizeOf, dataLen, Frame.type, List.length_append, encType_length, encVarint_length]
    rw [Nat.mod_eq_of_lt (by omega), core_type_size _ rfl]; omega
  case newToken t =>
    simp only [wf, decide_eq_true_eq] at hwf
    simp only [encBytes, encBody, sizeOf, dataLen, Frame.type, List.length_append, encType_length, encVarint_length]
    rw [Nat.mod_eq_of_lt hwf, core_type_size _ rfl]; omega
  case newConnectionId s r c t =>
    simp only [wf, v62, Bool.and_eq_true, decide_eq_true_eq] at hwf
    simp only [encBytes, encBody, sizeOf, dataLen, Frame.type, List.length_append, List.length_cons, encType_length,
      encVarint_length]
    rw [core_type_size _ rfl, hwf.2]; omega
  case datagram w l d =>
    have ht : varintSize (natOfFrameType (.datagram w)) = 1 := core_type_size _ rfl
    simp only [encBytes, encBody, sizeOf, dataLen, Frame.type, List.length_append, encType_length, ht]
    cases w <;> simp [encVarint_length]; omega
  case addAddress s a t n =>
    simp [encBytes, encBody, sizeOf, dataLen, Frame.type, encType_length, encVarint_length, encSockAddr_length]; omega
  case punchMeNow l r a t n =>
    simp [encBytes, encBody, sizeOf, dataLen, Frame.type, encType_length, encVarint_length, encSockAddr_length]; omega
  all_goals
    simp only [encBytes, Frame.type, List.length_append, encType_length]
    try rw [core_type_size _ rfl]
    simp [encBody, sizeOf, dataLen, Frame.type, encVarint_length] <;> omega

theorem size_le_max_all (f : Frame) (hwf : wf f = true) : sizeOf f ≤ maxSizeOf f := by
  cases f
  case streamCtl c =>
    cases c <;> simp only [sizeOf, maxSizeOf]
    all_goals
      (rename_i a b; first
        | (rename_i c; have := varintSize_le8 a; have := varintSize_le8 b; have := varintSize_le8 c; omega)
        | (have := varintSize_le8 a; have := varintSize_le8 b; omega)
        | (have := varintSize_le8 b; omega))
  case ack l d fr rs ecn =>
    simp only [sizeOf, maxSizeOf]
    have := varintSize_le8 l; have := varintSize_le8 d; have := varintSize_le8 fr
    have := varintSize_le8 rs.length; have := rangesSize_le rs
    cases ecn with
    | none => simp; omega
    | some e =>
      obtain ⟨a, b, c⟩ := e
      have := varintSize_le8 a; have := varintSize_le8 b; have := varintSize_le8 c
      simp; omega
  case closeApp code r =>
    simp only [wf, v62, Bool.and_eq_true, decide_eq_true_eq] at hwf
    have := varintSize_le8 code; have := varintSize_le2 r.length hwf.1.2
    simp only [sizeOf, maxSizeOf]; omega
  case closeQuic k t r =>
    simp only [wf, Bool.and_eq_true, decide_eq_true_eq] at hwf
    have := varintSize_le8 (natOfErrKind k); have := varintSize_le8 (natOfErrFty t)
    have := varintSize_le2 r.length hwf.1.2
    simp only [sizeOf, maxSizeOf]; omega
  case stream sid off len lb fin data =>
    have := varintSize_le8 sid; have := varintSize_le8 off; have := varintSize_le8 len
    simp only [sizeOf, maxSizeOf]; split <;> split <;> omega
  case crypto off len data =>
    have := varintSize_le8 off; have := varintSize_le8 len
    simp only [sizeOf, maxSizeOf]; omega
  case datagram w len data =>
    have := varintSize_le8 len
    simp only [sizeOf, maxSizeOf]; split <;> omega
  case newConnectionId s r c t =>
    simp only [wf, v62, Bool.and_eq_true, decide_eq_true_eq] at hwf
    have hm : maxCidSize = 20 := rfl
    have := varintSize_le8 s; have := varintSize_le8 r
    simp only [sizeOf, maxSizeOf]; omega
  case addAddress s a t n =>
    have := varintSize_le8 s; have := varintSize_le8 t; have := varintSize_le8 n
    have := ext_type_size (.addAddress a.v6)
    simp only [sizeOf, maxSizeOf, Frame.type, sockAddrSize]; split <;> omega
  case punchMeNow l r a t n =>
    have := varintSize_le8 l; have := varintSize_le8 r; have := varintSize_le8 t; have := varintSize_le8 n
    have := ext_type_size (.punchMeNow a.v6)
    simp only [sizeOf, maxSizeOf, Frame.type, sockAddrSize]; split <;> omega
  case removeAddress n =>
    have := varintSize_le8 n; have := ext_type_size .removeAddress
    simp only [sizeOf, maxSizeOf, Frame.type]; omega
  case punchHello a b c =>
    have := varintSize_le8 a; have := varintSize_le8 b; have := varintSize_le8 c; have := ext_type_size .punchHello
    simp only [sizeOf, maxSizeOf, Frame.type]; omega
  case punchDone a b c =>
    have := varintSize_le8 a; have := varintSize_le8 b; have := varintSize_le8 c; have := ext_type_size .punchDone
    simp only [sizeOf, maxSizeOf, Frame.type]; omega
  case newToken t => simp only [sizeOf, maxSizeOf]; omega
  case maxData n => have := varintSize_le8 n; simp only [sizeOf, maxSizeOf]; omega
  case dataBlocked n => have := varintSize_le8 n; simp only [sizeOf, maxSizeOf]; omega
  case retireConnectionId n => have := varintSize_le8 n; simp only [sizeOf, maxSizeOf]; omega
  all_goals simp [sizeOf, maxSizeOf]

end GmQuic.Codec
