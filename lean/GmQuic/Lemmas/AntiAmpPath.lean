import GmQuic.Lemmas.AntiAmp
/-! Path-level invariant of C15 (method granularity, any burst rule `r` under `OpOk r`). -/
namespace GmQuic.AntiAmp

theorem balance_fst (a : AA) : a.balance.1 = a := by
  rw [balance_eq]; cases a.state <;> simp <;> split <;> simp

theorem balance_snd (a : AA) :
    a.balance.2 = match a.state with
      | .granted => .unlimited
      | .aborted => .deactivated
      | .normal => if a.credit = 0 then .wait else .some a.credit := by
  rw [balance_eq]; cases a.state <;> simp <;> split <;> simp

/-- What the burst rule `r` needs from an operation to stay within the credit
    (`Rule.fixed`: nothing; `Rule.asFound`: single-segment bursts without forward header and without
    an Initial packet, no CONNECTION_CLOSE through the unconstrained path). -/
def OpOk (r : Rule) : AaOp → Prop
  | .burst segs => BurstOk r segs
  | .close _ => r.guardClose = true
  | _ => True

structure PInv (s : PathSt) : Prop where
  uf : s.aa.underflow = false
  ng : s.aa.state ≠ .granted
  le : s.sentTotal + s.aa.credit ≤ 3 * s.rcvdTotal

theorem fetchAdd_credit_le (a : AA) (k : Nat) : (a.fetchAdd k).credit ≤ a.credit + k := by
  unfold AA.fetchAdd; split
  · simp
  · simp; exact Nat.mod_le _ _

theorem fetchAdd_same (a : AA) (k : Nat) :
    (a.fetchAdd k).state = a.state ∧ (a.fetchAdd k).underflow = a.underflow ∧ (a.fetchAdd k).sig = a.sig := by
  unfold AA.fetchAdd; split <;> simp

theorem fetchSub_le (a : AA) (k : Nat) (h : k ≤ a.credit) :
    a.fetchSub k = { a with credit := a.credit - k } := by
  unfold AA.fetchSub; simp [h]

theorem pinv_step (r : Rule) (s : PathSt) (op : AaOp) (hi : PInv s) (hg : op ≠ .grant)
    (hok : OpOk r op) : PInv (Path.stepR r s op) := by
  obtain ⟨uf, ng, le⟩ := hi
  cases op with
  | grant => exact absurd rfl hg
  | rcvd n =>
    simp only [Path.stepR, onRcvd_eq]
    have h1 := fetchAdd_credit_le s.aa (n * N)
    have h2 := fetchAdd_same s.aa (n * N)
    have hN : N = 3 := rfl
    rw [hN] at h1 h2
    simp only [hN]
    by_cases hst : s.aa.state = .normal
    · by_cases hn : n * 3 < U
      · simp only [hst, hn, ↓reduceIte]
        constructor
        · simp [AA.wake, h2, uf]
        · simp [AA.wake, h2, ng]
        · simp only [AA.wake]; omega
      · simp only [hst, hn, ↓reduceIte]
        constructor
        · simp [uf]
        · simp [ng]
        · simp only []; omega
    · simp only [hst, ↓reduceIte]
      constructor
      · simp [uf]
      · simp [ng]
      · simp only []; omega
  | abort =>
    simp only [Path.stepR, abort_eq]
    split <;> constructor <;> simp [uf, ng, le] <;> first | omega | exact ng
  | poll =>
    simp only [Path.stepR]
    have := balance_fst s.aa
    constructor <;> simp [this, uf, ng, le]
  | burst segs =>
    simp only [Path.stepR]
    have hb1 := balance_fst s.aa
    have hb2 := balance_snd s.aa
    generalize hb : s.aa.balance = b at hb1 hb2
    obtain ⟨a, b⟩ := b
    simp only at hb1 hb2
    subst hb1
    cases hs : s.aa.state
    · -- normal
      simp only [hs] at hb2
      by_cases hc : s.aa.credit = 0
      · simp [hc] at hb2; subst hb2
        constructor <;> simp [balNat, uf, ng, le]
      · simp [hc] at hb2; subst hb2
        simp only [balNat]
        have hsum := burstLens_sum_le r segs hok s.aa.credit
        split
        · constructor <;> simp [uf, ng, le]
        · rw [onSent_eq, balance_fst]
          simp only [hs, ↓reduceIte]
          rw [fetchSub_le _ _ hsum]
          constructor <;> simp [uf, hs] <;> omega
    · exact absurd hs ng
    · simp only [hs] at hb2; subst hb2
      constructor <;> simp [balNat, uf, ng, le]
  | close n =>
    simp only [OpOk] at hok
    simp only [Path.stepR, hok, ↓reduceIte, balance_fst, balance_snd]
    cases hs : s.aa.state
    · by_cases hc : s.aa.credit = 0
      · simp [hc, balNat]; exact ⟨uf, ng, le⟩
      · simp only [hc, ↓reduceIte, balNat]
        by_cases hn : n ≤ s.aa.credit ∧ n > 0
        · have : (decide (n ≤ s.aa.credit) && decide (n > 0)) = true := by simp [hn]
          simp only [this, ↓reduceIte]
          rw [onSent_eq]; simp only [hs, ↓reduceIte]
          rw [fetchSub_le _ _ hn.1]
          constructor <;> simp [uf, hs] <;> omega
        · have : (decide (n ≤ s.aa.credit) && decide (n > 0)) = false := by
            simp; omega
          simp only [this]; exact ⟨uf, ng, le⟩
    · exact absurd hs ng
    · simp [balNat]; exact ⟨uf, ng, le⟩

end GmQuic.AntiAmp
