import GmQuic.Lemmas.NetChk
/-! Second half of `Lemmas/NetChk.lean`: transcript-level observables, the invariant `Agree`, and `checker_sound`. -/
namespace GmQuic.Drv.C02
open GmQuic.Drv GmQuic.Net

/-! ### observables of a stream direction, defined on the parsed transcript alone -/

/-- line `p` concerns stream direction `k = (sid, writer)`: it is written / shut down by the writer, read / seen
ended by the writer's peer, or (re)created by an `open` (a bidirectional `open` creates both directions) -/
def affects : PLine → Key → Bool
  | .opn ep sid _, k => k == (sid, ep) || (isBidi sid && k == (sid, peer ep))
  | .w ep sid _, k => k == (sid, ep)
  | .sd ep sid, k => k == (sid, ep)
  | .r ep sid _ _ _, k => k == (sid, peer ep)
  | .eof ep sid, k => k == (sid, peer ep)
  | _, _ => false

def wroteStep (k : Key) (acc : Nat) (p : PLine) : Nat :=
  if affects p k then (match p with | .opn .. => 0 | .w _ _ n => acc + n | _ => acc) else acc
def readStep (k : Key) (acc : Nat) (p : PLine) : Nat :=
  if affects p k then (match p with | .opn .. => 0 | .r _ _ n _ _ => acc + n | _ => acc) else acc
def sdStep (k : Key) (acc : Bool) (p : PLine) : Bool :=
  if affects p k then (match p with | .opn .. => false | .sd .. => true | _ => acc) else acc
def eofStep (k : Key) (acc : Bool) (p : PLine) : Bool :=
  if affects p k then (match p with | .opn .. => false | .eof .. => true | _ => acc) else acc
def keyStep (k : Key) (acc : Option Nat) (p : PLine) : Option Nat :=
  if affects p k then (match p with | .opn _ _ key => some key | _ => acc) else acc

/-- bytes written on `k` (sum of the `w` lines of the writer) since the last `open` creating `k` -/
def wrote (ps : List PLine) (k : Key) : Nat := ps.foldl (wroteStep k) 0
/-- bytes read from `k` (sum of the `r` lines of the writer's peer) since the last `open` creating `k` -/
def readN (ps : List PLine) (k : Key) : Nat := ps.foldl (readStep k) 0
/-- the writer requested shutdown of `k` since the last `open` creating `k` -/
def sdSeen (ps : List PLine) (k : Key) : Bool := ps.foldl (sdStep k) false
/-- the reader saw EOF on `k` since the last `open` creating `k` -/
def eofSeen (ps : List PLine) (k : Key) : Bool := ps.foldl (eofStep k) false
/-- content key of the last `open` creating `k` -/
def keyOf (ps : List PLine) (k : Key) : Option Nat := ps.foldl (keyStep k) none

theorem wrote_snoc (ps : List PLine) (p : PLine) (k : Key) : wrote (ps ++ [p]) k = wroteStep k (wrote ps k) p := by
  simp only [wrote, List.foldl_append, List.foldl_cons, List.foldl_nil]
theorem readN_snoc (ps : List PLine) (p : PLine) (k : Key) : readN (ps ++ [p]) k = readStep k (readN ps k) p := by
  simp only [readN, List.foldl_append, List.foldl_cons, List.foldl_nil]
theorem sdSeen_snoc (ps : List PLine) (p : PLine) (k : Key) : sdSeen (ps ++ [p]) k = sdStep k (sdSeen ps k) p := by
  simp only [sdSeen, List.foldl_append, List.foldl_cons, List.foldl_nil]
theorem eofSeen_snoc (ps : List PLine) (p : PLine) (k : Key) : eofSeen (ps ++ [p]) k = eofStep k (eofSeen ps k) p := by
  simp only [eofSeen, List.foldl_append, List.foldl_cons, List.foldl_nil]
theorem keyOf_snoc (ps : List PLine) (p : PLine) (k : Key) : keyOf (ps ++ [p]) k = keyStep k (keyOf ps k) p := by
  simp only [keyOf, List.foldl_append, List.foldl_cons, List.foldl_nil]

/-! ### the invariant -/

/-- the checker's record `d` for direction `k` agrees with the transcript prefix `ps` -/
structure Good (ps : List PLine) (k : Key) (d : AppDir) : Prop where
  opened : d.opened = true
  written : d.written = wrote ps k
  nread : d.nread = readN ps k
  fin : d.fin = sdSeen ps k
  eof : d.eof = eofSeen ps k
  key : keyOf ps k = some d.key
  sums : (d.a, d.s) = sumsFrom d.key 0 d.nread (1, 0)
  le : d.nread ≤ d.written
  done : d.eof = true → d.fin = true ∧ d.nread = d.written
  opn : ∃ key, PLine.opn (opener k.1) k.1 key ∈ ps

def Agree (ps : List PLine) (s : St) : Prop := ∀ k d, get s k = some d → Good ps k d

theorem agree_nil : Agree [] [] := by
  intro k d h; rw [get_nil] at h; cases h

theorem good_frame {ps : List PLine} {k : Key} {d : AppDir} {p : PLine} (g : Good ps k d)
    (h : affects p k = false) : Good (ps ++ [p]) k d := by
  obtain ⟨key, hk⟩ := g.opn
  exact {
    opened := g.opened
    written := by rw [wrote_snoc, g.written]; simp [wroteStep, h]
    nread := by rw [readN_snoc, g.nread]; simp [readStep, h]
    fin := by rw [sdSeen_snoc, g.fin]; simp [sdStep, h]
    eof := by rw [eofSeen_snoc, g.eof]; simp [eofStep, h]
    key := by rw [keyOf_snoc, g.key]; simp [keyStep, h]
    sums := g.sums
    le := g.le
    done := g.done
    opn := ⟨key, List.mem_append_left _ hk⟩ }

theorem agree_frame {ps : List PLine} {s : St} {p : PLine} (hA : Agree ps s) (h : ∀ k, affects p k = false) :
    Agree (ps ++ [p]) s := fun k d hg => good_frame (hA k d hg) (h k)

theorem agree_put {ps : List PLine} {s : St} {p : PLine} {k0 : Key} {d' : AppDir} (hA : Agree ps s)
    (h : ∀ k, k ≠ k0 → affects p k = false) (g : Good (ps ++ [p]) k0 d') :
    Agree (ps ++ [p]) (put s k0 d') := by
  intro k d hg
  rw [get_put] at hg
  by_cases hk : k = k0
  · rw [if_pos hk] at hg; cases hg; rw [hk]; exact g
  · rw [if_neg hk] at hg; exact good_frame (hA k d hg) (h k hk)

theorem good_opn {ps : List PLine} {k : Key} {ep : String} {sid key : Nat}
    (h : affects (.opn ep sid key) k = true) (ho : opener sid = ep) :
    Good (ps ++ [.opn ep sid key]) k { key := key, opened := true } := by
  have hk1 : k.1 = sid := by
    simp only [affects, Bool.or_eq_true, Bool.and_eq_true, beq_iff_eq] at h
    rcases h with h | ⟨_, h⟩ <;> rw [h]
  exact {
    opened := rfl
    written := by rw [wrote_snoc]; simp [wroteStep, h]
    nread := by rw [readN_snoc]; simp [readStep, h]
    fin := by rw [sdSeen_snoc]; simp [sdStep, h]
    eof := by rw [eofSeen_snoc]; simp [eofStep, h]
    key := by rw [keyOf_snoc]; simp [keyStep, h]
    sums := rfl
    le := Nat.le_refl _
    done := fun h => by cases h
    opn := ⟨key, by rw [hk1, ho]; exact List.mem_append_right _ (List.mem_singleton.mpr rfl)⟩ }

/-- every allowed line preserves the invariant -/
theorem agree_step {ps : List PLine} {s s' : St} {p : PLine} (hA : Agree ps s) (h : pstep s p = some s') :
    Agree (ps ++ [p]) s' := by
  cases p with
  | skip => simp only [pstep, Option.some.injEq] at h; subst h; exact agree_frame hA (fun _ => rfl)
  | term ep kind =>
    simp only [pstep] at h; split at h
    · cases h; exact agree_frame hA (fun _ => rfl)
    · cases h
  | acc ep sid =>
    simp only [pstep] at h; split at h
    · split at h
      · cases h; exact agree_frame hA (fun _ => rfl)
      · cases h
    · cases h
  | fin ep sid =>
    simp only [pstep] at h; split at h
    · split at h
      · cases h; exact agree_frame hA (fun _ => rfl)
      · cases h
    · cases h
  | opn ep sid key =>
    simp only [pstep] at h; split at h
    · cases h
    · rename_i ho
      have ho' : opener sid = ep := by simpa using ho
      simp only [Option.some.injEq] at h; subst h
      intro k d hg
      by_cases hb : isBidi sid = true
      · rw [if_pos hb, get_put, get_put] at hg
        by_cases h2 : k = (sid, peer ep)
        · rw [if_pos h2] at hg; cases hg; exact good_opn (by simp [affects, hb, h2]) ho'
        · rw [if_neg h2] at hg
          by_cases h1 : k = (sid, ep)
          · rw [if_pos h1] at hg; cases hg; exact good_opn (by simp [affects, h1]) ho'
          · rw [if_neg h1] at hg; exact good_frame (hA k d hg) (by simp [affects, h1, h2])
      · rw [if_neg hb, get_put] at hg
        by_cases h1 : k = (sid, ep)
        · rw [if_pos h1] at hg; cases hg; exact good_opn (by simp [affects, h1]) ho'
        · rw [if_neg h1] at hg; exact good_frame (hA k d hg) (by simp [affects, h1, hb])
  | w ep sid n =>
    simp only [pstep] at h; split at h
    · rename_i d hg
      split at h
      · cases h
      · simp only [Option.some.injEq] at h; subst h
        have g := hA _ _ hg
        obtain ⟨key, hk⟩ := g.opn
        refine agree_put hA (fun k hk => by simp [affects, hk]) ?_
        exact {
          opened := g.opened
          written := by rw [wrote_snoc]; simp [wroteStep, affects, g.written]
          nread := by rw [readN_snoc]; simp [readStep, affects, g.nread]
          fin := by rw [sdSeen_snoc]; simp [sdStep, affects, g.fin]
          eof := by rw [eofSeen_snoc]; simp [eofStep, affects, g.eof]
          key := by rw [keyOf_snoc]; simp [keyStep, affects, g.key]
          sums := g.sums
          le := Nat.le_trans g.le (Nat.le_add_right _ _)
          done := fun h => by rename_i hf; exact absurd (g.done h).1 hf
          opn := ⟨key, List.mem_append_left _ hk⟩ }
    · cases h
  | sd ep sid =>
    simp only [pstep] at h; split at h
    · rename_i d hg
      simp only [Option.some.injEq] at h; subst h
      have g := hA _ _ hg
      obtain ⟨key, hk⟩ := g.opn
      refine agree_put hA (fun k hk => by simp [affects, hk]) ?_
      exact {
        opened := g.opened
        written := by rw [wrote_snoc]; simp [wroteStep, affects, g.written]
        nread := by rw [readN_snoc]; simp [readStep, affects, g.nread]
        fin := by rw [sdSeen_snoc]; simp [sdStep, affects]
        eof := by rw [eofSeen_snoc]; simp [eofStep, affects, g.eof]
        key := by rw [keyOf_snoc]; simp [keyStep, affects, g.key]
        sums := g.sums
        le := g.le
        done := fun h => ⟨rfl, (g.done h).2⟩
        opn := ⟨key, List.mem_append_left _ hk⟩ }
    · cases h
  | r ep sid n a sm =>
    simp only [pstep] at h; split at h
    · rename_i d hg
      split at h
      · rename_i hr
        simp only [Option.some.injEq] at h; subst h
        obtain ⟨_, he, hle, hs⟩ := (readOk_iff d n a sm).mp hr
        have g := hA _ _ hg
        obtain ⟨key, hk⟩ := g.opn
        refine agree_put hA (fun k hk => by simp [affects, hk]) ?_
        exact {
          opened := g.opened
          written := by rw [wrote_snoc]; simp [wroteStep, affects, g.written]
          nread := by rw [readN_snoc]; simp [readStep, affects, g.nread]
          fin := by rw [sdSeen_snoc]; simp [sdStep, affects, g.fin]
          eof := by rw [eofSeen_snoc]; simp [eofStep, affects, g.eof]
          key := by rw [keyOf_snoc]; simp [keyStep, affects, g.key]
          sums := by
            show (a, sm) = sumsFrom d.key 0 (d.nread + n) (1, 0)
            rw [sumsFrom_add, ← g.sums, Nat.zero_add]; exact hs.symm
          le := hle
          done := fun h => by rw [show d.eof = false from he] at h; cases h
          opn := ⟨key, List.mem_append_left _ hk⟩ }
      · cases h
    · cases h
  | eof ep sid =>
    simp only [pstep] at h; split at h
    · rename_i d hg
      split at h
      · rename_i he
        obtain ⟨_, hf, hn⟩ := (eofOk_iff d).mp he
        simp only [Option.some.injEq] at h; subst h
        have g := hA _ _ hg
        obtain ⟨key, hk⟩ := g.opn
        refine agree_put hA (fun k hk => by simp [affects, hk]) ?_
        exact {
          opened := g.opened
          written := by rw [wrote_snoc]; simp [wroteStep, affects, g.written]
          nread := by rw [readN_snoc]; simp [readStep, affects, g.nread]
          fin := by rw [sdSeen_snoc]; simp [sdStep, affects, g.fin]
          eof := by rw [eofSeen_snoc]; simp [eofStep, affects]
          key := by rw [keyOf_snoc]; simp [keyStep, affects, g.key]
          sums := g.sums
          le := g.le
          done := fun _ => ⟨hf, hn⟩
          opn := ⟨key, List.mem_append_left _ hk⟩ }
      · cases h
    · cases h

/-! ### acceptance of a whole transcript -/

/-- run the checker over a transcript: `some s` = every line allowed (final state `s`), `none` = some line is a DIFF -/
def run : St → List Line → Option St
  | s, [] => some s
  | s, l :: ls =>
    match step s l.1 l.2 with
    | (s', none) => run s' ls
    | (_, some _) => none

/-- the checker (started in `model.init`) reports no DIFF on the transcript -/
def Accepted (ls : List Line) : Prop := (run model.init ls).isSome = true

/-- the parsed transcript (lines that do not parse are never accepted, see `step_pstep`) -/
def plines (ls : List Line) : List PLine := ls.filterMap parse

theorem run_cons {s t : St} {l : Line} {ls : List Line} (h : run s (l :: ls) = some t) :
    ∃ s', step s l.1 l.2 = (s', none) ∧ run s' ls = some t := by
  simp only [run] at h
  split at h
  · rename_i s' heq; exact ⟨s', heq, h⟩
  · cases h

theorem run_agree {ls : List Line} : ∀ {ps : List PLine} {s t : St}, Agree ps s → run s ls = some t →
    Agree (ps ++ plines ls) t := by
  induction ls with
  | nil => intro ps s t hA h; simp only [run, Option.some.injEq] at h; subst h; simpa [plines] using hA
  | cons l ls ih =>
    intro ps s t hA h
    obtain ⟨s', hs, hr⟩ := run_cons h
    obtain ⟨p, hp, hps⟩ := step_pstep hs
    have e : ps ++ plines (l :: ls) = (ps ++ [p]) ++ plines ls := by
      simp [plines, hp]
    rw [e]
    exact ih (agree_step hA hps) hr

theorem run_split {pre post : List Line} {l : Line} : ∀ {s t : St}, run s (pre ++ l :: post) = some t →
    ∃ s1 s2, run s pre = some s1 ∧ step s1 l.1 l.2 = (s2, none) := by
  induction pre with
  | nil => intro s t h; obtain ⟨s', hs, _⟩ := run_cons h; exact ⟨s, s', rfl, hs⟩
  | cons x pre ih =>
    intro s t h
    obtain ⟨s', hs, hr⟩ := run_cons h
    obtain ⟨s1, s2, h1, h2⟩ := ih hr
    refine ⟨s1, s2, ?_, h2⟩
    simp only [run, hs, h1]

/-- state of the checker just before an accepted line, and its agreement with the transcript prefix -/
theorem accepted_split {ls pre post : List Line} {l : Line} (hacc : Accepted ls) (hsplit : ls = pre ++ l :: post) :
    ∃ s1 s2 p, Agree (plines pre) s1 ∧ parse l = some p ∧ pstep s1 p = some s2 := by
  subst hsplit
  obtain ⟨t, ht⟩ := Option.isSome_iff_exists.mp hacc
  obtain ⟨s1, s2, h1, h2⟩ := run_split ht
  obtain ⟨p, hp, hps⟩ := step_pstep h2
  have hA : Agree ([] ++ plines pre) s1 := run_agree agree_nil h1
  exact ⟨s1, s2, p, by simpa using hA, hp, hps⟩

/-- MEANING OF ACCEPTANCE.  For a transcript `ls` on which the checker reports no DIFF, and any line `l` of it
(`ls = pre ++ l :: post`), with all observables computed from the transcript prefix `pre` alone:
1. a read `r ep sid n => a s` (direction `k = (sid, peer ep)`): every byte read was written by the peer EARLIER
   (`readN pre k + n ≤ wrote pre k`), no EOF was reported before, and `(a, s)` are the running sums of the first
   `readN pre k + n` canonical bytes of the stream's key (so the data read is, up to the checksum, the prefix of what
   the peer wrote);
2. `eof ep sid`: the writer had requested shutdown and everything written had been read;
3. `w ep sid n`: the writer had not requested shutdown (so `wrote` is final once EOF is legal);
4. `term ep => kind`: `kind` is an allowed termination;
5. `accept ep sid`: the peer's `open` of `sid` occurs earlier. -/
theorem checker_sound {ls pre post : List Line} {l : Line} (hacc : Accepted ls) (hsplit : ls = pre ++ l :: post) :
    (∀ ep sid n a sm, parse l = some (.r ep sid n a sm) →
      readN (plines pre) (sid, peer ep) + n ≤ wrote (plines pre) (sid, peer ep) ∧
      eofSeen (plines pre) (sid, peer ep) = false ∧
      ∃ key, keyOf (plines pre) (sid, peer ep) = some key ∧
        (a, sm) = sumsFrom key 0 (readN (plines pre) (sid, peer ep) + n) (1, 0)) ∧
    (∀ ep sid, parse l = some (.eof ep sid) →
      sdSeen (plines pre) (sid, peer ep) = true ∧ readN (plines pre) (sid, peer ep) = wrote (plines pre) (sid, peer ep)) ∧
    (∀ ep sid n, parse l = some (.w ep sid n) → sdSeen (plines pre) (sid, ep) = false) ∧
    (∀ ep kind, parse l = some (.term ep kind) → allowedTerm kind = true) ∧
    (∀ ep sid, parse l = some (.acc ep sid) → ∃ key, PLine.opn (peer ep) sid key ∈ plines pre) := by
  obtain ⟨s1, s2, p, hA, hp, hps⟩ := accepted_split hacc hsplit
  refine ⟨?_, ?_, ?_, ?_, ?_⟩
  · intro ep sid n a sm h
    rw [hp, Option.some.injEq] at h; subst h
    simp only [pstep] at hps
    split at hps
    · rename_i d hg
      split at hps
      · rename_i hr
        obtain ⟨_, he, hle, hs⟩ := (readOk_iff d n a sm).mp hr
        have g := hA _ _ hg
        refine ⟨?_, ?_, d.key, g.key, ?_⟩
        · rw [← g.nread, ← g.written]; exact hle
        · rw [← g.eof]; exact he
        · rw [← g.nread, sumsFrom_add, ← g.sums, Nat.zero_add]; exact hs.symm
      · cases hps
    · cases hps
  · intro ep sid h
    rw [hp, Option.some.injEq] at h; subst h
    simp only [pstep] at hps
    split at hps
    · rename_i d hg
      split at hps
      · rename_i hr
        obtain ⟨_, hf, he⟩ := (eofOk_iff d).mp hr
        have g := hA _ _ hg
        exact ⟨by rw [← g.fin]; exact hf, by rw [← g.nread, ← g.written]; exact he⟩
      · cases hps
    · cases hps
  · intro ep sid n h
    rw [hp, Option.some.injEq] at h; subst h
    simp only [pstep] at hps
    split at hps
    · rename_i d hg
      split at hps
      · cases hps
      · rename_i hf
        have g := hA _ _ hg
        rw [← g.fin]; simpa using hf
    · cases hps
  · intro ep kind h
    rw [hp, Option.some.injEq] at h; subst h
    simp only [pstep] at hps
    split at hps
    · assumption
    · cases hps
  · intro ep sid h
    rw [hp, Option.some.injEq] at h; subst h
    simp only [pstep] at hps
    split at hps
    · rename_i d hg
      split at hps
      · rename_i hc
        simp only [Bool.and_eq_true, beq_iff_eq] at hc
        obtain ⟨key, hk⟩ := (hA _ _ hg).opn
        rw [hc.2] at hk
        exact ⟨key, hk⟩
      · cases hps
    · cases hps

/-! ### whole-transcript corollaries (every prefix, every stream direction) -/

/-- nothing happened on a direction the checker has no record of -/
structure Fresh (ps : List PLine) (k : Key) : Prop where
  written : wrote ps k = 0
  nread : readN ps k = 0
  fin : sdSeen ps k = false
  eof : eofSeen ps k = false

def Agree0 (ps : List PLine) (s : St) : Prop := ∀ k, get s k = none → Fresh ps k

theorem agree0_nil : Agree0 [] [] := fun _ _ => ⟨rfl, rfl, rfl, rfl⟩

theorem fresh_frame {ps : List PLine} {k : Key} {p : PLine} (f : Fresh ps k) (h : affects p k = false) :
    Fresh (ps ++ [p]) k where
  written := by rw [wrote_snoc, f.written]; simp [wroteStep, h]
  nread := by rw [readN_snoc, f.nread]; simp [readStep, h]
  fin := by rw [sdSeen_snoc, f.fin]; simp [sdStep, h]
  eof := by rw [eofSeen_snoc, f.eof]; simp [eofStep, h]

theorem none_put {s : St} {k0 k : Key} {d : AppDir} (h : get (put s k0 d) k = none) : get s k = none ∧ k ≠ k0 := by
  rw [get_put] at h
  by_cases e : k = k0
  · rw [if_pos e] at h; cases h
  · rw [if_neg e] at h; exact ⟨h, e⟩

/-- an allowed line only touches directions the checker has a record of afterwards -/
theorem pstep_none {s s' : St} {p : PLine} (h : pstep s p = some s') {k : Key} (hk : get s' k = none) :
    get s k = none ∧ affects p k = false := by
  cases p with
  | skip => simp only [pstep, Option.some.injEq] at h; subst h; exact ⟨hk, rfl⟩
  | term ep kind =>
    simp only [pstep] at h; split at h
    · cases h; exact ⟨hk, rfl⟩
    · cases h
  | acc ep sid =>
    simp only [pstep] at h; split at h
    · split at h
      · cases h; exact ⟨hk, rfl⟩
      · cases h
    · cases h
  | fin ep sid =>
    simp only [pstep] at h; split at h
    · split at h
      · cases h; exact ⟨hk, rfl⟩
      · cases h
    · cases h
  | opn ep sid key =>
    simp only [pstep] at h; split at h
    · cases h
    · simp only [Option.some.injEq] at h; subst h
      by_cases hb : isBidi sid = true
      · rw [if_pos hb] at hk
        obtain ⟨hk1, h2⟩ := none_put hk
        obtain ⟨hk0, h1⟩ := none_put hk1
        exact ⟨hk0, by simp [affects, h1, h2]⟩
      · rw [if_neg hb] at hk
        obtain ⟨hk0, h1⟩ := none_put hk
        exact ⟨hk0, by simp [affects, h1, hb]⟩
  | w ep sid n =>
    simp only [pstep] at h; split at h
    · split at h
      · cases h
      · simp only [Option.some.injEq] at h; subst h
        obtain ⟨hk0, h1⟩ := none_put hk
        exact ⟨hk0, by simp [affects, h1]⟩
    · cases h
  | sd ep sid =>
    simp only [pstep] at h; split at h
    · simp only [Option.some.injEq] at h; subst h
      obtain ⟨hk0, h1⟩ := none_put hk
      exact ⟨hk0, by simp [affects, h1]⟩
    · cases h
  | r ep sid n a sm =>
    simp only [pstep] at h; split at h
    · split at h
      · simp only [Option.some.injEq] at h; subst h
        obtain ⟨hk0, h1⟩ := none_put hk
        exact ⟨hk0, by simp [affects, h1]⟩
      · cases h
    · cases h
  | eof ep sid =>
    simp only [pstep] at h; split at h
    · split at h
      · simp only [Option.some.injEq] at h; subst h
        obtain ⟨hk0, h1⟩ := none_put hk
        exact ⟨hk0, by simp [affects, h1]⟩
      · cases h
    · cases h

theorem agree0_step {ps : List PLine} {s s' : St} {p : PLine} (hA : Agree0 ps s) (h : pstep s p = some s') :
    Agree0 (ps ++ [p]) s' := fun k hk =>
  fresh_frame (hA k (pstep_none h hk).1) (pstep_none h hk).2

theorem run_agree0 {ls : List Line} : ∀ {ps : List PLine} {s t : St}, Agree0 ps s → run s ls = some t →
    Agree0 (ps ++ plines ls) t := by
  induction ls with
  | nil => intro ps s t hA h; simp only [run, Option.some.injEq] at h; subst h; simpa [plines] using hA
  | cons l ls ih =>
    intro ps s t hA h
    obtain ⟨s', hs, hr⟩ := run_cons h
    obtain ⟨p, hp, hps⟩ := step_pstep hs
    have e : ps ++ plines (l :: ls) = (ps ++ [p]) ++ plines ls := by
      simp [plines, hp]
    rw [e]
    exact ih (agree0_step hA hps) hr

theorem run_prefix {pre post : List Line} : ∀ {s t : St}, run s (pre ++ post) = some t →
    ∃ s1, run s pre = some s1 := by
  induction pre with
  | nil => intro s t _; exact ⟨s, rfl⟩
  | cons x pre ih =>
    intro s t h
    obtain ⟨s', hs, hr⟩ := run_cons h
    obtain ⟨s1, h1⟩ := ih hr
    exact ⟨s1, by simp only [run, hs, h1]⟩

/-- At EVERY point of an accepted transcript and for EVERY stream direction `k`: no more was read than written, and
once EOF was reported (since the last `open` of `k`) the writer had shut down and read = written — together with
clauses 1 and 3 of `checker_sound` (no read after EOF, no write after shutdown) EOF is final. -/
theorem prefix_invariants {ls pre post : List Line} (hacc : Accepted ls) (hsplit : ls = pre ++ post) (k : Key) :
    readN (plines pre) k ≤ wrote (plines pre) k ∧
    (eofSeen (plines pre) k = true →
      sdSeen (plines pre) k = true ∧ readN (plines pre) k = wrote (plines pre) k) := by
  subst hsplit
  obtain ⟨t, ht⟩ := Option.isSome_iff_exists.mp hacc
  obtain ⟨s1, h1⟩ := run_prefix ht
  have hA : Agree (plines pre) s1 := by simpa using run_agree (ps := []) agree_nil h1
  have hA0 : Agree0 (plines pre) s1 := by simpa using run_agree0 (ps := []) agree0_nil h1
  cases hg : get s1 k with
  | none =>
    have f := hA0 k hg
    rw [f.nread, f.written, f.eof]
    exact ⟨Nat.le_refl _, fun h => by cases h⟩
  | some d =>
    have g := hA k d hg
    rw [← g.nread, ← g.written, ← g.eof, ← g.fin]
    exact ⟨g.le, g.done⟩

/-! ### acceptance through parsed lines, and non-vacuity -/

/-- `run` on parsed lines -/
def prun : St → List PLine → Option St
  | s, [] => some s
  | s, p :: ps =>
    match pstep s p with
    | some s' => prun s' ps
    | none => none

theorem prun_of_run {ls : List Line} : ∀ {s t : St}, run s ls = some t → prun s (plines ls) = some t := by
  induction ls with
  | nil => intro s t h; simpa [run, plines, prun] using h
  | cons l ls ih =>
    intro s t h
    obtain ⟨s', hs, hr⟩ := run_cons h
    obtain ⟨p, hp, hps⟩ := step_pstep hs
    have e : plines (l :: ls) = p :: plines ls := by simp [plines, hp]
    rw [e]; simp only [prun, hps]; exact ih hr

theorem run_of_prun : ∀ {ls : List Line} {ps : List PLine} {s t : St},
    ls.map parse = ps.map some → prun s ps = some t → run s ls = some t := by
  intro ls
  induction ls with
  | nil =>
    intro ps s t h hp
    cases ps with
    | nil => simpa [prun, run] using hp
    | cons p ps => simp at h
  | cons l ls ih =>
    intro ps s t h hp
    cases ps with
    | nil => simp at h
    | cons p ps =>
      simp only [List.map_cons, List.cons.injEq] at h
      simp only [prun] at hp
      split at hp
      · rename_i s' hs
        simp only [run, pstep_step h.1 hs]; exact ih h.2 hp
      · cases hp

/-- an accepted parsed transcript: open, write 5, accept, read 3, shutdown, read 2, EOF, application close -/
def okP : List PLine :=
  [.opn "c" 0 7, .w "c" 0 5, .acc "s" 0, .r "s" 0 3 290 570, .sd "c" 0, .fin "c" 0, .r "s" 0 2 552 1603, .eof "s" 0,
   .term "c" "app"]

example : (prun [] okP).isSome = true := by decide
/-- read before write, read past what was written, wrong checksum, EOF before shutdown, EOF before everything was
read, write after shutdown, transport-error termination, accept without open: all rejected -/
example : prun [] [.opn "c" 0 7, .r "s" 0 3 290 570] = none := by decide
example : prun [] [.opn "c" 0 7, .w "c" 0 2, .r "s" 0 3 290 570] = none := by decide
example : prun [] [.opn "c" 0 7, .w "c" 0 5, .r "s" 0 3 290 571] = none := by decide
example : prun [] [.opn "c" 0 7, .w "c" 0 5, .r "s" 0 5 552 1603, .eof "s" 0] = none := by decide
example : prun [] [.opn "c" 0 7, .w "c" 0 5, .sd "c" 0, .r "s" 0 3 290 570, .eof "s" 0] = none := by decide
example : prun [] [.opn "c" 0 7, .sd "c" 0, .w "c" 0 5] = none := by decide
example : prun [] [.term "c" "quic:ProtocolViolation"] = none := by decide
example : prun [] [.acc "s" 0] = none := by decide

/-- the same on RAW lines.  (`String.toNat?` / `kvNat` do not reduce in the kernel, so the token facts are hypotheses;
the `#guard` below evaluates the checker on the literal tokens.) -/
example (z k7 n5 n3 n2 : String) (o1 o2 : List String)
    (hz : z.toNat? = some 0) (hk : k7.toNat? = some 7) (h5 : n5.toNat? = some 5) (h3 : n3.toNat? = some 3)
    (h2 : n2.toNat? = some 2) (ha1 : kvNat o1 "a" = some 290) (hs1 : kvNat o1 "s" = some 570)
    (ha2 : kvNat o2 "a" = some 552) (hs2 : kvNat o2 "s" = some 1603) :
    Accepted [(["cfg", "x", "y"], []), (["open", "c", z, k7], []), (["w", "c", z, n5], []), (["accept", "s", z], []),
      (["r", "s", z, n3], o1), (["sd", "c", z], []), (["fin", "c", z], []), (["r", "s", z, n2], o2),
      (["eof", "s", z], []), (["term", "c"], ["app"])] := by
  obtain ⟨t, ht⟩ := Option.isSome_iff_exists.mp (by decide : (prun [] (.skip :: okP)).isSome = true)
  refine Option.isSome_iff_exists.mpr ⟨t, run_of_prun ?_ ht⟩
  simp only [List.map, parse, hz, hk, h5, h3, h2, ha1, hs1, ha2, hs2, okP]

/-- read before write is NOT accepted (raw lines) -/
example (z k7 n3 : String) (o1 : List String) (hz : z.toNat? = some 0) (hk : k7.toNat? = some 7)
    (h3 : n3.toNat? = some 3) (ha1 : kvNat o1 "a" = some 290) (hs1 : kvNat o1 "s" = some 570) :
    ¬ Accepted [(["open", "c", z, k7], []), (["r", "s", z, n3], o1), (["w", "c", z, n3], [])] := by
  intro h
  obtain ⟨t, ht⟩ := Option.isSome_iff_exists.mp h
  have h1 := prun_of_run ht
  have e : plines [(["open", "c", z, k7], []), (["r", "s", z, n3], o1), (["w", "c", z, n3], [])] =
      [.opn "c" 0 7, .r "s" 0 3 290 570, .w "c" 0 3] := by
    simp only [plines, List.filterMap, parse, hz, hk, h3, ha1, hs1]
  have h0 : prun model.init [.opn "c" 0 7, .r "s" 0 3 290 570, .w "c" 0 3] = none := by decide
  rw [e, h0] at h1
  cases h1

#guard (run [] [(["cfg", "x", "y"], []), (["open", "c", "0", "7"], []), (["w", "c", "0", "5"], []),
  (["accept", "s", "0"], []), (["r", "s", "0", "3"], ["a=290", "s=570"]), (["sd", "c", "0"], []),
  (["fin", "c", "0"], []), (["r", "s", "0", "2"], ["a=552", "s=1603"]), (["eof", "s", "0"], []),
  (["term", "c"], ["app"])]).isSome
#guard (run [] [(["open", "c", "0", "7"], []), (["r", "s", "0", "3"], ["a=290", "s=570"]),
  (["w", "c", "0", "3"], [])]).isNone

end GmQuic.Drv.C02
