import GmQuic.Lemmas.StreamWinD
/-!
C01 liveness with flow control, part 5: the rounds WITHOUT `shutdown` (the application keeps the stream open) — the
windowed counterpart of `eventually_flushed`.
-/
namespace GmQuic.Stream
open GmQuic.RecvBuf (Bytes covered)

/-- one cooperative round, the application does not shut the stream down -/
def wroundO (cap : Nat) (s : Stream) (c : Choice) : Stream :=
  let s2 := s.run (settleOps c.1 (List.range s.emitted.length))
  let s3 := s2.run (pickOps c.2)
  let s5 := s3.run (settleOps (fun _ => true) (List.range' s.emitted.length (s3.emitted.length - s.emitted.length)) ++
                     [.read cap])
  s5.step (.deliverMsd (s5.msds.length - 1))

def RoundOkO (s : Stream) (c : Choice) : Prop :=
  let s2 := s.run (settleOps c.1 (List.range s.emitted.length))
  PickSeq s2 c.2 ∧ (s2.run (pickOps c.2)).snd.somePick = none

def SchedO (cap : Nat) : Stream → List Choice → Prop
  | _, [] => True
  | s, c :: cs => RoundOkO s c ∧ SchedO cap (wroundO cap s c) cs

theorem open_window {s : Sender} (m : Nat) (h : Open s) : Open (s.updateWindow m) := by
  obtain ⟨he, hsh, hst⟩ := h
  unfold Sender.updateWindow Open
  simp only [he, Bool.false_eq_true, if_false]
  rcases hst with e | e <;> simp only [e] <;> split <;> simp_all

theorem open_step_msd {s : Stream} (i : Nat) (h : Open s.snd) : Open (s.step (.deliverMsd i)).snd := by
  simp only [Stream.step]; split
  · exact open_window _ h
  · exact h

theorem sndOk_of_open {s : Sender} (h : Open s) : SndOk s :=
  ⟨h.1, by rcases h.2.2 with e | e; exact Or.inl e; exact Or.inr (Or.inl e)⟩

theorem fair_wroundO (cap : Nat) {s : Stream} (h : Fair s) (c : Choice) : Fair (wroundO cap s c) := by
  unfold wroundO
  dsimp only
  have h2 := fair_settle c.1 (List.range s.emitted.length) h
  have h3 := fair_picks c.2 h2
  have h4 := fair_settle (fun _ => true) (List.range' s.emitted.length
    (((s.run (settleOps c.1 (List.range s.emitted.length))).run (pickOps c.2)).emitted.length - s.emitted.length)) h3
  have h5 := fair_step h4 (.read cap)
  rw [run_append]
  exact fair_step h5 (.deliverMsd _)

/-- ONE ROUND without `shutdown` -/
theorem wroundO_spec (cap : Nat) {s : Stream} (hf : Fair s) (ho : Open s.snd) (hw : WinOk s)
    (hlen : s.snd.written.length < varintMax) (hcap : s.snd.written.length < cap) (c : Choice) (hok : RoundOkO s c) :
    Fair (wroundO cap s c) ∧ Open (wroundO cap s c).snd ∧ WinOk (wroundO cap s c) ∧
      (wroundO cap s c).snd.written = s.snd.written ∧ s.snd.maxData ≤ (wroundO cap s c).snd.maxData ∧
      ((wroundO cap s c).snd.written.length ≤ (wroundO cap s c).snd.maxData ∨
        s.snd.maxData < (wroundO cap s c).snd.maxData) := by
  have hfair := fair_wroundO cap hf c
  obtain ⟨hps, hidle⟩ := hok
  obtain ⟨r2, ok2, o2, w2, m2, k2⟩ := phaseB' hf.reach hf.hon ho hf.rcv c.1
  have sw2 := sameW_run s _ (settle_net c.1 (List.range s.emitted.length))
  generalize hs2 : s.run (settleOps c.1 (List.range s.emitted.length)) = s2 at *
  have k3 := kd_picks hps k2
  have r3 : Reach (s2.run (pickOps c.2)) := reach_run r2 _
  have m23 : Mono s2 (s2.run (pickOps c.2)) := mono_run r2 _ (pickOps_coop c.2)
  have sw3 := sameW_run s2 _ (pickOps_net c.2)
  have o3 : Open (s2.run (pickOps c.2)).snd := open_run _ (pickOps_noshut c.2) o2
  generalize hs3 : s2.run (pickOps c.2) = s3 at *
  have hw3 : s3.snd.written = s.snd.written := m23.wr.trans w2
  have hm3 : s3.snd.maxData = s.snd.maxData := m23.md.trans m2
  have hcoop : ∀ op ∈ (settleOps (fun _ => true) (List.range' s.emitted.length (s3.emitted.length - s.emitted.length)) ++
      [Op.read cap]), op.coop = true ∧ op ≠ .shutdown := by
    intro op hm
    rcases List.mem_append.mp hm with e | e
    · exact settle_noshut _ _ op e
    · simp at e; subst e; exact ⟨rfl, by intro h; cases h⟩
  have m35 := mono_run r3 _ (fun op h => (hcoop op h).1)
  have o5 := open_run _ hcoop o3
  have heq : wroundO cap s c = (s3.run (settleOps (fun _ => true)
      (List.range' s.emitted.length (s3.emitted.length - s.emitted.length)) ++ [Op.read cap])).step
      (.deliverMsd ((s3.run (settleOps (fun _ => true)
      (List.range' s.emitted.length (s3.emitted.length - s.emitted.length)) ++ [Op.read cap])).msds.length - 1)) := by
    unfold wroundO; dsimp only; rw [hs2, hs3]
  have hopen : Open (wroundO cap s c).snd := by rw [heq]; exact open_step_msd _ o5
  have hwr : (wroundO cap s c).snd.written = s.snd.written := by
    rw [heq, (step_msd_fields _ _).1, m35.wr, hw3]
  have hmd : s.snd.maxData ≤ (wroundO cap s c).snd.maxData := by
    rw [heq]
    have := (step_msd_fields (s3.run (settleOps (fun _ => true)
      (List.range' s.emitted.length (s3.emitted.length - s.emitted.length)) ++ [Op.read cap]))
      ((s3.run (settleOps (fun _ => true)
      (List.range' s.emitted.length (s3.emitted.length - s.emitted.length)) ++ [Op.read cap])).msds.length - 1)).2
    rw [m35.md, hm3] at this
    exact this
  by_cases hfit : s.snd.written.length ≤ s.snd.maxData
  · have : (wroundO cap s c).snd.written.length ≤ (wroundO cap s c).snd.maxData := by rw [hwr]; omega
    exact ⟨hfair, hopen, Or.inl this, hwr, hmd, Or.inl this⟩
  · have hflow : Flow s := by
      rcases hw with h | h
      · exact absurd h hfit
      · exact h
    have hflow3 : Flow s3 := flow_of_sameW sw3 (flow_of_sameW sw2 hflow)
    have hblk : s3.snd.maxData < s3.snd.written.length := by rw [hm3, hw3]; omega
    have hW := phaseW_core r3 (m23.ok ok2) (sndOk_of_open o3) k3.k3 hblk hidle hflow3 (by rw [hw3]; exact hlen)
      (cap := cap) (by rw [hw3]; exact hcap)
    dsimp only at hW
    rw [← heq] at hW
    obtain ⟨hW1, hW2⟩ := hW
    rw [hm3] at hW2
    exact ⟨hfair, hopen, Or.inr hW1, hwr, hmd, Or.inr hW2⟩

theorem schedO_spec (cap : Nat) (cs : List Choice) : ∀ {s : Stream}, Fair s → Open s.snd → WinOk s →
    s.snd.written.length < varintMax → s.snd.written.length < cap → SchedO cap s cs →
    Fair (cs.foldl (wroundO cap) s) ∧ Open (cs.foldl (wroundO cap) s).snd ∧
      (cs.foldl (wroundO cap) s).snd.written = s.snd.written ∧
      ((cs.foldl (wroundO cap) s).snd.written.length ≤ (cs.foldl (wroundO cap) s).snd.maxData ∨
        s.snd.maxData + cs.length ≤ (cs.foldl (wroundO cap) s).snd.maxData) := by
  induction cs with
  | nil => intro s hf ho _ _ _ _; exact ⟨hf, ho, rfl, Or.inr (Nat.le_refl _)⟩
  | cons c cs ih =>
    intro s hf ho hw hlen hcap hs
    obtain ⟨hok, hrest⟩ := hs
    obtain ⟨a1, a0, a2, a3, a4, a5⟩ := wroundO_spec cap hf ho hw hlen hcap c hok
    obtain ⟨b1, b0, b3, b5⟩ := ih a1 a0 a2 (by rw [a3]; exact hlen) (by rw [a3]; exact hcap) hrest
    simp only [List.foldl_cons, List.length_cons]
    refine ⟨b1, b0, b3.trans a3, ?_⟩
    rcases b5 with h | h
    · exact Or.inl h
    · rcases a5 with g | g
      · left; rw [b3]
        have : (wroundO cap s c).snd.maxData ≤ (cs.foldl (wroundO cap) (wroundO cap s c)).snd.maxData := by omega
        omega
      · right; omega

theorem schedO_exists (cap : Nat) (n : Nat) : ∀ {s : Stream}, Fair s → ∃ cs, cs.length = n ∧ SchedO cap s cs := by
  induction n with
  | zero => intro s _; exact ⟨[], rfl, trivial⟩
  | succ n ih =>
    intro s hf
    have r2 : Reach (s.run (settleOps (fun _ => true) (List.range s.emitted.length))) := reach_run hf.reach _
    obtain ⟨ps, p1, p2⟩ := exists_drain _ (Nat.le_refl _) r2
    have hok : RoundOkO s (fun _ => true, ps) := ⟨p1, p2⟩
    obtain ⟨cs, h1, h2⟩ := ih (fair_wroundO cap hf (fun _ => true, ps))
    exact ⟨(fun _ => true, ps) :: cs, by simp [h1], hok, h2⟩

end GmQuic.Stream
