import GmQuic.Lemmas.StreamLiveP
import GmQuic.Lemmas.StreamLiveR2
/-!
C01 liveness, part 5: reachable states (`Reach`), the honest-network hypothesis (`Honest`: acknowledged ⇒ delivered),
what the operations of the cooperative suffix preserve (`Mono`), and the picking phase (`PickSeq`, invariant `K`).
-/
namespace GmQuic.Stream
open GmQuic.RecvBuf (Bytes covered)

/-- everything that is proved about the state after an arbitrary history -/
structure Reach (s : Stream) : Prop where
  inv : Inv s
  invS : InvS s
  invR : InvR s
  done : Done s.snd

theorem reach_init (sw rw : Nat) (h : sw ≤ rw) : Reach (Stream.init sw rw) :=
  ⟨inv_init sw rw h, invS_init sw rw, invR_init sw rw, done_init sw rw⟩

theorem reach_step {s : Stream} (h : Reach s) (op : Op) : Reach (s.step op) :=
  ⟨inv_step h.inv op, invS_step h.inv h.invS op, invR_step h.inv h.invR op, done_step s op h.done⟩

theorem reach_run {s : Stream} (h : Reach s) (ops : List Op) : Reach (s.run ops) := by
  induction ops generalizing s with
  | nil => exact h
  | cons op rest ih => exact ih (reach_step h op)

/-- The network is honest: it acknowledged only what it had delivered (a byte marked acknowledged has reached the
receiver; an acknowledged FIN means the receiver knows the final size). -/
structure Honest (s : Stream) : Prop where
  data : ∀ x, x < s.snd.written.length → s.snd.status x = .acked → Have s.rcv x
  fin : s.snd.fin = .rcvd → Sized s.rcv

/-- no reset, no connection error on the sending half -/
def SndOk (s : Sender) : Prop := s.err = false ∧ (s.st = .ready ∨ s.st = .sending ∨ s.st = .dataSent ∨ s.st = .dataRcvd)

/-- the operations of the cooperative suffix -/
def Op.coop : Op → Bool
  | .shutdown | .pick _ _ | .deliver _ | .ack _ | .lose _ | .read _ => true
  | _ => false

/-- what every operation of the cooperative suffix preserves -/
structure Mono (s t : Stream) : Prop where
  wr : t.snd.written = s.snd.written
  md : t.snd.maxData = s.snd.maxData
  ok : RcvOk s.rcv → RcvOk t.rcv
  hv : ∀ y, Have s.rcv y → Have t.rcv y
  sz : Sized s.rcv → Sized t.rcv
  em : ∀ (i : Nat) (f : Frame), s.emitted[i]? = some f → t.emitted[i]? = some f
  so : SndOk s.snd → SndOk t.snd

theorem Mono.refl (s : Stream) : Mono s s := ⟨rfl, rfl, id, fun _ => id, id, fun _ _ => id, id⟩
theorem Mono.trans {a b c : Stream} (h1 : Mono a b) (h2 : Mono b c) : Mono a c :=
  ⟨h2.wr.trans h1.wr, h2.md.trans h1.md, fun x => h2.ok (h1.ok x), fun y x => h2.hv y (h1.hv y x),
   fun x => h2.sz (h1.sz x), fun i f x => h2.em i f (h1.em i f x), fun x => h2.so (h1.so x)⟩

theorem shutdown_fields (s : Sender) :
    s.pollShutdown.1.written = s.written ∧ s.pollShutdown.1.maxData = s.maxData ∧ s.pollShutdown.1.fin = s.fin ∧
    s.pollShutdown.1.st = s.st ∧ s.pollShutdown.1.err = s.err ∧
    (SndOk s → s.pollShutdown.1.shutdown = true ∨ s.st = .dataSent ∨ s.st = .dataRcvd) := by
  refine ⟨?_, ?_, ?_, ?_, ?_, ?_⟩
  iterate 5 (unfold Sender.pollShutdown; cases he : s.err <;> cases hst : s.st <;> simp [he, hst])
  intro ⟨he, hst⟩
  unfold Sender.pollShutdown
  rcases hst with e | e | e | e <;> simp [he, e]

theorem sndOk_of_act {s : Sender} (h : Act s) : SndOk s := ⟨h.1, Or.inr h.2⟩

theorem mono_step {s : Stream} (hr : Reach s) {op : Op} (hc : op.coop = true) : Mono s (s.step op) := by
  cases op with
  | shutdown =>
    obtain ⟨a, b, _, d, e, _⟩ := shutdown_fields s.snd
    exact ⟨a, b, id, fun _ => id, id, fun _ _ => id, fun x => by
      unfold SndOk at *; simp only [Stream.step]; rw [d, e]; exact x⟩
  | pick off len =>
    simp only [Stream.step]; split
    · rename_i hok
      obtain ⟨_, _, a, b, _, e, _⟩ := pick_fields s.snd off len
      refine ⟨a, b, id, fun _ => id, id, fun i f x => ?_, fun x => ?_⟩
      · simp only
        rw [List.getElem?_append_left (by
          have := (List.getElem?_eq_some_iff.mp x).1; exact this)]
        exact x
      · refine ⟨by simp only; rw [e]; exact x.1, ?_⟩
        simp only [Sender.pick]
        split
        · right; right; left; rfl
        · split
          · right; right; left; rfl
          · right; left; rfl
    · exact Mono.refl s
  | deliver i =>
    simp only [Stream.step]; split
    · rename_i f _
      exact ⟨rfl, rfl, rcvOk_rx _ f, fun y => have_rx _ f y, sized_rx _ f, fun _ _ => id, id⟩
    · exact Mono.refl s
  | ack i =>
    have hs := same_ack s i
    refine ⟨hs.wr, hs.md, ?_, ?_, ?_, ?_, ?_⟩
    · simp only [Stream.step]; split <;> exact id
    · simp only [Stream.step]; split <;> exact fun _ => id
    · simp only [Stream.step]; split <;> exact id
    · rw [hs.em]; exact fun _ _ => id
    · intro x
      simp only [Stream.step]; split
      · rename_i f hf
        obtain ⟨he, hst⟩ := x
        rcases hst with e | e
        · have := hr.inv.a5 e; rw [this] at hf; simp at hf
        · exact sndOk_of_act (ack_act f ⟨he, e⟩)
      · exact x
  | lose i =>
    have hs := same_lose s i
    refine ⟨hs.wr, hs.md, ?_, ?_, ?_, ?_, ?_⟩
    · simp only [Stream.step]; split <;> exact id
    · simp only [Stream.step]; split <;> exact fun _ => id
    · simp only [Stream.step]; split <;> exact id
    · rw [hs.em]; exact fun _ _ => id
    · intro x
      simp only [Stream.step]; split
      · rename_i f hf
        obtain ⟨he, hst⟩ := x
        rcases hst with e | e
        · have := hr.inv.a5 e; rw [this] at hf; simp at hf
        · exact sndOk_of_act (lose_act f ⟨he, e⟩)
      · exact x
  | read cap =>
    have hrcv : (s.step (.read cap)).rcv = (s.rcv.read cap).1 := by
      simp only [Stream.step]; split <;> rfl
    have hs := same_read s cap
    refine ⟨hs.wr, hs.md, ?_, ?_, ?_, ?_, ?_⟩
    · rw [hrcv]; exact rcvOk_read _ cap
    · rw [hrcv]; exact fun y x => (have_read' hr.inv cap y).mpr x
    · rw [hrcv]; exact sized_read _ cap
    · rw [hs.em]; exact fun _ _ => id
    · simp only [Stream.step]; split <;> exact id
  | _ => simp [Op.coop] at hc

theorem mono_run {s : Stream} (hr : Reach s) (ops : List Op) (hc : ∀ op ∈ ops, op.coop = true) : Mono s (s.run ops) := by
  induction ops generalizing s with
  | nil => exact Mono.refl s
  | cons op rest ih =>
    exact (mono_step hr (hc op List.mem_cons_self)).trans
      (ih (reach_step hr op) (fun o ho => hc o (List.mem_cons_of_mem _ ho)))

theorem settle_coop (keep : Nat → Bool) (is : List Nat) : ∀ op ∈ settleOps keep is, op.coop = true := by
  induction is with
  | nil => intro op h; cases h
  | cons i is ih =>
    intro op h
    simp only [settleOps, List.mem_append] at h
    rcases h with h | h
    · cases hk : keep i <;> simp [hk, dAck] at h
      · subst h; rfl
      · rcases h with h | h <;> subst h <;> rfl
    · exact ih op h

end GmQuic.Stream
