import GmQuic.Lemmas.StreamLiveF
/-!
C01 liveness, part 9: histories without reset / stop / connection error in which the network acknowledges a frame
only after delivering it (`HOp`).  After every such history the hypotheses of the liveness theorem (`Honest`,
`SndOk`, `RcvOk`) hold.
-/
namespace GmQuic.Stream
open GmQuic.RecvBuf (Bytes covered)

/-- operations of a history without abort and with an honest network -/
inductive HOp
  | write (bs : Bytes)
  | shutdown
  | pick (off len : Nat)
  | touch
  /-- frame `i` reaches the receiver (any frame ever emitted, any number of times, any order) -/
  | deliver (i : Nat)
  /-- frame `i` reaches the receiver and is acknowledged -/
  | deliverAck (i : Nat)
  /-- frame `i` is declared lost (whether or not it was delivered or acknowledged before or is later) -/
  | lose (i : Nat)
  | read (cap : Nat)
  | deliverMsd (i : Nat)

def HOp.ops : HOp → List Op
  | .write bs => [.write bs]
  | .shutdown => [.shutdown]
  | .pick o l => [.pick o l]
  | .touch => [.touch]
  | .deliver i => [.deliver i]
  | .deliverAck i => [.deliver i, .ack i]
  | .lose i => [.lose i]
  | .read c => [.read c]
  | .deliverMsd i => [.deliverMsd i]

def hops (l : List HOp) : List Op := l.flatMap HOp.ops

/-- the hypotheses of the liveness theorem -/
structure Fair (s : Stream) : Prop where
  reach : Reach s
  hon : Honest s
  snd : SndOk s.snd
  rcv : RcvOk s.rcv

theorem honest_of_snd_same {s t : Stream} (h : Honest s) (h1 : t.snd.written = s.snd.written)
    (h2 : t.snd.status = s.snd.status) (h3 : t.snd.fin = s.snd.fin) (h4 : t.rcv = s.rcv) : Honest t :=
  ⟨fun x hx hs => by rw [h4]; exact h.data x (by rw [← h1]; exact hx) (by rw [← h2]; exact hs),
   fun hf => by rw [h4]; exact h.fin (by rw [← h3]; exact hf)⟩

theorem touch_fields (s : Sender) : s.touch.written = s.written ∧ s.touch.fin = s.fin ∧ (SndOk s → SndOk s.touch) := by
  refine ⟨?_, ?_, ?_⟩
  · unfold Sender.touch; split <;> rfl
  · unfold Sender.touch; split <;> rfl
  · intro ⟨he, hst⟩
    unfold Sender.touch SndOk
    split
    · exact ⟨he, Or.inr (Or.inl rfl)⟩
    · exact ⟨he, hst⟩

theorem window_fields (s : Sender) (m : Nat) :
    (s.updateWindow m).written = s.written ∧ (s.updateWindow m).fin = s.fin ∧ (SndOk s → SndOk (s.updateWindow m)) := by
  refine ⟨?_, ?_, ?_⟩
  · unfold Sender.updateWindow; cases s.err <;> cases s.st <;> simp <;> split <;> rfl
  · unfold Sender.updateWindow; cases s.err <;> cases s.st <;> simp <;> split <;> rfl
  · intro ⟨he, hst⟩
    unfold Sender.updateWindow SndOk
    simp only [he, Bool.false_eq_true, if_false]
    rcases hst with e | e | e | e <;> simp only [e] <;> (try split) <;> simp_all

theorem fair_coop {s : Stream} (h : Fair s) {op : Op} (hc : op.coop = true) (hh : Honest (s.step op)) : Fair (s.step op) :=
  have m := mono_step h.reach hc
  ⟨reach_step h.reach op, hh, m.so h.snd, m.ok h.rcv⟩

theorem honest_pick {s : Stream} (h : Honest s) (off len : Nat) : Honest (s.step (.pick off len)) := by
  simp only [Stream.step]; split
  · obtain ⟨e1, _, e3, _⟩ := pick_fields s.snd off len
    refine ⟨fun x hx hs => ?_, fun hf => ?_⟩
    · simp only [e1, e3, setRange] at hx hs
      split at hs
      · cases hs
      · exact h.data x hx hs
    · apply h.fin
      revert hf
      simp only [Sender.pick]
      split
      · split
        · split
          · rename_i h; intro _; exact h
          · intro x; cases x
        · exact id
      · intro x; cases x
  · exact h

theorem honest_write {s : Stream} (hr : Reach s) (h : Honest s) (bs : Bytes) : Honest (s.step (.write bs)) := by
  obtain ⟨e1, _⟩ := write_same s.snd bs
  have hfin : (s.snd.write bs).1.fin = s.snd.fin := by
    unfold Sender.write; cases s.snd.err <;> cases s.snd.st <;> cases s.snd.shutdown <;> rfl
  refine ⟨fun x hx hs => ?_, fun hf => h.fin (by simpa [Stream.step, hfin] using hf)⟩
  simp only [Stream.step] at hx hs ⊢
  rw [e1] at hs
  by_cases hlt : x < s.snd.written.length
  · exact h.data x hlt hs
  · have := hr.invS.n1 x (by have := hr.inv.a2.1; omega)
    rw [this] at hs; cases hs

theorem fair_step {s : Stream} (h : Fair s) (o : HOp) : Fair (s.run o.ops) := by
  cases o with
  | write bs =>
    show Fair (s.step (.write bs))
    refine ⟨reach_step h.reach _, honest_write h.reach h.hon bs, ?_, h.rcv⟩
    obtain ⟨he, hst⟩ := h.snd
    show SndOk (s.snd.write bs).1
    unfold Sender.write SndOk
    simp only [he, Bool.false_eq_true, if_false]
    rcases hst with e | e | e | e <;> simp only [e] <;> (try split) <;> simp_all
  | shutdown =>
    obtain ⟨f1, _, f3, _⟩ := shutdown_fields s.snd
    exact fair_coop h (op := .shutdown) rfl (honest_of_snd_same h.hon f1 (shutdown_same s.snd).1 f3 rfl)
  | pick off len => exact fair_coop h (op := .pick off len) rfl (honest_pick h.hon off len)
  | touch =>
    obtain ⟨f1, f2, f3⟩ := touch_fields s.snd
    show Fair (s.step .touch)
    exact ⟨reach_step h.reach _, honest_of_snd_same h.hon f1 (touch_same s.snd).1 f2 rfl, f3 h.snd, h.rcv⟩
  | deliver i => exact fair_coop h (op := .deliver i) rfl (honest_deliver h.reach h.hon i)
  | deliverAck i =>
    have h1 := fair_coop h (op := .deliver i) rfl (honest_deliver h.reach h.hon i)
    exact fair_coop h1 (op := .ack i) rfl (honest_dack h.reach h.rcv h.hon i)
  | lose i => exact fair_coop h (op := .lose i) rfl (honest_lose h.hon i)
  | read cap =>
    have m := mono_step h.reach (op := .read cap) rfl
    refine fair_coop h (op := .read cap) rfl ⟨fun x hx hs => ?_, fun hf => ?_⟩
    · rw [step_read_snd] at hx hs; exact m.hv x (h.hon.data x hx hs)
    · rw [step_read_snd] at hf; exact m.sz (h.hon.fin hf)
  | deliverMsd i =>
    show Fair (s.step (.deliverMsd i))
    simp only [Stream.step]; split
    · rename_i m _
      obtain ⟨f1, f2, f3⟩ := window_fields s.snd m
      have hr := reach_step h.reach (.deliverMsd i)
      simp only [Stream.step] at hr
      rename_i hm; rw [hm] at hr
      exact ⟨hr, honest_of_snd_same h.hon f1 (window_same s.snd m).1 f2 rfl, f3 h.snd, h.rcv⟩
    · exact h

theorem fair_init (sw rw : Nat) (h : sw ≤ rw) : Fair (Stream.init sw rw) :=
  ⟨reach_init sw rw h, ⟨fun x hx => by simp [Stream.init] at hx, fun hf => by simp [Stream.init] at hf⟩,
   ⟨rfl, Or.inl rfl⟩, ⟨rfl, by simp [Stream.init], by simp [Stream.init]⟩⟩

theorem fair_run {s : Stream} (h : Fair s) (l : List HOp) : Fair (s.run (hops l)) := by
  induction l generalizing s with
  | nil => exact h
  | cons o l ih =>
    simp only [hops, List.flatMap_cons, run_append]
    exact ih (fair_step h o)

end GmQuic.Stream
