import GmQuic.Model.Wake4
import GmQuic.Lemmas.Wake
/-! Invariants for the Listener and the SendWakers fan-out (C16). -/
namespace GmQuic.Wake

namespace Listen

@[simp] theorem sel_upd_same {α : Type} (p : α × α) (d : Bool) (v : α) : sel (upd p d v) d = v := by
  cases d <;> simp [sel, upd]
theorem sel_upd_ne {α : Type} (p : α × α) (d d' : Bool) (v : α) (h : d ≠ d') : sel (upd p d v) d' = sel p d' := by
  cases d <;> cases d' <;> simp_all [sel, upd]

def Inv (s : State) (l : List (Sleeper Op)) : Prop :=
  ∀ x ∈ l, x.t = 0 ∧ ∃ dir, x.op = .poll x.t x.w dir ∧ sel s.q dir = [] ∧ sel s.wk dir = some x.w ∧ s.closed = false

variable (m : Nat)

theorem pres (s : State) (l : List (Sleeper Op)) (op : Op) (hok : SingleTask (proto m) op) (h : Inv s l) :
    Inv (step s op).1 (nextSlp (proto m) l op (step s op).2) := by
  intro x hx
  obtain ⟨hw, hx⟩ := mem_nextSlp (P := proto m) hx
  rcases hx with ⟨hxl, hp, hd⟩ | ⟨t, w, hp, hr, rfl⟩
  · obtain ⟨h0, dir, h1, h2, h3, h4⟩ := h x hxl
    refine ⟨h0, dir, h1, ?_⟩
    cases op with
    | poll t w d =>
      have := hok t w rfl
      exact absurd (h0.trans this.symm) (hp t w rfl)
    | dropfut t => exact ⟨h2, h3, h4⟩
    | arrive d k =>
      simp only [step, proto, h4] at hw ⊢
      by_cases hl : k ≥ s.limit
      · simp [hl, h2, h3, h4]
      · by_cases hn : k < sel s.next d
        · simp [hl, hn, h2, h3, h4]
        · by_cases hdd : d = dir
          · subst hdd; simp [hl, hn, h3, takeWake] at hw
          · simp [hl, hn, sel_upd_ne _ _ _ _ hdd, h2, h3, h4]
    | connError =>
      simp only [step, proto, h4] at hw
      cases dir <;> simp_all [sel, takeWake]
  · cases op with
    | poll t' w' d =>
      simp only [proto, Option.some.injEq, Prod.mk.injEq] at hp
      obtain ⟨rfl, rfl⟩ := hp
      refine ⟨hok t' w' rfl, d, rfl, ?_⟩
      revert hr
      simp only [step]
      by_cases hc : s.closed
      · simp [hc]
      · cases hq : sel s.q d with
        | nil => simp [hc, hq]
        | cons v r => simp [hc]
    | _ => simp [proto] at hp

theorem safe (s : State) (l : List (Sleeper Op)) (x : Sleeper Op) (h : Inv s l) (hx : x ∈ l) :
    (step s x.op).2.res = .pending := by
  obtain ⟨_, dir, h1, h2, _, h4⟩ := h x hx
  rw [h1]; simp [step, h2, h4]

theorem closeWakes (s : State) (l : List (Sleeper Op)) (x : Sleeper Op) (h : Inv s l) (hx : x ∈ l) :
    x.w ∈ (step s .connError).2.wakes := by
  obtain ⟨_, dir, _, _, h3, h4⟩ := h x hx
  simp only [step, h4]
  cases dir <;> simp_all [sel, takeWake]

def sound : CloseSound (proto m) (SingleTask (proto m)) where
  Inv := Inv
  init := by intro x hx; cases hx
  pres := pres m
  safe := safe
  closeWakes := closeWakes

end Listen

namespace Fan

/-- one burst task per path: task 0 waits on path 0's SendWaker, task 1 on path 1's -/
def OneTaskPerPath (op : Op) : Prop := ∀ t w, proto.pollBy op = some (t, w) → t ≤ 1

def path (s : State) (t : Tid) : SendWaker.State := if t = 0 then s.p.1 else s.p.2
def registered (s : State) (t : Tid) : Bool := if t = 0 then s.reg.1 else s.reg.2

def Inv (s : State) (l : List (Sleeper Op)) : Prop :=
  ∀ x ∈ l, x.t ≤ 1 ∧ ∃ sig, x.op = .poll x.t x.w sig ∧ (path s x.t).waker = some x.w ∧ (path s x.t).bits &&& sig = 0

theorem pres (s : State) (l : List (Sleeper Op)) (op : Op) (hok : OneTaskPerPath op) (h : Inv s l) :
    Inv (step s op).1 (nextSlp proto l op (step s op).2) := by
  intro x hx
  obtain ⟨hw, hx⟩ := mem_nextSlp (P := proto) hx
  rcases hx with ⟨hxl, hp, hd⟩ | ⟨t, w, hp, hr, rfl⟩
  · obtain ⟨h0, sig, h1, h2, h3⟩ := h x hxl
    refine ⟨h0, sig, h1, ?_⟩
    cases op with
    | poll t w sg =>
      have ht := hok t w rfl
      have hne : x.t ≠ t := hp t w rfl
      -- the other path's poll does not touch this path
      simp only [step, path] at h2 h3 ⊢
      by_cases hx0 : x.t = 0
      · have : t ≠ 0 := fun e => hne (hx0.trans e.symm)
        simp [hx0, this] at h2 h3 ⊢; exact ⟨h2, h3⟩
      · have : t = 0 := by
          rcases Nat.lt_or_ge t 1 with h | h
          · exact Nat.lt_one_iff.mp h
          · have : t = 1 := Nat.le_antisymm ht h
            have : x.t = 1 := by
              rcases Nat.lt_or_ge x.t 1 with h' | h'
              · exact absurd (Nat.lt_one_iff.mp h') hx0
              · exact Nat.le_antisymm h0 h'
            exact absurd (by simp_all) hne
        simp [hx0, this] at h2 h3 ⊢; exact ⟨h2, h3⟩
    | wakeAll sg =>
      simp only [step, proto, path] at hw h2 h3 ⊢
      by_cases hx0 : x.t = 0
      · simp only [hx0, if_true] at h2 h3 ⊢
        by_cases hr : s.reg.1
        · by_cases hb : s.p.1.bits ||| sg = s.p.1.bits
          · simp [hr, SendWaker.step, hb, h2, h3]
          · simp [hr, SendWaker.step, hb, h2] at hw
        · simp [hr, h2, h3]
      · simp only [hx0, if_false] at h2 h3 ⊢
        by_cases hr : s.reg.2
        · by_cases hb : s.p.2.bits ||| sg = s.p.2.bits
          · simp [hr, SendWaker.step, hb, h2, h3]
          · simp [hr, SendWaker.step, hb, h2] at hw
        · simp [hr, h2, h3]
    | insert p => simpa [step, path] using ⟨h2, h3⟩
    | remove p => simpa [step, path] using ⟨h2, h3⟩
    | dropfut t => exact ⟨h2, h3⟩
  · cases op with
    | poll t' w' sg =>
      simp only [proto, Option.some.injEq, Prod.mk.injEq] at hp
      obtain ⟨rfl, rfl⟩ := hp
      refine ⟨hok t' w' rfl, sg, rfl, ?_⟩
      revert hr
      simp only [step, path, SendWaker.step]
      by_cases h0 : t' = 0
      · simp only [h0, if_true]
        split
        · intro _; exact ⟨rfl, SendWaker.not_and_self16 sg⟩
        · intro h; simp at h
      · simp only [h0, if_false]
        split
        · intro _; exact ⟨rfl, SendWaker.not_and_self16 sg⟩
        · intro h; simp at h
    | _ => simp [proto] at hp

theorem safe (s : State) (l : List (Sleeper Op)) (x : Sleeper Op) (h : Inv s l) (hx : x ∈ l) :
    (step s x.op).2.res = .pending := by
  obtain ⟨_, sig, h1, _, h3⟩ := h x hx
  rw [h1]
  simp only [step, path, SendWaker.step] at h3 ⊢
  by_cases h0 : x.t = 0 <;> simp_all

def sound : Sound proto OneTaskPerPath where
  Inv := Inv
  init := by intro x hx; cases hx
  pres := pres
  safe := safe

theorem bits_sub (b s g : BitVec 16) (h1 : b ||| s = b) (h2 : b &&& g = 0) : s &&& g = 0 := by
  ext i hi
  have e1 := congrArg (fun x => x.getLsbD i) h1
  have e2 := congrArg (fun x => x.getLsbD i) h2
  simp only [BitVec.getLsbD_or, BitVec.getLsbD_and, BitVec.getLsbD_zero] at e1 e2 ⊢
  cases hb : b.getLsbD i <;> cases hs : s.getLsbD i <;> cases hg : g.getLsbD i <;> simp_all

/-- the fan-out reaches every registered path whose task waits for one of the signals -/
theorem fanout (s : State) (l : List (Sleeper Op)) (x : Sleeper Op) (h : Inv s l) (hx : x ∈ l)
    (sig sg : BitVec 16) (hop : x.op = .poll x.t x.w sig) (hreg : registered s x.t = true) (hm : sg &&& sig ≠ 0) :
    x.w ∈ (step s (.wakeAll sg)).2.wakes := by
  obtain ⟨_, sig', h1, h2, h3⟩ := h x hx
  rw [hop] at h1
  injection h1 with _ _ hs
  subst hs
  simp only [step, path, registered, SendWaker.step] at h2 h3 hreg ⊢
  by_cases h0 : x.t = 0
  · simp only [h0, if_true] at h2 h3 hreg
    have hb : s.p.1.bits ||| sg ≠ s.p.1.bits := fun e => hm (bits_sub _ _ _ e h3)
    simp [hreg, hb, h2]
  · simp only [h0, if_false] at h2 h3 hreg
    have hb : s.p.2.bits ||| sg ≠ s.p.2.bits := fun e => hm (bits_sub _ _ _ e h3)
    simp [hreg, hb, h2]

end Fan
end GmQuic.Wake
