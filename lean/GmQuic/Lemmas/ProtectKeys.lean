import GmQuic.Lemmas.ProtectErr
/-! C06: the receiver's key-phase state machine (`OneRttPacketKeys`) — invariant and window lemmas. -/
namespace GmQuic.Protect
open GmQuic.Wire GmQuic.Pn

/-- the sender's packet key of generation `g` as the receiver's `Secrets` derive it (`k0` = the handshake's 1-RTT key) -/
def keyOf {K H : Type} (k0 : K) (c : RxCfg K H) : Nat → K
  | 0 => k0
  | g + 1 => (c.next g).1

/-- the key-phase bit of generation `g` -/
def phaseOf (g : Nat) : Bool := decide (g % 2 = 1)

theorem phaseOf_succ (g : Nat) : phaseOf (g + 1) = !phaseOf g := by
  unfold phaseOf
  rcases Nat.mod_two_eq_zero_or_one g with h | h <;> simp [Nat.add_mod, h]

/-- receiver and sender agree: the current slot holds the key of generation `gen`, the other slot is empty or
holds the key of the previous generation -/
structure Synced {K H : Type} (k0 : K) (c : RxCfg K H) (s : OneRtt K) : Prop where
  cur : s.cur = phaseOf s.gen
  now : s.remote s.cur = some (keyOf k0 c s.gen)
  prev : s.remote (!s.cur) = none ∨ (1 ≤ s.gen ∧ s.remote (!s.cur) = some (keyOf k0 c (s.gen - 1)))

/-- `OneRttPacketKeys::new` -/
def OneRtt.init {K : Type} (k0 l0 : K) : OneRtt K := ⟨false, 0, some k0, none, l0⟩

theorem synced_init {K H : Type} (k0 l0 : K) (c : RxCfg K H) : Synced k0 c (OneRtt.init k0 l0) :=
  ⟨rfl, rfl, Or.inl rfl⟩

theorem synced_update {K H : Type} (k0 : K) (c : RxCfg K H) (s : OneRtt K) (h : Synced k0 c s) :
    Synced k0 c (s.update c) := by
  obtain ⟨h1, h2, _⟩ := h
  cases hc : s.cur <;> rw [hc] at h1 h2
  · refine ⟨?_, ?_, Or.inr ⟨?_, ?_⟩⟩
    · simp [OneRtt.update, hc, phaseOf_succ, ← h1]
    · simp [OneRtt.update, OneRtt.remote, hc, keyOf]
    · simp [OneRtt.update]
    · simpa [OneRtt.update, OneRtt.remote, hc] using h2
  · refine ⟨?_, ?_, Or.inr ⟨?_, ?_⟩⟩
    · simp [OneRtt.update, hc, phaseOf_succ, ← h1]
    · simp [OneRtt.update, OneRtt.remote, hc, keyOf]
    · simp [OneRtt.update]
    · simpa [OneRtt.update, OneRtt.remote, hc] using h2

theorem synced_phaseOut {K H : Type} (k0 : K) (c : RxCfg K H) (s : OneRtt K) (h : Synced k0 c s) :
    Synced k0 c s.phaseOut := by
  obtain ⟨h1, h2, _⟩ := h
  cases hc : s.cur <;> rw [hc] at h1 h2
  · exact ⟨by simp [OneRtt.phaseOut, hc, ← h1], by simpa [OneRtt.phaseOut, OneRtt.remote, hc] using h2,
      Or.inl (by simp [OneRtt.phaseOut, OneRtt.remote, hc])⟩
  · exact ⟨by simp [OneRtt.phaseOut, hc, ← h1], by simpa [OneRtt.phaseOut, OneRtt.remote, hc] using h2,
      Or.inl (by simp [OneRtt.phaseOut, OneRtt.remote, hc])⟩

theorem getRemote_cur {K H : Type} (c : RxCfg K H) (s : OneRtt K) : s.getRemote c s.cur = (s, s.remote s.cur) := by
  simp [OneRtt.getRemote]

theorem getRemote_other_some {K H : Type} (c : RxCfg K H) (s : OneRtt K) (k : K) (h : s.remote (!s.cur) = some k) :
    s.getRemote c (!s.cur) = (s, some k) := by
  simp [OneRtt.getRemote, h]

theorem getRemote_other_none {K H : Type} (c : RxCfg K H) (s : OneRtt K) (h : s.remote (!s.cur) = none) :
    s.getRemote c (!s.cur) = (s.update c, (s.update c).remote (!s.cur)) := by
  simp [OneRtt.getRemote, h]

theorem synced_getRemote {K H : Type} (k0 : K) (c : RxCfg K H) (s : OneRtt K) (kp : Bool) (h : Synced k0 c s) :
    Synced k0 c (s.getRemote c kp).1 := by
  unfold OneRtt.getRemote
  simp only
  split
  · exact synced_update k0 c s h
  · exact h

end GmQuic.Protect
