import GmQuic.Lemmas.Net
import GmQuic.Lemmas.DatagramRun
/-!
C02, DATAGRAM clause, by REFINEMENT of the abstract stack (`Model/Net.lean`) to the C19 history model
(`Model/Datagram.lean`, `Run`).  Part 1: definitions (the sender's queue discipline, the projection of one
direction of a `Net` state), the closed form of a whole assembly pass (`loadN_many`), the receive path on a packet of
small datagrams (`feed_dgs`, `deliver_toPkt`), and what each `Net` op does to the projected direction (`view_*`).
-/
namespace GmQuic.Net
open GmQuic.RecvBuf (Bytes)
open GmQuic
open GmQuic.Datagram (Pkt Loaded Run Frame Sender Receiver)

/-- payloads of the DATAGRAM frames of a packet, in the order written -/
def dgOf : List PFrame → List Bytes
  | [] => []
  | .dgram x :: fs => x :: dgOf fs
  | .stream _ _ :: fs => dgOf fs
  | .other _ :: fs => dgOf fs

theorem dgOf_append (a b : List PFrame) : dgOf (a ++ b) = dgOf a ++ dgOf b := by
  induction a with
  | nil => rfl
  | cons f fs ih => cases f <;> simp [dgOf, ih]

/-- the datagrams of all packets of a list, concatenated -/
def dgsOf (ps : List Packet) : List Bytes := ps.flatMap (fun p => dgOf p.frames)

theorem dgsOf_append (a b : List Packet) : dgsOf (a ++ b) = dgsOf a ++ dgsOf b := by
  simp [dgsOf, List.flatMap_append]

theorem dgsOf_single (p : Packet) : dgsOf [p] = dgOf p.frames := by simp [dgsOf]

/-- the C19 packet (loader output) a `Net` packet stands for: every datagram in with-length form, no padding -/
def toPkt (p : Packet) : Pkt := (dgOf p.frames).map (fun x => Loaded.mk 0 true x)

def hasDg (p : Packet) : Bool := !(dgOf p.frames).isEmpty

theorem payloads_map (ds : List Bytes) : Datagram.Pkt.payloads (ds.map (fun x => Loaded.mk 0 true x)) = ds := by
  induction ds with
  | nil => rfl
  | cons x xs ih => simp only [Datagram.Pkt.payloads, List.map_cons] at ih ⊢; rw [ih]

theorem payloads_toPkt (p : Packet) : Datagram.Pkt.payloads (toPkt p) = dgOf p.frames := payloads_map _

/-! ### the honest sender's queue discipline and the size bound -/

/-- QUEUE DISCIPLINE of the honest sender of direction `d` (a hypothesis on the sender, not on the adversary): the
datagrams put into packets so far plus those of the packet being assembled are a prefix of what the application
queued — datagrams leave in queue order, each once (`DatagramOutgoing::try_load_data_into` pops the front). -/
def opDiscipline {C : Type} (d : Dir) (σ : Net C) : Op C → Prop
  | .send d' frames => d' = d → (dgsOf (σ.sent d) ++ dgOf (frames.filter (legal σ d))) <+: σ.dgSent d
  | _ => True

instance {C : Type} (d : Dir) (σ : Net C) (op : Op C) : Decidable (opDiscipline d σ op) := by
  cases op <;> unfold opDiscipline <;> infer_instance

def DgDiscipline {C : Type} (K : Crypto C) (ord : Order) (d : Dir) : Net C → List (Op C) → Prop
  | _, [] => True
  | σ, op :: rest => opDiscipline d σ op ∧ DgDiscipline K ord d (step K ord σ op) rest

/-- every datagram the application of direction `d` queues is shorter than `B` -/
def DgSmall {C : Type} (d : Dir) (B : Nat) (ops : List (Op C)) : Prop := ∀ x, Op.dgSend d x ∈ ops → x.length < B

/-! ### a whole assembly pass with plenty of room -/

/-- room that certainly suffices to write `ds` in with-length form -/
def need : List Bytes → Nat
  | [] => 0
  | x :: xs => 9 + x.length + need xs

theorem loadN_many (ds : List Bytes) (t : List Bytes) : ∀ (R : Nat) (s : Sender), s.closed = none →
    s.queue = ds ++ t → (∀ x ∈ ds, x.length < 2 ^ 62) → need ds ≤ R →
    Datagram.loadN ds.length R s = ({ s with queue := t }, ds.map (fun x => Loaded.mk 0 true x), none) := by
  induction ds with
  | nil =>
    intro R s _ hq _ _
    simp only [List.nil_append] at hq
    simp only [List.length_nil, Datagram.loadN, List.map_nil, ← hq]
  | cons x xs ih =>
    intro R s hc hq hs hR
    have hx : x.length < 2 ^ 62 := hs x (by simp)
    have hh := Datagram.hdrSize_le true x.length
    simp only [Datagram.hdrMax] at hh
    simp only [need] at hR
    have htl := Datagram.tryLoad_eq R s x (xs ++ t) hc hq hx
    have h1 : ¬ R ≤ x.length := by omega
    have h2 : Datagram.hdrSize true x.length + x.length ≤ R := by omega
    simp only [h1, if_false, h2, if_true] at htl
    simp only [List.length_cons]
    rw [Datagram.loadN_wrote xs.length R s _ 0 true x htl]
    have := ih (R - (0 + Datagram.hdrSize true x.length + x.length)) { s with queue := xs ++ t } hc rfl
      (fun y hy => hs y (by simp [hy])) (by omega)
    rw [this]
    simp only [List.map_cons]

/-! ### the receive path on such a packet -/

theorem frames_map (ds : List Bytes) :
    (ds.map (fun x => Loaded.mk 0 true x)).flatMap Datagram.Loaded.frames = ds.map (fun x => Frame.datagram true x) := by
  induction ds with
  | nil => rfl
  | cons x xs ih =>
    simp only [List.map_cons, List.flatMap_cons, ih, Datagram.Loaded.frames, List.replicate_zero, List.nil_append,
      List.singleton_append]

theorem wf_map (ds : List Bytes) (h : ∀ x ∈ ds, x.length < 2 ^ 62) :
    Datagram.WFPkt (ds.map (fun x => Loaded.mk 0 true x)) := by
  induction ds with
  | nil => trivial
  | cons x xs ih =>
    simp only [List.map_cons]
    exact Datagram.WFPkt_cons_withLen _ _ (h x (by simp)) rfl (ih (fun y hy => h y (by simp [hy])))

/-- small datagrams are all queued by an open receiving flow: no PROTOCOL_VIOLATION, nothing else changes -/
theorem feed_dgs (ds : List Bytes) : ∀ (r : Receiver), r.closed = none →
    (∀ x ∈ ds, 9 + x.length ≤ r.localMax) →
    (Datagram.feed r (ds.map (fun x => Frame.datagram true x))).1.closed = none ∧
    (Datagram.feed r (ds.map (fun x => Frame.datagram true x))).1.localMax = r.localMax ∧
    Datagram.sawPV (Datagram.feed r (ds.map (fun x => Frame.datagram true x))).2 = false ∧
    Datagram.okPayloads (Datagram.feed r (ds.map (fun x => Frame.datagram true x))).2 = ds := by
  induction ds with
  | nil => intro r h _; simp [Datagram.feed, Datagram.okPayloads, Datagram.sawPV, h]
  | cons x xs ih =>
    intro r h hs
    have hh := Datagram.hdrSize_le true x.length
    simp only [Datagram.hdrMax] at hh
    have hx := hs x (by simp)
    have hbig : ¬ (Datagram.hdrSize true x.length + x.length > r.localMax) := by omega
    have e : Datagram.recvDatagram r true x.length x =
        ({ r with queue := r.queue ++ [x], waker := false }, .ok r.waker) := by
      unfold Datagram.recvDatagram; simp [h, hbig]
    have := ih { r with queue := r.queue ++ [x], waker := false } h (fun y hy => hs y (by simp [hy]))
    obtain ⟨a1, a2, a3, a4⟩ := this
    simp only [List.map_cons, Datagram.feed, Datagram.recvFrame, e, Datagram.okPayloads, Datagram.sawPV_cons_ok]
    exact ⟨a1, a2, a3, by rw [a4]⟩

/-! ### single `Run` steps in closed form -/

theorem step_load (r : Run) (ds t : List Bytes) (hne : ds ≠ []) (hc : r.snd.closed = none)
    (hq : r.snd.queue = ds ++ t) (hs : ∀ x ∈ ds, x.length < 2 ^ 62) :
    r.step (.load (need ds) ds.length) =
      { r with snd := { r.snd with queue := t }, net := r.net ++ [ds.map (fun x => Loaded.mk 0 true x)],
               wire := r.wire ++ [ds.map (fun x => Loaded.mk 0 true x)] } := by
  have he : (ds.map (fun x => Loaded.mk 0 true x)).isEmpty = false := by
    cases ds with
    | nil => exact absurd rfl hne
    | cons _ _ => rfl
  simp only [Run.step, Run.stepObs, loadN_many ds t (need ds) r.snd hc hq hs (Nat.le_refl _), he,
    Bool.false_eq_true, if_false]

theorem step_deliver (r : Run) (k : Nat) (ds : List Bytes)
    (hk : r.net[k]? = some (ds.map (fun x => Loaded.mk 0 true x))) (hc : r.rcv.closed = none)
    (hs : ∀ x ∈ ds, 9 + x.length ≤ r.rcv.localMax) (hs2 : ∀ x ∈ ds, x.length < 2 ^ 62) :
    ∃ rc : Receiver, rc.closed = none ∧ rc.localMax = r.rcv.localMax ∧
      r.step (.deliver k) =
        { r with rcv := rc, net := r.net.eraseIdx k, delivered := r.delivered ++ [ds.map (fun x => Loaded.mk 0 true x)],
                 arrived := r.arrived ++ ds } := by
  obtain ⟨a1, a2, a3, a4⟩ := feed_dgs ds r.rcv hc hs
  refine ⟨_, a1, a2, ?_⟩
  simp only [Run.step, Run.stepObs, hk, Datagram.decAll_encPkt _ (wf_map ds hs2), frames_map, a3, a4,
    Bool.false_eq_true, if_false]

theorem step_send (r : Run) (x : Bytes) (hc : r.snd.closed = none) (hx : 9 + x.length ≤ r.peerMax) :
    r.step (.send x) = { r with snd := { r.snd with queue := r.snd.queue ++ [x] }, accepted := r.accepted ++ [x] } := by
  have hv := (Wire.varintSize_le x.length).2
  have hbig : ¬ (1 + Wire.varintSize x.length + x.length > r.peerMax) := by omega
  have : Datagram.send r.peerMax r.snd x = ({ r.snd with queue := r.snd.queue ++ [x] }, .queued) := by
    unfold Datagram.send; simp [hc, hbig]
  simp only [Run.step, Run.stepObs, this, if_true]

/-! ### one direction of a `Net` state, and what each op does to it -/

structure View where
  sent : List Packet
  delivered : List Packet
  dgSent : List Bytes
  dgRcvd : List Bytes

def view {C : Type} (d : Dir) (σ : Net C) : View := ⟨σ.sent d, σ.delivered d, σ.dgSent d, σ.dgRcvd d⟩

theorem view_fold_same {C : Type} (d : Dir) (frames : List PFrame) (σ : Net C) :
    view d (frames.foldl (handle d) σ) = { view d σ with dgRcvd := σ.dgRcvd d ++ dgOf frames } := by
  induction frames generalizing σ with
  | nil => simp [view, dgOf]
  | cons f fs ih =>
    simp only [List.foldl_cons]
    rw [ih]
    cases f with
    | stream sid g => rfl
    | dgram x => simp only [view, handle, upd_same, dgOf, List.append_assoc, List.singleton_append]
    | other t => rfl

theorem view_fold_other {C : Type} (d d' : Dir) (hd : d ≠ d') (frames : List PFrame) (σ : Net C) :
    view d (frames.foldl (handle d') σ) = view d σ := by
  induction frames generalizing σ with
  | nil => rfl
  | cons f fs ih =>
    simp only [List.foldl_cons]
    rw [ih]
    cases f with
    | stream sid g => rfl
    | dgram x => simp only [view, handle, upd_other _ _ _ _ hd]
    | other t => rfl

/-- the moves of the projected direction -/
inductive ViewStep (B : Nat) (v v' : View) : Prop
  | same (h : v' = v)
  | dgSend (x : Bytes) (hx : x.length < B) (h : v' = { v with dgSent := v.dgSent ++ [x] })
  | send (p : Packet) (hp : (dgsOf v.sent ++ dgOf p.frames) <+: v.dgSent) (hpn : ∀ q ∈ v.sent, q.pn < p.pn)
      (h : v' = { v with sent := v.sent ++ [p] })
  | deliver (p : Packet) (hp : p ∈ v.sent) (hn : p.pn ∉ v.delivered.map (·.pn))
      (h : v' = { v with delivered := v.delivered ++ [p], dgRcvd := v.dgRcvd ++ dgOf p.frames })

theorem view_step {C : Type} {K : Crypto C} {sw rw : Nat} (ord : Order) (d : Dir) (B : Nat) {σ : Net C}
    (hi : Inv K sw rw σ) (op : Op C) (ha : opAuthentic K σ op) (hq : opDiscipline d σ op)
    (hs : ∀ x, op = .dgSend d x → x.length < B) : ViewStep B (view d σ) (view d (step K ord σ op)) := by
  cases op with
  | app d' sid sop =>
    apply ViewStep.same
    simp only [step]; split <;> rfl
  | slide d' n => exact .same rfl
  | dgSend d' x =>
    by_cases hd : d = d'
    · subst hd
      exact .dgSend x (hs x rfl) (by simp only [view, step, upd_same])
    · exact .same (by simp only [view, step, upd_other _ _ _ _ hd])
  | send d' frames =>
    by_cases hd : d = d'
    · subst hd
      exact .send ⟨σ.nextPn d, frames.filter (legal σ d)⟩ (hq rfl) (fun q hq' => hi.sent_pn d q hq')
        (by simp only [view, step, upd_same])
    · exact .same (by simp only [view, step, upd_other _ _ _ _ hd])
  | recv d' c =>
    simp only [step, recvStep]
    split
    · exact .same rfl
    · split
      · exact .same rfl
      · split
        · exact .same rfl
        · rename_i p ho
          split
          · exact .same rfl
          · split
            · rename_i hfresh
              by_cases hd : d = d'
              · subst hd
                have hsent : p ∈ σ.sent d := authentic_sent hi d c p ho (ha (by simp [ho]))
                have hnot : p.pn ∉ (σ.delivered d).map (·.pn) := by
                  intro hm
                  obtain ⟨q, hq', he⟩ := List.mem_map.mp hm
                  have hg := hi.deliv_gone d q hq'
                  rw [he] at hg
                  simp only [fresh, Bool.and_eq_true, decide_eq_true_eq, Bool.not_eq_true'] at hfresh
                  rcases hg with hg | hg
                  · omega
                  · simp [hfresh.2] at hg
                refine .deliver p hsent hnot ?_
                simp only [dispatch, view_fold_same]
                simp only [view, upd_same]
              · refine .same ?_
                simp only [dispatch, view_fold_other d d' hd]
                simp only [view, upd_other _ _ _ _ hd]
            · exact .same rfl

end GmQuic.Net
