import GmQuic.Model.Wake3
import GmQuic.Lemmas.Wake
/-! Per-instance invariants for the stream sender / receiver instances of C16 (Model/Wake3.lean). -/
namespace GmQuic.Wake
namespace Snd

/-- what a sleeper of each kind knows about the state -/
def Good (s : State) (w : Wid) : Kind → Prop
  | .write _ => live s.phase = true ∧ s.sw = none ∧ ¬ (s.maxData > s.written) ∧ s.ww = some w
  | .flush => (live s.phase = true ∧ s.acked ≠ s.written ∧ s.fw = some w) ∨ (s.phase = .dataSent ∧ s.fw = some w)
  | .shutdown => (live s.phase = true ∨ s.phase = .dataSent) ∧ s.sw = some w

def Inv (s : State) (l : List (Sleeper Op)) : Prop :=
  ∀ x ∈ l, x.t = 0 ∧ ∃ k, x.op = .poll x.t x.w k ∧ Good s x.w k

variable (m : Nat)

theorem pres (s : State) (l : List (Sleeper Op)) (op : Op) (hok : SingleTask (proto m) op) (h : Inv s l) :
    Inv (step s op).1 (nextSlp (proto m) l op (step s op).2) := by
  intro x hx
  obtain ⟨hw, hx⟩ := mem_nextSlp (P := proto m) hx
  rcases hx with ⟨hxl, hp, hd⟩ | ⟨t, w, hp, hr, rfl⟩
  · obtain ⟨h0, k, h1, hg⟩ := h x hxl
    refine ⟨h0, k, h1, ?_⟩
    cases op with
    | poll t w k' =>
      have := hok t w rfl
      exact absurd (h0.trans this.symm) (hp t w rfl)
    | cancel => exact absurd h0 (hd rfl 0 rfl)
    | dropfut t => exact hg
    | window v =>
      cases k <;> simp only [Good, step, proto] at hg hw ⊢ <;> split <;> (try split) <;>
        simp_all [takeWake, live] <;> omega
    | load =>
      cases k <;> simp only [Good, step, proto] at hg hw ⊢ <;> split <;> (try split) <;> (try split) <;>
        simp_all [takeWake, live] <;> grind
    | ack =>
      cases k <;> simp only [Good, step, proto] at hg hw ⊢ <;> split <;> (try split) <;> (try split) <;>
        (try split) <;> (try split) <;> simp_all [takeWake, live] <;> grind
    | stop =>
      cases k <;> simp only [Good, step, proto, wakeAll] at hg hw ⊢ <;> split <;>
        simp_all [takeWake, live] <;> grind
    | connError =>
      cases k <;> simp only [Good, step, proto, wakeAll] at hg hw ⊢ <;> split <;> (try split) <;>
        simp_all [takeWake, live] <;> grind
  · cases op with
    | poll t' w' k =>
      simp only [proto, Option.some.injEq, Prod.mk.injEq] at hp
      obtain ⟨rfl, rfl⟩ := hp
      refine ⟨hok t' w' rfl, k, rfl, ?_⟩
      revert hr
      cases k <;> simp only [Good, step, proto] <;> split <;> (try split) <;> (try split) <;>
        simp_all [live] <;> grind
    | _ => simp [proto] at hp

theorem safe (s : State) (l : List (Sleeper Op)) (x : Sleeper Op) (h : Inv s l) (hx : x ∈ l) :
    (step s x.op).2.res = .pending := by
  obtain ⟨_, k, h1, hg⟩ := h x hx
  rw [h1]
  cases k <;> simp only [Good] at hg <;> simp only [step] <;> simp_all [live] <;> grind

/-- streams that are still sending belong to a `DataStreams` that has not failed -/
def G (s : State) : Prop := (live s.phase = true ∨ s.phase = .dataSent) → s.dsClosed = false

theorem gpres (s : State) (op : Op) (h : G s) : G (step s op).1 := by
  unfold G at *
  cases op with
  | poll t w k => cases k <;> simp only [step] <;> split <;> (try split) <;> (try split) <;> simp_all [live]
  | window v => simp only [step]; split <;> (try split) <;> simp_all [live]
  | load => simp only [step]; split <;> (try split) <;> (try split) <;> simp_all [live] <;> grind
  | ack => simp only [step]; split <;> (try split) <;> (try split) <;> (try split) <;> (try split) <;> simp_all [live]
  | stop => simp only [step]; split <;> simp_all [live]
  | cancel => simp only [step]; split <;> simp_all [live]
  | connError => simp only [step]; split <;> (try split) <;> simp_all [live]
  | dropfut t => simpa [step] using h

theorem closeWakes (s : State) (l : List (Sleeper Op)) (x : Sleeper Op) (hG : G s) (h : Inv s l) (hx : x ∈ l) :
    x.w ∈ (step s .connError).2.wakes := by
  obtain ⟨_, k, _, hg⟩ := h x hx
  unfold G at hG
  cases k <;> simp only [Good] at hg <;> simp only [step, wakeAll] <;> simp_all [live, takeWake] <;> grind

def sound : CloseSound (proto m) (SingleTask (proto m)) where
  Inv := fun s l => G s ∧ Inv s l
  init := ⟨by simp [G, proto, init], by intro x hx; cases hx⟩
  pres := fun s l op hok h => ⟨gpres s op h.1, pres m s l op hok h.2⟩
  safe := fun s l x h hx => safe s l x h.2 hx
  closeWakes := fun s l x h hx => closeWakes s l x h.1 h.2 hx

end Snd

namespace Rcv

def Inv (s : State) (l : List (Sleeper Op)) : Prop :=
  ∀ x ∈ l, x.t = 0 ∧ ∃ cap, x.op = .poll x.t x.w cap ∧ waiting s.phase = true ∧
    RecvBuf.isReadable s.buf = false ∧ s.waker = some x.w

variable (fx : Bool) (m : Nat)

theorem pres (s : State) (l : List (Sleeper Op)) (op : Op) (hok : SingleTask (proto fx m) op) (h : Inv s l) :
    Inv (step fx s op).1 (nextSlp (proto fx m) l op (step fx s op).2) := by
  intro x hx
  obtain ⟨hw, hx⟩ := mem_nextSlp (P := proto fx m) hx
  rcases hx with ⟨hxl, hp, hd⟩ | ⟨t, w, hp, hr, rfl⟩
  · obtain ⟨h0, cap, h1, h2, h3, h4⟩ := h x hxl
    refine ⟨h0, cap, h1, ?_⟩
    cases op with
    | poll t w c =>
      have := hok t w rfl
      exact absurd (h0.trans this.symm) (hp t w rfl)
    | dropfut t => exact ⟨h2, h3, h4⟩
    | data off len fin =>
      simp only [step, proto] at hw ⊢
      repeat' split
      all_goals simp_all [takeWake, waiting]
    | reset f =>
      simp only [step, proto] at hw ⊢
      repeat' split
      all_goals simp_all [takeWake, waiting]
    | connError =>
      simp only [step, proto] at hw ⊢
      repeat' split
      all_goals simp_all [takeWake, waiting]
  · cases op with
    | poll t' w' c =>
      simp only [proto, Option.some.injEq, Prod.mk.injEq] at hp
      obtain ⟨rfl, rfl⟩ := hp
      refine ⟨hok t' w' rfl, c, rfl, ?_⟩
      revert hr
      simp only [step]
      split
      · split
        · intro _; simp_all
        · intro h; simp at h
      · split
        · intro h; simp at h
        · split
          · intro h; simp at h
          · split <;> (intro h; simp at h)
    | _ => simp [proto] at hp

theorem safe (s : State) (l : List (Sleeper Op)) (x : Sleeper Op) (h : Inv s l) (hx : x ∈ l) :
    (step fx s x.op).2.res = .pending := by
  obtain ⟨_, cap, h1, h2, h3, _⟩ := h x hx
  rw [h1]; simp [step, h2, h3]

def sound : Sound (proto fx m) (SingleTask (proto fx m)) where
  Inv := Inv
  init := by intro x hx; cases hx
  pres := pres fx m
  safe := safe fx

/-- fixed code: a stream in a waiting phase is still in the input map of a `DataStreams` that has not failed -/
def G (s : State) : Prop := waiting s.phase = true → s.inMap = true ∧ s.dsClosed = false

theorem gpres (s : State) (op : Op) (h : G s) : G (step true s op).1 := by
  unfold G at *
  cases op with
  | poll t w c => simp only [step]; split <;> (try split) <;> (try split) <;> (try split) <;> (try split) <;> simp_all [waiting]
  | data off len fin =>
    simp only [step]; split <;> (try split) <;> (try split) <;> (try split) <;> (try split) <;> (try split) <;>
      simp_all [waiting]
  | reset f =>
    simp only [step]; split <;> (try split) <;> (try split) <;> (try split) <;> simp_all [waiting]
  | connError => simp only [step]; split <;> (try split) <;> simp_all [waiting] <;> grind
  | dropfut t => simpa [step] using h

theorem closeWakes (s : State) (l : List (Sleeper Op)) (x : Sleeper Op) (hG : G s) (h : Inv s l) (hx : x ∈ l) :
    x.w ∈ (step true s .connError).2.wakes := by
  obtain ⟨_, cap, _, h2, _, h4⟩ := h x hx
  have := hG h2
  simp [step, this.1, this.2, h2, h4, takeWake]

def soundClose : CloseSound (proto true m) (SingleTask (proto true m)) where
  Inv := fun s l => G s ∧ Inv s l
  init := ⟨by simp [G, proto, init], by intro x hx; cases hx⟩
  pres := fun s l op hok h => ⟨gpres s op h.1, pres true m s l op hok h.2⟩
  safe := fun s l x h hx => safe true s l x h.2 hx
  closeWakes := fun s l x h hx => closeWakes s l x h.1 h.2 hx

end Rcv
end GmQuic.Wake
