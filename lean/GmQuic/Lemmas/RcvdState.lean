import GmQuic.Lemmas.AckIter
import GmQuic.Lemmas.Rcvd
/-! State-level lemmas for the received-packet journal (C10): abstraction to the C07 receiver model
(`Pn.Rcvd`: offset + "cell is not Empty" flags), so that the C07 lemmas (`Gone`, `gone_onRcvd`, `gone_slide`) are reused;
history invariants relating the cells to the ghost log of registered numbers. -/
namespace GmQuic.RcvdJournal
open GmQuic.Pn

def flag (c : Cell) : Bool := !c.isEmpty

def abs (s : State) : Rcvd := { offset := s.offset, cells := s.cells.map flag }

theorem abs_largest (s : State) : (abs s).largest = s.largest := by simp [abs, Rcvd.largest, State.largest]

theorem has_eq_seen (s : State) (pn : Nat) : s.has pn = (abs s).seen pn := by
  rw [seen_eq]
  unfold State.has State.cell abs
  by_cases h : s.offset ≤ pn
  · simp only [h, if_true, decide_true, Bool.true_and, List.getD_eq_getElem?_getD, List.getElem?_map]
    cases s.cells[pn - s.offset]? <;> simp [flag, Cell.isEmpty]
  · simp [h]

theorem flag_track (pn : Nat) (c : Cell) : flag (c.track pn) = flag c := by cases c <;> rfl
theorem flag_confirm (a : List Nat) (c : Cell) : flag (confirm a c) = flag c := by
  cases c with
  | ackSent e x pns => simp only [confirm]; split <;> rfl
  | _ => rfl

theorem map_flag_mapFirst (pn n : Nat) (l : List Cell) : (mapFirst (Cell.track pn) n l).map flag = l.map flag := by
  induction l generalizing n with
  | nil => cases n <;> simp [mapFirst]
  | cons c cs ih => cases n <;> simp [mapFirst, flag_track, ih]

/-- flags scanned by `gen_ack_frame_util`, newest first -/
def bsOf (s : State) (largest : Nat) : List Bool := ((s.cells.take (s.below largest)).reverse).map fun c => !c.isEmpty

theorem genAck_flags (s : State) (pn largest delay cap : Nat) :
    (genAck s pn largest delay cap).1.cells.map flag = s.cells.map flag ∧
    (genAck s pn largest delay cap).1.offset = s.offset ∧
    (genAck s pn largest delay cap).1.rcvdLog = s.rcvdLog ∧ (genAck s pn largest delay cap).1.now = s.now := by
  unfold genAck
  split
  · simp
  · simp only
    split
    · simp
    · have key : ∀ v, ((mapFirst (Cell.track pn) v (s.cells.take (s.below largest)).reverse).reverse ++ s.cells.drop (s.below largest)).map flag
          = s.cells.map flag := by
        intro v
        rw [List.map_append, List.map_reverse, map_flag_mapFirst, ← List.map_reverse, List.reverse_reverse, ← List.map_append,
          List.take_append_drop]
      cases (genFrame largest delay cap (List.map (fun c => !c.isEmpty) (List.take (s.below largest) s.cells).reverse)).1 <;>
        simp [key]

theorem abs_genAck (s : State) (pn largest delay cap : Nat) : abs (genAck s pn largest delay cap).1 = abs s := by
  obtain ⟨h1, h2, -, -⟩ := genAck_flags s pn largest delay cap
  simp [abs, h1, h2]

theorem genAck_ok (s : State) (pn largest delay cap : Nat) (f : AckFrame)
    (h : (genAck s pn largest delay cap).2 = .ok f) :
    ∃ v, genFrame largest delay cap (bsOf s largest) = (.ok f, v) ∧ s.below largest < 2 ^ 32 := by
  unfold genAck at h
  split at h
  · simp at h
  · simp only at h
    split at h
    · simp at h
    · rename_i hk
      refine ⟨(genFrame largest delay cap (bsOf s largest)).2, ?_, by omega⟩
      unfold bsOf
      cases hg : (genFrame largest delay cap (List.map (fun c => !c.isEmpty) (List.take (s.below largest) s.cells).reverse)).1 <;>
        simp only [hg] at h <;> simp at h
      subst h
      rw [← hg]

/-! ### `on_rcvd_pn`, `on_rcvd_ack` on the abstraction -/

theorem abs_onRcvdPn (s s' : State) (pn : Nat) (elic : Bool) (pto : Nat) (h : onRcvdPn s pn elic pto = some s') :
    abs s' = (abs s).onRcvd pn ∧ s'.now = s.now ∧
    (s'.rcvdLog = s.rcvdLog ∧ pn < s.offset ∨ s'.rcvdLog = pn :: s.rcvdLog ∧ s.offset ≤ pn) := by
  unfold onRcvdPn at h
  simp only at h
  split at h
  · rename_i hc
    cases h
    refine ⟨?_, rfl, Or.inr ⟨rfl, hc.1⟩⟩
    have h1 : ¬ pn < s.offset := by omega
    have h2 : pn < s.offset + s.cells.length := by simpa [State.largest] using hc.2
    simp [abs, Rcvd.onRcvd, Rcvd.largest, h1, h2, List.map_set, flag, Cell.isEmpty]
  · rename_i hc
    split at h
    · cases h
    · split at h
      · rename_i hlt
        cases h
        exact ⟨by simp [abs, Rcvd.onRcvd, hlt], rfl, Or.inl ⟨rfl, hlt⟩⟩
      · rename_i hlt
        cases h
        refine ⟨?_, rfl, Or.inr ⟨rfl, by omega⟩⟩
        have h2 : ¬ pn < s.offset + s.cells.length := by
          simp only [State.largest] at hc; omega
        simp [abs, Rcvd.onRcvd, Rcvd.largest, hlt, h2, State.largest, flag, Cell.isEmpty]

theorem dropExpired_drop (now : Nat) (l : List Cell) :
    dropExpired now l = l.drop (l.length - (dropExpired now l).length) ∧ (dropExpired now l).length ≤ l.length := by
  induction l with
  | nil => simp [dropExpired]
  | cons c cs ih =>
    simp only [dropExpired]
    split
    · obtain ⟨h1, h2⟩ := ih
      refine ⟨?_, by simp; omega⟩
      have : (c :: cs).length - (dropExpired now cs).length = (cs.length - (dropExpired now cs).length) + 1 := by
        simp; omega
      rw [this, List.drop_succ_cons]; exact h1
    · simp

theorem abs_rotate (s : State) : ∃ n, abs (rotate s) = (abs s).slide n ∧ (rotate s).rcvdLog = s.rcvdLog ∧ (rotate s).now = s.now := by
  obtain ⟨h1, h2⟩ := dropExpired_drop s.now s.cells
  refine ⟨s.cells.length - (dropExpired s.now s.cells).length, ?_, rfl, rfl⟩
  simp only [abs, rotate, Rcvd.slide, List.length_map]
  have : min (s.cells.length - (dropExpired s.now s.cells).length) s.cells.length = s.cells.length - (dropExpired s.now s.cells).length := by omega
  rw [this, ← List.map_drop, ← h1]

theorem abs_onRcvdAck (s s' : State) (f : AckFrame) (h : onRcvdAck s f = some s') :
    ∃ n, abs s' = (abs s).slide n ∧ s'.rcvdLog = s.rcvdLog ∧ s'.now = s.now := by
  unfold onRcvdAck at h
  split at h
  · cases h
  · rename_i rs heq
    cases h
    obtain ⟨n, h1, h2, h3⟩ := abs_rotate ⟨s.offset, s.cells.map (confirm (s.incl.filter (covers rs))),
      s.incl.filter (fun p => !((s.incl.filter (covers rs)).contains p)), s.earliest, s.now, s.rcvdLog⟩
    refine ⟨n, ?_, h2, h3⟩
    rw [h1]
    simp [abs, List.map_map, Function.comp_def, flag_confirm]

/-! ### seen after the abstract operations (converse direction to the C07 `gone_*` lemmas) -/

theorem seen_onRcvd (r : Rcvd) (pn q : Nat) (h : (r.onRcvd pn).seen q = true) : q = pn ∨ r.seen q = true := by
  by_cases hq : q = pn
  · exact Or.inl hq
  · right
    rw [seen_eq] at h ⊢
    unfold Rcvd.onRcvd at h
    split at h
    · exact h
    · split at h
      · simp only [Bool.and_eq_true, decide_eq_true_eq] at h ⊢
        refine ⟨h.1, ?_⟩
        have := h.2
        rw [List.getElem?_set_ne (by omega)] at this
        exact this
      · simp only [Bool.and_eq_true, decide_eq_true_eq] at h ⊢
        refine ⟨h.1, ?_⟩
        have h2 := h.2
        rename_i h3 h4
        simp only [Rcvd.largest] at h3 h4 h2
        by_cases hl : q - r.offset < r.cells.length
        · rw [List.append_assoc, List.getElem?_append_left hl] at h2; exact h2
        · exfalso
          rw [List.append_assoc, List.getElem?_append_right (by omega)] at h2
          by_cases hl2 : q - r.offset - r.cells.length < pn - (r.offset + r.cells.length)
          · rw [List.getElem?_append_left (by simpa using hl2)] at h2
            simp [List.getElem?_replicate, hl2] at h2
          · rw [List.getElem?_append_right (by simpa using hl2)] at h2
            simp only [List.length_replicate] at h2
            have : q - r.offset - r.cells.length - (pn - (r.offset + r.cells.length)) ≠ 0 := by omega
            cases hx : q - r.offset - r.cells.length - (pn - (r.offset + r.cells.length)) with
            | zero => exact this hx
            | succ k => rw [hx] at h2; simp at h2

theorem seen_slide (r : Rcvd) (n q : Nat) (h : (r.slide n).seen q = true) : r.seen q = true := by
  rw [seen_eq] at h ⊢
  simp only [Rcvd.slide, Bool.and_eq_true, decide_eq_true_eq] at h ⊢
  obtain ⟨h1, h2⟩ := h
  have h1 := of_decide_eq_true h1
  refine ⟨by omega, ?_⟩
  rw [List.getElem?_drop] at h2
  have : min n r.cells.length + (q - (r.offset + min n r.cells.length)) = q - r.offset := by omega
  rw [this] at h2; exact h2

/-! ### history invariant -/

structure Inv (s : State) : Prop where
  /-- every number ever registered can no longer be accepted (C07 `Gone`) -/
  gone : ∀ pn ∈ s.rcvdLog, Gone (abs s) pn
  /-- every non-empty cell belongs to a registered number -/
  logged : ∀ pn, s.has pn = true → pn ∈ s.rcvdLog

theorem init_inv : Inv init := ⟨by simp [init], by simp [init, State.has, State.cell, Cell.isEmpty]⟩

theorem step_inv (s : State) (op : Op) (h : Inv s) : Inv (step s op) := by
  cases op with
  | rcv pn elic pto =>
    simp only [step]
    cases hr : onRcvdPn s pn elic pto with
    | none => simpa using h
    | some s' =>
      simp only [Option.getD_some]
      obtain ⟨ha, -, hl⟩ := abs_onRcvdPn s s' pn elic pto hr
      constructor
      · intro q hq
        rw [ha]
        rcases hl with ⟨hl, hlt⟩ | ⟨hl, hge⟩
        · rw [hl] at hq; exact gone_onRcvd _ _ _ (h.gone q hq)
        · rw [hl] at hq
          rcases List.mem_cons.1 hq with rfl | hq
          · exact gone_onRcvd_self _ _
          · exact gone_onRcvd _ _ _ (h.gone q hq)
      · intro q hq
        rw [has_eq_seen, ha] at hq
        rcases seen_onRcvd _ _ _ hq with rfl | hs
        · rcases hl with ⟨hl, hlt⟩ | ⟨hl, hge⟩
          · exfalso
            rw [seen_eq] at hq
            simp only [Rcvd.onRcvd, abs] at hq
            simp [hlt] at hq; omega
          · rw [hl]; exact List.mem_cons_self
        · have := h.logged q (by rw [has_eq_seen]; exact hs)
          rcases hl with ⟨hl, -⟩ | ⟨hl, -⟩ <;> rw [hl]
          · exact this
          · exact List.mem_cons_of_mem _ this
  | gen pn largest delay cap =>
    simp only [step]
    obtain ⟨-, -, hl, -⟩ := genAck_flags s pn largest delay cap
    constructor
    · intro q hq; rw [abs_genAck]; rw [hl] at hq; exact h.gone q hq
    · intro q hq; rw [has_eq_seen, abs_genAck, ← has_eq_seen] at hq; rw [hl]; exact h.logged q hq
  | rack f =>
    simp only [step]
    cases hr : onRcvdAck s f with
    | none => simpa using h
    | some s' =>
      simp only [Option.getD_some]
      obtain ⟨n, ha, hl, -⟩ := abs_onRcvdAck s s' f hr
      constructor
      · intro q hq; rw [ha]; rw [hl] at hq; exact gone_slide _ _ _ (h.gone q hq)
      · intro q hq
        rw [has_eq_seen, ha] at hq
        rw [hl]; exact h.logged q (by rw [has_eq_seen]; exact seen_slide _ _ _ hq)
  | tick us =>
    simp only [step]
    exact ⟨fun q hq => by simpa [abs] using h.gone q hq, fun q hq => h.logged q (by simpa [State.has, State.cell] using hq)⟩

theorem fold_inv (ops : List Op) (s : State) (h : Inv s) : Inv (ops.foldl step s) := by
  induction ops generalizing s with
  | nil => exact h
  | cons op ops ih => exact ih _ (step_inv s op h)

theorem run_inv (ops : List Op) : Inv (run ops) := fold_inv ops init init_inv

end GmQuic.RcvdJournal
