import GmQuic.Model.Header
import GmQuic.Lemmas.CodecFrames
/-! Round-trip lemmas for the packet-type byte and the header bodies. -/
namespace GmQuic.Codec
open GmQuic.Wire GmQuic.Gen

@[simp] theorem HRes.bind_ok {α β} (a : α) (r : Bytes) (f : α → Bytes → HRes β) :
    (HRes.ok a r).bind f = f a r := rfl

theorem pBeS_beBytes (w n : Nat) (rest : Bytes) (h : n < 256 ^ w) :
    pBeS w (beBytes w n ++ rest) = .ok n rest := by
  simp [pBeS, beVal_beBytes, Nat.mod_eq_of_lt h]

theorem ofRes_pCid_enc (cid rest : Bytes) (h : cid.length ≤ maxCidSize) :
    HRes.ofRes (pCid (encCid cid ++ rest)) = .ok cid rest := by
  have := pCid_enc cid rest h
  simp only [encCid, List.cons_append] at this ⊢
  rw [this]; rfl

theorem decPType_enc (t : PType) (rest : Bytes) : decPType (encPType t ++ rest) = .ok t rest := by
  cases t with
  | vn =>
    simp only [encPType, List.cons_append, decPType]
    rw [if_neg (by decide), pBeS_beBytes 4 _ rest (by decide), HRes.bind_ok, if_pos (by decide)]
  | v1 k =>
    simp only [encPType, List.cons_append, decPType]
    rw [pBeS_beBytes 4 _ rest (by decide)]
    cases k <;>
      (rw [if_neg (by decide), HRes.bind_ok, if_neg (by decide), if_pos (by decide)]
       have : ∀ k : LongKind, longKindOfByte (UInt8.ofNat (longHeaderBit ||| fixedBit ||| k.bits)).toNat = some k := by
         intro k; cases k <;> decide
       rw [this])
  | short spin =>
    cases spin <;> simp only [encPType, List.cons_append, List.nil_append, decPType] <;>
      rw [if_pos (by decide)] <;> rfl

theorem encPType_length (t : PType) : (encPType t).length = ptypeSize t := by
  cases t <;> simp [encPType, ptypeSize, longTypeSize, shortTypeSize]

theorem pVersions_enc (vs : List Nat) (h : ∀ v ∈ vs, v < 2 ^ 32) (fuel : Nat) (hf : vs.length < fuel) :
    pVersions fuel ((vs.map (beBytes 4)).flatten) = .ok vs [] := by
  induction vs generalizing fuel with
  | nil =>
    cases fuel with
    | zero => omega
    | succ f => simp [pVersions]
  | cons v tl ih =>
    cases fuel with
    | zero => omega
    | succ f =>
      have hv := h v (by simp)
      simp only [List.map_cons, List.flatten_cons, pVersions]
      have hne : (beBytes 4 v ++ (tl.map (beBytes 4)).flatten).isEmpty = false := by
        simp [beBytes]
      rw [hne]
      simp only [Bool.false_eq_true, ↓reduceIte]
      rw [pBeS_beBytes 4 v _ (by omega), HRes.bind_ok,
        ih (fun x hx => h x (by simp [hx])) f (by simp at hf; omega), HRes.bind_ok]

theorem versions_length (vs : List Nat) : ((vs.map (beBytes 4)).flatten).length = 4 * vs.length := by
  induction vs with
  | nil => rfl
  | cons v tl ih => simp [ih]; omega

end GmQuic.Codec
