import GmQuic.Lemmas.JsonDeSer
/-! C20: keys that are present in EVERY serialisation of a schema (for the qlog envelope clause). -/
namespace GmQuic.Model.Json

/- (key, JSON kinds its value can have) for keys written unconditionally -/
mutual
def mandatoryK : Schema → List (String × List Nat)
  | .struct fs _ => mandatoryFields fs
  | .adjacent t c alts => [(t, [4]), (c, shapeAlts alts)]
  | _ => []
def mandatoryFields : Fields → List (String × List Nat)
  | .nil => []
  | .cons name kind s tl =>
      (match kind with
        | .req => [(name, shape s)]
        | .flat => mandatoryK s
        | _ => []) ++ mandatoryFields tl
end

mutual
theorem mandatoryK_sound : ∀ (s : Schema) (v : Val), hasType s v = true → ∀ p ∈ mandatoryK s,
    ∃ j, (p.1, j) ∈ objKvs (ser s v) ∧ kindOf j ∈ p.2
  | .struct fs rest, v, ht, p, hp => by
      cases v <;> simp only [hasType, Bool.and_eq_true] at ht <;> try (simp at ht)
      rename_i vs r
      obtain ⟨j, hj, hk⟩ := mandatoryFields_sound fs vs ht.1 p (by simpa [mandatoryK] using hp)
      exact ⟨j, by simp [ser, objKvs, hj], hk⟩
  | .adjacent t c alts, v, ht, p, hp => by
      cases v <;> simp [hasType] at ht
      rename_i i x
      simp [mandatoryK] at hp
      rcases hp with rfl | rfl
      · exact ⟨Json.str (altName alts i), by simp [ser, objKvs], by simp [kindOf]⟩
      · exact ⟨serAlt alts i x, by simp [ser, objKvs], serAlt_kind alts i x ht⟩
  | .bool, _, _, _, hp | .int _ _, _, _, _, hp | .flt, _, _, _, hp | .str, _, _, _, hp | .hex _ _, _, _, _, hp
  | .any, _, _, _, hp | .opt _, _, _, _, hp | .seq _ _, _, _, _, hp | .map, _, _, _, hp | .unitEnum _, _, _, _, hp
  | .untagged _, _, _, _, hp | .internal _ _, _, _, _, hp | .refine _ _, _, _, _, hp => by simp [mandatoryK] at hp
theorem mandatoryFields_sound : ∀ (fs : Fields) (vs : List Val), typedFields fs vs = true → ∀ p ∈ mandatoryFields fs,
    ∃ j, (p.1, j) ∈ serFields fs vs ∧ kindOf j ∈ p.2
  | .nil, _, _, _, hp => by simp [mandatoryFields] at hp
  | .cons name kind s tl, vs, ht, p, hp => by
      cases vs with
      | nil => simp [typedFields] at ht
      | cons v vs' =>
        simp only [typedFields, Bool.and_eq_true] at ht
        simp only [mandatoryFields, List.mem_append] at hp
        rcases hp with hp | hp
        · cases kind with
          | req =>
              simp at hp; subst hp
              exact ⟨ser s v, by simp [serFields], ser_kind s v ht.1⟩
          | flat =>
              obtain ⟨j, hj, hk⟩ := mandatoryK_sound s v ht.1 p hp
              exact ⟨j, by simp [serFields, hj], hk⟩
          | opt => simp at hp
          | optNull => simp at hp
          | skipEmpty d => simp at hp
        · obtain ⟨j, hj, hk⟩ := mandatoryFields_sound tl vs' ht.2 p hp
          exact ⟨j, by simp [serFields, hj], hk⟩
end

end GmQuic.Model.Json
