import GmQuic.Lemmas.ProtectRx
/-! C06: inversion of `receive = accepted`, injectivity of header-protection removal. -/
namespace GmQuic.Protect
open GmQuic.Wire GmQuic.Pn

/-- everything `receive` established before it answered `accepted` -/
structure AcceptedWith {K H : Type} (A : Aead K) (P : Hp H) (c : RxCfg K H) (dec : PacketNumber → DecodePn)
    (s : OneRtt K) (buf : Bytes) (off : Nat) (ty : PType) (pn : Nat) (kp : Bool) (aad body : Bytes)
    (sp : Split) (k : K) : Prop where
  hsplit : split buf off = some sp
  hty : typeOfFirst sp.first = some ty
  hmask : 5 ≤ (P.mask (c.hpKey ty) (sp.tail.take 16)).length
  haad : aad = (unmask (P.mask (c.hpKey ty) (sp.tail.take 16)) sp).aad sp
  hopen : A.aopen k pn aad ((unmask (P.mask (c.hpKey ty) (sp.tail.take 16)) sp).ct sp) = some body
  hkey : (rxKey c s ty kp).2 = some k
  hkp : kp = decide ((unmask (P.mask (c.hpKey ty) (sp.tail.take 16)) sp).first &&& 0x04 ≠ 0)
  hpn : rxPn dec (unmask (P.mask (c.hpKey ty) (sp.tail.take 16)) sp) = some (.ok pn)
  hresv : (unmask (P.mask (c.hpKey ty) (sp.tail.take 16)) sp).first &&& reservedMask ty = 0

theorem accepted_inv {K H : Type} (A : Aead K) (P : Hp H) (c : RxCfg K H) (dec : PacketNumber → DecodePn)
    (s : OneRtt K) (buf : Bytes) (off : Nat) (ty : PType) (pn : Nat) (kp : Bool) (aad body : Bytes)
    (h : (receive A P c dec s buf off).1 = .accepted ty pn kp aad body) :
    ∃ sp k, AcceptedWith A P c dec s buf off ty pn kp aad body sp k := by
  unfold receive at h
  split at h
  · simp at h
  · rename_i sp hsp
    split at h
    · simp at h
    · rename_i ty' hty
      simp only at h
      split at h
      · simp at h
      · rename_i hm
        split at h
        · simp at h
        · rename_i hr1
          split at h
          · simp at h
          · simp at h
          · simp at h
          · simp at h
          · rename_i pn' hpn
            split at h
            · simp at h
            · rename_i s' k hk
              split at h
              · simp at h
              · rename_i body' hopen
                split at h
                · simp at h
                · rename_i hr2
                  simp only [Outcome.accepted.injEq] at h
                  obtain ⟨rfl, rfl, rfl, rfl, rfl⟩ := h
                  refine ⟨sp, k, ⟨hsp, hty, by omega, rfl, hopen, by rw [hk], by simp, hpn, ?_⟩⟩
                  cases hb : c.reservedBeforeOpen
                  · simpa [hb] using hr2
                  · simpa [hb] using hr1

end GmQuic.Protect
