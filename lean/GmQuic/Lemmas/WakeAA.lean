import GmQuic.Model.WakeAA
/-! Invariant of the per-atomic-operation model of `AntiAmplifier` + `SendWaker` (C16). -/
namespace GmQuic.Wake.AA

def covered (s : State) : Prop := s.bit = true ∨ s.rcvd2 > 0 ∨ s.cas2 > 0

structure Inv (s : State) : Prop where
  a : s.wpc = .asleep → s.woken = false → s.bit = false ∧ s.registered = true
  c : s.wpc = .asleep → s.woken = true → s.bit = true
  b3 : (s.wpc = .s3 ∨ s.wpc = .asleep) → cond s → covered s
  b2 : s.wpc = .s2 → s.credit > 0 → covered s

theorem inv_init : Inv init := by
  constructor <;> simp [init]

theorem inv_step (s : State) (op : Op) (h : Inv s) : Inv (step s op) := by
  obtain ⟨ha, hc, hb3, hb2⟩ := h
  cases op with
  | waiter =>
    cases hp : s.wpc <;> simp only [step, hp] <;> (try split) <;> constructor <;>
      simp_all [cond, covered, wakeBy] <;> omega
  | restart => simp only [step]; constructor <;> simp_all
  | onSent k sn =>
    simp only [step]; split <;> constructor <;> simp_all [cond, covered] <;> omega
  | rcvdLoad =>
    simp only [step]; split <;> constructor <;> simp_all [cond, covered]
  | rcvdAdd amt =>
    simp only [step]; split <;> constructor <;> simp_all [cond, covered] <;> omega
  | rcvdWake =>
    simp only [step]; split <;> constructor <;> simp_all [cond, covered, wakeBy] <;> grind
  | cas t =>
    simp only [step]; split <;> constructor <;> simp_all [cond, covered] <;> omega
  | casWake =>
    simp only [step]; split <;> constructor <;> simp_all [cond, covered, wakeBy] <;> grind

end GmQuic.Wake.AA

namespace GmQuic.Wake.AA
theorem run_inv (sched : List Op) : Inv (run sched) := by
  have : ∀ s, Inv s → Inv (sched.foldl step s) := by
    induction sched with
    | nil => intro s h; exact h
    | cons op rest ih => intro s h; exact ih _ (inv_step s op h)
  exact this init inv_init
end GmQuic.Wake.AA
