import GmQuic.Lemmas.RcvdState
/-! What the scanned flag list of `gen_ack_frame_util` says about packet numbers (C10). -/
namespace GmQuic.RcvdJournal
open GmQuic.Pn

theorem has_lt_largest (s : State) (pn : Nat) (h : s.has pn = true) : s.offset ≤ pn ∧ pn < s.largest := by
  unfold State.has State.cell State.largest at *
  simp only [Bool.and_eq_true, decide_eq_true_eq] at h
  refine ⟨h.1, ?_⟩
  rcases Nat.lt_or_ge (pn - s.offset) s.cells.length with hl | hl
  · omega
  · have := h.2
    simp only [h.1, if_true] at this
    rw [List.getD_eq_getElem?_getD, List.getElem?_eq_none hl] at this
    simp [Cell.isEmpty] at this

theorem below_eq (s : State) (L : Nat) (h1 : s.offset ≤ L) (h2 : L < s.largest) : s.below L = L + 1 - s.offset := by
  unfold State.below State.largest at *
  rw [if_neg (by omega)]; omega

/-- index `i` of the scanned flags ↔ packet number `L - i` -/
theorem covAt_bsOf (s : State) (L i : Nat) (h1 : s.offset ≤ L) (h2 : L < s.largest) :
    covAt (bsOf s L) i = (decide (i ≤ L - s.offset) && s.has (L - i)) := by
  unfold covAt bsOf
  rw [below_eq s L h1 h2]
  have hlen : (List.take (L + 1 - s.offset) s.cells).length = L + 1 - s.offset := by
    simp only [State.largest] at h2; simp; omega
  by_cases hi : i ≤ L - s.offset
  · have hi' : i < (List.take (L + 1 - s.offset) s.cells).reverse.length := by simp only [List.length_reverse, hlen]; omega
    simp only [List.getD_eq_getElem?_getD, List.getElem?_map, hi, decide_true, Bool.true_and]
    rw [List.getElem?_reverse (by simpa using hi'), hlen, List.getElem?_take]
    have e : L + 1 - s.offset - 1 - i < L + 1 - s.offset := by omega
    simp only [e, if_true]
    unfold State.has State.cell
    have e2 : s.offset ≤ L - i := by omega
    have e3 : L - i - s.offset = L + 1 - s.offset - 1 - i := by omega
    simp only [e2, decide_true, Bool.true_and, if_true, e3, List.getD_eq_getElem?_getD]
    cases s.cells[L + 1 - s.offset - 1 - i]? <;> simp [Cell.isEmpty]
  · simp only [hi, decide_false, Bool.false_and]
    rw [List.getD_eq_getElem?_getD, List.getElem?_eq_none]
    · rfl
    · simp only [List.length_map, List.length_reverse, hlen]; omega

theorem leadTrue_pos (bs : List Bool) (h : covAt bs 0 = true) : 1 ≤ leadTrue bs := by
  cases bs with
  | nil => simp [covAt] at h
  | cons b bs => cases b <;> simp_all [covAt, leadTrue]

theorem bsOf_length (s : State) (L : Nat) : (bsOf s L).length = s.below L := by
  unfold bsOf State.below
  simp only [List.length_map, List.length_reverse, List.length_take]
  split <;> omega

theorem bsOf_below_offset (s : State) (L : Nat) (h : L < s.offset) : bsOf s L = [] := by
  simp [bsOf, State.below, h]

end GmQuic.RcvdJournal
