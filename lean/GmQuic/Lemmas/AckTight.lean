import GmQuic.Lemmas.AckRoom
/-! Tight room bound for `gen_ack_frame_util`: `cost` = the bytes the complete list of ranges needs. -/
namespace GmQuic.RcvdJournal
open GmQuic.Wire

/-- bytes charged by the fold (and by the final push) when nothing is cut; `n` = ranges pushed so far -/
def cost (gap ack : Nat) (last : Bool) (n : Nat) : List Bool → Nat
  | [] => if last then rangeCountIncr n + varintSize (gap - 1) + varintSize (ack - 1) else 0
  | b :: bs =>
    match last, b with
    | true, false => rangeCountIncr n + varintSize (gap - 1) + varintSize (ack - 1) + cost 1 0 false (n + 1) bs
    | _, true => cost gap (ack + 1) true n bs
    | false, false => cost (gap + 1) ack false n bs

/-- at least `cost` ⇒ no `Break`, the last range passes its test, and exactly `cost` bytes are used -/
theorem foldRanges_tight (bs : List Bool) (gap ack : Nat) (last : Bool) (cap : Nat) (rs : List (Nat × Nat))
    (h : cost gap ack last rs.length bs ≤ cap) :
    let r := foldRanges gap ack last cap rs bs
    r.broke = false ∧
    (r.last = true → rangeCountIncr r.ranges.length + varintSize (r.gap - 1) + varintSize (r.ack - 1) ≤ r.cap ∧
      r.cap + cost gap ack last rs.length bs
        = cap + (rangeCountIncr r.ranges.length + varintSize (r.gap - 1) + varintSize (r.ack - 1))) ∧
    (r.last = false → r.cap + cost gap ack last rs.length bs = cap) := by
  induction bs generalizing gap ack last cap rs with
  | nil =>
    cases last
    · simp [foldRanges, cost]
    · simp only [cost, if_true] at h; simp [foldRanges, cost]; omega
  | cons b bs ih =>
    cases last <;> cases b <;> simp only [foldRanges, cost] at h ⊢
    · exact ih _ _ _ _ _ h
    · exact ih _ _ _ _ _ h
    · rw [if_neg (by omega)]
      have := ih 1 0 false (cap - (rangeCountIncr rs.length + varintSize (gap - 1) + varintSize (ack - 1)))
        (rs ++ [(gap - 1, ack - 1)]) (by simp only [List.length_append, List.length_cons, List.length_nil, Nat.zero_add]; omega)
      simp only [List.length_append, List.length_cons, List.length_nil, Nat.zero_add] at this
      obtain ⟨t1, t2, t3⟩ := this
      refine ⟨t1, fun hl => ?_, fun hl => ?_⟩
      · obtain ⟨a, b⟩ := t2 hl; exact ⟨a, by omega⟩
      · have := t3 hl; omega
    · exact ih _ _ _ _ _ h

theorem finalRanges_complete_tight (r : List Bool) (cap0 : Nat) (h : cost 1 0 false 0 r ≤ cap0) :
    (∃ t, false :: r = coverRanges (finalRanges (foldRanges 1 0 false cap0 [] r)) ++ t ∧ ∀ b ∈ t, b = false) ∧
    rangesSize (finalRanges (foldRanges 1 0 false cap0 [] r)) + varintSize (finalRanges (foldRanges 1 0 false cap0 [] r)).length
      = cost 1 0 false 0 r + 1 := by
  obtain ⟨rs2, tail, h1, h2, h3, h4⟩ := foldRanges_prefix r 1 0 false cap0 [] ⟨by omega, by simp, by simp⟩
  obtain ⟨hb, hc1, hc2⟩ := foldRanges_tight r 1 0 false cap0 [] h
  have acc := foldRanges_account r 1 0 false cap0 []
  simp only [rangesSize, List.map_nil, List.sum_nil, List.length_nil] at acc
  have v0 : varintSize 0 = 1 := by simp [varintSize]
  rw [v0] at acc
  simp only [List.nil_append, List.length_nil] at h1 hc1 hc2
  have hbs : false :: r = coverRanges rs2 ++ tail := by rw [← h2]; simp [pend]
  unfold finalRanges
  split
  · rename_i hlast
    obtain ⟨ht, hg, ha⟩ := h3 hlast
    obtain ⟨c1, c2⟩ := hc1 hlast
    have hsp : GmQuic.Gen.ackLastSpare = 0 := rfl   -- `capacity >= size` (fix-C10-ack-exact-fit)
    rw [if_pos (by omega)]
    constructor
    · rw [h1, coverRanges_append]
      have e2 : ∀ n, 1 ≤ n → n - 1 + 1 = n := by omega
      simp only [coverRanges, e2 _ hg, e2 _ ha, List.append_nil]
      exact ⟨[], by rw [hbs, ht]; simp [pend], by simp⟩
    · simp only [rangesSize_append, List.length_append, List.length_cons, List.length_nil, varintSize_succ]
      simp only [rangesSize, List.map_cons, List.map_nil, List.sum_cons, List.sum_nil] at acc ⊢
      omega
  · rename_i hlast
    have hl : (foldRanges 1 0 false cap0 [] r).last = false := by simpa using hlast
    constructor
    · rw [h1]; exact ⟨tail, hbs, h4 hb hl⟩
    · have := hc2 hl
      simp only [rangesSize] at acc ⊢; omega

/-- size of the complete frame for the scanned flags `bs` -/
def fullSize (largest delay : Nat) (bs : List Bool) : Nat :=
  1 + varintSize largest + varintSize delay + varintSize (leadTrue bs - 1) + 1
    + cost 1 0 false 0 (bs.drop (min (leadTrue bs + 1) bs.length))

/-- capacity at least the complete frame's size ⇒ the frame is complete and has exactly that size -/
theorem genFrame_complete_tight (largest delay cap : Nat) (bs : List Bool) (f : AckFrame) (v : Nat)
    (h : genFrame largest delay cap bs = (.ok f, v)) (h0 : 1 ≤ leadTrue bs) (hroom : fullSize largest delay bs ≤ cap) :
    (∃ t, bs = cover f.first f.ranges ++ t ∧ ∀ b ∈ t, b = false) ∧ f.size = fullSize largest delay bs := by
  obtain ⟨hs, hd, hl⟩ := leadTrue_split bs
  have hr : f.ranges = finalRanges (foldRanges 1 0 false
      (cap - (1 + varintSize largest + varintSize delay + varintSize (leadTrue bs - 1) + 1)) []
      (bs.drop (min (leadTrue bs + 1) bs.length))) ∧ f.first = leadTrue bs - 1 ∧ f.largest = largest ∧ f.delay = delay := by
    unfold genFrame at h
    simp only at h
    split at h
    · simp at h
    · simp only [Prod.mk.injEq, GenOut.ok.injEq] at h
      obtain ⟨h, -⟩ := h
      subst h
      exact ⟨rfl, rfl, rfl, rfl⟩
  unfold fullSize at hroom ⊢
  obtain ⟨⟨t, ht, hf⟩, hsz⟩ := finalRanges_complete_tight (bs.drop (min (leadTrue bs + 1) bs.length))
    (cap - (1 + varintSize largest + varintSize delay + varintSize (leadTrue bs - 1) + 1)) (by omega)
  constructor
  · rw [hr.1, hr.2.1]
    simp only [cover]
    have e1 : leadTrue bs - 1 + 1 = leadTrue bs := by omega
    rw [e1]
    rcases hd with hd | ⟨r, hd⟩
    · have hlen : bs.length = leadTrue bs := by
        have := congrArg List.length hs; simp [hd] at this; omega
      have hdrop : bs.drop (min (leadTrue bs + 1) bs.length) = [] := by
        apply List.drop_eq_nil_of_le; omega
      rw [hdrop]
      refine ⟨[], ?_, by simp⟩
      simp only [finalRanges, foldRanges]
      have e0 : coverRanges [] = [] := rfl
      simp only [Bool.false_eq_true, if_false, e0, List.append_nil]
      rw [hd] at hs; simpa using hs
    · have hlen : leadTrue bs + 1 ≤ bs.length := by
        have := congrArg List.length hs; simp [hd] at this; omega
      have hdrop : bs.drop (min (leadTrue bs + 1) bs.length) = r := by
        rw [Nat.min_eq_left hlen, ← List.drop_drop, hd]; rfl
      rw [hdrop] at ht ⊢
      refine ⟨t, ?_, hf⟩
      rw [List.append_assoc, ← ht, ← hd]; exact hs
  · simp only [AckFrame.size, hr.2.2.1, hr.2.2.2, hr.2.1]
    rw [hr.1]; omega

end GmQuic.RcvdJournal
