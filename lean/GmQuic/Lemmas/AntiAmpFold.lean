import GmQuic.Lemmas.AntiAmpMore
import GmQuic.Lemmas.AntiAmpConcSender
import GmQuic.Lemmas.AntiAmpWake
/-! Lifting of the one-step invariants of C15 to whole histories / schedules (induction over the op list). -/
namespace GmQuic.AntiAmp

instance (ops : List AaOp) : Decidable (NotGranted ops) := by
  unfold NotGranted; infer_instance

theorem pinv_fold (r : Rule) (ops : List AaOp) (s : PathSt) (hi : PInv s) (hng : NotGranted ops)
    (hok : ∀ op ∈ ops, OpOk r op) : PInv (ops.foldl (Path.stepR r) s) := by
  induction ops generalizing s with
  | nil => exact hi
  | cons op ops ih =>
    simp only [List.foldl_cons]
    apply ih
    · exact pinv_step r s op hi (hng op (by simp)) (hok op (by simp))
    · intro o ho; exact hng o (by simp [ho])
    · intro o ho; exact hok o (by simp [ho])


def NoGrantC (ops : List COp) : Prop := ∀ op ∈ ops, op ≠ COp.callGrant

instance (ops : List COp) : Decidable (NoGrantC ops) := by unfold NoGrantC; infer_instance

theorem conc_rcvd_mono (s : Conc) (op : COp) : s.rcvdTotal ≤ (s.step op).rcvdTotal := by
  cases op <;> simp only [Conc.step]
  · omega
  · exact Nat.le_refl _
  · exact Nat.le_refl _
  · exact Nat.le_refl _
  · cases hs : s.sender <;> simp only
    · exact Nat.le_refl _
    · split <;> exact Nat.le_refl _
    · split <;> exact Nat.le_refl _
    · split <;> exact Nat.le_refl _
    · split <;> exact Nat.le_refl _
    · exact Nat.le_refl _

theorem conc_fold_mono (ops : List COp) (s : Conc) : s.rcvdTotal ≤ (ops.foldl Conc.step s).rcvdTotal := by
  induction ops generalizing s with
  | nil => exact Nat.le_refl _
  | cons op ops ih => exact Nat.le_trans (conc_rcvd_mono s op) (ih _)

theorem cinv_step (s : Conc) (op : COp) (hi : CInv s) (hg : op ≠ .callGrant)
    (hb : 3 * (s.step op).rcvdTotal < U) : CInv (s.step op) := by
  cases op with
  | callGrant => exact absurd rfl hg
  | callRcvd n => exact cinv_call s _ hi (Or.inl ⟨n, rfl⟩)
  | callAbort => exact cinv_call s _ hi (Or.inr rfl)
  | stepPool i => exact cinv_pool s i hi (by simpa [Conc.step] using hb)
  | senderStep amt => exact cinv_sender s amt hi

theorem cinv_fold (ops : List COp) (s : Conc) (hi : CInv s) (hng : NoGrantC ops)
    (hb : 3 * (ops.foldl Conc.step s).rcvdTotal < U) : CInv (ops.foldl Conc.step s) := by
  induction ops generalizing s with
  | nil => exact hi
  | cons op ops ih =>
    simp only [List.foldl_cons] at hb ⊢
    have hm := conc_fold_mono ops (s.step op)
    exact ih _ (cinv_step s op hi (hng op (by simp)) (by omega)) (fun o ho => hng o (by simp [ho])) hb

theorem cinv_init : CInv ({} : Conc) :=
  ⟨rfl, by decide, by simp, by simp [Sender.ok], by decide, by decide, by decide⟩


theorem winv_fold (ops : List COp) (s : Conc) (hi : WInv s) : WInv (ops.foldl Conc.step s) := by
  induction ops generalizing s with
  | nil => exact hi
  | cons op ops ih => exact ih _ (winv_step s op hi)


end GmQuic.AntiAmp
