import GmQuic.Model.ParamsEnc
import GmQuic.Lemmas.Wire
/-! `parse ∘ putParams` — lemmas. -/
namespace GmQuic.Params
open GmQuic.Gen.Params GmQuic.Wire

theorem table_ids_lt : ∀ row ∈ table, row.id < 2 ^ 62 := by decide

theorem row?_some (id : Nat) (row : Row) (h : row? id = some row) : row.id = id ∧ row ∈ table := by
  unfold row? at h
  have h1 := List.find?_some h
  have h2 := List.mem_of_find?_eq_some h
  exact ⟨by simpa using h1, h2⟩

/-- what `accepts` unpacks to -/
theorem accepts_iff (r : Role) (id : Nat) (v : PVal) (h : accepts r id v = true) :
    ∃ row, row? id = some row ∧ row.id = id ∧ id < 2 ^ 62 ∧ belongTo row.id r = true ∧ v.ty = row.ty ∧
      validate row v = none := by
  unfold accepts at h
  split at h
  · simp at h
  · rename_i row hrow
    obtain ⟨hid, hmem⟩ := row?_some id row hrow
    simp only [Bool.and_eq_true, beq_iff_eq, Option.isNone_iff_eq_none] at h
    exact ⟨row, hrow, hid, hid ▸ table_ids_lt row hmem, h.1.1, h.1.2, h.2⟩

theorem decVarint_enc_nil (v : Nat) (h : v < 2 ^ 62) : decVarint (encVarint v) = some (v, []) := by
  have := decVarint_encVarint v [] h
  simpa using this

theorem varintSize_lt (v : Nat) : varintSize v < 2 ^ 62 := by
  have := varintSize_le v; omega

/-- the value bytes that `encParam` writes after the id, split as (declared length, value bytes) -/
def valBytes : PVal → Bytes
  | .varint n => encVarint n
  | .dur ms => encVarint ms
  | .tru => []
  | .bytes b => b
  | .cid c => c
  | .token t => t
  | .pref b => b

/-- after the id, `be_raw_parameter` reads a length equal to the value bytes and the value bytes follow -/
theorem encParam_shape (id : Nat) (v : PVal) (rest : Bytes) (hv : wfVal v = true) :
    ∃ lenb, encParam id v ++ rest = encVarint id ++ (lenb ++ (valBytes v ++ rest)) ∧
      ∀ tail, decVarint (lenb ++ tail) = some ((valBytes v).length, tail) := by
  cases v with
  | varint n =>
    refine ⟨encVarint (varintSize n), by simp [encParam, valBytes], fun tail => ?_⟩
    rw [decVarint_encVarint _ _ (varintSize_lt n)]; simp [valBytes, encVarint_length]
  | dur n =>
    refine ⟨encVarint (varintSize n), by simp [encParam, valBytes], fun tail => ?_⟩
    rw [decVarint_encVarint _ _ (varintSize_lt n)]; simp [valBytes, encVarint_length]
  | tru =>
    refine ⟨encVarint 0, by simp [encParam, valBytes], fun tail => ?_⟩
    rw [decVarint_encVarint _ _ (by decide)]; simp [valBytes]
  | bytes b =>
    simp only [wfVal, decide_eq_true_eq] at hv
    refine ⟨encVarint b.length, by simp [encParam, valBytes], fun tail => ?_⟩
    rw [decVarint_encVarint _ _ hv]; simp [valBytes]
  | cid c =>
    simp only [wfVal, decide_eq_true_eq] at hv
    refine ⟨[UInt8.ofNat c.length], by simp [encParam, valBytes], fun tail => ?_⟩
    have h1 : [UInt8.ofNat c.length] = encVarint c.length := by
      have : c.length < 2 ^ 6 := by omega
      have h256 : c.length % 256 = c.length := by omega
      simp [encVarint, beBytes, this, h256]
    rw [h1, decVarint_encVarint _ _ (by omega)]; simp [valBytes]
  | token t =>
    simp only [wfVal, decide_eq_true_eq] at hv
    refine ⟨encVarint 16, by simp [encParam, valBytes], fun tail => ?_⟩
    rw [decVarint_encVarint _ _ (by decide)]; simp [valBytes, hv]
  | pref b =>
    simp only [wfVal, Bool.and_eq_true, decide_eq_true_eq] at hv
    refine ⟨encVarint b.length, by simp [encParam, valBytes], fun tail => ?_⟩
    rw [decVarint_encVarint _ _ hv.1]; simp [valBytes]

/-- `be_parameter_value` + "consumes everything" gives the value back -/
theorem parseValue_valBytes (v : PVal) (hv : wfVal v = true) : parseValue v.ty (valBytes v) = some v := by
  cases v with
  | varint n =>
    simp only [wfVal, decide_eq_true_eq] at hv
    simp [parseValue, PVal.ty, valBytes, decVarint_enc_nil n hv]
  | dur n =>
    simp only [wfVal, decide_eq_true_eq] at hv
    simp [parseValue, PVal.ty, valBytes, decVarint_enc_nil n hv]
  | tru => simp [parseValue, PVal.ty, valBytes]
  | bytes b => simp [parseValue, PVal.ty, valBytes]
  | cid c =>
    simp only [wfVal, decide_eq_true_eq] at hv
    simp [parseValue, PVal.ty, valBytes, hv]
  | token t =>
    simp only [wfVal, decide_eq_true_eq] at hv
    simp [parseValue, PVal.ty, valBytes, hv]
  | pref b =>
    simp only [wfVal, Bool.and_eq_true, beq_iff_eq] at hv
    simpa [PVal.ty, valBytes] using hv.2

theorem insert_fresh (acc : PMap) (id : Nat) (v : PVal) (h : acc.any (fun x => x.1 == id) = false) :
    acc.insert id v = (id, v) :: acc := by
  unfold PMap.insert
  congr 1
  rw [List.filter_eq_self]
  intro a ha
  have := List.any_eq_false.mp h a ha
  simpa [bne_iff_ne] using this

/-- the loop, generalised over the accumulator -/
theorem parseLoop_put (r : Role) (m : PMap) :
    ∀ (fuel : Nat) (acc : PMap), m.length < fuel → distinctIds m = true →
      (∀ e ∈ m, accepts r e.1 e.2 = true ∧ wfVal e.2 = true) →
      (∀ e ∈ m, acc.any (fun x => x.1 == e.1) = false) →
      parseLoop r fuel (putParams m) acc = some (m.reverse ++ acc) := by
  induction m with
  | nil =>
    intro fuel acc hf _ _ _
    cases fuel with
    | zero => simp at hf
    | succ f => simp [parseLoop, putParams]
  | cons e tl ih =>
    intro fuel acc hf hd hacc hfresh
    obtain ⟨id, v⟩ := e
    cases fuel with
    | zero => simp at hf
    | succ f =>
      obtain ⟨ha, hv⟩ := hacc (id, v) (by simp)
      obtain ⟨row, hrow, hrid, hidlt, hbel, hty, hval⟩ := accepts_iff r id v ha
      obtain ⟨lenb, hshape, hlen⟩ := encParam_shape id v (putParams tl) hv
      have hput : putParams ((id, v) :: tl) = encParam id v ++ putParams tl := by simp [putParams]
      simp only [distinctIds, Bool.and_eq_true, Bool.not_eq_true'] at hd
      have hne : (encVarint id ++ (lenb ++ (valBytes v ++ putParams tl))).isEmpty = false := by
        have : 0 < (encVarint id).length := by rw [encVarint_length]; exact (varintSize_le id).1
        cases hh : encVarint id with
        | nil => simp [hh] at this
        | cons a b => simp
      rw [hput, hshape, parseLoop, hne]
      simp only [Bool.false_eq_true, ↓reduceIte]
      rw [decVarint_encVarint _ _ hidlt]
      simp only [hlen]
      rw [if_neg (by simp), hrow]
      rw [List.take_left' rfl, List.drop_left' rfl]
      have hpv : parseValue row.ty (valBytes v) = some v := hty ▸ parseValue_valBytes v hv
      have hbel' : belongTo id r = true := hrid ▸ hbel
      simp only [hpv, setRow, hval, hrid, hbel', Bool.not_true, Bool.false_eq_true, ↓reduceIte]
      rw [insert_fresh acc id v (hfresh (id, v) (by simp))]
      rw [ih f ((id, v) :: acc) (by simp at hf; omega) hd.2 (fun e he => hacc e (by simp [he]))]
      · simp
      · intro e he
        have h1 := hfresh e (by simp [he])
        have h2 : (e.1 == id) = false := by
          have := List.any_eq_false.mp hd.1 e he
          simpa using this
        have h3 : e.1 ≠ id := by simpa using h2
        have h4 : (id == e.1) = false := by simp; exact fun h => h3 h.symm
        simp [List.any_cons, h1, h4]

end GmQuic.Params
