import GmQuic.Model.Wake5
import GmQuic.Lemmas.Wake
/-! Invariants for the crypto-stream instances of C16. -/
namespace GmQuic.Wake

namespace CrW

def Inv (s : State) (l : List (Sleeper Op)) : Prop :=
  ∀ x ∈ l, x.t = 0 ∧ x.op = .poll x.t x.w none ∧ s.acked ≠ s.written ∧ s.fw = some x.w

theorem pres (s : State) (l : List (Sleeper Op)) (op : Op) (hok : SingleTask (proto true) op) (h : Inv s l) :
    Inv (step true s op).1 (nextSlp (proto true) l op (step true s op).2) := by
  intro x hx
  obtain ⟨hw, hx⟩ := mem_nextSlp (P := proto true) hx
  rcases hx with ⟨hxl, hp, hd⟩ | ⟨t, w, hp, hr, rfl⟩
  · obtain ⟨h0, h1, h2, h3⟩ := h x hxl
    refine ⟨h0, h1, ?_⟩
    cases op with
    | poll t w n =>
      have := hok t w rfl
      exact absurd (h0.trans this.symm) (hp t w rfl)
    | dropfut t => exact ⟨h2, h3⟩
    | load => simp only [step]; split <;> exact ⟨h2, h3⟩
    | ack =>
      simp only [step, proto] at hw ⊢
      split
      · exact ⟨h2, h3⟩
      · split
        · simp_all [takeWake]
        · rename_i hne
          simp only [Bool.true_and, beq_iff_eq] at hne
          exact ⟨fun e => hne e, h3⟩
  · cases op with
    | poll t' w' n =>
      simp only [proto, Option.some.injEq, Prod.mk.injEq] at hp
      obtain ⟨rfl, rfl⟩ := hp
      revert hr
      cases n with
      | some n => simp only [step]; split <;> (intro h; simp at h)
      | none =>
        simp only [step]
        split
        · intro h; simp at h
        · split
          · intro h; simp at h
          · rename_i hne
            intro _
            refine ⟨hok t' w' rfl, ?_⟩
            simp_all
    | _ => simp [proto] at hp

theorem safe (s : State) (l : List (Sleeper Op)) (x : Sleeper Op) (h : Inv s l) (hx : x ∈ l) :
    (step true s x.op).2.res = .pending := by
  obtain ⟨_, h1, h2, h3⟩ := h x hx
  rw [h1]; simp [step, compat, h2, h3]

def sound : Sound (proto true) (SingleTask (proto true)) where
  Inv := Inv
  init := by intro x hx; cases hx
  pres := pres
  safe := safe

end CrW

namespace CrR

def Inv (s : State) (l : List (Sleeper Op)) : Prop :=
  ∀ x ∈ l, x.t = 0 ∧ ∃ cap, x.op = .poll x.t x.w cap ∧ RecvBuf.isReadable s.buf = false ∧ s.waker = some x.w

theorem pres (s : State) (l : List (Sleeper Op)) (op : Op) (hok : SingleTask proto op) (h : Inv s l) :
    Inv (step s op).1 (nextSlp proto l op (step s op).2) := by
  intro x hx
  obtain ⟨hw, hx⟩ := mem_nextSlp (P := proto) hx
  rcases hx with ⟨hxl, hp, hd⟩ | ⟨t, w, hp, hr, rfl⟩
  · obtain ⟨h0, cap, h1, h2, h3⟩ := h x hxl
    refine ⟨h0, cap, h1, ?_⟩
    cases op with
    | poll t w c =>
      have := hok t w rfl
      exact absurd (h0.trans this.symm) (hp t w rfl)
    | dropfut t => exact ⟨h2, h3⟩
    | recv off len =>
      simp only [step, proto] at hw ⊢
      split
      · simp_all [takeWake]
      · rename_i hnr
        exact ⟨by simpa using hnr, h3⟩
  · cases op with
    | poll t' w' c =>
      simp only [proto, Option.some.injEq, Prod.mk.injEq] at hp
      obtain ⟨rfl, rfl⟩ := hp
      refine ⟨hok t' w' rfl, c, rfl, ?_⟩
      revert hr
      simp only [step]
      split
      · intro h; simp at h
      · split
        · intro h; simp at h
        · rename_i hnr
          intro _; exact ⟨by simpa using hnr, rfl⟩
    | _ => simp [proto] at hp

theorem safe (s : State) (l : List (Sleeper Op)) (x : Sleeper Op) (h : Inv s l) (hx : x ∈ l) :
    (step s x.op).2.res = .pending := by
  obtain ⟨_, cap, h1, h2, h3⟩ := h x hx
  rw [h1]; simp [step, CrW.compat, h2, h3]

def sound : Sound proto (SingleTask proto) where
  Inv := Inv
  init := by intro x hx; cases hx
  pres := pres
  safe := safe

end CrR
end GmQuic.Wake
