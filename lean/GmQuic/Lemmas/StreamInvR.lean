import GmQuic.Lemmas.StreamInv
/-!
C01 helper lemmas, part 3: `pick` and the receiver-side operations preserve `Inv`; `Inv` along every history.
-/
namespace GmQuic.Stream
open GmQuic.RecvBuf (Bytes covered)

/-! ### pick -/

theorem live_iff (s : Sender) :
    s.live = true ↔ s.err = false ∧ (s.st = .ready ∨ s.st = .sending ∨ s.st = .dataSent) := by
  unfold Sender.live
  cases s.err <;> cases s.st <;> simp

theorem inv_pick {s : Stream} (h : Inv s) (off len : Nat) : Inv (s.step (.pick off len)) := by
  simp only [Stream.step]
  by_cases hok : s.snd.pickOk off len
  case neg => rw [if_neg hok]; exact h
  rw [if_pos hok]
  obtain ⟨hlive, hrest⟩ := hok
  obtain ⟨he, hst⟩ := (live_iff _).mp hlive
  have ha2 := h.a2
  have hb9 := h.b9
  -- facts about the range
  have hr : off + len ≤ s.snd.written.length ∧ max s.snd.sentHi (off + len) ≤ s.snd.written.length ∧
      max s.snd.sentHi (off + len) ≤ s.snd.maxData ∧
      (len = 0 → off = s.snd.written.length ∧ s.snd.sentHi = s.snd.written.length ∧
        (s.snd.st ≠ .dataSent → s.snd.shutdown = true)) := by
    by_cases hl : len = 0
    · simp only [hl, if_true] at hrest
      obtain ⟨r1, r2, r3⟩ := hrest
      refine ⟨by omega, by omega, by omega, fun _ => ⟨r1, r2, fun hn => by simpa [hn] using r3⟩⟩
    · simp only [hl, if_false] at hrest
      obtain ⟨r1, r2, _, r4⟩ := hrest
      exact ⟨r1, by omega, by omega, fun h0 => absurd h0 hl⟩
  obtain ⟨hr1, hr2, hr3, hr4⟩ := hr
  have hnr : s.resets = [] := by
    cases hres : s.resets with
    | nil => rfl
    | cons v rest =>
      have := (h.a7 v (by simp [hres])).2
      rcases hst with h1 | h1 | h1 <;> simp [h1] at this
  have hlen : (slice s.snd.written off len).length = len := slice_length _ _ _ hr1
  -- the FIN flag
  have hfin : s.snd.pickFin off len = true → off + len = s.snd.written.length ∧
      (s.snd.st ≠ .dataSent → s.snd.shutdown = true) := by
    unfold Sender.pickFin
    by_cases hd : s.snd.st = .dataSent
    · simp [hd]
    · simp [hd]; intro a b; exact ⟨b, a⟩
  simp only [Sender.pick]
  refine { a1 := ?_, a2 := ⟨hr2, hr3⟩, a3 := ?_, a4 := ?_, a5 := ?_, a6 := ?_, a7 := ?_, a8 := h.a8, b1 := h.b1,
           b2 := h.b2, b3 := ?_, b4 := h.b4, b5 := ?_, b6 := ?_, b7 := h.b7, b8 := h.b8, b9 := h.b9 }
  · intro f hm
    simp only [List.mem_append, List.mem_singleton] at hm
    rcases hm with hm | hm
    · obtain ⟨x1, x2, x3⟩ := h.a1 f hm
      exact ⟨x1, x2, by simp only; omega⟩
    · subst hm
      simp only [Frame.stop, hlen]
      exact ⟨hr1, trivial, by omega⟩
  · intro f hm hf
    simp only [List.mem_append, List.mem_singleton] at hm
    rcases hm with hm | hm
    · exact h.a3 f hm hf
    · subst hm
      simp only [Frame.stop, hlen]
      exact (hfin hf).1
  · -- a4
    intro hf
    obtain ⟨f, hm, hff⟩ := hf
    simp only [List.mem_append, List.mem_singleton] at hm
    have hold : HasFin s.emitted → (s.snd.shutdown = true ∧ s.snd.st = .dataSent ∧ s.snd.sentHi = s.snd.written.length) := by
      intro hf0
      obtain ⟨x1, x2, x3, x4⟩ := h.a4 hf0
      refine ⟨x1, ?_, x4⟩
      rcases hst with h1 | h1 | h1 <;> simp_all
    rcases hm with hm | hm
    · obtain ⟨x1, x2, x4⟩ := hold ⟨f, hm, hff⟩
      refine ⟨x1, by simp [x2], by simp [x2], ?_⟩
      simp only; omega
    · subst hm
      simp only at hff
      obtain ⟨y1, y2⟩ := hfin hff
      by_cases hd : s.snd.st = .dataSent
      · obtain ⟨x1, x2, x4⟩ := hold (h.a6 (Or.inl hd))
        refine ⟨x1, by simp [hd], by simp [hd], ?_⟩
        simp only; omega
      · have hst' : (if s.snd.st = SSt.dataSent then SSt.dataSent
            else if s.snd.pickFin off len = true then SSt.dataSent else SSt.sending) = SSt.dataSent := by
          rw [if_neg hd, if_pos hff]
        refine ⟨y2 hd, by simp only [hst']; simp, by simp only [hst']; simp, ?_⟩
        simp only; omega
  · intro hr
    simp only at hr
    split at hr
    · simp at hr
    · split at hr <;> simp at hr
  · intro hd
    simp only at hd
    by_cases hds : s.snd.st = .dataSent
    · obtain ⟨f, hm, hff⟩ := h.a6 (Or.inl hds)
      exact ⟨f, by simp [hm], hff⟩
    · simp only [hds, if_false] at hd
      by_cases hp : s.snd.pickFin off len = true
      · exact ⟨⟨off, slice s.snd.written off len, s.snd.pickFin off len⟩, by simp, hp⟩
      · simp [hp] at hd
  · intro v hv; simp [hnr] at hv
  · intro hz
    obtain ⟨⟨f, hm, hff⟩, x2⟩ := h.b3 hz
    exact ⟨⟨f, by simp [hm], hff⟩, x2⟩
  · intro he'
    obtain ⟨x1, x2, ⟨f, hm, hff⟩⟩ := h.b5 he'
    exact ⟨x1, x2, ⟨f, by simp [hm], hff⟩⟩
  · have := h.b6; simp only; omega

/-! ### receiver-side operations -/

theorem inv_stop {s : Stream} (h : Inv s) : Inv (s.step .stop) := by
  simp only [Stream.step]
  unfold Recver.stop
  cases he : s.rcv.err <;> cases hst : s.rcv.st <;> simp only [Bool.false_eq_true, if_false, if_true] <;>
    (try split) <;> first
    | exact h
    | exact { h with b3 := fun hz => h.b3 (by simpa [Sized, hst] using hz), b4 := ⟨fun x => by simp [hst] at x, fun x => by simp [hst] at x⟩,
                     b7 := ⟨fun _ => by simp [hst], h.b7.2⟩ }

theorem inv_connErrRcv {s : Stream} (h : Inv s) : Inv (s.step .connErrorRcv) := by
  simp only [Stream.step]
  unfold Recver.connError
  split
  · exact h
  cases hst : s.rcv.st <;> simp only [] <;> first
    | exact h
    | exact { h with b3 := fun hz => h.b3 (by simpa [Sized, hst] using hz), b4 := ⟨fun x => by simp [hst] at x, fun x => by simp [hst] at x⟩,
                     b7 := ⟨fun _ => by simp [hst], h.b7.2⟩ }

theorem inv_deliverReset {s : Stream} (h : Inv s) (i : Nat) : Inv (s.step (.deliverReset i)) := by
  simp only [Stream.step]
  split
  case h_2 => exact h
  rename_i v hv
  obtain ⟨hv1, hv2⟩ := h.a7 v (getElem?_mem' hv)
  unfold Recver.rxReset
  by_cases hg : s.rcv.gone = true
  · simp only [hg, if_true]; exact { h with b8 := by simpa [noteErr] using h.b8 }
  simp only [hg, Bool.false_eq_true, if_false]
  have hg' : s.rcv.gone = false := by simpa using hg
  have hrs := h.b7.1 hg'
  by_cases he : s.rcv.err = true
  · simp only [he, if_true]
    exact { h with b3 := h.b3, b4 := h.b4, b7 := ⟨fun x => by simp at x, h.b7.2⟩, b8 := by simpa [noteErr] using h.b8 }
  simp only [he, Bool.false_eq_true, if_false]
  rcases hrs with hst | hst
  · simp only [hst]
    have : ¬ v < s.rcv.largest := by have := h.b6; omega
    -- a RESET_STREAM of THIS sender never exceeds the limit: final size = `sentHi ≤ maxData ≤ maxSD`
    have hlim : ¬ v > s.rcv.maxSD := by have := h.a2.2; have := h.b9.1; omega
    simp only [this, hlim, if_false]
    exact { h with b3 := fun hz => by simp [Sized] at hz, b4 := ⟨fun x => by simp at x, fun x => by simp at x⟩,
                   b7 := ⟨fun x => by simp at x, h.b7.2⟩, b8 := by simpa [noteErr] using h.b8 }
  · simp only [hst]
    obtain ⟨hf, hfs⟩ := h.b3 (Or.inl hst)
    have : ¬ v ≠ s.rcv.finalSize := by
      have := (h.a4 hf).2.2.2
      simp only [ne_eq, Decidable.not_not]; omega
    simp only [this, if_false]
    exact { h with b3 := fun hz => by simp [Sized] at hz, b4 := ⟨fun x => by simp at x, fun x => by simp at x⟩,
                   b7 := ⟨fun x => by simp at x, h.b7.2⟩, b8 := by simpa [noteErr] using h.b8 }

/-! ### deliver -/

theorem noteErr_ok (o : Option String) (n : Nat) : noteErr o (.ok n) = o := rfl

/-- replacing the receiver after a successful `recv_data` -/
theorem inv_rcv_step {s : Stream} (h : Inv s) (r' : Recver)
    (hb1 : RecvBuf.Inv s.snd.written r'.buf) (hnr : r'.buf.nread = s.rcv.buf.nread)
    (h3 : Sized r' → HasFin s.emitted ∧ r'.finalSize = s.snd.written.length)
    (h4 : (r'.st = .dataRcvd → ∀ y, y < r'.finalSize → Have r' y) ∧ (r'.st = .dataRead → r'.buf.nread = r'.finalSize))
    (h6 : r'.largest ≤ s.snd.sentHi)
    (h7 : (r'.gone = false → r'.st = .recv ∨ r'.st = .sizeKnown) ∧ r'.panicked = false)
    (h9 : r'.maxSD = s.rcv.maxSD) :
    Inv { s with rcv := r' } :=
  { h with b1 := hb1, b2 := by simpa [hnr] using h.b2, b3 := h3, b4 := h4,
           b5 := fun he => by simpa [hnr] using h.b5 he, b6 := h6, b7 := h7, b9 := by simpa [h9] using h.b9 }

theorem inv_deliver {s : Stream} (h : Inv s) (i : Nat) : Inv (s.step (.deliver i)) := by
  simp only [Stream.step]
  split
  case h_2 => exact h
  rename_i f hf
  have hm := getElem?_mem' hf
  obtain ⟨f1, f2, f3⟩ := h.a1 f hm
  have hslice : (RecvBuf.Op.recv f.off f.data).SliceOf s.snd.written := ⟨f1, f2⟩
  have hstop : ¬ f.stop > s.rcv.maxSD := by have := h.a2.2; have := h.b9.1; omega
  have hinv' := RecvBuf.recv_inv' h.b1 hslice
  have hnr := recv_nread s.rcv.buf f.off f.data
  have hll := h.b1.largest_le
  have hb6 := h.b6
  unfold Recver.rx
  by_cases hg : s.rcv.gone = true ∨ s.rcv.err = true
  · simp only [hg, if_true, noteErr_ok]; exact h
  simp only [hg, if_false]
  have hgone : s.rcv.gone = false := by
    cases hx : s.rcv.gone
    · rfl
    · exact absurd (Or.inl hx) hg
  cases hst : s.rcv.st <;> simp only [noteErr_ok]
  · -- Recv
    by_cases hfin : f.fin = true
    · have e1 : ¬ s.rcv.buf.largest > f.stop := by have := h.a3 f hm hfin; omega
      simp only [hfin, if_true, e1, hstop, if_false]
      have hfs := h.a3 f hm hfin
      split
      · rename_i hall
        simp only [noteErr_ok]
        refine inv_rcv_step h _ hinv' hnr ?_ ?_ ?_ ?_ ?_
        · intro _; exact ⟨⟨f, hm, hfin⟩, hfs⟩
        · refine ⟨fun _ => ?_, fun x => by simp at x⟩
          exact (allRcvd_iff (w := s.snd.written) (r := { s.rcv with buf := (RecvBuf.recv s.rcv.buf f.off f.data).1, finalSize := f.stop, st := .sizeKnown })
            hinv' (by have := hinv'.largest_le; simp only; omega)).mp hall
        · exact hb6
        · exact ⟨fun x => by simp at x, h.b7.2⟩
        · rfl
      · simp only [noteErr_ok]
        refine inv_rcv_step h _ hinv' hnr ?_ ?_ ?_ ?_ ?_
        · intro _; exact ⟨⟨f, hm, hfin⟩, hfs⟩
        · exact ⟨fun x => by simp at x, fun x => by simp at x⟩
        · exact hb6
        · exact ⟨fun _ => Or.inr rfl, h.b7.2⟩
        · rfl
    · simp only [hfin, Bool.false_eq_true, if_false, hstop, noteErr_ok]
      refine inv_rcv_step h _ hinv' hnr ?_ ?_ ?_ ?_ ?_
      · intro hz; simp [Sized, hst] at hz
      · exact ⟨fun x => by simp [hst] at x, fun x => by simp [hst] at x⟩
      · simp only; omega
      · exact ⟨fun _ => Or.inl rfl, h.b7.2⟩
      · rfl
  · -- SizeKnown
    obtain ⟨hf0, hfs⟩ := h.b3 (Or.inl hst)
    have e1 : ¬ f.stop > s.rcv.finalSize := by omega
    have e2 : ¬ (f.fin = true ∧ f.stop ≠ s.rcv.finalSize) := by
      intro ⟨x1, x2⟩; have := h.a3 f hm x1; omega
    simp only [e1, e2, if_false]
    split
    · rename_i hall
      simp only [noteErr_ok]
      refine inv_rcv_step h _ hinv' hnr ?_ ?_ ?_ ?_ ?_
      · intro _; exact ⟨hf0, hfs⟩
      · refine ⟨fun _ => ?_, fun x => by simp at x⟩
        exact (allRcvd_iff (w := s.snd.written) (r := { s.rcv with buf := (RecvBuf.recv s.rcv.buf f.off f.data).1 })
          hinv' (by have := hinv'.largest_le; simp only; omega)).mp hall
      · exact hb6
      · exact ⟨fun x => by simp at x, h.b7.2⟩
      · rfl
    · simp only [noteErr_ok]
      refine inv_rcv_step h _ hinv' hnr ?_ ?_ ?_ ?_ ?_
      · intro _; exact ⟨hf0, hfs⟩
      · exact ⟨fun x => by simp [hst] at x, fun x => by simp [hst] at x⟩
      · exact hb6
      · exact ⟨fun _ => Or.inr rfl, h.b7.2⟩
      · rfl
  all_goals exact h

end GmQuic.Stream
