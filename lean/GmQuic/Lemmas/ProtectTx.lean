import GmQuic.Lemmas.ProtectInj
/-! C06: what `protect` produces, seen through the receiver's `split` / `unmask`. -/
namespace GmQuic.Protect
open GmQuic.Wire GmQuic.Pn

/-- `encrypt_in_place` works in place: ciphertext ++ tag is `tag_len` longer than the plaintext -/
def SealLen {K : Type} (A : Aead K) : Prop := ∀ k n a p, (A.aseal k n a p).length = p.length + A.tagLen

/-- the receiver's view of a packet the sender produced -/
structure TxView {K H : Type} (A : Aead K) (P : Hp H) (k : K) (hk : H) (t : TxPkt) (pkt : Bytes) (off : Nat)
    (sp : Split) : Prop where
  hsplit : split pkt off = some sp
  h4 : sp.pn4.length = 4
  hty : typeOfFirst sp.first = some t.ptype
  hmask : 5 ≤ (P.mask hk (sp.tail.take 16)).length
  hfirst : (unmask (P.mask hk (sp.tail.take 16)) sp).first = encodeFirst t
  hlen : (unmask (P.mask hk (sp.tail.take 16)) sp).pnLen = size t.enc
  hpn : (unmask (P.mask hk (sp.tail.take 16)) sp).pn4.take (size t.enc) = put t.enc
  haad : (unmask (P.mask hk (sp.tail.take 16)) sp).aad sp = aadOf A.tagLen t
  hct : (unmask (P.mask hk (sp.tail.take 16)) sp).ct sp = A.aseal k t.pn (aadOf A.tagLen t) t.body

theorem protect_view {K H : Type} (A : Aead K) (P : Hp H) (k : K) (hk : H) (t : TxPkt) (pkt : Bytes) (off : Nat)
    (w : WfHdr t) (h : protect A P k hk t = .ok pkt off) :
    ∃ sp, TxView A P k hk t pkt off sp := by
  unfold protect at h
  simp only at h
  split at h
  · simp at h
  · split at h
    · simp at h
    · split at h
      · simp at h
      · rename_i hs
        split at h
        · simp at h
        · rename_i hm
          simp only [TxRes.ok.injEq] at h
          obtain ⟨hpkt, hoff⟩ := h
          have hL := put_length t.enc
          have hL4 : size t.enc ≤ 4 := by rcases size_cases t.enc with h | h | h | h <;> omega
          have hL1 : 1 ≤ size t.enc := by rcases size_cases t.enc with h | h | h | h <;> omega
          have hn := first_pnLen w
          generalize hct : A.aseal k t.pn (aadOf A.tagLen t) t.body = ct at *
          have hdrop : (put t.enc ++ ct).drop 4 = ct.drop (4 - size t.enc) := by
            rw [List.drop_append, hL, List.drop_eq_nil_of_le (by omega)]; rfl
          rw [hdrop] at hs hm hpkt
          have hctl : 16 + (4 - size t.enc) ≤ ct.length := by
            simp only [List.length_take, List.length_drop] at hs; omega
          generalize hmk : P.mask hk ((ct.drop (4 - size t.enc)).take 16) = m at *
          let sp : Split := ⟨encodeFirst t ^^^ (m.headD 0 &&& hpBits (encodeFirst t)),
            t.hdrRest ++ lenField A.tagLen t,
            xorPn (size t.enc) m.tail (put t.enc) ++ ct.take (4 - size t.enc),
            ct.drop (4 - size t.enc)⟩
          have hx : (xorPn (size t.enc) m.tail (put t.enc)).length = size t.enc := by rw [xorPn_length, hL]
          have h4 : sp.pn4.length = 4 := by
            simp only [sp, List.length_append, hx, List.length_take]; omega
          have htl : 16 ≤ sp.tail.length := by simp only [sp, List.length_drop]; omega
          have hjoin : sp.join = pkt := by
            rw [← hpkt, hn]
            simp only [sp, Split.join, List.append_assoc, List.take_append_drop, List.cons_append]
          have hspl : split pkt off = some sp := by
            rw [← hjoin, ← hoff]
            have : payloadOffset A.tagLen t = sp.mid.length + 1 := by
              simp only [payloadOffset, sp]; omega
            rw [this]; exact split_join sp h4 htl
          have hmk' : P.mask hk (sp.tail.take 16) = m := hmk
          have hu1 : (unmask m sp).first = encodeFirst t := by
            simp only [unmask, sp]; exact unmask_unmask _ _
          have hu2 : (unmask m sp).pnLen = size t.enc := by
            have : (unmask m sp).pnLen = ((unmask m sp).first &&& 3).toNat + 1 := rfl
            rw [this, hu1, hn]
          have hu3 : (unmask m sp).pn4 = put t.enc ++ ct.take (4 - size t.enc) := by
            have : (unmask m sp).pn4 = xorPn (unmask m sp).pnLen m.tail sp.pn4 := rfl
            rw [this, hu2]
            simp only [sp]
            rw [xorPn_append _ _ _ _ hx, xorPn_invol]
          refine ⟨sp, ⟨hspl, h4, ?_, ?_, ?_, ?_, ?_, ?_, ?_⟩⟩
          · simp only [sp]; rw [typeOfFirst_unmask]; exact first_type w
          · rw [hmk']; omega
          · rw [hmk']; exact hu1
          · rw [hmk']; exact hu2
          · rw [hmk', hu3, List.take_left' hL]
          · rw [hmk']
            simp only [Unmasked.aad, hu1, hu2, hu3, aadOf, List.take_left' hL, sp, List.cons_append]
          · rw [hmk']
            simp only [Unmasked.ct, hu2, hu3, List.drop_left' hL, sp, List.take_append_drop]
            exact hct.symm

end GmQuic.Protect
