import GmQuic.Lemmas.SentFrames
/-! History-level lemmas for the sent journal with frame contents (C10). -/
namespace GmQuic.SentFrames
open GmQuic.SentJournal GmQuic.RcvdJournal

theorem touchAll_acked (pns : List Nat) (s : State) (h : SInv s) :
    ∃ s' fs, touchAll Rec.beAcked s pns = some (s', fs) ∧ SInv s' ∧ s'.offset = s.offset ∧ s'.log = s.log ∧
      s'.now = s.now ∧ s'.la = s.la ∧ s'.recs.length = s.recs.length ∧
      (∀ q, Settled s q → Settled s' q) ∧ (∀ q ∈ pns, q < s.largest → Settled s' q) ∧
      (∀ q, q ∉ pns → live s' q = live s q) ∧
      (pns.Nodup → fs = (pns.map (live s)).flatten) := by
  induction pns generalizing s with
  | nil => exact ⟨s, [], rfl, h, rfl, rfl, rfl, rfl, rfl, fun _ h => h, by simp, fun _ _ => rfl, fun _ => rfl⟩
  | cons pn pns ih =>
    obtain ⟨s1, h1, i1, o1, l1, a1, n1, len1, set1, keep1, oth1⟩ := acked_spec s h pn
    obtain ⟨s2, fs2, h2, i2, o2, l2, n2, a2, len2, keep2, set2, oth2, fr2⟩ := ih s1 i1
    have hl : s1.largest = s.largest := by simp [State.largest, o1, len1]
    refine ⟨s2, live s pn ++ fs2, ?_, i2, by rw [o2, o1], by rw [l2, l1], by rw [n2, n1], by rw [a2, a1], by rw [len2, len1],
      fun q hq => keep2 q (keep1 q hq), ?_, ?_, ?_⟩
    · simp only [touchAll, h1, h2]
    · intro q hq hlt
      rcases List.mem_cons.1 hq with rfl | hq
      · exact keep2 _ (set1 hlt)
      · exact set2 q hq (by rw [hl]; exact hlt)
    · intro q hq
      simp only [List.mem_cons, not_or] at hq
      rw [oth2 q hq.2, oth1 q hq.1]
    · intro hnd
      rw [List.nodup_cons] at hnd
      rw [fr2 hnd.2]
      simp only [List.map_cons, List.flatten_cons]
      congr 2
      apply List.map_congr_left
      intro q hq
      exact oth1 q (fun e => hnd.1 (e ▸ hq))

theorem touchAll_lost (pns : List Nat) (s : State) (h : SInv s) :
    ∃ s', touchAll Rec.maybeLost s pns = some (s', (pns.map (live s)).flatten) ∧ SInv s' ∧ s'.offset = s.offset ∧
      s'.log = s.log ∧ s'.now = s.now ∧ s'.la = s.la ∧ s'.recs.length = s.recs.length ∧
      (∀ q, Settled s q → Settled s' q) ∧ (∀ q, live s' q = live s q) := by
  induction pns generalizing s with
  | nil => exact ⟨s, rfl, h, rfl, rfl, rfl, rfl, rfl, fun _ h => h, fun _ => rfl⟩
  | cons pn pns ih =>
    obtain ⟨s1, h1, i1, o1, l1, a1, n1, len1, keep1, same1⟩ := lost_spec s h pn
    obtain ⟨s2, h2, i2, o2, l2, n2, a2, len2, keep2, same2⟩ := ih s1 i1
    refine ⟨s2, ?_, i2, by rw [o2, o1], by rw [l2, l1], by rw [n2, n1], by rw [a2, a1], by rw [len2, len1],
      fun q hq => keep2 q (keep1 q hq), fun q => by rw [same2, same1]⟩
    have e : List.map (live s1) pns = List.map (live s) pns := List.map_congr_left (fun q _ => same1 q)
    simp only [touchAll, h1, h2, List.map_cons, List.flatten_cons, e]

/-- operations covered by the theorems (everything except a guard abandoned after `record_frame` and `fast_retransmit`) -/
def Op.plain : Op → Bool
  | .leak _ => false
  | .fastretx => false
  | _ => true

theorem settled_append (s s' : State) (q : Nat) (r : Rec) (ho : s'.offset = s.offset) (hrs : s'.recs = s.recs ++ [r])
    (h : Settled s q) : Settled s' q := by
  unfold Settled at *
  rw [ho, hrs]
  rcases h with h | ⟨r0, hr, hk⟩
  · exact Or.inl h
  · right
    refine ⟨r0, ?_, hk⟩
    have : q - s.offset < s.recs.length := by
      rcases Nat.lt_or_ge (q - s.offset) s.recs.length with hl | hl
      · exact hl
      · rw [List.getElem?_eq_none hl] at hr; cases hr
    rw [List.getElem?_append_left this]; exact hr

theorem sinv_la (s : State) (h : SInv s) (x : Nat) : SInv { s with la := x } := ⟨h.frames, h.queue⟩

/-- every covered operation keeps the invariant, never un-settles a packet, never panics except for the two
documented reasons, and never lowers `largest` -/
theorem step_plain (s : State) (h : SInv s) (op : Op) (hp : op.plain = true) :
    SInv (step s op).1 ∧ (∀ q, Settled s q → Settled (step s op).1 q) ∧ s.largest ≤ (step s op).1.largest ∧
    ((step s op).2 = .panic → (s.largest > GmQuic.Gen.varintMax ∨ ∃ f, op = .ack f ∧ f.iter = none)) := by
  cases op with
  | leak fs => simp [Op.plain] at hp
  | fastretx => simp [Op.plain] at hp
  | tick ms => exact ⟨⟨h.frames, h.queue⟩, fun q hq => hq, Nat.le_refl _, by simp [step, stepWith]⟩
  | pkt frames trivial rt et =>
    simp only [step, stepWith]
    split
    · split
      · rename_i hov
        exact ⟨h, fun q hq => hq, Nat.le_refl _, fun _ => Or.inl hov⟩
      · refine ⟨⟨?_, ?_⟩, fun q hq => settled_append s _ q _ rfl rfl hq, by simp [State.largest], by simp⟩
        · simp [lens, h.frames, Rec.nframes]
        · simp [h.queue]
    · split
      · split
        · rename_i hov
          exact ⟨h, fun q hq => hq, Nat.le_refl _, fun _ => Or.inl hov⟩
        · refine ⟨⟨?_, ?_⟩, fun q hq => settled_append s _ q _ rfl rfl hq, by simp [State.largest], by simp⟩
          · simp [lens, h.frames, Rec.nframes]
          · simp [h.queue]
      · exact ⟨h, fun q hq => hq, Nat.le_refl _, by simp⟩
  | rotate =>
    obtain ⟨s', hr, hi, -, hl, -, -, hs⟩ := resize_spec s h
    simp only [step, stepWith, withResize, hr]
    exact ⟨hi, hs, by omega, by simp⟩
  | acked pns =>
    obtain ⟨s1, fs, h1, i1, o1, l1, n1, a1, len1, keep1, -, -, -⟩ := touchAll_acked pns s h
    obtain ⟨s', hr, hi, -, hl, -, -, hs⟩ := resize_spec s1 i1
    simp only [step, stepWith, withResize, h1, Option.map_some, hr]
    have : s1.largest = s.largest := by simp [State.largest, o1, len1]
    exact ⟨hi, fun q hq => hs q (keep1 q hq), by omega, by simp⟩
  | lost pns =>
    obtain ⟨s1, h1, i1, o1, l1, n1, a1, len1, keep1, -⟩ := touchAll_lost pns s h
    obtain ⟨s', hr, hi, -, hl, -, -, hs⟩ := resize_spec s1 i1
    simp only [step, stepWith, withResize, h1, Option.map_some, hr]
    have : s1.largest = s.largest := by simp [State.largest, o1, len1]
    exact ⟨hi, fun q hq => hs q (keep1 q hq), by omega, by simp⟩
  | ack f =>
    simp only [step, stepWith]
    split
    · cases hit : f.iter with
      | none => exact ⟨h, fun q hq => hq, Nat.le_refl _, fun _ => Or.inr ⟨f, rfl, hit⟩⟩
      | some rs =>
        simp only
        obtain ⟨s1, fs, h1, i1, o1, l1, n1, a1, len1, keep1, -, -, -⟩ :=
          touchAll_acked (pnsDesc rs) { s with la := max s.la f.largest } (sinv_la s h _)
        obtain ⟨s', hr, hi, -, hl, -, -, hs⟩ := resize_spec s1 i1
        simp only [withResize, h1, Option.map_some, hr]
        have : s1.largest = s.largest := by simp [State.largest, o1, len1]
        exact ⟨hi, fun q hq => hs q (keep1 q (by simpa [Settled] using hq)), by omega, by simp⟩
    · obtain ⟨s', hr, hi, -, hl, -, -, hs⟩ := resize_spec s h
      simp only [withResize, hr]
      exact ⟨hi, hs, by omega, by simp⟩

def runFrom (s : State) (ops : List Op) : State := ops.foldl (fun s op => (step s op).1) s

theorem runFrom_plain (ops : List Op) (s : State) (h : SInv s) (hp : ∀ op ∈ ops, op.plain = true) :
    SInv (runFrom s ops) ∧ (∀ q, Settled s q → Settled (runFrom s ops) q) ∧ s.largest ≤ (runFrom s ops).largest := by
  induction ops generalizing s with
  | nil => exact ⟨h, fun _ hq => hq, Nat.le_refl _⟩
  | cons op ops ih =>
    obtain ⟨h1, h2, h3, -⟩ := step_plain s h op (hp op List.mem_cons_self)
    obtain ⟨i1, i2, i3⟩ := ih (step s op).1 h1 (fun o ho => hp o (List.mem_cons_of_mem _ ho))
    exact ⟨i1, fun q hq => i2 q (h2 q hq), by simp only [runFrom, List.foldl_cons] at i3 ⊢; omega⟩

theorem init_sinv : SInv init := ⟨by simp [init, lens], by simp [init]⟩

theorem settled_live (s : State) (pn : Nat) (h : Settled s pn) : live s pn = [] := by
  unfold live
  rcases h with h | ⟨r, hr, hk⟩
  · rw [if_neg (by omega)]
  · split
    · rw [hr]; rcases hk with hk | ⟨n, hk⟩ <;> subst hk <;> rfl
    · rfl

end GmQuic.SentFrames
