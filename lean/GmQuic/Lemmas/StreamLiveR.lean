import GmQuic.Lemmas.StreamRun
/-!
C01 liveness, part 3 (receiver side): two more invariant clauses (`InvR`), monotonicity of "offset `y` has reached the
receiver", what a delivery contributes, and the final reads.
-/
namespace GmQuic.Stream
open GmQuic.RecvBuf (Bytes covered)

/-- More invariant clauses of the receiving half: `SizeKnown` means something is still missing, and an entry removed
from the input table without an error is past `Recv` / `SizeKnown`. -/
structure InvR (s : Stream) : Prop where
  n3 : s.rcv.st = .sizeKnown → s.rcv.allRcvd = false
  n4 : s.rcv.gone = true → s.rcv.err = false → s.rcv.st ≠ .recv ∧ s.rcv.st ≠ .sizeKnown

theorem invR_init (sw rw : Nat) : InvR (Stream.init sw rw) :=
  ⟨fun h => by simp [Stream.init] at h, fun h => by simp [Stream.init] at h⟩

/-- no reset was received and no connection error hit the receiving half -/
def RcvOk (r : Recver) : Prop := r.err = false ∧ r.st ≠ .resetRcvd ∧ r.st ≠ .resetRead

/-! ### `rx` -/

theorem rx_invR (r : Recver) (f : Frame)
    (h3 : r.st = .sizeKnown → r.allRcvd = false)
    (h4 : r.gone = true → r.err = false → r.st ≠ .recv ∧ r.st ≠ .sizeKnown) :
    ((r.rx f).1.st = .sizeKnown → (r.rx f).1.allRcvd = false) ∧
    ((r.rx f).1.gone = true → (r.rx f).1.err = false → (r.rx f).1.st ≠ .recv ∧ (r.rx f).1.st ≠ .sizeKnown) := by
  unfold Recver.rx
  split
  · exact ⟨h3, h4⟩
  rename_i hg
  have hgone : r.gone = false := by cases hx : r.gone <;> simp_all
  cases hst : r.st <;> simp only
  · split
    · split
      · simp [hst, hgone]
      · split
        · simp [hst, hgone]
        · split
          · simp
          · rename_i hc; simp only [Recver.allRcvd] at hc ⊢; simp [hgone]; simpa using hc
    · split <;> simp [hst, hgone]
  · split
    · simp [hst, hgone]; exact h3 hst
    · split
      · simp [hst, hgone]; exact h3 hst
      · split
        · simp
        · rename_i hc; simp only [Recver.allRcvd] at hc ⊢; simp [hst, hgone]; simpa using hc
  all_goals exact ⟨fun x => (by rw [hst] at x; cases x), fun x => (by rw [hgone] at x; cases x)⟩

theorem rx_buf (r : Recver) (f : Frame) :
    (r.rx f).1.buf = r.buf ∨ (r.rx f).1.buf = (RecvBuf.recv r.buf f.off f.data).1 := by
  unfold Recver.rx
  dsimp only
  repeat' split
  all_goals simp_all

theorem have_rx (r : Recver) (f : Frame) (y : Nat) (h : Have r y) : Have (r.rx f).1 y := by
  unfold Have
  rcases rx_buf r f with e | e <;> rw [e]
  · exact h
  · exact (RecvBuf.recv_covered r.buf f.off f.data y).mpr (Or.inl h)

theorem sized_rx (r : Recver) (f : Frame) (h : Sized r) : Sized (r.rx f).1 := by
  unfold Recver.rx Sized at *
  rcases h with h | h | h <;> simp only [h] <;> (repeat' split) <;> simp_all

theorem rcvOk_rx (r : Recver) (f : Frame) (h : RcvOk r) : RcvOk (r.rx f).1 := by
  obtain ⟨he, h1, h2⟩ := h
  unfold Recver.rx RcvOk
  cases hst : r.st <;> simp only <;> (repeat' split) <;> simp_all

/-- a frame handed to a receiver still in `Recv` / `SizeKnown` is rejected or stored -/
theorem rx_ok_buf (r : Recver) (f : Frame) (hg : r.gone = false) (he : r.err = false)
    (hst : r.st = .recv ∨ r.st = .sizeKnown) :
    (∃ k, (r.rx f).2 = .error k) ∨
    ((r.rx f).1.buf = (RecvBuf.recv r.buf f.off f.data).1 ∧ (f.fin = true → Sized (r.rx f).1)) := by
  unfold Recver.rx Sized
  simp only [hg, he, Bool.false_eq_true, or_self, if_false]
  rcases hst with hst | hst <;> simp only [hst] <;> (repeat' split) <;> simp_all

/-! ### `read` -/

theorem sized_read (r : Recver) (cap : Nat) (h : Sized r) : Sized (r.read cap).1 := by
  unfold Recver.read Sized at *
  rcases h with h | h | h <;> simp only [h] <;> (repeat' split) <;> simp_all

theorem rcvOk_read (r : Recver) (cap : Nat) (h : RcvOk r) : RcvOk (r.read cap).1 := by
  obtain ⟨he, h1, h2⟩ := h
  unfold Recver.read RcvOk
  cases hst : r.st <;> simp only <;> (repeat' split) <;> simp_all

/-- `read` changes the buffer by `tryRead` or not at all; `finalSize`, `gone`, `err` stay; the state stays or
goes `DataRcvd → DataRead`, `ResetRcvd → ResetRead`. -/
theorem read_shape (r : Recver) (cap : Nat) :
    ((r.read cap).1.buf = r.buf ∨ (r.read cap).1.buf = (RecvBuf.tryRead r.buf cap).1) ∧
    (r.read cap).1.finalSize = r.finalSize ∧ (r.read cap).1.gone = r.gone ∧ (r.read cap).1.err = r.err ∧
    ((r.read cap).1.st = r.st ∨ (r.read cap).1.st = .dataRead ∨ (r.read cap).1.st = .resetRead ∨ (r.read cap).1.st = .dataRcvd ∧ r.st = .dataRcvd) := by
  unfold Recver.read
  cases hst : r.st <;> simp only <;> (repeat' split) <;> simp_all

theorem have_read' {s : Stream} (h : Inv s) (cap : Nat) (y : Nat) :
    Have (s.rcv.read cap).1 y ↔ Have s.rcv y := by
  have hsi := ((RecvBuf.inv_iff' _ _).mp h.b1).1
  rcases (read_shape s.rcv cap).1 with e | e
  · unfold Have; rw [e]
  · exact have_read hsi e y

end GmQuic.Stream
