import GmQuic.Lemmas.Recovery
/-! C13: on a sent list sorted by packet number the index-based packet threshold implies the RFC's
number-based one, and the entry found by `bsearch` is not above the largest acknowledged number. -/
namespace GmQuic.Recovery
open GmQuic.Gen

def Sorted (l : List Pkt) : Prop := l.Pairwise (fun a b => a.pn < b.pn)

theorem lossWalk_lost_pos (T ld L : Nat) (l : List Pkt) : ∀ (k : Nat) (lt : Option Nat),
    ∀ x ∈ (lossWalk T ld L l k lt).2.1, k ≤ x.1 ∧ ∃ p, l[x.1 - k]? = some p ∧ p.st = PSt.I ∧ x.2.pn = p.pn ∧
      (p.ts < T ∨ x.1 + packetThreshold ≤ L) := by
  induction l with
  | nil => intro k lt x hx; simp [lossWalk] at hx
  | cons p ps ih =>
    intro k lt x hx
    have tail : ∀ lt', x ∈ (lossWalk T ld L ps (k + 1) lt').2.1 →
        k ≤ x.1 ∧ ∃ q, (p :: ps)[x.1 - k]? = some q ∧ q.st = PSt.I ∧ x.2.pn = q.pn ∧
          (q.ts < T ∨ x.1 + packetThreshold ≤ L) := by
      intro lt' hx'
      obtain ⟨hk, q, hq, r⟩ := ih (k + 1) lt' x hx'
      refine ⟨by omega, q, ?_, r⟩
      have : x.1 - k = (x.1 - (k + 1)) + 1 := by omega
      rw [this, List.getElem?_cons_succ]; exact hq
    unfold lossWalk at hx
    split at hx
    · rename_i hI
      split at hx
      · rename_i hc
        generalize hw : (lossWalk T ld L ps (k + 1) lt) = w at *
        obtain ⟨ps', lost, lt'⟩ := w
        simp only [List.mem_cons] at hx
        rcases hx with hx | hx
        · subst hx
          refine ⟨Nat.le_refl _, p, by simp, by simpa using hI, rfl, ?_⟩
          simp only [Bool.or_eq_true, decide_eq_true_eq] at hc
          rcases hc with hc | hc
          · exact Or.inl hc
          · exact Or.inr hc
        · exact tail lt (by rw [hw]; exact hx)
      · simp only at hx
        exact tail _ hx
    · generalize hw : (lossWalk T ld L ps (k + 1) lt) = w at *
      obtain ⟨ps', lost, lt'⟩ := w
      exact tail lt (by rw [hw]; exact hx)

theorem sorted_gap (l : List Pkt) (hs : Sorted l) : ∀ (i j : Nat) (a b : Pkt), i ≤ j →
    l[i]? = some a → l[j]? = some b → a.pn + (j - i) ≤ b.pn := by
  induction l with
  | nil => intro i j a b _ ha; simp at ha
  | cons x xs ih =>
    intro i j a b hij ha hb
    unfold Sorted at hs
    rw [List.pairwise_cons] at hs
    obtain ⟨hx, hxs⟩ := hs
    cases i with
    | zero =>
      simp only [List.getElem?_cons_zero, Option.some.injEq] at ha
      subst ha
      cases j with
      | zero =>
        simp only [List.getElem?_cons_zero, Option.some.injEq] at hb
        subst hb; omega
      | succ j' =>
        rw [List.getElem?_cons_succ] at hb
        cases xs with
        | nil => simp at hb
        | cons y ys =>
          have h0 : (y :: ys)[0]? = some y := rfl
          have := ih hxs 0 j' y b (Nat.zero_le _) h0 hb
          have hxy := hx y List.mem_cons_self
          omega
    | succ i' =>
      cases j with
      | zero => omega
      | succ j' =>
        rw [List.getElem?_cons_succ] at ha hb
        have := ih hxs i' j' a b (by omega) ha hb
        omega

/-- on a sorted list, the entries below `x` are exactly the first `countP (· < x)` ones -/
theorem sorted_countP (l : List Pkt) (hs : Sorted l) (x : Nat) : ∀ (i : Nat) (b : Pkt), l[i]? = some b →
    i < l.countP (fun p => p.pn < x) → b.pn < x := by
  induction l with
  | nil => intro i b hb; simp at hb
  | cons y ys ih =>
    intro i b hb hi
    unfold Sorted at hs
    rw [List.pairwise_cons] at hs
    obtain ⟨hy, hys⟩ := hs
    by_cases hyx : y.pn < x
    · cases i with
      | zero => simp only [List.getElem?_cons_zero, Option.some.injEq] at hb; subst hb; exact hyx
      | succ i' =>
        rw [List.getElem?_cons_succ] at hb
        rw [List.countP_cons_of_pos (by simpa using hyx)] at hi
        exact ih hys i' b hb (by omega)
    · rw [List.countP_cons_of_neg (by simpa using hyx)] at hi
      have hz : ys.countP (fun p => p.pn < x) = 0 := by
        rw [List.countP_eq_zero]
        intro p hp
        have := hy p hp
        simp only [decide_eq_true_eq]
        omega
      omega

theorem bsearch_le (l : List Pkt) (hs : Sorted l) (x n : Nat) (hn : n + 1 ≤ bsearch l x) :
    ∃ b, l[bsearch l x]? = some b ∧ b.pn ≤ x := by
  unfold bsearch at hn ⊢
  split
  · rename_i i hi
    rw [List.findIdx?_eq_some_iff_getElem] at hi
    obtain ⟨hlt, hp, _⟩ := hi
    refine ⟨l[i], by simp [hlt], ?_⟩
    have : l[i].pn = x := by simpa using hp
    omega
  · rename_i hnone
    simp only [hnone] at hn
    have hc : l.countP (fun p => p.pn < x) - 1 < l.length := by
      have := List.countP_le_length (p := fun p : Pkt => decide (p.pn < x)) (l := l)
      omega
    have hget : l[l.countP (fun p => p.pn < x) - 1]? = some (l[l.countP (fun p => p.pn < x) - 1]'hc) :=
      List.getElem?_eq_getElem hc
    refine ⟨_, hget, ?_⟩
    have := sorted_countP l hs x _ _ hget (by omega)
    omega

/-- packet-threshold loss in terms of packet numbers, on a sorted sent list -/
theorem detectLost_pn {s s' : St} {e ld : Nat} {lost : List Nat} (h : detectLost s e ld = .ok (s', lost))
    (hs : Sorted (getSp s e).sent) : ∀ pn ∈ lost, ∃ p ∈ (getSp s e).sent, p.pn = pn ∧ p.st = PSt.I ∧
      (p.ts + ld + (getSp s e).mad < s.now ∨ ∃ la, (getSp s e).la = some la ∧ pn + 3 ≤ la) := by
  intro pn hpn
  unfold detectLost at h
  simp only at h
  have key : ∀ x ∈ (lossWalk (s.now - ld - (getSp s e).mad) ld (bsearch (getSp s e).sent ((getSp s e).la.getD 0))
      (getSp s e).sent 0 none).2.1, ∃ p ∈ (getSp s e).sent, p.pn = x.2.pn ∧ p.st = PSt.I ∧
      (p.ts + ld + (getSp s e).mad < s.now ∨ ∃ la, (getSp s e).la = some la ∧ x.2.pn + 3 ≤ la) := by
    intro x hx
    obtain ⟨_, p, hp, hI, hpn', hthr⟩ := lossWalk_lost_pos _ _ _ _ _ _ x hx
    simp only [Nat.sub_zero] at hp
    refine ⟨p, List.mem_of_getElem? hp, hpn'.symm, hI, ?_⟩
    rcases hthr with ht | ht
    · left; omega
    · right
      simp only [packetThreshold] at ht
      obtain ⟨b, hb, hble⟩ := bsearch_le _ hs ((getSp s e).la.getD 0) (x.1 + 2) (by omega)
      have hgap := sorted_gap _ hs x.1 _ p b (by omega) hp hb
      cases hla : (getSp s e).la with
      | none => rw [hla] at hble hgap ht; simp only [Option.getD_none] at hble; omega
      | some la =>
        rw [hla] at hble hgap ht
        simp only [Option.getD_some] at hble
        exact ⟨la, rfl, by omega⟩
  split at h
  · cases h; simp at hpn
  · split at h
    · cases h
    · cases h
      simp only [List.mem_map] at hpn
      obtain ⟨x, hx, rfl⟩ := hpn
      exact key x hx
