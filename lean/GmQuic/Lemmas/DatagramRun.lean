import GmQuic.Lemmas.DatagramLoad
/-! C19 helper lemmas, part 3: the receiving flow and whole histories (sender, network, receiver). -/
namespace GmQuic.Datagram
open GmQuic.Wire

/-- datagram payloads of a frame list -/
def framePayloads : List Frame → List Bytes
  | [] => []
  | .padding :: fs => framePayloads fs
  | .datagram _ d :: fs => d :: framePayloads fs

theorem framePayloads_append (a b : List Frame) : framePayloads (a ++ b) = framePayloads a ++ framePayloads b := by
  induction a with
  | nil => rfl
  | cons f fs ih => cases f <;> simp [framePayloads, ih]

theorem framePayloads_padding (n : Nat) : framePayloads (List.replicate n Frame.padding) = [] := by
  induction n with
  | zero => rfl
  | succ k ih => simp [List.replicate_succ, framePayloads, ih]

theorem framePayloads_pkt (p : Pkt) : framePayloads (p.flatMap Loaded.frames) = Pkt.payloads p := by
  induction p with
  | nil => rfl
  | cons l p ih =>
    simp [List.flatMap_cons, framePayloads_append, ih, Loaded.frames, framePayloads_padding, framePayloads,
      Pkt.payloads]

theorem sawPV_cons_ok (f : Frame) (w : Bool) (out : List (Frame × Option RecvRes)) :
    sawPV ((f, some (.ok w)) :: out) = sawPV out := by
  simp [sawPV]

theorem sawPV_cons_none (f : Frame) (out : List (Frame × Option RecvRes)) :
    sawPV ((f, none) :: out) = sawPV out := by
  simp [sawPV]

/-- dispatching frames to an OPEN receiving flow -/
theorem feed_open (fs : List Frame) : ∀ (r : Receiver), r.closed = none →
    (feed r fs).1.closed = none ∧
    (feed r fs).1.queue = r.queue ++ okPayloads (feed r fs).2 ∧
    okPayloads (feed r fs).2 <+: framePayloads fs ∧
    (sawPV (feed r fs).2 = false → okPayloads (feed r fs).2 = framePayloads fs) := by
  induction fs with
  | nil => intro r h; simp [feed, okPayloads, framePayloads, h]
  | cons f fs ih =>
    intro r h
    cases f with
    | padding =>
      have := ih r h
      simp only [feed, recvFrame, framePayloads, okPayloads, sawPV_cons_none]
      exact this
    | datagram wl d =>
      by_cases hbig : hdrSize wl d.length + d.length > r.localMax
      · have : recvDatagram r wl d.length d = (r, .protocolViolation) := by
          unfold recvDatagram; simp [h, hbig]
        simp [feed, recvFrame, this, okPayloads, framePayloads, sawPV, h]
      · have e : recvDatagram r wl d.length d =
            ({ r with queue := r.queue ++ [d], waker := false }, .ok r.waker) := by
          unfold recvDatagram; simp [h, hbig]
        have := ih { r with queue := r.queue ++ [d], waker := false } h
        obtain ⟨a1, a2, a3, a4⟩ := this
        simp only [feed, recvFrame, e, okPayloads, framePayloads, sawPV_cons_ok]
        refine ⟨a1, ?_, ?_, ?_⟩
        · rw [a2]; simp
        · exact (List.prefix_cons_inj d).mpr a3
        · intro hp; rw [a4 hp]

/-- dispatching frames to a CLOSED receiving flow: nothing is queued -/
theorem feed_closed (fs : List Frame) (r : Receiver) (e : ConnErr) (h : r.closed = some e) :
    (feed r fs).1 = r ∧ okPayloads (feed r fs).2 = [] ∧ sawPV (feed r fs).2 = false := by
  induction fs with
  | nil => simp [feed, okPayloads, sawPV]
  | cons f fs ih =>
    cases f with
    | padding => simp only [feed, recvFrame, okPayloads, sawPV_cons_none]; exact ih
    | datagram wl d =>
      have : recvDatagram r wl d.length d = (r, .closed e) := by unfold recvDatagram; simp [h]
      simp [feed, recvFrame, this, okPayloads, sawPV]

theorem perm_eraseIdx {α : Type} (l : List α) : ∀ (k : Nat) (p : α), l[k]? = some p → l.Perm (p :: l.eraseIdx k) := by
  induction l with
  | nil => intro k p h; simp at h
  | cons a l ih =>
    intro k p h
    cases k with
    | zero => simp at h; subst h; simp
    | succ k =>
      simp at h
      have := ih k p h
      simp only [List.eraseIdx_cons_succ]
      exact (List.Perm.cons a this).trans (List.Perm.swap p a _)

/-! ### the invariant of histories -/

structure Inv (r : Run) : Prop where
  q_small : ∀ d ∈ r.snd.queue, d.length < 2 ^ 62
  net_wf : ∀ p ∈ r.net, WFPkt p
  snd_fifo : r.snd.closed = none → r.wire.flatMap Pkt.payloads ++ r.snd.queue = r.accepted
  snd_prefix : r.wire.flatMap Pkt.payloads <+: r.accepted
  rcv_all : r.rcv.closed = none → r.readLog ++ r.rcv.queue = r.arrived
  rcv_prefix : r.readLog <+: r.arrived
  arr_all : r.rcv.closed = none → r.arrived = r.delivered.flatMap Pkt.payloads
  arr_prefix : r.arrived <+: r.delivered.flatMap Pkt.payloads
  net_perm : (r.delivered ++ (r.lost ++ r.net)).Perm r.wire

theorem Inv.config (pm lm : Nat) : Inv (Run.config pm lm) := by
  constructor <;> simp [Run.config]

/-- the datagrams an op hands to the writer are encodable (`len < 2^62`) -/
def Op.Small : Op → Prop
  | .send d => d.length < 2 ^ 62
  | _ => True

theorem Inv.step (r : Run) (op : Op) (hop : op.Small) (h : Inv r) : Inv (r.step op) := by
  obtain ⟨q_small, net_wf, snd_fifo, snd_prefix, rcv_all, rcv_prefix, arr_all, arr_prefix, net_perm⟩ := h
  cases op with
  | send d =>
    simp only [Run.step, Run.stepObs]
    cases hc : r.snd.closed with
    | some e =>
      have : send r.peerMax r.snd d = (r.snd, .closed e) := by unfold send; simp [hc]
      simp only [this]
      constructor <;> simp_all
    | none =>
      by_cases hbig : 1 + varintSize d.length + d.length > r.peerMax
      · have : send r.peerMax r.snd d = (r.snd, .refused) := by unfold send; simp [hc, hbig]
        simp only [this]
        constructor <;> simp_all
      · have : send r.peerMax r.snd d = ({ r.snd with queue := r.snd.queue ++ [d] }, .queued) := by
          unfold send; simp [hc, hbig]
        simp only [this]
        have f := snd_fifo hc
        constructor <;> simp only [if_true]
        · intro x hx
          simp only [List.mem_append, List.mem_singleton] at hx
          cases hx with
          | inl hx => exact q_small x hx
          | inr hx => subst hx; exact hop
        · exact net_wf
        · intro _; rw [← List.append_assoc, f]
        · rw [← f]; simp only [List.append_assoc]; exact List.prefix_append _ _
        · exact rcv_all
        · exact rcv_prefix
        · exact arr_all
        · exact arr_prefix
        · exact net_perm
  | load remaining calls =>
    have sp := loadN_spec calls remaining r.snd q_small
    obtain ⟨s1, _, s3, s4, s5⟩ := sp
    simp only [Run.step, Run.stepObs]
    by_cases hp : (loadN calls remaining r.snd).2.1.isEmpty = true
    · have hnil : (loadN calls remaining r.snd).2.1 = [] := List.isEmpty_iff.mp hp
      simp only [hp, if_true]
      constructor
      · intro d hd
        cases hc : r.snd.closed with
        | none =>
          have := s4 hc; rw [hnil] at this
          simp only [Pkt.payloads, List.map_nil, List.nil_append] at this
          exact q_small d (by rw [← this]; exact hd)
        | some e =>
          have := (s5 (by simp [hc])).2
          rw [this] at hd; exact q_small d hd
      · exact net_wf
      · intro hc'
        have hc : r.snd.closed = none := by rw [← s3]; exact hc'
        have := s4 hc; rw [hnil] at this
        simp only [Pkt.payloads, List.map_nil, List.nil_append] at this
        show List.flatMap Pkt.payloads r.wire ++ (loadN calls remaining r.snd).1.queue = r.accepted
        rw [this]; exact snd_fifo hc
      · exact snd_prefix
      · exact rcv_all
      · exact rcv_prefix
      · exact arr_all
      · exact arr_prefix
      · exact net_perm
    · simp only [hp, Bool.false_eq_true, if_false]
      have hc : r.snd.closed = none := by
        cases hc : r.snd.closed with
        | none => rfl
        | some e => exact absurd (List.isEmpty_iff.mpr (s5 (by simp [hc])).1) hp
      have f4 := s4 hc
      have f := snd_fifo hc
      have key : List.flatMap Pkt.payloads (r.wire ++ [(loadN calls remaining r.snd).2.1]) ++
          (loadN calls remaining r.snd).1.queue = r.accepted := by
        simp only [List.flatMap_append, List.flatMap_cons, List.flatMap_nil, List.append_nil, List.append_assoc]
        rw [f4]; exact f
      constructor
      · intro d hd
        exact q_small d (by rw [← f4]; exact List.mem_append_right _ hd)
      · intro p hp'
        simp only [List.mem_append, List.mem_singleton] at hp'
        cases hp' with
        | inl h' => exact net_wf p h'
        | inr h' => subst h'; exact s1
      · intro _; exact key
      · show List.flatMap Pkt.payloads (r.wire ++ [(loadN calls remaining r.snd).2.1]) <+: r.accepted
        rw [← key]; exact List.prefix_append _ _
      · exact rcv_all
      · exact rcv_prefix
      · exact arr_all
      · exact arr_prefix
      · show (r.delivered ++ (r.lost ++ (r.net ++ [(loadN calls remaining r.snd).2.1]))).Perm
            (r.wire ++ [(loadN calls remaining r.snd).2.1])
        have := List.Perm.append_right [(loadN calls remaining r.snd).2.1] net_perm
        simpa [List.append_assoc] using this
  | deliver k =>
    simp only [Run.step, Run.stepObs]
    cases hk : r.net[k]? with
    | none => exact ⟨q_small, net_wf, snd_fifo, snd_prefix, rcv_all, rcv_prefix, arr_all, arr_prefix, net_perm⟩
    | some p =>
      have hmem : p ∈ r.net := List.mem_of_getElem? hk
      have hwf := net_wf p hmem
      have hdec := decAll_encPkt p hwf
      simp only [hdec]
      have hperm := perm_eraseIdx r.net k p hk
      have permGoal : ((r.delivered ++ [p]) ++ (r.lost ++ r.net.eraseIdx k)).Perm r.wire := by
        have e1 : (r.delivered ++ [p]) ++ (r.lost ++ r.net.eraseIdx k) =
            r.delivered ++ (p :: (r.lost ++ r.net.eraseIdx k)) := by simp
        rw [e1]
        have e2 : (p :: (r.lost ++ r.net.eraseIdx k)).Perm (r.lost ++ r.net) :=
          (List.perm_middle.symm).trans (List.Perm.append_left r.lost hperm.symm)
        exact (List.Perm.append_left r.delivered e2).trans net_perm
      have wfGoal : ∀ q ∈ r.net.eraseIdx k, WFPkt q := fun q hq => net_wf q (List.mem_of_mem_eraseIdx hq)
      cases hc : r.rcv.closed with
      | some e =>
        obtain ⟨c1, c2, c3⟩ := feed_closed (p.flatMap Loaded.frames) r.rcv e hc
        simp only [c1, c2, c3, Bool.false_eq_true, if_false, List.append_nil]
        refine ⟨q_small, wfGoal, snd_fifo, snd_prefix, rcv_all, rcv_prefix, ?_, ?_, permGoal⟩
        · intro h'; rw [hc] at h'; exact absurd h' (by simp)
        · simp only [List.flatMap_append]
          exact arr_prefix.trans (List.prefix_append _ _)
      | none =>
        obtain ⟨o1, o2, o3, o4⟩ := feed_open (p.flatMap Loaded.frames) r.rcv hc
        rw [framePayloads_pkt] at o3 o4
        have ra := rcv_all hc
        have aa := arr_all hc
        by_cases hpv : sawPV (feed r.rcv (p.flatMap Loaded.frames)).2 = true
        · simp only [hpv, if_true]
          have hcl : ((feed r.rcv (p.flatMap Loaded.frames)).1.onConnError .protocolViolation).1.closed =
              some .protocolViolation := by
            simp [Receiver.onConnError, o1]
          refine ⟨q_small, wfGoal, snd_fifo, snd_prefix, ?_, ?_, ?_, ?_, permGoal⟩
          · intro h'; rw [hcl] at h'; exact absurd h' (by simp)
          · exact rcv_prefix.trans (List.prefix_append _ _)
          · intro h'; rw [hcl] at h'; exact absurd h' (by simp)
          · show r.arrived ++ _ <+: List.flatMap Pkt.payloads (r.delivered ++ [p])
            simp only [List.flatMap_append, List.flatMap_cons, List.flatMap_nil, List.append_nil]
            rw [aa]; exact (List.prefix_append_right_inj _).mpr o3
        · have hpv' : sawPV (feed r.rcv (p.flatMap Loaded.frames)).2 = false := by
            cases h' : sawPV (feed r.rcv (p.flatMap Loaded.frames)).2 <;> simp_all
          simp only [hpv', Bool.false_eq_true, if_false]
          have o4' := o4 hpv'
          refine ⟨q_small, wfGoal, snd_fifo, snd_prefix, ?_, ?_, ?_, ?_, permGoal⟩
          · intro _
            show r.readLog ++ (feed r.rcv (p.flatMap Loaded.frames)).1.queue = r.arrived ++ _
            rw [o2, ← List.append_assoc, ra]
          · exact rcv_prefix.trans (List.prefix_append _ _)
          · intro _
            show r.arrived ++ _ = List.flatMap Pkt.payloads (r.delivered ++ [p])
            simp only [List.flatMap_append, List.flatMap_cons, List.flatMap_nil, List.append_nil]
            rw [aa, o4']
          · show r.arrived ++ _ <+: List.flatMap Pkt.payloads (r.delivered ++ [p])
            simp only [List.flatMap_append, List.flatMap_cons, List.flatMap_nil, List.append_nil]
            rw [aa, o4']; exact List.prefix_refl _
  | drop k =>
    simp only [Run.step, Run.stepObs]
    cases hk : r.net[k]? with
    | none => exact ⟨q_small, net_wf, snd_fifo, snd_prefix, rcv_all, rcv_prefix, arr_all, arr_prefix, net_perm⟩
    | some p =>
      have hperm := perm_eraseIdx r.net k p hk
      refine ⟨q_small, fun q hq => net_wf q (List.mem_of_mem_eraseIdx hq), snd_fifo, snd_prefix, rcv_all,
        rcv_prefix, arr_all, arr_prefix, ?_⟩
      show (r.delivered ++ ((r.lost ++ [p]) ++ r.net.eraseIdx k)).Perm r.wire
      have e1 : (r.lost ++ [p]) ++ r.net.eraseIdx k = r.lost ++ (p :: r.net.eraseIdx k) := by simp
      rw [e1]
      exact (List.Perm.append_left r.delivered (List.Perm.append_left r.lost hperm.symm)).trans net_perm
  | read =>
    simp only [Run.step, Run.stepObs]
    cases hc : r.rcv.closed with
    | some e =>
      have : read r.rcv = (r.rcv, .closed e) := by unfold read; simp [hc]
      simp only [this]
      exact ⟨q_small, net_wf, snd_fifo, snd_prefix, rcv_all, rcv_prefix, arr_all, arr_prefix, net_perm⟩
    | none =>
      have ra := rcv_all hc
      cases hq : r.rcv.queue with
      | nil =>
        have : read r.rcv = ({ r.rcv with waker := true }, .pending) := by unfold read; simp [hc, hq]
        simp only [this]
        refine ⟨q_small, net_wf, snd_fifo, snd_prefix, ?_, rcv_prefix, ?_, arr_prefix, net_perm⟩
        · intro _; exact ra
        · intro _; exact arr_all hc
      | cons d rest =>
        have : read r.rcv = ({ r.rcv with queue := rest }, .dgram d) := by unfold read; simp [hc, hq]
        simp only [this]
        rw [hq] at ra
        refine ⟨q_small, net_wf, snd_fifo, snd_prefix, ?_, ?_, ?_, arr_prefix, net_perm⟩
        · intro _
          show (r.readLog ++ [d]) ++ rest = r.arrived
          rw [← ra]; simp
        · show (r.readLog ++ [d]) <+: r.arrived
          rw [← ra]
          have : r.readLog ++ d :: rest = (r.readLog ++ [d]) ++ rest := by simp
          rw [this]; exact List.prefix_append _ _
        · intro _; exact arr_all hc
  | errSnd e =>
    simp only [Run.step, Run.stepObs]
    cases hc : r.snd.closed with
    | some e' =>
      have : r.snd.onConnError e = r.snd := by simp [Sender.onConnError, hc]
      rw [this]
      exact ⟨q_small, net_wf, snd_fifo, snd_prefix, rcv_all, rcv_prefix, arr_all, arr_prefix, net_perm⟩
    | none =>
      have : r.snd.onConnError e = { queue := [], closed := some e } := by simp [Sender.onConnError, hc]
      rw [this]
      refine ⟨by simp, net_wf, ?_, snd_prefix, rcv_all, rcv_prefix, arr_all, arr_prefix, net_perm⟩
      intro h'; simp at h'
  | errRcv e =>
    simp only [Run.step, Run.stepObs]
    cases hc : r.rcv.closed with
    | some e' =>
      have : r.rcv.onConnError e = (r.rcv, false) := by simp [Receiver.onConnError, hc]
      rw [this]
      exact ⟨q_small, net_wf, snd_fifo, snd_prefix, rcv_all, rcv_prefix, arr_all, arr_prefix, net_perm⟩
    | none =>
      have : (r.rcv.onConnError e).1.closed = some e := by simp [Receiver.onConnError, hc]
      refine ⟨q_small, net_wf, snd_fifo, snd_prefix, ?_, rcv_prefix, ?_, arr_prefix, net_perm⟩
      · intro h'; rw [this] at h'; simp at h'
      · intro h'; rw [this] at h'; simp at h'

def SmallOps (ops : List Op) : Prop := ∀ op ∈ ops, op.Small

theorem Inv.foldl (ops : List Op) : ∀ (r : Run), SmallOps ops → Inv r → Inv (ops.foldl Run.step r) := by
  induction ops with
  | nil => intro r _ h; exact h
  | cons op ops ih =>
    intro r hs h
    exact ih (r.step op) (fun o ho => hs o (List.mem_cons_of_mem _ ho)) (Inv.step r op (hs op (List.mem_cons_self ..)) h)

theorem Inv.run (pm lm : Nat) (ops : List Op) (hs : SmallOps ops) : Inv (run pm lm ops) :=
  Inv.foldl ops _ hs (Inv.config pm lm)

/-! ### in-order network: only the oldest in-flight packet is ever delivered (losses anywhere) -/

def Op.InOrder : Op → Prop
  | .deliver k => k = 0
  | _ => True

def InOrderOps (ops : List Op) : Prop := ∀ op ∈ ops, op.InOrder

theorem inOrder_step (r : Run) (op : Op) (ho : op.InOrder) (h : (r.delivered ++ r.net).Sublist r.wire) :
    ((r.step op).delivered ++ (r.step op).net).Sublist (r.step op).wire := by
  cases op with
  | send d => simpa [Run.step, Run.stepObs] using h
  | load remaining calls =>
    simp only [Run.step, Run.stepObs]
    split
    · exact h
    · show (r.delivered ++ (r.net ++ [_])).Sublist (r.wire ++ [_])
      rw [← List.append_assoc]
      exact List.Sublist.append h (List.Sublist.refl _)
  | deliver k =>
    have hk : k = 0 := ho
    subst hk
    simp only [Run.step, Run.stepObs]
    cases hn : r.net with
    | nil => simpa [hn] using h
    | cons p tl =>
      simp only [List.getElem?_cons_zero, List.eraseIdx_cons_zero]
      rw [hn] at h
      simpa using h
  | drop k =>
    simp only [Run.step, Run.stepObs]
    cases hk : r.net[k]? with
    | none => exact h
    | some p =>
      show (r.delivered ++ r.net.eraseIdx k).Sublist r.wire
      exact (List.Sublist.append (List.Sublist.refl _) (List.eraseIdx_sublist _ _)).trans h
  | read =>
    simp only [Run.step, Run.stepObs]
    exact h
  | errSnd e => simpa [Run.step, Run.stepObs] using h
  | errRcv e => simpa [Run.step, Run.stepObs] using h

theorem inOrder_foldl (ops : List Op) : ∀ (r : Run), InOrderOps ops → (r.delivered ++ r.net).Sublist r.wire →
    ((ops.foldl Run.step r).delivered ++ (ops.foldl Run.step r).net).Sublist (ops.foldl Run.step r).wire := by
  induction ops with
  | nil => intro r _ h; exact h
  | cons op ops ih =>
    intro r hs h
    exact ih (r.step op) (fun o ho => hs o (List.mem_cons_of_mem _ ho)) (inOrder_step r op (hs op (List.mem_cons_self ..)) h)

theorem sublist_flatMap {α β : Type} (f : α → List β) {a b : List α} (h : a.Sublist b) :
    (a.flatMap f).Sublist (b.flatMap f) := by
  induction h with
  | slnil => simp
  | cons x _ ih => simp only [List.flatMap_cons]; exact ih.trans (List.sublist_append_right _ _)
  | cons_cons x _ ih => simp only [List.flatMap_cons]; exact List.Sublist.append (List.Sublist.refl _) ih

/-! ### admission: what was accepted passed the size test of `send_bytes` (ghost `accepted`) -/

theorem send_queued_admitted (peerMax : Nat) (s : Sender) (d : Bytes) (h : (send peerMax s d).2 = .queued) :
    hdrSize true d.length + d.length ≤ peerMax := by
  unfold send at h
  cases hc : s.closed with
  | some e => simp [hc] at h
  | none =>
    simp only [hc] at h
    by_cases hb : 1 + varintSize d.length + d.length > peerMax
    · simp [hb] at h
    · simp only [hdrSize, if_true]; omega

theorem step_peerMax (r : Run) (op : Op) : (r.step op).peerMax = r.peerMax := by
  cases op with
  | send d => simp [Run.step, Run.stepObs]
  | load remaining calls => simp only [Run.step, Run.stepObs]; split <;> rfl
  | deliver k => simp only [Run.step, Run.stepObs]; split <;> rfl
  | drop k => simp only [Run.step, Run.stepObs]; split <;> rfl
  | read => simp [Run.step, Run.stepObs]
  | errSnd e => simp [Run.step, Run.stepObs]
  | errRcv e => simp [Run.step, Run.stepObs]

theorem step_accepted_admitted (r : Run) (op : Op)
    (h : ∀ d ∈ r.accepted, hdrSize true d.length + d.length ≤ r.peerMax) :
    ∀ d ∈ (r.step op).accepted, hdrSize true d.length + d.length ≤ r.peerMax := by
  cases op with
  | send d =>
    simp only [Run.step, Run.stepObs]
    by_cases hq : (send r.peerMax r.snd d).2 = .queued
    · simp only [hq, if_true]
      intro x hx
      simp only [List.mem_append, List.mem_singleton] at hx
      cases hx with
      | inl hx => exact h x hx
      | inr hx => subst hx; exact send_queued_admitted _ _ _ hq
    · simp only [hq, if_false]; exact h
  | load remaining calls => simp only [Run.step, Run.stepObs]; split <;> exact h
  | deliver k => simp only [Run.step, Run.stepObs]; split <;> exact h
  | drop k => simp only [Run.step, Run.stepObs]; split <;> exact h
  | read => simpa [Run.step, Run.stepObs] using h
  | errSnd e => simpa [Run.step, Run.stepObs] using h
  | errRcv e => simpa [Run.step, Run.stepObs] using h

theorem foldl_accepted_admitted (ops : List Op) : ∀ (r : Run),
    (∀ d ∈ r.accepted, hdrSize true d.length + d.length ≤ r.peerMax) →
    (ops.foldl Run.step r).peerMax = r.peerMax ∧
    ∀ d ∈ (ops.foldl Run.step r).accepted, hdrSize true d.length + d.length ≤ r.peerMax := by
  induction ops with
  | nil => intro r h; exact ⟨rfl, h⟩
  | cons op ops ih =>
    intro r h
    have h' := step_accepted_admitted r op h
    rw [← step_peerMax r op] at h'
    have := ih (r.step op) h'
    rw [step_peerMax] at this
    exact this

theorem run_accepted_admitted (pm lm : Nat) (ops : List Op) :
    ∀ d ∈ (run pm lm ops).accepted, hdrSize true d.length + d.length ≤ pm :=
  (foldl_accepted_admitted ops (Run.config pm lm) (by simp [Run.config])).2

/-- each assembly pass over a source list with the datagram queue writes (at least) the head -/
theorem assemble_head (sources : List Source) (hsrc : Source.datagrams ∈ sources)
    (remaining : Nat) (s s' : Sender) (pad : Nat) (wl : Bool) (d : Bytes)
    (h : tryLoad remaining s = (s', .wrote pad wl d)) :
    ∃ p, (assembleDatagrams sources remaining s).2 = ⟨pad, wl, d⟩ :: p := by
  have hcont : sources.contains Source.datagrams = true := by simpa using hsrc
  simp only [assembleDatagrams, hcont, if_true]
  rw [loadN_wrote remaining remaining s _ pad wl d h]
  exact ⟨_, rfl⟩

/-- `n` consecutive 1-RTT assembly passes, each with `remaining` bytes of room left for datagrams;
returns the sender afterwards and the datagram part of the `n` packets -/
def passes : Nat → Nat → Sender → Sender × List Pkt
  | 0, _, s => (s, [])
  | n + 1, remaining, s =>
    let (s', p) := assembleDatagrams oneRttSources remaining s
    let (s'', ps) := passes n remaining s'
    (s'', p :: ps)

end GmQuic.Datagram
