import GmQuic.Lemmas.ParamsInv
import GmQuic.Model.ParamsEnc
/-!
Helpers for C18 `parse_complete`: RFC-legal ⇒ accepted for every (id, value) except `initial_max_streams_* = 2^60`
(the exception localised to the two ids), and `get?` of a reversed map with pairwise distinct ids.
-/
namespace GmQuic.Params
open GmQuic.Gen.Params GmQuic.Wire
open GmQuic.Spec.Rfc9000Params (legal rowLegal)

theorem required_sub_mandatory : ∀ (r : Role) (id : Nat), id ∈ required r → id ∈ GmQuic.Spec.Rfc9000Params.mandatory r := by
  intro r; cases r <;> decide

/-- a legal parameter has one of the ids of the RFC table -/
theorem legal_id_mem (r : Role) (id : Nat) (v : PVal) (h : legal r id v = true) :
    id ∈ GmQuic.Spec.Rfc9000Params.table.map (·.id) := by
  unfold legal at h
  cases hf : GmQuic.Spec.Rfc9000Params.table.find? (fun row => row.id == id) with
  | none => simp [hf] at h
  | some row =>
    have h1 : row.id = id := by simpa using List.find?_some hf
    exact List.mem_map.mpr ⟨row, List.mem_of_find?_eq_some hf, h1⟩

/-- the number 2^60 is refused only for `initial_max_streams_bidi` (8) and `initial_max_streams_uni` (9) -/
theorem accepts_two_pow_60 (r : Role) (id : Nat) (h8 : id ≠ 8) (h9 : id ≠ 9) :
    (legal r id (.varint (2 ^ 60)) = true → accepts r id (.varint (2 ^ 60)) = true) ∧
    (legal r id (.dur (2 ^ 60)) = true → accepts r id (.dur (2 ^ 60)) = true) := by
  constructor <;> intro h <;> have hm := legal_id_mem _ _ _ h <;>
    simp only [GmQuic.Spec.Rfc9000Params.table, List.map_cons, List.map_nil, List.mem_cons, List.mem_nil_iff,
      or_false] at hm <;>
    rcases hm with rfl | rfl | rfl | rfl | rfl | rfl | rfl | rfl | rfl | rfl | rfl | rfl | rfl | rfl | rfl | rfl |
      rfl | rfl | rfl | rfl <;> first | exact absurd rfl h8 | exact absurd rfl h9 | (cases r <;> revert h <;> decide)

/-- `find?` by id does not depend on the iteration order when the ids are pairwise distinct -/
theorem find?_reverse_distinct (m : PMap) (id : Nat) (hd : distinctIds m = true) :
    m.reverse.find? (fun e => e.1 == id) = m.find? (fun e => e.1 == id) := by
  induction m with
  | nil => rfl
  | cons e tl ih =>
    simp only [distinctIds, Bool.and_eq_true, Bool.not_eq_true'] at hd
    rw [List.reverse_cons, List.find?_append, ih hd.2]
    by_cases hp : (e.1 == id) = true
    · have hid : e.1 = id := by simpa using hp
      have : tl.find? (fun x => x.1 == id) = none := by
        rw [List.find?_eq_none]
        intro x hx hxe
        have h1 := hd.1
        rw [List.any_eq_false] at h1
        exact h1 x hx (by simpa [hid] using hxe)
      simp [this, List.find?, hp]
    · have hp' : (e.1 == id) = false := by simpa using hp
      simp [List.find?, hp']

theorem get?_reverse_distinct (m : PMap) (id : Nat) (hd : distinctIds m = true) :
    PMap.get? m.reverse id = PMap.get? m id := by
  unfold PMap.get?; rw [find?_reverse_distinct m id hd]

end GmQuic.Params
