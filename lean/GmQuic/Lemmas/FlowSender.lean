import GmQuic.Lemmas.FlowStream
/-!
Helper lemmas for C11: invariant of the whole sending state machine `Sndr` (cancel / STOP_SENDING).
-/
namespace GmQuic.StreamWindow
open GmQuic.Flow

theorem notSome' {α : Type} {o : Option α} (h : ¬ o.isSome = true) : o = none := by
  cases o with
  | none => rfl
  | some v => exact absurd rfl h

/-! ### the whole sender -/

structure Sndr.Inv (s : Sndr) : Prop where
  half : s.half.Inv
  fin : s.half.finSent = true → s.half.sentHi = s.half.written
  hiW : s.half.sentHi ≤ s.half.written
  rst : ∀ f, s.rst = some f → f = s.half.sentHi
  finR : s.half.finSent = true → s.half.finReq = true

theorem Sndr.inv_init (w : Nat) : (Sndr.init w).Inv := by
  refine ⟨SendHalf.inv_init w, ?_, ?_, ?_, ?_⟩ <;> simp [Sndr.init, SendHalf.init]

theorem SendHalf.emit_shape (h h' : SendHalf) (a b : Nat) (fin : Bool) (avail c : Nat)
    (he : h.emit a b fin avail = some (h', c)) :
    h'.written = h.written ∧ h'.finSent = (h.finSent || fin) ∧ h'.sentHi = max h.sentHi b ∧
      b ≤ h.written ∧ (fin = true → b = h.written ∧ h.finReq = true) ∧ h'.finReq = h.finReq ∧
      h'.maxData = h.maxData := by
  unfold SendHalf.emit at he
  split at he
  · rename_i hc
    obtain ⟨_, _, hbw, hf⟩ := hc
    split at he
    · split at he
      · simp only [Option.some.injEq, Prod.mk.injEq] at he
        obtain ⟨rfl, rfl⟩ := he
        refine ⟨rfl, rfl, ?_, hbw, fun h => ⟨(hf h).2, (hf h).1⟩, rfl, rfl⟩
        show b = max h.sentHi b; omega
      · simp at he
    · split at he
      · simp only [Option.some.injEq, Prod.mk.injEq] at he
        obtain ⟨rfl, rfl⟩ := he
        refine ⟨rfl, rfl, ?_, hbw, fun h => ⟨(hf h).2, (hf h).1⟩, rfl, rfl⟩
        show h.sentHi = max h.sentHi b; omega
      · simp at he
  · simp at he

theorem Sndr.step_inv (s : Sndr) (op : TOp) (hi : s.Inv) : (s.step op).Inv := by
  obtain ⟨h1, h2, h3, h4, h6⟩ := hi
  cases op with
  | cancel =>
    simp only [Sndr.step, Sndr.resetNow]
    split
    · exact ⟨h1, h2, h3, h4, h6⟩
    · refine ⟨h1, h2, h3, ?_, h6⟩
      intro f hf
      simp only [Option.some.injEq] at hf; subst hf
      split
      · rename_i hfs; exact (h2 hfs).symm
      · rfl
  | stopSending =>
    simp only [Sndr.step, Sndr.resetNow]
    split
    · exact ⟨h1, h2, h3, h4, h6⟩
    · refine ⟨h1, h2, h3, ?_, h6⟩
      intro f hf
      simp only [Option.some.injEq] at hf; subst hf
      split
      · rename_i hfs; exact (h2 hfs).symm
      · rfl
  | half op =>
    cases op with
    | msd m =>
      simp only [Sndr.step, Sndr.updateWindow]
      split
      · refine ⟨⟨h1.hiMax, ?_, h1.emHi, h1.chg⟩, h2, h3, h4, h6⟩
        have := h1.maxGr; show s.half.maxData ≤ max s.half.granted m; omega
      · rename_i hr
        have hr' : s.rst = none := notSome' hr
        have hu : (s.half.updateWindow m).sentHi = s.half.sentHi ∧
            (s.half.updateWindow m).written = s.half.written ∧
            (s.half.updateWindow m).finSent = s.half.finSent ∧
            (s.half.updateWindow m).finReq = s.half.finReq := by
          unfold SendHalf.updateWindow; dsimp only
          split
          · exact ⟨rfl, rfl, rfl, rfl⟩
          · split <;> exact ⟨rfl, rfl, rfl, rfl⟩
        refine ⟨s.half.updateWindow_inv m h1, ?_, ?_, ?_, ?_⟩
        · show (s.half.updateWindow m).finSent = true → _
          rw [hu.1, hu.2.1, hu.2.2.1]; exact h2
        · show (s.half.updateWindow m).sentHi ≤ (s.half.updateWindow m).written
          rw [hu.1, hu.2.1]; exact h3
        · intro f hf; simp only [hr'] at hf; cases hf
        · show (s.half.updateWindow m).finSent = true → (s.half.updateWindow m).finReq = true
          rw [hu.2.2.1, hu.2.2.2]; exact h6
    | emit a b fin avail =>
      simp only [Sndr.step, Sndr.emit]
      split
      · rename_i s' c he
        split at he
        · simp at he
        · rename_i hr
          have hr' : s.rst = none := notSome' hr
          split at he
          · rename_i h' c' hem
            simp only [Option.some.injEq, Prod.mk.injEq] at he
            obtain ⟨rfl, rfl⟩ := he
            obtain ⟨e1, e2, e3, e4, e5, e6, _⟩ := s.half.emit_shape h' a b fin avail _ hem
            refine ⟨(s.half.emit_inv h' a b fin avail _ h1 hem).1, ?_, ?_, ?_, ?_⟩
            · show h'.finSent = true → h'.sentHi = h'.written
              rw [e1, e2, e3]
              intro hf
              cases hfs : s.half.finSent
              · simp only [hfs, Bool.false_or] at hf
                have := (e5 hf).1; omega
              · have := h2 hfs; omega
            · show h'.sentHi ≤ h'.written
              rw [e1, e3]; omega
            · intro f hf; simp only [hr'] at hf; cases hf
            · show h'.finSent = true → h'.finReq = true
              rw [e2, e6]
              intro hf
              cases hfs : s.half.finSent
              · simp only [hfs, Bool.false_or] at hf; exact (e5 hf).2
              · exact h6 hfs
          · simp at he
      · exact ⟨h1, h2, h3, h4, h6⟩
    | write n =>
      simp only [Sndr.step]
      split
      · exact ⟨h1, h2, h3, h4, h6⟩
      · rename_i hr
        have hr' : s.rst = none := notSome' hr
        refine ⟨s.half.step_inv (.write n) h1, ?_, ?_, ?_, ?_⟩
        · show (s.half.step (.write n)).finSent = true → _
          simp only [SendHalf.step]; split
          · exact h2
          · rename_i hfr
            intro hf
            exact absurd (h6 hf) hfr
        · show (s.half.step (.write n)).sentHi ≤ (s.half.step (.write n)).written
          simp only [SendHalf.step]; split
          · exact h3
          · show s.half.sentHi ≤ s.half.written + n; omega
        · intro f hf; simp only [hr'] at hf; cases hf
        · show (s.half.step (.write n)).finSent = true → (s.half.step (.write n)).finReq = true
          simp only [SendHalf.step]; split
          · exact h6
          · exact h6
    | fin =>
      simp only [Sndr.step]
      split
      · exact ⟨h1, h2, h3, h4, h6⟩
      · rename_i hr
        have hr' : s.rst = none := notSome' hr
        exact ⟨s.half.step_inv .fin h1, h2, h3, (by intro f hf; simp only [hr'] at hf; cases hf), fun _ => rfl⟩

theorem Sndr.inv_foldl (ops : List TOp) (s : Sndr) (hi : s.Inv) : (ops.foldl Sndr.step s).Inv := by
  induction ops generalizing s with
  | nil => simpa using hi
  | cons op ops ih => exact ih _ (s.step_inv op hi)

theorem Sndr.step_granted (s : Sndr) (op : TOp) :
    (s.step op).half.granted = (match op with | .half (.msd m) => max s.half.granted m | _ => s.half.granted) := by
  cases op with
  | cancel => simp only [Sndr.step, Sndr.resetNow]; split <;> rfl
  | stopSending => simp only [Sndr.step, Sndr.resetNow]; split <;> rfl
  | half op =>
    cases op with
    | msd m =>
      simp only [Sndr.step, Sndr.updateWindow]
      split
      · rfl
      · exact s.half.updateWindow_granted m
    | emit a b fin avail =>
      simp only [Sndr.step, Sndr.emit]
      split
      · rename_i s' c he
        split at he
        · simp at he
        · split at he
          · rename_i h' c' hem
            simp only [Option.some.injEq, Prod.mk.injEq] at he
            obtain ⟨rfl, rfl⟩ := he
            exact s.half.emit_inv' h' a b fin avail _ hem
          · simp at he
      · rfl
    | write n =>
      simp only [Sndr.step]
      split
      · rfl
      · exact s.half.step_granted (.write n)
    | fin =>
      simp only [Sndr.step]
      split
      · rfl
      · rfl

theorem Sndr.granted_foldl (ops : List TOp) (s : Sndr) :
    (ops.foldl Sndr.step s).half.granted =
      ops.foldl (fun g op => match op with | .half (.msd m) => max g m | _ => g) s.half.granted := by
  induction ops generalizing s with
  | nil => rfl
  | cons op ops ih =>
    simp only [List.foldl_cons]
    rw [ih, s.step_granted op]

/-- Once reset, a sending half is frozen: nothing is emitted or charged any more. -/
theorem Sndr.step_frozen (s : Sndr) (op : TOp) (hr : s.rst.isSome = true) :
    (s.step op).rst = s.rst ∧ (s.step op).half.charged = s.half.charged ∧
      (s.step op).half.emitted = s.half.emitted ∧ (s.step op).half.sentHi = s.half.sentHi := by
  cases op with
  | cancel => simp [Sndr.step, Sndr.resetNow, hr]
  | stopSending => simp [Sndr.step, Sndr.resetNow, hr]
  | half op =>
    cases op with
    | msd m => simp [Sndr.step, Sndr.updateWindow, hr]
    | emit a b fin avail => simp [Sndr.step, Sndr.emit, hr]
    | write n => simp [Sndr.step, hr]
    | fin => simp [Sndr.step, hr]

theorem Sndr.foldl_frozen (ops : List TOp) (s : Sndr) (hr : s.rst.isSome = true) :
    (ops.foldl Sndr.step s).rst = s.rst ∧ (ops.foldl Sndr.step s).half.charged = s.half.charged ∧
      (ops.foldl Sndr.step s).half.emitted = s.half.emitted := by
  induction ops generalizing s with
  | nil => exact ⟨rfl, rfl, rfl⟩
  | cons op ops ih =>
    obtain ⟨e1, e2, e3, _⟩ := s.step_frozen op hr
    have := ih (s.step op) (by rw [e1]; exact hr)
    simp only [List.foldl_cons]
    rw [this.1, this.2.1, this.2.2, e1, e2, e3]
    exact ⟨rfl, rfl, rfl⟩

end GmQuic.StreamWindow
