import GmQuic.Model.Wire
/-! Lemmas about big-endian integers and the varint codec. -/
namespace GmQuic.Wire

@[simp] theorem beBytes_length (w n : Nat) : (beBytes w n).length = w := by
  induction w with
  | zero => rfl
  | succ w ih => simp [beBytes, ih]

theorem beAcc_beBytes (w n acc : Nat) : beAcc acc (beBytes w n) = acc * 256 ^ w + n % 256 ^ w := by
  induction w generalizing acc with
  | zero => simp [beBytes, beAcc, Nat.mod_one]
  | succ w ih =>
    have h := ih (acc * 256 + n / 256 ^ w % 256)
    simp only [beAcc] at h ⊢
    simp only [beBytes, List.foldl_cons, UInt8.toNat_ofNat']
    rw [Nat.mod_mod_of_dvd _ (by decide : 256 ∣ 2 ^ 8)] at *
    rw [h, Nat.mod_pow_succ, Nat.pow_succ, Nat.add_mul]
    have : acc * 256 * 256 ^ w = acc * (256 ^ w * 256) := by
      rw [Nat.mul_assoc, Nat.mul_comm 256]
    rw [this, Nat.mul_comm (n / 256 ^ w % 256)]
    omega

theorem beVal_beBytes (w n : Nat) : beVal (beBytes w n) = n % 256 ^ w := by
  simp [beVal, beAcc_beBytes]

theorem beAcc_append (acc : Nat) (a b : Bytes) : beAcc acc (a ++ b) = beAcc (beAcc acc a) b := by
  simp [beAcc, List.foldl_append]

end GmQuic.Wire

namespace GmQuic.Wire

/-- First byte of a `w+1`-byte big-endian encoding. -/
theorem beBytes_succ (w n : Nat) : beBytes (w + 1) n = UInt8.ofNat (n / 256 ^ w % 256) :: beBytes w n := rfl

/-- Generic decoding step: a `w`-byte big-endian number whose top two bits say `w`. -/
theorem decVarint_beBytes (k p n : Nat) (rest : Bytes)
    (hk : k + 1 = 2 ^ p) (hn : n < 256 ^ (k + 1)) (hpre : n / 256 ^ k / 64 = p) :
    decVarint (beBytes (k + 1) n ++ rest) = some (n % 2 ^ (8 * (k + 1) - 2), rest) := by
  have hb : n / 256 ^ k < 256 := by
    rw [Nat.div_lt_iff_lt_mul (Nat.pow_pos (by decide))]
    rw [Nat.pow_succ] at hn; rw [Nat.mul_comm]; exact hn
  have hbyte : (UInt8.ofNat (n / 256 ^ k % 256)).toNat = n / 256 ^ k := by
    rw [UInt8.toNat_ofNat', Nat.mod_mod_of_dvd _ (by decide : 256 ∣ 2 ^ 8), Nat.mod_eq_of_lt hb]
  simp only [beBytes_succ, List.cons_append, decVarint, hbyte, hpre, ← hk]
  have hlen : ¬ ((beBytes k n ++ rest).length + 1 < k + 1) := by simp
  simp only [hlen, if_false, Nat.add_sub_cancel]
  have htake : (beBytes k n ++ rest).take k = beBytes k n := by
    rw [List.take_append_of_le_length (by simp)]; simp [List.take_of_length_le]
  have hdrop : (beBytes k n ++ rest).drop k = rest := by
    rw [List.drop_append_of_le_length (by simp)]; simp [List.drop_of_length_le]
  rw [htake, hdrop]
  have : beVal (UInt8.ofNat (n / 256 ^ k % 256) :: beBytes k n) = n := by
    rw [← beBytes_succ, beVal_beBytes, Nat.mod_eq_of_lt hn]
  rw [this]

theorem decVarint_encVarint (v : Nat) (rest : Bytes) (hv : v < 2 ^ 62) :
    decVarint (encVarint v ++ rest) = some (v, rest) := by
  unfold encVarint
  split
  · rw [decVarint_beBytes 0 0 v rest (by decide) (by omega) (by omega)]
    simp; omega
  split
  · rw [decVarint_beBytes 1 1 _ rest (by decide) (by omega) (by omega)]
    simp; omega
  split
  · rw [decVarint_beBytes 3 2 _ rest (by decide) (by omega) (by omega)]
    simp; omega
  · rw [decVarint_beBytes 7 3 _ rest (by decide) (by omega) (by omega)]
    simp; omega

theorem encVarint_length (v : Nat) : (encVarint v).length = varintSize v := by
  unfold encVarint varintSize; split <;> (try split) <;> (try split) <;> simp

theorem varintSize_le (v : Nat) : 1 ≤ varintSize v ∧ varintSize v ≤ 8 := by
  unfold varintSize; split <;> (try split) <;> (try split) <;> omega

/-- A successful varint decode consumes at least one byte and never more than it was given. -/
theorem decVarint_consumes (bs : Bytes) (v : Nat) (rest : Bytes) (h : decVarint bs = some (v, rest)) :
    rest.length < bs.length ∧ v < 2 ^ 62 := by
  cases bs with
  | nil => simp [decVarint] at h
  | cons b tl =>
    simp only [decVarint] at h
    split at h
    · simp at h
    · simp only [Option.some.injEq, Prod.mk.injEq] at h
      obtain ⟨h1, h2⟩ := h
      constructor
      · rw [← h2]; simp; omega
      · rw [← h1]
        have hb : b.toNat / 64 < 4 := by have := b.toNat_lt; omega
        have : 2 ^ (8 * 2 ^ (b.toNat / 64) - 2) ≤ 2 ^ 62 := by
          apply Nat.pow_le_pow_right (by decide)
          have : 2 ^ (b.toNat / 64) ≤ 2 ^ 3 := Nat.pow_le_pow_right (by decide) (by omega)
          omega
        exact Nat.lt_of_lt_of_le (Nat.mod_lt _ (Nat.pow_pos (by decide))) this

end GmQuic.Wire
