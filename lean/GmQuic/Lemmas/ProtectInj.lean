import GmQuic.Lemmas.ProtectCore
import GmQuic.Props.C07.Codec
/-! C06: header-protection removal is injective on (AAD, ciphertext); what the sender's packet looks like to the receiver. -/
namespace GmQuic.Protect
open GmQuic.Wire GmQuic.Pn

theorem unmask_pnLen_le (m : Bytes) (sp : Split) : (unmask m sp).pnLen ≤ 4 := by
  simp only [unmask]
  have : ((sp.first ^^^ m.headD 0 &&& hpBits sp.first) &&& 3).toNat ≤ 3 := by
    rw [UInt8.toNat_and]; exact Nat.and_le_right
  omega

theorem unmask_pn4_length (m : Bytes) (sp : Split) : (unmask m sp).pn4.length = sp.pn4.length := by
  simp only [unmask, xorPn_length]

/-- Two buffers whose unmasked AAD and ciphertext coincide, unmasked with masks that are the same function of
the sample, are the same buffer. -/
theorem unmask_inj (mk : PType → Bytes → Bytes) (sp1 sp2 : Split) (ty1 ty2 : PType)
    (h41 : sp1.pn4.length = 4) (h42 : sp2.pn4.length = 4)
    (ht1 : typeOfFirst sp1.first = some ty1) (ht2 : typeOfFirst sp2.first = some ty2)
    (haad : (unmask (mk ty1 (sp1.tail.take 16)) sp1).aad sp1 = (unmask (mk ty2 (sp2.tail.take 16)) sp2).aad sp2)
    (hct : (unmask (mk ty1 (sp1.tail.take 16)) sp1).ct sp1 = (unmask (mk ty2 (sp2.tail.take 16)) sp2).ct sp2) :
    sp1 = sp2 := by
  have hl1 := unmask_pnLen_le (mk ty1 (sp1.tail.take 16)) sp1
  have hl2 := unmask_pnLen_le (mk ty2 (sp2.tail.take 16)) sp2
  have hp1 := unmask_pn4_length (mk ty1 (sp1.tail.take 16)) sp1
  have hp2 := unmask_pn4_length (mk ty2 (sp2.tail.take 16)) sp2
  -- the unmasked first bytes agree, hence the pn lengths and the types
  have hF : (unmask (mk ty1 (sp1.tail.take 16)) sp1).first = (unmask (mk ty2 (sp2.tail.take 16)) sp2).first := by
    simp only [Unmasked.aad, List.cons_append] at haad; exact (List.cons.inj haad).1
  have hL : (unmask (mk ty1 (sp1.tail.take 16)) sp1).pnLen = (unmask (mk ty2 (sp2.tail.take 16)) sp2).pnLen := by
    have e1 : (unmask (mk ty1 (sp1.tail.take 16)) sp1).pnLen
        = ((unmask (mk ty1 (sp1.tail.take 16)) sp1).first &&& 3).toNat + 1 := rfl
    have e2 : (unmask (mk ty2 (sp2.tail.take 16)) sp2).pnLen
        = ((unmask (mk ty2 (sp2.tail.take 16)) sp2).first &&& 3).toNat + 1 := rfl
    rw [e1, e2, hF]
  have hty : ty1 = ty2 := by
    have a1 : typeOfFirst (unmask (mk ty1 (sp1.tail.take 16)) sp1).first = some ty1 := by
      simp only [unmask]; rw [typeOfFirst_unmask, ht1]
    have a2 : typeOfFirst (unmask (mk ty2 (sp2.tail.take 16)) sp2).first = some ty2 := by
      simp only [unmask]; rw [typeOfFirst_unmask, ht2]
    rw [hF, a2] at a1; exact (Option.some.inj a1).symm
  subst hty
  -- split the two lists at equal positions
  have hrest : sp1.mid ++ (unmask (mk ty1 (sp1.tail.take 16)) sp1).pn4.take (unmask (mk ty1 (sp1.tail.take 16)) sp1).pnLen
      = sp2.mid ++ (unmask (mk ty1 (sp2.tail.take 16)) sp2).pn4.take (unmask (mk ty1 (sp2.tail.take 16)) sp2).pnLen := by
    simp only [Unmasked.aad, List.cons_append] at haad; exact (List.cons.inj haad).2
  have hmid := List.append_inj' hrest (by simp only [List.length_take]; omega)
  have htl := List.append_inj hct (by simp only [List.length_drop]; omega)
  have hpn4 : (unmask (mk ty1 (sp1.tail.take 16)) sp1).pn4 = (unmask (mk ty1 (sp2.tail.take 16)) sp2).pn4 := by
    rw [← List.take_append_drop (unmask (mk ty1 (sp1.tail.take 16)) sp1).pnLen (unmask (mk ty1 (sp1.tail.take 16)) sp1).pn4,
        hmid.2, htl.1, ← hL, List.take_append_drop] 
  have htail : sp1.tail = sp2.tail := htl.2
  -- same sample ⇒ same mask
  rw [htail] at hF hpn4 hL
  have hb : hpBits sp1.first = hpBits sp2.first := by
    have b1 := hpBits_unmask sp1.first ((mk ty1 (sp2.tail.take 16)).headD 0)
    have b2 := hpBits_unmask sp2.first ((mk ty1 (sp2.tail.take 16)).headD 0)
    simp only [unmask] at hF
    rw [← b1, ← b2, hF]
  have hfirst : sp1.first = sp2.first := by
    simp only [unmask] at hF
    rw [hb] at hF
    exact (UInt8.xor_left_inj _).mp hF
  have hpn : sp1.pn4 = sp2.pn4 := by
    simp only [unmask] at hpn4 hL
    rw [hfirst] at hpn4
    exact xorPn_inj _ _ _ _ hpn4
  cases sp1; cases sp2
  simp only [Split.mk.injEq]
  exact ⟨hfirst, hmid.1, hpn, htail⟩

end GmQuic.Protect
