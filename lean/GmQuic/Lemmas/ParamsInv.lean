import GmQuic.Lemmas.ParamsRun
/-! C18 lemmas: the invariant of the `Parameters` state machine over all op histories; the two arrival orders. -/
namespace GmQuic.Params
open GmQuic.Gen.Params GmQuic.Wire

/-- `Authd` without the Retry clause (a Retry recorded *after* authentication is not re-checked by the code). -/
def AuthdW (s : Core) : Prop :=
  ∃ c, s.initialScid = some c ∧ getCid s.remote idISCID = some c ∧
    (s.role = .client → getCid s.remote idODCID = some s.odcid)

theorem Authd.weak {s : Core} (h : Authd s) : AuthdW s := by
  obtain ⟨c, h1, h2, h3⟩ := h
  exact ⟨c, h1, h2, fun hr => (h3 hr).1⟩

structure Inv (s : Core) : Prop where
  good : s.remote = [] ∨ Good s.role.peer s.remote
  auth : s.ready = true → s.poisoned = false → s.remote ≠ [] ∧ AuthdW s

theorem received_iff (s : Core) : s.received = true ↔ s.remote ≠ [] := by
  unfold Core.received; cases s.remote <;> simp

theorem afterAuth_inv {s : Core} (hgood : Good s.role.peer s.remote)
    (hauth : s.ready = true → s.poisoned = false → s.remote ≠ [] ∧ AuthdW s) : Inv (afterAuth s).1 := by
  unfold afterAuth
  cases ha : authenticate s with
  | none => exact ⟨Or.inr hgood, fun _ hp => by simp at hp⟩
  | some a =>
    cases a with
    | notYet => exact ⟨Or.inr hgood, hauth⟩
    | mismatch => exact ⟨Or.inr hgood, hauth⟩
    | ok =>
      refine ⟨Or.inr hgood, fun _ _ => ⟨good_ne_nil hgood, ?_⟩⟩
      exact ((authenticate_ok_iff s).mp ha).weak

theorem cstep_inv {s : Core} (h : Inv s) (op : Op) : Inv (cstep s op).1 := by
  unfold cstep
  split
  · exact h
  · rename_i hpois
    have hp : s.poisoned = false := by simpa using hpois
    cases op with
    | connErr => exact ⟨h.good, h.auth⟩
    | poll => dsimp only; split; exact h; split <;> exact h
    | query => dsimp only; split <;> exact h
    | retry c =>
      dsimp only
      split
      · exact h
      · split
        · exact ⟨h.good, h.auth⟩
        · exact ⟨h.good, fun _ hp => by simp at hp⟩
    | recv blob =>
      dsimp only
      split
      · exact h
      · split
        · exact h
        · rename_i m hm
          split
          · exact ⟨h.good, fun _ hp => by simp at hp⟩
          · rename_i hrec
            have hnil : s.remote = [] := by
              by_cases hn : s.remote = []
              · exact hn
              · exact absurd ((received_iff s).mpr hn) hrec
            refine afterAuth_inv (s := { s with remote := m }) (parse_good hm) ?_
            intro hr hpo
            exact absurd hnil (h.auth hr hp).1
    | scid c =>
      dsimp only
      split
      · exact h
      · split
        · exact ⟨h.good, fun _ hp => by simp at hp⟩
        · rename_i hnone
          split
          · rename_i hrec
            have hne : s.remote ≠ [] := (received_iff s).mp hrec
            have hg : Good s.role.peer s.remote := by
              rcases h.good with h0 | h1
              · exact absurd h0 hne
              · exact h1
            refine afterAuth_inv (s := { s with initialScid := some c }) hg ?_
            intro hr hpo
            obtain ⟨_, c', hc', _⟩ := h.auth hr hp
            rw [hnone] at hc'; cases hc'
          · refine ⟨h.good, ?_⟩
            intro hr hpo
            obtain ⟨_, c', hc', _⟩ := h.auth hr hp
            rw [hnone] at hc'; cases hc'

theorem crun_inv {s : Core} (h : Inv s) (ops : List Op) : Inv (crun s ops) := by
  induction ops generalizing s with
  | nil => exact h
  | cons op ops ih => exact ih (cstep_inv h op)

/-! ### the two arrival orders -/

structure Fresh (s : Core) : Prop where
  remote : s.remote = []
  scid : s.initialScid = none
  ready : s.ready = false
  dead : s.dead = false
  poisoned : s.poisoned = false

theorem fresh_inv {s : Core} (h : Fresh s) : Inv s :=
  ⟨Or.inl h.remote, fun hr => by rw [h.ready] at hr; cases hr⟩

def Op.passive : Op → Bool
  | .poll | .query => true
  | _ => false

theorem cstep_passive (s : Core) {op : Op} (h : op.passive = true) : (cstep s op).1 = s := by
  cases op <;> simp [Op.passive] at h
  all_goals (unfold cstep; dsimp only; (repeat' split) <;> rfl)

theorem crun_passive (s : Core) {ops : List Op} (h : ops.all Op.passive = true) : crun s ops = s := by
  induction ops generalizing s with
  | nil => rfl
  | cons op ops ih =>
    simp only [List.all_cons, Bool.and_eq_true] at h
    simp only [crun, cstep_passive s h.1]
    exact ih s h.2

theorem crun_append (s : Core) (a b : List Op) : crun s (a ++ b) = crun (crun s a) b := by
  induction a generalizing s with
  | nil => rfl
  | cons op a ih => exact ih _

theorem authenticate_some_scid {s : Core} {c : Bytes} (h : s.initialScid = some c) : authenticate s ≠ some .notYet := by
  unfold authenticate
  rw [h]
  dsimp only
  repeat' split
  all_goals simp

/-- outcome of authenticating the target state: only `ok` or `mismatch` -/
theorem afterAuth_target {s : Core} {c : Bytes} (hs : s.initialScid = some c) (hg : Good s.role.peer s.remote) :
    (Authd s ∧ afterAuth s = ({ s with ready := true }, .ok)) ∨ (¬ Authd s ∧ afterAuth s = (s, .errTP)) := by
  have h1 := authenticate_no_panic s hg
  have h2 := authenticate_some_scid hs
  unfold afterAuth
  cases ha : authenticate s with
  | none => exact absurd ha h1
  | some a =>
    cases a with
    | notYet => exact absurd ha h2
    | ok => exact Or.inl ⟨(authenticate_ok_iff s).mp ha, rfl⟩
    | mismatch =>
      refine Or.inr ⟨fun hA => ?_, rfl⟩
      have := (authenticate_ok_iff s).mpr hA
      rw [ha] at this; cases this

theorem afterAuth_noscid {s : Core} (hs : s.initialScid = none) : afterAuth s = (s, .ok) := by
  unfold afterAuth authenticate
  rw [hs]

/-- The state both arrival orders end in, and the two observations of each order. -/
def target (s : Core) (blob c : Bytes) : Core :=
  match parse s.role.peer blob with
  | none => { s with initialScid := some c }
  | some m =>
    let t : Core := { s with remote := m, initialScid := some c }
    if Authd t then { t with ready := true } else t

theorem fresh_eq {s : Core} (hf : Fresh s) : s = { role := s.role, odcid := s.odcid, retryScid := s.retryScid } := by
  obtain ⟨role, remote, odcid, iscid, rscid, ready, dead, pois⟩ := s
  obtain ⟨h1, h2, h3, h4, h5⟩ := hf
  simp only at h1 h2 h3 h4 h5
  subst h1 h2 h3 h4 h5
  rfl

theorem recv_then_scid {s : Core} (hf : Fresh s) (blob c : Bytes) :
    (cstep (cstep s (.recv blob)).1 (.scid c)).1 = target s blob c := by
  rw [fresh_eq hf]
  generalize s.role = role; generalize s.odcid = odcid; generalize s.retryScid = rscid
  unfold target
  cases hp : parse role.peer blob with
  | none => simp [cstep, hp, Core.received]
  | some m =>
    have hg : Good role.peer m := parse_good hp
    have hne : m ≠ [] := good_ne_nil hg
    have hrec : m.isEmpty = false := by cases m <;> simp_all
    have e1 : cstep { role := role, odcid := odcid, retryScid := rscid } (.recv blob)
        = ({ role := role, odcid := odcid, retryScid := rscid, remote := m }, .ok) := by
      simp only [cstep, hp, Core.received]
      exact afterAuth_noscid (s := { role := role, odcid := odcid, retryScid := rscid, remote := m }) rfl
    rw [e1]
    have e2 : cstep { role := role, odcid := odcid, retryScid := rscid, remote := m } (.scid c)
        = afterAuth { role := role, odcid := odcid, retryScid := rscid, remote := m, initialScid := some c } := by
      simp [cstep, Core.received, hrec]
    rw [e2]
    rcases afterAuth_target (s := { role := role, odcid := odcid, retryScid := rscid, remote := m, initialScid := some c }) rfl hg with ⟨hA, e⟩ | ⟨hA, e⟩
    · rw [e]; simp [hA]
    · rw [e]; simp [hA]

theorem scid_then_recv {s : Core} (hf : Fresh s) (blob c : Bytes) :
    (cstep (cstep s (.scid c)).1 (.recv blob)).1 = target s blob c := by
  rw [fresh_eq hf]
  generalize s.role = role; generalize s.odcid = odcid; generalize s.retryScid = rscid
  unfold target
  have e1 : cstep { role := role, odcid := odcid, retryScid := rscid } (.scid c)
      = ({ role := role, odcid := odcid, retryScid := rscid, initialScid := some c }, .ok) := by
    simp [cstep, Core.received]
  rw [e1]
  cases hp : parse role.peer blob with
  | none => simp [cstep, hp]
  | some m =>
    have hg : Good role.peer m := parse_good hp
    have e2 : cstep { role := role, odcid := odcid, retryScid := rscid, initialScid := some c } (.recv blob)
        = afterAuth { role := role, odcid := odcid, retryScid := rscid, remote := m, initialScid := some c } := by
      simp [cstep, hp, Core.received]
    rw [e2]
    rcases afterAuth_target (s := { role := role, odcid := odcid, retryScid := rscid, remote := m, initialScid := some c }) rfl hg with ⟨hA, e⟩ | ⟨hA, e⟩
    · rw [e]; simp [hA]
    · rw [e]; simp [hA]

theorem target_ready {s : Core} (hf : Fresh s) (blob c : Bytes) :
    (target s blob c).ready = true ↔
      ∃ m, parse s.role.peer blob = some m ∧ Authd { s with remote := m, initialScid := some c } := by
  have hr := hf.ready
  unfold target
  cases hp : parse s.role.peer blob with
  | none => simp [hr]
  | some m =>
    dsimp only
    by_cases hA : Authd { s with remote := m, initialScid := some c }
    · rw [if_pos hA]
      exact ⟨fun _ => ⟨m, rfl, hA⟩, fun _ => rfl⟩
    · rw [if_neg hA]
      constructor
      · intro h
        have h' : s.ready = true := h
        rw [hr] at h'; cases h'
      · rintro ⟨m', hm, hA'⟩
        cases hm
        exact absurd hA' hA

/-- The two observations of each arrival order. -/
def obsTlsFirst (s : Core) (blob c : Bytes) : List Obs :=
  match parse s.role.peer blob with
  | none => [.errTP, .ok]
  | some m => if Authd { s with remote := m, initialScid := some c } then [.ok, .ok] else [.ok, .errTP]

def obsPktFirst (s : Core) (blob c : Bytes) : List Obs :=
  match parse s.role.peer blob with
  | none => [.ok, .errTP]
  | some m => if Authd { s with remote := m, initialScid := some c } then [.ok, .ok] else [.ok, .errTP]

theorem recv_then_scid_obs {s : Core} (hf : Fresh s) (blob c : Bytes) :
    cobs s [.recv blob, .scid c] = obsTlsFirst s blob c := by
  rw [fresh_eq hf]
  generalize s.role = role; generalize s.odcid = odcid; generalize s.retryScid = rscid
  unfold obsTlsFirst
  simp only [cobs]
  cases hp : parse role.peer blob with
  | none => simp [cstep, hp, Core.received]
  | some m =>
    have hg : Good role.peer m := parse_good hp
    have hne : m ≠ [] := good_ne_nil hg
    have hrec : m.isEmpty = false := by cases m <;> simp_all
    have e1 : cstep { role := role, odcid := odcid, retryScid := rscid } (.recv blob)
        = ({ role := role, odcid := odcid, retryScid := rscid, remote := m }, .ok) := by
      simp only [cstep, hp, Core.received]
      exact afterAuth_noscid (s := { role := role, odcid := odcid, retryScid := rscid, remote := m }) rfl
    rw [e1]
    have e2 : cstep { role := role, odcid := odcid, retryScid := rscid, remote := m } (.scid c)
        = afterAuth { role := role, odcid := odcid, retryScid := rscid, remote := m, initialScid := some c } := by
      simp [cstep, Core.received, hrec]
    rw [e2]
    rcases afterAuth_target (s := { role := role, odcid := odcid, retryScid := rscid, remote := m, initialScid := some c }) rfl hg with ⟨hA, e⟩ | ⟨hA, e⟩
    · rw [e]; simp [hA]
    · rw [e]; simp [hA]

theorem scid_then_recv_obs {s : Core} (hf : Fresh s) (blob c : Bytes) :
    cobs s [.scid c, .recv blob] = obsPktFirst s blob c := by
  rw [fresh_eq hf]
  generalize s.role = role; generalize s.odcid = odcid; generalize s.retryScid = rscid
  unfold obsPktFirst
  simp only [cobs]
  have e1 : cstep { role := role, odcid := odcid, retryScid := rscid } (.scid c)
      = ({ role := role, odcid := odcid, retryScid := rscid, initialScid := some c }, .ok) := by
    simp [cstep, Core.received]
  rw [e1]
  cases hp : parse role.peer blob with
  | none => simp [cstep, hp]
  | some m =>
    have hg : Good role.peer m := parse_good hp
    have e2 : cstep { role := role, odcid := odcid, retryScid := rscid, initialScid := some c } (.recv blob)
        = afterAuth { role := role, odcid := odcid, retryScid := rscid, remote := m, initialScid := some c } := by
      simp [cstep, hp, Core.received]
    rw [e2]
    rcases afterAuth_target (s := { role := role, odcid := odcid, retryScid := rscid, remote := m, initialScid := some c }) rfl hg with ⟨hA, e⟩ | ⟨hA, e⟩
    · rw [e]; simp [hA]
    · rw [e]; simp [hA]

/-! ### small helpers used by Props/C18 -/

theorem mandatory_sub_required : ∀ (r : Role) (id : Nat), id ∈ GmQuic.Spec.Rfc9000Params.mandatory r → id ∈ required r := by
  intro r; cases r <;> decide


theorem pending_not_ready (s : Core) (op : Op) (h : (cstep s op).2 = .pollPending) : (cstep s op).1.ready = false := by
  unfold cstep at h ⊢
  split at h
  · cases h
  · cases op <;> dsimp only at h ⊢ <;> (repeat' split at h) <;> (try cases h) <;> simp_all [afterAuth]
    all_goals (repeat' split at h) <;> (try cases h)


theorem zrtt_fold_none (old new : PMap) (l : List Nat) : l.foldl (zrttStep old new) none = none := by
  induction l with
  | nil => rfl
  | cons _ _ ih => simpa [zrttStep] using ih

theorem zrtt_fold (old new : PMap) (ids : List Nat) (a : Bool) :
    ids.foldl (zrttStep old new) (some a) = some true ↔
    a = true ∧ ∀ id ∈ ids, ∃ o n, getVarint old id = some o ∧ getVarint new id = some n ∧ o ≤ n := by
  induction ids generalizing a with
  | nil => simp
  | cons id ids ih =>
    simp only [List.foldl_cons, List.mem_cons, forall_eq_or_imp]
    cases ho : getVarint old id with
    | none => simp [zrttStep, ho, zrtt_fold_none]
    | some o =>
      cases hn : getVarint new id with
      | none => simp [zrttStep, ho, hn, zrtt_fold_none]
      | some n =>
        have : zrttStep old new (some a) id = some (a && decide (o ≤ n)) := by simp [zrttStep, ho, hn]
        rw [this, ih]
        simp only [Bool.and_eq_true, decide_eq_true_eq, Option.some.injEq, exists_and_left, exists_eq_left']
        constructor
        · rintro ⟨⟨ha, hle⟩, hrest⟩; exact ⟨ha, hle, hrest⟩
        · rintro ⟨ha, hle, hrest⟩; exact ⟨⟨ha, hle⟩, hrest⟩


end GmQuic.Params
