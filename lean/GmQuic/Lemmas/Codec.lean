import GmQuic.Model.Frame
import GmQuic.Lemmas.Wire
/-! Parser-primitive round-trip lemmas used by the C05 frame theorems. -/
namespace GmQuic.Codec
open GmQuic.Wire GmQuic.Gen

@[simp] theorem Res.bind_ok {α β} (a : α) (r : Bytes) (f : α → Bytes → Res β) :
    (Res.ok a r).bind f = f a r := rfl
@[simp] theorem Res.map_ok {α β} (a : α) (r : Bytes) (f : α → β) :
    (Res.ok a r).map f = .ok (f a) r := rfl

theorem pVarint_enc (v : Nat) (rest : Bytes) (h : v < 2 ^ 62) :
    pVarint (encVarint v ++ rest) = .ok v rest := by
  simp [pVarint, decVarint_encVarint v rest h]

theorem pVarint_enc_nil (v : Nat) (h : v < 2 ^ 62) : pVarint (encVarint v) = .ok v [] := by
  have := pVarint_enc v [] h
  simpa using this

theorem pTakeS_append (bs rest : Bytes) (n : Nat) (h : bs.length = n) :
    pTakeS n (bs ++ rest) = .ok bs rest := by
  subst h; simp [pTakeS]

theorem pTakeC_append (bs rest : Bytes) (n : Nat) (h : bs.length = n) :
    pTakeC n (bs ++ rest) = .ok bs rest := by
  subst h; simp [pTakeC]

theorem pBeC_beBytes (w n : Nat) (rest : Bytes) (h : n < 256 ^ w) :
    pBeC w (beBytes w n ++ rest) = .ok n rest := by
  simp [pBeC, beVal_beBytes, Nat.mod_eq_of_lt h]

theorem pSockAddr_enc (a : SockAddr) (rest : Bytes)
    (hp : a.port < 2 ^ 16) (hip : a.ip < (if a.v6 then 2 ^ 128 else 2 ^ 32)) :
    pSockAddr a.v6 (encSockAddr a ++ rest) = .ok a rest := by
  obtain ⟨v6, ip, port⟩ := a
  simp only [pSockAddr, encSockAddr, List.append_assoc]
  rw [pBeC_beBytes 2 port _ (by simpa using hp)]
  cases v6
  · simp only [Bool.false_eq_true, ↓reduceIte] at hip ⊢
    rw [Res.bind_ok, pBeC_beBytes 4 ip _ (by omega)]; rfl
  · simp only [↓reduceIte] at hip ⊢
    rw [Res.bind_ok, pBeC_beBytes 16 ip _ (by omega)]; rfl

theorem encSockAddr_length (a : SockAddr) : (encSockAddr a).length = sockAddrSize a := by
  unfold encSockAddr sockAddrSize; cases a.v6 <;> simp

def wfRanges (rs : List (Nat × Nat)) : Prop := ∀ p ∈ rs, p.1 < 2 ^ 62 ∧ p.2 < 2 ^ 62

theorem pRanges_enc (rs : List (Nat × Nat)) (rest : Bytes) (h : wfRanges rs) :
    pRanges rs.length (encRanges rs ++ rest) = .ok rs rest := by
  induction rs with
  | nil => simp [pRanges, encRanges]
  | cons p tl ih =>
    obtain ⟨g, a⟩ := p
    have hp := h (g, a) (by simp)
    have htl : wfRanges tl := fun q hq => h q (by simp [hq])
    simp only [List.length_cons, pRanges, encRanges, List.append_assoc]
    rw [pVarint_enc g _ hp.1, Res.bind_ok, pVarint_enc a _ hp.2, Res.bind_ok, ih htl, Res.bind_ok]

theorem encRanges_length (rs : List (Nat × Nat)) : (encRanges rs).length = rangesSize rs := by
  induction rs with
  | nil => rfl
  | cons p tl ih =>
    obtain ⟨g, a⟩ := p
    simp [encRanges, rangesSize, encVarint_length, ih]; omega

theorem rangesSize_le (rs : List (Nat × Nat)) : rangesSize rs ≤ rs.length * 16 := by
  induction rs with
  | nil => simp [rangesSize]
  | cons p tl ih =>
    obtain ⟨g, a⟩ := p
    have := varintSize_le g; have := varintSize_le a
    simp only [rangesSize, List.length_cons]; omega

/-! ### frame-type table (generated): round trip and range -/

theorem frameType_roundtrip (t : FrameType) : frameTypeOfNat (natOfFrameType t) = some t := by
  cases t <;> first | rfl | (rename_i a; cases a <;> rfl) | (rename_i a b c; cases a <;> cases b <;> cases c <;> rfl)

theorem natOfFrameType_lt (t : FrameType) : natOfFrameType t < 2 ^ 30 := by
  cases t <;> first | decide | (rename_i a; cases a <;> decide) | (rename_i a b c; cases a <;> cases b <;> cases c <;> decide)

theorem decType_enc (t : FrameType) (rest : Bytes) : decType (encType t ++ rest) = .ok t rest := by
  have h := natOfFrameType_lt t
  simp [decType, encType, decVarint_encVarint _ rest (by omega : natOfFrameType t < 2 ^ 62),
    frameType_roundtrip]

theorem encType_length (t : FrameType) : (encType t).length = varintSize (natOfFrameType t) := by
  simp [encType, encVarint_length]

/-- the error-kind table (generated): round trip for every kind the Rust type can hold -/
theorem errKind_roundtrip_named (i : Nat) (h : i < errKindCount) :
    errKindOfNat (natOfErrKind (.named i)) = some (.named i) := by
  have : ∀ j : Fin errKindCount, errKindOfNat (natOfErrKind (.named j.val)) = some (.named j.val) := by decide
  exact this ⟨i, h⟩

theorem errKind_roundtrip_crypto (x : Nat) (h : x < 256) :
    errKindOfNat (natOfErrKind (.crypto x)) = some (.crypto x) := by
  have : ∀ j : Fin 256, errKindOfNat (natOfErrKind (.crypto j.val)) = some (.crypto j.val) := by decide +kernel
  exact this ⟨x, h⟩

theorem natOfErrKind_lt (k : EKind) : natOfErrKind k < 2 ^ 14 := by
  cases k with
  | named i =>
    by_cases h : i < errKindCount
    · have : ∀ j : Fin errKindCount, natOfErrKind (.named j.val) < 2 ^ 14 := by decide
      exact this ⟨i, h⟩
    · have : natOfErrKind (.named i) = 0 := by
        unfold natOfErrKind; split <;> simp_all [errKindCount]
      omega
  | crypto x =>
    have : ∀ j : Fin 256, natOfErrKind (.crypto j.val) < 2 ^ 14 := by decide +kernel
    have h := this ⟨x % 256, Nat.mod_lt _ (by decide)⟩
    simpa [natOfErrKind] using h

end GmQuic.Codec
