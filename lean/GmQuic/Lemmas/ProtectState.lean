import GmQuic.Lemmas.ProtectKeys
/-! C06: the key state `receive` leaves behind when it accepts. -/
namespace GmQuic.Protect
open GmQuic.Wire GmQuic.Pn

theorem accepted_state {K H : Type} (A : Aead K) (P : Hp H) (c : RxCfg K H) (dec : PacketNumber → DecodePn)
    (s : OneRtt K) (buf : Bytes) (off : Nat) (ty : PType) (pn : Nat) (kp : Bool) (aad body : Bytes)
    (h : (receive A P c dec s buf off).1 = .accepted ty pn kp aad body) :
    (receive A P c dec s buf off).2 = (rxKey c s ty kp).1 := by
  unfold receive at h ⊢
  split at h
  · simp at h
  · rename_i sp hsp
    split at h
    · simp at h
    · rename_i ty' hty
      simp only at h ⊢
      split at h
      · simp at h
      · rename_i hm
        rw [if_neg hm]
        split at h
        · simp at h
        · rename_i hr1
          rw [if_neg hr1]
          split at h
          · simp at h
          · simp at h
          · simp at h
          · simp at h
          · rename_i pn' hpn
            try rw [hpn]
            try simp only
            split at h
            · simp at h
            · rename_i s' k hk
              try rw [hk]
              try simp only
              split at h
              · simp at h
              · rename_i body' hopen
                try rw [hopen]
                try simp only
                split at h
                · simp at h
                · rename_i hr2
                  try rw [if_neg hr2]
                  simp only [Outcome.accepted.injEq] at h
                  obtain ⟨rfl, rfl, rfl, rfl, rfl⟩ := h
                  try rw [hk]

end GmQuic.Protect
