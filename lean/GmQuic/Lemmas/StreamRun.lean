import GmQuic.Lemmas.StreamInvR
/-!
C01 helper lemmas, part 4: `read` preserves `Inv`; `Inv` holds after every step and along every history.
-/
namespace GmQuic.Stream
open GmQuic.RecvBuf (Bytes covered)

theorem have_read {r r' : Recver} {cap : Nat} (hs : RecvBuf.StructInv r.buf)
    (hbuf : r'.buf = (RecvBuf.tryRead r.buf cap).1) (y : Nat) : Have r' y ↔ Have r y := by
  unfold Have; rw [hbuf]; exact RecvBuf.read_covered hs cap y

theorem inv_read_core {s : Stream} (h : Inv s) (cap : Nat) (r' : Recver) (msds' : List Nat) (e' : Bool)
    (hbuf : r'.buf = (RecvBuf.tryRead s.rcv.buf cap).1)
    (hfs : r'.finalSize = s.rcv.finalSize) (hlg : r'.largest = s.rcv.largest)
    (hgone : r'.gone = s.rcv.gone) (hpan : r'.panicked = s.rcv.panicked)
    (hst : r'.st = s.rcv.st ∨ (s.rcv.st = .dataRcvd ∧ r'.st = .dataRead ∧ r'.buf.segs = []))
    (hwin : s.rcv.maxSD ≤ r'.maxSD ∧ ∀ m ∈ msds', m ≤ r'.maxSD)
    (he : e' = true → s.eof = true ∨ (s.rcv.st = .dataRcvd ∧ (RecvBuf.tryRead s.rcv.buf cap).2 = [] ∧ cap > 0)) :
    Inv { s with rcv := r', msds := msds', out := s.out ++ (RecvBuf.tryRead s.rcv.buf cap).2, eof := e' } := by
  have hsi := ((RecvBuf.inv_iff' _ _).mp h.b1).1
  have hinv' := RecvBuf.read_inv' h.b1 cap
  have hlen := RecvBuf.read_len hsi cap
  have hnr' := hinv'.nread_le
  have hll' := hinv'.largest_le
  have hlsame : (RecvBuf.tryRead s.rcv.buf cap).1.largest = s.rcv.buf.largest := by rw [RecvBuf.tryRead_fst]
  have hsz : Sized r' → Sized s.rcv := by
    intro hz
    rcases hst with e | ⟨e1, _, _⟩
    · simpa [Sized, e] using hz
    · exact Or.inr (Or.inl e1)
  refine { a1 := h.a1, a2 := h.a2, a3 := h.a3, a4 := h.a4, a5 := h.a5, a6 := h.a6, a7 := h.a7, a8 := h.a8,
           b1 := ?_, b2 := ?_, b3 := ?_, b4 := ?_, b5 := ?_, b6 := ?_, b7 := ?_, b8 := h.b8, b9 := ?_ }
  · simp only [hbuf]; exact hinv'
  · simp only [hbuf]; exact RecvBuf.read_out h.b1 cap h.b2
  · intro hz
    obtain ⟨x1, x2⟩ := h.b3 (hsz hz)
    exact ⟨x1, by simp only [hfs]; exact x2⟩
  · constructor
    · intro hd y hy
      have hd0 : s.rcv.st = .dataRcvd := by
        rcases hst with e | ⟨_, e, _⟩
        · rw [← e]; exact hd
        · simp only at hd; rw [e] at hd; cases hd
      simp only [hfs] at hy
      exact (have_read hsi hbuf y).mpr (h.b4.1 hd0 y hy)
    · intro hd
      simp only at hd ⊢
      rw [hfs, hbuf]
      rcases hst with e | ⟨e1, _, e3⟩
      · have hd0 : s.rcv.st = .dataRead := by rw [← e]; exact hd
        have x1 := h.b4.2 hd0
        have x2 := (h.b3 (Or.inr (Or.inr hd0))).2
        omega
      · have x2 := (h.b3 (Or.inr (Or.inl e1))).2
        have hge : s.rcv.finalSize ≤ (RecvBuf.tryRead s.rcv.buf cap).1.nread := by
          by_cases h0 : s.rcv.finalSize = 0
          · omega
          · have hy := (have_read hsi hbuf (s.rcv.finalSize - 1)).mpr (h.b4.1 e1 _ (by omega))
            rcases hy with hy | ⟨seg, hm, _⟩
            · rw [hbuf] at hy; omega
            · rw [e3] at hm; simp at hm
        omega
  · intro hE
    simp only at hE ⊢
    rw [hbuf]
    rcases he hE with h0 | ⟨e1, e2, e3⟩
    · obtain ⟨x1, x2, x3⟩ := h.b5 h0
      exact ⟨x1, by omega, x3⟩
    · obtain ⟨x1, x2⟩ := h.b3 (Or.inr (Or.inl e1))
      have hall := (allRcvd_iff h.b1 (by have := h.b1.largest_le; omega)).mpr (h.b4.1 e1)
      unfold Recver.allRcvd at hall
      simp only [beq_iff_eq] at hall
      rw [e2] at hlen
      simp only [List.length_nil] at hlen
      refine ⟨(h.a4 x1).1, by omega, x1⟩
  · simp only [hlg]; exact h.b6
  · refine ⟨fun hg => ?_, by simp only [hpan]; exact h.b7.2⟩
    simp only [hgone] at hg
    rcases h.b7.1 hg with x | x
    · rcases hst with e | ⟨e1, _, _⟩
      · left; simp only [e]; exact x
      · rw [x] at e1; cases e1
    · rcases hst with e | ⟨e1, _, _⟩
      · right; simp only [e]; exact x
      · rw [x] at e1; cases e1
  · exact ⟨by have := h.b9.1; simp only; omega, hwin.2⟩

theorem read_nonempty {s : Stream} (h : Inv s) (cap : Nat) (hr : RecvBuf.isReadable s.rcv.buf = true) (hc : cap > 0) :
    (RecvBuf.tryRead s.rcv.buf cap).2 ≠ [] := by
  have hsi := ((RecvBuf.inv_iff' _ _).mp h.b1).1
  have hlen := (RecvBuf.read_len hsi cap).1
  have := readable_available hsi hr
  intro h0
  rw [h0] at hlen
  simp only [List.length_nil] at hlen
  omega

theorem eof_flag {s : Stream} (h : Inv s) (cap : Nat) (hr : RecvBuf.isReadable s.rcv.buf = true) :
    (s.eof || ((RecvBuf.tryRead s.rcv.buf cap).2.isEmpty && decide (cap > 0))) = true → s.eof = true ∨
      (s.rcv.st = .dataRcvd ∧ (RecvBuf.tryRead s.rcv.buf cap).2 = [] ∧ cap > 0) := by
  intro hE
  simp only [Bool.or_eq_true, Bool.and_eq_true, List.isEmpty_iff, decide_eq_true_eq] at hE
  rcases hE with h0 | ⟨h1, h2⟩
  · exact Or.inl h0
  · exact absurd h1 (read_nonempty h cap hr h2)

theorem inv_read_plain {s : Stream} (h : Inv s) (cap : Nat) (st' : RSt) (hst' : st' = s.rcv.st) (e' : Bool)
    (m : Nat) (msds' : List Nat) (hm : s.rcv.maxSD ≤ m ∧ ∀ x ∈ msds', x ≤ m)
    (hr : RecvBuf.isReadable s.rcv.buf = true) :
    Inv { s with rcv := { s.rcv with st := st', err := e', buf := (RecvBuf.tryRead s.rcv.buf cap).1, maxSD := m },
                 msds := msds', out := s.out ++ (RecvBuf.tryRead s.rcv.buf cap).2,
                 eof := s.eof || ((RecvBuf.tryRead s.rcv.buf cap).2.isEmpty && decide (cap > 0)) } :=
  inv_read_core h cap _ _ _ rfl rfl rfl rfl rfl (Or.inl hst') hm (eof_flag h cap hr)

theorem inv_read_drcvd {s : Stream} (h : Inv s) (cap : Nat) (hst : s.rcv.st = .dataRcvd) (e' : Bool) :
    Inv { s with rcv := { s.rcv with err := e', buf := (RecvBuf.tryRead s.rcv.buf cap).1,
                                     st := if (RecvBuf.tryRead s.rcv.buf cap).1.segs.isEmpty = true then .dataRead else .dataRcvd },
                 msds := s.msds, out := s.out ++ (RecvBuf.tryRead s.rcv.buf cap).2,
                 eof := s.eof || ((RecvBuf.tryRead s.rcv.buf cap).2.isEmpty && decide (cap > 0)) } := by
  refine inv_read_core h cap _ _ _ rfl rfl rfl rfl rfl ?_ ⟨Nat.le_refl _, h.b9.2⟩ ?_
  · simp only
    split
    · rename_i hemp
      right
      exact ⟨hst, rfl, by simpa using hemp⟩
    · left; exact hst.symm
  · intro hE
    simp only [Bool.or_eq_true, Bool.and_eq_true, List.isEmpty_iff, decide_eq_true_eq] at hE
    rcases hE with h0 | ⟨h1, h2⟩
    · exact Or.inl h0
    · exact Or.inr ⟨hst, h1, h2⟩

theorem inv_read {s : Stream} (h : Inv s) (cap : Nat) : Inv (s.step (.read cap)) := by
  simp only [Stream.step]
  unfold Recver.read
  by_cases he : s.rcv.err = true
  · simp only [he, if_true]; exact h
  simp only [he, Bool.false_eq_true, if_false]
  cases hst : s.rcv.st <;> simp only []
  · -- Recv
    by_cases hr : RecvBuf.isReadable s.rcv.buf = true
    · simp only [hr, Bool.not_true, Bool.false_eq_true, if_false]
      have hmsd := h.b9.2
      by_cases c1 : (RecvBuf.tryRead s.rcv.buf cap).1.nread + msdThreshold > s.rcv.maxSD
      · by_cases c2 : min ((RecvBuf.tryRead s.rcv.buf cap).1.nread + msdThreshold * 2) varintMax > s.rcv.maxSD
        · simp only [c1, c2, if_true]
          refine inv_read_plain h cap _ hst.symm _ _ _ ⟨by omega, ?_⟩ hr
          intro m hm
          simp only [List.mem_append, List.mem_singleton] at hm
          rcases hm with hm | hm
          · have := hmsd m hm; omega
          · simp only [hm]; exact Nat.le_refl _
        · simp only [c1, c2, if_true, if_false]
          exact inv_read_plain h cap _ hst.symm _ _ _ ⟨Nat.le_refl _, hmsd⟩ hr
      · simp only [c1, if_false]
        exact inv_read_plain h cap _ hst.symm _ _ _ ⟨Nat.le_refl _, hmsd⟩ hr
    · simp only [hr, Bool.not_false, if_true]; exact h
  · -- SizeKnown
    by_cases hr : RecvBuf.isReadable s.rcv.buf = true
    · simp only [hr, Bool.not_true, Bool.false_eq_true, if_false]
      exact inv_read_plain h cap _ hst.symm _ _ _ ⟨Nat.le_refl _, h.b9.2⟩ hr
    · simp only [hr, Bool.not_false, if_true]; exact h
  · -- DataRcvd
    exact inv_read_drcvd h cap hst _
  · -- DataRead: `Ready(Ok)` with nothing
    have hd := h.b4.2 hst
    obtain ⟨x1, x2⟩ := h.b3 (Or.inr (Or.inr hst))
    refine { h with b2 := by simpa using h.b2, b5 := fun _ => ⟨(h.a4 x1).1, by simp only; omega, x1⟩ }
  · -- ResetRcvd → ResetRead
    have hg : s.rcv.gone = true := by
      cases hx : s.rcv.gone
      · rcases h.b7.1 hx with x | x <;> rw [hst] at x <;> cases x
      · rfl
    exact { h with b3 := fun hz => by simp [Sized] at hz, b4 := ⟨fun x => by simp at x, fun x => by simp at x⟩,
                   b7 := ⟨fun x => by simp [hg] at x, h.b7.2⟩ }
  · exact h

/-! ### every step, every history -/

theorem inv_step {s : Stream} (h : Inv s) (op : Op) : Inv (s.step op) := by
  cases op with
  | write bs => exact inv_write h bs
  | shutdown => exact inv_shutdown h
  | pick off len => exact inv_pick h off len
  | touch => exact inv_touch h
  | deliver i => exact inv_deliver h i
  | ack i => exact inv_ack h i
  | lose i => exact inv_lose h i
  | read cap => exact inv_read h cap
  | cancel => exact inv_cancel h
  | stop => exact inv_stop h
  | deliverStop => exact inv_deliverStop h
  | deliverReset i => exact inv_deliverReset h i
  | ackReset => exact inv_ackReset h
  | deliverMsd i => exact inv_msd h i
  | connErrorSnd => exact inv_connErrSnd h
  | connErrorRcv => exact inv_connErrRcv h

theorem inv_run {s : Stream} (h : Inv s) (ops : List Op) : Inv (s.run ops) := by
  induction ops generalizing s with
  | nil => exact h
  | cons op ops ih => exact ih (inv_step h op)

theorem run_append (s : Stream) (a b : List Op) : s.run (a ++ b) = (s.run a).run b := by
  simp [Stream.run, List.foldl_append]

end GmQuic.Stream
