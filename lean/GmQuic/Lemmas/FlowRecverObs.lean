import GmQuic.Lemmas.FlowRcvr
/-!
Helper lemmas for C11 about what `Rcvr.rx` answers (used by `Props/C11.lean`, Part 4).
-/
namespace GmQuic.StreamWindow
open GmQuic.Flow

theorem RecvHalf.rx_over (h : RecvHalf) (off len : Nat) (fin : Bool) (hb : h.Bnd)
    (hd : h.phase ≠ .done) (ho : off + len > h.msd) : ∀ n, (h.rx true off len fin).2 ≠ .fresh n := by
  intro n
  unfold RecvHalf.rx
  cases hph : h.phase with
  | recv =>
    cases fin
    · simp only [Bool.false_eq_true, ↓reduceIte, ho]; simp
    · simp only [↓reduceIte]
      split
      · simp
      · simp only [true_and, ho, ↓reduceIte]; simp
  | sizeKnown fs =>
    have hb2 := hb.2; simp only [hph] at hb2
    have : off + len > fs := by omega
    simp only [this, ↓reduceIte]; simp
  | done => exact absurd hph hd

/-- What `DataStreams::recv_data` answers depends on the receiving half and on whether a RESET_STREAM
was accepted — on nothing else (in particular not on `stop_state`). -/
theorem Rcvr.rx_obs (fixed : Bool) (r : Rcvr) (off len : Nat) (fin : Bool) (hr : r.rst = none) :
    (r.rx fixed off len fin).2 = (r.half.rx fixed off len fin).2 := by
  unfold Rcvr.rx
  simp only [hr, Option.isSome_none, Bool.false_eq_true, ↓reduceIte]
  split
  · rename_i n hn; exact hn.symm
  · rfl

theorem Rcvr.live_iff (r : Rcvr) : r.live = true ↔ r.rst = none ∧ r.half.phase ≠ .done := by
  unfold Rcvr.live
  cases r.rst <;> cases r.half.phase <;> simp

theorem Rcvr.rx_congr (fixed : Bool) (r r' : Rcvr) (h1 : r'.half = r.half) (h2 : r'.rst = r.rst)
    (h3 : r'.charged = r.charged) (off len : Nat) (fin : Bool) :
    (r'.rx fixed off len fin).2 = (r.rx fixed off len fin).2 ∧
    (r'.rx fixed off len fin).1.half = (r.rx fixed off len fin).1.half ∧
    (r'.rx fixed off len fin).1.charged = (r.rx fixed off len fin).1.charged := by
  unfold Rcvr.rx
  rw [h1, h2]
  split
  · exact ⟨rfl, h1, h3⟩
  · dsimp only
    split
    · exact ⟨rfl, rfl, congrArg (· + _) h3⟩
    · exact ⟨rfl, rfl, h3⟩

theorem Rcvr.stop_fields (r : Rcvr) (code : Nat) :
    (r.stop code).1.half = r.half ∧ (r.stop code).1.rst = r.rst ∧ (r.stop code).1.charged = r.charged := by
  unfold Rcvr.stop
  split
  · exact ⟨rfl, rfl, rfl⟩
  · split
    · exact ⟨rfl, rfl, rfl⟩
    · split <;> exact ⟨rfl, rfl, rfl⟩

end GmQuic.StreamWindow
